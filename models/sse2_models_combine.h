/* sse2_models_combine.h — C02: trusted C models of the `__builtin_ia32_*` builtins that gcc's
 * <emmintrin.h>/<tmmintrin.h> use for the intrinsics of pixman-sse2.c / pixman-ssse3.c.
 *
 * Include BEFORE the pixman source (and before any <*mmintrin.h>), under VH_CBMC only: the
 * native replay uses the real instructions.  goto-cc preprocesses the compiler's own intrinsic
 * headers; every intrinsic that gcc 12 writes as a plain vector expression (and/or/xor, add,
 * mullo, cmpeq, cmpgt, set, setzero, loadu, storeu, cvtsi32) keeps the header's own lane
 * semantics; the ones written as builtin calls are re-routed by the macros below to the models.
 *
 * Each model is the "Operation" pseudo-code of the Intel SDM vol. 2 entry named in its comment,
 * lane by lane, nothing else.  tools: harness/C02/models_selftest.c compares every model with the
 * real instruction natively (same file compiled with gcc -msse2 -mssse3, models under vc_ names).
 *
 * Aligned load/store obligations (MOVDQA #GP): models/sse2_models.h (written for C19) is reused.
 */
#ifndef SSE2_MODELS_COMBINE_H
#define SSE2_MODELS_COMBINE_H

typedef long long vc_v2di __attribute__ ((__vector_size__ (16)));
typedef int vc_v4si __attribute__ ((__vector_size__ (16)));
typedef short vc_v8hi __attribute__ ((__vector_size__ (16)));
typedef char vc_v16qi __attribute__ ((__vector_size__ (16)));
typedef int vc_v2si __attribute__ ((__vector_size__ (8)));
typedef short vc_v4hi __attribute__ ((__vector_size__ (8)));

#define VC_U8(x)  ((unsigned) (unsigned char) (x))
#define VC_U16(x) ((unsigned) (unsigned short) (x))

/* PACKSSDW xmm, xmm: signed dwords -> signed-saturated words; a fills words 0..3, b words 4..7 */
static inline short vc_sat_s16 (int x) { return (short) (x > 32767 ? 32767 : x < -32768 ? -32768 : x); }
static inline vc_v8hi vc_packssdw128 (vc_v4si a, vc_v4si b)
{
    vc_v8hi r;
    r[0] = vc_sat_s16 (a[0]); r[1] = vc_sat_s16 (a[1]); r[2] = vc_sat_s16 (a[2]); r[3] = vc_sat_s16 (a[3]);
    r[4] = vc_sat_s16 (b[0]); r[5] = vc_sat_s16 (b[1]); r[6] = vc_sat_s16 (b[2]); r[7] = vc_sat_s16 (b[3]);
    return r;
}

/* PACKUSWB xmm, xmm: signed words -> unsigned-saturated bytes; a fills bytes 0..7, b bytes 8..15 */
static inline char vc_sat_u8 (short x) { return (char) (unsigned char) (x > 255 ? 255 : x < 0 ? 0 : x); }
static inline vc_v16qi vc_packuswb128 (vc_v8hi a, vc_v8hi b)
{
    vc_v16qi r;
    r[0] = vc_sat_u8 (a[0]); r[1] = vc_sat_u8 (a[1]); r[2] = vc_sat_u8 (a[2]); r[3] = vc_sat_u8 (a[3]);
    r[4] = vc_sat_u8 (a[4]); r[5] = vc_sat_u8 (a[5]); r[6] = vc_sat_u8 (a[6]); r[7] = vc_sat_u8 (a[7]);
    r[8] = vc_sat_u8 (b[0]); r[9] = vc_sat_u8 (b[1]); r[10] = vc_sat_u8 (b[2]); r[11] = vc_sat_u8 (b[3]);
    r[12] = vc_sat_u8 (b[4]); r[13] = vc_sat_u8 (b[5]); r[14] = vc_sat_u8 (b[6]); r[15] = vc_sat_u8 (b[7]);
    return r;
}

/* PADDUSB: unsigned saturating byte add */
static inline char vc_addus8 (char x, char y)
{
    unsigned t = VC_U8 (x) + VC_U8 (y);
    return (char) (unsigned char) (t > 255u ? 255u : t);
}
static inline vc_v16qi vc_paddusb128 (vc_v16qi a, vc_v16qi b)
{
    vc_v16qi r;
    r[0] = vc_addus8 (a[0], b[0]); r[1] = vc_addus8 (a[1], b[1]); r[2] = vc_addus8 (a[2], b[2]); r[3] = vc_addus8 (a[3], b[3]);
    r[4] = vc_addus8 (a[4], b[4]); r[5] = vc_addus8 (a[5], b[5]); r[6] = vc_addus8 (a[6], b[6]); r[7] = vc_addus8 (a[7], b[7]);
    r[8] = vc_addus8 (a[8], b[8]); r[9] = vc_addus8 (a[9], b[9]); r[10] = vc_addus8 (a[10], b[10]); r[11] = vc_addus8 (a[11], b[11]);
    r[12] = vc_addus8 (a[12], b[12]); r[13] = vc_addus8 (a[13], b[13]); r[14] = vc_addus8 (a[14], b[14]); r[15] = vc_addus8 (a[15], b[15]);
    return r;
}

/* PADDUSW: unsigned saturating word add */
static inline short vc_addus16 (short x, short y)
{
    unsigned t = VC_U16 (x) + VC_U16 (y);
    return (short) (unsigned short) (t > 65535u ? 65535u : t);
}
static inline vc_v8hi vc_paddusw128 (vc_v8hi a, vc_v8hi b)
{
    vc_v8hi r;
    r[0] = vc_addus16 (a[0], b[0]); r[1] = vc_addus16 (a[1], b[1]); r[2] = vc_addus16 (a[2], b[2]); r[3] = vc_addus16 (a[3], b[3]);
    r[4] = vc_addus16 (a[4], b[4]); r[5] = vc_addus16 (a[5], b[5]); r[6] = vc_addus16 (a[6], b[6]); r[7] = vc_addus16 (a[7], b[7]);
    return r;
}

/* PMADDWD: dword i = a.w[2i]*b.w[2i] + a.w[2i+1]*b.w[2i+1] (signed words; wraps only for 0x8000^2 twice) */
static inline int vc_madd1 (short a0, short b0, short a1, short b1)
{
    return (int) ((unsigned) ((int) a0 * (int) b0) + (unsigned) ((int) a1 * (int) b1));
}
static inline vc_v4si vc_pmaddwd128 (vc_v8hi a, vc_v8hi b)
{
    vc_v4si r;
    r[0] = vc_madd1 (a[0], b[0], a[1], b[1]); r[1] = vc_madd1 (a[2], b[2], a[3], b[3]);
    r[2] = vc_madd1 (a[4], b[4], a[5], b[5]); r[3] = vc_madd1 (a[6], b[6], a[7], b[7]);
    return r;
}

/* PMOVMSKB: bit i = most significant bit of byte i */
static inline int vc_pmovmskb128 (vc_v16qi a)
{
    return (int) ((VC_U8 (a[0]) >> 7) | ((VC_U8 (a[1]) >> 7) << 1) | ((VC_U8 (a[2]) >> 7) << 2) | ((VC_U8 (a[3]) >> 7) << 3) |
                  ((VC_U8 (a[4]) >> 7) << 4) | ((VC_U8 (a[5]) >> 7) << 5) | ((VC_U8 (a[6]) >> 7) << 6) | ((VC_U8 (a[7]) >> 7) << 7) |
                  ((VC_U8 (a[8]) >> 7) << 8) | ((VC_U8 (a[9]) >> 7) << 9) | ((VC_U8 (a[10]) >> 7) << 10) | ((VC_U8 (a[11]) >> 7) << 11) |
                  ((VC_U8 (a[12]) >> 7) << 12) | ((VC_U8 (a[13]) >> 7) << 13) | ((VC_U8 (a[14]) >> 7) << 14) | ((VC_U8 (a[15]) >> 7) << 15));
}

/* PMULHUW: high 16 bits of the unsigned 16x16 product */
static inline short vc_mulhu16 (short x, short y) { return (short) (unsigned short) ((VC_U16 (x) * VC_U16 (y)) >> 16); }
static inline vc_v8hi vc_pmulhuw128 (vc_v8hi a, vc_v8hi b)
{
    vc_v8hi r;
    r[0] = vc_mulhu16 (a[0], b[0]); r[1] = vc_mulhu16 (a[1], b[1]); r[2] = vc_mulhu16 (a[2], b[2]); r[3] = vc_mulhu16 (a[3], b[3]);
    r[4] = vc_mulhu16 (a[4], b[4]); r[5] = vc_mulhu16 (a[5], b[5]); r[6] = vc_mulhu16 (a[6], b[6]); r[7] = vc_mulhu16 (a[7], b[7]);
    return r;
}

/* PSHUFD: dword i = a.dw[imm8[2i+1:2i]] */
static inline vc_v4si vc_pshufd (vc_v4si a, int imm)
{
    vc_v4si r;
    r[0] = a[imm & 3]; r[1] = a[(imm >> 2) & 3]; r[2] = a[(imm >> 4) & 3]; r[3] = a[(imm >> 6) & 3];
    return r;
}
/* PSHUFLW: low 4 words shuffled by imm8, high quadword copied */
static inline vc_v8hi vc_pshuflw (vc_v8hi a, int imm)
{
    vc_v8hi r;
    r[0] = a[imm & 3]; r[1] = a[(imm >> 2) & 3]; r[2] = a[(imm >> 4) & 3]; r[3] = a[(imm >> 6) & 3];
    r[4] = a[4]; r[5] = a[5]; r[6] = a[6]; r[7] = a[7];
    return r;
}
/* PSHUFHW: high 4 words shuffled by imm8 (indices relative to word 4), low quadword copied */
static inline vc_v8hi vc_pshufhw (vc_v8hi a, int imm)
{
    vc_v8hi r;
    r[0] = a[0]; r[1] = a[1]; r[2] = a[2]; r[3] = a[3];
    r[4] = a[4 + (imm & 3)]; r[5] = a[4 + ((imm >> 2) & 3)]; r[6] = a[4 + ((imm >> 4) & 3)]; r[7] = a[4 + ((imm >> 6) & 3)];
    return r;
}

/* PSLLD / PSRLD / PSRAD / PSRLW xmm, imm8: counts above the lane width give 0 (logical) or sign fill
 * (arithmetic).  The count is an imm8: the model carries "0 <= count <= 255" as an obligation. */
#define VC_IMM8_OK(c) __CPROVER_assert ((c) >= 0 && (c) <= 255, "sse2.shift_count_is_an_imm8")
static inline vc_v4si vc_pslldi128 (vc_v4si a, int c)
{
    vc_v4si r;
    VC_IMM8_OK (c);
    r[0] = c > 31 ? 0 : (int) ((unsigned) a[0] << c); r[1] = c > 31 ? 0 : (int) ((unsigned) a[1] << c);
    r[2] = c > 31 ? 0 : (int) ((unsigned) a[2] << c); r[3] = c > 31 ? 0 : (int) ((unsigned) a[3] << c);
    return r;
}
static inline vc_v4si vc_psrldi128 (vc_v4si a, int c)
{
    vc_v4si r;
    VC_IMM8_OK (c);
    r[0] = c > 31 ? 0 : (int) ((unsigned) a[0] >> c); r[1] = c > 31 ? 0 : (int) ((unsigned) a[1] >> c);
    r[2] = c > 31 ? 0 : (int) ((unsigned) a[2] >> c); r[3] = c > 31 ? 0 : (int) ((unsigned) a[3] >> c);
    return r;
}
static inline int vc_sra32 (int x, int c)
{
    /* arithmetic shift written without relying on implementation-defined >> of negatives */
    unsigned u = (unsigned) x, s = c > 31 ? 31u : (unsigned) c;
    unsigned fill = (u >> 31) ? (s ? ~0u << (32u - s) : 0u) : 0u;
    return (int) ((u >> s) | fill);
}
static inline vc_v4si vc_psradi128 (vc_v4si a, int c)
{
    vc_v4si r;
    VC_IMM8_OK (c);
    r[0] = vc_sra32 (a[0], c); r[1] = vc_sra32 (a[1], c); r[2] = vc_sra32 (a[2], c); r[3] = vc_sra32 (a[3], c);
    return r;
}
static inline short vc_srl16 (short x, int c) { return (short) (unsigned short) (c > 15 ? 0u : VC_U16 (x) >> c); }
static inline vc_v8hi vc_psrlwi128 (vc_v8hi a, int c)
{
    vc_v8hi r;
    VC_IMM8_OK (c);
    r[0] = vc_srl16 (a[0], c); r[1] = vc_srl16 (a[1], c); r[2] = vc_srl16 (a[2], c); r[3] = vc_srl16 (a[3], c);
    r[4] = vc_srl16 (a[4], c); r[5] = vc_srl16 (a[5], c); r[6] = vc_srl16 (a[6], c); r[7] = vc_srl16 (a[7], c);
    return r;
}

/* PUNPCKLBW / PUNPCKHBW: interleave the low / high 8 bytes: a0 b0 a1 b1 ... */
static inline vc_v16qi vc_punpcklbw128 (vc_v16qi a, vc_v16qi b)
{
    vc_v16qi r;
    r[0] = a[0]; r[1] = b[0]; r[2] = a[1]; r[3] = b[1]; r[4] = a[2]; r[5] = b[2]; r[6] = a[3]; r[7] = b[3];
    r[8] = a[4]; r[9] = b[4]; r[10] = a[5]; r[11] = b[5]; r[12] = a[6]; r[13] = b[6]; r[14] = a[7]; r[15] = b[7];
    return r;
}
static inline vc_v16qi vc_punpckhbw128 (vc_v16qi a, vc_v16qi b)
{
    vc_v16qi r;
    r[0] = a[8]; r[1] = b[8]; r[2] = a[9]; r[3] = b[9]; r[4] = a[10]; r[5] = b[10]; r[6] = a[11]; r[7] = b[11];
    r[8] = a[12]; r[9] = b[12]; r[10] = a[13]; r[11] = b[13]; r[12] = a[14]; r[13] = b[14]; r[14] = a[15]; r[15] = b[15];
    return r;
}
/* PUNPCKLWD / PUNPCKHWD: interleave the low / high 4 words */
static inline vc_v8hi vc_punpcklwd128 (vc_v8hi a, vc_v8hi b)
{
    vc_v8hi r;
    r[0] = a[0]; r[1] = b[0]; r[2] = a[1]; r[3] = b[1]; r[4] = a[2]; r[5] = b[2]; r[6] = a[3]; r[7] = b[3];
    return r;
}
static inline vc_v8hi vc_punpckhwd128 (vc_v8hi a, vc_v8hi b)
{
    vc_v8hi r;
    r[0] = a[4]; r[1] = b[4]; r[2] = a[5]; r[3] = b[5]; r[4] = a[6]; r[5] = b[6]; r[6] = a[7]; r[7] = b[7];
    return r;
}
/* PUNPCKLQDQ: low quadwords of a and b */
static inline vc_v2di vc_punpcklqdq128 (vc_v2di a, vc_v2di b)
{
    vc_v2di r;
    r[0] = a[0]; r[1] = b[0];
    return r;
}
/* MOVD r32, xmm / PEXTRD: dword i */
static inline int vc_vec_ext_v4si (vc_v4si a, int i)
{
    __CPROVER_assert (i >= 0 && i <= 3, "sse2.vec_ext_index_in_range");
    return a[i];
}

/* ---- SSSE3 (pixman-ssse3.c): PSHUFB xmm: byte i = (b[i] & 0x80) ? 0 : a[b[i] & 15] */
static inline char vc_shufb1 (vc_v16qi a, char sel) { return (VC_U8 (sel) & 0x80u) ? (char) 0 : a[VC_U8 (sel) & 15u]; }
static inline vc_v16qi vc_pshufb128 (vc_v16qi a, vc_v16qi b)
{
    vc_v16qi r;
    r[0] = vc_shufb1 (a, b[0]); r[1] = vc_shufb1 (a, b[1]); r[2] = vc_shufb1 (a, b[2]); r[3] = vc_shufb1 (a, b[3]);
    r[4] = vc_shufb1 (a, b[4]); r[5] = vc_shufb1 (a, b[5]); r[6] = vc_shufb1 (a, b[6]); r[7] = vc_shufb1 (a, b[7]);
    r[8] = vc_shufb1 (a, b[8]); r[9] = vc_shufb1 (a, b[9]); r[10] = vc_shufb1 (a, b[10]); r[11] = vc_shufb1 (a, b[11]);
    r[12] = vc_shufb1 (a, b[12]); r[13] = vc_shufb1 (a, b[13]); r[14] = vc_shufb1 (a, b[14]); r[15] = vc_shufb1 (a, b[15]);
    return r;
}

#ifndef VC_MODELS_SELFTEST
#define __builtin_ia32_packssdw128  vc_packssdw128
#define __builtin_ia32_packuswb128  vc_packuswb128
#define __builtin_ia32_paddusb128   vc_paddusb128
#define __builtin_ia32_paddusw128   vc_paddusw128
#define __builtin_ia32_pmaddwd128   vc_pmaddwd128
#define __builtin_ia32_pmovmskb128  vc_pmovmskb128
#define __builtin_ia32_pmulhuw128   vc_pmulhuw128
#define __builtin_ia32_pshufd       vc_pshufd
#define __builtin_ia32_pshufhw      vc_pshufhw
#define __builtin_ia32_pshuflw      vc_pshuflw
#define __builtin_ia32_pslldi128    vc_pslldi128
#define __builtin_ia32_psradi128    vc_psradi128
#define __builtin_ia32_psrldi128    vc_psrldi128
#define __builtin_ia32_psrlwi128    vc_psrlwi128
#define __builtin_ia32_punpckhbw128 vc_punpckhbw128
#define __builtin_ia32_punpckhwd128 vc_punpckhwd128
#define __builtin_ia32_punpcklbw128 vc_punpcklbw128
#define __builtin_ia32_punpcklqdq128 vc_punpcklqdq128
#define __builtin_ia32_punpcklwd128 vc_punpcklwd128
#define __builtin_ia32_vec_ext_v4si vc_vec_ext_v4si
#define __builtin_ia32_pshufb128    vc_pshufb128
/* aligned load/store obligations (C19's models); it includes <emmintrin.h> with the macros above active */
#include "sse2_models.h"
#endif

#endif
