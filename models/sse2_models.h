/* sse2_models.h — C19: what the verifier needs to run pixman-sse2.c's sse2_fill / sse2_blt.
 * Included BEFORE pixman-sse2.c, under VH_CBMC only (native replay uses the real intrinsics).
 *
 * With gcc's <emmintrin.h> (which goto-cc preprocesses) the intrinsics these two functions
 * use need NO __builtin_ia32_* at all:
 *     _mm_set_epi32      -> a vector literal
 *     _mm_loadu_si128    -> *(__m128i_u *) p            (plain 16-byte load, no alignment)
 *     _mm_store_si128    -> *(__m128i *) p = v           (plain 16-byte store)
 * CBMC gives vector types their element-wise C meaning, so the lane semantics are the
 * compiler header's own.  What is lost in that reading is the ALIGNMENT requirement of
 * MOVDQA (Intel SDM vol. 2B, MOVDQA: #GP if a memory operand is not aligned on a 16-byte
 * boundary).  The two aligned accessors are therefore re-routed to models that carry the
 * alignment as an obligation and then do the same plain load/store:
 */
#ifndef SSE2_MODELS_H
#define SSE2_MODELS_H
#include <emmintrin.h>
#include <stdint.h>

static inline void vc_mm_store_si128 (__m128i *p, __m128i v)
{
    __CPROVER_assert (((uintptr_t) p & 15) == 0, "sse2.aligned_store_address_is_16_byte_aligned");
    *p = v;
}
static inline __m128i vc_mm_load_si128 (const __m128i *p)
{
    __CPROVER_assert (((uintptr_t) p & 15) == 0, "sse2.aligned_load_address_is_16_byte_aligned");
    return *p;
}
#define _mm_store_si128 vc_mm_store_si128
#define _mm_load_si128  vc_mm_load_si128
#endif
