/* rq_env.h — environment of the region TU for the C07 harnesses.
 *
 * pixman-region{16,32}.c call two things that live in other translation units:
 *   _pixman_log_error (pixman-utils.c)        -> counted here: a fired
 *       critical_if_fail / return_if_fail / "Invalid rectangle" is observable as
 *       rq_log_errors != 0 and every harness states "post.no_error_logged";
 *   pixman_image_get_{data,width,height,stride} (pixman-image.c) -> field reads of
 *       a BITS image as documented in pixman.h (stride in bytes).  These four
 *       getters are the only modelled code (listed in META.trusted_base); linking
 *       the real pixman-image.c would drag in the whole image/iterator stack for
 *       the native replay.
 * Include AFTER the real region .c file.
 */
#ifndef RQ_ENV_H
#define RQ_ENV_H

static int rq_log_errors;

void
_pixman_log_error (const char *function, const char *message)
{
    (void) function;
    (void) message;
    rq_log_errors++;
}

uint32_t *
pixman_image_get_data (pixman_image_t *image)
{
    return image->type == BITS ? image->bits.bits : (uint32_t *) 0;
}

int
pixman_image_get_width (pixman_image_t *image)
{
    return image->type == BITS ? image->bits.width : 0;
}

int
pixman_image_get_height (pixman_image_t *image)
{
    return image->type == BITS ? image->bits.height : 0;
}

int
pixman_image_get_stride (pixman_image_t *image)
{
    return image->type == BITS ? image->bits.rowstride * (int) sizeof (uint32_t) : 0;
}

#endif
