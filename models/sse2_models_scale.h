/* sse2_models_scale.h — C02 (helper sscl): trusted C models of the `__builtin_ia32_*` builtins the SCALED scanline code of
 * pixman-sse2.c / pixman-ssse3.c needs on top of models/sse2_models_combine.h.
 *
 * Include BEFORE the pixman source, under VH_CBMC only (the native replay runs the real instructions).
 *
 * What the scaled SSE2 code uses and where its meaning comes from (gcc 12 <emmintrin.h>, preprocessed by goto-cc):
 *   _mm_loadl_epi64 (MOVQ xmm, m64)    -> _mm_set_epi64 ((__m64) 0, *(__m64_u *) p): NOT usable under CBMC, modelled below (vc_movq_load)
 *   _mm_mullo_epi16 (PMULLW)           -> (__v8hu) a * (__v8hu) b                   : element-wise C arithmetic modulo 2^16
 *   _mm_add_epi16 / _mm_sub_epi16 / _mm_and_si128 / _mm_or_si128 / _mm_cmplt_epi16 / _mm_set_epi16 / _mm_setzero_si128
 *                                      -> vector expressions / literals
 *   _mm_storel_epi64 (MOVQ m64, xmm)   -> *(__m64_u *) p = (__m64) ((__v2di) b)[0]: same vector/scalar cast, modelled below (vc_movq_store)
 *   _mm_unpacklo_epi8 / _mm_unpackhi_epi8 / _mm_unpacklo_epi16 / _mm_unpackhi_epi16 / _mm_unpacklo_epi64, _mm_srli_epi16 /
 *   _mm_srli_epi32, _mm_madd_epi16, _mm_mulhi_epu16, _mm_packs_epi32, _mm_packus_epi16, _mm_shuffle_epi32, _mm_cvtsi128_si32
 *                                      -> builtin calls, modelled in sse2_models_combine.h (reused unchanged)
 * i.e. the SSE2 bilinear / nearest scanline functions need, beyond sse2_models_combine.h, only the MOVQ load.  New here are
 * also the two SSSE3 builtins of pixman-ssse3.c (ssse3_fetch_horizontal / ssse3_fetch_bilinear_cover):
 *
 *   PMADDUBSW xmm, xmm (_mm_maddubs_epi16)   Intel SDM vol. 2B "PMADDUBSW - Multiply and Add Packed Signed and Unsigned Bytes":
 *        DEST[16i+15:16i] = SaturateToSignedWord (SRC[16i+15:16i+8] * DEST[16i+15:16i+8] + SRC[16i+7:16i] * DEST[16i+7:16i]),
 *        the bytes of the FIRST operand (DEST) zero-extended (unsigned), those of the second (SRC) sign-extended
 *   PABSW xmm, xmm (_mm_abs_epi16)           Intel SDM vol. 2B "PABSB/PABSW/PABSD": DEST word = ABS (SRC word) as an unsigned
 *        16-bit result (ABS (-32768) = 0x8000)
 *
 * harness/C02/sscl_models_selftest.c compares each model with the real instruction natively (job sscl.models.selftest).
 */
#ifndef SSE2_MODELS_SCALE_H
#define SSE2_MODELS_SCALE_H

#ifdef VC_MODELS_SELFTEST
/* self-test build: the vc_ types and helpers of sse2_models_combine.h are already there (included by the test) */
#else
#include "sse2_models_combine.h"
#endif

/* PMADDUBSW: a = unsigned bytes (first operand), b = signed bytes (second operand) */
static inline short vc_maddubs1 (char a0, char b0, char a1, char b1)
{
    int t = (int) VC_U8 (a0) * (int) (signed char) b0 + (int) VC_U8 (a1) * (int) (signed char) b1;
    return (short) (t > 32767 ? 32767 : t < -32768 ? -32768 : t);
}
static inline vc_v8hi vc_pmaddubsw128 (vc_v16qi a, vc_v16qi b)
{
    vc_v8hi r;
    r[0] = vc_maddubs1 (a[0], b[0], a[1], b[1]);     r[1] = vc_maddubs1 (a[2], b[2], a[3], b[3]);
    r[2] = vc_maddubs1 (a[4], b[4], a[5], b[5]);     r[3] = vc_maddubs1 (a[6], b[6], a[7], b[7]);
    r[4] = vc_maddubs1 (a[8], b[8], a[9], b[9]);     r[5] = vc_maddubs1 (a[10], b[10], a[11], b[11]);
    r[6] = vc_maddubs1 (a[12], b[12], a[13], b[13]); r[7] = vc_maddubs1 (a[14], b[14], a[15], b[15]);
    return r;
}

/* PABSW */
static inline short vc_abs16 (short x)
{
    unsigned u = VC_U16 (x);
    return (short) (unsigned short) ((u & 0x8000u) ? (0x10000u - u) & 0xffffu : u);
}
static inline vc_v8hi vc_pabsw128 (vc_v8hi a)
{
    vc_v8hi r;
    r[0] = vc_abs16 (a[0]); r[1] = vc_abs16 (a[1]); r[2] = vc_abs16 (a[2]); r[3] = vc_abs16 (a[3]);
    r[4] = vc_abs16 (a[4]); r[5] = vc_abs16 (a[5]); r[6] = vc_abs16 (a[6]); r[7] = vc_abs16 (a[7]);
    return r;
}

/* MOVQ xmm, m64 (_mm_loadl_epi64): Intel SDM vol. 2B "MOVQ - Move Quadword": DEST[63:0] = SRC[63:0] (the 8 bytes at the
 * address, no alignment requirement), DEST[127:64] = 0.  gcc 12 writes it as _mm_set_epi64 ((__m64) 0LL, *(__m64_u *) p), i.e.
 * through a cast of an 8-byte VECTOR to long long, which CBMC 6.11 does not read as a bit reinterpretation (the loaded
 * value came out as 0 in a concrete run) -> modelled explicitly.  The 8 bytes are read as the two little-endian dwords
 * p[0..3], p[4..7]: exactly the bytes MOVQ reads (so --pointer-check / --bounds-check decide the same licence), low dword first.
 * MOVQ m64, xmm (_mm_storel_epi64): m64 = SRC[63:0], same reason (written as two dwords). */
static inline vc_v4si vc_movq_load (const void *p)
{
    const unsigned int *q = (const unsigned int *) p;
    vc_v4si r;
    r[0] = (int) q[0]; r[1] = (int) q[1]; r[2] = 0; r[3] = 0;
    return r;
}
static inline void vc_movq_store (void *p, vc_v4si v)
{
    unsigned int *q = (unsigned int *) p;
    q[0] = (unsigned int) v[0]; q[1] = (unsigned int) v[1];
}

#ifndef VC_MODELS_SELFTEST
#define __builtin_ia32_pmaddubsw128 vc_pmaddubsw128
#define __builtin_ia32_pabsw128     vc_pabsw128
/* <emmintrin.h> has been included by sse2_models_combine.h: the two MOVQ intrinsics are re-routed by name */
#define _mm_loadl_epi64(p)     ((__m128i) vc_movq_load ((const void *) (p)))
#define _mm_storel_epi64(p, v) vc_movq_store ((void *) (p), (vc_v4si) (v))
#endif

#endif
