/* region1_model.h — C19: executable model of the five pixman_region32 entry points that
 * pixman_image_fill_boxes uses, for regions of AT MOST ONE rectangle.
 *
 * Trusted base of the C19 fill_boxes jobs (the real region code is the subject of
 * C06/C07; the real pixman_region32_intersect of two one-rectangle regions is proved
 * there to be the coordinate-wise intersection, which is what is written here).  With
 * the real pixman-region32.c linked instead, symbolic execution wanders into
 * validate()/pixman_op() (dead, but not syntactically so) and does not finish.
 *
 * Representation as in the real code: data == NULL: exactly the rectangle `extents';
 * data == &vc_region_empty: empty.  A request the model cannot represent (more than one
 * box) sets vc_region_model_exceeded, which every harness using the model asserts to be 0.
 */
#ifndef REGION1_MODEL_H
#define REGION1_MODEL_H

static pixman_region32_data_t vc_region_empty = { 0, 0 };
static int vc_region_model_exceeded, vc_region_live;

static void vc_region_set_empty (pixman_region32_t *r)
{
    r->extents.x1 = r->extents.y1 = r->extents.x2 = r->extents.y2 = 0;
    r->data = &vc_region_empty;
}

pixman_bool_t
pixman_region32_init_rects (pixman_region32_t *region, const pixman_box32_t *boxes, int count)
{
    vc_region_live++;
    if (count == 1 && boxes[0].x1 < boxes[0].x2 && boxes[0].y1 < boxes[0].y2)
    {
        region->extents = boxes[0];
        region->data = (pixman_region32_data_t *) 0;
        return TRUE;
    }
    if (count > 1)
        vc_region_model_exceeded = 1;
    vc_region_set_empty (region);
    return TRUE;
}

pixman_bool_t
pixman_region32_intersect (pixman_region32_t *new_reg, pixman_region32_t *reg1, pixman_region32_t *reg2)
{
    pixman_box32_t b;
    if ((reg1->data && reg1->data != &vc_region_empty) || (reg2->data && reg2->data != &vc_region_empty))
        vc_region_model_exceeded = 1;
    if (reg1->data || reg2->data)
    {
        vc_region_set_empty (new_reg);
        return TRUE;
    }
    b.x1 = reg1->extents.x1 > reg2->extents.x1 ? reg1->extents.x1 : reg2->extents.x1;
    b.y1 = reg1->extents.y1 > reg2->extents.y1 ? reg1->extents.y1 : reg2->extents.y1;
    b.x2 = reg1->extents.x2 < reg2->extents.x2 ? reg1->extents.x2 : reg2->extents.x2;
    b.y2 = reg1->extents.y2 < reg2->extents.y2 ? reg1->extents.y2 : reg2->extents.y2;
    if (b.x1 >= b.x2 || b.y1 >= b.y2)
        vc_region_set_empty (new_reg);
    else
    {
        new_reg->extents = b;
        new_reg->data = (pixman_region32_data_t *) 0;
    }
    return TRUE;
}

/* added by the lead after the fix: commit f438b65 (the direct-fill path now also intersects with the
 * image bounds): intersection with the rectangle (x, y, width, height); a zero-size rectangle gives the
 * empty region (the real function's behaviour for that degenerate argument is known finding C06
 * canon32.intersect_rect_empty_arg; image sizes are >= 1 in every harness using this model) */
pixman_bool_t
pixman_region32_intersect_rect (pixman_region32_t *dest, pixman_region32_t *source,
                                int x, int y, unsigned int width, unsigned int height)
{
    pixman_region32_t r;
    r.extents.x1 = x;
    r.extents.y1 = y;
    r.extents.x2 = x + (int) width;
    r.extents.y2 = y + (int) height;
    r.data = (pixman_region32_data_t *) 0;
    if (r.extents.x1 >= r.extents.x2 || r.extents.y1 >= r.extents.y2)
        r.data = &vc_region_empty;
    return pixman_region32_intersect (dest, source, &r);
}

pixman_box32_t *
pixman_region32_rectangles (pixman_region32_t *region, int *n_rects)
{
    if (n_rects)
        *n_rects = region->data ? 0 : 1;
    return (pixman_box32_t *) &region->extents;
}

void
pixman_region32_fini (pixman_region32_t *region)
{
    vc_region_live--;
}

#endif
