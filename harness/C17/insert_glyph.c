/* C17 insert_glyph (static helper): from ANY well-formed table, for a glyph whose key is absent
 * and which the caller has already put at the head of the MRU list (as pixman_glyph_cache_insert
 * does), insert_glyph terminates (unwinding assertion; "room" = the NULL slot of cache_wf),
 * re-establishes the table invariant, changes exactly one slot (a NULL or TOMBSTONE one) and
 * the map by "+ key".  With two or more NULL slots before, a NULL slot remains. */
#include "gc.h"

static glyph_t vg_newobj;

void harness (void)
{
    int i, changed = 0, bad_change = 0, took_tomb = 0;
    VG_SYMBOLIC_CACHE ();
    VG_QUERY_KEY ();
    VG_GHOST_KEY ();
    VH_ASSUME (vg_view (&vg_cache, qf, qg) == NULL);
    glyph_t *pre_x = vg_view (&vg_cache, xf, xg);
    int x_is_q = (xf == qf && xg == qg);
    vg_newobj.font_key = qf; vg_newobj.glyph_key = qg;
    vg_newobj.image = &vg_img_new;
    vg_new = &vg_newobj;
    pixman_list_prepend (&vg_cache.mru, &vg_newobj.mru_link);

    insert_glyph (&vg_cache, &vg_newobj);

    VG_CHECK_WF_NO_NULLSLOT ();
    VH_CHECK ("insert_glyph.null_slot_remains_if_two_before", pre_nulls < 2 || wf_null_slot (&vg_cache));
    VH_CHECK ("insert_glyph.view_plus_key", vg_view (&vg_cache, xf, xg) == (x_is_q ? &vg_newobj : pre_x));
    for (i = 0; i < VG_N; i++)
        if (vg_cache.glyphs[i] != pre_slot[i])
        {
            changed++;
            if (vg_is_live (pre_slot[i]) || vg_cache.glyphs[i] != &vg_newobj) bad_change = 1;
            if (pre_slot[i] == TOMBSTONE) took_tomb = 1;
        }
    VH_CHECK ("insert_glyph.exactly_one_free_slot_taken", changed == 1 && !bad_change);
    VH_CHECK ("insert_glyph.counts", vg_cache.n_glyphs == pre_n_glyphs + 1 && vg_cache.n_tombstones == pre_n_tomb - took_tomb);
    VH_CHECK ("insert_glyph.entries_immutable", vg_entries_immutable ());
    VH_CHECK ("insert_glyph.no_side_calls", st_unref_calls == 0 && vh_alloc_calls == 0 && vh_free_calls == 0 && st_log_errors == 0);
    VH_END ();
}
