/* C17, a concrete-shaped HISTORY with the REAL hash function (-DVG_HASH=1), from the base case:
 *     create; freeze; insert k_1 ... insert k_n  (n <= HASH_SIZE, any distinct keys);  lookup (absent key)
 * Obligations: every insert of a fresh key into a frozen cache either succeeds or refuses, lookups
 * of the inserted keys return their entries, and the final lookup of a key that was never inserted
 * TERMINATES and returns NULL.  Termination is the unwinding assertion of lookup_glyph's probe loop
 * (lookup_glyph.unwind.0) in CBMC; natively a 5 s watchdog reports
 * REPLAY-CHECK-FAILED history.lookup_of_absent_key_terminates.
 *
 * On the unchanged tree this fails for n == HASH_SIZE: pixman_glyph_cache_insert refuses only at
 * n_glyphs >= HASH_SIZE, so HASH_SIZE inserts inside one freeze fill every slot and the probe loop
 * of lookup_glyph never meets a NULL slot (DESIGN.md §7).
 */
#define VG_HASH 1
#include "gc.h"
#ifdef VH_REPLAY
#include <signal.h>
#include <unistd.h>
static void vg_watchdog (int sig)
{
    static const char msg[] = "REPLAY-CHECK-FAILED history.lookup_of_absent_key_terminates (lookup_glyph still probing after 5 s)\nREPLAY-RESULT violated\n";
    (void) sig;
    if (write (1, msg, sizeof msg - 1) < 0) _exit (1);
    _exit (1);
}
#endif

static void *hk_f[VG_N], *hk_g[VG_N];
static const void *hk_entry[VG_N];

#define VG_DECL_HKEY(i) \
    VH_IN (vh_u64, in_kf##i); VH_IN (vh_u64, in_kg##i); \
    hk_f[i] = (void *) (uintptr_t) in_kf##i; hk_g[i] = (void *) (uintptr_t) in_kg##i;

void harness (void)
{
    int i, j, n_ok = 0;
    pixman_glyph_cache_t *cache;
    VG_SLOTS (VG_DECL_HKEY)
    VH_IN (vh_u8, in_n);
    VH_IN (vh_u64, in_af);
    VH_IN (vh_u64, in_ag);
    void *af = (void *) (uintptr_t) in_af, *ag = (void *) (uintptr_t) in_ag;
    VH_ASSUME (in_n <= VG_N);
    for (i = 0; i < VG_N; i++)
    {
        for (j = 0; j < i; j++)
            VH_ASSUME (!(hk_f[i] == hk_f[j] && hk_g[i] == hk_g[j]));      /* fresh keys */
        VH_ASSUME (!(hk_f[i] == af && hk_g[i] == ag));                     /* the absent key */
    }
    vg_img_src.type = BITS;
    vg_img_src.bits.format = PIXMAN_a8;
    vg_img_src.bits.width = 1;
    vg_img_src.bits.height = 1;

    cache = pixman_glyph_cache_create ();
    VH_ASSUME (cache != NULL);
    pixman_glyph_cache_freeze (cache);
    for (i = 0; i < VG_N; i++)
        if (i < in_n)
        {
            hk_entry[i] = pixman_glyph_cache_insert (cache, hk_f[i], hk_g[i], i, -i, &vg_img_src);
            if (hk_entry[i] != NULL)
                n_ok++;
            VH_CHECK ("history.n_glyphs_counts_successful_inserts", cache->n_glyphs == n_ok && cache->n_tombstones == 0);
        }
#ifdef VH_REPLAY
    signal (SIGALRM, vg_watchdog);
    alarm (5);
#endif
    {
        const void *r = pixman_glyph_cache_lookup (cache, af, ag);
#ifdef VH_REPLAY
        alarm (0);
#endif
        VH_CHECK ("history.lookup_of_absent_key_is_null", r == NULL);
    }
    for (i = 0; i < VG_N; i++)
        if (i < in_n && hk_entry[i] != NULL)
            VH_CHECK ("history.lookup_returns_inserted_entry", pixman_glyph_cache_lookup (cache, hk_f[i], hk_g[i]) == hk_entry[i]);
    VH_CHECK ("history.no_error_logged", st_log_errors == 0);
    VH_END ();
}
