/* C17 drawing half (lead): pixman_composite_glyphs == "ADD-accumulate the glyphs into a mask of the requested format and
 * composite that mask".  The accumulation itself is add_glyphs (per-glyph geometry: not covered); this job pins the frame
 * around it on the real function, with zero glyphs and recording stubs for the image API:
 *   - the mask is created with exactly (mask_format, width, height), library-allocated
 *   - it is a COMPONENT-ALPHA mask iff the format carries both an alpha and a colour channel (literal table from the
 *     format names, not PIXMAN_FORMAT_A/RGB): a mask format with colour channels must act per channel
 *   - glyphs are accumulated at (-mask_x, -mask_y); the mask is composited ONCE with (op, src, mask, dest) at the request's
 *     offsets, mask origin (0,0), size (width, height); then released exactly once
 *   - allocation failure of the mask: nothing is drawn, nothing leaks (C15 silent-skip site)
 */
#include "vh.h"
#include <stdlib.h>
#include "pixman-glyph.c"

static pixman_image_t s_mask, s_src, s_dest;
static int n_create, n_ca, ca_value, n_composite, n_unref, n_validate, create_fails;
static pixman_format_code_t c_format; static int c_w, c_h, c_stride; static uint32_t *c_bits;
static pixman_op_t k_op; static pixman_image_t *k_src, *k_mask, *k_dst;
static int32_t k_sx, k_sy, k_mx, k_my, k_dx, k_dy, k_w, k_h;

pixman_implementation_t *global_implementation;
pixman_implementation_t *_pixman_choose_implementation (void) { return 0; }
void _pixman_log_error (const char *f, const char *m) { (void) f; (void) m; }
void _pixman_image_validate (pixman_image_t *image) { (void) image; n_validate++; }
pixman_image_t *pixman_image_create_bits (pixman_format_code_t format, int width, int height, uint32_t *bits, int stride)
{
    n_create++; c_format = format; c_w = width; c_h = height; c_bits = bits; c_stride = stride;
    if (create_fails) return 0;
    memset (&s_mask, 0, sizeof s_mask);
    s_mask.type = BITS; s_mask.bits.format = format; s_mask.bits.width = width; s_mask.bits.height = height;
    s_mask.common.extended_format_code = format;
    return &s_mask;
}
void pixman_image_set_component_alpha (pixman_image_t *image, pixman_bool_t ca) { if (image == &s_mask) { n_ca++; ca_value = ca; } else n_ca += 100; }
void pixman_image_composite32 (pixman_op_t op, pixman_image_t *src, pixman_image_t *mask, pixman_image_t *dest,
                               int32_t sx, int32_t sy, int32_t mx, int32_t my, int32_t dx, int32_t dy, int32_t w, int32_t h)
{
    n_composite++; k_op = op; k_src = src; k_mask = mask; k_dst = dest;
    k_sx = sx; k_sy = sy; k_mx = mx; k_my = my; k_dx = dx; k_dy = dy; k_w = w; k_h = h;
}
pixman_bool_t pixman_image_unref (pixman_image_t *image) { if (image == &s_mask) n_unref++; else n_unref += 100; return TRUE; }
pixman_image_t *pixman_image_create_solid_fill (const pixman_color_t *c) { (void) c; return 0; }
pixman_image_t *pixman_image_ref (pixman_image_t *i) { return i; }
void pixman_image_set_repeat (pixman_image_t *i, pixman_repeat_t r) { (void) i; (void) r; }
/* reached only with glyphs (none here); present so that the native replay links */
void _pixman_implementation_lookup_composite (pixman_implementation_t *toplevel, pixman_op_t op, pixman_format_code_t sf, uint32_t sfl,
                                              pixman_format_code_t mf, uint32_t mfl, pixman_format_code_t df, uint32_t dfl,
                                              pixman_implementation_t **out_imp, pixman_composite_func_t *out_func)
{ (void) toplevel; (void) op; (void) sf; (void) sfl; (void) mf; (void) mfl; (void) df; (void) dfl; *out_imp = 0; *out_func = 0; }

/* literal table: does the format carry an alpha channel AND at least one colour channel? */
static int spec_alpha_and_colour (pixman_format_code_t f, int *known)
{
    *known = 1;
    switch (f)
    {
    case PIXMAN_a8r8g8b8: case PIXMAN_a8b8g8r8: case PIXMAN_b8g8r8a8: case PIXMAN_r8g8b8a8: case PIXMAN_a2r10g10b10:
    case PIXMAN_a2b10g10r10: case PIXMAN_a1r5g5b5: case PIXMAN_a1b5g5r5: case PIXMAN_a4r4g4b4: case PIXMAN_a4b4g4r4:
    case PIXMAN_a2r2g2b2: case PIXMAN_a2b2g2r2: case PIXMAN_a1r1g1b1: case PIXMAN_a1b1g1r1: case PIXMAN_a8r8g8b8_sRGB:
        return 1;
    case PIXMAN_a8: case PIXMAN_a4: case PIXMAN_a1: case PIXMAN_x4a4:
    case PIXMAN_x8r8g8b8: case PIXMAN_x8b8g8r8: case PIXMAN_b8g8r8x8: case PIXMAN_r8g8b8x8: case PIXMAN_x14r6g6b6:
    case PIXMAN_x2r10g10b10: case PIXMAN_x2b10g10r10: case PIXMAN_r8g8b8: case PIXMAN_b8g8r8: case PIXMAN_r5g6b5:
    case PIXMAN_b5g6r5: case PIXMAN_x1r5g5b5: case PIXMAN_x1b5g5r5: case PIXMAN_x4r4g4b4: case PIXMAN_x4b4g4r4:
    case PIXMAN_r3g3b2: case PIXMAN_b2g3r3: case PIXMAN_r1g2b1: case PIXMAN_b1g2r1:
        return 0;
    default:
        *known = 0;
        return 0;
    }
}

void harness (void)
{
    VH_IN (vh_u32, in_op); VH_IN (vh_u32, in_fmt); VH_IN (vh_u8, in_create_fails);
    VH_IN (vh_i32, in_sx); VH_IN (vh_i32, in_sy); VH_IN (vh_i32, in_mx); VH_IN (vh_i32, in_my);
    VH_IN (vh_i32, in_dx); VH_IN (vh_i32, in_dy); VH_IN (vh_i32, in_w); VH_IN (vh_i32, in_h);
    int known, want_ca;

    want_ca = spec_alpha_and_colour ((pixman_format_code_t) in_fmt, &known);
    VH_ASSUME (known);
    VH_ASSUME (in_mx > -(1 << 30) && in_mx < (1 << 30) && in_my > -(1 << 30) && in_my < (1 << 30));
    create_fails = in_create_fails != 0;
    memset (&s_src, 0, sizeof s_src); memset (&s_dest, 0, sizeof s_dest);

    pixman_composite_glyphs ((pixman_op_t) in_op, &s_src, &s_dest, (pixman_format_code_t) in_fmt, in_sx, in_sy, in_mx, in_my,
                             in_dx, in_dy, in_w, in_h, (pixman_glyph_cache_t *) 0, 0, (const pixman_glyph_t *) 0);

    VH_CHECK ("glyphs.mask_created_once_with_requested_format_and_size",
              n_create == 1 && c_format == (pixman_format_code_t) in_fmt && c_w == in_w && c_h == in_h && c_bits == 0);
    if (create_fails)
        VH_CHECK ("glyphs.mask_allocation_failure_draws_nothing", n_composite == 0 && n_unref == 0 && n_ca == 0);
    else
    {
        VH_CHECK ("glyphs.component_alpha_iff_mask_format_has_alpha_and_colour",
                  want_ca ? (n_ca == 1 && ca_value) : (n_ca == 0 || (n_ca == 1 && !ca_value)));
        VH_CHECK ("glyphs.mask_composited_once_at_the_request_offsets",
                  n_composite == 1 && k_op == (pixman_op_t) in_op && k_src == &s_src && k_mask == &s_mask && k_dst == &s_dest &&
                  k_sx == in_sx && k_sy == in_sy && k_mx == 0 && k_my == 0 && k_dx == in_dx && k_dy == in_dy && k_w == in_w && k_h == in_h);
        VH_CHECK ("glyphs.mask_released_exactly_once", n_unref == 1);
    }
    VH_END ();
}
