/* C17 drawing half: add_glyphs (cache, mask, off_x, off_y, n, glyphs) — "ADD-accumulating the glyphs into a mask" — and
 * pixman_composite_glyphs around it — "... and compositing that mask".
 *
 * Specification (property text + the comment above pixman_composite_glyphs: "for each glyph, (white IN glyph) is ADDed to
 * the mask at the position such that the glyph origin lands on (x, y)"; the mask's (mask_x, mask_y) is the origin of the
 * accumulation, so glyph i lands at  gx = x_i - ox_i - mask_x  (= x_i - ox_i + off_x)):
 * each glyph is added by exactly the call pixman_image_composite32 would make for
 *     same format as the mask:    composite32 (ADD, glyph image, NULL,        mask, 0,0, 0,0, gx, gy, gw, gh)
 *     any other format:           composite32 (ADD, WHITE solid, glyph image, mask, 0,0, 0,0, gx, gy, gw, gh)
 * clipped to the mask image (it has no clip region: one clip box = its bounds):
 *     D = [gx, gx+gw) x [gy, gy+gh)  ∩  [0, mask width) x [0, mask height);   no call when D has no point
 *     dest = D.x1, D.y1, size of D;   glyph sample origin = (D.x1 - gx, D.y1 - gy)  (source AND mask origin: both operands
 *     were given origin (0,0)), so the sample rectangle lies inside the glyph image: the forced COVER flag is true
 *     routine looked up for (ADD, glyph code or PIXMAN_solid, their flags, PIXMAN_null or glyph code, ..., mask code/flags)
 *     with SAMPLES_COVER_CLIP_NEAREST forced on the GLYPH operand (source in the first case, mask in the second).
 * The routine of one glyph must not be reused for a glyph of another format or other flags (each lookup returns a
 * different recording routine, the obligation compares the arguments of the lookup that returned the routine called).
 * White source: created at most once, white (0xffff x 4), released as often as created; if it cannot be created the
 * glyphs from there on are skipped silently (C15), earlier ones were drawn.
 *
 * -DVD_ENTRY=0   add_glyphs called directly: mask image of symbolic size/format/flags, symbolic offsets
 * -DVD_ENTRY=1   pixman_composite_glyphs: the mask is what the create_bits stub builds from the request; offsets must be
 *                (-mask_x, -mask_y); the accumulated mask is composited once AFTER the last glyph, then released
 * -DVD_NG=1|2    glyph entries (bound)
 */
#include "gd.h"

#ifndef VD_ENTRY
#define VD_ENTRY 0
#endif

/* the request, for vd_check_call */
static struct { pixman_format_code_t dest_fmt; uint32_t dest_flags, white_flags; } rq;
static int ok_rect = 1, ok_clip = 1, ok_origin = 1, ok_img = 1, ok_cover = 1, ok_lookup = 1, ok_flags = 1, ok_routine = 1;

static void vd_check_call (const vd_call_t *r, const vd_expect *e)
{
    const pixman_composite_info_t *in = &r->info;
    const pixman_image_t *gi = e->g->image;
    const vd_lk_t *lk = VD_LK (r->id);
    int same = gi->bits.format == rq.dest_fmt;
    if (!vd_rect_ok (r, e)) ok_rect = 0;
    if (!vd_rect_inside_clip (r, e)) ok_clip = 0;
    /* both operands had origin (0,0) at the glyph's top-left sample */
    if (!(in->src_x == e->d.x1 - e->gx && in->src_y == e->d.y1 - e->gy &&
          in->mask_x == e->d.x1 - e->gx && in->mask_y == e->d.y1 - e->gy)) ok_origin = 0;
    if (!vd_cover_true (r, e, !same)) ok_cover = 0;
    if (!(in->op == PIXMAN_OP_ADD && in->dest_image == vd_dest_p && in->dest_flags == rq.dest_flags &&
          (same ? (in->src_image == gi && in->mask_image == (pixman_image_t *) 0)
                : (in->src_image == vd_white_p && in->mask_image == gi)))) ok_img = 0;
    /* flags handed over: the glyph's with the COVER promise forced, the white image's, "opaque" for the absent mask
     * (pixman_image_composite32 says IS_OPAQUE | NO_ALPHA_MAP for an absent mask; either is a true description) */
    if (!(same ? (in->src_flags == (gi->common.flags | VD_COVER) &&
                  (in->mask_flags == FAST_PATH_IS_OPAQUE || in->mask_flags == (FAST_PATH_IS_OPAQUE | FAST_PATH_NO_ALPHA_MAP)))
               : (in->src_flags == rq.white_flags && in->mask_flags == (gi->common.flags | VD_COVER)))) ok_flags = 0;
    if (!vd_routine_from_lookup (r)) ok_routine = 0;
    else if (!(lk->top == VD_TOP && lk->op == PIXMAN_OP_ADD &&
               lk->sf == (same ? gi->common.extended_format_code : PIXMAN_solid) && lk->sfl == in->src_flags &&
               lk->mf == (same ? PIXMAN_null : gi->common.extended_format_code) && lk->mfl == in->mask_flags &&
               lk->df == rq.dest_fmt && lk->dfl == rq.dest_flags)) ok_lookup = 0;
}

void harness (void)
{
    VH_IN (vh_i32, in_offx); VH_IN (vh_i32, in_offy);      /* ENTRY 0: off_x, off_y;  ENTRY 1: mask_x, mask_y */
    VH_IN (vh_i32, in_dw); VH_IN (vh_i32, in_dh);
    VH_IN (vh_u32, in_dest_fmt); VH_IN (vh_u32, in_dest_flags);
    VH_IN (vh_u32, in_white_flags); VH_IN (vh_u8, in_white_fail);
    VH_IN (vh_u8, in_n);
    vd_lbox bounds;
    int i, dead = 0, want_white = 0;
    long offx, offy;

    VH_ASSUME (VD_INR (in_offx) && VD_INR (in_offy));
    VH_ASSUME (in_dw >= 0 && in_dw <= VD_R && in_dh >= 0 && in_dh <= VD_R);
    VH_ASSUME (in_n <= VD_NG && in_white_fail <= 1);
    VH_ASSUME (in_dest_fmt != PIXMAN_null);
    vd_white_flags = in_white_flags; vd_white_fail = in_white_fail;
    global_implementation = VD_TOP;
    rq.dest_fmt = (pixman_format_code_t) in_dest_fmt; rq.dest_flags = in_dest_flags; rq.white_flags = in_white_flags;

    VD_DECL_GLYPH (0);
    VD_DECL_GLYPH (1);
    VD_DECL_ENTRY (0);
#if VD_NG >= 2
    VD_DECL_ENTRY (1);
#endif
    vd_build_cache ();

#if VD_ENTRY == 0
    /* the mask image as pixman_composite_glyphs creates it: validated BITS image, no clip, extended code == format */
    vd_dest_s.common.type = BITS; vd_dest_s.common.ref_count = 1;
    vd_dest_s.width = in_dw; vd_dest_s.height = in_dh; vd_dest_s.format = (pixman_format_code_t) in_dest_fmt;
    vd_dest_s.common.extended_format_code = (pixman_format_code_t) in_dest_fmt; vd_dest_s.common.flags = in_dest_flags;
    offx = in_offx; offy = in_offy;

    add_glyphs (&vd_cache, vd_dest_p, in_offx, in_offy, in_n, vd_req);
#else
    {
        VH_IN (vh_u32, in_op); VH_IN (vh_i32, in_sx); VH_IN (vh_i32, in_sy); VH_IN (vh_i32, in_dx); VH_IN (vh_i32, in_dy);
        vd_mask_flags_after_validate = in_dest_flags;
        vd_src_s.common.ref_count = 1;
        offx = -(long) in_offx; offy = -(long) in_offy;

        pixman_composite_glyphs ((pixman_op_t) in_op, vd_src_p, vd_final_p, (pixman_format_code_t) in_dest_fmt,
                                 in_sx, in_sy, in_offx, in_offy, in_dx, in_dy, in_dw, in_dh, &vd_cache, in_n, vd_req);

        VH_CHECK ("glyphs.mask_created_once_as_requested", vd_ncreate == 1 && vd_create_fmt == (pixman_format_code_t) in_dest_fmt &&
                  vd_create_w == in_dw && vd_create_h == in_dh && vd_create_bits == 0);
        VH_CHECK ("glyphs.mask_composited_once_after_the_last_glyph_at_the_request_offsets",
                  vd_ncomposite == 1 && vd_comp.op == (pixman_op_t) in_op && vd_comp.src == vd_src_p && vd_comp.mask == vd_dest_p &&
                  vd_comp.dest == vd_final_p && vd_comp.sx == in_sx && vd_comp.sy == in_sy && vd_comp.mx == 0 && vd_comp.my == 0 &&
                  vd_comp.dx == in_dx && vd_comp.dy == in_dy && vd_comp.w == in_dw && vd_comp.h == in_dh &&
                  (vd_ncalls == 0 || vd_ncalls > VD_MAXCALL || VD_CALL (vd_ncalls - 1)->seq < vd_composite_seq));
        VH_CHECK ("glyphs.mask_released_exactly_once", vd_unref_mask == 1);
    }
#endif

    /* ---- specification */
    bounds.x1 = 0; bounds.y1 = 0; bounds.x2 = in_dw; bounds.y2 = in_dh;
    for (i = 0; i < VD_NG; i++)
        if (i < in_n && !dead)
        {
            const glyph_t *g = (const glyph_t *) vd_req[i].glyph;
            if (g->image->bits.format != (pixman_format_code_t) in_dest_fmt)
            {
                want_white = 1;
                if (in_white_fail) dead = 1;         /* this glyph and all later ones are skipped */
            }
            if (!dead)
                vd_spec_glyph_box (g, (long) vd_req[i].x - g->origin_x + offx, (long) vd_req[i].y - g->origin_y + offy, &bounds);
        }

    VH_CHECK ("add_glyphs.one_call_per_glyph_that_meets_the_mask", vd_ncalls == vd_nexp);
    VH_CHECK ("add_glyphs.drawn_rectangle_is_glyph_box_meet_mask_bounds", ok_rect);
    VH_CHECK ("add_glyphs.drawn_rectangle_inside_mask_image_and_not_empty", ok_clip);
    VH_CHECK ("add_glyphs.glyph_sample_origin_is_drawn_origin_minus_glyph_position", ok_origin);
    VH_CHECK ("add_glyphs.cover_promise_true_sample_rect_inside_glyph_image", ok_cover);
    VH_CHECK ("add_glyphs.ADD_of_glyph_as_source_if_mask_format_else_white_IN_glyph", ok_img);
    VH_CHECK ("add_glyphs.flags_handed_to_routine_force_cover_on_the_glyph_operand", ok_flags);
    VH_CHECK ("add_glyphs.routine_called_is_the_one_a_lookup_returned", ok_routine);
    VH_CHECK ("add_glyphs.routine_looked_up_for_this_glyph_format_and_flags", ok_lookup);
    VH_CHECK ("add_glyphs.lookup_recorder_not_exhausted", !vd_lk_overflow && vd_ncalls <= VD_MAXCALL);
    VH_CHECK ("add_glyphs.white_source_created_at_most_once_only_if_needed_and_is_white",
              vd_nwhite_create <= 1 && (vd_nwhite_create == 0 || (want_white && vd_white_color_ok)));
    VH_CHECK ("add_glyphs.white_source_released_as_often_as_created",
              vd_unref_white == (vd_nwhite_create == 1 && !in_white_fail ? 1 : 0) && vd_unref_other == 0);
#if VD_ENTRY == 0
    VH_CHECK ("add_glyphs.mask_image_neither_released_nor_recreated", vd_unref_mask == 0 && vd_ncreate == 0);
#endif
    VH_CHECK ("add_glyphs.mru_list_still_holds_exactly_the_cached_glyphs", vd_mru_ok ());
    VH_END ();
}
