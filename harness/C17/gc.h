/* gc.h — common part of the C17 glyph-cache harnesses (route H).
 *
 * The real pixman-glyph.c is #included unmodified and compiled with
 *     -DPIXMAN_VERIF_GLYPH_HASH_BITS=<b>      (hook, see hook.diff: HASH_SIZE = 2^b, HIGH = 2^(b-1), LOW = 2^(b-2))
 * Without the hook in the tree HASH_SIZE stays 32768 and the #error below makes the
 * job UNDECIDED (goto-cc fails) — never a verdict.
 *
 * What is symbolic: the WHOLE cache state.  Every slot is NULL / TOMBSTONE / a live glyph
 * with arbitrary 64-bit keys, origin, MRU rank; the only constraint is the data-structure
 * invariant cache_wf below, written as a C predicate over the real pixman_glyph_cache_t.
 * Since every operation is shown to re-establish cache_wf from any cache_wf state, the
 * statements hold after ANY history of operations (induction over the history); the
 * base case is pixman_glyph_cache_create (lifecycle.c).
 *
 * Hash function (-DVG_HASH):
 *   0  an ARBITRARY function of (font_key, glyph_key): a finite oracle table over the
 *      (at most HASH_SIZE + 1) keys that occur, every value an unconstrained 32-bit input,
 *      equal keys -> equal value.  This covers every collision pattern, is stronger than
 *      the real hash, and is replayable natively (the same oracle is compiled in).
 *   1  the real hash() of pixman-glyph.c.
 * How `hash` is intercepted without touching /repo: while pixman-glyph.c is read, `hash` is
 * a function-like macro that pastes a prefix onto the first token of its first argument.
 * That token is `const` in the definition and `font_key` / `glyph` at the three call
 * sites, so the definition becomes `hash_real (const void *font_key, const void *glyph_key)`
 * (same body) and the calls become `vh_hash (...)`.  If the source changes shape this stops
 * compiling -> exit 2 (undecided).
 *
 * Stubs (assumptions of every cache job, so that the jobs are about the table):
 * pixman_image_create_bits, pixman_image_composite32, pixman_image_unref,
 * pixman_image_set_component_alpha, _pixman_image_validate and _pixman_log_error are
 * recording stubs defined here; the real ones are the subject of C01-C04/C14/C20.
 */
#ifndef GC_H
#define GC_H

#include "vh.h"
#include <stdlib.h>
#include <string.h>
#include "vh_alloc.h"
/* glyph objects of the symbolic pre-state live in a static pool (no dynamic objects in the invariant);
 * free() of a pool glyph is recorded (vg_freed[]) instead of executed, free() of anything else (the glyph
 * malloc'ed by pixman_glyph_cache_insert, the cache itself) goes to vh_free.  A freed pool glyph that is
 * still in the table or in the MRU list violates wf.slots / wf.mru. */
static void vg_free (void *p);
#undef free
#define free(p) vg_free (p)

#ifndef PIXMAN_VERIF_GLYPH_HASH_BITS
#error "C17 cache jobs are built with -DPIXMAN_VERIF_GLYPH_HASH_BITS=2|3|4"
#endif
#ifndef VG_HASH
#define VG_HASH 0
#endif
#define VG_N (1 << PIXMAN_VERIF_GLYPH_HASH_BITS)

static unsigned int vh_hash (const void *font_key, const void *glyph_key);
#define hash(a, b)   VHH_##a, b)
#define VHH_const    hash_real (const
#define VHH_font_key vh_hash (font_key
#define VHH_glyph    vh_hash (glyph
#include "pixman-glyph.c"
#undef hash

#if HASH_SIZE != VG_N || HASH_MASK != VG_N - 1 || N_GLYPHS_HIGH_WATER != VG_N / 2 || N_GLYPHS_LOW_WATER != VG_N / 4
#error "PIXMAN_VERIF_GLYPH_HASH_BITS hook missing in pixman-glyph.c (HASH_SIZE is not 2^bits): apply harness/C17/hook.diff"
#endif

#if VG_N == 4
#define VG_SLOTS(X) X (0) X (1) X (2) X (3)
#elif VG_N == 8
#define VG_SLOTS(X) X (0) X (1) X (2) X (3) X (4) X (5) X (6) X (7)
#elif VG_N == 16
#define VG_SLOTS(X) X (0) X (1) X (2) X (3) X (4) X (5) X (6) X (7) X (8) X (9) X (10) X (11) X (12) X (13) X (14) X (15)
#else
#error "unsupported table size"
#endif

/* ------------------------------------------------------------------ hash model */
#if VG_HASH == 0
static struct { const void *f, *g; unsigned h; } vg_oracle[VG_N + 2];
static int vg_oracle_n;
static int vg_oracle_miss;
static void vg_oracle_add (const void *f, const void *g, unsigned h)
{
    int k;
    for (k = 0; k < vg_oracle_n; k++)
        if (vg_oracle[k].f == f && vg_oracle[k].g == g)
            VH_ASSUME (vg_oracle[k].h == h);      /* a FUNCTION of the key */
    vg_oracle[vg_oracle_n].f = f; vg_oracle[vg_oracle_n].g = g; vg_oracle[vg_oracle_n].h = h;
    vg_oracle_n++;
}
static unsigned int vh_hash (const void *f, const void *g)
{
    int k;
    for (k = 0; k < vg_oracle_n; k++)
        if (vg_oracle[k].f == f && vg_oracle[k].g == g)
            return vg_oracle[k].h;
    vg_oracle_miss++;                             /* checked == 0: the code hashed only keys of the model */
    return 0;
}
#else
static int vg_oracle_miss;
static void vg_oracle_add (const void *f, const void *g, unsigned h) { (void) f; (void) g; (void) h; }
static unsigned int vh_hash (const void *f, const void *g) { return hash_real (f, g); }
#endif

/* ------------------------------------------------------------------ recording stubs */
/* Images.  The glyph images of the symbolic pre-state are never looked into by the cache code (only
 * handed to pixman_image_unref), so they are opaque tokens: distinct addresses, one unref counter
 * each.  Only the image passed to insert and the copy created by insert are real pixman_image_t
 * objects (pixman_image_t is a large union; keeping it out of the invariant keeps the formula small). */
static long vg_tok[VG_N];
#define VG_SLOT_IMAGE(i) ((pixman_image_t *) &vg_tok[i])
static int vg_unref[VG_N];                  /* unref calls on the image of pre-state slot i */
static int vg_unref_new, vg_unref_other;    /* ... on the copy created by insert / on anything else */
static pixman_image_t vg_img_new;           /* the copy made by insert (returned by the create_bits stub) */
static pixman_image_t vg_img_src;           /* the image handed to insert */
static int st_log_errors;
static int st_unref_calls, st_create_calls, st_composite_calls, st_validate_calls, st_setca_calls;
static int st_create_fail;                  /* set from an input: pixman_image_create_bits returns NULL */
static pixman_format_code_t st_create_format; static int st_create_w, st_create_h; static uint32_t *st_create_bits; static int st_create_stride;
static pixman_image_t *st_created;
static struct { pixman_op_t op; pixman_image_t *src, *mask, *dest; int32_t sx, sy, mx, my, dx, dy, w, h; } st_comp;
static pixman_image_t *st_validated, *st_setca_img; static pixman_bool_t st_setca_val;

void _pixman_log_error (const char *function, const char *message)
{
    (void) function; (void) message; st_log_errors++;
}
pixman_bool_t pixman_image_unref (pixman_image_t *image)
{
    int k, hit = 0;
    st_unref_calls++;
    for (k = 0; k < VG_N; k++)
        if (image == VG_SLOT_IMAGE (k)) { vg_unref[k]++; hit = 1; }
    if (image == &vg_img_new) { vg_unref_new++; hit = 1; }
    if (!hit) vg_unref_other++;
    return TRUE;
}
pixman_image_t *pixman_image_create_bits (pixman_format_code_t format, int width, int height, uint32_t *bits, int rowstride_bytes)
{
    st_create_calls++;
    st_create_format = format; st_create_w = width; st_create_h = height; st_create_bits = bits; st_create_stride = rowstride_bytes;
    if (st_create_fail)
        return NULL;
    st_created = &vg_img_new;
    st_created->type = BITS;
    st_created->common.ref_count = 1;
    st_created->common.component_alpha = FALSE;
    st_created->bits.format = format;
    st_created->bits.width = width;
    st_created->bits.height = height;
    return st_created;
}
void pixman_image_composite32 (pixman_op_t op, pixman_image_t *src, pixman_image_t *mask, pixman_image_t *dest,
                               int32_t src_x, int32_t src_y, int32_t mask_x, int32_t mask_y, int32_t dest_x, int32_t dest_y,
                               int32_t width, int32_t height)
{
    st_composite_calls++;
    st_comp.op = op; st_comp.src = src; st_comp.mask = mask; st_comp.dest = dest;
    st_comp.sx = src_x; st_comp.sy = src_y; st_comp.mx = mask_x; st_comp.my = mask_y; st_comp.dx = dest_x; st_comp.dy = dest_y;
    st_comp.w = width; st_comp.h = height;
}
void pixman_image_set_component_alpha (pixman_image_t *image, pixman_bool_t component_alpha)
{
    st_setca_calls++; st_setca_img = image; st_setca_val = component_alpha;
    image->common.component_alpha = component_alpha;
}
void _pixman_image_validate (pixman_image_t *image)
{
    st_validate_calls++; st_validated = image;
}

/* ------------------------------------------------------------------ the symbolic cache */
static pixman_glyph_cache_t vg_cache;
#define VG_POOL_OBJ(i) static glyph_t vg_p##i;
VG_SLOTS (VG_POOL_OBJ)                       /* separate objects vg_p0.. (an array indexed symbolically is much dearer in CBMC) */
#define VG_POOL_PTR(i) &vg_p##i,
static glyph_t *const vg_pool[VG_N] = { VG_SLOTS (VG_POOL_PTR) };
static int vg_freed[VG_N];                  /* free() calls on vg_pool[i] */
static int vg_free_null;
static glyph_t *vg_g[VG_N];                 /* glyph object built for slot i: &vg_pool[i] (NULL if the slot is not live) */
static void vg_free (void *p)
{
    int k, hit = 0;
    for (k = 0; k < VG_N; k++)
        if (p == (void *) vg_pool[k]) { vg_freed[k]++; hit = 1; }
    if (!hit)
        vh_free (p);
}
static glyph_t *vg_new;                     /* glyph returned by an insert in this harness (registry of valid objects) */
static unsigned vg_objh[VG_N], vg_newh;     /* hash-model value of the key of pool glyph i / of the operation's key */
static vh_u8 vg_kind[VG_N];
static vh_u8 vg_ord[VG_N];                  /* vg_ord[r] = slot of the glyph with MRU rank r (r < n_glyphs) */
static vh_u8 vg_rank[VG_N];                 /* inverse: MRU rank of the glyph in slot i */

/* pre-state snapshot */
static glyph_t *pre_slot[VG_N];
static glyph_t pre_copy[VG_N];
static int pre_n_glyphs, pre_n_tomb, pre_freeze, pre_nulls;
static glyph_t *pre_order[VG_N + 1];        /* MRU order, most recent first */

#define VG_KIND_NULL 0
#define VG_KIND_TOMB 1
#define VG_KIND_LIVE 2

#define VG_DECL_SLOT(i) \
    VH_IN (vh_u8, in_kind##i); VH_IN (vh_u64, in_fk##i); VH_IN (vh_u64, in_gk##i); VH_IN (vh_u32, in_h##i); \
    VH_IN (vh_u8, in_ord##i); VH_IN (vh_i32, in_ox##i); VH_IN (vh_i32, in_oy##i); \
    vg_build_slot (i, in_kind##i, in_fk##i, in_gk##i, in_h##i, in_ord##i, in_ox##i, in_oy##i);

static void vg_build_slot (int i, vh_u8 kind, vh_u64 fk, vh_u64 gk, vh_u32 h, vh_u8 ord, vh_i32 ox, vh_i32 oy)
{
    VH_ASSUME (kind <= VG_KIND_LIVE);
    vg_kind[i] = kind; vg_ord[i] = ord; vg_g[i] = NULL;
    if (kind == VG_KIND_NULL)
        vg_cache.glyphs[i] = NULL;
    else if (kind == VG_KIND_TOMB)
    {
        /* == TOMBSTONE.  Stored through a union so that CBMC's points-to sets do not contain the
         * "integer address" 0x1: every guarded `g->font_key` of the real code would otherwise be modelled
         * as a read of the unbounded __CPROVER_memory array as well (measured: 10x larger formula).
         * The value is the same bit pattern; `slot == TOMBSTONE` holds (and is what the code tests). */
        union { uintptr_t u; glyph_t *p; } t;
        t.u = 0x1;
        vg_cache.glyphs[i] = t.p;
        vg_cache.n_tombstones++;
    }
    else
    {
        glyph_t *g = vg_pool[i];
        g->font_key = (void *) (uintptr_t) fk; g->glyph_key = (void *) (uintptr_t) gk;
        g->origin_x = ox; g->origin_y = oy;
        g->image = VG_SLOT_IMAGE (i);
        g->mru_link.next = g->mru_link.prev = NULL;
        vg_oracle_add (g->font_key, g->glyph_key, h);
        vg_objh[i] = h;
        vg_g[i] = g; vg_cache.glyphs[i] = g; vg_cache.n_glyphs++;
    }
}

/* MRU list: rank 0 = head = most recently used.  vg_ord[0..n_glyphs) is an injective list of live slots,
 * hence (same cardinality) a bijection onto the live glyphs: every order of the live set. */
static void vg_build_mru (void)
{
    int r, q;
    pixman_list_init (&vg_cache.mru);
    for (r = 0; r < VG_N; r++)
        if (r < vg_cache.n_glyphs)
        {
            VH_ASSUME (vg_ord[r] < VG_N && vg_kind[vg_ord[r]] == VG_KIND_LIVE);
            for (q = 0; q < r; q++)
                VH_ASSUME (vg_ord[q] != vg_ord[r]);
            vg_rank[vg_ord[r]] = r;
        }
    for (r = VG_N - 1; r >= 0; r--)
        if (r < vg_cache.n_glyphs)
            pixman_list_prepend (&vg_cache.mru, &vg_pool[vg_ord[r]]->mru_link);
}

/* ------------------------------------------------------------------ cache_wf, as a C predicate over the real struct */
static int vg_is_live (const glyph_t *g) { return g != NULL && g != TOMBSTONE; }
/* the glyph object a live slot value denotes: one of the pool objects or the glyph returned by insert.  The
 * predicates read glyph fields through this (same object, points-to set without TOMBSTONE); a live slot value
 * that is none of them is rejected by wf.slots. */
static glyph_t vg_nowhere;
static glyph_t *vg_obj (const glyph_t *g)
{
    int k; glyph_t *r = &vg_nowhere;
    for (k = 0; k < VG_N; k++)
        if (g == vg_pool[k]) r = vg_pool[k];
    if (vg_new != NULL && g == vg_new) r = vg_new;
    return r;
}

/* wf.slots: every slot is NULL, TOMBSTONE or one of the valid glyph objects */
static int wf_slots (const pixman_glyph_cache_t *c)
{
    int i, k, ok = 1;
    for (i = 0; i < HASH_SIZE; i++)
    {
        const glyph_t *g = c->glyphs[i];
        if (vg_is_live (g))
        {
            int known = (vg_new != NULL && g == vg_new);
            for (k = 0; k < VG_N; k++)
                if (vg_g[k] != NULL && g == vg_g[k] && vg_freed[k] == 0) known = 1;
            if (!known) ok = 0;
        }
    }
    return ok;
}
static int vg_count_live (const pixman_glyph_cache_t *c)
{
    int i, n = 0;
    for (i = 0; i < HASH_SIZE; i++) if (vg_is_live (c->glyphs[i])) n++;
    return n;
}
static int vg_count_tomb (const pixman_glyph_cache_t *c)
{
    int i, n = 0;
    for (i = 0; i < HASH_SIZE; i++) if (c->glyphs[i] == TOMBSTONE) n++;
    return n;
}
static int vg_count_null (const pixman_glyph_cache_t *c)
{
    int i, n = 0;
    for (i = 0; i < HASH_SIZE; i++) if (c->glyphs[i] == NULL) n++;
    return n;
}
/* wf.counts */
static int wf_counts (const pixman_glyph_cache_t *c)
{
    return c->n_glyphs == vg_count_live (c) && c->n_tombstones == vg_count_tomb (c);
}
/* wf.unique: no two live slots carry the same (font_key, glyph_key) */
static int wf_unique (const pixman_glyph_cache_t *c)
{
    int i, j, ok = 1;
    for (i = 0; i < HASH_SIZE; i++)
        for (j = 0; j < i; j++)
            if (vg_is_live (c->glyphs[i]) && vg_is_live (c->glyphs[j]) &&
                vg_obj (c->glyphs[i])->font_key == vg_obj (c->glyphs[j])->font_key &&
                vg_obj (c->glyphs[i])->glyph_key == vg_obj (c->glyphs[j])->glyph_key)
                ok = 0;
    return ok;
}
/* hash of the key of a valid glyph object: identical to vh_hash (its key) — in the oracle model the entry of
 * pool object k is (key_k, vg_objh[k]) and equal keys have equal values — but found by object identity, which
 * is much cheaper for the solver than 128-bit key comparisons against the whole oracle */
static unsigned vg_hash_of (const glyph_t *g)
{
#if VG_HASH == 0
    int k; unsigned h = 0;
    for (k = 0; k < VG_N; k++)
        if (g == vg_pool[k]) h = vg_objh[k];
    if (vg_new != NULL && g == vg_new) h = vg_newh;
    return h;
#else
    return hash_real (vg_obj (g)->font_key, vg_obj (g)->glyph_key);
#endif
}
/* wf.reachable: the probe sequence hash, hash+1, ... reaches every live glyph before it meets a NULL slot */
static int wf_reachable (const pixman_glyph_cache_t *c)
{
    int i, ok = 1;
    unsigned d;
    for (i = 0; i < HASH_SIZE; i++)
        if (vg_is_live (c->glyphs[i]))
        {
            unsigned h = vg_hash_of (c->glyphs[i]) & HASH_MASK;
            unsigned dist = ((unsigned) i - h) & HASH_MASK;
            for (d = 0; d < HASH_SIZE; d++)
                if (d < dist && c->glyphs[(h + d) & HASH_MASK] == NULL)
                    ok = 0;
        }
    return ok;
}
/* wf.null_slot: lookup_glyph of an absent key stops only at a NULL slot */
static int wf_null_slot (const pixman_glyph_cache_t *c) { return vg_count_null (c) >= 1; }

/* walk the MRU list: returns the number of links (glyphs in out[], most recent first) or -1 if the list is not a
 * well-formed doubly linked ring through the sentinel (the list header cast to a link, as pixman_list_init sets it up) */
static int vg_walk_mru (const pixman_glyph_cache_t *c, glyph_t *out[VG_N + 1])
{
    const pixman_link_t *sentinel = (const pixman_link_t *) &c->mru;
    const pixman_link_t *prev = sentinel;
    const pixman_link_t *l = c->mru.head;
    int n = -1, k;
    for (k = 0; k < VG_N + 1; k++)
    {
        if (n < 0)                              /* still walking: k links seen so far */
        {
            if (l == sentinel)
                n = k;
            else
            {
                if (l == NULL || l->prev != prev || k == VG_N)
                    return -1;
                out[k] = CONTAINER_OF (glyph_t, mru_link, l);
                prev = l;
                l = l->next;
            }
        }
    }
    if (n < 0 || c->mru.tail != prev)
        return -1;
    return n;
}
/* wf.mru: the MRU list holds exactly the live glyphs */
static int wf_mru (const pixman_glyph_cache_t *c)
{
    glyph_t *o[VG_N + 1];
    int n = vg_walk_mru (c, o), k, i, ok = 1;
    if (n < 0 || n != c->n_glyphs)
        return 0;
    for (k = 0; k < n; k++)
    {
        int found = 0;
        for (i = 0; i < HASH_SIZE; i++)
            if (c->glyphs[i] == o[k]) found = 1;
        if (!found) ok = 0;
    }
    /* n links, each a live table entry, ring closed after n steps => pairwise distinct => exactly the live glyphs */
    return ok;
}
static int cache_wf (const pixman_glyph_cache_t *c)
{
    return wf_slots (c) && wf_counts (c) && wf_unique (c) && wf_reachable (c) && wf_mru (c) && wf_null_slot (c);
}

/* abstract view: the map (font_key, glyph_key) -> entry, read off the table WITHOUT the hash */
static glyph_t *vg_view (const pixman_glyph_cache_t *c, const void *fk, const void *gk)
{
    int i; glyph_t *r = NULL;
    for (i = 0; i < HASH_SIZE; i++)
        if (vg_is_live (c->glyphs[i]) && vg_obj (c->glyphs[i])->font_key == fk && vg_obj (c->glyphs[i])->glyph_key == gk)
            r = c->glyphs[i];
    return r;
}

/* ------------------------------------------------------------------ build + snapshot */
static void vg_snapshot (void)
{
    int i, n;
    for (i = 0; i < VG_N; i++)
    {
        pre_slot[i] = vg_cache.glyphs[i];
        if (vg_is_live (pre_slot[i])) pre_copy[i] = *vg_pool[i];
    }
    pre_n_glyphs = vg_cache.n_glyphs; pre_n_tomb = vg_cache.n_tombstones; pre_freeze = vg_cache.freeze_count;
    pre_nulls = vg_count_null (&vg_cache);
    n = vg_walk_mru (&vg_cache, pre_order);
    VH_ASSUME (n == pre_n_glyphs);
}

/* declares the inputs of the whole cache state inside the harness function, builds it, assumes cache_wf */
#define VG_SYMBOLIC_CACHE() \
    VG_SLOTS (VG_DECL_SLOT) \
    VH_IN (vh_i32, in_freeze); \
    VH_ASSUME (in_freeze >= 0); \
    vg_cache.freeze_count = in_freeze; \
    vg_build_mru (); \
    VH_ASSUME (cache_wf (&vg_cache)); \
    vg_snapshot ()

/* the key the operation is about: any 64+64-bit key; its hash is one more oracle entry */
#define VG_QUERY_KEY() \
    VH_IN (vh_u64, in_qf); VH_IN (vh_u64, in_qg); VH_IN (vh_u32, in_qh); \
    void *qf = (void *) (uintptr_t) in_qf, *qg = (void *) (uintptr_t) in_qg; \
    vg_oracle_add (qf, qg, in_qh); \
    vg_newh = in_qh
/* a second, unrelated ghost key to state "view' = view +/- key" pointwise: for EVERY key */
#define VG_GHOST_KEY() \
    VH_IN (vh_u64, in_xf); VH_IN (vh_u64, in_xg); \
    void *xf = (void *) (uintptr_t) in_xf, *xg = (void *) (uintptr_t) in_xg

/* ------------------------------------------------------------------ post-state obligations */
#define VG_CHECK_WF_NO_NULLSLOT() \
    VH_CHECK ("post.wf.slots", wf_slots (&vg_cache)); \
    VH_CHECK ("post.wf.counts", wf_counts (&vg_cache)); \
    VH_CHECK ("post.wf.unique_keys", wf_unique (&vg_cache)); \
    VH_CHECK ("post.wf.reachable_by_probing", wf_reachable (&vg_cache)); \
    VH_CHECK ("post.wf.mru_is_live_set", wf_mru (&vg_cache)); \
    VH_CHECK ("post.hash_model_complete", vg_oracle_miss == 0)
#define VG_CHECK_WF() \
    VG_CHECK_WF_NO_NULLSLOT (); \
    VH_CHECK ("post.wf.null_slot", wf_null_slot (&vg_cache))

/* entries are immutable: every glyph that was live before and is still in the table has the fields it had */
static int vg_entries_immutable (void)
{
    int i, k, ok = 1;
    for (i = 0; i < VG_N; i++)
        if (vg_is_live (pre_slot[i]))
            for (k = 0; k < VG_N; k++)
                if (vg_cache.glyphs[k] == pre_slot[i])
                {
                    const glyph_t *g = vg_pool[i];
                    if (g->font_key != pre_copy[i].font_key || g->glyph_key != pre_copy[i].glyph_key ||
                        g->origin_x != pre_copy[i].origin_x || g->origin_y != pre_copy[i].origin_y ||
                        g->image != pre_copy[i].image || vg_unref[i] != 0 || vg_freed[i] != 0)
                        ok = 0;
                }
    return ok;
}
/* nothing in the table changed at all */
static int vg_table_unchanged (void)
{
    int i, ok = 1;
    for (i = 0; i < VG_N; i++)
        if (vg_cache.glyphs[i] != pre_slot[i]) ok = 0;
    return ok && vg_cache.n_glyphs == pre_n_glyphs && vg_cache.n_tombstones == pre_n_tomb;
}
/* MRU order now == expected[0..n) */
static int vg_mru_is (glyph_t *expected[], int n)
{
    glyph_t *o[VG_N + 1];
    int m = vg_walk_mru (&vg_cache, o), k, ok = 1;
    if (m != n) return 0;
    for (k = 0; k < VG_N; k++)
        if (k < n && o[k] != expected[k]) ok = 0;
    return ok;
}
/* was the glyph of pre-state slot i evicted (no longer in the table)? */
static int vg_gone (int i)
{
    int k, present = 0;
    for (k = 0; k < VG_N; k++)
        if (vg_cache.glyphs[k] == pre_slot[i]) present = 1;
    return !present;
}

#endif
