/* C17 drawing half: pixman_composite_glyphs_no_mask (op, src, dest, src_x, src_y, dest_x, dest_y, cache, n, glyphs)
 * "draws exactly what compositing each glyph image at (x - origin_x, y - origin_y) would draw", i.e. what
 *
 *     for every entry i:   pixman_image_composite32 (op, src, glyph_i.image, dest,
 *                                                    src_x + x_i - ox_i, src_y + y_i - oy_i,     source origin
 *                                                    0, 0,                                        mask (glyph) origin
 *                                                    dest_x + x_i - ox_i, dest_y + y_i - oy_i,   where the glyph lands
 *                                                    glyph width, glyph height)
 *
 * hands to the compositing routine for each box of the composite region: with gx = dest_x + x_i - ox_i,
 *     D       = [gx, gx + gw) x [gy, gy + gh)  ∩  clip box         (drawn rectangle; no call if it has no point)
 *     dest    = (D.x1, D.y1), size (D.x2 - D.x1, D.y2 - D.y1)
 *     mask    = (D.x1 - gx, D.y1 - gy)                              (=> mask rect inside the glyph image: COVER is true)
 *     source  = (src_x + D.x1 - dest_x, src_y + D.y1 - dest_y)      (the source moves with the destination)
 *     images (src, glyph image, dest), operator op; routine looked up for (op, src code/flags, glyph code,
 *     glyph flags + SAMPLES_COVER_CLIP_NEAREST, dest code/flags).
 * Calls come glyph by glyph (request order), clip boxes in region order.
 *
 * -DVD_REAL_REGION=0  the composite region is the CONTRACT of _pixman_compute_composite_region32 (C03): FALSE, or
 *                     1..VD_NBOX arbitrary non-empty boxes inside the destination bounds; the arguments of the call are
 *                     checked: whole destination, source origin (src_x - dest_x, src_y - dest_y) against destination (0,0)
 * -DVD_REAL_REGION=1  end to end on the real pixman.c + pixman-region32.c: destination without clip or with ONE clip
 *                     rectangle (symbolic), source without clip; the clip box of the spec is  clip ∩ image bounds
 *                     computed here in long arithmetic
 * -DVD_NG=1|2         glyph entries (bound); with 2 entries the two may name the same glyph object
 */
#include "gd.h"

#ifndef VD_NBOX
#define VD_NBOX 1
#endif

#if !VD_REAL_REGION
static int vd_reg_calls, vd_reg_args_ok, vd_reg_ret, vd_nbox;
static pixman_box32_t vd_box[VD_NBOX];
static struct { int32_t sx, sy, dw, dh; } vd_want;

pixman_bool_t
_pixman_compute_composite_region32 (pixman_region32_t *region, pixman_image_t *src, pixman_image_t *mask, pixman_image_t *dest,
                                    int32_t sx, int32_t sy, int32_t mx, int32_t my, int32_t dx, int32_t dy, int32_t w, int32_t h)
{
    vd_reg_calls++;
    vd_reg_args_ok = src == vd_src_p && mask == (pixman_image_t *) 0 && dest == vd_dest_p &&
                     sx == vd_want.sx && sy == vd_want.sy && dx == 0 && dy == 0 && w == vd_want.dw && h == vd_want.dh;
    (void) mx; (void) my;
    if (!vd_reg_ret)
        return FALSE;
    if (vd_nbox == 1)
    {
        region->extents = vd_box[0];
        region->data = (pixman_region32_data_t *) 0;
    }
    else
    {
        int i;
        pixman_box32_t *b;
        region->data = (pixman_region32_data_t *) malloc (sizeof (pixman_region32_data_t) + VD_NBOX * sizeof (pixman_box32_t));
        VH_ASSUME (region->data != 0);
        region->data->size = VD_NBOX;
        region->data->numRects = vd_nbox;
        b = (pixman_box32_t *) (region->data + 1);
        region->extents = vd_box[0];
        for (i = 0; i < VD_NBOX; i++)
            if (i < vd_nbox)
            {
                b[i] = vd_box[i];
                if (vd_box[i].x1 < region->extents.x1) region->extents.x1 = vd_box[i].x1;
                if (vd_box[i].y1 < region->extents.y1) region->extents.y1 = vd_box[i].y1;
                if (vd_box[i].x2 > region->extents.x2) region->extents.x2 = vd_box[i].x2;
                if (vd_box[i].y2 > region->extents.y2) region->extents.y2 = vd_box[i].y2;
            }
    }
    return TRUE;
}
#define VD_DECL_BOX(j) \
    VH_IN (vh_i32, in_bx1_##j); VH_IN (vh_i32, in_by1_##j); VH_IN (vh_i32, in_bx2_##j); VH_IN (vh_i32, in_by2_##j); \
    VH_ASSUME (0 <= in_bx1_##j && in_bx1_##j < in_bx2_##j && in_bx2_##j <= in_dw); \
    VH_ASSUME (0 <= in_by1_##j && in_by1_##j < in_by2_##j && in_by2_##j <= in_dh); \
    vd_box[j].x1 = in_bx1_##j; vd_box[j].y1 = in_by1_##j; vd_box[j].x2 = in_bx2_##j; vd_box[j].y2 = in_by2_##j; \
    sbox[j].x1 = in_bx1_##j; sbox[j].y1 = in_by1_##j; sbox[j].x2 = in_bx2_##j; sbox[j].y2 = in_by2_##j
#endif

/* the request, for vd_check_call */
static struct { pixman_op_t op; int32_t sx, sy, dx, dy; pixman_format_code_t src_fmt, dest_fmt; uint32_t src_flags, dest_flags; } rq;
static int ok_rect = 1, ok_clip = 1, ok_mask = 1, ok_src = 1, ok_img = 1, ok_cover = 1, ok_lookup = 1, ok_flags = 1, ok_routine = 1;

static void vd_check_call (const vd_call_t *r, const vd_expect *e)
{
    const pixman_composite_info_t *in = &r->info;
    const pixman_image_t *gi = e->g->image;
    const vd_lk_t *lk = VD_LK (r->id);
    if (!vd_rect_ok (r, e)) ok_rect = 0;
    if (!vd_rect_inside_clip (r, e)) ok_clip = 0;
    if (!(in->mask_x == e->d.x1 - e->gx && in->mask_y == e->d.y1 - e->gy)) ok_mask = 0;
    if (!(in->src_x == rq.sx + (e->d.x1 - rq.dx) && in->src_y == rq.sy + (e->d.y1 - rq.dy))) ok_src = 0;
    if (!(in->op == rq.op && in->src_image == vd_src_p && in->mask_image == gi && in->dest_image == vd_dest_p)) ok_img = 0;
    if (!vd_cover_true (r, e, 1)) ok_cover = 0;
    if (!vd_routine_from_lookup (r)) ok_routine = 0;
    else if (!(lk->top == VD_TOP && lk->op == rq.op &&
               lk->sf == rq.src_fmt && lk->sfl == rq.src_flags &&
               lk->mf == gi->common.extended_format_code && lk->mfl == (gi->common.flags | VD_COVER) &&
               lk->df == rq.dest_fmt && lk->dfl == rq.dest_flags)) ok_lookup = 0;
    /* flags handed to the routine: those of the images; on the glyph nothing but the (true) COVER promise may be added.
     * (pixman_image_composite32 hands over glyph flags | COVER; the real code hands over the glyph flags without it:
     * a weaker, still true description -- both are accepted, see the report) */
    if (!(in->src_flags == rq.src_flags && in->dest_flags == rq.dest_flags &&
          (in->mask_flags == gi->common.flags || in->mask_flags == (gi->common.flags | VD_COVER)))) ok_flags = 0;
}

void harness (void)
{
    VH_IN (vh_u32, in_op);
    VH_IN (vh_i32, in_sx); VH_IN (vh_i32, in_sy); VH_IN (vh_i32, in_dx); VH_IN (vh_i32, in_dy);
    VH_IN (vh_i32, in_dw); VH_IN (vh_i32, in_dh);
    VH_IN (vh_u32, in_src_fmt); VH_IN (vh_u32, in_src_flags); VH_IN (vh_u32, in_dest_fmt); VH_IN (vh_u32, in_dest_flags);
    VH_IN (vh_u8, in_n);
    vd_lbox sbox[VD_NBOX];
    int nsbox, i, j;

    VH_ASSUME (VD_INR (in_sx) && VD_INR (in_sy) && VD_INR (in_dx) && VD_INR (in_dy));
    VH_ASSUME (in_dw >= 0 && in_dw <= VD_R && in_dh >= 0 && in_dh <= VD_R);
    VH_ASSUME (in_n <= VD_NG);

    /* source: an opaque token with a format code and flags (any image type); destination: a BITS image */
    vd_src_s.common.extended_format_code = (pixman_format_code_t) in_src_fmt; vd_src_s.common.flags = in_src_flags;
    vd_src_s.common.ref_count = 1;
    vd_dest_s.common.type = BITS; vd_dest_s.common.ref_count = 1;
    vd_dest_s.width = in_dw; vd_dest_s.height = in_dh; vd_dest_s.format = (pixman_format_code_t) in_dest_fmt;
    vd_dest_s.common.extended_format_code = (pixman_format_code_t) in_dest_fmt; vd_dest_s.common.flags = in_dest_flags;
    global_implementation = VD_TOP;
    rq.op = (pixman_op_t) in_op; rq.sx = in_sx; rq.sy = in_sy; rq.dx = in_dx; rq.dy = in_dy;
    rq.src_fmt = (pixman_format_code_t) in_src_fmt; rq.dest_fmt = (pixman_format_code_t) in_dest_fmt;
    rq.src_flags = in_src_flags; rq.dest_flags = in_dest_flags;

    VD_DECL_GLYPH (0);
    VD_DECL_GLYPH (1);
    VD_DECL_ENTRY (0);
#if VD_NG >= 2
    VD_DECL_ENTRY (1);
#endif
    vd_build_cache ();

#if VD_REAL_REGION
    {
        /* destination clip: none, or one rectangle (stored inline: the loop-free paths of pixman-region32.c) */
        VH_IN (vh_u8, in_have_clip);
        VH_IN (vh_i32, in_cx1); VH_IN (vh_i32, in_cy1); VH_IN (vh_i32, in_cx2); VH_IN (vh_i32, in_cy2);
        VH_ASSUME (in_have_clip <= 1);
        VH_ASSUME (VD_INR (in_cx1) && VD_INR (in_cy1) && VD_INR (in_cx2) && VD_INR (in_cy2) && in_cx1 < in_cx2 && in_cy1 < in_cy2);
        vd_dest_s.common.have_clip_region = in_have_clip;
        vd_dest_s.common.clip_region.extents.x1 = in_cx1; vd_dest_s.common.clip_region.extents.y1 = in_cy1;
        vd_dest_s.common.clip_region.extents.x2 = in_cx2; vd_dest_s.common.clip_region.extents.y2 = in_cy2;
        vd_dest_s.common.clip_region.data = (pixman_region32_data_t *) 0;
        vd_dest_s.common.alpha_map = (bits_image_t *) 0;
        vd_src_s.common.have_clip_region = FALSE; vd_src_s.common.alpha_map = (bits_image_t *) 0;
        /* spec: the one clip box = clip rectangle ∩ image bounds */
        sbox[0].x1 = 0; sbox[0].y1 = 0; sbox[0].x2 = in_dw; sbox[0].y2 = in_dh;
        if (in_have_clip)
        {
            if (in_cx1 > sbox[0].x1) sbox[0].x1 = in_cx1;
            if (in_cy1 > sbox[0].y1) sbox[0].y1 = in_cy1;
            if (in_cx2 < sbox[0].x2) sbox[0].x2 = in_cx2;
            if (in_cy2 < sbox[0].y2) sbox[0].y2 = in_cy2;
        }
        nsbox = (sbox[0].x1 < sbox[0].x2 && sbox[0].y1 < sbox[0].y2) ? 1 : 0;
    }
#else
    {
        VH_IN (vh_u8, in_reg_ret); VH_IN (vh_u8, in_nbox);
        VH_ASSUME (in_reg_ret <= 1 && in_nbox >= 1 && in_nbox <= VD_NBOX);
        vd_reg_ret = in_reg_ret; vd_nbox = in_nbox;
        VD_DECL_BOX (0);
#if VD_NBOX >= 2
        VD_DECL_BOX (1);
#endif
        nsbox = in_reg_ret ? in_nbox : 0;
        vd_want.sx = in_sx - in_dx; vd_want.sy = in_sy - in_dy; vd_want.dw = in_dw; vd_want.dh = in_dh;
    }
#endif

    pixman_composite_glyphs_no_mask ((pixman_op_t) in_op, vd_src_p, vd_dest_p, in_sx, in_sy, in_dx, in_dy, &vd_cache, in_n, vd_req);

    /* ---- specification: glyph by glyph, clip box by clip box; each expected call is compared with the next recorded one */
    for (i = 0; i < VD_NG; i++)
        if (i < in_n)
        {
            const glyph_t *g = (const glyph_t *) vd_req[i].glyph;
            VD_LONG gx = (VD_LONG) in_dx + vd_req[i].x - g->origin_x, gy = (VD_LONG) in_dy + vd_req[i].y - g->origin_y;
            for (j = 0; j < VD_NBOX; j++)
                if (j < nsbox)
                    vd_spec_glyph_box (g, gx, gy, &sbox[j]);
        }

#if !VD_REAL_REGION
    VH_CHECK ("no_mask.region_requested_once_for_whole_destination_with_source_aligned", vd_reg_calls == 1 && vd_reg_args_ok);
#endif
    VH_CHECK ("no_mask.one_call_per_nonempty_intersection_of_glyph_box_and_clip_box", vd_ncalls == vd_nexp);
    VH_CHECK ("no_mask.drawn_rectangle_is_glyph_box_meet_clip_box", ok_rect);
    VH_CHECK ("no_mask.drawn_rectangle_inside_clip_box_and_not_empty", ok_clip);
    VH_CHECK ("no_mask.glyph_sample_origin_is_drawn_origin_minus_glyph_position", ok_mask);
    VH_CHECK ("no_mask.cover_promise_true_sample_rect_inside_glyph_image", ok_cover);
    VH_CHECK ("no_mask.source_origin_moves_with_destination", ok_src);
    VH_CHECK ("no_mask.operator_and_images_are_request_source_glyph_image_destination", ok_img);
    VH_CHECK ("no_mask.routine_called_is_the_one_a_lookup_returned", ok_routine);
    VH_CHECK ("no_mask.routine_looked_up_for_this_glyph_format_flags_plus_forced_cover", ok_lookup);
    VH_CHECK ("no_mask.flags_handed_to_routine_describe_the_images", ok_flags);
    VH_CHECK ("no_mask.lookup_recorder_not_exhausted", !vd_lk_overflow && vd_ncalls <= VD_MAXCALL);
    VH_CHECK ("no_mask.nothing_created_or_released", vd_nwhite_create == 0 && vd_ncreate == 0 && vd_unref_white + vd_unref_mask + vd_unref_other == 0 && vd_nlog == 0);
    VH_CHECK ("no_mask.mru_list_still_holds_exactly_the_cached_glyphs", vd_mru_ok ());
    VH_END ();
}
