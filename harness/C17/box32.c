/* C17 drawing half, geometry leaf: box32_intersect (dest, a, b) for ALL int32 boxes (also
 * degenerate / inverted ones): dest is contained in both boxes, is exactly their intersection as
 * point sets (ghost point), and the return value says whether it is non-empty. */
#include "vh.h"
#include "pixman-glyph.c"

#define IN_BOX(px, py, b) ((b).x1 <= (px) && (px) < (b).x2 && (b).y1 <= (py) && (py) < (b).y2)

void harness (void)
{
    VH_IN (vh_i32, in_ax1); VH_IN (vh_i32, in_ay1); VH_IN (vh_i32, in_ax2); VH_IN (vh_i32, in_ay2);
    VH_IN (vh_i32, in_bx1); VH_IN (vh_i32, in_by1); VH_IN (vh_i32, in_bx2); VH_IN (vh_i32, in_by2);
    VH_IN (vh_i32, in_px); VH_IN (vh_i32, in_py);
    pixman_box32_t a = { in_ax1, in_ay1, in_ax2, in_ay2 }, b = { in_bx1, in_by1, in_bx2, in_by2 }, d = { 0x55555555, 0x55555555, 0x55555555, 0x55555555 };
    pixman_bool_t r = box32_intersect (&d, &a, &b);

    VH_CHECK ("box32.result_inside_first_box", d.x1 >= a.x1 && d.y1 >= a.y1 && d.x2 <= a.x2 && d.y2 <= a.y2);
    VH_CHECK ("box32.result_inside_second_box", d.x1 >= b.x1 && d.y1 >= b.y1 && d.x2 <= b.x2 && d.y2 <= b.y2);
    VH_CHECK ("box32.result_is_intersection_pointwise", IN_BOX (in_px, in_py, d) == (IN_BOX (in_px, in_py, a) && IN_BOX (in_px, in_py, b)));
    VH_CHECK ("box32.returns_nonempty", (r != 0) == (d.x1 < d.x2 && d.y1 < d.y2));
    VH_CHECK ("box32.nonempty_iff_common_point_exists",
              (r != 0) == ((a.x1 > b.x1 ? a.x1 : b.x1) < (a.x2 < b.x2 ? a.x2 : b.x2) && (a.y1 > b.y1 ? a.y1 : b.y1) < (a.y2 < b.y2 ? a.y2 : b.y2)));
    VH_CHECK ("box32.operands_unchanged", a.x1 == in_ax1 && a.y1 == in_ay1 && a.x2 == in_ax2 && a.y2 == in_ay2 &&
                                          b.x1 == in_bx1 && b.y1 == in_by1 && b.x2 == in_bx2 && b.y2 == in_by2);
    VH_END ();
}
