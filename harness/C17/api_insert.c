/* C17 insert: from ANY well-formed cache, for ANY key not yet in it, any origin, any source image
 * (BITS or not), any freeze count, with allocation failure of either allocation,
 * pixman_glyph_cache_insert
 *   - either refuses (NULL): then the cache is exactly as before and nothing is leaked; it refuses
 *     only for a reason (not frozen / not a BITS image / allocation failure / table full);
 *   - or returns the new entry: cache_wf re-established, the abstract map changed by exactly
 *     "+ key -> entry", the entry carries the key, the origin and a copy of the image (created with
 *     the same format and size, filled by one SRC composite of the whole image), it is the most
 *     recently used one, every other entry is untouched.
 *
 * -DVG_PART=0 : all of the above except the single obligation "a NULL slot remains".
 * -DVG_PART=1 : only that obligation (insert.keeps_a_null_slot).  It has its own job because it
 *               is violated by the code's capacity test `n_glyphs >= HASH_SIZE` (DESIGN.md §7).
 */
#include "gc.h"
#ifndef VG_PART
#define VG_PART 0
#endif

void harness (void)
{
    int i;
    VG_SYMBOLIC_CACHE ();
    VG_QUERY_KEY ();
    VG_GHOST_KEY ();
    VH_IN (vh_u32, in_failmask);
    VH_IN (vh_u8, in_create_fails);
    VH_IN (vh_u8, in_img_is_bits);
    VH_IN (vh_u32, in_format);
    VH_IN (vh_i32, in_w);
    VH_IN (vh_i32, in_hgt);
    VH_IN (vh_i32, in_nox);
    VH_IN (vh_i32, in_noy);
    vh_failmask = in_failmask;
    st_create_fail = in_create_fails != 0;
    /* API usage contract (pixman.h has no "replace" semantics; every caller looks the key up first) */
    VH_ASSUME (vg_view (&vg_cache, qf, qg) == NULL);
    vg_img_src.type = in_img_is_bits ? BITS : SOLID;
    vg_img_src.bits.format = (pixman_format_code_t) in_format;
    vg_img_src.bits.width = in_w;
    vg_img_src.bits.height = in_hgt;

    glyph_t *pre_x = vg_view (&vg_cache, xf, xg);
    int x_is_q = (xf == qf && xg == qg);
    int legal = pre_freeze > 0 && in_img_is_bits;
    int room = pre_nulls >= 2;               /* inserting cannot use up the last NULL slot */
    int alloc_fail = (in_failmask & 1u) || in_create_fails;

    glyph_t *ret = (glyph_t *) pixman_glyph_cache_insert (&vg_cache, qf, qg, in_nox, in_noy, &vg_img_src);
    vg_new = ret;

#if VG_PART == 1
    VH_CHECK ("insert.keeps_a_null_slot", wf_null_slot (&vg_cache));
#else
    VG_CHECK_WF_NO_NULLSLOT ();
    VH_CHECK ("insert.freeze_count_unchanged", vg_cache.freeze_count == pre_freeze);
    VH_CHECK ("insert.entries_immutable", vg_entries_immutable ());
    VH_CHECK ("insert.misuse_is_refused_and_logged", legal || (ret == NULL && st_log_errors == 1 && vh_alloc_calls == 0));
    VH_CHECK ("insert.refuses_only_for_a_reason", ret != NULL || !legal || !room || alloc_fail);
    {
        int released = 1, moved = 0;
        for (i = 0; i < VG_N; i++)
        {
            if (vg_unref[i] != 0 || vg_freed[i] != 0) released = 0;
            if (vg_is_live (pre_slot[i]) && vg_cache.glyphs[i] != pre_slot[i]) moved = 1;
        }
        VH_CHECK ("insert.releases_no_entry", released && vg_unref_other == 0);
        VH_CHECK ("insert.other_entries_stay", !moved);
    }
    if (ret == NULL)
    {
        VH_CHECK ("insert.refusal_leaves_table_unchanged", vg_table_unchanged ());
        VH_CHECK ("insert.refusal_leaves_mru_unchanged", vg_mru_is (pre_order, pre_n_glyphs));
        VH_CHECK ("insert.refusal_leaves_view_unchanged", vg_view (&vg_cache, xf, xg) == pre_x);
        VH_CHECK ("insert.refusal_leaks_nothing",
                  vh_alloc_calls - vh_alloc_failed == vh_free_calls && (st_created == NULL || vg_unref_new == 1));
    }
    else
    {
        glyph_t *exp_order[VG_N + 1];
        int argb = PIXMAN_FORMAT_A ((pixman_format_code_t) in_format) != 0 && PIXMAN_FORMAT_RGB ((pixman_format_code_t) in_format) != 0;
        VH_CHECK ("insert.view_plus_key", vg_view (&vg_cache, xf, xg) == (x_is_q ? ret : pre_x));
        VH_CHECK ("insert.n_glyphs", vg_cache.n_glyphs == pre_n_glyphs + 1);
        VH_CHECK ("insert.entry_has_key_and_origin",
                  ret->font_key == qf && ret->glyph_key == qg && ret->origin_x == in_nox && ret->origin_y == in_noy);
        VH_CHECK ("insert.entry_image_is_fresh_copy",
                  st_create_calls == 1 && ret->image == st_created && st_created == &vg_img_new && vg_unref_new == 0 &&
                  st_create_format == (pixman_format_code_t) in_format && st_create_w == in_w && st_create_h == in_hgt &&
                  st_create_bits == NULL);
        VH_CHECK ("insert.copy_filled_by_one_src_composite",
                  st_composite_calls == 1 && st_comp.op == PIXMAN_OP_SRC && st_comp.src == &vg_img_src && st_comp.mask == NULL &&
                  st_comp.dest == &vg_img_new && st_comp.sx == 0 && st_comp.sy == 0 && st_comp.dx == 0 && st_comp.dy == 0 &&
                  st_comp.w == in_w && st_comp.h == in_hgt);
        VH_CHECK ("insert.copy_component_alpha_iff_argb", (vg_img_new.common.component_alpha != 0) == argb);
        VH_CHECK ("insert.copy_validated", st_validate_calls >= 1 && st_validated == &vg_img_new);
        VH_CHECK ("insert.source_image_untouched",
                  vg_img_src.bits.format == (pixman_format_code_t) in_format && vg_img_src.bits.width == in_w &&
                  vg_img_src.bits.height == in_hgt);
        exp_order[0] = ret;
        for (i = 0; i < VG_N; i++)
            if (i < pre_n_glyphs) exp_order[i + 1] = pre_order[i];
        VH_CHECK ("insert.new_entry_is_most_recently_used", vg_mru_is (exp_order, pre_n_glyphs + 1));
        VH_CHECK ("insert.success_only_when_legal", legal && !alloc_fail);
        VH_CHECK ("insert.no_error_logged", st_log_errors == 0);
    }
#endif
    VH_END ();
}
