/* C17 drawing half, the two query functions a caller uses to set up pixman_composite_glyphs:
 *
 * -DVD_PART=0  pixman_glyph_get_extents (cache, n, glyphs, &box): box is the bounding box of the glyph boxes
 *              [x_i - ox_i, x_i - ox_i + gw_i) x [y_i - oy_i, y_i - oy_i + gh_i)   (where per-glyph compositing draws):
 *              x1/y1 = minimum of the left/top edges, x2/y2 = maximum of the right/bottom edges; for n == 0 the box
 *              contains no point (the code leaves x1 = y1 = INT32_MAX, x2 = y2 = INT32_MIN).  Ghost point: every point of
 *              every glyph box lies in the result.
 * -DVD_PART=1  pixman_glyph_get_mask_format (cache, n, glyphs): "a format that is suitable for use as a mask for the set of
 *              glyphs".  Decision table, written from the format names of pixman.h (NOT from PIXMAN_FORMAT_TYPE/_A):
 *                alpha-only formats and their depth:  a8 -> 8,  a4 -> 4,  x4a4 -> 4,  a1 -> 1
 *                every other format carries colour (or is indexed / YUV): not alpha-only
 *                (1) some glyph is not alpha-only            -> PIXMAN_a8r8g8b8 (a component-alpha capable mask)
 *                (2) all glyphs alpha-only (or no glyph)     -> an alpha-only format that loses nothing: its depth equals the
 *                    largest glyph depth (1 for no glyphs), and it is PIXMAN_a1 or the format of one of the glyphs
 *                    (so: only a8 glyphs -> a8; a1 and a8 -> a8; only a1 -> a1; a4 and x4a4 -> either of the two)
 * Bound: n <= VD_NG (2) glyph entries.  No stubs are called.
 */
#include "gd.h"

#ifndef VD_PART
#define VD_PART 0
#endif

/* literal table: 1 = known format of pixman.h; *depth = alpha depth if alpha-only, else 0 */
static int spec_format (pixman_format_code_t f, int *depth)
{
    *depth = 0;
    switch (f)
    {
    case PIXMAN_a8: *depth = 8; return 1;
    case PIXMAN_a4: *depth = 4; return 1;
    case PIXMAN_x4a4: *depth = 4; return 1;
    case PIXMAN_a1: *depth = 1; return 1;
    case PIXMAN_rgba_float: case PIXMAN_rgb_float:
    case PIXMAN_a8r8g8b8: case PIXMAN_x8r8g8b8: case PIXMAN_a8b8g8r8: case PIXMAN_x8b8g8r8: case PIXMAN_b8g8r8a8: case PIXMAN_b8g8r8x8:
    case PIXMAN_r8g8b8a8: case PIXMAN_r8g8b8x8: case PIXMAN_x14r6g6b6: case PIXMAN_x2r10g10b10: case PIXMAN_a2r10g10b10:
    case PIXMAN_x2b10g10r10: case PIXMAN_a2b10g10r10: case PIXMAN_a8r8g8b8_sRGB: case PIXMAN_r8g8b8: case PIXMAN_b8g8r8:
    case PIXMAN_r5g6b5: case PIXMAN_b5g6r5: case PIXMAN_a1r5g5b5: case PIXMAN_x1r5g5b5: case PIXMAN_a1b5g5r5: case PIXMAN_x1b5g5r5:
    case PIXMAN_a4r4g4b4: case PIXMAN_x4r4g4b4: case PIXMAN_a4b4g4r4: case PIXMAN_x4b4g4r4: case PIXMAN_r3g3b2: case PIXMAN_b2g3r3:
    case PIXMAN_a2r2g2b2: case PIXMAN_a2b2g2r2: case PIXMAN_c8: case PIXMAN_g8: /* x4c4, x4g4 are the same codes */
    case PIXMAN_r1g2b1: case PIXMAN_b1g2r1: case PIXMAN_a1r1g1b1: case PIXMAN_a1b1g1r1: case PIXMAN_c4: case PIXMAN_g4: case PIXMAN_g1:
    case PIXMAN_yuy2: case PIXMAN_yv12:
        return 1;
    default:
        return 0;
    }
}

void harness (void)
{
    VH_IN (vh_u8, in_n);
    int i;
    VH_ASSUME (in_n <= VD_NG);
    VD_DECL_GLYPH (0);
    VD_DECL_GLYPH (1);
    VD_DECL_ENTRY (0);
#if VD_NG >= 2
    VD_DECL_ENTRY (1);
#endif
    vd_build_cache ();

#if VD_PART == 0
    {
        VH_IN (vh_i32, in_px); VH_IN (vh_i32, in_py);
        pixman_box32_t box = { 0x55555555, 0x55555555, 0x55555555, 0x55555555 };
        long x1 = 0, y1 = 0, x2 = 0, y2 = 0;
        int any = 0, ghost_in_some_glyph = 0;

        pixman_glyph_get_extents (&vd_cache, in_n, vd_req, &box);

        for (i = 0; i < VD_NG; i++)
            if (i < in_n)
            {
                const glyph_t *g = (const glyph_t *) vd_req[i].glyph;
                long gx = (long) vd_req[i].x - g->origin_x, gy = (long) vd_req[i].y - g->origin_y;
                long gx2 = gx + g->image->bits.width, gy2 = gy + g->image->bits.height;
                if (!any || gx < x1) x1 = gx;
                if (!any || gy < y1) y1 = gy;
                if (!any || gx2 > x2) x2 = gx2;
                if (!any || gy2 > y2) y2 = gy2;
                any = 1;
                if (gx <= in_px && in_px < gx2 && gy <= in_py && in_py < gy2) ghost_in_some_glyph = 1;
            }
        if (any)
            VH_CHECK ("extents.box_is_union_of_the_glyph_boxes", box.x1 == x1 && box.y1 == y1 && box.x2 == x2 && box.y2 == y2);
        else
            VH_CHECK ("extents.no_glyphs_gives_a_box_without_points", box.x2 <= box.x1 && box.y2 <= box.y1 &&
                      box.x1 == INT32_MAX && box.y1 == INT32_MAX && box.x2 == INT32_MIN && box.y2 == INT32_MIN);
        VH_CHECK ("extents.every_point_of_every_glyph_box_is_inside",
                  !ghost_in_some_glyph || (box.x1 <= in_px && in_px < box.x2 && box.y1 <= in_py && in_py < box.y2));
        VH_CHECK ("extents.cache_and_request_untouched", vd_mru_ok () && vd_req[0].x == in_x0 && vd_req[0].y == in_y0 &&
                  vd_g0.origin_x == in_ox0 && vd_g1.origin_y == in_oy1 && vd_nlookup == 0 && vd_ncalls == 0);
    }
#else
    {
        int d, known, maxdepth = 1, all_alpha = 1, is_a_glyph_format = 0, rdepth;
        pixman_format_code_t r;

        for (i = 0; i < VD_NG; i++)
            if (i < in_n)
            {
                known = spec_format (((const glyph_t *) vd_req[i].glyph)->image->bits.format, &d);
                VH_ASSUME (known);
                if (d == 0) all_alpha = 0;
                if (d > maxdepth) maxdepth = d;
            }

        r = pixman_glyph_get_mask_format (&vd_cache, in_n, vd_req);

        for (i = 0; i < VD_NG; i++)
            if (i < in_n && r == ((const glyph_t *) vd_req[i].glyph)->image->bits.format) is_a_glyph_format = 1;
        known = spec_format (r, &rdepth);
        if (!all_alpha)
            VH_CHECK ("mask_format.a8r8g8b8_if_any_glyph_is_not_alpha_only", r == PIXMAN_a8r8g8b8);
        else
            VH_CHECK ("mask_format.deepest_alpha_only_format_of_the_glyphs_else_a1",
                      known && rdepth == maxdepth && (r == PIXMAN_a1 || is_a_glyph_format));
        VH_CHECK ("mask_format.cache_untouched_nothing_called", vd_mru_ok () && vd_nlookup == 0 && vd_ncalls == 0 && vd_ncreate == 0);
    }
#endif
    VH_END ();
}
