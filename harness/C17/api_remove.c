/* C17 remove: on ANY well-formed cache, for ANY key, pixman_glyph_cache_remove (lookup_glyph +
 * remove_glyph incl. the tombstone sweep + free_glyph) re-establishes cache_wf and changes the
 * abstract map by exactly "- key": the entry of that key (if any) disappears, its image is
 * unreferenced once and its glyph freed once; every other key keeps its (unchanged) entry. */
#include "gc.h"

void harness (void)
{
    int i;
    VG_SYMBOLIC_CACHE ();
    VG_QUERY_KEY ();
    VG_GHOST_KEY ();
    glyph_t *victim = vg_view (&vg_cache, qf, qg);
    glyph_t *pre_x = vg_view (&vg_cache, xf, xg);
    int x_is_q = (xf == qf && xg == qg);
    glyph_t *exp_order[VG_N + 1];
    int n_exp = 0, victims = 0, bad_release = 0, resurrect = 0;

    pixman_glyph_cache_remove (&vg_cache, qf, qg);

    VG_CHECK_WF ();
    VH_CHECK ("remove.view_minus_key", vg_view (&vg_cache, xf, xg) == (x_is_q ? NULL : pre_x));
    VH_CHECK ("remove.entries_immutable", vg_entries_immutable ());
    VH_CHECK ("remove.n_glyphs", vg_cache.n_glyphs == pre_n_glyphs - (victim != NULL));
    VH_CHECK ("remove.absent_key_changes_nothing", victim != NULL || (vg_table_unchanged () && st_unref_calls == 0));
    for (i = 0; i < VG_N; i++)
    {
        int is_victim = vg_is_live (pre_slot[i]) && pre_slot[i] == victim;
        victims += is_victim;
        if (vg_unref[i] != is_victim || vg_freed[i] != is_victim) bad_release = 1;
        /* no slot that was free of a glyph acquires one; no surviving glyph moves */
        if (!is_victim && vg_is_live (pre_slot[i]) && vg_cache.glyphs[i] != pre_slot[i]) resurrect = 1;
        if (!vg_is_live (pre_slot[i]) && vg_is_live (vg_cache.glyphs[i])) resurrect = 1;
    }
    VH_CHECK ("remove.image_unref_and_free_exactly_once", !bad_release && vg_unref_other == 0 && vh_free_calls == 0);
    VH_CHECK ("remove.other_slots_keep_their_glyph", !resurrect);
    for (i = 0; i < VG_N; i++)
        if (i < pre_n_glyphs && pre_order[i] != victim)
            exp_order[n_exp++] = pre_order[i];
    VH_CHECK ("remove.mru_order_of_survivors_kept", vg_mru_is (exp_order, n_exp));
    VH_CHECK ("remove.freeze_count_unchanged", vg_cache.freeze_count == pre_freeze);
    VH_CHECK ("remove.no_error_logged", st_log_errors == 0 && vh_alloc_calls == 0);
    VH_END ();
}
