/* C17 thaw: from ANY well-formed cache with freeze_count >= 1, pixman_glyph_cache_thaw
 *  - decrements freeze_count and re-establishes cache_wf;
 *  - evicts NOTHING unless the count reaches 0 and the table occupancy (glyphs + tombstones, the
 *    quantity the cache compares with its high-water mark) is above N_GLYPHS_HIGH_WATER;
 *  - when it evicts, the evicted set is a suffix of the MRU order (least recently used first):
 *    nobody is evicted while a less recently used glyph survives;
 *  - it stops at the low-water mark: afterwards n_glyphs == min (n_glyphs, LOW_WATER) — or 0 in the
 *    tombstone-dominated case (more tombstones than HIGH_WATER: the table is dumped, which is still
 *    an LRU suffix: everything);
 *  - survivors are unchanged entries in unchanged relative MRU order; every evicted entry is
 *    released exactly once. */
#include "gc.h"

void harness (void)
{
    int i, j;
    VG_SYMBOLIC_CACHE ();
    VG_GHOST_KEY ();
    VH_ASSUME (in_freeze >= 1);          /* API contract: thaw pairs with an earlier freeze */
    glyph_t *pre_x = vg_view (&vg_cache, xf, xg);
    int trigger = (pre_freeze - 1 == 0) && (pre_n_glyphs + pre_n_tomb > N_GLYPHS_HIGH_WATER);
    int dump = trigger && pre_n_tomb > N_GLYPHS_HIGH_WATER;
    int n_gone = 0, suffix_ok = 1, release_ok = 1, x_rank = -1;
    glyph_t *exp_order[VG_N + 1];
    int n_exp = 0;

    pixman_glyph_cache_thaw (&vg_cache);

    VG_CHECK_WF ();
    VH_CHECK ("thaw.freeze_count_decremented", vg_cache.freeze_count == pre_freeze - 1);
    VH_CHECK ("thaw.evicts_only_above_high_water",
              trigger || (vg_table_unchanged () && vg_mru_is (pre_order, pre_n_glyphs) && st_unref_calls == 0));
    for (i = 0; i < VG_N; i++)
        if (vg_is_live (pre_slot[i]))
        {
            int gone_i = vg_gone (i);
            n_gone += gone_i;
            if (vg_unref[i] != gone_i || vg_freed[i] != gone_i) release_ok = 0;
            for (j = 0; j < VG_N; j++)
                if (vg_is_live (pre_slot[j]) && gone_i && vg_rank[j] > vg_rank[i] && !vg_gone (j))
                    suffix_ok = 0;
            if (pre_slot[i] == pre_x) x_rank = vg_rank[i];
        }
        else if (vg_unref[i] != 0 || vg_freed[i] != 0) release_ok = 0;
    VH_CHECK ("thaw.evicts_least_recently_used_first", suffix_ok);
    VH_CHECK ("thaw.down_to_low_water",
              !trigger || vg_cache.n_glyphs == (dump ? 0 : (pre_n_glyphs < N_GLYPHS_LOW_WATER ? pre_n_glyphs : N_GLYPHS_LOW_WATER)));
    VH_CHECK ("thaw.n_glyphs_accounts_for_evictions", vg_cache.n_glyphs == pre_n_glyphs - n_gone);
    VH_CHECK ("thaw.evicted_released_exactly_once", release_ok && vg_unref_other == 0 && vh_free_calls == 0);
    VH_CHECK ("thaw.entries_immutable", vg_entries_immutable ());
    /* pointwise view: a key keeps its entry iff that entry is among the survivors */
    VH_CHECK ("thaw.view_is_restriction",
              vg_view (&vg_cache, xf, xg) == NULL || vg_view (&vg_cache, xf, xg) == pre_x);
    VH_CHECK ("thaw.view_survivors_are_most_recent",
              pre_x == NULL || !trigger || dump ||
              ((vg_view (&vg_cache, xf, xg) == pre_x) == (x_rank < N_GLYPHS_LOW_WATER)));
    for (i = 0; i < VG_N; i++)
        if (i < pre_n_glyphs && i < pre_n_glyphs - n_gone)
            exp_order[n_exp++] = pre_order[i];
    VH_CHECK ("thaw.mru_order_of_survivors_kept", vg_mru_is (exp_order, n_exp));
    VH_CHECK ("thaw.no_error_logged", st_log_errors == 0 && vh_alloc_calls == 0);
    VH_END ();
}
