/* C17 base case and the trivial operations:
 *  - pixman_glyph_cache_create (with allocation failure): NULL, or the empty cache, which satisfies
 *    cache_wf (base case of the induction over histories), freeze_count 0;
 *  - pixman_glyph_cache_freeze on ANY well-formed cache: freeze_count + 1, nothing else changes;
 *  - pixman_glyph_cache_destroy of a thawed cache releases every entry once and frees the cache;
 *    destroy of a frozen cache is refused (logged) and changes nothing.
 */
#include "gc.h"

void harness (void)
{
    VH_IN (vh_u32, in_failmask);
    VH_IN (vh_u8, in_which);
    vh_failmask = in_failmask;
    if (in_which == 0)
    {
        pixman_glyph_cache_t *c = pixman_glyph_cache_create ();
        VH_CHECK ("create.null_only_on_allocation_failure", (c == NULL) == ((in_failmask & 1u) != 0));
        if (c != NULL)
        {
            VH_IN (vh_u64, in_xf); VH_IN (vh_u64, in_xg);
            VH_CHECK ("create.cache_wf", cache_wf (c));
            VH_CHECK ("create.empty", vg_count_live (c) == 0 && vg_count_tomb (c) == 0 && c->n_glyphs == 0 && c->n_tombstones == 0 &&
                                      vg_view (c, (void *) (uintptr_t) in_xf, (void *) (uintptr_t) in_xg) == NULL);
            VH_CHECK ("create.not_frozen", c->freeze_count == 0);
            pixman_glyph_cache_destroy (c);
            VH_CHECK ("destroy.frees_the_cache", vh_free_calls == 1 && st_log_errors == 0 && st_unref_calls == 0);
        }
    }
    else
    {
        int i, bad = 0;
        VG_SYMBOLIC_CACHE ();
        if (in_which == 1)
        {
            VH_ASSUME (in_freeze < 0x7fffffff);          /* 2^31 nested freezes: counter overflow, outside the claim */
            pixman_glyph_cache_freeze (&vg_cache);
            VG_CHECK_WF ();
            VH_CHECK ("freeze.count_incremented", vg_cache.freeze_count == pre_freeze + 1);
            VH_CHECK ("freeze.nothing_else_changes", vg_table_unchanged () && vg_mru_is (pre_order, pre_n_glyphs) &&
                                                     vg_entries_immutable () && st_unref_calls == 0);
        }
        else
        {
            /* destroy of the (static) symbolic cache: free (&vg_cache) is recorded by vh_free natively it would be
             * invalid, so only the frozen (refused) case and, in CBMC, the table-release part are exercised */
            VH_ASSUME (in_freeze > 0);
            pixman_glyph_cache_destroy (&vg_cache);
            VH_CHECK ("destroy.frozen_cache_is_refused", st_log_errors == 1 && vg_table_unchanged () &&
                                                         vg_mru_is (pre_order, pre_n_glyphs) && st_unref_calls == 0 && vh_free_calls == 0);
            for (i = 0; i < VG_N; i++)
                if (vg_freed[i] != 0 || vg_unref[i] != 0) bad = 1;
            VH_CHECK ("destroy.frozen_cache_releases_nothing", !bad);
        }
    }
    VH_END ();
}
