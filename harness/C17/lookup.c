/* C17 lookup: on ANY well-formed cache, for ANY key, pixman_glyph_cache_lookup (= lookup_glyph)
 * returns the live entry of the abstract map or NULL, terminates (the probe loop is unwound
 * HASH_SIZE+1 times with unwinding assertions on), and changes nothing. */
#include "gc.h"

void harness (void)
{
    VG_SYMBOLIC_CACHE ();
    VG_QUERY_KEY ();
    glyph_t *expect = vg_view (&vg_cache, qf, qg);

    const void *r = pixman_glyph_cache_lookup (&vg_cache, qf, qg);

    VH_CHECK ("lookup.returns_live_entry_or_null", r == (const void *) expect);
    VH_CHECK ("lookup.present_key_found", !(expect != NULL) || r != NULL);
    VH_CHECK ("lookup.absent_key_null", !(expect == NULL) || r == NULL);
    VH_CHECK ("lookup.table_unchanged", vg_table_unchanged ());
    VH_CHECK ("lookup.entries_immutable", vg_entries_immutable ());
    VH_CHECK ("lookup.mru_unchanged", vg_mru_is (pre_order, pre_n_glyphs));
    VH_CHECK ("lookup.freeze_count_unchanged", vg_cache.freeze_count == pre_freeze);
    VH_CHECK ("lookup.no_side_calls", st_unref_calls == 0 && st_log_errors == 0 && vh_alloc_calls == 0 && vh_free_calls == 0);
    VG_CHECK_WF ();
    VH_END ();
}
