/* gd.h — common part of the C17 glyph-DRAWING harnesses (route H): no_mask.c, add_glyphs.c, glyph_info.c.
 *
 * The real pixman-glyph.c is #included unmodified; the functions under contract are
 * pixman_composite_glyphs_no_mask, add_glyphs (static) and pixman_composite_glyphs.
 *
 * Property (C17, drawing half): "pixman_composite_glyphs_no_mask draws exactly what compositing each glyph
 * image at (x - origin_x, y - origin_y) would draw, and pixman_composite_glyphs exactly what ADD-accumulating
 * the glyphs into a mask and compositing that mask would."
 * Both functions by-pass pixman_image_composite32 and call the compositing routine themselves.  What is
 * checked here is therefore the interface to the routine: every pixman_composite_info_t handed to the routine
 * (and the arguments of the lookup that chose the routine) equals what pixman_image_composite32 of THAT glyph
 * image at THAT position hands over for the same clip box (written down in long arithmetic in vd_spec_*):
 *     drawn rectangle  D  = glyph box  ∩  clip box           glyph box = [gx, gx + gw) x [gy, gy + gh)
 *     glyph sample origin = (D.x1 - gx, D.y1 - gy)           (so that sample rect ⊆ glyph: the COVER promise)
 *     source origin       = (src_x + D.x1 - dest_x, ...)     (the source moves with the destination)
 *     nothing at all when D is empty.
 * Pixel identity then rests on C01/C02 (the routine looked up for (op, formats, flags) computes the operator).
 *
 * Recording stubs (assumptions of every drawing job; each is the subject of another property):
 *   _pixman_implementation_lookup_composite   records its arguments; the k-th lookup returns (VD_IMP (k), vd_func<k>):
 *                                             a DIFFERENT routine for every lookup, so a stale memo is visible    (C02)
 *   vd_func0..2                               record the pixman_composite_info_t and their own index
 *   _pixman_image_validate                    counts; flags / extended_format_code of the images are inputs (C14)
 *   pixman_image_create_solid_fill            returns the static "white" image or NULL (input)               (C15/C20)
 *   pixman_image_unref / create_bits / set_component_alpha / composite32 (the latter only without pixman.c)
 *   _pixman_compute_composite_region32        -DVD_REAL_REGION=0: its contract (FALSE, or TRUE with 1..VD_NBOX
 *                                             non-empty boxes inside the destination bounds; C03 region.* jobs);
 *                                             -DVD_REAL_REGION=1: the real function of pixman.c on the real
 *                                             pixman-region32.c (destination clip: none or one rectangle)
 *   global_implementation                     a dummy token (VD_TOP); implementations are opaque tokens
 */
#ifndef GD_H
#define GD_H

#include "vh.h"
#include <stdlib.h>
#include <string.h>
#include "pixman-glyph.c"

#ifndef VD_NG
#define VD_NG 1                 /* number of glyph entries in the request: THE bound of these jobs (1 or 2) */
#endif
#ifndef VD_REAL_REGION
#define VD_REAL_REGION 0
#endif
#ifndef VD_NBOX
#define VD_NBOX 1               /* clip boxes per glyph (no_mask only) */
#endif
#define VD_MAXCALL (VD_NG * VD_NBOX + 1)     /* one more than the specification can ask for */
#define VD_MAXLK 3                /* the specification asks for at most VD_NG * VD_NBOX <= 2 lookups */

/* every coordinate of the request lives in +-2^29 (the property's "within int32 arithmetic range", same as C03) */
#define VD_R (1 << 29)
#define VD_INR(v) ((v) >= -VD_R && (v) <= VD_R)
#define VD_GLYPH_MAX (1 << 15)
#define VD_COVER FAST_PATH_SAMPLES_COVER_CLIP_NEAREST

/* ------------------------------------------------------------------ objects */
/* implementations are never looked into by the glyph code: opaque tokens (pixman_implementation_t is 2 KB of function
 * pointer tables; five of them as real objects made the formula 10x larger) */
static long vd_top_tok, vd_imp_tok0, vd_imp_tok1, vd_imp_tok2;
#define VD_TOP    ((pixman_implementation_t *) &vd_top_tok)
#define VD_IMP(k) ((pixman_implementation_t *) ((k) == 0 ? &vd_imp_tok0 : (k) == 1 ? &vd_imp_tok1 : &vd_imp_tok2))
/* separate objects, not arrays: an array of structs indexed through a symbolic pointer is much dearer in CBMC */
/* images are objects of the LARGEST member type of the pixman_image_t union (bits_image_t), handed to the code as
 * pixman_image_t *: CBMC re-derives every member view of a union object on each write (byte_update of the whole union:
 * measured 660k variables for 30 field writes); on a struct object the same accesses are plain member accesses.
 * All harness-side writes go through the *_s names. */
static bits_image_t vd_src_s, vd_dest_s, vd_white_s, vd_gimg0_s, vd_gimg1_s, vd_final_s /* destination of pixman_composite_glyphs */;
#define VD_IMG(s)  ((pixman_image_t *) &(s))
#define vd_src_p   VD_IMG (vd_src_s)
#define vd_dest_p  VD_IMG (vd_dest_s)
#define vd_white_p VD_IMG (vd_white_s)
#define vd_final_p VD_IMG (vd_final_s)
static glyph_t vd_g0, vd_g1, vd_other;
#define VD_GLYPH(i) ((i) ? &vd_g1 : &vd_g0)
#define VD_GIMG_S(i) ((i) ? &vd_gimg1_s : &vd_gimg0_s)
static pixman_glyph_cache_t vd_cache;
static pixman_glyph_t vd_req[2];
static char vd_key[3];

/* ------------------------------------------------------------------ recorders */
/* Slots are separate objects selected by if-chains, never arrays indexed by a (symbolic) counter: an array of structs
 * updated at a symbolic index inside each of the routines the function-pointer call may reach made the formula 2.4M clauses. */
typedef struct { pixman_implementation_t *top; pixman_op_t op; pixman_format_code_t sf, mf, df; uint32_t sfl, mfl, dfl; } vd_lk_t;
typedef struct { int id; pixman_implementation_t *imp; pixman_composite_info_t info; int seq; } vd_call_t;
static vd_lk_t vd_lk0, vd_lk1, vd_lk2;
static vd_call_t vd_call0, vd_call1, vd_call2;
#define VD_LK(k)   ((k) == 0 ? &vd_lk0 : (k) == 1 ? &vd_lk1 : &vd_lk2)
#define VD_CALL(c) ((c) == 0 ? &vd_call0 : (c) == 1 ? &vd_call1 : &vd_call2)
static int vd_seq;                                  /* global event counter (ordering of calls) */
static int vd_nlookup, vd_lk_overflow, vd_ncalls;
static int vd_cur_id; static pixman_implementation_t *vd_cur_imp;
static int vd_nvalidate, vd_nlog;
static int vd_nwhite_create, vd_white_fail, vd_white_color_ok;
static uint32_t vd_white_flags;
static int vd_unref_white, vd_unref_mask, vd_unref_other;
static int vd_ncreate, vd_create_fail, vd_create_w, vd_create_h, vd_create_stride; static pixman_format_code_t vd_create_fmt; static uint32_t *vd_create_bits;
static uint32_t vd_mask_flags_after_validate;
static int vd_nca, vd_ca_value;
static int vd_ncomposite, vd_composite_seq;
static struct { pixman_op_t op; pixman_image_t *src, *mask, *dest; int32_t sx, sy, mx, my, dx, dy, w, h; } vd_comp;

static void vd_record (int id, pixman_implementation_t *imp, pixman_composite_info_t *info)
{
    if (vd_ncalls < VD_MAXCALL)
    {
        vd_call_t *r = VD_CALL (vd_ncalls);
        r->id = id; r->imp = imp; r->info = *info; r->seq = vd_seq;
    }
    vd_ncalls++; vd_seq++;
}
/* the routine handed out by the k-th lookup */
static void vd_func0 (pixman_implementation_t *imp, pixman_composite_info_t *info) { vd_record (0, imp, info); }
static void vd_func1 (pixman_implementation_t *imp, pixman_composite_info_t *info) { vd_record (1, imp, info); }
static void vd_func2 (pixman_implementation_t *imp, pixman_composite_info_t *info) { vd_record (2, imp, info); }

void
_pixman_implementation_lookup_composite (pixman_implementation_t *toplevel, pixman_op_t op,
                                         pixman_format_code_t src_format, uint32_t src_flags,
                                         pixman_format_code_t mask_format, uint32_t mask_flags,
                                         pixman_format_code_t dest_format, uint32_t dest_flags,
                                         pixman_implementation_t **out_imp, pixman_composite_func_t *out_func)
{
    int k = vd_nlookup;
    vd_lk_t *r;
    if (k >= VD_MAXLK) { k = VD_MAXLK - 1; vd_lk_overflow = 1; }
    r = VD_LK (k);
    r->top = toplevel; r->op = op;
    r->sf = src_format; r->mf = mask_format; r->df = dest_format;
    r->sfl = src_flags; r->mfl = mask_flags; r->dfl = dest_flags;
    *out_imp = VD_IMP (k);
    *out_func = k == 0 ? vd_func0 : k == 1 ? vd_func1 : vd_func2;
    vd_nlookup++; vd_seq++;
}

#if !VD_REAL_REGION
pixman_implementation_t *global_implementation;      /* with pixman.c in the program it is defined there */
#endif
pixman_implementation_t *_pixman_choose_implementation (void) { return VD_TOP; }
void _pixman_log_error (const char *f, const char *m) { (void) f; (void) m; vd_nlog++; }
void _pixman_image_validate (pixman_image_t *image) { (void) image; vd_nvalidate++; }

pixman_image_t *pixman_image_create_solid_fill (const pixman_color_t *c)
{
    vd_nwhite_create++;
    vd_white_color_ok = c->red == 0xffff && c->green == 0xffff && c->blue == 0xffff && c->alpha == 0xffff;
    if (vd_white_fail)
        return (pixman_image_t *) 0;
    vd_white_s.common.type = SOLID;
    vd_white_s.common.ref_count = 1;
    vd_white_s.common.extended_format_code = PIXMAN_solid;
    vd_white_s.common.flags = vd_white_flags;        /* what validation leaves: an input */
    return vd_white_p;
}
pixman_bool_t pixman_image_unref (pixman_image_t *image)
{
    if (image == vd_white_p) vd_unref_white++;
    else if (image == vd_dest_p) vd_unref_mask++;
    else vd_unref_other++;
    return TRUE;
}
/* the mask of pixman_composite_glyphs: the static vd_dest, described as requested, flags as validation would leave them (input) */
pixman_image_t *pixman_image_create_bits (pixman_format_code_t format, int width, int height, uint32_t *bits, int stride)
{
    vd_ncreate++; vd_create_fmt = format; vd_create_w = width; vd_create_h = height; vd_create_bits = bits; vd_create_stride = stride;
    if (vd_create_fail)
        return (pixman_image_t *) 0;
    vd_dest_s.common.type = BITS;
    vd_dest_s.common.ref_count = 1;
    vd_dest_s.format = format; vd_dest_s.width = width; vd_dest_s.height = height;
    vd_dest_s.common.extended_format_code = format;
    vd_dest_s.common.flags = vd_mask_flags_after_validate;
    return vd_dest_p;
}
void pixman_image_set_component_alpha (pixman_image_t *image, pixman_bool_t ca)
{
    if (image == vd_dest_p) { vd_nca++; vd_ca_value = ca; } else vd_nca += 100;
}
#if !VD_REAL_REGION
void pixman_image_composite32 (pixman_op_t op, pixman_image_t *src, pixman_image_t *mask, pixman_image_t *dest,
                               int32_t sx, int32_t sy, int32_t mx, int32_t my, int32_t dx, int32_t dy, int32_t w, int32_t h)
{
    vd_ncomposite++; vd_composite_seq = vd_seq++;
    vd_comp.op = op; vd_comp.src = src; vd_comp.mask = mask; vd_comp.dest = dest;
    vd_comp.sx = sx; vd_comp.sy = sy; vd_comp.mx = mx; vd_comp.my = my; vd_comp.dx = dx; vd_comp.dy = dy; vd_comp.w = w; vd_comp.h = h;
}
#endif

/* ------------------------------------------------------------------ the request: glyph objects, cache, entries */
/* glyph image i: a validated BITS image of the cache (created by pixman_image_create_bits in
 * pixman_glyph_cache_insert: no repeat, so extended_format_code == bits.format); size, format and flags symbolic */
static void vd_build_glyph (int i, vh_i32 gw, vh_i32 gh, vh_i32 ox, vh_i32 oy, vh_u32 fmt, vh_u32 flags)
{
    bits_image_t *im = VD_GIMG_S (i);
    glyph_t *g = VD_GLYPH (i);
    VH_ASSUME (gw >= 0 && gw <= VD_GLYPH_MAX && gh >= 0 && gh <= VD_GLYPH_MAX);
    VH_ASSUME (VD_INR (ox) && VD_INR (oy));
    VH_ASSUME (fmt != PIXMAN_null);                  /* no image has the format code "no image" */
    im->common.type = BITS;
    im->common.ref_count = 1;
    im->format = (pixman_format_code_t) fmt; im->width = gw; im->height = gh;
    im->common.extended_format_code = (pixman_format_code_t) fmt;
    im->common.flags = flags;
    g->font_key = &vd_key[0]; g->glyph_key = &vd_key[1 + i];
    g->origin_x = ox; g->origin_y = oy;
    g->image = (pixman_image_t *) im;
}
/* entry i of the request draws glyph object `which` (0/1) at (x, y) */
static void vd_build_entry (int i, int which, vh_i32 x, vh_i32 y)
{
    VH_ASSUME (VD_INR (x) && VD_INR (y));
    vd_req[i].x = x; vd_req[i].y = y;
    vd_req[i].glyph = which ? &vd_g1 : &vd_g0;
}
/* the cache the glyphs live in: for drawing only the MRU list matters (order: glyph 0, glyph 1, a third glyph) */
static void vd_build_cache (void)
{
    pixman_list_init (&vd_cache.mru);
    vd_other.font_key = &vd_key[0]; vd_other.glyph_key = &vd_key[0];
    pixman_list_prepend (&vd_cache.mru, &vd_other.mru_link);
    pixman_list_prepend (&vd_cache.mru, &vd_g1.mru_link);
    pixman_list_prepend (&vd_cache.mru, &vd_g0.mru_link);
    vd_cache.n_glyphs = 3;
}
/* MRU list is still a closed ring through the sentinel holding exactly the three glyphs */
static int vd_mru_ok (void)
{
    const pixman_link_t *sentinel = (const pixman_link_t *) &vd_cache.mru;
    const pixman_link_t *l = vd_cache.mru.head, *prev = sentinel;
    int k, seen0 = 0, seen1 = 0, seen2 = 0, ok = 1;
    for (k = 0; k < 3; k++)
    {
        if (l == &vd_g0.mru_link) seen0++;
        else if (l == &vd_g1.mru_link) seen1++;
        else if (l == &vd_other.mru_link) seen2++;
        else return 0;
        if (l->prev != prev) ok = 0;
        prev = l; l = l->next;
    }
    return ok && l == sentinel && vd_cache.mru.tail == prev && seen0 == 1 && seen1 == 1 && seen2 == 1;
}

#define VD_DECL_GLYPH(i) \
    VH_IN (vh_i32, in_gw##i); VH_IN (vh_i32, in_gh##i); VH_IN (vh_i32, in_ox##i); VH_IN (vh_i32, in_oy##i); \
    VH_IN (vh_u32, in_gfmt##i); VH_IN (vh_u32, in_gflags##i); \
    vd_build_glyph (i, in_gw##i, in_gh##i, in_ox##i, in_oy##i, in_gfmt##i, in_gflags##i)
#define VD_DECL_ENTRY(i) \
    VH_IN (vh_u8, in_which##i); VH_IN (vh_i32, in_x##i); VH_IN (vh_i32, in_y##i); \
    VH_ASSUME (in_which##i <= 1); \
    vd_build_entry (i, in_which##i, in_x##i, in_y##i)

/* ------------------------------------------------------------------ specification side (long arithmetic, no pixman code) */
#ifndef VD_LONG
#define VD_LONG long
#endif
typedef struct { VD_LONG x1, y1, x2, y2; } vd_lbox;
typedef struct
{
    const glyph_t *g;           /* the glyph object drawn */
    VD_LONG gx, gy;             /* where its top-left sample lands in the destination */
    vd_lbox d;                  /* drawn rectangle */
    vd_lbox clip;               /* the clip box it was cut with */
} vd_expect;
static int vd_nexp;
/* comparison of one recorded call with its expectation: supplied by the harness (sets its ok_* flags) */
static void vd_check_call (const vd_call_t *r, const vd_expect *e);

/* one glyph against one clip box: if the intersection has a point, the NEXT recorded call (calls come in request order,
 * clip boxes in region order) must be the expected one.  The expectation is compared on the spot (one multiplexer over
 * the recorded calls) instead of being stored in a second table (two multiplexers: measured 2x solver time). */
static void vd_spec_glyph_box (const glyph_t *g, VD_LONG gx, VD_LONG gy, const vd_lbox *clip)
{
    VD_LONG gw = g->image->bits.width, gh = g->image->bits.height;
    vd_expect e;
    e.g = g; e.gx = gx; e.gy = gy; e.clip = *clip;
    e.d.x1 = gx > clip->x1 ? gx : clip->x1;
    e.d.y1 = gy > clip->y1 ? gy : clip->y1;
    e.d.x2 = gx + gw < clip->x2 ? gx + gw : clip->x2;
    e.d.y2 = gy + gh < clip->y2 ? gy + gh : clip->y2;
    if (e.d.x1 < e.d.x2 && e.d.y1 < e.d.y2)
    {
        if (vd_nexp < VD_MAXCALL && vd_nexp < vd_ncalls)
            vd_check_call (VD_CALL (vd_nexp), &e);
        vd_nexp++;
    }
}

/* geometry of a recorded call against its expectation; `glyph_is_mask`: the glyph is the mask operand (else the source) */
static int vd_rect_ok (const vd_call_t *r, const vd_expect *e)
{
    const pixman_composite_info_t *in = &r->info;
    return in->dest_x == e->d.x1 && in->dest_y == e->d.y1 &&
           in->width == e->d.x2 - e->d.x1 && in->height == e->d.y2 - e->d.y1;
}
static int vd_rect_inside_clip (const vd_call_t *r, const vd_expect *e)
{
    const pixman_composite_info_t *in = &r->info;
    return in->width > 0 && in->height > 0 &&
           in->dest_x >= e->clip.x1 && in->dest_y >= e->clip.y1 &&
           (long) in->dest_x + in->width <= e->clip.x2 && (long) in->dest_y + in->height <= e->clip.y2;
}
/* COVER promise (also a C04 obligation): the samples the routine will read from the glyph lie inside the glyph image */
static int vd_cover_true (const vd_call_t *r, const vd_expect *e, int glyph_is_mask)
{
    const pixman_composite_info_t *in = &r->info;
    VD_LONG ox = glyph_is_mask ? in->mask_x : in->src_x, oy = glyph_is_mask ? in->mask_y : in->src_y;
    return ox >= 0 && oy >= 0 && ox + in->width <= e->g->image->bits.width && oy + in->height <= e->g->image->bits.height;
}
/* the routine called is the one a lookup returned together with its implementation */
static int vd_routine_from_lookup (const vd_call_t *r)
{
    int k = r->id;
    return k >= 0 && k < vd_nlookup && k < VD_MAXLK && r->imp == VD_IMP (k);
}

#endif
