/* C17 clear_table: from ANY well-formed cache, clear_table leaves the empty well-formed cache and
 * releases every entry exactly once. */
#include "gc.h"

void harness (void)
{
    int i, bad = 0, nonnull = 0;
    VG_SYMBOLIC_CACHE ();
    VG_GHOST_KEY ();

    clear_table (&vg_cache);

    VG_CHECK_WF ();
    VH_CHECK ("clear.view_empty", vg_view (&vg_cache, xf, xg) == NULL);
    for (i = 0; i < VG_N; i++)
    {
        int was_live = vg_is_live (pre_slot[i]);
        if (vg_unref[i] != was_live || vg_freed[i] != was_live) bad = 1;
        if (vg_cache.glyphs[i] != NULL) nonnull = 1;
    }
    VH_CHECK ("clear.all_slots_null", !nonnull && vg_cache.n_glyphs == 0 && vg_cache.n_tombstones == 0);
    VH_CHECK ("clear.every_entry_released_exactly_once", !bad && vg_unref_other == 0 && vh_free_calls == 0);
    VH_CHECK ("clear.mru_empty", vg_mru_is (NULL, 0));
    VH_CHECK ("clear.freeze_count_unchanged", vg_cache.freeze_count == pre_freeze);
    VH_END ();
}
