/* C19 (5): pixman_image_fill_boxes / pixman_image_fill_rectangles (real pixman.c),
 * region operations = models/region1_model.h (regions of <= 1 rectangle; with
 * -DVC_REAL_REGION the real pixman-region32.c must be linked instead: does not finish),
 * everything the two routes hand their work to replaced by recording stubs:
 *     pixman_fill  (real, in pixman.c) -> _pixman_implementation_fill      = recorder
 *     pixman_image_composite32                                            = recorder (see below)
 *     pixman_image_create_solid_fill / pixman_image_unref / _pixman_image_validate = recorders
 *
 *   -DVC_FMT=<name>     destination format, one of the 12 the shortcut accepts
 *   -DVC_OTHER_FMT      destination format = any code outside those 12 (symbolic)
 *   -DVC_CHECK=<n>      which group of obligations this job carries
 *        0  routes: which route may be taken, operator reduction, arguments of either route,
 *           direct-fill rectangles == boxes ∩ clip on the ghost point, every pixel once
 *        1  direct-fill rectangles lie inside the image bounds             (own job)
 *        2  direct fill is not used when the destination has an alpha map  (own job)
 *        3  direct fill is not used when the destination has accessors     (own job)
 *        4  end to end (own job, bounded): recorder -> REAL fast_path_fill on a heap block of
 *           exactly the image's size (4x4, a8r8g8b8): no access outside the image memory
 *   -DVC_RECTS          go through pixman_image_fill_rectangles (rectangle16 -> box conversion)
 *   -DVC_LEMMA          spec-level lemma only: opaque OVER == SRC, CLEAR == SRC of transparent
 *   -DVC_NBOX=<n>       at most n boxes
 *   -DVC_N=<n>          exactly n boxes, n a literal (0 or 1 with the real region code: init_rects
 *                       of one box and intersect of single-rectangle regions stay on the
 *                       shortcut paths; a symbolic count drags validate()/pixman_op in)
 *
 * How pixman_image_composite32 is intercepted without touching /repo: the name is
 * #defined to vc_c32_<__COUNTER__> while pixman.c is included.  Its three occurrences in
 * pixman.c are, in order: the definition (-> vc_c32_0, the real body, unused here), the
 * call in pixman_image_composite (-> vc_c32_1) and the call in pixman_image_fill_boxes
 * (-> vc_c32_2 = the recorder).  Any change of that shape fails to compile (=> undecided).
 */
#include <config.h>
#include "pixman-private.h"
#include <stdlib.h>
#include <string.h>
#include "vh.h"
#include "spec_format.h"

#ifndef VC_NBOX
#define VC_NBOX 1
#endif
#ifndef VC_CHECK
#define VC_CHECK 0
#endif
#define VC_MAXREC 4
#define VC_CAT2(a, b) a##b
#define VC_CAT(a, b) VC_CAT2 (a, b)

#ifdef VC_LEMMA
#include "spec_un8.h"
void harness (void)
{
    VH_IN (vh_u32, in_s);
    VH_IN (vh_u32, in_d);
    VH_IN (vh_u32, in_c);
    VH_ASSUME (in_c < 4);
    /* Render equations per channel (spec_un8.h), no mask */
    VH_CHECK ("lemma.over_with_opaque_source_is_src",
              SP_A (in_s) != 255u || SP_PIX (SPOP_OVER, 0, in_s, 0u, in_d, in_c) == SP_PIX (SPOP_SRC, 0, in_s, 0u, in_d, in_c));
    VH_CHECK ("lemma.clear_is_src_of_transparent",
              SP_PIX (SPOP_CLEAR, 0, in_s, 0u, in_d, in_c) == SP_PIX (SPOP_SRC, 0, 0u, 0u, in_d, in_c));
    VH_CHECK ("lemma.src_is_the_source", SP_PIX (SPOP_SRC, 0, in_s, 0u, in_d, in_c) == SP_CH (in_s, in_c));
    VH_END ();
}
#else

#if VC_CHECK == 4
/* end-to-end variant: the recorder hands the request on to the REAL fast_path_fill, the
 * destination bits are a heap block of exactly rowstride * height words */
#include "pixman-fast-path.c"
#endif

/* ------------------------------------------------------------ recorders */
static int vc_nfill, vc_ncomp, vc_nsolid, vc_nunref, vc_nvalidate_dest, vc_nlog;
static struct { uint32_t *bits; int stride, bpp, x, y, w, h; uint32_t filler; } vc_fill[VC_MAXREC];
static struct { int op; pixman_image_t *src, *mask, *dest; int32_t sx, sy, mx, my, dx, dy, w, h; } vc_comp[VC_MAXREC];
static pixman_color_t vc_solid_color;
static pixman_image_t vc_solid_img, vc_dest, vc_amap;
static pixman_implementation_t vc_imp;
static uint32_t vc_bits[4];
static int vc_solid_fails;

pixman_implementation_t *_pixman_choose_implementation (void) { return &vc_imp; }
void _pixman_log_error (const char *function, const char *message) { vc_nlog++; }
void *pixman_malloc_ab (unsigned int a, unsigned int b) { return (b && a >= INT32_MAX / b) ? (void *) 0 : malloc (a * b); }
void _pixman_image_validate (pixman_image_t *image) { if (image == &vc_dest) vc_nvalidate_dest++; }

pixman_bool_t
_pixman_implementation_fill (pixman_implementation_t *imp, uint32_t *bits, int stride, int bpp,
                             int x, int y, int width, int height, uint32_t filler)
{
    if (vc_nfill < VC_MAXREC)
    {
        vc_fill[vc_nfill].bits = bits; vc_fill[vc_nfill].stride = stride; vc_fill[vc_nfill].bpp = bpp;
        vc_fill[vc_nfill].x = x; vc_fill[vc_nfill].y = y; vc_fill[vc_nfill].w = width; vc_fill[vc_nfill].h = height;
        vc_fill[vc_nfill].filler = filler;
    }
    vc_nfill++;
#if VC_CHECK == 4
    {
        int ok = x >= 0 && y >= 0 && width >= 0 && height >= 0 && x <= 4 && width <= 4 - x && y <= 4 && height <= 4 - y;
        VH_CHECK ("boxes.e2e.fill_request_inside_image_memory", ok);
#ifdef VH_CBMC
        /* the verifier stops at the failed obligation above (an out-of-bounds access would leave the
         * remaining obligations of pixman_fill32 UNKNOWN); natively the real code runs on and ASan
         * shows the write outside the image */
        if (!ok)
            return TRUE;
#endif
        return fast_path_fill (imp, bits, stride, bpp, x, y, width, height, filler);
    }
#else
    return TRUE;
#endif
}

pixman_image_t *
pixman_image_create_solid_fill (const pixman_color_t *color)
{
    vc_nsolid++;
    vc_solid_color = *color;
    return vc_solid_fails ? (pixman_image_t *) 0 : &vc_solid_img;
}

pixman_bool_t
pixman_image_unref (pixman_image_t *image)
{
    if (image == &vc_solid_img)
        vc_nunref++;
    return FALSE;
}

static void
vc_c32_1 (pixman_op_t op, pixman_image_t *src, pixman_image_t *mask, pixman_image_t *dest, int32_t sx, int32_t sy,
          int32_t mx, int32_t my, int32_t dx, int32_t dy, int32_t w, int32_t h)
{
    /* call site in pixman_image_composite: not reached from the functions under check */
    vc_nlog += 1000;
}

static void
vc_c32_2 (pixman_op_t op, pixman_image_t *src, pixman_image_t *mask, pixman_image_t *dest, int32_t sx, int32_t sy,
          int32_t mx, int32_t my, int32_t dx, int32_t dy, int32_t w, int32_t h)
{
    if (vc_ncomp < VC_MAXREC)
    {
        vc_comp[vc_ncomp].op = (int) op; vc_comp[vc_ncomp].src = src; vc_comp[vc_ncomp].mask = mask;
        vc_comp[vc_ncomp].dest = dest; vc_comp[vc_ncomp].sx = sx; vc_comp[vc_ncomp].sy = sy;
        vc_comp[vc_ncomp].mx = mx; vc_comp[vc_ncomp].my = my; vc_comp[vc_ncomp].dx = dx; vc_comp[vc_ncomp].dy = dy;
        vc_comp[vc_ncomp].w = w; vc_comp[vc_ncomp].h = h;
    }
    vc_ncomp++;
}

#ifndef VC_REAL_REGION
#include "region1_model.h"
#endif

static uint32_t vc_read (const void *p, int size) { return 0; }
static void vc_write (void *p, uint32_t v, int size) { }

/* ------------------------------------------------------------ the real code
 * (signed-overflow check off for the text of pixman.c only: color_to_uint32's
 * `alpha >> 8 << 24', see harness/C19/color.c, job color.shift_defined) */
#define VC_PICK2(n) vc_c32_##n
#define VC_PICK(n) VC_PICK2 (n)
#define pixman_image_composite32 VC_PICK (__COUNTER__)
#pragma CPROVER check push
#pragma CPROVER check disable "signed-overflow"
#include "pixman.c"
#pragma CPROVER check pop
#undef pixman_image_composite32

#define VC_IN(v, lo, hi) ((lo) <= (v) && (v) < (hi))
#define VC_COORD_MAX (1 << 29)

void harness (void)
{
    VH_IN (vh_u32, in_op);
    VH_IN (vh_u16, in_a);
    VH_IN (vh_u16, in_r);
    VH_IN (vh_u16, in_g);
    VH_IN (vh_u16, in_b);
    VH_IN (vh_u32, in_format);
    VH_IN (vh_i32, in_width);
    VH_IN (vh_i32, in_height);
    VH_IN (vh_i32, in_stride);
    VH_IN (vh_u8, in_have_clip);
    VH_IN (vh_i32, in_cx1); VH_IN (vh_i32, in_cy1); VH_IN (vh_i32, in_cx2); VH_IN (vh_i32, in_cy2);
    VH_IN (vh_u8, in_alpha_map);
    VH_IN (vh_u8, in_accessors);
    VH_IN (vh_u8, in_solid_fails);
    VH_IN (vh_u32, in_n);
    VH_IN (vh_i32, in_b0x1); VH_IN (vh_i32, in_b0y1); VH_IN (vh_i32, in_b0x2); VH_IN (vh_i32, in_b0y2);
    VH_IN (vh_i32, in_b1x1); VH_IN (vh_i32, in_b1y1); VH_IN (vh_i32, in_b1x2); VH_IN (vh_i32, in_b1y2);
    VH_IN (vh_i32, in_gx);
    VH_IN (vh_i32, in_gy);
    pixman_color_t color;
    pixman_box32_t boxes[2];
    pixman_bool_t r;
    uint32_t c32, format;
    int reducible, accepted, direct, k, cover = 0, in_box = 0, in_clip, in_bounds;
    int exp_op;
    pixman_color_t exp_color;

    color.alpha = in_a; color.red = in_r; color.green = in_g; color.blue = in_b;
#ifdef VC_N
    /* box count fixed at compile time (keeps the real region code on its one-rectangle paths) */
    VH_ASSUME (in_n == VC_N);
    in_n = VC_N;
#endif
    VH_ASSUME (in_n <= VC_NBOX && in_n <= 2);
    boxes[0].x1 = in_b0x1; boxes[0].y1 = in_b0y1; boxes[0].x2 = in_b0x2; boxes[0].y2 = in_b0y2;
    boxes[1].x1 = in_b1x1; boxes[1].y1 = in_b1y1; boxes[1].x2 = in_b1x2; boxes[1].y2 = in_b1y2;
    /* well-formed, non-empty boxes with coordinates in +-2^29 */
    for (k = 0; k < 2; k++)
        VH_ASSUME (boxes[k].x1 < boxes[k].x2 && boxes[k].y1 < boxes[k].y2 &&
                   VC_IN (boxes[k].x1, -VC_COORD_MAX, VC_COORD_MAX) && VC_IN (boxes[k].x2, -VC_COORD_MAX, VC_COORD_MAX) &&
                   VC_IN (boxes[k].y1, -VC_COORD_MAX, VC_COORD_MAX) && VC_IN (boxes[k].y2, -VC_COORD_MAX, VC_COORD_MAX));
#ifdef VC_RECTS
    /* rectangle16 domain: x,y int16, width,height uint16 (non-zero because boxes are non-empty) */
    for (k = 0; k < 2; k++)
        VH_ASSUME (VC_IN (boxes[k].x1, -32768, 32768) && VC_IN (boxes[k].y1, -32768, 32768) &&
                   boxes[k].x2 - boxes[k].x1 <= 65535 && boxes[k].y2 - boxes[k].y1 <= 65535);
#endif

    /* the destination: a bits image built by hand */
#ifdef VC_OTHER_FMT
    format = in_format;
    VH_ASSUME (format != PIXMAN_a8r8g8b8 && format != PIXMAN_x8r8g8b8 && format != PIXMAN_a8b8g8r8 &&
               format != PIXMAN_x8b8g8r8 && format != PIXMAN_b8g8r8a8 && format != PIXMAN_b8g8r8x8 &&
               format != PIXMAN_r8g8b8a8 && format != PIXMAN_r8g8b8x8 && format != PIXMAN_r5g6b5 &&
               format != PIXMAN_b5g6r5 && format != PIXMAN_a8 && format != PIXMAN_a1);
    accepted = 0;
#else
    format = VC_CAT (PIXMAN_, VC_FMT);
    accepted = 1;
#endif
    VH_ASSUME (1 <= in_width && in_width <= 32767 && 1 <= in_height && in_height <= 32767);
    VH_ASSUME (in_have_clip <= 1 && in_alpha_map <= 1 && in_accessors <= 3 && in_solid_fails <= 1);
    VH_ASSUME (in_cx1 < in_cx2 && in_cy1 < in_cy2 && VC_IN (in_cx1, -VC_COORD_MAX, VC_COORD_MAX) &&
               VC_IN (in_cx2, -VC_COORD_MAX, VC_COORD_MAX) && VC_IN (in_cy1, -VC_COORD_MAX, VC_COORD_MAX) &&
               VC_IN (in_cy2, -VC_COORD_MAX, VC_COORD_MAX));
    memset (&vc_dest, 0, sizeof vc_dest);
    vc_dest.type = BITS;
    vc_dest.common.ref_count = 1;
    vc_dest.common.have_clip_region = in_have_clip;
    vc_dest.common.clip_region.extents.x1 = in_cx1; vc_dest.common.clip_region.extents.y1 = in_cy1;
    vc_dest.common.clip_region.extents.x2 = in_cx2; vc_dest.common.clip_region.extents.y2 = in_cy2;
    vc_dest.common.clip_region.data = (pixman_region32_data_t *) 0; /* one rectangle */
    vc_dest.common.alpha_map = in_alpha_map ? &vc_amap.bits : (bits_image_t *) 0;
    vc_dest.bits.format = (pixman_format_code_t) format;
    vc_dest.bits.width = in_width;
    vc_dest.bits.height = in_height;
#if VC_CHECK == 4
    /* small image, boxes and clip near it, memory of exactly the image's size */
    VH_ASSUME (in_width == 4 && in_height == 4 && in_stride == 4);
    VH_ASSUME (VC_IN (in_cx1, -2, 8) && VC_IN (in_cx2, -2, 8) && VC_IN (in_cy1, -2, 8) && VC_IN (in_cy2, -2, 8));
    for (k = 0; k < 2; k++)
        VH_ASSUME (VC_IN (boxes[k].x1, -2, 8) && VC_IN (boxes[k].x2, -2, 8) && VC_IN (boxes[k].y1, -2, 8) && VC_IN (boxes[k].y2, -2, 8));
    vc_dest.bits.bits = calloc (16, 4);
#else
    vc_dest.bits.bits = vc_bits;
#endif
    vc_dest.bits.rowstride = in_stride;
    vc_dest.bits.read_func = (in_accessors & 1) ? vc_read : (pixman_read_memory_func_t) 0;
    vc_dest.bits.write_func = (in_accessors & 2) ? vc_write : (pixman_write_memory_func_t) 0;
    vc_solid_fails = in_solid_fails;

#ifdef VC_RECTS
    {
        pixman_rectangle16_t rects[2];
        for (k = 0; k < 2; k++)
        {
            rects[k].x = (int16_t) boxes[k].x1; rects[k].y = (int16_t) boxes[k].y1;
            rects[k].width = (uint16_t) (boxes[k].x2 - boxes[k].x1);
            rects[k].height = (uint16_t) (boxes[k].y2 - boxes[k].y1);
        }
        r = pixman_image_fill_rectangles ((pixman_op_t) in_op, &vc_dest, &color, (int) in_n, rects);
    }
#else
    r = pixman_image_fill_boxes ((pixman_op_t) in_op, &vc_dest, &color, (int) in_n, boxes);
#endif

    /* ---------------- specification (from the property text) ----------------
     * result == compositing a solid image of that colour with `op' over each box within the
     * destination clip (and, as for every composite, within the image).  Equivalent requests:
     *   CLEAR            == SRC with the transparent colour      (lemma job)
     *   OVER, alpha = 1  == SRC                                  (lemma job)
     * SRC of a solid colour == storing the colour's pixel value into every pixel of
     * box ∩ clip ∩ image, provided the stores of the general route are plain memory
     * stores of the same bytes (no alpha map, no accessors). */
    exp_op = (int) in_op;
    exp_color = color;
    if (in_a == 0xffff && exp_op == PIXMAN_OP_OVER)
        exp_op = PIXMAN_OP_SRC;
    if (exp_op == PIXMAN_OP_CLEAR)
    {
        exp_op = PIXMAN_OP_SRC;
        exp_color.alpha = exp_color.red = exp_color.green = exp_color.blue = 0;
    }
    reducible = exp_op == PIXMAN_OP_SRC;
    c32 = (((uint32_t) exp_color.alpha >> 8) << 24) | (((uint32_t) exp_color.red >> 8) << 16) |
          (((uint32_t) exp_color.green >> 8) << 8) | ((uint32_t) exp_color.blue >> 8);
    direct = vc_nfill > 0 || (vc_nsolid == 0 && vc_ncomp == 0);

    for (k = 0; k < (int) in_n; k++)
        if (VC_IN (in_gx, boxes[k].x1, boxes[k].x2) && VC_IN (in_gy, boxes[k].y1, boxes[k].y2))
            in_box = 1;
    in_clip = !in_have_clip || (VC_IN (in_gx, in_cx1, in_cx2) && VC_IN (in_gy, in_cy1, in_cy2));
    in_bounds = VC_IN (in_gx, 0, in_width) && VC_IN (in_gy, 0, in_height);
    for (k = 0; k < vc_nfill && k < VC_MAXREC; k++)
        if (in_gx >= vc_fill[k].x && (int64_t) in_gx - vc_fill[k].x < vc_fill[k].w &&
            in_gy >= vc_fill[k].y && (int64_t) in_gy - vc_fill[k].y < vc_fill[k].h)
            cover++;

#if VC_CHECK == 0
    VH_CHECK ("boxes.dest_validated_first", vc_nvalidate_dest >= 1);
    VH_CHECK ("boxes.no_error_logged", vc_nlog == 0);
#ifndef VC_REAL_REGION
    VH_CHECK ("boxes.region_model_not_exceeded", !vc_region_model_exceeded);
    VH_CHECK ("boxes.fill_region_released", vc_region_live == 0);
#endif
    VH_CHECK ("boxes.recorders_not_overrun", vc_nfill <= VC_MAXREC && vc_ncomp <= VC_MAXREC);
    VH_CHECK ("boxes.only_one_route_used", !(vc_nfill > 0 && (vc_ncomp > 0 || vc_nsolid > 0)));
    VH_CHECK ("boxes.direct_fill_only_for_src_equivalent_request_and_accepted_format", !direct || (reducible && accepted));
    if (direct)
    {
        VH_CHECK ("boxes.direct.returns_true", r == TRUE);
        for (k = 0; k < vc_nfill && k < VC_MAXREC; k++)
        {
            VH_CHECK ("boxes.direct.fill_addresses_the_destination_bits",
                      vc_fill[k].bits == vc_bits && vc_fill[k].stride == in_stride);
#ifndef VC_OTHER_FMT
            VH_CHECK ("boxes.direct.fill_bpp_is_format_bpp", vc_fill[k].bpp == SF_BPP (VC_FMT));
            VH_CHECK ("boxes.direct.filler_is_store_of_reduced_colour",
                      (vc_fill[k].filler & SF_DEFMASK (VC_FMT)) == SF_NARROW_PIX (VC_FMT, c32));
#endif
            VH_CHECK ("boxes.direct.fill_rect_not_empty", vc_fill[k].w > 0 && vc_fill[k].h > 0);
        }
        VH_CHECK ("boxes.direct.nothing_filled_outside_box_and_clip", cover == 0 || (in_box && in_clip));
        VH_CHECK ("boxes.direct.every_pixel_of_box_clip_image_filled_exactly_once",
                  !(in_box && in_clip && in_bounds) || cover == 1);
        VH_CHECK ("boxes.direct.no_pixel_filled_twice", cover <= 1);
    }
    else
    {
        VH_CHECK ("boxes.general.solid_created_once", vc_nsolid == 1);
        VH_CHECK ("boxes.general.solid_has_the_reduced_colour",
                  vc_solid_color.alpha == exp_color.alpha && vc_solid_color.red == exp_color.red &&
                  vc_solid_color.green == exp_color.green && vc_solid_color.blue == exp_color.blue);
        if (in_solid_fails)
        {
            VH_CHECK ("boxes.general.allocation_failure_returns_false_and_composites_nothing", r == FALSE && vc_ncomp == 0);
        }
        else
        {
            VH_CHECK ("boxes.general.returns_true", r == TRUE);
            VH_CHECK ("boxes.general.one_composite_per_box", vc_ncomp == (int) in_n);
            VH_CHECK ("boxes.general.solid_released_once", vc_nunref == 1);
            for (k = 0; k < vc_ncomp && k < VC_MAXREC && k < 2; k++)
            {
                VH_CHECK ("boxes.general.composite_operator_is_reduced_operator", vc_comp[k].op == exp_op);
                VH_CHECK ("boxes.general.composite_images", vc_comp[k].src == &vc_solid_img &&
                          vc_comp[k].mask == (pixman_image_t *) 0 && vc_comp[k].dest == &vc_dest);
                VH_CHECK ("boxes.general.composite_rectangle_is_the_box",
                          vc_comp[k].dx == boxes[k].x1 && vc_comp[k].dy == boxes[k].y1 &&
                          vc_comp[k].w == boxes[k].x2 - boxes[k].x1 && vc_comp[k].h == boxes[k].y2 - boxes[k].y1);
            }
        }
    }
#elif VC_CHECK == 1
    /* every pixman_fill rectangle lies inside the image (pixman_fill itself clips nothing) */
    for (k = 0; k < vc_nfill && k < VC_MAXREC; k++)
        VH_CHECK ("boxes.direct.fill_rect_within_image_bounds",
                  vc_fill[k].x >= 0 && vc_fill[k].y >= 0 && vc_fill[k].w >= 0 && vc_fill[k].h >= 0 &&
                  vc_fill[k].x <= in_width && vc_fill[k].w <= in_width - vc_fill[k].x &&
                  vc_fill[k].y <= in_height && vc_fill[k].h <= in_height - vc_fill[k].y);
    VH_CHECK ("boxes.direct.nothing_filled_outside_image", cover == 0 || in_bounds);
#elif VC_CHECK == 4
    /* the obligations of this job are the memory-safety checks inside the real pixman_fill32
     * (CBMC pointer checks / ASan natively): the direct fill writes only image memory */
    VH_CHECK ("boxes.e2e.direct_route_returns_true", !direct || r == TRUE);
    free (vc_dest.bits.bits);
#elif VC_CHECK == 2
    VH_CHECK ("boxes.direct.not_used_with_destination_alpha_map", !(in_alpha_map && vc_nfill > 0));
#elif VC_CHECK == 3
    VH_CHECK ("boxes.direct.not_used_with_destination_accessors", !(in_accessors && vc_nfill > 0));
#endif
    VH_END ();
}
#endif
