/* replay_link.c — native replay only (empty under CBMC).
 * The C19 harnesses #include whole pixman .c files; natively (ASan keeps every global
 * table alive) the tables of those files reference library functions the harness never
 * calls.  They are given weak aborting bodies here so that the replay links; a harness
 * that defines one of them itself (strong symbol) wins.  None of them is ever executed:
 * reaching one aborts the replay. */
#ifdef VH_REPLAY
#include <stdlib.h>
#define VC_WEAK_ABORT(name) __attribute__ ((weak)) void name (void) { abort (); }
VC_WEAK_ABORT (_pixman_bits_image_init)
VC_WEAK_ABORT (_pixman_image_fini)
VC_WEAK_ABORT (_pixman_image_get_solid)
VC_WEAK_ABORT (_pixman_image_validate)
VC_WEAK_ABORT (_pixman_implementation_lookup_composite)
VC_WEAK_ABORT (_pixman_implementation_create)
VC_WEAK_ABORT (_pixman_iter_get_scanline_noop)
VC_WEAK_ABORT (_pixman_iter_init_bits_stride)
VC_WEAK_ABORT (_pixman_log_error)
VC_WEAK_ABORT (_pixman_setup_combiner_functions_32)
VC_WEAK_ABORT (_pixman_setup_combiner_functions_float)
VC_WEAK_ABORT (pixman_fill)
VC_WEAK_ABORT (pixman_blt)
VC_WEAK_ABORT (pixman_transform_point_3d)
VC_WEAK_ABORT (pixman_region32_init_rect)
VC_WEAK_ABORT (pixman_region32_fini)
VC_WEAK_ABORT (pixman_region32_init)
VC_WEAK_ABORT (pixman_image_unref)
VC_WEAK_ABORT (pixman_image_create_bits)
#else
typedef int vc_replay_link_empty;
#endif
