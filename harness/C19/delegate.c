/* C19 (3): _pixman_implementation_blt / _pixman_implementation_fill delegation
 * (real pixman-implementation.c) over a fallback chain of stub implementations.
 *
 *   -DVC_BLT        check _pixman_implementation_blt (default: _fill)
 *   -DVC_CHAIN=<n>  maximal chain length (default 6: the longest chain that
 *                   _pixman_choose_implementation builds on x86 is
 *                   ssse3 -> sse2 -> mmx -> fast -> general -> noop... = 6)
 *
 * Chain: imps[0] -> imps[1] -> ... -> imps[len-1] -> NULL, len symbolic in 0..VC_CHAIN.
 * Implementation k has the primitive iff bit k of in_has; when called it returns
 * bit k of in_ret, records the call and compares every argument with what the
 * caller passed.
 *
 * Statement: the first implementation in chain order that has the primitive and
 * returns TRUE wins (result TRUE, nobody after it is asked); result FALSE iff no
 * implementation that has the primitive returned TRUE, and then every one of
 * them was asked exactly once, in chain order; arguments are passed on unchanged;
 * `imp' handed to the primitive is the implementation that owns it.
 */
#include "pixman-implementation.c"
#include "vh.h"

#ifndef VC_CHAIN
#define VC_CHAIN 6
#endif

static pixman_implementation_t vc_imps[VC_CHAIN + 1];
static unsigned vc_ret_bits;
static int vc_ncalls;
static int vc_seq[VC_CHAIN + 2];
static int vc_args_ok = 1, vc_imp_ok = 1;

static uint32_t vc_a_bits[4], vc_b_bits[4];
static int vc_arg[12];
static uint32_t vc_filler;

static int vc_index (pixman_implementation_t *imp)
{
    int k;
    for (k = 0; k < VC_CHAIN; k++)
        if (imp == &vc_imps[k])
            return k;
    return -1;
}

static void vc_record (pixman_implementation_t *imp)
{
    int k = vc_index (imp);
    if (k < 0)
        vc_imp_ok = 0;
    if (vc_ncalls < VC_CHAIN + 1)
        vc_seq[vc_ncalls] = k;
    vc_ncalls++;
}

static pixman_bool_t
vc_stub_fill (pixman_implementation_t *imp, uint32_t *bits, int stride, int bpp,
              int x, int y, int width, int height, uint32_t filler)
{
    vc_record (imp);
    if (!(bits == vc_a_bits && stride == vc_arg[0] && bpp == vc_arg[1] && x == vc_arg[2] && y == vc_arg[3] &&
          width == vc_arg[4] && height == vc_arg[5] && filler == vc_filler))
        vc_args_ok = 0;
    return (vc_ret_bits >> vc_index (imp)) & 1u;
}

static pixman_bool_t
vc_stub_blt (pixman_implementation_t *imp, uint32_t *src_bits, uint32_t *dst_bits, int src_stride, int dst_stride,
             int src_bpp, int dst_bpp, int src_x, int src_y, int dest_x, int dest_y, int width, int height)
{
    vc_record (imp);
    if (!(src_bits == vc_a_bits && dst_bits == vc_b_bits && src_stride == vc_arg[0] && dst_stride == vc_arg[1] &&
          src_bpp == vc_arg[2] && dst_bpp == vc_arg[3] && src_x == vc_arg[4] && src_y == vc_arg[5] &&
          dest_x == vc_arg[6] && dest_y == vc_arg[7] && width == vc_arg[8] && height == vc_arg[9]))
        vc_args_ok = 0;
    return (vc_ret_bits >> vc_index (imp)) & 1u;
}

void harness (void)
{
    VH_IN (vh_u32, in_len);
    VH_IN (vh_u32, in_has);
    VH_IN (vh_u32, in_ret);
    VH_IN (vh_i32, in_a0); VH_IN (vh_i32, in_a1); VH_IN (vh_i32, in_a2); VH_IN (vh_i32, in_a3); VH_IN (vh_i32, in_a4);
    VH_IN (vh_i32, in_a5); VH_IN (vh_i32, in_a6); VH_IN (vh_i32, in_a7); VH_IN (vh_i32, in_a8); VH_IN (vh_i32, in_a9);
    VH_IN (vh_u32, in_filler);
    int k, winner = -1, expected_calls = 0, order_ok = 1, j = 0;
    pixman_bool_t r;

    VH_ASSUME (in_len <= VC_CHAIN);
    for (k = 0; k < VC_CHAIN; k++)
    {
        vc_imps[k].toplevel = &vc_imps[0];
        vc_imps[k].fallback = (k + 1 < (int) in_len) ? &vc_imps[k + 1] : (pixman_implementation_t *) 0;
        vc_imps[k].fill = ((in_has >> k) & 1u) ? vc_stub_fill : (pixman_fill_func_t) 0;
        vc_imps[k].blt = ((in_has >> k) & 1u) ? vc_stub_blt : (pixman_blt_func_t) 0;
    }
    vc_ret_bits = in_ret;
    vc_arg[0] = in_a0; vc_arg[1] = in_a1; vc_arg[2] = in_a2; vc_arg[3] = in_a3; vc_arg[4] = in_a4;
    vc_arg[5] = in_a5; vc_arg[6] = in_a6; vc_arg[7] = in_a7; vc_arg[8] = in_a8; vc_arg[9] = in_a9;
    vc_filler = in_filler;

#ifdef VC_BLT
    r = _pixman_implementation_blt (in_len ? &vc_imps[0] : (pixman_implementation_t *) 0, vc_a_bits, vc_b_bits,
                                    in_a0, in_a1, in_a2, in_a3, in_a4, in_a5, in_a6, in_a7, in_a8, in_a9);
#else
    r = _pixman_implementation_fill (in_len ? &vc_imps[0] : (pixman_implementation_t *) 0, vc_a_bits,
                                     in_a0, in_a1, in_a2, in_a3, in_a4, in_a5, in_filler);
#endif

    /* specification, computed independently of the code: first k < len with has[k] && ret[k] */
    for (k = 0; k < VC_CHAIN; k++)
        if (winner < 0 && k < (int) in_len && ((in_has >> k) & 1u))
        {
            /* implementation k is asked (nobody before it won) */
            if (j < VC_CHAIN + 1 && vc_seq[j] != k)
                order_ok = 0;
            j++;
            expected_calls++;
            if ((in_ret >> k) & 1u)
                winner = k;
        }

    VH_CHECK ("delegate.true_iff_some_implementation_returned_true", (r != FALSE) == (winner >= 0));
    VH_CHECK ("delegate.result_is_TRUE_or_FALSE", r == TRUE || r == FALSE);
    VH_CHECK ("delegate.asked_exactly_up_to_first_winner_once_each", vc_ncalls == expected_calls);
    VH_CHECK ("delegate.asked_in_chain_order", order_ok);
    VH_CHECK ("delegate.arguments_passed_unchanged", vc_args_ok);
    VH_CHECK ("delegate.imp_argument_is_the_owner", vc_imp_ok);
    VH_END ();
}
