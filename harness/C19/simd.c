/* C19 (2): sse2_fill / sse2_blt (real pixman-sse2.c), bounded.
 *
 *   -DVC_FILL -DVC_BPP=8|16|32     sse2_fill
 *   -DVC_BLT  -DVC_BPP=16|32       sse2_blt
 *   -DVC_GUARD                     early-return guards: unsupported bpp / bpp mismatch
 *                                  => FALSE and nothing written (proof, loop-free)
 *   -DVC_X=<n> [-DVC_SX=<n>]       destination (source) x fixed: one alignment case per job
 *   -DVC_WORDS (per row stride, fixed), -DVC_ROWS
 *
 * The buffer is VC_ROWS rows of VC_WORDS words (stride fixed = VC_WORDS, 16-byte multiple so
 * that every row has the same alignment phase; x selects the alignment: every x in the row).
 * Ghost unit (gx, gy) anywhere in the buffer: inside => filler / source pixel, outside =>
 * unchanged; source unchanged (blt).  Aligned SSE2 stores carry their alignment obligation
 * (models/sse2_models.h).  Object base addresses are 16-byte aligned in CBMC's memory
 * model (offset 0); natively the buffers come from aligned_alloc (16, ...).
 */
#ifdef VH_CBMC
#include "sse2_models.h"
#endif
#include "pixman-sse2.c"
#include "vh.h"
#include "c19.h"

#ifndef VC_WORDS
#define VC_WORDS 20
#endif
#ifndef VC_ROWS
#define VC_ROWS 2
#endif
#define VC_UPR (VC_WORDS * VC_UPW (VC_BPP)) /* units per row */
#define VC_UNITS (VC_UPR * VC_ROWS)
#ifndef VC_WMAXB
#define VC_WMAXB 64 /* bytes per row of the rectangle */
#endif

#if defined(VC_GUARD)

void harness (void)
{
    VC_IN_ARRAY (vh_u32, in_src, 8);
    VC_IN_ARRAY (vh_u32, in_dst, 8);
    VH_IN (vh_i32, in_sbpp); VH_IN (vh_i32, in_dbpp);
    VH_IN (vh_i32, in_a0); VH_IN (vh_i32, in_a1); VH_IN (vh_i32, in_a2); VH_IN (vh_i32, in_a3);
    VH_IN (vh_i32, in_a4); VH_IN (vh_i32, in_a5); VH_IN (vh_i32, in_a6); VH_IN (vh_i32, in_a7);
    VH_IN (vh_u32, in_filler);
    VH_IN (vh_u32, in_g);
    uint32_t src[8], dst[8];
    pixman_bool_t r;
    VH_ASSUME (in_g < 8);
#ifdef VC_SMALL
    /* bounded twin of the guard job: arguments describe a tiny rectangle inside the two 8-word
     * buffers for every depth up to 32, so that code which wrongly passes the guard runs inside
     * the unwinding bounds and fails the obligations below cleanly (instead of exceeding them) */
    VH_ASSUME (in_a0 == 4 && in_a1 >= 0 && in_a1 <= 4 && in_a2 >= 0 && in_a2 <= 1 && in_a3 >= 0 && in_a3 <= 1 &&
               in_a4 >= 0 && in_a4 <= 1 && in_a5 >= 0 && in_a5 <= 1 && in_a6 >= 0 && in_a6 <= 2 && in_a7 >= 0 && in_a7 <= 1);
    VH_ASSUME (in_sbpp >= 0 && in_sbpp <= 32 && in_dbpp >= 0 && in_dbpp <= 32);
#ifdef VC_BLT
    VH_ASSUME (in_a1 == 4);
#else
    VH_ASSUME (in_a1 <= 1);
#endif
#endif
    memcpy (src, in_src, sizeof src);
    memcpy (dst, in_dst, sizeof dst);
#ifdef VC_FILL
    VH_ASSUME (in_dbpp != 8 && in_dbpp != 16 && in_dbpp != 32);
    r = sse2_fill ((pixman_implementation_t *) 0, dst, in_a0, in_dbpp, in_a1, in_a2, in_a3, in_a4, in_filler);
#else
    VH_ASSUME (in_sbpp != in_dbpp || (in_sbpp != 16 && in_sbpp != 32));
    r = sse2_blt ((pixman_implementation_t *) 0, src, dst, in_a0, in_a1, in_sbpp, in_dbpp, in_a2, in_a3, in_a4, in_a5, in_a6, in_a7);
#endif
    VH_CHECK ("simd.guard_returns_false", r == FALSE);
    VH_CHECK ("simd.guard_writes_nothing", dst[in_g] == in_dst[in_g] && src[in_g] == in_src[in_g]);
    VH_END ();
}

#else

#ifdef VH_CBMC
#define VC_ALLOC(n) malloc (n)
#else
#define VC_ALLOC(n) aligned_alloc (16, ((n) + 15) & ~(size_t) 15)
#endif

void harness (void)
{
    VC_IN_ARRAY (VC_UNIT (VC_BPP), in_dst, VC_UNITS);
#ifdef VC_BLT
    VC_IN_ARRAY (VC_UNIT (VC_BPP), in_src, VC_UNITS);
    VH_IN (vh_u32, in_sx);
    VH_IN (vh_u32, in_sy);
    VC_UNIT (VC_BPP) *src = VC_ALLOC (4 * VC_WORDS * VC_ROWS);
#endif
    VH_IN (vh_u32, in_x);
    VH_IN (vh_u32, in_y);
    VH_IN (vh_u32, in_w);
    VH_IN (vh_u32, in_h);
    VH_IN (vh_u32, in_filler);
    VH_IN (vh_u32, in_gx);
    VH_IN (vh_u32, in_gy);
    VC_UNIT (VC_BPP) *dst = VC_ALLOC (4 * VC_WORDS * VC_ROWS);
    uint32_t slot, got, old;
    int inside;
    pixman_bool_t r;

#ifdef VC_X
    /* alignment case fixed per job: destination x (and source x for blt) are literals */
    VH_ASSUME (in_x == VC_X);
    in_x = VC_X;
#ifdef VC_BLT
    VH_ASSUME (in_sx == VC_SX);
    in_sx = VC_SX;
#endif
#endif
    VH_ASSUME (in_w * (VC_BPP / 8) <= VC_WMAXB && in_h <= VC_ROWS);
    VH_ASSUME (in_x <= VC_UPR && in_w <= VC_UPR - in_x && in_y <= VC_ROWS && in_h <= VC_ROWS - in_y);
    VH_ASSUME (in_gx < VC_UPR && in_gy < VC_ROWS);
    slot = in_gy * VC_UPR + in_gx;
    memcpy (dst, in_dst, 4 * VC_WORDS * VC_ROWS);
    inside = in_x <= in_gx && in_gx - in_x < in_w && in_y <= in_gy && in_gy - in_y < in_h;
    old = in_dst[slot];

#ifdef VC_FILL
    r = sse2_fill ((pixman_implementation_t *) 0, (uint32_t *) dst, VC_WORDS, VC_BPP, (int) in_x, (int) in_y, (int) in_w, (int) in_h, in_filler);
    got = dst[slot];
    VH_CHECK ("simd.fill.returns_true", r == TRUE);
    VH_CHECK ("simd.fill.inside_rectangle_is_filler", !inside || got == VC_LOW (VC_BPP, in_filler));
    VH_CHECK ("simd.fill.outside_rectangle_unchanged", inside || got == old);
#else
    VH_ASSUME (in_sx <= VC_UPR && in_w <= VC_UPR - in_sx && in_sy <= VC_ROWS && in_h <= VC_ROWS - in_sy);
    memcpy (src, in_src, 4 * VC_WORDS * VC_ROWS);
    r = sse2_blt ((pixman_implementation_t *) 0, (uint32_t *) src, (uint32_t *) dst, VC_WORDS, VC_WORDS, VC_BPP, VC_BPP,
                  (int) in_sx, (int) in_sy, (int) in_x, (int) in_y, (int) in_w, (int) in_h);
    got = dst[slot];
    VH_CHECK ("simd.blt.returns_true", r == TRUE);
    VH_CHECK ("simd.blt.inside_rectangle_is_source_pixel",
              !inside || got == in_src[(in_sy + (in_gy - in_y)) * VC_UPR + in_sx + (in_gx - in_x)]);
    VH_CHECK ("simd.blt.outside_rectangle_unchanged", inside || got == old);
    VH_CHECK ("simd.blt.source_unchanged", src[slot] == in_src[slot]);
    free (src);
#endif
    free (dst);
    VH_END ();
}
#endif
