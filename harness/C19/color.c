/* C19 (4): color_to_pixel (pixman.c) == "store of the solid colour".
 *
 *   -DVC_FMT=<name>   one of the 12 formats the direct fill accepts: for every
 *                     16-bit colour, color_to_pixel (c, PIXMAN_<name>) returns TRUE and
 *                     the pixel, on the format's defined bits, is what the general
 *                     path's store writes for the a8r8g8b8 value of the colour
 *                     (spec_format.h: keep the most significant bits of each channel,
 *                     literal field table per format), and has no bit above bpp.
 *   -DVC_REJECT       every other format code (all 2^32 - 12): FALSE, *pixel untouched.
 *   -DVC_SHIFT        (with -DVC_KEEP_SHIFT_CHECK) color_to_uint32 of pixman.c has no undefined
 *                     signed shift (the only obligation of interest is CBMC's overflow check).
 *   -DVC_SAME         color_to_uint32 of pixman.c == color_to_uint32 of pixman-solid-fill.c
 *                     == spec (top 8 bits of alpha, red, green, blue in a8r8g8b8 order).
 *
 * Not compared: the padding bits of x8r8g8b8 / x8b8g8r8 / b8g8r8x8 / r8g8b8x8 (the
 * general store writes 0 there, color_to_pixel leaves the alpha byte; no fetcher
 * reads them).
 */
#define color_to_uint32 vc_solid_color_to_uint32
#include "pixman-solid-fill.c"
#undef color_to_uint32
/* pixman.c's color_to_uint32 shifts the promoted (signed int) channel: `color->alpha >> 8 << 24'
 * overflows int for alpha >= 0x8000 (undefined behaviour; gcc wraps).  That obligation has its
 * own job (-DVC_KEEP_SHIFT_CHECK); everywhere else the signed-overflow check is switched off
 * for the text of pixman.c only, so that the value-level obligations are decided under gcc's
 * wrapping semantics. */
#ifndef VC_KEEP_SHIFT_CHECK
#pragma CPROVER check push
#pragma CPROVER check disable "signed-overflow"
#endif
#include "pixman.c"
#ifndef VC_KEEP_SHIFT_CHECK
#pragma CPROVER check pop
#endif
#include "spec_format.h"
#include "vh.h"

/* the a8r8g8b8 value of a 16-bit-per-channel colour: the 8 most significant bits of each channel */
#define VC_SPEC_C32(a, r, g, b) \
    ((((uint32_t) (a) >> 8) << 24) | (((uint32_t) (r) >> 8) << 16) | (((uint32_t) (g) >> 8) << 8) | ((uint32_t) (b) >> 8))

#define VC_CAT2(a, b) a##b
#define VC_CAT(a, b) VC_CAT2 (a, b)

/* stubs for the externals of pixman.c / pixman-solid-fill.c that the constructor reaches */
pixman_implementation_t *_pixman_choose_implementation (void) { return (pixman_implementation_t *) 0; }

void harness (void)
{
    VH_IN (vh_u16, in_a);
    VH_IN (vh_u16, in_r);
    VH_IN (vh_u16, in_g);
    VH_IN (vh_u16, in_b);
    VH_IN (vh_u32, in_format);
    VH_IN (vh_u32, in_pixel0);
    pixman_color_t c;
    uint32_t pixel = in_pixel0, c32;
    pixman_bool_t r;

    c.alpha = in_a; c.red = in_r; c.green = in_g; c.blue = in_b;
    c32 = VC_SPEC_C32 (in_a, in_r, in_g, in_b);

#if defined(VC_SHIFT)
    VH_CHECK ("color.color_to_uint32_is_top_8_bits_per_channel", color_to_uint32 (&c) == c32);
#elif defined(VC_SAME)
    VH_CHECK ("color.color_to_uint32_is_top_8_bits_per_channel", color_to_uint32 (&c) == c32);
    VH_CHECK ("color.color_to_uint32_same_in_solid_fill", vc_solid_color_to_uint32 (&c) == color_to_uint32 (&c));
#elif defined(VC_REJECT)
    VH_ASSUME (in_format != PIXMAN_a8r8g8b8 && in_format != PIXMAN_x8r8g8b8 && in_format != PIXMAN_a8b8g8r8 &&
               in_format != PIXMAN_x8b8g8r8 && in_format != PIXMAN_b8g8r8a8 && in_format != PIXMAN_b8g8r8x8 &&
               in_format != PIXMAN_r8g8b8a8 && in_format != PIXMAN_r8g8b8x8 && in_format != PIXMAN_r5g6b5 &&
               in_format != PIXMAN_b5g6r5 && in_format != PIXMAN_a8 && in_format != PIXMAN_a1);
    r = color_to_pixel (&c, &pixel, (pixman_format_code_t) in_format);
    VH_CHECK ("color.other_format_rejected", r == FALSE);
    VH_CHECK ("color.rejected_leaves_pixel_untouched", pixel == in_pixel0);
#else
    r = color_to_pixel (&c, &pixel, VC_CAT (PIXMAN_, VC_FMT));
    VH_CHECK ("color.accepted_format_returns_true", r == TRUE);
    VH_CHECK ("color.pixel_is_store_of_colour", (pixel & SF_DEFMASK (VC_FMT)) == SF_NARROW_PIX (VC_FMT, c32));
    VH_CHECK ("color.no_bits_above_bpp", (pixel & ~SF_PIXMASK (VC_FMT)) == 0);
    VH_CHECK ("color.bpp_of_format_code_is_table_bpp", PIXMAN_FORMAT_BPP (VC_CAT (PIXMAN_, VC_FMT)) == SF_BPP (VC_FMT));
#endif
    VH_END ();
}
