/* c19.h — shared helpers of the C19 harnesses (blt / fill / fill_boxes).
 * Include AFTER vh.h.
 *
 * Pixel slots: slot s of a buffer, for depth bpp
 *   32: s-th uint32_t    16: s-th uint16_t    8: s-th byte
 *    1: bit s%32 (counted from the least significant bit: little-endian x86,
 *       the only platform claimed) of the 32-bit word s/32
 */
#ifndef C19_H
#define C19_H

/* array inputs: nondeterministic under CBMC, taken from the counterexample natively */
#ifdef VH_CBMC
#define VC_IN_ARRAY(type, name, n) type name[n]
#else
#define VC_IN_ARRAY(type, name, n)                                         \
    type name[n];                                                          \
    do { int i_; char b_[64];                                              \
         for (i_ = 0; i_ < (int) (n); i_++) {                              \
             snprintf (b_, sizeof b_, "%s[%d]", #name, i_);                \
             name[i_] = (type) VH_GET_I (b_); } } while (0)
#endif

/* typed view: the buffer is an array of units (uint32_t / uint16_t / uint8_t; for
 * bpp 1 the unit is the 32-bit word and a slot is one bit of it).  Native
 * (= little-endian on the only platform claimed) layout, as pixman defines it. */
typedef uint32_t vc_unit_32; typedef uint16_t vc_unit_16; typedef uint8_t vc_unit_8; typedef uint32_t vc_unit_1;
#define VC_SLOT_32(u, s) ((uint32_t) (u)[(s)])
#define VC_SLOT_16(u, s) ((uint32_t) (u)[(s)])
#define VC_SLOT_8(u, s)  ((uint32_t) (u)[(s)])
#define VC_SLOT_1(u, s)  (((uint32_t) (u)[(s) >> 5] >> ((s) & 31)) & 1u)
#define VC_UPW_32 1 /* units per 32-bit word */
#define VC_UPW_16 2
#define VC_UPW_8  4
#define VC_UPW_1  1
#define VC_CAT2(a, b) a##b
#define VC_CAT(a, b) VC_CAT2 (a, b)
#define VC_SLOT(bpp, u, s) VC_CAT (VC_SLOT_, bpp) (u, s)
#define VC_UNIT(bpp) VC_CAT (vc_unit_, bpp)
#define VC_UPW(bpp)  VC_CAT (VC_UPW_, bpp)

/* the low bpp bits of a filler */
#define VC_LOW_32(v) ((uint32_t) (v))
#define VC_LOW_16(v) ((uint32_t) (v) & 0xffffu)
#define VC_LOW_8(v)  ((uint32_t) (v) & 0xffu)
#define VC_LOW_1(v)  ((uint32_t) (v) & 1u)
#define VC_LOW(bpp, v) VC_CAT (VC_LOW_, bpp) (v)

#endif
