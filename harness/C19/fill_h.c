/* C19 (1) route H, bounded: fast_path_fill -> pixman_fill1/8/16/32 on a small
 * buffer with symbolic stride.
 *
 *   -DVC_BPP=1|8|16|32   supported depth under check
 *   -DVC_UNSUPPORTED     instead: bpp is any int outside {1,8,16,32}
 *   -DVC_WORDS, -DVC_SMAX (max stride in words), -DVC_WMAX (pixels), -DVC_HMAX
 *
 * Statement (property text): pixman_fill sets exactly the addressed rectangle
 * or returns FALSE having changed nothing.  For a ghost pixel slot (gx, gy)
 * ANYWHERE in the buffer (gx ranges over the whole stride, i.e. row padding
 * included; for bpp 1 the slot is one bit, so neighbouring bits of the same
 * word are covered):
 *      x <= gx < x+w  &&  y <= gy < y+h   ==>  slot == low bpp bits of filler
 *      otherwise                           ==>  slot unchanged
 * The buffer is a heap block of exactly VC_WORDS words (--pointer-check /
 * ASan natively): any access outside it is an obligation failure.
 */
#include "pixman-fast-path.c"
#include "vh.h"
#include "c19.h"

#ifndef VC_WORDS
#define VC_WORDS 12
#endif
#ifndef VC_SMAX
#define VC_SMAX 4
#endif
#ifndef VC_WMAX
#define VC_WMAX 8
#endif
#ifndef VC_HMAX
#define VC_HMAX 3
#endif

#ifdef VC_UNSUPPORTED

void harness (void)
{
    VC_IN_ARRAY (vh_u32, in_mem, VC_WORDS);
    VH_IN (vh_i32, in_bpp);
    VH_IN (vh_i32, in_stride);
    VH_IN (vh_i32, in_x);
    VH_IN (vh_i32, in_y);
    VH_IN (vh_i32, in_w);
    VH_IN (vh_i32, in_h);
    VH_IN (vh_u32, in_filler);
    VH_IN (vh_u32, in_g);
    uint32_t *buf = malloc (4 * VC_WORDS);
    pixman_bool_t r;

    VH_ASSUME (in_bpp != 1 && in_bpp != 8 && in_bpp != 16 && in_bpp != 32);
    VH_ASSUME (in_g < VC_WORDS);
    memcpy (buf, in_mem, 4 * VC_WORDS);

    r = fast_path_fill ((pixman_implementation_t *) 0, buf, in_stride, in_bpp, in_x, in_y, in_w, in_h, in_filler);

    VH_CHECK ("fill.unsupported_bpp_returns_false", r == FALSE);
    VH_CHECK ("fill.unsupported_bpp_writes_nothing", buf[in_g] == in_mem[in_g]);
    free (buf);
    VH_END ();
}

#else

#define VC_PPW (32 / VC_BPP) /* pixels per word */
#ifndef VC_GUARDW
#define VC_GUARDW 16 /* guard words before and after the described buffer, same heap block */
#endif
#define VC_U (VC_UPW (VC_BPP))

void harness (void)
{
    /* block = guard zone | the buffer handed to the fill | guard zone.  A write that misses the
     * buffer by a little lands in a guard zone and fails "guard_zone_unchanged"; one that
     * misses the whole block fails the pointer checks (ASan natively). */
    VC_IN_ARRAY (VC_UNIT (VC_BPP), in_mem, (VC_WORDS + 2 * VC_GUARDW) * VC_U);
    VH_IN (vh_u32, in_stride);
    VH_IN (vh_u32, in_x);
    VH_IN (vh_u32, in_y);
    VH_IN (vh_u32, in_w);
    VH_IN (vh_u32, in_h);
    VH_IN (vh_u32, in_filler);
    VH_IN (vh_u32, in_gx);
    VH_IN (vh_u32, in_gy);
    VH_IN (vh_u32, in_gz);
    VC_UNIT (VC_BPP) *block = malloc (4 * (VC_WORDS + 2 * VC_GUARDW));
    VC_UNIT (VC_BPP) *buf = block + VC_GUARDW * VC_U;
    const VC_UNIT (VC_BPP) *after = buf, *before = in_mem + VC_GUARDW * VC_U;
    uint32_t slot, got, old;
    int inside;
    pixman_bool_t r;

    /* the rectangle lies inside the described buffer */
    VH_ASSUME (1 <= in_stride && in_stride <= VC_SMAX);
    VH_ASSUME (in_w <= VC_WMAX && in_h <= VC_HMAX);
    VH_ASSUME (in_x <= in_stride * VC_PPW && in_w <= in_stride * VC_PPW - in_x);
    VH_ASSUME (in_y <= VC_WORDS && in_h <= VC_WORDS && (in_y + in_h) * in_stride <= VC_WORDS);
    /* ghost slot: any column of the stride, any row, anywhere in the buffer */
    VH_ASSUME (in_gx < in_stride * VC_PPW && in_gy <= VC_WORDS);
    slot = in_gy * in_stride * VC_PPW + in_gx;
    VH_ASSUME (slot < VC_WORDS * VC_PPW);
    /* ghost unit in a guard zone */
#if VC_GUARDW > 0
    VH_ASSUME (in_gz < VC_GUARDW * VC_U || (in_gz >= (VC_GUARDW + VC_WORDS) * VC_U && in_gz < (VC_WORDS + 2 * VC_GUARDW) * VC_U));
#else
    /* -DVC_GUARDW=0: the heap block IS the described buffer, so even a read or a same-value write one unit outside it
     * is an access outside the pixel storage (pointer checks / ASan) */
    VH_ASSUME (in_gz == 0);
#endif
    memcpy (block, in_mem, 4 * (VC_WORDS + 2 * VC_GUARDW));

    r = fast_path_fill ((pixman_implementation_t *) 0, (uint32_t *) buf, (int) in_stride, VC_BPP,
                        (int) in_x, (int) in_y, (int) in_w, (int) in_h, in_filler);

    inside = in_x <= in_gx && in_gx - in_x < in_w && in_y <= in_gy && in_gy - in_y < in_h;
    got = VC_SLOT (VC_BPP, after, slot);
    old = VC_SLOT (VC_BPP, before, slot);
    VH_CHECK ("fill.supported_bpp_returns_true", r == TRUE);
    VH_CHECK ("fill.inside_rectangle_is_filler", !inside || got == VC_LOW (VC_BPP, in_filler));
    VH_CHECK ("fill.outside_rectangle_unchanged", inside || got == old);
#if VC_GUARDW > 0
    VH_CHECK ("fill.guard_zone_unchanged", block[in_gz] == in_mem[in_gz]);
#endif
    free (block);
    VH_END ();
}

#endif
