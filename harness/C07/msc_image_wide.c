/* C07 (extension msc): PREFIX(_init_from_image) on WIDE a1 scanlines (width > 32: full-word loop, "blank word"
 * shortcuts, trailing partial word, run that crosses a word border, end-of-scanline close) and on TWO rows
 * (row coalescing: crects / prect_line_start).
 *
 *   -DVC_W=<width>   fixed width 33..96 (one job per width)
 *   -DVC_H=<1|2|3>   height (3: a band that was merged once is merged again)
 *   -DVC_GAP         (with VC_H=3) only bitmaps whose row 1 is clear and whose rows 0 and 2 are equal
 *   -DVR16           16-bit instantiation
 *
 * The real init_from_image AND the real bitmap_addrect run.  What made widths > 3 intractable in
 * harness/C07/init_from_image.c was the chain pixman_rect_alloc -> realloc (block sizes 1,2,4,8,... on merged
 * paths); here the ALLOCATOR is modelled for the verifier only (natively the real malloc/realloc/free are used):
 *   malloc(n)      : n <= MSC_CAP bytes is CHECKED ("alloc.request_within_modelled_capacity"); returns a fresh
 *                    block of MSC_CAP bytes (an allocator may hand out more than asked for)
 *   realloc(p, n)  : p is the live block and n <= MSC_CAP CHECKED; returns p (contents kept)
 *   free(p)        : real free
 * No allocation failure is injected (failure paths: C15 / the narrow init_from_image jobs).  That the code never
 * stores beyond the size it asked for is the business of the existing narrow jobs (real allocator) and is
 * additionally stated here as post.count_within_recorded_size.
 *
 * Obligations, all bits of all words symbolic (incl. the padding bits of the trailing partial word and a padding
 * word per row when in_stride_pad), ghost point (in_px, in_py) in int x int:
 *   post.point_in_region_iff_bit_set   p in region <=> 0 <= px < width && 0 <= py < height && bit (px,py) set
 *                                      (bit order of the build: spec_regionq.h RQ_A1_BIT, from the property text)
 *   post.shape.canonical               non-empty rects, y-x banded, gaps between rects of a band (maximal runs),
 *                                      tight extents, (VC_COAL) identical adjacent bands merged
 *   post.shape.empty_result_is_static_empty, post.shape.single_rect_stored_inline
 *   post.image_unchanged, post.no_error_logged, post.count_bounded
 */
#include "vh.h"
#include <stdlib.h>

#ifndef VC_W
#error "VC_W required"
#endif
#ifndef VC_H
#define VC_H 1
#endif
#define MSC_WORDS   ((VC_W + 31) / 32)
#define MSC_STRIDE  (MSC_WORDS + 1)            /* room for one padding word per row */
#define MSC_NW      (MSC_STRIDE * VC_H)
#if MSC_NW > 8
#error "at most 8 bitmap words (in_w0..in_w7)"
#endif
/* most rectangles a VC_W x VC_H bitmap can give */
#define MSC_MAXRECTS (((VC_W + 1) / 2) * VC_H)
/* pixman_rect_alloc doubles: never asks for more than 2 * (rects so far) + 1 */
#define MSC_CAP_RECTS (2 * MSC_MAXRECTS + 2)

static int msc_alloc_live, msc_alloc_calls;
static void *msc_block;
static size_t msc_last_request;
#ifdef VH_CBMC
/* the modelled block is a typed static object (header + MSC_CAP_RECTS boxes, the layout region_data_type_t
 * documents): defined after the region types exist */
static void *msc_malloc (size_t n);
static void *msc_realloc (void *p, size_t n);
static void msc_free (void *p);
#else
static void *msc_malloc (size_t n) { void *p = malloc (n); msc_block = p; msc_alloc_live = 1; msc_alloc_calls++; msc_last_request = n; return p; }
static void *msc_realloc (void *p, size_t n) { void *q = realloc (p, n); msc_block = q; msc_alloc_calls++; msc_last_request = n; return q; }
static void msc_free (void *p) { if (p) msc_alloc_live = 0; free (p); }
#endif
#define malloc(n)     msc_malloc (n)
#define realloc(p, n) msc_realloc (p, n)
#define free(p)       msc_free (p)

#ifndef VC_COAL
#define VC_COAL 1
#endif
#include "rq_prelude.h"

#define RQ_IMG_MAXRECTS MSC_MAXRECTS

#ifdef VH_CBMC
#undef malloc
#undef realloc
#undef free
static struct { region_data_type_t hdr; box_type_t b[MSC_CAP_RECTS]; } msc_blk;
#define MSC_CAP sizeof (msc_blk)
static void *msc_malloc (size_t n)
{
    VH_CHECK ("alloc.request_within_modelled_capacity", n <= MSC_CAP);
    VH_CHECK ("alloc.one_live_block", msc_alloc_live == 0);
    msc_block = &msc_blk;
    msc_alloc_live = 1;
    msc_alloc_calls++;
    msc_last_request = n;
    return msc_block;
}
static void *msc_realloc (void *p, size_t n)
{
    VH_CHECK ("alloc.realloc_of_live_block", p == msc_block && msc_alloc_live == 1);
    VH_CHECK ("alloc.request_within_modelled_capacity", n <= MSC_CAP);
    msc_alloc_calls++;
    msc_last_request = n;
    return p;
}
static void msc_free (void *p)
{
    if (p)
    {
        VH_CHECK ("alloc.free_of_live_block", p == msc_block && msc_alloc_live == 1);
        msc_alloc_live = 0;
    }
}
#endif

static uint32_t bits[MSC_NW], copy[MSC_NW];

/* spec (from the property text; loops with constant bounds so that the unwinding bound is the stated one):
 * p in the union of the first n rectangles */
static int
msc_in_rects (const box_type_t *r, int n, long px, long py)
{
    int i, in = 0;
    for (i = 0; i < MSC_MAXRECTS; i++)
        if (i < n && r[i].x1 <= px && px < r[i].x2 && r[i].y1 <= py && py < r[i].y2)
            in = 1;
    return in;
}

/* canonical y-x banded form (C06 wording): every rect non-empty; consecutive rects either in the same band
 * (same y1, y2) with a GAP between them (x2_i < x1_{i+1}: runs are maximal), or the next one starts a new band at
 * or below the end of the current one; extents = tight bounding box */
static int
msc_canon (const box_type_t *r, int n, const box_type_t *ext)
{
    int i, ok = 1;
    long minx = r[0].x1, maxx = r[0].x2, lasty2 = r[0].y2;
    for (i = 0; i < MSC_MAXRECTS; i++)
        if (i < n)
        {
            if (!(r[i].x1 < r[i].x2 && r[i].y1 < r[i].y2))
                ok = 0;
            if (r[i].x1 < minx) minx = r[i].x1;
            if (r[i].x2 > maxx) maxx = r[i].x2;
            lasty2 = r[i].y2;
            if (i + 1 < n)
            {
                int same_band = r[i + 1].y1 == r[i].y1 && r[i + 1].y2 == r[i].y2 && r[i].x2 < r[i + 1].x1;
                int next_band = r[i + 1].y1 >= r[i].y2;
                if (!same_band && !next_band)
                    ok = 0;
            }
        }
    if (!(ext->x1 == minx && ext->x2 == maxx && ext->y1 == r[0].y1 && ext->y2 == lasty2))
        ok = 0;
    return ok;
}

void harness (void)
{
    VH_IN (vh_u8, in_stride_pad);
    VH_IN (vh_i32, in_px);
    VH_IN (vh_i32, in_py);
    VH_IN (vh_u32, in_w0); VH_IN (vh_u32, in_w1); VH_IN (vh_u32, in_w2); VH_IN (vh_u32, in_w3);
    VH_IN (vh_u32, in_w4); VH_IN (vh_u32, in_w5); VH_IN (vh_u32, in_w6); VH_IN (vh_u32, in_w7);
    uint32_t in_w[8];
    static pixman_image_t image; /* zero-initialised */
    region_type_t region;
    int stride, n2, bit, in, i, ok;
    box_type_t *r2;
    static box_type_t res[RQ_IMG_MAXRECTS];

    in_w[0] = in_w0; in_w[1] = in_w1; in_w[2] = in_w2; in_w[3] = in_w3;
    in_w[4] = in_w4; in_w[5] = in_w5; in_w[6] = in_w6; in_w[7] = in_w7;
    stride = in_stride_pad ? MSC_STRIDE : MSC_WORDS;
#if defined (VC_GAP) && VC_H == 3
    /* the "band, gap, same band again" family only (rows 0 and 2 hold the same pixels, row 1 is clear): a wider
     * image than the unrestricted 3-row jobs can afford; narrows the domain, listed in Job.assumptions */
    {
        int x;
        for (x = 0; x < VC_W; x++)
        {
            VH_ASSUME (RQ_A1_BIT (in_w, stride, x, 1) == 0);
            VH_ASSUME (RQ_A1_BIT (in_w, stride, x, 0) == RQ_A1_BIT (in_w, stride, x, 2));
        }
    }
#endif
    for (i = 0; i < MSC_NW; i++)
    {
        bits[i] = in_w[i];
        copy[i] = bits[i];
    }
    image.type = BITS;
    image.bits.format = PIXMAN_a1;
    image.bits.width = VC_W;
    image.bits.height = VC_H;
    image.bits.bits = bits;
    image.bits.rowstride = stride;
    /* the region object is uninitialised storage: init_from_image initialises it */
    region.extents.x1 = region.extents.y1 = region.extents.x2 = region.extents.y2 = 77;
    region.data = (region_data_type_t *) 0;

    PREFIX (_init_from_image) (&region, &image);

    n2 = region.data ? (int) region.data->numRects : 1;
    r2 = region.data ? (box_type_t *) (region.data + 1) : &region.extents;
    VH_CHECK ("post.count_bounded", 0 <= n2 && n2 <= RQ_IMG_MAXRECTS);
    VH_CHECK ("post.count_within_recorded_size", !region.data || region.data->numRects <= region.data->size);
    VH_CHECK ("post.recorded_size_within_last_request",
              !region.data || region.data == pixman_region_empty_data ||
              sizeof (region_data_type_t) + (size_t) region.data->size * sizeof (box_type_t) <= msc_last_request);
    for (i = 0; i < RQ_IMG_MAXRECTS; i++)
        if (i < n2)
            res[i] = r2[i];
    r2 = res;
    bit = 0 <= in_px && in_px < VC_W && 0 <= in_py && in_py < VC_H &&
          RQ_A1_BIT (bits, stride, in_px, in_py) != 0;
    in = n2 > 0 && n2 <= RQ_IMG_MAXRECTS && msc_in_rects (r2, n2, in_px, in_py);
    VH_CHECK ("post.point_in_region_iff_bit_set", in == bit);
    VH_CHECK ("post.shape.empty_result_is_static_empty", n2 != 0 || (region.data == pixman_region_empty_data &&
              region.extents.x1 == region.extents.x2 && region.extents.y1 == region.extents.y2));
    VH_CHECK ("post.shape.single_rect_stored_inline", n2 != 1 || region.data == (region_data_type_t *) 0);
    VH_CHECK ("post.shape.canonical", n2 < 1 || n2 > RQ_IMG_MAXRECTS || msc_canon (r2, n2, &region.extents));
#if VC_H >= 2
    {
        /* identical adjacent bands are merged: where rows y and y+1 hold the same pixels no rectangle ends or
         * starts at the border between them */
        int x, y, coalesced = 1;
        for (y = 0; y + 1 < VC_H; y++)
        {
            int rows_equal = 1;
            for (x = 0; x < VC_W; x++)
                if (RQ_A1_BIT (bits, stride, x, y) != RQ_A1_BIT (bits, stride, x, y + 1))
                    rows_equal = 0;
            for (i = 0; i < RQ_IMG_MAXRECTS; i++)
                if (i < n2 && rows_equal && (r2[i].y2 == y + 1 || r2[i].y1 == y + 1))
                    coalesced = 0;
        }
        VH_CHECK ("post.shape.equal_rows_are_coalesced", n2 < 1 || n2 > RQ_IMG_MAXRECTS || coalesced);
    }
#endif
    ok = 1;
    for (i = 0; i < MSC_NW; i++)
        if (copy[i] != bits[i])
            ok = 0;
    VH_CHECK ("post.image_unchanged", ok && image.type == BITS && image.bits.width == VC_W && image.bits.height == VC_H &&
              image.bits.bits == bits && image.bits.rowstride == stride && image.bits.format == PIXMAN_a1);
    VH_CHECK ("post.no_error_logged", rq_log_errors == 0);
    PREFIX (_fini) (&region);
    VH_CHECK ("post.no_block_left", msc_alloc_live == 0);
    VH_END ();
}
