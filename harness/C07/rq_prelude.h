/* rq_prelude.h — shared set-up of the C07 harnesses (route H).
 *
 *   -DVR16           16-bit instantiation (pixman-region16.c), default 32-bit
 *   -DVC_NMAX=<k>    largest rect count of the input region (<= RQ_MAXN)
 *   -DVC_NMIN=<k>    smallest
 *   -DVC_HEAP        data block malloc'ed (translate frees it), else on the stack
 *
 * The real region TU is #included unmodified; the region under test is built
 * from scalar inputs in_n, in_size, in_r<i>_{x1,y1,x2,y2} (coordinate type of
 * the instantiation, full range) constrained only by the canonical-form
 * precondition rq_canon_rects of spec_regionq.h.
 */
#ifndef RQ_PRELUDE_H
#define RQ_PRELUDE_H

#include "vh.h"
#ifdef VC_ALLOC
#include <stdlib.h>
#include "vh_alloc.h"
#endif

#ifdef VR16
#include "pixman-region16.c"
#define RQ_COORD vh_i16
#else
#include "pixman-region32.c"
#define RQ_COORD vh_i32
#endif

#define RQ_BOX_T box_type_t
#include "spec_regionq.h"
#include "rq_env.h"

#define RQ_MAXN 4
#ifndef VC_NMAX
#define VC_NMAX 1
#endif
#ifndef VC_NMIN
#define VC_NMIN 0
#endif

#define RQ_IN2(t, n) VH_IN (t, n)
#define RQ_INC(n) RQ_IN2 (RQ_COORD, n)
#define RQ_IN_RECT(i) \
    RQ_INC (in_r##i##_x1); RQ_INC (in_r##i##_y1); RQ_INC (in_r##i##_x2); RQ_INC (in_r##i##_y2)
#define RQ_SET_RECT(b, i) \
    do { (b).x1 = in_r##i##_x1; (b).y1 = in_r##i##_y1; (b).x2 = in_r##i##_x2; (b).y2 = in_r##i##_y2; } while (0)

struct rq_block
{
    region_data_type_t hdr;
    box_type_t         b[RQ_MAXN];
};

/* the region under test and its model */
static region_type_t    rq_region;
static struct rq_block  rq_stack_block;
static struct rq_block *rq_blk;
static box_type_t       rq_orig[RQ_MAXN];  /* model: the input rect list */
static box_type_t       rq_orig_ext;
static int              rq_n;

static void
rq_tight_extents (const box_type_t *r, int n, box_type_t *e)
{
    int i;
    *e = r[0];
    e->y2 = r[n - 1].y2;
    for (i = 1; i < n; i++)
    {
        if (r[i].x1 < e->x1) e->x1 = r[i].x1;
        if (r[i].x2 > e->x2) e->x2 = r[i].x2;
    }
}

/* Declares the inputs and builds rq_region with VC_NMIN <= n <= VC_NMAX rects in
 * canonical form (coalesced: also demand merged bands).  A macro because
 * VH_IN declares harness locals (the driver looks for them in `harness`). */
#define RQ_BUILD_REGION(coalesced)                                                          \
    VH_IN (vh_i32, in_n);                                                                   \
    VH_IN (vh_i32, in_size);                                                                \
    RQ_IN_RECT (0); RQ_IN_RECT (1); RQ_IN_RECT (2); RQ_IN_RECT (3);                         \
    VH_ASSUME (VC_NMIN <= in_n && in_n <= VC_NMAX && in_n <= RQ_MAXN);                      \
    rq_n = in_n;                                                                            \
    RQ_SET_RECT (rq_orig[0], 0); RQ_SET_RECT (rq_orig[1], 1);                               \
    RQ_SET_RECT (rq_orig[2], 2); RQ_SET_RECT (rq_orig[3], 3);                               \
    rq_build (in_size, coalesced)

static void
rq_build (int size, int coalesced)
{
    int i;
    if (rq_n == 0)
    {
        /* empty region: static empty data; extents as the library leaves them (x2==x1, y2==y1) */
        rq_region.extents = rq_orig[0];
        VH_ASSUME (rq_orig[0].x2 == rq_orig[0].x1 && rq_orig[0].y2 == rq_orig[0].y1);
        rq_orig_ext = rq_region.extents;
        rq_region.data = pixman_region_empty_data;
        return;
    }
    rq_tight_extents (rq_orig, rq_n, &rq_orig_ext);
    VH_ASSUME (rq_canon_rects (rq_orig, rq_n, &rq_orig_ext, coalesced));
    rq_region.extents = rq_orig_ext;
    if (rq_n == 1)
    {
        rq_region.data = (region_data_type_t *) 0;
        return;
    }
    VH_ASSUME (rq_n <= size && size <= RQ_MAXN);
#ifdef VC_HEAP
    rq_blk = (struct rq_block *) malloc (sizeof (struct rq_block));
    VH_ASSUME (rq_blk != 0);
#else
    rq_blk = &rq_stack_block;
#endif
    rq_blk->hdr.size = size;
    rq_blk->hdr.numRects = rq_n;
    for (i = 0; i < RQ_MAXN; i++)
        rq_blk->b[i] = rq_orig[i];
    rq_region.data = &rq_blk->hdr;
}

/* current rect list of the region (after the call) */
#define RQ_CUR_N()     (rq_region.data ? (int) rq_region.data->numRects : 1)
#define RQ_CUR_RECTS() (rq_region.data ? (box_type_t *) (rq_region.data + 1) : &rq_region.extents)

static int
rq_region_unchanged (void)
{
    int i, ok = 1;
    if (!RQ_BOX_EQ (rq_region.extents, rq_orig_ext))
        ok = 0;
    if (rq_n == 0)
        return ok && rq_region.data == pixman_region_empty_data;
    if (rq_n == 1)
        return ok && rq_region.data == (region_data_type_t *) 0;
    if (rq_region.data != &rq_blk->hdr || rq_blk->hdr.numRects != rq_n)
        return 0;
    for (i = 0; i < rq_n; i++)
        if (!RQ_BOX_EQ (rq_blk->b[i], rq_orig[i]))
            ok = 0;
    return ok;
}

#endif
