/* C07: PREFIX(_contains_rectangle) returns IN / OUT / PART exactly as the (non-empty)
 * rectangle is a subset of / disjoint from / partly overlapping the region.
 *   -DVR16, -DVC_NMIN, -DVC_NMAX
 *   -DVC_MODE=1  region with <= 1 rect: exact classification in closed form (intervals)
 *                + the ghost-point obligations
 *   -DVC_MODE=2  any canonical region of VC_NMIN..VC_NMAX rects, full coordinates:
 *                two ghost points g, h inside the rectangle
 *                  post.IN_means_every_point_in     ret == IN   => g in view
 *                  post.OUT_means_no_point_in       ret == OUT  => g not in view
 *                  post.witnesses_both_ways_is_PART g in view && h not in view => ret == PART
 *                  post.result_is_IN_OUT_or_PART
 *   -DVC_MODE=3  exact classification by counting: the rects of a canonical region are
 *                disjoint, so #(q n view) = sum_i #(q n r_i); IN <=> it equals #q,
 *                OUT <=> 0, PART otherwise (also excludes a wrong PART, which ghost
 *                points cannot).  Coordinates limited to |c| <= VC_GRID when
 *                VC_GRID is defined (the products are what the solver pays for).
 */
#include "rq_prelude.h"


void harness (void)
{
    RQ_BUILD_REGION (0);
    RQ_INC (in_q_x1); RQ_INC (in_q_y1); RQ_INC (in_q_x2); RQ_INC (in_q_y2);
    RQ_INC (in_gx); RQ_INC (in_gy); RQ_INC (in_hx); RQ_INC (in_hy);
    box_type_t q;
    pixman_region_overlap_t ret;
    int g_in, h_in;

    q.x1 = in_q_x1; q.y1 = in_q_y1; q.x2 = in_q_x2; q.y2 = in_q_y2;
    VH_ASSUME (RQ_BOX_NONEMPTY (q));
    VH_ASSUME (RQ_IN_BOX (q, in_gx, in_gy) && RQ_IN_BOX (q, in_hx, in_hy));
#if VC_MODE == 3 && defined (VC_GRID)
    {
        int i;
        for (i = 0; i < RQ_MAXN; i++)
            if (i < rq_n)
                VH_ASSUME (-VC_GRID <= rq_orig[i].x1 && rq_orig[i].x2 <= VC_GRID && -VC_GRID <= rq_orig[i].y1 && rq_orig[i].y2 <= VC_GRID);
        VH_ASSUME (-VC_GRID <= q.x1 && q.x2 <= VC_GRID && -VC_GRID <= q.y1 && q.y2 <= VC_GRID);
    }
#endif

    ret = PREFIX (_contains_rectangle) (&rq_region, &q);

    g_in = rq_n > 0 && rq_in_rects (rq_orig, rq_n, in_gx, in_gy);
    h_in = rq_n > 0 && rq_in_rects (rq_orig, rq_n, in_hx, in_hy);
    VH_CHECK ("post.result_is_IN_OUT_or_PART", ret == PIXMAN_REGION_IN || ret == PIXMAN_REGION_OUT || ret == PIXMAN_REGION_PART);
    VH_CHECK ("post.IN_means_every_point_in", ret != PIXMAN_REGION_IN || g_in);
    VH_CHECK ("post.OUT_means_no_point_in", ret != PIXMAN_REGION_OUT || !g_in);
    VH_CHECK ("post.witnesses_both_ways_is_PART", !(g_in && !h_in) || ret == PIXMAN_REGION_PART);
#if VC_MODE == 1
    {
        int meets = rq_n == 1 && RQ_BOX_MEETS (rq_orig[0], q);
        int covers = rq_n == 1 && RQ_BOX_COVERS (rq_orig[0], q);
        VH_CHECK ("post.single.subset_is_IN", !covers || ret == PIXMAN_REGION_IN);
        VH_CHECK ("post.single.disjoint_is_OUT", meets || ret == PIXMAN_REGION_OUT);
        VH_CHECK ("post.single.partial_is_PART", !(meets && !covers) || ret == PIXMAN_REGION_PART);
    }
#elif VC_MODE == 3
    {
        /* rects of a canonical region are pairwise disjoint, so
         * |q n view| = sum_i |q n r_i|; subset <=> it equals |q|, disjoint <=> it is 0 */
        rq_u64 covered = 0, whole = rq_area_meet (&q, &q);
        int i;
        for (i = 0; i < RQ_MAXN; i++)
            if (i < rq_n)
                covered += rq_area_meet (&rq_orig[i], &q);
        VH_CHECK ("post.exact.subset_is_IN", !(covered == whole) || ret == PIXMAN_REGION_IN);
        VH_CHECK ("post.exact.disjoint_is_OUT", !(covered == 0) || ret == PIXMAN_REGION_OUT);
        VH_CHECK ("post.exact.partial_is_PART", !(covered != 0 && covered != whole) || ret == PIXMAN_REGION_PART);
    }
#endif
    VH_CHECK ("frame.region_unchanged", rq_region_unchanged ());
    VH_CHECK ("frame.rect_unchanged", q.x1 == in_q_x1 && q.y1 == in_q_y1 && q.x2 == in_q_x2 && q.y2 == in_q_y2);
    VH_CHECK ("post.no_error_logged", rq_log_errors == 0);
    VH_END ();
}
