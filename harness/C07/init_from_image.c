/* C07: PREFIX(_init_from_image) yields exactly the set bits of a 1-bpp (a1) image.
 *   -DVR16
 *   -DVC_W=<width>  fix the width (one job per interesting width), else 1..40 symbolic
 *   -DVC_H=<height> 1 or 2 (default: 0..2 symbolic)
 * The bits image is set up by hand: type BITS, format PIXMAN_a1, width, height,
 * rowstride 2 words (in_stride3: 3 words, one word of padding per row), bits buffer
 * of symbolic words in_w0..in_w5.  Any point p = (in_px, in_py) in int x int:
 *   post.point_in_region_iff_bit_set   p in view(region) <=> 0<=px<width && 0<=py<height && bit(px,py)
 *   post.shape.*                       canonical result (incl. coalescing of identical adjacent rows)
 *   post.image_unchanged, post.no_error_logged
 * Allocation goes through vh_alloc.h; in_failmask selects the failing allocation
 * calls; on failure the region must be the broken region (C15's business, stated
 * here only so that the success obligations are not vacuous on those paths).
 */
#define VC_ALLOC 1
#ifndef VC_COAL
#define VC_COAL 1
#endif
#include "rq_prelude.h"

#ifndef RQ_IMG_MAXRECTS
#define RQ_IMG_MAXRECTS 40
#endif

void harness (void)
{
    VH_IN (vh_i32, in_width);
    VH_IN (vh_i32, in_height);
    VH_IN (vh_u8, in_stride3);
    VH_IN (vh_u32, in_w0); VH_IN (vh_u32, in_w1); VH_IN (vh_u32, in_w2);
    VH_IN (vh_u32, in_w3); VH_IN (vh_u32, in_w4); VH_IN (vh_u32, in_w5);
    VH_IN (vh_i32, in_px);
    VH_IN (vh_i32, in_py);
    VH_IN (vh_u32, in_failmask);
    uint32_t bits[6], copy[6];
    static pixman_image_t image; /* zero-initialised */
    region_type_t region;
    int stride, n2, bit, in, i, ok;
    box_type_t *r2, res[RQ_IMG_MAXRECTS];

#ifdef VC_W
    VH_ASSUME (in_width == VC_W);
#endif
#ifdef VC_H
    VH_ASSUME (in_height == VC_H);
#endif
    VH_ASSUME (1 <= in_width && in_width <= 40);
    VH_ASSUME (0 <= in_height && in_height <= 2);
#ifdef VC_NOFAIL
    VH_ASSUME (in_failmask == 0);
#endif
    /* constants where the job fixes a value, so that symbolic execution sees them */
#ifdef VC_W
    in_width = VC_W;
#endif
#ifdef VC_H
    in_height = VC_H;
#endif
#ifdef VC_NOFAIL
    in_failmask = 0;
#endif
    vh_failmask = in_failmask;
    stride = in_stride3 ? 3 : 2;
    bits[0] = in_w0; bits[1] = in_w1; bits[2] = in_w2; bits[3] = in_w3; bits[4] = in_w4; bits[5] = in_w5;
    for (i = 0; i < 6; i++)
        copy[i] = bits[i];
    image.type = BITS;
    image.bits.format = PIXMAN_a1;
    image.bits.width = in_width;
    image.bits.height = in_height;
    image.bits.bits = bits;
    image.bits.rowstride = stride;
    /* the region object is uninitialised storage: init_from_image initialises it */
    region.extents.x1 = region.extents.y1 = region.extents.x2 = region.extents.y2 = 77;
    region.data = (region_data_type_t *) 0;

    PREFIX (_init_from_image) (&region, &image);

    if (vh_alloc_failed)
    {
        VH_CHECK ("post.alloc_failure_gives_broken_region", region.data == pixman_broken_data);
    }
    else
    {
        n2 = region.data ? (int) region.data->numRects : 1;
        r2 = region.data ? (box_type_t *) (region.data + 1) : &region.extents;
        VH_CHECK ("post.count_bounded", 0 <= n2 && n2 <= RQ_IMG_MAXRECTS);
        for (i = 0; i < RQ_IMG_MAXRECTS; i++)
            if (i < n2)
                res[i] = r2[i];
        r2 = res;
        bit = 0 <= in_px && in_px < in_width && 0 <= in_py && in_py < in_height &&
              RQ_A1_BIT (bits, stride, in_px, in_py) != 0;
        in = n2 > 0 && n2 <= RQ_IMG_MAXRECTS && rq_in_rects (r2, n2, in_px, in_py);
        VH_CHECK ("post.point_in_region_iff_bit_set", in == bit);
        VH_CHECK ("post.shape.empty_result_is_static_empty", n2 != 0 || (region.data == pixman_region_empty_data &&
                  region.extents.x1 == region.extents.x2 && region.extents.y1 == region.extents.y2));
        VH_CHECK ("post.shape.single_rect_stored_inline", n2 != 1 || region.data == (region_data_type_t *) 0);
#ifndef VC_NOCANON
        VH_CHECK ("post.shape.canonical", n2 < 1 || n2 > RQ_IMG_MAXRECTS || rq_canon_rects (r2, n2, &region.extents, VC_COAL));
#endif
    }
    ok = 1;
    for (i = 0; i < 6; i++)
        if (copy[i] != bits[i])
            ok = 0;
    VH_CHECK ("post.image_unchanged", ok && image.type == BITS && image.bits.width == in_width && image.bits.height == in_height &&
              image.bits.bits == bits && image.bits.rowstride == stride && image.bits.format == PIXMAN_a1);
    VH_CHECK ("post.no_error_logged", rq_log_errors == 0);
    PREFIX (_fini) (&region);
    VH_END ();
}
