/* C07 (extension msc): the SCANNING half of PREFIX(_init_from_image) on wide a1 scanlines, modularly.
 *
 *   -DVC_W=<width>  fixed width (33..40, 63, 64, 65, 96 ...: full-word loop, "blank word" shortcuts for all-0 and
 *                   all-1 words, trailing partial word, runs crossing a word border, end-of-scanline close)
 *   -DVC_H=<1|2>    height (2: the per-row state in_box / base / rx1 is reset at every row start)
 *   -DVR16          16-bit instantiation
 *
 * init_from_image is the REAL code.  Its helper bitmap_addrect (static inline, same TU) is intercepted: while the
 * real file is read `bitmap_addrect` is a function-like macro whose first argument is `region_type_t *reg` in the
 * definition and `region` at the three call sites; pasting selects the spelling (technique of harness/C05/rh.h):
 * the definition becomes bitmap_addrect_real (same body, checked against its contract in msc_addrect.c), the calls
 * become msc_addrect_stub.  A source change that alters this shape stops compiling -> exit 2, never a verdict.
 * Natively (replay) the stub records and then calls the real helper.
 *
 * The stub is a RECORDING stub.  It keeps no list: the statement is made for a ghost pixel (in_px, in_py), any
 * point of int x int, and for the previous call:
 *   addrect.pre.*                 every call is legal: reg is the region being built, r is its current end
 *                                 pointer, *first_rect its first box, ry2 == ry1 + 1, 0 <= ry1 < height
 *   addrect.run_nonempty_inside_row   0 <= rx1 < rx2 <= width
 *   addrect.runs_in_scan_order_with_gap   rows never go back; inside a row the new run starts strictly right of
 *                                 the end of the previous one (rx1 > previous rx2): runs are disjoint, in
 *                                 increasing x, and MAXIMAL (two runs never touch)
 *   post.ghost_pixel_in_some_run_iff_bit_set   (px,py) lies in a recorded run <=> 0 <= px < width &&
 *                                 0 <= py < height && bit (px,py) of the image is set (RQ_A1_BIT: bit order of the
 *                                 build as the property states it) -- every bit of every word symbolic, including
 *                                 the padding bits of the trailing partial word and an optional padding word per row
 *   post.image_unchanged, post.no_error_logged
 * In the verifier the stub leaves the region alone and returns `r` (non-NULL); what bitmap_addrect makes of a
 * legal call sequence is job addrect.* (msc_addrect.c), what init_from_image does with the stored rectangles
 * afterwards (row coalescing, extents, single-rect/empty normalisation) is jobs image_e2e.* (msc_image_wide.c).
 */
#include "vh.h"
#include <stdlib.h>

#ifndef VC_W
#error "VC_W required"
#endif
#ifndef VC_H
#define VC_H 1
#endif
#define MSC_WORDS   ((VC_W + 31) / 32)
#define MSC_STRIDE  (MSC_WORDS + 1)            /* room for one padding word per row */
#define MSC_NW      (MSC_STRIDE * VC_H)
#if MSC_NW > 8
#error "at most 8 bitmap words (in_w0..in_w7)"
#endif

static void *msc_addrect_stub ();      /* defined below, after the types exist (K&R declaration as in rh.h) */
#define bitmap_addrect(a, b, c, d, e, f, g) MSCP_##a , b, c, d, e, f, g)
#define MSCP_region_type_t   bitmap_addrect_real (region_type_t
#define MSCP_region          msc_addrect_stub (region

#ifdef VR16
#include "pixman-region16.c"
#else
#include "pixman-region32.c"
#endif
#undef bitmap_addrect
#define RQ_BOX_T box_type_t
#include "spec_regionq.h"
#include "rq_env.h"

static region_type_t *msc_region;      /* the region being built */
static long msc_gx, msc_gy;            /* ghost pixel */
static int  msc_covered;               /* ghost pixel lies in a recorded run */
static int  msc_calls;
static int  msc_last_y = -1, msc_last_x2;

static void *
msc_addrect_stub (region_type_t *reg, box_type_t *r, box_type_t **first_rect, int rx1, int ry1, int rx2, int ry2)
{
    VH_CHECK ("addrect.pre.region_and_end_pointer",
              reg == msc_region && reg->data != (region_data_type_t *) 0 && first_rect != (box_type_t **) 0 &&
              *first_rect == PIXREGION_BOXPTR (reg) && r == *first_rect + reg->data->numRects);
    VH_CHECK ("addrect.pre.one_row_high_inside_image", 0 <= ry1 && ry1 < VC_H && ry2 == ry1 + 1);
    VH_CHECK ("addrect.run_nonempty_inside_row", 0 <= rx1 && rx1 < rx2 && rx2 <= VC_W);
    VH_CHECK ("addrect.runs_in_scan_order_with_gap",
              ry1 > msc_last_y || (ry1 == msc_last_y && rx1 > msc_last_x2));
    if (rx1 <= msc_gx && msc_gx < rx2 && ry1 <= msc_gy && msc_gy < ry2)
        msc_covered = 1;
    msc_last_y = ry1;
    msc_last_x2 = rx2;
    msc_calls++;
#ifdef VH_CBMC
    return r;
#else
    return bitmap_addrect_real (reg, r, first_rect, rx1, ry1, rx2, ry2);
#endif
}

static uint32_t bits[MSC_NW], copy[MSC_NW];

void harness (void)
{
    VH_IN (vh_u8, in_stride_pad);
    VH_IN (vh_i32, in_px);
    VH_IN (vh_i32, in_py);
    VH_IN (vh_u32, in_w0); VH_IN (vh_u32, in_w1); VH_IN (vh_u32, in_w2); VH_IN (vh_u32, in_w3);
    VH_IN (vh_u32, in_w4); VH_IN (vh_u32, in_w5); VH_IN (vh_u32, in_w6); VH_IN (vh_u32, in_w7);
    uint32_t in_w[8];
    static pixman_image_t image; /* zero-initialised */
    region_type_t region;
    int stride, bit, i, ok;

    in_w[0] = in_w0; in_w[1] = in_w1; in_w[2] = in_w2; in_w[3] = in_w3;
    in_w[4] = in_w4; in_w[5] = in_w5; in_w[6] = in_w6; in_w[7] = in_w7;
    stride = in_stride_pad ? MSC_STRIDE : MSC_WORDS;
    for (i = 0; i < MSC_NW; i++)
    {
        bits[i] = in_w[i];
        copy[i] = bits[i];
    }
    image.type = BITS;
    image.bits.format = PIXMAN_a1;
    image.bits.width = VC_W;
    image.bits.height = VC_H;
    image.bits.bits = bits;
    image.bits.rowstride = stride;
    region.extents.x1 = region.extents.y1 = region.extents.x2 = region.extents.y2 = 77;
    region.data = (region_data_type_t *) 0;
    msc_region = &region;
    msc_gx = in_px;
    msc_gy = in_py;

    PREFIX (_init_from_image) (&region, &image);

    bit = 0 <= in_px && in_px < VC_W && 0 <= in_py && in_py < VC_H &&
          RQ_A1_BIT (bits, stride, in_px, in_py) != 0;
    VH_CHECK ("post.ghost_pixel_in_some_run_iff_bit_set", (msc_covered != 0) == (bit != 0));
    ok = 1;
    for (i = 0; i < MSC_NW; i++)
        if (copy[i] != bits[i])
            ok = 0;
    VH_CHECK ("post.image_unchanged", ok && image.type == BITS && image.bits.width == VC_W && image.bits.height == VC_H &&
              image.bits.bits == bits && image.bits.rowstride == stride && image.bits.format == PIXMAN_a1);
    VH_CHECK ("post.no_error_logged", rq_log_errors == 0);
    PREFIX (_fini) (&region);
    VH_END ();
}
