/* C07: PREFIX(_contains_point) is set membership and returns the member rectangle
 * holding the point.
 *   -DVR16, -DVC_NMIN, -DVC_NMAX  (see rq_prelude.h)
 * Region: any canonical region with VC_NMIN..VC_NMAX rects (0 = the empty
 * region, 1 = single rect stored inline), coordinates over the full range of the
 * instantiation; query point any (int,int); box out-parameter given or NULL.
 *   post.result_is_membership   ret != 0  <=>  (x,y) in view(region)
 *   post.box_is_member_rect     ret && box  =>  *box is one of the region's rects and holds (x,y)
 *   frame.region_unchanged      the region is not modified
 */
#include "rq_prelude.h"

void harness (void)
{
    RQ_BUILD_REGION (0);
    VH_IN (vh_i32, in_x);
    VH_IN (vh_i32, in_y);
    VH_IN (vh_u8, in_want_box);
    box_type_t out;
    int ret, spec;

    out.x1 = out.y1 = out.x2 = out.y2 = 0;
    ret = PREFIX (_contains_point) (&rq_region, in_x, in_y, in_want_box ? &out : (box_type_t *) 0);

    spec = rq_n > 0 && rq_in_rects (rq_orig, rq_n, in_x, in_y);
    VH_CHECK ("post.result_is_membership", (ret != 0) == (spec != 0));
    if (ret && in_want_box)
        VH_CHECK ("post.box_is_member_rect", rq_is_member_rect_holding (rq_orig, rq_n, &out, in_x, in_y));
    VH_CHECK ("frame.region_unchanged", rq_region_unchanged ());
    VH_CHECK ("post.no_error_logged", rq_log_errors == 0);
    VH_END ();
}
