/* C07: PREFIX(_translate) moves every point by (dx,dy) and discards exactly the part
 * that leaves the representable coordinate range [REGION_MIN, REGION_MAX].
 *   -DVR16, -DVC_NMIN, -DVC_NMAX (rect count of the region; block is malloc'ed: translate may free it)
 *   -DVC_RANGE=0  (dx,dy) keeps the whole region representable (in-range branch)
 *   -DVC_RANGE=1  any (dx,dy) for which the code's own arithmetic is defined
 *                 (|dx|,|dy| <= 2^30 for the 16-bit instantiation whose overflow_int_t is int)
 *   -DVC_RANGE=2  any (dx,dy) in int x int
 *   -DVC_PART=0..5 which obligations (see below)
 *   -DVC_COAL=1   precondition and postcondition use the full canonical form
 *                 (vertically adjacent bands with identical spans merged)
 *
 * Spec, with 64-bit coordinates: for the ghost point g (any point, also far outside),
 *   g + d in view(after)  <=>  g in view(before)  &&  MIN <= g.x+dx < MAX  &&  MIN <= g.y+dy < MAX
 * (a rect [x1,x2) with x2 <= MAX holds points up to MAX-1).
 *   post.pointset_translated_and_clipped
 *   post.inrange_every_rect_shifted   nothing leaves the range => same count, every rect and the extents shifted exactly
 *   post.shape.*                      result is canonical: 0 rects => static empty data and empty extents, 1 rect =>
 *                                     inline, every rect non-empty, band order and tight extents (rq_canon_rects)
 *   post.no_error_logged
 * Leaks / double free: ASan natively, --memory-leak-check under CBMC (the harness calls _fini at the end).
 */
#define VC_HEAP 1
#include <stdlib.h>
#include "rq_prelude.h"

#ifndef VC_RANGE
#define VC_RANGE 0
#endif
#ifndef VC_COAL
#define VC_COAL 0
#endif
/* VC_PART: 0 = every obligation but 5; 1 = only the point-set / shift obligations;
 * 2 = shape: single rect inline, band order, tight extents; 3 = shape: rects non-empty;
 * 4 = shape: empty result uses the static empty data, no error logged;
 * 5 = shape: bands coalesced (with -DVC_COAL=1); 6 = none (only the verifier's built-in
 * arithmetic-overflow / pointer checks on the real code) */
#ifndef VC_PART
#define VC_PART 0
#endif

#define RQ_RMIN ((rq_i64) PIXMAN_REGION_MIN)
#define RQ_RMAX ((rq_i64) PIXMAN_REGION_MAX)

void harness (void)
{
    RQ_BUILD_REGION (VC_COAL);
    VH_IN (vh_i32, in_dx);
    VH_IN (vh_i32, in_dy);
    VH_IN (vh_i64, in_gx);
    VH_IN (vh_i64, in_gy);
    rq_i64 dx = in_dx, dy = in_dy;
    int stays, g_before, g_after, n2, i, ok;
    box_type_t *r2;

    VH_ASSUME (-(1LL << 34) <= in_gx && in_gx <= (1LL << 34) && -(1LL << 34) <= in_gy && in_gy <= (1LL << 34));
    /* the whole region stays representable */
    stays = RQ_RMIN <= rq_orig_ext.x1 + dx && rq_orig_ext.x2 + dx <= RQ_RMAX &&
            RQ_RMIN <= rq_orig_ext.y1 + dy && rq_orig_ext.y2 + dy <= RQ_RMAX;
#if VC_RANGE == 0
    VH_ASSUME (stays);
#elif VC_RANGE == 1
#ifdef VR16
    VH_ASSUME (-(1 << 30) <= in_dx && in_dx <= (1 << 30) && -(1 << 30) <= in_dy && in_dy <= (1 << 30));
#else
    /* 32-bit: region->extents.x1 + x is computed in int; defined only while the sums fit */
    VH_ASSUME (-(1LL << 31) <= rq_orig_ext.x1 + dx && rq_orig_ext.x2 + dx < (1LL << 31) &&
               -(1LL << 31) <= rq_orig_ext.y1 + dy && rq_orig_ext.y2 + dy < (1LL << 31));
#endif
#endif
    g_before = rq_n > 0 && rq_in_rects (rq_orig, rq_n, in_gx, in_gy);

    PREFIX (_translate) (&rq_region, in_dx, in_dy);

    n2 = RQ_CUR_N ();
    r2 = RQ_CUR_RECTS ();
#if VC_PART == 0 || VC_PART == 1
    VH_CHECK ("post.count_not_grown", 0 <= n2 && n2 <= (rq_n > 1 ? rq_n : 1));
    g_after = n2 > 0 && n2 <= RQ_MAXN && rq_in_rects (r2, n2, in_gx + dx, in_gy + dy);
    VH_CHECK ("post.pointset_translated_and_clipped",
              g_after == (g_before && RQ_RMIN <= in_gx + dx && in_gx + dx < RQ_RMAX &&
                                      RQ_RMIN <= in_gy + dy && in_gy + dy < RQ_RMAX));
    if (stays)
    {
        ok = n2 == (rq_n > 1 ? rq_n : (rq_n == 0 ? 0 : 1));
        if (rq_n > 0)
        {
            for (i = 0; i < RQ_MAXN; i++)
                if (ok && i < rq_n &&
                    !(r2[i].x1 == rq_orig[i].x1 + dx && r2[i].x2 == rq_orig[i].x2 + dx &&
                      r2[i].y1 == rq_orig[i].y1 + dy && r2[i].y2 == rq_orig[i].y2 + dy))
                    ok = 0;
            if (!(rq_region.extents.x1 == rq_orig_ext.x1 + dx && rq_region.extents.x2 == rq_orig_ext.x2 + dx &&
                  rq_region.extents.y1 == rq_orig_ext.y1 + dy && rq_region.extents.y2 == rq_orig_ext.y2 + dy))
                ok = 0;
        }
        VH_CHECK ("post.inrange_every_rect_shifted", ok);
    }
#endif
    ok = 1;
    for (i = 0; i < RQ_MAXN; i++)
        if (i < n2 && !RQ_BOX_NONEMPTY (r2[i]))
            ok = 0;
#if VC_PART == 0 || VC_PART == 2
    /* shape obligations that hold on every path */
    VH_CHECK ("post.shape.single_rect_stored_inline", n2 != 1 || rq_region.data == (region_data_type_t *) 0);
    VH_CHECK ("post.shape.banded_order_and_tight_extents",
              n2 < 2 || (n2 <= RQ_MAXN && (!ok || rq_canon_rects (r2, n2, &rq_region.extents, 0))));
#endif
#if VC_PART == 0 || VC_PART == 3
    VH_CHECK ("post.shape.rects_nonempty", ok && (n2 == 0 || RQ_BOX_NONEMPTY (rq_region.extents)));
#endif
#if VC_PART == 0 || VC_PART == 4
    VH_CHECK ("post.shape.empty_result_is_static_empty", n2 != 0 || (rq_region.data == pixman_region_empty_data &&
              rq_region.extents.x1 == rq_region.extents.x2 && rq_region.extents.y1 == rq_region.extents.y2));
    VH_CHECK ("post.no_error_logged", rq_log_errors == 0);
#endif
#if VC_PART == 5
    /* full C06 form: a canonical (coalesced) input gives a coalesced result */
    VH_CHECK ("post.shape.bands_coalesced",
              n2 < 2 || n2 > RQ_MAXN || !ok || !rq_canon_rects (r2, n2, &rq_region.extents, 0) ||
              rq_canon_rects (r2, n2, &rq_region.extents, 1));
#endif
    PREFIX (_fini) (&rq_region);
    VH_END ();
}
