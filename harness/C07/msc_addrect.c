/* C07 (extension msc): contract of bitmap_addrect, the helper init_from_image hands every run to
 * (jobs image_scan.* replace it by a recording stub; this is the other half of that decomposition).
 *
 *   -DVC_N=<0..3>     rectangles already in the region (0: the static empty data init_from_image starts from)
 *   -DVC_SIZE=<k>     size field == capacity of the heap block (VC_N <= k <= 4); VC_SIZE == VC_N: the block is full,
 *                     bitmap_addrect has to grow it through the REAL pixman_rect_alloc / realloc
 *   -DVR16
 * Existing boxes, extents and the new box (rx1,ry1,rx2,ry2) are arbitrary ints/coordinates; allocation failure is
 * injected through vh_alloc.h (in_failmask).  The specification is written from the helper's role ("append the run
 * unless it is empty or lies inside the previous box of the same band; keep extents.x1/x2 a bounding interval"):
 *   addrect.skip_leaves_region_unchanged        empty box, or box inside the last box of the same band: returns r,
 *                                               count/boxes/extents/data pointer unchanged, no allocation
 *   addrect.failure_returns_null_and_breaks     allocation failed <=> NULL returned; region is the broken region
 *   addrect.append.*                            otherwise: count + 1 <= size, old boxes kept, last box == the new
 *                                               one (narrowed to the coordinate type), extents.x1/x2 = min/max with
 *                                               the box, extents.y untouched, *first_rect == first box, returned
 *                                               pointer == new end pointer
 * --pointer-check --bounds-check --memory-leak-check: no access outside the block, nothing leaked.
 */
#include "vh.h"
#include <stdlib.h>
#include "vh_alloc.h"

#ifdef VR16
#include "pixman-region16.c"
#define RQ_COORD vh_i16
#else
#include "pixman-region32.c"
#define RQ_COORD vh_i32
#endif
#include "rq_env.h"

#ifndef VC_N
#define VC_N 0
#endif
#ifndef VC_SIZE
#define VC_SIZE VC_N
#endif
#if VC_N > 3 || VC_SIZE > 4 || VC_SIZE < VC_N
#error "0 <= VC_N <= 3, VC_N <= VC_SIZE <= 4"
#endif

#define MSC_IN2(t, n) VH_IN (t, n)
#define MSC_INC(n) MSC_IN2 (RQ_COORD, n)
#define MSC_IN_RECT(i) \
    MSC_INC (in_r##i##_x1); MSC_INC (in_r##i##_y1); MSC_INC (in_r##i##_x2); MSC_INC (in_r##i##_y2)
#define MSC_SET_RECT(b, i) \
    do { (b).x1 = in_r##i##_x1; (b).y1 = in_r##i##_y1; (b).x2 = in_r##i##_x2; (b).y2 = in_r##i##_y2; } while (0)
#define MSC_BOX_EQ(a, b) ((a).x1 == (b).x1 && (a).y1 == (b).y1 && (a).x2 == (b).x2 && (a).y2 == (b).y2)

void harness (void)
{
    MSC_IN_RECT (0); MSC_IN_RECT (1); MSC_IN_RECT (2);
    MSC_IN_RECT (e);                      /* extents before the call (any values) */
    VH_IN (vh_i32, in_rx1); VH_IN (vh_i32, in_ry1); VH_IN (vh_i32, in_rx2); VH_IN (vh_i32, in_ry2);
    VH_IN (vh_u32, in_failmask);
    region_type_t region;
    box_type_t old[3], ext0, *first_rect, *r, *ret, *now;
    region_data_type_t *data0;
    int i, skip, ok, calls0;

    MSC_SET_RECT (old[0], 0); MSC_SET_RECT (old[1], 1); MSC_SET_RECT (old[2], 2);
    MSC_SET_RECT (ext0, e);
    region.extents = ext0;
#if VC_N == 0
    region.data = pixman_region_empty_data;
#else
    region.data = (region_data_type_t *) malloc (sizeof (region_data_type_t) + VC_SIZE * sizeof (box_type_t));
    VH_ASSUME (region.data != (region_data_type_t *) 0);
    region.data->size = VC_SIZE;
    region.data->numRects = VC_N;
    for (i = 0; i < VC_N; i++)
        PIXREGION_BOXPTR (&region)[i] = old[i];
#endif
    data0 = region.data;
    first_rect = PIXREGION_BOXPTR (&region);
    r = first_rect + VC_N;
    vh_failmask = in_failmask;      /* the harness's own malloc above is not subject to injection: mask applies from here */
    vh_alloc_calls = 0;
    vh_alloc_failed = 0;
    calls0 = vh_alloc_calls;

    ret = bitmap_addrect (&region, r, &first_rect, in_rx1, in_ry1, in_rx2, in_ry2);

    skip = !(in_rx1 < in_rx2 && in_ry1 < in_ry2);
#if VC_N > 0
    if (old[VC_N - 1].y1 == in_ry1 && old[VC_N - 1].y2 == in_ry2 && old[VC_N - 1].x1 <= in_rx1 && old[VC_N - 1].x2 >= in_rx2)
        skip = 1;
#endif
    if (skip)
    {
        ok = 0;
        if (region.data == data0)       /* (a block that was reallocated or freed is not read back) */
        {
            ok = (int) region.data->numRects == VC_N && MSC_BOX_EQ (region.extents, ext0) && ret == r &&
                 first_rect + VC_N == r && vh_alloc_calls == calls0;
            for (i = 0; i < VC_N; i++)
                if (!MSC_BOX_EQ (PIXREGION_BOXPTR (&region)[i], old[i]))
                    ok = 0;
        }
        VH_CHECK ("addrect.skip_leaves_region_unchanged", ok);
    }
    else
    {
        VH_CHECK ("addrect.failure_returns_null_and_breaks",
                  (ret == (box_type_t *) 0) == (vh_alloc_failed != 0) &&
                  (ret != (box_type_t *) 0 || region.data == pixman_broken_data));
        VH_CHECK ("addrect.allocates_only_when_full", VC_N == VC_SIZE || vh_alloc_calls == calls0);
        if (ret != (box_type_t *) 0)
        {
            now = PIXREGION_BOXPTR (&region);
            VH_CHECK ("addrect.append.count_plus_one_within_size",
                      region.data != (region_data_type_t *) 0 && (int) region.data->numRects == VC_N + 1 &&
                      region.data->numRects <= region.data->size);
            VH_CHECK ("addrect.append.first_rect_and_end_pointer", first_rect == now && ret == now + VC_N + 1);
            ok = 1;
            for (i = 0; i < VC_N; i++)
                if (!MSC_BOX_EQ (now[i], old[i]))
                    ok = 0;
            VH_CHECK ("addrect.append.old_boxes_kept", ok);
            VH_CHECK ("addrect.append.last_box_is_the_run",
                      now[VC_N].x1 == (RQ_COORD) in_rx1 && now[VC_N].y1 == (RQ_COORD) in_ry1 &&
                      now[VC_N].x2 == (RQ_COORD) in_rx2 && now[VC_N].y2 == (RQ_COORD) in_ry2);
            VH_CHECK ("addrect.append.extents_x_is_min_max_y_untouched",
                      region.extents.x1 == (now[VC_N].x1 < ext0.x1 ? now[VC_N].x1 : ext0.x1) &&
                      region.extents.x2 == (now[VC_N].x2 > ext0.x2 ? now[VC_N].x2 : ext0.x2) &&
                      region.extents.y1 == ext0.y1 && region.extents.y2 == ext0.y2);
        }
    }
    VH_CHECK ("post.no_error_logged", rq_log_errors == 0);
    PREFIX (_fini) (&region);
    VH_END ();
}
