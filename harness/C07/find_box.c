/* C07 helper contract: find_box_for_y (begin, end, y) returns the first box in
 * [begin,end) whose y2 is greater than y, or end (the function's own comment;
 * this is what contains_point / contains_rectangle rely on).
 * Precondition from the call sites: the boxes are a slice of a banded rect list,
 * i.e. y2 is non-decreasing.
 *   -DVR16 -DVC_NMIN=VC_NMAX=n (n <= RQ_MAXN boxes) -DVC_LO=lo: slice [lo, n)
 *   post.in_range          begin <= ret <= end
 *   post.before_all_le_y   every box before ret has y2 <= y
 *   post.ret_gt_y          ret != end => ret->y2 > y
 */
#include "rq_prelude.h"

void harness (void)
{
    RQ_BUILD_REGION (0);
    VH_IN (vh_i32, in_lo);
    VH_IN (vh_i32, in_y);
    box_type_t *b, *ret;
    int i, idx, ok = 1;

    VH_ASSUME (in_lo == VC_LO && 0 <= in_lo && in_lo <= rq_n);
    b = rq_blk->b;
    ret = find_box_for_y (b + in_lo, b + rq_n, in_y);
    VH_CHECK ("post.in_range", b + in_lo <= ret && ret <= b + rq_n);
    idx = (int) (ret - b);
    for (i = 0; i < RQ_MAXN; i++)
        if (in_lo <= i && i < idx && !(b[i].y2 <= in_y))
            ok = 0;
    VH_CHECK ("post.before_all_le_y", ok);
    VH_CHECK ("post.ret_gt_y", idx >= rq_n || b[idx].y2 > in_y);
    VH_CHECK ("frame.region_unchanged", rq_region_unchanged ());
    VH_END ();
}
