/* C07: not_empty, n_rects, extents, rectangles describe the set.
 *   -DVR16
 * Loop-free functions; the region has ANY rect count: for n >= 2 the header's
 * numRects is an unconstrained input (2 .. 2^20) and the functions must not read
 * the rect array to answer (pointer checks flag any access beyond the block);
 * the first RQ_MAXN rects exist so that `rectangles` can be compared element-wise.
 *   post.not_empty_iff_has_points  not_empty != 0 <=> the set has a point (canonical form: n >= 1)
 *   post.ghost_point_in_set_means_not_empty / _in_extents
 *   post.n_rects_is_count
 *   post.extents_is_tight_bounding_box
 *   post.rectangles_is_the_list    pointer to the n rects (inline rect for n == 1), *n_rects == n
 */
#define VC_NMIN 0
#define VC_NMAX 4
#include "rq_prelude.h"

void harness (void)
{
    RQ_BUILD_REGION (0);
    VH_IN (vh_i32, in_count);      /* claimed rect count of a multi-rect region */
    VH_IN (vh_i32, in_gx);
    VH_IN (vh_i32, in_gy);
    VH_IN (vh_u8, in_want_n);
    int n_model = rq_n, n_out = -7, g_in, i, ok = 1;
    box_type_t *e, *r;

    if (rq_n >= 2)
    {
        /* any count: the listed rects are the first RQ_MAXN of the region's in_count rects */
        VH_ASSUME (rq_n == RQ_MAXN ? (in_count >= RQ_MAXN && in_count <= (1 << 20)) : in_count == rq_n);
        rq_blk->hdr.numRects = in_count;
        rq_blk->hdr.size = in_count;
        n_model = in_count;
    }
    g_in = rq_n > 0 && rq_in_rects (rq_orig, rq_n, in_gx, in_gy);

    VH_CHECK ("post.not_empty_iff_has_points", (PREFIX (_not_empty) (&rq_region) != 0) == (n_model >= 1));
    VH_CHECK ("post.ghost_point_in_set_means_not_empty", !g_in || PREFIX (_not_empty) (&rq_region));
    VH_CHECK ("post.n_rects_is_count", PREFIX (_n_rects) (&rq_region) == n_model);
    e = PREFIX (_extents) (&rq_region);
    VH_CHECK ("post.extents_is_tight_bounding_box", e != 0 && RQ_BOX_EQ (*e, rq_orig_ext));
    VH_CHECK ("post.ghost_point_in_set_means_in_extents", !g_in || (e != 0 && RQ_IN_BOX (*e, in_gx, in_gy)));
    r = PREFIX (_rectangles) (&rq_region, in_want_n ? &n_out : (int *) 0);
    VH_CHECK ("post.rectangles_count", !in_want_n || n_out == n_model);
#ifdef VH_CBMC
    /* the returned pointer must be readable for the listed boxes (a wild pointer is
     * reported here by name instead of through a dereference check inside the harness) */
    ok = rq_n == 0 || __CPROVER_r_ok (r, (rq_n < RQ_MAXN ? rq_n : RQ_MAXN) * sizeof (box_type_t));
    VH_CHECK ("post.rectangles_points_to_readable_boxes", ok);
    if (!ok)
        r = rq_orig; /* do not dereference it below; the obligation above has failed */
#endif
    ok = 1;
    for (i = 0; i < RQ_MAXN; i++)
        if (i < rq_n && !(r != 0 && RQ_BOX_EQ (r[i], rq_orig[i])))
            ok = 0;
    VH_CHECK ("post.rectangles_is_the_list", ok);
    if (rq_n >= 2)
    {
        ok = rq_region.data == &rq_blk->hdr && rq_blk->hdr.numRects == in_count && rq_blk->hdr.size == in_count
             && RQ_BOX_EQ (rq_region.extents, rq_orig_ext);
        for (i = 0; i < RQ_MAXN; i++)
            if (i < rq_n && !RQ_BOX_EQ (rq_blk->b[i], rq_orig[i]))
                ok = 0;
        VH_CHECK ("frame.region_unchanged", ok);
    }
    else
        VH_CHECK ("frame.region_unchanged", rq_region_unchanged ());
    VH_CHECK ("post.no_error_logged", rq_log_errors == 0);
    VH_END ();
}
