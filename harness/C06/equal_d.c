/* C06 route D (lead): PREFIX(_equal) for regions with ANY number of rectangles: enforced function contract on the real
 * pixman-region32.c, the comparison loop closed by a loop invariant (props/C06.py).
 *   requires  both regions well formed in memory: data blocks of numRects boxes (1 <= numRects <= 2^20), distinct objects
 *   ensures   TRUE  ==>  same extents, same count and rectangle g_i of one equals rectangle g_i of the other (ghost index)
 *             (equal must never say TRUE for different rectangle lists; the FALSE direction is the bounded jobs' business)
 *   frame     assigns nothing
 */
#include "vh.h"
#include <stdlib.h>
void _pixman_log_error (const char *f, const char *m) { (void) f; (void) m; }
#include "pixman-region32.c"

int g_i;        /* ghost rectangle index */
long g_n1, g_n2; /* ghost: the rectangle counts (sizes of the two data blocks) */

pixman_bool_t ct_pixman_region32_equal (pixman_region32_t *reg1, pixman_region32_t *reg2)
__CPROVER_requires (__CPROVER_is_fresh (reg1, sizeof (*reg1)) && __CPROVER_is_fresh (reg2, sizeof (*reg2)))
__CPROVER_requires (g_n1 >= 1 && g_n1 <= (1 << 20) && g_n2 >= 1 && g_n2 <= (1 << 20))
__CPROVER_requires (__CPROVER_is_fresh (reg1->data, sizeof (pixman_region32_data_t) + g_n1 * sizeof (pixman_box32_t)))
__CPROVER_requires (__CPROVER_is_fresh (reg2->data, sizeof (pixman_region32_data_t) + g_n2 * sizeof (pixman_box32_t)))
__CPROVER_requires (reg1->data->numRects == g_n1 && reg1->data->size >= g_n1)
__CPROVER_requires (reg2->data->numRects == g_n2 && reg2->data->size >= g_n2)
__CPROVER_requires (0 <= g_i && g_i < reg1->data->numRects)
__CPROVER_assigns ()
__CPROVER_ensures (!__CPROVER_return_value ||
                   (reg1->data->numRects == reg2->data->numRects &&
                    reg1->extents.x1 == reg2->extents.x1 && reg1->extents.y1 == reg2->extents.y1 &&
                    reg1->extents.x2 == reg2->extents.x2 && reg1->extents.y2 == reg2->extents.y2 &&
                    ((pixman_box32_t *) (reg1->data + 1))[g_i].x1 == ((pixman_box32_t *) (reg2->data + 1))[g_i].x1 &&
                    ((pixman_box32_t *) (reg1->data + 1))[g_i].y1 == ((pixman_box32_t *) (reg2->data + 1))[g_i].y1 &&
                    ((pixman_box32_t *) (reg1->data + 1))[g_i].x2 == ((pixman_box32_t *) (reg2->data + 1))[g_i].x2 &&
                    ((pixman_box32_t *) (reg1->data + 1))[g_i].y2 == ((pixman_box32_t *) (reg2->data + 1))[g_i].y2))
;

void harness (void)
{
    pixman_region32_t *a, *b;
    pixman_region32_equal (a, b);
    VH_END ();
}
