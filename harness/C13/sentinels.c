/* C13: gradient_property_changed (pixman-image.c) — the two sentinel stops per repeat mode equal a
 * literal table; the user's stops are not touched; nothing outside the n_stops + 2 entries is accessed.
 *
 *   -DVC_REPEAT=<0 NONE, 1 NORMAL, 2 PAD, 3 REFLECT, 4 = any other value of the field>   -DVC_N=<1..4>
 *   -DVC_RANGE=1  stop positions in [0, 65536] (what the API documents: 0.0 .. 1.0)
 *   -DVC_RANGE=0  arbitrary int32 positions (the property's safety clause: "arbitrary stop lists")
 *
 * Table (pixman-image.c comment in _pixman_init_gradient: "initialized to whatever color would be used
 * for positions outside the range of the stop list"; positions such that the list continues periodically):
 *                 before the first stop                       after the last stop
 *   NONE     x = INT32_MIN, transparent black           x = INT32_MAX, transparent black
 *   PAD      x = INT32_MIN, colour of the first stop    x = INT32_MAX, colour of the last stop
 *   NORMAL   x = last.x - 1.0, colour of the last stop  x = first.x + 1.0, colour of the first stop
 *   REFLECT  x = -first.x, colour of the first stop     x = 2.0 - last.x, colour of the last stop
 *   any other repeat value: as NONE
 */
#include <stdlib.h>
#include <string.h>
#include "vh.h"
#include "pixman-image.c"

#ifndef VC_N
#error "VC_N, VC_REPEAT"
#endif
#ifndef VC_RANGE
#define VC_RANGE 1
#endif
#define N (VC_N)
#define ONE 65536L

#ifdef VH_CBMC
#define VG_IN_ARRAY(type, name, n) type name[n]; do { int i_; for (i_ = 0; i_ < (int) (n); i_++) name[i_] = nondet_##type (); } while (0)
#else
#define VG_IN_ARRAY(type, name, n)                                             \
    type name[n];                                                              \
    do { int i_; char b_[96];                                                  \
         for (i_ = 0; i_ < (int) (n); i_++) {                                  \
             snprintf (b_, sizeof b_, "%s[%d]", #name, i_);                    \
             name[i_] = (type) VH_GET_I (b_); } } while (0)
#endif

static int same_color (const pixman_color_t *c, vh_u64 v)
{
    return c->red == (v & 0xffff) && c->green == ((v >> 16) & 0xffff) && c->blue == ((v >> 32) & 0xffff) && c->alpha == ((v >> 48) & 0xffff);
}

void harness (void)
{
    VG_IN_ARRAY (vh_i32, in_x, N);
    VG_IN_ARRAY (vh_u64, in_col, N);
    VH_IN (vh_u32, in_repeat);
    VH_IN (vh_u64, in_junk);
    static pixman_image_t img;
    pixman_gradient_stop_t *blk;
    long e0, e1;
    vh_u64 c0, c1;
    int i;

    VH_CHECK ("spec.repeat_codes", PIXMAN_REPEAT_NONE == 0 && PIXMAN_REPEAT_NORMAL == 1 && PIXMAN_REPEAT_PAD == 2 && PIXMAN_REPEAT_REFLECT == 3);
#if VC_REPEAT <= 3
    VH_ASSUME (in_repeat == VC_REPEAT);
#else
    VH_ASSUME (in_repeat > 3);
#endif
    blk = malloc ((N + 2) * sizeof (pixman_gradient_stop_t));     /* exactly the block of _pixman_init_gradient */
    if (!blk)
        return;
    memset (&img, 0, sizeof img);
    img.type = LINEAR;
    img.common.repeat = (pixman_repeat_t) in_repeat;
    img.gradient.n_stops = N;
    img.gradient.stops = blk + 1;
    for (i = 0; i < N + 2; i++)
    {
        vh_u64 v = (i >= 1 && i <= N) ? in_col[i - 1] : in_junk;
        blk[i].x = (i >= 1 && i <= N) ? in_x[i - 1] : (vh_i32) in_junk;
        blk[i].color.red = v & 0xffff;
        blk[i].color.green = (v >> 16) & 0xffff;
        blk[i].color.blue = (v >> 32) & 0xffff;
        blk[i].color.alpha = (v >> 48) & 0xffff;
    }
#if VC_RANGE
    for (i = 0; i < N; i++)
        VH_ASSUME (in_x[i] >= 0 && in_x[i] <= ONE);
#endif

    gradient_property_changed (&img);

#if VC_REPEAT == 1
    e0 = (long) in_x[N - 1] - ONE; c0 = in_col[N - 1];
    e1 = (long) in_x[0] + ONE;     c1 = in_col[0];
#elif VC_REPEAT == 3
    e0 = -(long) in_x[0];            c0 = in_col[0];
    e1 = 2 * ONE - in_x[N - 1];      c1 = in_col[N - 1];
#elif VC_REPEAT == 2
    e0 = -2147483647L - 1;           c0 = in_col[0];
    e1 = 2147483647L;                c1 = in_col[N - 1];
#else
    e0 = -2147483647L - 1;           c0 = 0;
    e1 = 2147483647L;                c1 = 0;
#endif
#if VC_RANGE      /* with arbitrary positions the table value may not fit int32: only safety is asked then */
    VH_CHECK ("sentinel.before.position", (long) blk[0].x == e0);
    VH_CHECK ("sentinel.after.position", (long) blk[N + 1].x == e1);
#endif
    VH_CHECK ("sentinel.before.colour", same_color (&blk[0].color, c0));
    VH_CHECK ("sentinel.after.colour", same_color (&blk[N + 1].color, c1));
    for (i = 0; i < N; i++)
        VH_CHECK ("sentinel.user_stops_untouched", blk[1 + i].x == in_x[i] && same_color (&blk[1 + i].color, in_col[i]));
    free (blk);
    VH_END ();
}
