/* C13 (extension grd, part C): radial_get_scanline / radial_write_color (pixman-radial-gradient.c) — the parameter
 * handed to the gradient walker solves the two-circle equation, is the LARGER admissible root, and a pixel without
 * admissible root is transparent.
 *
 * The REAL pixman_image_create_radial_gradient builds the image (derived fields a, inva, mindr, delta) and the REAL
 * radial_get_scanline_narrow runs; only _pixman_gradient_walker_write_narrow is intercepted (function-like renaming
 * while pixman-radial-gradient.c is read) by a stub recording the 48.16 parameter of each pixel.
 *
 * Spec (property text + PDF 32000-1 8.7.4.5.4): circles (c1, r1), (c2, r2); p = transformed pixel centre / W;
 *      cd = c2 - c1, pd = p - c1, dr = r2 - r1,   A = cd.cd - dr^2,  B = pd.cd + r1 dr,  C = pd.pd - r1^2
 *      t is a root of  A t^2 - 2 B t + C = 0  (A == 0: t = C / (2 B)),  admissible iff r1 + t dr >= 0 (and 0 <= t <= 1
 *      under REPEAT_NONE); the larger admissible root is used; none => transparent black.
 * Checked with tolerances (never syntactically), all evaluated in double in the harness, sqrt-free:
 *   radial.t_solves_two_circle_equation      |A t^2 - 2 B t + C| <= 2^-15 (2 |A t - B| + |A|) + 2 |t| eB + eC + 1e-9
 *        (t is truncated to 1/65536: first term; eB, eC = effect of the 16.16 rounding of the transformed point,
 *         e = 2^-16 (1 + |px| + |py|) / |W|,  eB = e (|cdx| + |cdy|),  eC = 2 e (|pdx| + |pdy|) + e^2)
 *   radial.t_is_admissible                   r1 + t dr >= -(2^-10);  NONE: 0 <= t_code <= 65536 exactly
 *   radial.t_is_the_larger_admissible_root   the other root t' = 2B/A - t is not both > t + 2^-10 and clearly
 *                                            admissible (margins 2^-10 inside the admissible set)
 *   radial.transparent_only_without_admissible_root   pixel left transparent => no clearly admissible root exists:
 *        decided sqrt-free by the sign pattern of q(t) = A t^2 - 2 B t + C on the clearly-admissible interval
 *        (a root exists in [lo, hi] iff q(lo) q(hi) <= 0, or the vertex B/A lies inside with q(vertex) A <= 0).
 *   radial.unwritten_pixel_is_transparent    a pixel not handed to the walker is 0.
 *
 * Domain = GRID (bounded): -DVC_GEOM selects the concrete circle pair, -DVC_REPEAT 0 (NONE) or 2 (PAD, standing for
 * every extended mode: radial_write_color only distinguishes NONE), -DVC_MODE 0 no transform | 1 affine (m22 == 1: the
 * exact forward-differencing path, width <= 2) | 2 general (m22 in {2, 0.5} or projective: per-pixel double path, width 1);
 * pixel and matrix entries nondeterministic from the candidate tables below.
 */
#include <stdlib.h>
#include <string.h>
#include "vh.h"
#ifdef HAVE_CONFIG_H
#include <config.h>
#endif
#include "pixman-private.h"

#define GRD_MAXW 2
static pixman_fixed_48_16_t grd_t[GRD_MAXW];
static int grd_seen[GRD_MAXW];
static uint32_t *grd_base;
static int grd_stray;

static void grd_rec_write_narrow (pixman_gradient_walker_t *walker, pixman_fixed_48_16_t x, uint32_t *buffer)
{
    long i = buffer - grd_base;
    (void) walker;
    if (i < 0 || i >= GRD_MAXW) { grd_stray = 1; return; }
    grd_t[i] = x;
    grd_seen[i]++;
    *buffer = 0xff000000u | (uint32_t) i;
}
static void grd_rec_write_wide (pixman_gradient_walker_t *walker, pixman_fixed_48_16_t x, uint32_t *buffer)
{
    (void) walker; (void) x; (void) buffer;
    grd_stray = 1;
}
#define _pixman_gradient_walker_write_narrow grd_rec_write_narrow
#define _pixman_gradient_walker_write_wide   grd_rec_write_wide
#include "pixman-radial-gradient.c"
#undef _pixman_gradient_walker_write_narrow
#undef _pixman_gradient_walker_write_wide

#ifndef VC_MODE
#error "VC_MODE, VC_GEOM, VC_REPEAT"
#endif

#define FX(d) ((pixman_fixed_t) ((d) * 65536.0))
#if VC_GEOM == 0          /* concentric, r1 = 0: A < 0 */
#define C1X 0.0
#define C1Y 0.0
#define R1  0.0
#define C2X 0.0
#define C2Y 0.0
#define R2  8.0
#elif VC_GEOM == 1        /* separate circles, cone: A > 0, two positive roots possible, pixels without root */
#define C1X 0.0
#define C1Y 0.0
#define R1  4.0
#define C2X 10.0
#define C2Y 0.0
#define R2  1.0
#elif VC_GEOM == 2        /* focal point on the outer circle: |cd| == |dr|, A == 0 (degenerate, linear equation) */
#define C1X 4.0
#define C1Y 0.0
#define R1  0.0
#define C2X 0.0
#define C2Y 0.0
#define R2  4.0
#elif VC_GEOM == 3        /* general containing circles: A < 0 */
#define C1X 1.0
#define C1Y 1.0
#define R1  1.0
#define C2X 3.0
#define C2Y 2.0
#define R2  6.0
#else                     /* internally tangent with r1 > 0: A == 0, dr < 0 */
#define C1X 0.0
#define C1Y 0.0
#define R1  5.0
#define C2X 3.0
#define C2Y 0.0
#define R2  2.0
#endif

static const pixman_fixed_t tab_diag[3] = { FX (1.0), FX (0.5), FX (-1.5) };
static const pixman_fixed_t tab_off[2]  = { 0, FX (0.25) };
static const pixman_fixed_t tab_tr[3]   = { 0, FX (3.0), FX (-2.5) };
static const pixman_fixed_t tab_w[2]    = { FX (2.0), FX (0.5) };
static const pixman_fixed_t tab_pj[3]   = { 0, FX (1.0 / 64), FX (-1.0 / 128) };
static const int tab_xy[6] = { 0, -7, 5, 2, -3, 9 };

static double gd_abs (double d) { return d < 0 ? -d : d; }

#define MARGIN (1.0 / 1024)
/* q has a root inside the closed interval [lo, hi] (lo <= hi); sqrt-free */
static int root_in (double A, double B, double C, double lo, double hi)
{
    double qlo = (A * lo - 2 * B) * lo + C, qhi = (A * hi - 2 * B) * hi + C;
    if ((qlo <= 0 && qhi >= 0) || (qlo >= 0 && qhi <= 0))
        return 1;
    if (A != 0)
    {
        /* vertex v = B / A inside (lo, hi) <=> lo A < B < hi A (A > 0) resp. reversed; q(v) = C - B^2 / A;
         * root iff q(v) and q(lo) have opposite signs:  (C A - B^2) / A  vs  qlo */
        int inside = A > 0 ? (lo * A < B && B < hi * A) : (lo * A > B && B > hi * A);
        double qvA = C * A - B * B;                         /* q(v) * A */
        int qv_nonpos = A > 0 ? qvA <= 0 : qvA >= 0;
        int qv_nonneg = A > 0 ? qvA >= 0 : qvA <= 0;
        if (inside && ((qv_nonpos && qlo >= 0) || (qv_nonneg && qlo <= 0)))
            return 1;
    }
    return 0;
}

void harness (void)
{
    VH_IN (vh_u8, in_m00); VH_IN (vh_u8, in_m01); VH_IN (vh_u8, in_m02);
    VH_IN (vh_u8, in_m10); VH_IN (vh_u8, in_m11); VH_IN (vh_u8, in_m12);
    VH_IN (vh_u8, in_m20); VH_IN (vh_u8, in_m21); VH_IN (vh_u8, in_m22);
    VH_IN (vh_u8, in_xi); VH_IN (vh_u8, in_yi); VH_IN (vh_u8, in_width);
    pixman_image_t *img;
    static pixman_transform_t tr;
    pixman_gradient_stop_t stops[2];
    pixman_point_fixed_t inner, outer;
    uint32_t buf[GRD_MAXW + 1];
    pixman_iter_t it;
    uint32_t *r;
    int i, x, y;
    double m[3][3];
    const double cdx = C2X - C1X, cdy = C2Y - C1Y, dr = R2 - R1;
    const double A = cdx * cdx + cdy * cdy - dr * dr;

    VH_ASSUME (in_m00 < 3 && in_m01 < 2 && in_m02 < 3 && in_m10 < 2 && in_m11 < 3 && in_m12 < 3);
    VH_ASSUME (in_m20 < 3 && in_m21 < 3 && in_m22 < 2 && in_xi < 6 && in_yi < 6);
#if VC_MODE == 1
    VH_ASSUME (in_width >= 1 && in_width <= GRD_MAXW);
#else
    VH_ASSUME (in_width == 1);
#endif
#ifdef VC_SMALL   /* quick tier: sub-grid */
    VH_ASSUME (in_xi < 3 && in_yi < 3 && in_width == 1);
#endif
    x = tab_xy[in_xi];
    y = tab_xy[in_yi];

    memset (stops, 0, sizeof stops);
    stops[0].x = 0;      stops[0].color.red = 0xffff;  stops[0].color.alpha = 0xffff;
    stops[1].x = 65536;  stops[1].color.blue = 0xffff; stops[1].color.alpha = 0x8000;
    inner.x = FX (C1X); inner.y = FX (C1Y); outer.x = FX (C2X); outer.y = FX (C2Y);
    img = pixman_image_create_radial_gradient (&inner, &outer, FX (R1), FX (R2), stops, 2);
    if (!img)
        return;
    img->common.repeat = (pixman_repeat_t) (VC_REPEAT);

    tr.matrix[0][0] = FX (1.0); tr.matrix[0][1] = 0; tr.matrix[0][2] = 0;
    tr.matrix[1][0] = 0; tr.matrix[1][1] = FX (1.0); tr.matrix[1][2] = 0;
    tr.matrix[2][0] = 0; tr.matrix[2][1] = 0; tr.matrix[2][2] = FX (1.0);
#if VC_MODE != 0
    tr.matrix[0][0] = tab_diag[in_m00]; tr.matrix[0][1] = tab_off[in_m01];  tr.matrix[0][2] = tab_tr[in_m02];
    tr.matrix[1][0] = tab_off[in_m10];  tr.matrix[1][1] = tab_diag[in_m11]; tr.matrix[1][2] = tab_tr[in_m12];
#if VC_MODE == 2
    tr.matrix[2][0] = tab_pj[in_m20];   tr.matrix[2][1] = tab_pj[in_m21];
    tr.matrix[2][2] = tab_w[in_m22];
#endif
    img->common.transform = &tr;
#endif
    for (i = 0; i <= GRD_MAXW; i++)
        buf[i] = 0x12345678;
    memset (&it, 0, sizeof it);
    it.image = img; it.buffer = buf; it.x = x; it.y = y; it.width = in_width; it.height = 1;
    grd_base = buf;

    r = radial_get_scanline_narrow (&it, 0);

    VH_CHECK ("rec.returns_buffer", r == buf);
    VH_CHECK ("rec.no_write_outside_scanline", !grd_stray && buf[GRD_MAXW] == 0x12345678);
    for (i = 0; i < GRD_MAXW; i++)
    {
        VH_CHECK ("rec.at_most_one_parameter_per_pixel", grd_seen[i] <= (i < in_width ? 1 : 0));
        if (i < in_width && grd_seen[i] == 0)
            VH_CHECK ("radial.unwritten_pixel_is_transparent", buf[i] == 0);
    }

    {
        int a, b;
        for (a = 0; a < 3; a++)
            for (b = 0; b < 3; b++)
                m[a][b] = tr.matrix[a][b] / 65536.0;
    }
    for (i = 0; i < GRD_MAXW; i++)
        if (i < in_width)
        {
            double cx = x + i + 0.5, cy = y + 0.5;
            double X = m[0][0] * cx + m[0][1] * cy + m[0][2];
            double Y = m[1][0] * cx + m[1][1] * cy + m[1][2];
            double W = m[2][0] * cx + m[2][1] * cy + m[2][2];
            if (gd_abs (W) >= 1.0 / 16)
            {
                double px = X / W, py = Y / W;
                double pdx = px - C1X, pdy = py - C1Y;
                double B = pdx * cdx + pdy * cdy + R1 * dr;
                double C = pdx * pdx + pdy * pdy - R1 * R1;
                double e = (1 + gd_abs (px) + gd_abs (py)) / (65536.0 * gd_abs (W));
                double eB = e * (gd_abs (cdx) + gd_abs (cdy)), eC = 2 * e * (gd_abs (pdx) + gd_abs (pdy)) + e * e;
                if (grd_seen[i] == 1)
                {
                    double t = (double) grd_t[i] / 65536.0;
                    double res = (A * t - 2 * B) * t + C;
                    double tol = (2 * gd_abs (A * t - B) + gd_abs (A)) / 32768.0 + 2 * gd_abs (t) * eB + eC + 1e-9;
                    VH_CHECK ("radial.t_solves_two_circle_equation", gd_abs (res) <= tol);
                    VH_CHECK ("radial.t_is_admissible", R1 + t * dr >= -MARGIN
                              && (VC_REPEAT != 0 || (grd_t[i] >= 0 && grd_t[i] <= 65536)));
                    if (A != 0)
                    {
                        double t2 = 2 * B / A - t;          /* the other root */
                        int adm2 = R1 + t2 * dr >= MARGIN * (1 + gd_abs (dr)) && (VC_REPEAT != 0 || (t2 >= MARGIN && t2 <= 1 - MARGIN));
                        VH_CHECK ("radial.t_is_the_larger_admissible_root", !(t2 > t + MARGIN && adm2));
                    }
                }
                else
                {
                    /* clearly-admissible interval [lo, hi] of t, with margins; extended modes: r1 + t dr >= margin,
                     * cut at +-2^14 (t is a 48.16 number; every grid root is far inside) */
                    double lo = -16384.0, hi = 16384.0;
                    int exists;
                    if (VC_REPEAT == 0) { lo = MARGIN; hi = 1 - MARGIN; }
                    if (dr > 0)      { double q = (MARGIN * (1 + dr) - R1) / dr; if (q > lo) lo = q; }
                    else if (dr < 0) { double q = (MARGIN * (1 - dr) - R1) / dr; if (q < hi) hi = q; }
                    else if (R1 < MARGIN) hi = lo - 1;
                    /* widen the equation by the input-rounding effect: a root must be robust, i.e. q changes sign by
                     * more than the error bound; we only claim "transparent => no ROBUST admissible root" */
                    exists = lo <= hi && (root_in (A, B, C + (eC + 1e-6), lo, hi) && root_in (A, B, C - (eC + 1e-6), lo, hi)
                                          && root_in (A, B + eB, C, lo, hi) && root_in (A, B - eB, C, lo, hi));
                    VH_CHECK ("radial.transparent_only_without_admissible_root", !exists);
                }
            }
        }
    free (img->gradient.stops - 1);
    free (img);
    VH_END ();
}
