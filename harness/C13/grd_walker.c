/* C13 (extension grd, part A): the gradient walker's pixel functions under contract, for ANY cached state.
 *
 *   pixman_gradient_walker_pixel_32 / pixman_gradient_walker_pixel_float (pixman-gradient-walker.c), with their
 *   helper gradient_walker_reset, on the stop block that the real gradient_property_changed (pixman-image.c) fills.
 *
 *   -DVC_REPEAT=<0 NONE 1 NORMAL 2 PAD 3 REFLECT>  -DVC_N=<2|3 stops>  -DVC_WIDE=<0 pixel_32 | 1 pixel_float>
 *   -DVC_PART=0  "segment" (integers only): stop positions any non-decreasing values in [0,1.0], colours arbitrary,
 *                parameter any 48.16 value |t| < 2^47.
 *   -DVC_PART=1  "colour", channel -DVC_CH=<0 alpha 1 red 2 green 3 blue>: GRID domain (bounded): stop positions
 *                multiples of 1/4 (non-decreasing, repeated positions included), alpha and the channel of every stop
 *                in {0, 0x8000, 0xffff} (-DVC_GRID=5: {0, 0x4000, 0x8000, 0xc000, 0xffff}), parameter t a multiple of
 *                1/8 in [VC_TMIN, VC_TMAX] = [-1.0, 2.0] (every stop position exactly, and the points between; a
 *                negative, a forward and a mirrored period).  -DVC_FRESH: fresh walker only.  -DVC_X0= -DVC_X1=: the two
 *                stop positions concrete (quick tier).
 *
 * "Any history": the walker is either fresh (_pixman_gradient_walker_init: need_reset) or in the state left by the
 * REAL gradient_walker_reset at an arbitrary earlier parameter in_pos0 (in_hist), so the cached-segment test of the
 * pixel function is exercised with every reachable cache content, in particular t == cached right_x / left_x.
 *
 * Postconditions (spec_grd.h items 2-4, from the property text):
 *   seg.*     after the call the cached segment is a pair of neighbouring entries of the stop table around the folded
 *             parameter u, carried back to t; half-open E[k-1] <= u < E[k] in the forward periods (a parameter on a
 *             stop position takes the segment to its right).  In the mirrored (odd) periods of REFLECT the interval is
 *             only required closed, E[k-1] <= u <= E[k]: there "right of t" is "left of u", the property does not say
 *             which of the two colours of a hard stop its mirror image takes, and the answer of the code depends on
 *             the cached state (observation, reported in META_EXTRA).
 *   colour.*  the value returned equals premultiply (c(u)) within one 8-bit step, c = linear interpolation of the
 *             two neighbouring stops in non-premultiplied space.  The specification value is an exact fraction of
 *             integers (grid units 1/8), compared by cross-multiplication: no floating point on the spec side.
 */
#include <stdlib.h>
#include <string.h>
#include "vh.h"
#include "pixman-image.c"
#include "pixman-gradient-walker.c"
#include "spec_grd.h"

#ifndef VC_N
#error "VC_N, VC_REPEAT, VC_WIDE, VC_PART"
#endif
#ifndef VC_CH
#define VC_CH 0
#endif
#ifndef VC_GRID
#define VC_GRID 3           /* colour grid of the colour jobs: 3 = {0, 0x8000, 0xffff}, 5 = {0, 0x4000, 0x8000, 0xc000, 0xffff} */
#endif
#ifndef VC_TMIN
#define VC_TMIN (-1)        /* parameter range of the colour jobs, in whole periods */
#define VC_TMAX 2
#endif
#define N (VC_N)
#define GU 0x2000L          /* grid unit of the colour jobs: 1/8 */

#ifdef VH_CBMC
#define VG_IN_ARRAY(type, name, n) type name[n]; do { int i_; for (i_ = 0; i_ < (int) (n); i_++) name[i_] = nondet_##type (); } while (0)
#else
#define VG_IN_ARRAY(type, name, n)                                             \
    type name[n];                                                              \
    do { int i_; char b_[96];                                                  \
         for (i_ = 0; i_ < (int) (n); i_++) {                                  \
             snprintf (b_, sizeof b_, "%s[%d]", #name, i_);                    \
             name[i_] = (type) VH_GET_I (b_); } } while (0)
#endif

static long sg_labs (long d) { return d < 0 ? -d : d; }

void harness (void)
{
    VG_IN_ARRAY (vh_i32, in_x, N);        /* stop positions */
    VG_IN_ARRAY (vh_u16, in_a, N);        /* alpha of each stop */
    VG_IN_ARRAY (vh_u16, in_c, N);        /* the colour channel under check (PART 1), all colour channels (PART 0) */
    VH_IN (vh_i64, in_pos0);              /* history: earlier parameter */
    VH_IN (vh_u8, in_hist);               /* 0 fresh, 1 reset at in_pos0 before */
    VH_IN (vh_i64, in_pos);               /* the parameter */
    static pixman_image_t img;
    pixman_gradient_stop_t *blk;
    pixman_gradient_walker_t w;
    long E[N + 2], A[N + 2], V[N + 2], u, pos = in_pos, flo, fhi;
    int i, k, ks, mirrored = 0, pair = 0;

#ifdef VC_X0     /* quick tier: the two stop positions concrete per query (N == 2) */
    in_x[0] = VC_X0; in_x[1] = VC_X1;
#endif
    VH_CHECK ("spec.repeat_codes", PIXMAN_REPEAT_NONE == 0 && PIXMAN_REPEAT_NORMAL == 1 && PIXMAN_REPEAT_PAD == 2 && PIXMAN_REPEAT_REFLECT == 3);
    VH_ASSUME (in_hist <= 1);
#ifdef VC_FRESH
    VH_ASSUME (in_hist == 0);
#endif
    VH_ASSUME (in_x[0] >= 0 && in_x[N - 1] <= SG_ONE);
    for (i = 1; i < N; i++)
        VH_ASSUME (in_x[i - 1] <= in_x[i]);
#if VC_PART == 0
    VH_ASSUME (pos > -(1L << 47) && pos < (1L << 47));
    VH_ASSUME (in_pos0 > -(1L << 47) && in_pos0 < (1L << 47));
#else
    /* the grid (bound of the colour jobs) */
    for (i = 0; i < N; i++)
    {
        VH_ASSUME ((in_x[i] & 0x3fff) == 0);
#if VC_GRID == 5
        VH_ASSUME (in_a[i] == 0 || in_a[i] == 0x4000 || in_a[i] == 0x8000 || in_a[i] == 0xc000 || in_a[i] == 0xffff);
        VH_ASSUME (in_c[i] == 0 || in_c[i] == 0x4000 || in_c[i] == 0x8000 || in_c[i] == 0xc000 || in_c[i] == 0xffff);
#else
        VH_ASSUME (in_a[i] == 0 || in_a[i] == 0x8000 || in_a[i] == 0xffff);
        VH_ASSUME (in_c[i] == 0 || in_c[i] == 0x8000 || in_c[i] == 0xffff);
#endif
    }
    VH_ASSUME (pos >= VC_TMIN * SG_ONE && pos <= VC_TMAX * SG_ONE && (pos & (GU - 1)) == 0);
    VH_ASSUME (in_pos0 >= VC_TMIN * SG_ONE && in_pos0 <= VC_TMAX * SG_ONE && (in_pos0 & (GU - 1)) == 0);
#endif

    /* the layout of _pixman_init_gradient: a block of exactly n_stops + 2 entries, stops = block + 1 */
    blk = malloc ((N + 2) * sizeof (pixman_gradient_stop_t));
    if (!blk)
        return;
    memset (&img, 0, sizeof img);
    img.type = LINEAR;
    img.common.repeat = VC_REPEAT;
    img.gradient.n_stops = N;
    img.gradient.stops = blk + 1;
    for (i = 0; i < N; i++)
    {
        blk[1 + i].x = in_x[i];
        blk[1 + i].color.alpha = in_a[i];
        blk[1 + i].color.red = VC_CH == 1 || VC_PART == 0 ? in_c[i] : 0x1234;
        blk[1 + i].color.green = VC_CH == 2 || VC_PART == 0 ? in_c[i] : 0xabcd;
        blk[1 + i].color.blue = VC_CH == 3 || VC_PART == 0 ? in_c[i] : 0x8001;
    }
    gradient_property_changed (&img);               /* the real sentinel writer */

    _pixman_gradient_walker_init (&w, &img.gradient, VC_REPEAT);
    if (in_hist == 1)
        gradient_walker_reset (&w, in_pos0);

    /* ---------------- the call ---------------- */
#if VC_WIDE
    argb_t out = pixman_gradient_walker_pixel_float (&w, pos);
#else
    uint32_t out = pixman_gradient_walker_pixel_32 (&w, pos);
#endif

    /* ---------------- specification ---------------- */
    for (i = 0; i < N; i++)
    {
        E[1 + i] = in_x[i];
        A[1 + i] = in_a[i];
        V[1 + i] = in_c[i];
    }
    sg_sentinel_positions (VC_REPEAT, E, N);
    sg_sentinel_channel (VC_REPEAT, A, N);
    sg_sentinel_channel (VC_REPEAT, V, N);
    u = sg_fold (VC_REPEAT, pos, &mirrored);
    /* the segment of u: unique k with E[k-1] <= u < E[k];  N + 2 = none (spec_grd.h item 3) */
    ks = N + 2;
    for (k = N + 1; k >= 1; k--)
        if (E[k - 1] <= u && u < E[k])
            ks = k;

#if VC_PART == 0
    VH_CHECK ("seg.walker_is_valid_after_the_call", w.need_reset == FALSE);
    /* the cached interval, carried to the folded axis */
    if (!mirrored) { flo = w.left_x - (pos - u);  fhi = w.right_x - (pos - u); }
    else           { flo = u - (w.right_x - pos); fhi = u + (pos - w.left_x); }
    for (k = 1; k <= N + 1; k++)
        if (flo == E[k - 1] && fhi == E[k])
            pair = 1;
#if VC_REPEAT == 0 || VC_REPEAT == 2
    if (pos >= SG_I32_MIN && pos < SG_I32_MAX)       /* beyond the +-2^31 sentinels no entry brackets t */
#endif
    {
        VH_CHECK ("seg.cached_segment_is_a_neighbouring_stop_pair", pair);
        if (!mirrored)
        {
            VH_CHECK ("seg.half_open_segment_contains_folded_parameter", flo <= u && u < fhi);
            VH_CHECK ("seg.cached_interval_brackets_parameter", w.left_x <= pos && pos < w.right_x);
            VH_CHECK ("seg.is_the_segment_of_the_colour_function", ks <= N + 1 && flo == E[ks - 1] && fhi == E[ks]);
        }
        else
        {
            VH_CHECK ("seg.mirrored_closed_segment_contains_folded_parameter", flo <= u && u <= fhi);
            if (in_hist == 0 && ks <= N + 1)
                VH_CHECK ("seg.mirrored_fresh_walker_takes_the_half_open_segment", flo == E[ks - 1] && fhi == E[ks]);
        }
    }
#else
    {
        /* positions in grid units (exact on the grid; the +-2^31 sentinels are never used as numbers) */
        long Eg[N + 2], ug = u / GU;
        unsigned na, da, nc, dc, g, dd;
        unsigned long D, lhs, rhs, scale, tol;
        int check = 1, spec_ok = 1, bad = 0;
        for (k = 0; k <= N + 1; k++)
            Eg[k] = (E[k] == SG_I32_MIN || E[k] == SG_I32_MAX) ? E[k] : E[k] / GU;
        sg_channel_at (VC_REPEAT, Eg, A, N, ks, ug, &na, &da, &spec_ok);           /* alpha   = na / da / 65535 */
#if VC_CH == 0
        nc = 65535; dc = 1;
#else
        sg_channel_at (VC_REPEAT, Eg, V, N, ks, ug, &nc, &dc, &spec_ok);           /* channel = nc / dc / 65535, non-premultiplied */
#endif
        VH_CHECK ("spec.grid_weights_fit", spec_ok);
        /* premultiplied result as a fraction of `scale`:  want = scale * na * nc / (da * dc * 65535^2) */
#if VC_WIDE
        {
            float f = VC_CH == 0 ? out.a : VC_CH == 1 ? out.r : VC_CH == 2 ? out.g : out.b;
            /* (the float walker returns values one ulp above 1.0 for opaque stops: inside the tolerance, so no
             * "in [0,1]" obligation; NaN / infinity / far-off values fail) */
            if (f >= 0.0f && f <= 1.5f)
                g = (unsigned) (f * 65536.0f) & 0x1ffff;                  /* exact scaling, truncated: < 1/65536 off */
            else if (f < 0.0f && f >= -1.0f / 255.0f)
                g = 0;
            else
                { g = 0; bad = 1; }
            scale = 65536;
            tol = 259;                                                     /* 65536/255 = 257.003.. plus 1 for the truncation of g */
        }
#else
        g = (out >> (VC_CH == 0 ? 24 : VC_CH == 1 ? 16 : VC_CH == 2 ? 8 : 0)) & 0xff;
        scale = 255;
        tol = 1;                                                           /* one 8-bit step */
#endif
        /* |g - want| <= tol   <=>   |g * D - scale * na * nc| <= tol * D,   D = da * dc * 65535^2 */
        dd = da * dc;                                                      /* < 2^12 */
        D = (unsigned long) dd * 4294836225UL;                             /* 65535^2 */
        lhs = (unsigned long) (g * dd) * 4294836225UL;                     /* g * dd < 2^29 */
        rhs = scale * ((unsigned long) na * (unsigned long) nc);           /* na, nc < 2^22 */
        /* mirrored periods with a cached walker: at the mirror image of a stop position the walker may hold either
         * closed neighbour segment of u (see seg.*); elsewhere the two coincide */
        if (mirrored && in_hist != 0)
            for (k = 0; k <= N + 1; k++)
                if (E[k] == u)
                    check = 0;
        if (check)
            VH_CHECK ("colour.premultiplied_interpolation_of_neighbouring_stops_within_one_step",
                      !bad && (lhs >= rhs ? lhs - rhs : rhs - lhs) <= tol * D);
#if !VC_WIDE
        if (VC_CH == 0)
            VH_CHECK ("colour.premultiplied_channels_do_not_exceed_alpha",
                      ((out >> 16) & 0xff) <= (out >> 24) && ((out >> 8) & 0xff) <= (out >> 24) && (out & 0xff) <= (out >> 24));
#endif
    }
#endif
    free (blk);
    VH_END ();
}
