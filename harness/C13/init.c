/* C13: _pixman_init_gradient (pixman-image.c) — the stop array the walker relies on.
 *
 *   -DVC_CASE=0  1 <= n_stops <= 4 (bounded copy): one allocation of exactly (n_stops + 2) entries;
 *                failure => FALSE, nothing leaked, gradient untouched; success => stops points at entry 1
 *                of the block, holds a copy of the caller's stops, n_stops stored, property_changed hook set
 *   -DVC_CASE=1  n_stops <= 0: FALSE, no allocation, gradient untouched
 *   -DVC_CASE=2  n_stops so large that (n_stops + 2) * sizeof (stop) does not fit: FALSE, nothing leaked
 */
#include <stdlib.h>
#include <string.h>
#include "vh.h"
#include "vh_alloc.h"
#include "pixman-image.c"
#include "pixman-utils.c"

#define NMAX 4

#ifdef VH_CBMC
#define VG_IN_ARRAY(type, name, n) type name[n]; do { int i_; for (i_ = 0; i_ < (int) (n); i_++) name[i_] = nondet_##type (); } while (0)
#else
#define VG_IN_ARRAY(type, name, n)                                             \
    type name[n];                                                              \
    do { int i_; char b_[96];                                                  \
         for (i_ = 0; i_ < (int) (n); i_++) {                                  \
             snprintf (b_, sizeof b_, "%s[%d]", #name, i_);                    \
             name[i_] = (type) VH_GET_I (b_); } } while (0)
#endif

void harness (void)
{
    VG_IN_ARRAY (vh_i32, in_x, NMAX);
    VG_IN_ARRAY (vh_u16, in_c, NMAX);
    VH_IN (vh_i32, in_n);
    VH_IN (vh_u32, in_failmask);
    static pixman_image_t img;
    static pixman_gradient_stop_t junk;
    pixman_gradient_stop_t user[NMAX];
    pixman_bool_t r;
    int i;

    for (i = 0; i < NMAX; i++)
    {
        user[i].x = in_x[i];
        user[i].color.red = in_c[i]; user[i].color.green = in_c[i] ^ 0x5555; user[i].color.blue = ~in_c[i]; user[i].color.alpha = in_c[i] >> 1;
    }
    memset (&img, 0, sizeof img);
    img.type = LINEAR;
    img.gradient.stops = &junk;
    img.gradient.n_stops = -7;
#if VC_CASE == 0
    VH_ASSUME (in_n >= 1 && in_n <= NMAX);
#elif VC_CASE == 1
    VH_ASSUME (in_n <= 0);
#else
    VH_ASSUME (in_n >= 2147483647 / (int) sizeof (pixman_gradient_stop_t) - 2 && in_n <= 2147483647 - 2);
#endif
    vh_failmask = in_failmask;

    r = _pixman_init_gradient (&img.gradient, user, in_n);

#if VC_CASE == 0
    VH_CHECK ("init.one_allocation", vh_alloc_calls == 1);
    if (vh_alloc_failed)
    {
        VH_CHECK ("init.allocation_failure_returns_FALSE", r == FALSE);
    }
    else
    {
        VH_CHECK ("init.returns_TRUE", r == TRUE);
        if (r)
        {
            pixman_gradient_stop_t *s = img.gradient.stops;
            VH_CHECK ("init.n_stops_stored", img.gradient.n_stops == in_n);
            VH_CHECK ("init.property_changed_hook_set", img.common.property_changed == gradient_property_changed);
#ifdef VH_CBMC
            VH_CHECK ("init.block_has_n_stops_plus_2_entries_and_stops_is_entry_1",
                      __CPROVER_OBJECT_SIZE (s) == (size_t) (in_n + 2) * sizeof (pixman_gradient_stop_t)
                      && __CPROVER_POINTER_OFFSET (s) == sizeof (pixman_gradient_stop_t));
#endif
            for (i = 0; i < NMAX; i++)
                if (i < in_n)
                    VH_CHECK ("init.stops_copied", s[i].x == user[i].x && s[i].color.red == user[i].color.red
                              && s[i].color.green == user[i].color.green && s[i].color.blue == user[i].color.blue
                              && s[i].color.alpha == user[i].color.alpha);
            s[-1].x = 1;            /* both sentinels are writable (pointer checks / ASan) */
            s[in_n].x = 2;
            (free) (s - 1);         /* as _pixman_image_fini does */
        }
    }
#else
    VH_CHECK ("init.rejected_returns_FALSE", r == FALSE);
#if VC_CASE == 1
    VH_CHECK ("init.rejected_without_allocation", vh_alloc_calls == 0);
#endif
#endif
    if (!r)
        VH_CHECK ("init.failure_leaves_no_block_behind",
                  (img.gradient.stops == &junk || img.gradient.stops == 0) && vh_alloc_calls - vh_alloc_failed == 0);
    VH_END ();
}
