/* C13 (safety): linear_get_scanline_narrow (pixman-linear-gradient.c) on a DEGENERATE gradient:
 * coincident end points p1 == p2 (fixed at (3.5, -2.0): with a symbolic point the float code of both
 * branches stays symbolic and the query does not finish in 300 s), no transform, any pixel position,
 * width 0..2, repeat mode -DVC_REPEAT (one per query), two fixed stops (0.0 red, 1.0 blue).  Fixed degenerate case, labelled bounded.
 * Obligations: terminates within width iterations (unwinding assertions), every access inside the
 * scanline buffer and the stop block (pointer checks / ASan), no division by zero, no out-of-range
 * double -> integer conversion (cbmc --conversion-check on the real lines), word after the
 * scanline unchanged, iter->y advanced by one, buffer returned.
 */
#include <stdlib.h>
#include <string.h>
#include "vh.h"
#include "pixman-image.c"
#include "pixman-gradient-walker.c"
#include "pixman-linear-gradient.c"

#define WMAX 2
void harness (void)
{
    VH_IN (vh_i32, in_px); VH_IN (vh_i32, in_py);
    VH_IN (vh_i16, in_x); VH_IN (vh_i16, in_y);
    VH_IN (vh_u8, in_width); VH_IN (vh_u8, in_repeat);
    static pixman_image_t img;
    static pixman_gradient_stop_t blk[4];
    uint32_t buf[WMAX + 1];
    pixman_iter_t it;
    uint32_t *r;
    int i;

    VH_ASSUME (in_width <= WMAX && in_repeat == VC_REPEAT && in_px == 0x38000 && in_py == -0x20000);
    /* non-negative pixel position: --conversion-check cannot be limited to double -> int conversions and
     * would flag the (well-defined) unsigned casts of pixman_int_to_fixed for negative x, y */
    VH_ASSUME (in_x >= 0 && in_y >= 0);
    memset (&img, 0, sizeof img);
    img.type = LINEAR;
    img.common.repeat = (pixman_repeat_t) (VC_REPEAT);
    img.common.transform = 0;
    img.gradient.n_stops = 2;
    img.gradient.stops = blk + 1;
    blk[1].x = 0;      blk[1].color.red = 0xffff; blk[1].color.alpha = 0xffff;
    blk[2].x = 65536;  blk[2].color.blue = 0xffff; blk[2].color.alpha = 0x8000;
    gradient_property_changed (&img);
    img.linear.p1.x = 0x38000; img.linear.p1.y = -0x20000;
    img.linear.p2.x = 0x38000; img.linear.p2.y = -0x20000;          /* coincident */
    for (i = 0; i <= WMAX; i++)
        buf[i] = 0x12345678;
    memset (&it, 0, sizeof it);
    it.image = &img; it.buffer = buf; it.x = in_x; it.y = in_y; it.width = in_width; it.height = 1;

    r = linear_get_scanline_narrow (&it, 0);

    VH_CHECK ("scanline.returns_buffer", r == buf);
    VH_CHECK ("scanline.row_advanced", it.y == in_y + 1);
    for (i = 0; i <= WMAX; i++)
        if (i >= in_width)
            VH_CHECK ("scanline.words_beyond_width_unchanged", buf[i] == 0x12345678);
    if (in_width == 2)
        VH_CHECK ("scanline.degenerate_gradient_is_constant", buf[0] == buf[1]);
    VH_END ();
}
