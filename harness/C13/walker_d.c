/* C13 route D (lead): gradient_walker_reset "never reads outside the stop array" for ANY number of stops.
 * Function contract enforced by goto-instrument --dfcc on the real pixman-gradient-walker.c; the stop-search loop is
 * closed by a loop invariant (props/C13.py), not unrolled.
 *   requires  the array holds num_stops + 2 entries (sentinel, stops, sentinel) and walker->stops points at entry 1
 *             (what _pixman_init_gradient lays out), 1 <= num_stops <= 2^20, any positions, colours, repeat, pos
 *   obligations: every dereference of stops[n-1] / stops[n] inside the object (cbmc pointer checks under dfcc),
 *             assigns only *walker, termination (decreases), stops array unchanged at a ghost index
 */
#include "pixman-gradient-walker.c"
#include "vh.h"

pixman_gradient_stop_t *g_base;   /* ghost: first entry of the n+2 block */
int g_k;                           /* ghost index into the block */

void ct_gradient_walker_reset (pixman_gradient_walker_t *walker, pixman_fixed_48_16_t pos)
__CPROVER_requires (__CPROVER_is_fresh (walker, sizeof (*walker)))
__CPROVER_requires (walker->num_stops >= 1 && walker->num_stops <= (1 << 20))
__CPROVER_requires (__CPROVER_is_fresh (g_base, (walker->num_stops + 2) * sizeof (pixman_gradient_stop_t)))
__CPROVER_requires (walker->stops == g_base + 1)
__CPROVER_requires (0 <= g_k && g_k < walker->num_stops + 2)
__CPROVER_assigns (__CPROVER_object_whole (walker))
__CPROVER_ensures (g_base[g_k].x == __CPROVER_old (g_base[g_k].x))
__CPROVER_ensures (walker->stops == g_base + 1)
;

void harness (void)
{
    pixman_gradient_walker_t *w;
    pixman_fixed_48_16_t pos;
    gradient_walker_reset (w, pos);
    VH_END ();
}
