/* C13 (extension grd, part B2): linear_gradient_is_horizontal (pixman-linear-gradient.c) — the predicate that lets
 * _pixman_linear_gradient_iter_init render ONE scanline and reuse it for every row of the iterated box.
 *
 * Spec (from the property: every pixel gets the colour of ITS parameter t = projection of the transformed pixel
 * centre onto p1-p2): reusing row y for the rows y .. y + height - 1 is sound only if t does not depend on the row, to
 * the resolution of the parameter (1/65536).  For an affine transform M (last row 0 0 w) one row step changes t by
 *        dt = ((p2 - p1) . (m01, m11)) / (w |p2 - p1|^2),
 * so:    returns TRUE   ==>   | height * 65536 * dt | < 1      (less than one unit of the 16.16 parameter over the box)
 * evaluated in double in the harness, division-free, with a relative tolerance of 1e-6 (never syntactic equality):
 *        | height * 65536 * (dx m01 + dy m11) |  <=  (1 + 1e-6) | w | |d|^2 .
 * Nothing is demanded when the predicate says FALSE (it is only an optimisation).  Projective transforms and
 * coincident points: TRUE would claim row-independence that does not hold in general / is meaningless: must be FALSE.
 *
 * Domain = GRID (bounded): p2 - p1 from 5 candidates (horizontal, vertical, oblique), p1 fixed non-origin, the four
 * linear matrix entries independently from {1, 0.5, -1.5, 0} x {0, 0.5, -0.5, 0.25} (so asymmetric shears m01 != m10 and
 * rotations are included), w in {1, 2, 0.5}, last row affine or projective, height in {1, 4, 100}, with or without transform.
 */
#include <stdlib.h>
#include <string.h>
#include "vh.h"
#include "pixman-linear-gradient.c"

#define FX(d) ((pixman_fixed_t) ((d) * 65536.0))
static const pixman_fixed_t tab_diag[4] = { FX (1.0), FX (0.5), FX (-1.5), 0 };
static const pixman_fixed_t tab_off[4]  = { 0, FX (0.5), FX (-0.5), FX (0.25) };
static const pixman_fixed_t tab_w[3]    = { FX (1.0), FX (2.0), FX (0.5) };
static const pixman_fixed_t tab_pj[2]   = { 0, FX (1.0 / 64) };
static const pixman_fixed_t tab_dx[5]   = { FX (64.0), 0,        FX (3.0),  FX (8.0), 0 };
static const pixman_fixed_t tab_dy[5]   = { 0,         FX (4.5), FX (-5.0), FX (0.0), 0 };
static const int tab_h[3] = { 1, 4, 100 };

static double gd_abs (double d) { return d < 0 ? -d : d; }

void harness (void)
{
    VH_IN (vh_u8, in_m00); VH_IN (vh_u8, in_m01); VH_IN (vh_u8, in_m10); VH_IN (vh_u8, in_m11);
    VH_IN (vh_u8, in_m20); VH_IN (vh_u8, in_m21); VH_IN (vh_u8, in_m22);
    VH_IN (vh_u8, in_d); VH_IN (vh_u8, in_h); VH_IN (vh_u8, in_notransform);
    static pixman_image_t img;
    static pixman_transform_t tr;
    pixman_bool_t r;
    double m01, m11, w, dx, dy, l;
    int height, projective;

    VH_ASSUME (in_m00 < 4 && in_m01 < 4 && in_m10 < 4 && in_m11 < 4 && in_m20 < 2 && in_m21 < 2 && in_m22 < 3);
    VH_ASSUME (in_d < 5 && in_h < 3 && in_notransform < 2);
    height = tab_h[in_h];

    memset (&img, 0, sizeof img);
    img.type = LINEAR;
    img.linear.p1.x = FX (2.0);               img.linear.p1.y = FX (-1.5);
    img.linear.p2.x = FX (2.0) + tab_dx[in_d]; img.linear.p2.y = FX (-1.5) + tab_dy[in_d];
    tr.matrix[0][0] = tab_diag[in_m00]; tr.matrix[0][1] = tab_off[in_m01];  tr.matrix[0][2] = FX (3.0);
    tr.matrix[1][0] = tab_off[in_m10];  tr.matrix[1][1] = tab_diag[in_m11]; tr.matrix[1][2] = FX (-7.5);
    tr.matrix[2][0] = tab_pj[in_m20];   tr.matrix[2][1] = tab_pj[in_m21];   tr.matrix[2][2] = tab_w[in_m22];
    img.common.transform = in_notransform ? (pixman_transform_t *) 0 : &tr;

    r = linear_gradient_is_horizontal (&img, 0, 0, 16, height);

    if (in_notransform) { m01 = 0.0; m11 = 1.0; w = 1.0; projective = 0; }
    else
    {
        m01 = tr.matrix[0][1] / 65536.0; m11 = tr.matrix[1][1] / 65536.0; w = tr.matrix[2][2] / 65536.0;
        projective = tr.matrix[2][0] != 0 || tr.matrix[2][1] != 0;
    }
    dx = tab_dx[in_d] / 65536.0; dy = tab_dy[in_d] / 65536.0;
    l = dx * dx + dy * dy;

    VH_CHECK ("horizontal.result_is_boolean", r == TRUE || r == FALSE);
    if (r)
    {
        VH_CHECK ("horizontal.never_for_projective_transform_or_coincident_points", !projective && l != 0);
        if (!projective)
            VH_CHECK ("horizontal.true_only_if_parameter_is_row_independent_over_the_box",
                      gd_abs (height * 65536.0 * (dx * m01 + dy * m11)) <= (1 + 1e-6) * gd_abs (w) * l);
    }
    VH_END ();
}
