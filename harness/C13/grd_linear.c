/* C13 (extension grd, part B): linear_get_scanline (pixman-linear-gradient.c) — the parameter handed to the gradient
 * walker for each pixel is the projection of the transformed pixel centre onto p1-p2.
 *
 * The REAL linear_get_scanline_narrow runs (with the real _pixman_gradient_walker_init and the real
 * pixman_transform_point_3d linked from the tree); only the walker's write/fill entry points are intercepted, by
 * function-like renaming while pixman-linear-gradient.c is read (as harness/C05/rh.h does for pixman_op): the
 * recording stubs note the 48.16 parameter t for every pixel of the scanline.  If the source stops using these
 * entry points the stubs are not called and rec.every_pixel_written_once fails to hold -> compile error or
 * obligation, never a silent pass.
 *
 * Spec (property text): "the gradient parameter t (projection onto p1-p2)" at "each pixel centre, mapped through the
 * image transform":   (X, Y, W) = M * (x + i + 1/2, y + 1/2, 1),  p = (X / W, Y / W),
 *                      t = ((p - p1) . (p2 - p1)) / |p2 - p1|^2,
 * evaluated in double in the harness and compared with a TOLERANCE (never by syntactic equality):
 *      |t_code - 65536 t| <= 4 + ((1 + |px|) |dx| + (1 + |py|) |dy|) / (|W| |d|^2)      [units of 1/65536]
 * Justification: pixman transforms points in 16.16 (each of X, Y, W is rounded to 1/65536, |error| <= 2^-17), which
 * moves p by at most 2^-17 (1 + |p|) / |W| per coordinate and t by that times |d_x| + |d_y| over |d|^2, i.e.
 * 0.5 * (...) / (|W| |d|^2) units; twice that is allowed, plus 4 units for the double -> integer truncations of t
 * and of the per-pixel increment and the rounding of the double operations.
 *
 * Domain = GRID (bounded): -DVC_MODE=0 no transform | 1 affine (last row 0 0 w) | 2 projective;  -DVC_GEOM=<0..3>
 * selects (p1, p2) (concrete per query); every matrix entry, x, y is chosen nondeterministically from the small
 * candidate tables below; width 1..3 (-DVC_SMALL: the sub-grid stated at its VH_ASSUME).  W == 0 (singular) pixels are outside the spec (no t is defined).
 */
#include <stdlib.h>
#include <string.h>
#include "vh.h"
#ifdef HAVE_CONFIG_H
#include <config.h>
#endif
#include "pixman-private.h"

#define GRD_MAXW 3
static pixman_fixed_48_16_t grd_t[GRD_MAXW];
static int grd_seen[GRD_MAXW];
static uint32_t *grd_base;
static int grd_stray;

static void grd_note (pixman_fixed_48_16_t x, uint32_t *buffer)
{
    long i = buffer - grd_base;
    if (i < 0 || i >= GRD_MAXW) { grd_stray = 1; return; }
    grd_t[i] = x;
    grd_seen[i]++;
    *buffer = 0xff000000u | (uint32_t) i;
}
static void grd_rec_write_narrow (pixman_gradient_walker_t *walker, pixman_fixed_48_16_t x, uint32_t *buffer)
{
    (void) walker;
    grd_note (x, buffer);
}
static void grd_rec_fill_narrow (pixman_gradient_walker_t *walker, pixman_fixed_48_16_t x, uint32_t *buffer, uint32_t *end)
{
    (void) walker;
    while (buffer < end)
        grd_note (x, buffer++);
}
static void grd_rec_write_wide (pixman_gradient_walker_t *walker, pixman_fixed_48_16_t x, uint32_t *buffer)
{
    (void) walker; (void) x; (void) buffer;
    grd_stray = 1;                      /* the narrow scanline function must not use the wide writer */
}
static void grd_rec_fill_wide (pixman_gradient_walker_t *walker, pixman_fixed_48_16_t x, uint32_t *buffer, uint32_t *end)
{
    (void) walker; (void) x; (void) buffer; (void) end;
    grd_stray = 1;
}
#define _pixman_gradient_walker_write_narrow grd_rec_write_narrow
#define _pixman_gradient_walker_fill_narrow  grd_rec_fill_narrow
#define _pixman_gradient_walker_write_wide   grd_rec_write_wide
#define _pixman_gradient_walker_fill_wide    grd_rec_fill_wide
#include "pixman-linear-gradient.c"
#undef _pixman_gradient_walker_write_narrow
#undef _pixman_gradient_walker_fill_narrow
#undef _pixman_gradient_walker_write_wide
#undef _pixman_gradient_walker_fill_wide

#ifndef VC_MODE
#error "VC_MODE, VC_GEOM"
#endif

#define FX(d) ((pixman_fixed_t) ((d) * 65536.0))
/* (p1, p2 - p1) per VC_GEOM: a non-origin p1 in three of four */
#if VC_GEOM == 0
#define P1X FX (0.0)
#define P1Y FX (0.0)
#define DX  FX (8.0)
#define DY  FX (0.0)
#elif VC_GEOM == 1
#define P1X FX (3.5)
#define P1Y FX (-2.0)
#define DX  FX (8.0)
#define DY  FX (0.0)
#elif VC_GEOM == 2
#define P1X FX (-1.25)
#define P1Y FX (4.0)
#define DX  FX (3.0)
#define DY  FX (-5.0)
#else
#define P1X FX (2.0)
#define P1Y FX (1.5)
#define DX  FX (0.0)
#define DY  FX (4.5)
#endif

static const pixman_fixed_t tab_diag[3] = { FX (1.0), FX (0.5), FX (-1.5) };     /* m00, m11 */
static const pixman_fixed_t tab_off[3]  = { 0, FX (0.25), FX (-0.5) };           /* m01, m10 */
static const pixman_fixed_t tab_tr[3]   = { 0, FX (3.0), FX (-7.5) };            /* m02, m12 */
static const pixman_fixed_t tab_w[3]    = { FX (1.0), FX (2.0), FX (0.5) };      /* m22 */
static const pixman_fixed_t tab_pj[3]   = { FX (1.0 / 64), FX (-1.0 / 128), 0 }; /* m20, m21 (projective) */
static const int tab_xy[4] = { 0, -7, 5, 12 };

static double gd_abs (double d) { return d < 0 ? -d : d; }

void harness (void)
{
    VH_IN (vh_u8, in_m00); VH_IN (vh_u8, in_m01); VH_IN (vh_u8, in_m02);
    VH_IN (vh_u8, in_m10); VH_IN (vh_u8, in_m11); VH_IN (vh_u8, in_m12);
    VH_IN (vh_u8, in_m20); VH_IN (vh_u8, in_m21); VH_IN (vh_u8, in_m22);
    VH_IN (vh_u8, in_xi); VH_IN (vh_u8, in_yi); VH_IN (vh_u8, in_width);
    static pixman_image_t img;
    static pixman_gradient_stop_t blk[4];
    static pixman_transform_t tr;
    uint32_t buf[GRD_MAXW + 1];
    pixman_iter_t it;
    uint32_t *r;
    int i, x, y;
    double m[3][3], p1x, p1y, dx, dy, l;

    VH_ASSUME (in_m00 < 3 && in_m01 < 3 && in_m02 < 3 && in_m10 < 3 && in_m11 < 3 && in_m12 < 3);
    VH_ASSUME (in_m20 < 3 && in_m21 < 3 && in_m22 < 3 && in_xi < 4 && in_yi < 4);
    VH_ASSUME (in_width >= 1 && in_width <= GRD_MAXW);
#ifdef VC_SMALL   /* quick tier: sub-grid (one non-zero off-diagonal / translation value, 2 values elsewhere, width <= 2) */
    VH_ASSUME (in_m00 == 1 && in_m11 < 2 && in_m01 == 1 && in_m10 == 2 && in_m02 == 1 && in_m12 == 2 && in_xi < 2 && in_yi >= 2 && in_width <= 2);
#endif
    x = tab_xy[in_xi];
    y = tab_xy[in_yi];

    memset (&img, 0, sizeof img);
    img.type = LINEAR;
    img.common.repeat = PIXMAN_REPEAT_PAD;
    img.gradient.n_stops = 2;
    img.gradient.stops = blk + 1;
    blk[0].x = -2147483647 - 1; blk[3].x = 2147483647;
    blk[1].x = 0;      blk[1].color.red = 0xffff;  blk[1].color.alpha = 0xffff;
    blk[2].x = 65536;  blk[2].color.blue = 0xffff; blk[2].color.alpha = 0x8000;
    img.linear.p1.x = P1X;      img.linear.p1.y = P1Y;
    img.linear.p2.x = P1X + DX; img.linear.p2.y = P1Y + DY;
#if VC_MODE == 0
    img.common.transform = 0;
    tr.matrix[0][0] = FX (1.0); tr.matrix[0][1] = 0; tr.matrix[0][2] = 0;
    tr.matrix[1][0] = 0; tr.matrix[1][1] = FX (1.0); tr.matrix[1][2] = 0;
    tr.matrix[2][0] = 0; tr.matrix[2][1] = 0; tr.matrix[2][2] = FX (1.0);
#else
    tr.matrix[0][0] = tab_diag[in_m00]; tr.matrix[0][1] = tab_off[in_m01];  tr.matrix[0][2] = tab_tr[in_m02];
    tr.matrix[1][0] = tab_off[in_m10];  tr.matrix[1][1] = tab_diag[in_m11]; tr.matrix[1][2] = tab_tr[in_m12];
#if VC_MODE == 1
    tr.matrix[2][0] = 0;                tr.matrix[2][1] = 0;
#else
    tr.matrix[2][0] = tab_pj[in_m20];   tr.matrix[2][1] = tab_pj[in_m21];
    VH_ASSUME (in_m20 < 2);             /* a genuinely projective last row */
#endif
    tr.matrix[2][2] = tab_w[in_m22];
    img.common.transform = &tr;
#endif
    for (i = 0; i <= GRD_MAXW; i++)
        buf[i] = 0x12345678;
    memset (&it, 0, sizeof it);
    it.image = &img; it.buffer = buf; it.x = x; it.y = y; it.width = in_width; it.height = 1;
    grd_base = buf;

    r = linear_get_scanline_narrow (&it, 0);

    VH_CHECK ("rec.returns_buffer", r == buf);
    VH_CHECK ("rec.no_write_outside_scanline", !grd_stray && buf[GRD_MAXW] == 0x12345678);
    for (i = 0; i < GRD_MAXW; i++)
        VH_CHECK ("rec.every_pixel_written_once", grd_seen[i] == (i < in_width ? 1 : 0));

    /* ---- specification, in double ---- */
    {
        int a, b;
        for (a = 0; a < 3; a++)
            for (b = 0; b < 3; b++)
                m[a][b] = tr.matrix[a][b] / 65536.0;
    }
    p1x = P1X / 65536.0; p1y = P1Y / 65536.0; dx = DX / 65536.0; dy = DY / 65536.0;
    l = dx * dx + dy * dy;
    for (i = 0; i < GRD_MAXW; i++)
        if (i < in_width && grd_seen[i] == 1)
        {
            double cx = x + i + 0.5, cy = y + 0.5;
            double X = m[0][0] * cx + m[0][1] * cy + m[0][2];
            double Y = m[1][0] * cx + m[1][1] * cy + m[1][2];
            double W = m[2][0] * cx + m[2][1] * cy + m[2][2];
            if (gd_abs (W) >= 1.0 / 1024)               /* W == 0: no t defined; tiny W: tolerance meaningless */
            {
                /* t = ((X/W - p1x) dx + (Y/W - p1y) dy) / l  and the tolerance, both multiplied through by |W| l
                 * (division-free: symbolic double division is what makes these queries slow):
                 *     | t_code W l - 65536 ((X - p1x W) dx + (Y - p1y W) dy) |  <=  tol |W| l
                 *     tol |W| l = 4 |W| l + (|W| + |X|) |dx| + (|W| + |Y|) |dy|                          */
                double num = (X - p1x * W) * dx + (Y - p1y * W) * dy;
                double aw = gd_abs (W);
                double bound = 4.0 * aw * l + (aw + gd_abs (X)) * gd_abs (dx) + (aw + gd_abs (Y)) * gd_abs (dy);
                VH_CHECK ("linear.t_is_projection_of_transformed_pixel_centre_onto_p1_p2",
                          gd_abs ((double) grd_t[i] * W * l - 65536.0 * num) <= bound);
            }
        }
    VH_END ();
}
