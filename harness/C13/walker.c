/* C13 (integer / safety half): stop lookup of the gradient walker on the stop array that
 * _pixman_init_gradient lays out (n_stops + 2 entries: sentinel, user stops, sentinel) and
 * gradient_property_changed fills.
 *
 *   -DVC_REPEAT=<0 NONE, 1 NORMAL, 2 PAD, 3 REFLECT>   -DVC_N=<number of stops, 1..4>   (one case per query)
 *   -DVC_SORTED=1  stop positions non-decreasing in [0, 65536] (the colour claim's domain):
 *                  sentinel table, bracketing, folding and the REFLECT swap are obligations
 *   -DVC_SORTED=0  arbitrary stop positions ("unsorted, equal ... never read outside the stop array"):
 *                  only memory safety (cbmc pointer checks on stops[n-1] / stops[n], ASan natively);
 *                  the sentinels are then written by the harness (the real gradient_property_changed
 *                  is the subject of the sorted jobs and of sentinels.c)
 *
 * Both real functions run: gradient_property_changed (pixman-image.c) writes the sentinels, then
 * _pixman_gradient_walker_init + gradient_walker_reset (pixman-gradient-walker.c) locate pos.
 *
 * Spec (written from the property text, integers only).  E[-1..n] = sentinel, stops, sentinel:
 *     NONE, PAD : E[-1] = INT32_MIN                 E[n] = INT32_MAX            u = pos
 *     NORMAL    : E[-1] = last - 1.0                E[n] = first + 1.0          u = pos mod 1.0
 *     REFLECT   : E[-1] = -first                    E[n] = 2.0 - last           u = pos mod 2.0, mirrored at 1.0
 *   The located interval is a pair of NEIGHBOURING entries (k-1, k) with E[k-1] <= u <= E[k], carried
 *   back to pos: [left_x, right_x] = [pos - (u - E[k-1]), pos + (E[k] - u)], mirrored (ends swapped)
 *   on the odd periods of REFLECT.  left_x <= pos < right_x; when mirrored left_x <= pos <= right_x
 *   (closed: at pos == odd * 1.0 with a last stop at 1.0 the interval is the single point pos).
 */
#include <stdlib.h>
#include <string.h>
#include "vh.h"
#include "pixman-image.c"
#include "pixman-gradient-walker.c"

#ifndef VC_N
#error "VC_N, VC_REPEAT"
#endif
#ifndef VC_SORTED
#define VC_SORTED 1
#endif
#define N (VC_N)
#define ONE 65536L

#ifdef VH_CBMC
#define VG_IN_I32_ARRAY(name, n) vh_i32 name[n]; do { int i_; for (i_ = 0; i_ < (int) (n); i_++) name[i_] = nondet_vh_i32 (); } while (0)
#else
#define VG_IN_I32_ARRAY(name, n)                                               \
    vh_i32 name[n];                                                            \
    do { int i_; char b_[96];                                                  \
         for (i_ = 0; i_ < (int) (n); i_++) {                                  \
             snprintf (b_, sizeof b_, "%s[%d]", #name, i_);                    \
             name[i_] = (vh_i32) VH_GET_I (b_); } } while (0)
#endif

void harness (void)
{
    VG_IN_I32_ARRAY (in_x, N);
    VG_IN_I32_ARRAY (in_col, N);
    VH_IN (vh_i64, in_pos);
    static pixman_image_t img;
    pixman_gradient_stop_t *blk;
    pixman_gradient_walker_t w;
    long E[N + 2], u, pos = in_pos;
    int i, k, mirrored = 0, found = 0;

    VH_CHECK ("spec.repeat_codes", PIXMAN_REPEAT_NONE == 0 && PIXMAN_REPEAT_NORMAL == 1 && PIXMAN_REPEAT_PAD == 2 && PIXMAN_REPEAT_REFLECT == 3);
    /* the layout of _pixman_init_gradient: a block of exactly n_stops + 2 entries, stops = block + 1 */
    blk = malloc ((N + 2) * sizeof (pixman_gradient_stop_t));
    if (!blk)
        return;
    memset (&img, 0, sizeof img);
    img.type = LINEAR;
    img.common.repeat = VC_REPEAT;
    img.gradient.n_stops = N;
    img.gradient.stops = blk + 1;
    for (i = 0; i < N; i++)
    {
        blk[1 + i].x = in_x[i];
        blk[1 + i].color.red = in_col[i] & 0xffff;
        blk[1 + i].color.green = (in_col[i] >> 16) & 0xffff;
        blk[1 + i].color.blue = in_col[i] & 0xff00;
        blk[1 + i].color.alpha = (in_col[i] >> 8) & 0xffff;
    }
    /* 48.16 parameter; beyond this the code's own `pos - x` arithmetic is the limit */
    VH_ASSUME (pos > -(1L << 47) && pos < (1L << 47));
#if VC_SORTED
    VH_ASSUME (in_x[0] >= 0 && in_x[N - 1] <= ONE);
    for (i = 1; i < N; i++)
        VH_ASSUME (in_x[i - 1] <= in_x[i]);

    gradient_property_changed (&img);

    /* ---- sentinel table (literal, per repeat mode) ---- */
    for (i = 0; i < N; i++)
        E[1 + i] = in_x[i];
#if VC_REPEAT == 1
    E[0] = in_x[N - 1] - ONE;
    E[N + 1] = in_x[0] + ONE;
#elif VC_REPEAT == 3
    E[0] = -(long) in_x[0];
    E[N + 1] = 2 * ONE - in_x[N - 1];
#else
    E[0] = -2147483647L - 1;
    E[N + 1] = 2147483647L;
#endif
    VH_CHECK ("sentinel.positions_as_table", blk[0].x == E[0] && blk[N + 1].x == E[N + 1]);
    for (i = 0; i < N; i++)
        VH_CHECK ("sentinel.user_stops_untouched", blk[1 + i].x == in_x[i]);
#else
    blk[0].x = -2147483647 - 1;
    blk[N + 1].x = 2147483647;
    memset (&blk[0].color, 0, sizeof (pixman_color_t));
    memset (&blk[N + 1].color, 0, sizeof (pixman_color_t));
#endif

    _pixman_gradient_walker_init (&w, &img.gradient, VC_REPEAT);
    gradient_walker_reset (&w, pos);

    VH_CHECK ("reset.flag_cleared", w.need_reset == FALSE);
#if VC_SORTED
    /* ---- folding ---- */
#if VC_REPEAT == 1
    u = ((pos % ONE) + ONE) % ONE;
#elif VC_REPEAT == 3
    u = ((pos % (2 * ONE)) + 2 * ONE) % (2 * ONE);
    if (u >= ONE) { u = 2 * ONE - u; mirrored = 1; }
#else
    u = pos;
#endif
    /* ---- the interval is a pair of neighbouring entries around u, carried back to pos ---- */
    for (k = 1; k <= N + 1; k++)
    {
        long lo = E[k - 1], hi = E[k];
        if (lo <= u && u <= hi)
        {
            if (!mirrored && w.left_x == pos - (u - lo) && w.right_x == pos + (hi - u))
                found = 1;
            if (mirrored && w.left_x == pos - (hi - u) && w.right_x == pos + (u - lo))
                found = 1;
        }
    }
#if VC_REPEAT == 0 || VC_REPEAT == 2
    if (pos >= -2147483647L - 1 && pos < 2147483647L)
#endif
    {
        VH_CHECK ("lookup.interval_is_a_neighbouring_stop_pair_around_folded_pos", found);
        if (!mirrored)
            VH_CHECK ("lookup.brackets_pos", w.left_x <= pos && pos < w.right_x);
        else
            VH_CHECK ("lookup.brackets_pos_mirrored", w.left_x <= pos && pos <= w.right_x);
    }
#endif
    free (blk);
    VH_END ();
}
