/* C02 (1): _pixman_implementation_lookup_composite (real pixman-implementation.c, route H).
 *
 * "Dispatch is a function of the request, not of history": for ANY content of the 8-slot
 * thread-local cache that satisfies the data-structure invariant
 *     cache_ok:  every slot with func != NULL holds, for its exact key, the FIRST matching
 *                fast-path entry of the chain (toplevel -> fallback ..., table order inside)
 * and ANY request (op, 3 formats, 3 flag words), the function returns exactly the first
 * matching entry in chain order, leaves cache_ok established (inductive: any history),
 * and writes nothing but the cache and the two out-parameters.
 *
 *   -DVC_NI=<implementations in the chain, 2|3>   -DVC_T=<symbolic entries per table, <=3>
 *   -DVC_CASE=<-1..7>  case split on the first cache slot holding exactly this request (-1: none)
 * Table k = VC_T fully symbolic entries (+ for the last implementation one more entry that is
 * either the catch-all {OP_any, any,0, any,0, any,0} or absent, chosen by in_catchall) + the
 * PIXMAN_OP_NONE terminator; a symbolic entry may itself be a terminator (shorter table).
 * Entry functions are drawn from 4 distinct stub routines.
 *
 * The matching rule is written here from the documented semantics (formats: equal or `any';
 * op: equal or `any'; flags: every required flag present), independently of the code.
 */
#include "pixman-implementation.c"
#include "vh.h"
#include "c02.h"

#ifndef VC_NI
#define VC_NI 3
#endif
#ifndef VC_T
#define VC_T 3
#endif
#define VC_TT (VC_T + 2) /* symbolic entries, optional catch-all, terminator */

static int vc_log_calls;
void _pixman_log_error (const char *function, const char *message) { vc_log_calls++; }

static void vc_f0 (pixman_implementation_t *imp, pixman_composite_info_t *info) { }
static void vc_f1 (pixman_implementation_t *imp, pixman_composite_info_t *info) { }
static void vc_f2 (pixman_implementation_t *imp, pixman_composite_info_t *info) { }
static void vc_f3 (pixman_implementation_t *imp, pixman_composite_info_t *info) { }
static pixman_composite_func_t vc_funcs[4] = { vc_f0, vc_f1, vc_f2, vc_f3 };

static pixman_implementation_t vc_imps[VC_NI];
static pixman_fast_path_t vc_tab[VC_NI][VC_TT];

typedef struct { uint32_t op, sf, sfl, mf, mfl, df, dfl; } vc_req_t;

/* the documented matching rule */
#define VC_MATCH(e, q)                                                                   \
    (((uint32_t) (e)->op == (q).op || (e)->op == PIXMAN_OP_any) &&                           \
     ((uint32_t) (e)->src_format == (q).sf || (e)->src_format == PIXMAN_any) &&              \
     ((uint32_t) (e)->mask_format == (q).mf || (e)->mask_format == PIXMAN_any) &&            \
     ((uint32_t) (e)->dest_format == (q).df || (e)->dest_format == PIXMAN_any) &&            \
     ((e)->src_flags & ~(q).sfl) == 0 && ((e)->mask_flags & ~(q).mfl) == 0 && ((e)->dest_flags & ~(q).dfl) == 0)

/* first match of request q in chain order; returns 1 and (*ki, *fn) if there is one */
static int vc_first_match (vc_req_t q, int *ki, pixman_composite_func_t *fn)
{
    int k, j, found = 0;
    *ki = -1;
    *fn = (pixman_composite_func_t) 0;
    for (k = 0; k < VC_NI; k++)
    {
        int ended = 0;
        for (j = 0; j < VC_TT; j++)
        {
            const pixman_fast_path_t *e = &vc_tab[k][j];
            if (e->op == PIXMAN_OP_NONE)
                ended = 1;
            if (!ended && !found && VC_MATCH (e, q))
            {
                found = 1;
                *ki = k;
                *fn = e->func;
            }
        }
    }
    return found;
}

static int vc_slot_ok (int i)
{
    const pixman_fast_path_t *c = &fast_path_cache.cache[i].fast_path;
    vc_req_t q;
    int ki;
    pixman_composite_func_t fn;
    if (!c->func)
        return 1;
    q.op = c->op; q.sf = c->src_format; q.sfl = c->src_flags; q.mf = c->mask_format; q.mfl = c->mask_flags;
    q.df = c->dest_format; q.dfl = c->dest_flags;
    if (!vc_first_match (q, &ki, &fn))
        return 0;
    return fast_path_cache.cache[i].imp == &vc_imps[ki] && c->func == fn;
}

void harness (void)
{
    VC_IN_ARRAY (vh_u32, in_tab, VC_NI * VC_T * 8);  /* op, sf, sfl, mf, mfl, df, dfl, func index */
    VC_IN_ARRAY (vh_u32, in_cache, 8 * 9);           /* op, sf, sfl, mf, mfl, df, dfl, func index (4 = NULL), imp index */
    VH_IN (vh_u32, in_catchall);
    VH_IN (vh_u32, in_g);
    VH_IN (vh_u32, in_op); VH_IN (vh_u32, in_sf); VH_IN (vh_u32, in_sfl); VH_IN (vh_u32, in_mf); VH_IN (vh_u32, in_mfl);
    VH_IN (vh_u32, in_df); VH_IN (vh_u32, in_dfl);
    pixman_fast_path_t tab0[VC_NI][VC_TT];
    pixman_implementation_t *out_imp = (pixman_implementation_t *) 0;
    pixman_composite_func_t out_func = (pixman_composite_func_t) 0;
    vc_req_t q;
    int k, j, i, ki, found, ok;
    pixman_composite_func_t fn;

    VH_ASSUME (in_g < 8);
    /* ---- the chain and its tables */
    for (k = 0; k < VC_NI; k++)
    {
        vc_imps[k].toplevel = &vc_imps[0];
        vc_imps[k].fallback = k + 1 < VC_NI ? &vc_imps[k + 1] : (pixman_implementation_t *) 0;
        vc_imps[k].fast_paths = vc_tab[k];
        for (j = 0; j < VC_TT; j++)
        {
            pixman_fast_path_t *e = &vc_tab[k][j];
            e->op = PIXMAN_OP_NONE; e->src_format = e->mask_format = e->dest_format = (pixman_format_code_t) 0;
            e->src_flags = e->mask_flags = e->dest_flags = 0; e->func = (pixman_composite_func_t) 0;
            if (j < VC_T)
            {
                const vh_u32 *v = &in_tab[(k * VC_T + j) * 8];
                VH_ASSUME (v[7] < 4);
                e->op = (pixman_op_t) v[0]; e->src_format = (pixman_format_code_t) v[1]; e->src_flags = v[2];
                e->mask_format = (pixman_format_code_t) v[3]; e->mask_flags = v[4];
                e->dest_format = (pixman_format_code_t) v[5]; e->dest_flags = v[6];
                e->func = vc_funcs[v[7]];
            }
            else if (j == VC_T && k == VC_NI - 1 && in_catchall)
            {
                e->op = PIXMAN_OP_any; e->src_format = PIXMAN_any; e->mask_format = PIXMAN_any; e->dest_format = PIXMAN_any;
                e->func = vc_f3;
            }
        }
    }
    /* ---- any cache content ... */
    for (i = 0; i < 8; i++)
    {
        const vh_u32 *v = &in_cache[i * 9];
        pixman_fast_path_t *c = &fast_path_cache.cache[i].fast_path;
        VH_ASSUME (v[7] <= 4 && v[8] < VC_NI);
        c->op = (pixman_op_t) v[0]; c->src_format = (pixman_format_code_t) v[1]; c->src_flags = v[2];
        c->mask_format = (pixman_format_code_t) v[3]; c->mask_flags = v[4];
        c->dest_format = (pixman_format_code_t) v[5]; c->dest_flags = v[6];
        c->func = v[7] < 4 ? vc_funcs[v[7]] : (pixman_composite_func_t) 0;
        fast_path_cache.cache[i].imp = &vc_imps[v[8]];
    }
    /* ---- ... that satisfies cache_ok */
    for (i = 0; i < 8; i++)
        VH_ASSUME (vc_slot_ok (i));
#ifdef VC_CASE
    /* case split (one query per case, all 9 cases are run): which slot is the first whose key
     * equals the request and whose func is non-NULL; -1 = none */
    {
        int hit = -1;
        for (i = 0; i < 8; i++)
        {
            const pixman_fast_path_t *c = &fast_path_cache.cache[i].fast_path;
            if (hit < 0 && (uint32_t) c->op == in_op && (uint32_t) c->src_format == in_sf && c->src_flags == in_sfl &&
                (uint32_t) c->mask_format == in_mf && c->mask_flags == in_mfl && (uint32_t) c->dest_format == in_df &&
                c->dest_flags == in_dfl && c->func)
                hit = i;
        }
        VH_ASSUME (hit == (VC_CASE));
    }
#endif

    for (k = 0; k < VC_NI; k++)
        for (j = 0; j < VC_TT; j++)
            tab0[k][j] = vc_tab[k][j];

    _pixman_implementation_lookup_composite (&vc_imps[0], (pixman_op_t) in_op, (pixman_format_code_t) in_sf, in_sfl,
                                             (pixman_format_code_t) in_mf, in_mfl, (pixman_format_code_t) in_df, in_dfl,
                                             &out_imp, &out_func);

    q.op = in_op; q.sf = in_sf; q.sfl = in_sfl; q.mf = in_mf; q.mfl = in_mfl; q.df = in_df; q.dfl = in_dfl;
    found = vc_first_match (q, &ki, &fn);

    VH_CHECK ("lookup.result_is_first_match_in_chain_order",
              !found || (out_imp == &vc_imps[ki] && out_func == fn));
    VH_CHECK ("lookup.no_match_gives_null_imp_and_noop_routine",
              found || (out_imp == (pixman_implementation_t *) 0 && out_func == dummy_composite_rect));
    VH_CHECK ("lookup.error_logged_iff_no_match", vc_log_calls == (found ? 0 : 1));
    /* cache_ok afterwards, at a ghost slot in_g (any of the 8) */
    VH_CHECK ("lookup.cache_ok_preserved", vc_slot_ok ((int) in_g));
    {
        const pixman_fast_path_t *c = &fast_path_cache.cache[0].fast_path;
        VH_CHECK ("lookup.slot0_is_memo_of_this_request",
                  !found || !fn ||
                  ((uint32_t) c->op == in_op && (uint32_t) c->src_format == in_sf && c->src_flags == in_sfl &&
                   (uint32_t) c->mask_format == in_mf && c->mask_flags == in_mfl && (uint32_t) c->dest_format == in_df &&
                   c->dest_flags == in_dfl && c->func == fn && fast_path_cache.cache[0].imp == &vc_imps[ki]));
    }
    ok = 1;
    for (k = 0; k < VC_NI; k++)
    {
        if (vc_imps[k].toplevel != &vc_imps[0] || vc_imps[k].fast_paths != vc_tab[k] ||
            vc_imps[k].fallback != (k + 1 < VC_NI ? &vc_imps[k + 1] : (pixman_implementation_t *) 0))
            ok = 0;
        for (j = 0; j < VC_TT; j++)
        {
            const pixman_fast_path_t *a = &tab0[k][j], *b = &vc_tab[k][j];
            if (a->op != b->op || a->src_format != b->src_format || a->src_flags != b->src_flags ||
                a->mask_format != b->mask_format || a->mask_flags != b->mask_flags || a->dest_format != b->dest_format ||
                a->dest_flags != b->dest_flags || a->func != b->func)
                ok = 0;
        }
    }
    VH_CHECK ("frame.implementations_and_tables_unchanged", ok);
    VH_END ();
}
