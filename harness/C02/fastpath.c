/* C02 (3): C fast paths of pixman-fast-path.c against the C01 spec composed with the trivial
 * a8r8g8b8 / a8 codecs, on images built by hand (bounded: width VC_W, height 1, one row).
 *
 *   -DVC_FP=1  fast_composite_over_8888_8888   OVER  a8r8g8b8, -, a8r8g8b8     (VC_OP=3  VC_MODE=0)
 *   -DVC_FP=2  fast_composite_add_8_8          ADD   a8, -, a8                 (VC_OP=12 VC_MODE=0, channel 3)
 *   -DVC_FP=3  fast_composite_over_n_8_8888    OVER  solid, a8, a8r8g8b8       (VC_OP=3  VC_MODE=1)
 *   -DVC_FP=4  fast_composite_src_memcpy       SRC   a8r8g8b8, -, a8r8g8b8     (VC_OP=1  VC_MODE=0)
 *   -DVC_FP=5  fast_composite_add_8888_8888    ADD   a8r8g8b8, -, a8r8g8b8     (VC_OP=12 VC_MODE=0)
 *   -DVC_CH=0..3 channel | 4 frame (every other pixel/byte of the destination row and the guard
 *   pixels unchanged, source and mask unchanged)
 *
 * Codecs: a8r8g8b8 pixel = the word; a8 pixel p = (p << 24) (alpha only).  The x offsets of the
 * three images are symbolic in [0, 2]; the ghost pixel in_k is symbolic in [0, VC_W).
 * _pixman_image_get_solid is a stub returning the symbolic colour (its own correctness: C09/C10).
 */
#include "pixman-fast-path.c"
#include "spec_op.h"
#include "vh.h"
#include "c02.h"

#ifndef VC_W
#define VC_W 3
#endif
#define VC_ROW (VC_W + 4) /* pixels per row incl. room for x offset and guards */

static uint32_t vc_solid;
uint32_t _pixman_image_get_solid (pixman_implementation_t *imp, pixman_image_t *image, pixman_format_code_t format)
{
    return vc_solid;
}

#if VC_FP == 2
typedef uint8_t vc_dpix_t; typedef uint8_t vc_spix_t;
#define VC_FN fast_composite_add_8_8
#define VC_D32(p) ((uint32_t) (p) << 24)
#define VC_S32(p) ((uint32_t) (p) << 24)
#elif VC_FP == 3
typedef uint32_t vc_dpix_t; typedef uint32_t vc_spix_t;
#define VC_FN fast_composite_over_n_8_8888
#define VC_D32(p) ((uint32_t) (p))
#define VC_S32(p) ((uint32_t) (p))
#else
typedef uint32_t vc_dpix_t; typedef uint32_t vc_spix_t;
#if VC_FP == 1
#define VC_FN fast_composite_over_8888_8888
#elif VC_FP == 4
#define VC_FN fast_composite_src_memcpy
#else
#define VC_FN fast_composite_add_8888_8888
#endif
#define VC_D32(p) ((uint32_t) (p))
#define VC_S32(p) ((uint32_t) (p))
#endif

static pixman_image_t vc_src, vc_msk, vc_dst;

static void vc_bits (pixman_image_t *im, void *bits, int words, pixman_format_code_t fmt)
{
    /* every field through the `bits' member of the union (mixed-member writes make CBMC keep the
     * image as a byte_update chain and the memcpy length of src_memcpy non-constant) */
    im->bits.common.type = BITS;
    im->bits.format = fmt;
    im->bits.common.extended_format_code = fmt;
    im->bits.bits = (uint32_t *) bits;
    im->bits.rowstride = words;
    im->bits.width = VC_ROW;
    im->bits.height = 1;
}

void harness (void)
{
    VC_IN_ARRAY (vh_u32, in_src, VC_ROW);
    VC_IN_ARRAY (vh_u8, in_msk, VC_ROW);
    VC_IN_ARRAY (vh_u32, in_dst, VC_ROW);
    VH_IN (vh_u32, in_solid);
#ifdef VC_SX
    /* fixed offsets per query (src_memcpy: CBMC 6.11 drops the last element of a constant-length memcpy
     * between word arrays at SYMBOLIC byte offsets -- a verifier artefact, natively not reproducible) */
    const vh_u32 in_sx = VC_SX, in_mx = 0, in_dx = VC_DX;
#else
    VH_IN (vh_u32, in_sx); VH_IN (vh_u32, in_mx); VH_IN (vh_u32, in_dx);
#endif
    VH_IN (vh_u32, in_k);
    vc_spix_t sbuf[VC_ROW] VC_ALIGN16;
    vc_dpix_t dbuf[VC_ROW] VC_ALIGN16;
    uint8_t mbuf[VC_ROW + 4] VC_ALIGN16;
    pixman_composite_info_t info;
    int i;
    uint32_t s32, m32, d32, r32;

    VH_ASSUME (in_sx <= 2 && in_mx <= 2 && in_dx >= 1 && in_dx <= 2 && in_k < VC_W);
    for (i = 0; i < VC_ROW; i++)
    {
        sbuf[i] = (vc_spix_t) in_src[i]; dbuf[i] = (vc_dpix_t) in_dst[i]; mbuf[i] = in_msk[i];
    }
    vc_solid = in_solid;
    vc_bits (&vc_src, sbuf, (int) (sizeof sbuf / 4), sizeof (vc_spix_t) == 1 ? PIXMAN_a8 : PIXMAN_a8r8g8b8);
    vc_bits (&vc_dst, dbuf, (int) (sizeof dbuf / 4), sizeof (vc_dpix_t) == 1 ? PIXMAN_a8 : PIXMAN_a8r8g8b8);
    vc_bits (&vc_msk, mbuf, (int) (sizeof mbuf / 4), PIXMAN_a8);
    memset (&info, 0, sizeof info);
    info.op = VC_OP == SPOP_OVER ? PIXMAN_OP_OVER : VC_OP == SPOP_ADD ? PIXMAN_OP_ADD : PIXMAN_OP_SRC;
    info.src_image = &vc_src;
    info.mask_image = VC_MODE ? &vc_msk : (pixman_image_t *) 0;
    info.dest_image = &vc_dst;
    info.src_x = (int32_t) in_sx; info.mask_x = (int32_t) in_mx; info.dest_x = (int32_t) in_dx;
    info.width = VC_W;
    info.height = 1;

    VC_FN ((pixman_implementation_t *) 0, &info);

#if VC_FP == 3
    s32 = in_solid;
#else
    s32 = VC_S32 ((vc_spix_t) in_src[in_sx + in_k]);
#endif
    m32 = (uint32_t) in_msk[in_mx + in_k] << 24;
    d32 = VC_D32 ((vc_dpix_t) in_dst[in_dx + in_k]);
    r32 = VC_D32 (dbuf[in_dx + in_k]);
#if VC_CH == 4
    {
        int ok_d = 1, ok_s = 1;
        for (i = 0; i < VC_ROW; i++)
        {
            if ((i < (int) in_dx || i >= (int) in_dx + VC_W) && dbuf[i] != (vc_dpix_t) in_dst[i]) ok_d = 0;
            if (sbuf[i] != (vc_spix_t) in_src[i] || mbuf[i] != in_msk[i]) ok_s = 0;
        }
        VH_CHECK ("frame.dest_outside_rectangle_unchanged", ok_d);
        VH_CHECK ("frame.src_mask_unchanged", ok_s);
    }
#else
    VH_ASSUME (SPX_PRE (s32, d32));
    VH_CHECK ("pixel.channel", SPX_POST (r32, s32, m32, d32, VC_CH));
#endif
    VH_END ();
}
