/* native self-test of the three C bodies proposed in mmx_hook.diff against the real PMOVMSKB / PMULHUW / PSHUFW (mm):
 *   gcc -O1 -w -msse -mmmx mmx_hook_selftest.c -o t && ./t     (2*10^6 random + corner vectors, all 256 shuffle immediates) */
#include <xmmintrin.h>
#include <stdio.h>
#include <stdlib.h>
#include <string.h>
static __inline int v_movemask_pi8 (__m64 __A)
{
    __v8qi a = (__v8qi) __A; int ret = 0, i;
    for (i = 0; i < 8; i++) ret |= (((unsigned char) a[i]) >> 7) << i;
    return ret;
}
static __inline __m64 v_mulhi_pu16 (__m64 __A, __m64 __B)
{
    __v4hi a = (__v4hi) __A, b = (__v4hi) __B, r; int i;
    for (i = 0; i < 4; i++)
	r[i] = (short) (unsigned short) (((unsigned) (unsigned short) a[i] * (unsigned) (unsigned short) b[i]) >> 16);
    return (__m64) r;
}
static __inline __m64 v_shuffle_pi16 (__m64 __A, int __N)
{
    __v4hi a = (__v4hi) __A, r;
    r[0] = a[__N & 3]; r[1] = a[(__N >> 2) & 3]; r[2] = a[(__N >> 4) & 3]; r[3] = a[(__N >> 6) & 3];
    return (__m64) r;
}
static unsigned long long rnd (void) { static unsigned long long x = 88172645463325252ull; x ^= x << 13; x ^= x >> 7; x ^= x << 17; return x; }
#define SH(N) case N: { __m64 r1 = _mm_shuffle_pi16 (a, N), r2 = v_shuffle_pi16 (a, N); if (memcmp (&r1, &r2, 8)) bad3++; } break;
#define SH4(N) SH(N) SH(N+1) SH(N+2) SH(N+3)
#define SH16(N) SH4(N) SH4(N+4) SH4(N+8) SH4(N+12)
#define SH64(N) SH16(N) SH16(N+16) SH16(N+32) SH16(N+48)
int main (void)
{
    long i, bad1 = 0, bad2 = 0, bad3 = 0;
    for (i = 0; i < 2000000; i++)
    {
        unsigned long long x = rnd (), y = rnd ();
        if (i % 7 == 0) x = (i & 8) ? ~0ull : 0x8000800080008000ull; if (i % 11 == 0) y = ~0ull;
        __m64 a, b; memcpy (&a, &x, 8); memcpy (&b, &y, 8);
        if (_mm_movemask_pi8 (a) != v_movemask_pi8 (a)) bad1++;
        { __m64 r1 = _mm_mulhi_pu16 (a, b), r2 = v_mulhi_pu16 (a, b); if (memcmp (&r1, &r2, 8)) bad2++; }
        switch (i & 255) { SH64(0) SH64(64) SH64(128) SH64(192) }
    }
    _mm_empty ();
    printf ("%s movemask_pi8 %ld mismatches\n%s mulhi_pu16 %ld mismatches\n%s shuffle_pi16 (all 256 immediates) %ld mismatches\n", bad1 ? "FAIL" : "ok", bad1, bad2 ? "FAIL" : "ok", bad2, bad3 ? "FAIL" : "ok", bad3);
    return (bad1 || bad2 || bad3) != 0;
}
