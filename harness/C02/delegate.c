/* C02 (1): delegation down the fallback chain (real pixman-implementation.c, route H).
 *
 *   -DVC_COMBINER   _pixman_implementation_lookup_combiner
 *   -DVC_ITER       _pixman_implementation_iter_init
 *   -DVC_CHAIN=<n>  maximal chain length (the longest chain built on x86 has 6:
 *                   noop -> ssse3 -> sse2 -> mmx -> fast -> general)
 *
 * (blt / fill delegation: harness/C19/delegate.c, run by this property as well.)
 *
 * Combiner: implementation k has, for the requested operator, a routine in slot
 * (narrow, component_alpha) iff bit (4k + 2*narrow + ca) of in_has.  Every routine of every
 * implementation/slot is a distinct function; the slots of the neighbouring operators hold a
 * "wrong operator" routine.  Statement: the result is the routine of the FIRST implementation in
 * chain order whose slot for exactly this operator and this (narrow, ca) pair is non-NULL;
 * if there is none, the no-op routine is returned and an error is logged; nothing is written.
 *
 * Iterator: implementation k has no table (bit k of in_has clear) or a table of two symbolic
 * entries + PIXMAN_null terminator.  Statement: the iterator fields are the arguments; a NULL
 * image gets the NULL-scanline getter and nothing else; otherwise the FIRST entry in chain /
 * table order with (format equal or `any') and all required image and iterator flags present
 * supplies get_scanline and write_back, and its initializer (if any) is called exactly once
 * with (iter, that entry); with no match nothing else is touched.
 */
#include "pixman-implementation.c"
#include "vh.h"
#include "c02.h"

#ifndef VC_CHAIN
#define VC_CHAIN 6
#endif

static int vc_log_calls;
void _pixman_log_error (const char *function, const char *message) { vc_log_calls++; }

static pixman_implementation_t vc_imps[VC_CHAIN + 1];

#if defined(VC_COMBINER)

#define VC_STUB(n) static void vc_c##n (pixman_implementation_t *imp, pixman_op_t op, uint32_t *d, const uint32_t *s, const uint32_t *m, int w) { }
VC_STUB (0) VC_STUB (1) VC_STUB (2) VC_STUB (3) VC_STUB (4) VC_STUB (5) VC_STUB (6) VC_STUB (7)
VC_STUB (8) VC_STUB (9) VC_STUB (10) VC_STUB (11) VC_STUB (12) VC_STUB (13) VC_STUB (14) VC_STUB (15)
VC_STUB (16) VC_STUB (17) VC_STUB (18) VC_STUB (19) VC_STUB (20) VC_STUB (21) VC_STUB (22) VC_STUB (23)
VC_STUB (24) VC_STUB (25) VC_STUB (26) VC_STUB (27) VC_STUB (28) VC_STUB (29) VC_STUB (30) VC_STUB (31)
VC_STUB (_wrong)
static pixman_combine_32_func_t vc_stubs[32] = {
    vc_c0, vc_c1, vc_c2, vc_c3, vc_c4, vc_c5, vc_c6, vc_c7, vc_c8, vc_c9, vc_c10, vc_c11, vc_c12, vc_c13, vc_c14, vc_c15,
    vc_c16, vc_c17, vc_c18, vc_c19, vc_c20, vc_c21, vc_c22, vc_c23, vc_c24, vc_c25, vc_c26, vc_c27, vc_c28, vc_c29, vc_c30, vc_c31 };

static void vc_set (pixman_implementation_t *imp, int k, int op, unsigned has, int wrong)
{
    /* slot index = 2*narrow + ca:  0 float, 1 float_ca, 2 combine_32, 3 combine_32_ca */
    pixman_combine_32_func_t f0 = wrong ? vc_c_wrong : ((has >> (4 * k + 0)) & 1u) ? vc_stubs[4 * k + 0] : (pixman_combine_32_func_t) 0;
    pixman_combine_32_func_t f1 = wrong ? vc_c_wrong : ((has >> (4 * k + 1)) & 1u) ? vc_stubs[4 * k + 1] : (pixman_combine_32_func_t) 0;
    pixman_combine_32_func_t f2 = wrong ? vc_c_wrong : ((has >> (4 * k + 2)) & 1u) ? vc_stubs[4 * k + 2] : (pixman_combine_32_func_t) 0;
    pixman_combine_32_func_t f3 = wrong ? vc_c_wrong : ((has >> (4 * k + 3)) & 1u) ? vc_stubs[4 * k + 3] : (pixman_combine_32_func_t) 0;
    imp->combine_float[op] = (pixman_combine_float_func_t) f0;
    imp->combine_float_ca[op] = (pixman_combine_float_func_t) f1;
    imp->combine_32[op] = f2;
    imp->combine_32_ca[op] = f3;
}

void harness (void)
{
    VH_IN (vh_u32, in_len);
    VH_IN (vh_u32, in_has);
    VH_IN (vh_u32, in_op);
    VH_IN (vh_u32, in_ca);
    VH_IN (vh_u32, in_narrow);
    int k, winner = -1;
    pixman_combine_32_func_t r, expect = (pixman_combine_32_func_t) 0;
    pixman_implementation_t *p0[VC_CHAIN];

    VH_ASSUME (in_len <= VC_CHAIN && in_op < PIXMAN_N_OPERATORS && in_ca <= 1 && in_narrow <= 1);
    for (k = 0; k < VC_CHAIN; k++)
    {
        vc_imps[k].toplevel = &vc_imps[0];
        vc_imps[k].fallback = (k + 1 < (int) in_len) ? &vc_imps[k + 1] : (pixman_implementation_t *) 0;
        if (in_op > 0)
            vc_set (&vc_imps[k], k, (int) in_op - 1, in_has, 1);
        if (in_op + 1 < PIXMAN_N_OPERATORS)
            vc_set (&vc_imps[k], k, (int) in_op + 1, in_has, 1);
        vc_set (&vc_imps[k], k, (int) in_op, in_has, 0);
        p0[k] = vc_imps[k].fallback;
    }

    r = _pixman_implementation_lookup_combiner (in_len ? &vc_imps[0] : (pixman_implementation_t *) 0,
                                                (pixman_op_t) in_op, (pixman_bool_t) in_ca, (pixman_bool_t) in_narrow);

    /* specification: first k < len whose slot (narrow, ca) for this operator is present */
    for (k = 0; k < VC_CHAIN; k++)
        if (winner < 0 && k < (int) in_len && ((in_has >> (4 * k + 2 * in_narrow + in_ca)) & 1u))
        {
            winner = k;
            expect = vc_stubs[4 * k + 2 * in_narrow + in_ca];
        }
    VH_CHECK ("combiner.result_is_first_non_null_in_chain_order", winner < 0 || r == expect);
    VH_CHECK ("combiner.none_gives_noop_routine_and_logs", winner >= 0 || (r == dummy_combine && vc_log_calls == 1));
    VH_CHECK ("combiner.no_error_logged_when_found", winner < 0 || vc_log_calls == 0);
    VH_CHECK ("combiner.result_never_null", r != (pixman_combine_32_func_t) 0);
    {
        int ok = 1;
        for (k = 0; k < VC_CHAIN; k++)
            if (vc_imps[k].fallback != p0[k] || vc_imps[k].toplevel != &vc_imps[0])
                ok = 0;
        VH_CHECK ("frame.chain_unchanged", ok);
    }
    VH_END ();
}

#elif defined(VC_ITER)

static int vc_init_calls;
static pixman_iter_t *vc_init_iter;
static const pixman_iter_info_t *vc_init_info;
static void vc_initializer (pixman_iter_t *iter, const pixman_iter_info_t *info)
{
    vc_init_calls++;
    vc_init_iter = iter;
    vc_init_info = info;
}
#define VC_GS(n) static uint32_t *vc_gs##n (pixman_iter_t *iter, const uint32_t *mask) { return (uint32_t *) 0; }
VC_GS (0) VC_GS (1) VC_GS (2) VC_GS (3) VC_GS (4) VC_GS (5) VC_GS (6) VC_GS (7) VC_GS (8) VC_GS (9) VC_GS (10) VC_GS (11) VC_GS (_old)
static pixman_iter_get_scanline_t vc_gs[12] = { vc_gs0, vc_gs1, vc_gs2, vc_gs3, vc_gs4, vc_gs5, vc_gs6, vc_gs7, vc_gs8, vc_gs9, vc_gs10, vc_gs11 };
#define VC_WB(n) static void vc_wb##n (pixman_iter_t *iter) { }
VC_WB (0) VC_WB (1) VC_WB (2) VC_WB (3) VC_WB (4) VC_WB (5) VC_WB (6) VC_WB (7) VC_WB (8) VC_WB (9) VC_WB (10) VC_WB (11) VC_WB (_old)
static pixman_iter_write_back_t vc_wb[12] = { vc_wb0, vc_wb1, vc_wb2, vc_wb3, vc_wb4, vc_wb5, vc_wb6, vc_wb7, vc_wb8, vc_wb9, vc_wb10, vc_wb11 };

static pixman_iter_info_t vc_tab[VC_CHAIN][3];
static pixman_image_t vc_image;

void harness (void)
{
    VH_IN (vh_u32, in_len);
    VH_IN (vh_u32, in_has);
    VH_IN (vh_u32, in_null_image);
    VH_IN (vh_u32, in_format);
    VH_IN (vh_u32, in_iter_flags);
    VH_IN (vh_u32, in_image_flags);
    VH_IN (vh_i32, in_x); VH_IN (vh_i32, in_y); VH_IN (vh_i32, in_w); VH_IN (vh_i32, in_h);
    VC_IN_ARRAY (vh_u32, in_tab, VC_CHAIN * 2 * 4); /* format, image flags, iter flags, has initializer */
    pixman_iter_t iter;
    uint8_t buffer[16] VC_ALIGN16;
    int k, j, wk = -1, wj = -1;
    pixman_image_t *image = in_null_image ? (pixman_image_t *) 0 : &vc_image;

    VH_ASSUME (in_len <= VC_CHAIN);
    for (k = 0; k < VC_CHAIN; k++)
    {
        vc_imps[k].toplevel = &vc_imps[0];
        vc_imps[k].fallback = (k + 1 < (int) in_len) ? &vc_imps[k + 1] : (pixman_implementation_t *) 0;
        vc_imps[k].iter_info = ((in_has >> k) & 1u) ? vc_tab[k] : (const pixman_iter_info_t *) 0;
        for (j = 0; j < 2; j++)
        {
            const vh_u32 *v = &in_tab[(k * 2 + j) * 4];
            vc_tab[k][j].format = (pixman_format_code_t) v[0];
            vc_tab[k][j].image_flags = v[1];
            vc_tab[k][j].iter_flags = (iter_flags_t) v[2];
            vc_tab[k][j].initializer = (v[3] & 1u) ? vc_initializer : (pixman_iter_initializer_t) 0;
            vc_tab[k][j].get_scanline = vc_gs[k * 2 + j];
            vc_tab[k][j].write_back = vc_wb[k * 2 + j];
        }
        vc_tab[k][2].format = PIXMAN_null;
    }
    vc_image.common.extended_format_code = (pixman_format_code_t) in_format;
    memset (&iter, 0, sizeof iter);
    iter.get_scanline = vc_gs_old;
    iter.write_back = vc_wb_old;

    _pixman_implementation_iter_init (in_len ? &vc_imps[0] : (pixman_implementation_t *) 0, &iter, image,
                                      in_x, in_y, in_w, in_h, buffer, (iter_flags_t) in_iter_flags, in_image_flags);

    /* specification: first entry in chain / table order that matches */
    for (k = 0; k < VC_CHAIN; k++)
        if (k < (int) in_len && ((in_has >> k) & 1u))
        {
            int ended = 0;
            for (j = 0; j < 2; j++)
            {
                const vh_u32 *v = &in_tab[(k * 2 + j) * 4];
                if (v[0] == (vh_u32) PIXMAN_null)
                    ended = 1;
                if (!ended && wk < 0 && (v[0] == (vh_u32) PIXMAN_any || v[0] == in_format) &&
                    (v[1] & ~in_image_flags) == 0 && (v[2] & ~in_iter_flags) == 0)
                {
                    wk = k;
                    wj = j;
                }
            }
        }

    VH_CHECK ("iter.fields_are_the_arguments",
              iter.image == image && iter.buffer == (uint32_t *) buffer && iter.x == in_x && iter.y == in_y &&
              iter.width == in_w && iter.height == in_h && (vh_u32) iter.iter_flags == in_iter_flags &&
              iter.image_flags == in_image_flags && iter.fini == (pixman_iter_fini_t) 0);
    if (in_null_image)
    {
        VH_CHECK ("iter.null_image_gets_null_scanline_getter",
                  iter.get_scanline == get_scanline_null && iter.write_back == vc_wb_old && vc_init_calls == 0);
    }
    else if (wk >= 0)
    {
        int has_init = (int) (in_tab[(wk * 2 + wj) * 4 + 3] & 1u);
        VH_CHECK ("iter.first_match_in_chain_order_supplies_the_routines",
                  iter.get_scanline == vc_gs[wk * 2 + wj] && iter.write_back == vc_wb[wk * 2 + wj]);
        VH_CHECK ("iter.initializer_called_once_with_iter_and_entry",
                  vc_init_calls == has_init && (!has_init || (vc_init_iter == &iter && vc_init_info == &vc_tab[wk][wj])));
    }
    else
    {
        VH_CHECK ("iter.no_match_touches_nothing_else",
                  iter.get_scanline == vc_gs_old && iter.write_back == vc_wb_old && vc_init_calls == 0);
    }
    VH_END ();
}

#else
#error "define VC_COMBINER or VC_ITER"
#endif
