/* C02 / C08 / C04 (helper sscl): the SSE2 bilinear SCANLINE FUNCTIONS of pixman-sse2.c
 *
 *      scaled_bilinear_scanline_sse2_8888_8888_SRC      scaled_bilinear_scanline_sse2_x888_8888_SRC
 *      scaled_bilinear_scanline_sse2_8888_8888_OVER     scaled_bilinear_scanline_sse2_8888_8_8888_OVER
 *      scaled_bilinear_scanline_sse2_8888_n_8888_OVER
 *      (macros BILINEAR_DECLARE_VARIABLES, BILINEAR_INTERPOLATE_ONE_PIXEL[_HELPER] / _FOUR_PIXELS, BILINEAR_SKIP_ONE_PIXEL / _FOUR_PIXELS)
 *
 * against the contract the scaled main loops assume of a scanline function (spec/spec_sscl.h; the main loops themselves:
 * props/C08_scl.py).  The REAL static function is called on one small row, under the trusted C models of the
 * __builtin_ia32_* builtins (models/sse2_models_scale.h); natively (replay) the real instructions run.
 *
 *   pixel.channel   channel c of dst[k] after  ==  OP_c ( sample_k, mask_k, dst[k] before )     (C01 spec, spec_op.h)
 *                   sample_k = bilinear blend (spec_sscl.h) of src_top[x], src_top[x+1], src_bottom[x], src_bottom[x+1],
 *                   x = (vx + k*unit_x) >> 16, horizontal weight = 7 top bits of the fraction of vx + k*unit_x, row weights wt, wb
 *   frame.*         (VC_CH == 4) words before dst[0] / after dst[w-1] unchanged, source rows and mask unchanged;
 *                   the source rows are allocated EXACTLY as long as the licence of the main-loop contract (VC_NS words; the
 *                   positions are restricted to those whose lowest pair starts at word 0 and whose highest pair ends at word
 *                   VC_NS - 1), the mask exactly w bytes: any other read is a pointer-check failure (C04) - natively ASan decides
 *
 *   -DVC_FN=<function>  -DVC_MASKK=0 none | 1 a8 bytes | 2 solid (pointer to one a8r8g8b8 word)   -DVC_XSRC=1 x8r8g8b8 source
 *   -DVC_OP (SPOP_SRC | SPOP_OVER)  -DVC_MODE (0 | 1 unified mask)  -DVC_CH 0..3 | 4
 *   -DVC_W width  -DVC_DOFF destination phase in pixels (16-byte phase: (4 - DOFF) % 4 head pixels)  -DVC_K ghost pixel
 *   -DVC_MCASE  0 mask bytes symbolic | 1 the first aligned group of 4 mask bytes is zero (skip path) | 2 every mask byte 0xff
 *               | 3 the first aligned group zero, every other mask byte 0xff
 *   -DVC_WT -DVC_WB  row weights fixed (one pair per query)   -DVC_FRAC=<(frac (unit_x) << 16) | frac (vx)>  the 16-bit fractions of
 *               vx and unit_x fixed (their integer parts stay symbolic): with symbolic weights only the one-pixel kernel queries finish
 *   -DVC_UXMAX  |unit_x| <= VC_UXMAX << 16 (default 3);  source rows have VC_NS words (default 32)
 *
 * Alignment: CBMC places every object at offset 0 of its own address space and (uintptr_t) p & 15 is the low bits of the
 * offset, i.e. objects are 16-byte aligned; natively the buffers are declared aligned (16).
 */
#ifdef VH_CBMC
#include "sse2_models_scale.h"
#endif
#include "pixman-sse2.c"
#include "spec_op.h"
#include "spec_sscl.h"
#include "vh.h"
#include "c02.h"

/* array inputs: under CBMC every element is assigned a nondeterministic value of its own, so that the counterexample trace
 * names it (in_x[i]) and the native replay gets the whole array */
#ifdef VH_CBMC
#define SSCL_IN_ARRAY(type, name, n) type name[n]; do { int i_; for (i_ = 0; i_ < (int) (n); i_++) name[i_] = nondet_##type (); } while (0)
#else
#define SSCL_IN_ARRAY(type, name, n) VC_IN_ARRAY (type, name, n)
#endif

#ifndef VC_MASKK
#define VC_MASKK 0
#endif
#ifndef VC_XSRC
#define VC_XSRC 0
#endif
#ifndef VC_MCASE
#define VC_MCASE 0
#endif
#ifndef VC_DOFF
#define VC_DOFF 0
#endif
#ifndef VC_NS
#define VC_NS 32
#endif
#ifndef VC_UXMAX
#define VC_UXMAX 3
#endif
#define VC_HEAD ((4 - VC_DOFF) % 4 < VC_W ? (4 - VC_DOFF) % 4 : VC_W)
#define VC_ND (4 + 3 + VC_W + 4)    /* guard quad, misalignment, pixels, guard quad */

static pixman_implementation_t vc_imp;

pixman_implementation_t *
_pixman_implementation_create (pixman_implementation_t *fallback, const pixman_fast_path_t *fast_paths)
{
    memset (&vc_imp, 0, sizeof vc_imp);
    vc_imp.fallback = fallback;
    vc_imp.fast_paths = fast_paths;
    return &vc_imp;
}

void harness (void)
{
    SSCL_IN_ARRAY (vh_u32, in_top, VC_NS);
    SSCL_IN_ARRAY (vh_u32, in_bot, VC_NS);
    SSCL_IN_ARRAY (vh_u8, in_msk, VC_W);
    SSCL_IN_ARRAY (vh_u32, in_dst, VC_W);
    VH_IN (vh_u32, in_guard);
    VH_IN (vh_u32, in_solid);
    VH_IN (vh_i32, in_vx);
    VH_IN (vh_i32, in_ux);
    VH_IN (vh_i32, in_wt);
    VH_IN (vh_i32, in_wb);
    VH_IN (vh_i32, in_maxvx);
    uint32_t dbuf[VC_ND] VC_ALIGN16;
    uint32_t *dst = dbuf + 4 + VC_DOFF;
    uint8_t mbuf[VC_W];
    uint32_t solid[1];
    uint32_t *top, *bot;
    sscl_i64 p0, p1, plo, phi, pk;
    long xlo, xhi, n, i;

    /* ---- the main loop's guarantees (C08_scl: c08.scanline_weights_*, c04.*_pairs_inside_source_storage) */
    VH_ASSUME (SSCL_WEIGHTS_OK (in_wt, in_wb));
#if VC_XSRC
    VH_ASSUME (in_wt + in_wb == 128);       /* x888 sources have no NONE-repeat instance: the rows always weigh 128 together */
#endif
#ifdef VC_WT
    VH_ASSUME (in_wt == VC_WT && in_wb == VC_WB);
#endif
#ifdef VC_FRAC
    VH_ASSUME ((in_vx & 0xffff) == ((VC_FRAC) & 0xffff) && (in_ux & 0xffff) == (((VC_FRAC) >> 16) & 0xffff));
#endif
    VH_ASSUME (in_ux >= -(VC_UXMAX << 16) && in_ux <= (VC_UXMAX << 16));
    p0 = SSCL_POS (in_vx, in_ux, 0);
    p1 = SSCL_POS (in_vx, in_ux, VC_W - 1);
    plo = p0 < p1 ? p0 : p1;
    phi = p0 < p1 ? p1 : p0;
    xlo = (long) SSCL_X (plo);
    xhi = (long) SSCL_X (phi);
    VH_ASSUME (plo >= 0 && xhi + 2 <= VC_NS);

#if VC_CH == 4
    /* source rows exactly as long as the licence of the main-loop contract: the pair of the lowest sample position starts at
     * word 0 and the pair of the highest one ends at the last word of the row (VC_NS words, allocated exactly; a symbolic
     * allocation size makes CBMC 6.11 + external SAT solver give up with an error).  Any read outside the licence is then
     * outside the object: pointer checks under CBMC, ASan natively */
    VH_ASSUME (xlo == 0 && xhi + 2 == VC_NS);
    n = VC_NS;
    top = malloc (sizeof (uint32_t) * VC_NS);
    bot = malloc (sizeof (uint32_t) * VC_NS);
    if (!top || !bot)
        return;
    for (i = 0; i < VC_NS; i++)
    {
        top[i] = in_top[i]; bot[i] = in_bot[i];
    }
#else
    {
        static uint32_t tbuf[VC_NS], bbuf[VC_NS];
        top = tbuf; bot = bbuf;
        for (i = 0; i < VC_NS; i++)
        {
            top[i] = in_top[i]; bot[i] = in_bot[i];
        }
    }
#endif
    for (i = 0; i < VC_ND; i++)
        dbuf[i] = in_guard;
    for (i = 0; i < VC_W; i++)
    {
        dst[i] = in_dst[i];
        mbuf[i] = in_msk[i];
    }
#if VC_MCASE == 1
    for (i = VC_HEAD; i < VC_HEAD + 4 && i < VC_W; i++)
        VH_ASSUME (in_msk[i] == 0);
#elif VC_MCASE == 2
    for (i = 0; i < VC_W; i++)
        VH_ASSUME (in_msk[i] == 0xff);
#elif VC_MCASE == 3
    for (i = 0; i < VC_W; i++)
        VH_ASSUME (in_msk[i] == ((i >= VC_HEAD && i < VC_HEAD + 4) ? 0 : 0xff));
#endif
    solid[0] = in_solid;

    _pixman_implementation_create_sse2 ((pixman_implementation_t *) 0);      /* the REAL constructor: mask_* constants */

#if VC_MASKK == 1
    VC_FN (dst, mbuf, top, bot, VC_W, in_wt, in_wb, in_vx, in_ux, in_maxvx, 0);
#elif VC_MASKK == 2
    VC_FN (dst, solid, top, bot, VC_W, in_wt, in_wb, in_vx, in_ux, in_maxvx, 0);
#else
    VC_FN (dst, (const uint32_t *) 0, top, bot, VC_W, in_wt, in_wb, in_vx, in_ux, in_maxvx, 0);
#endif

#if VC_CH == 4
    {
        int ok_d = 1, ok_s = 1, ok_m = 1;
        for (i = 0; i < VC_ND; i++)
            if ((i < 4 + VC_DOFF || i >= 4 + VC_DOFF + VC_W) && dbuf[i] != in_guard) ok_d = 0;
        for (i = 0; i < VC_NS; i++)
            if (i < n && (top[i] != in_top[i] || bot[i] != in_bot[i])) ok_s = 0;
        for (i = 0; i < VC_W; i++)
            if (mbuf[i] != in_msk[i]) ok_m = 0;
        VH_CHECK ("frame.dest_outside_scanline_unchanged", ok_d);
        VH_CHECK ("frame.source_rows_unchanged", ok_s);
        VH_CHECK ("frame.mask_unchanged", ok_m && solid[0] == in_solid);
        free (top); free (bot);
    }
#else
    {
        uint32_t tl, tr, bl, br, m32, d32, r;
        unsigned wx, sc, sa;
        long x;
        pk = SSCL_POS (in_vx, in_ux, VC_K);
        x = (long) SSCL_X (pk);
        wx = SSCL_W7 (pk);
        tl = in_top[x]; tr = in_top[x + 1]; bl = in_bot[x]; br = in_bot[x + 1];
#if VC_XSRC
        tl |= 0xff000000u; tr |= 0xff000000u; bl |= 0xff000000u; br |= 0xff000000u;     /* WIDEN of x8r8g8b8 */
#endif
#if VC_MASKK == 1
        m32 = (uint32_t) in_msk[VC_K] << 24;       /* WIDEN of an a8 pixel */
#elif VC_MASKK == 2
        m32 = in_solid;
#else
        m32 = 0xffffffffu;
#endif
        d32 = in_dst[VC_K];
        r = dst[VC_K];
        sc = SSCL_BILIN_CH (SSCL_CH (tl, VC_CH), SSCL_CH (tr, VC_CH), SSCL_CH (bl, VC_CH), SSCL_CH (br, VC_CH), wx, in_wt, in_wb);
        sa = SSCL_BILIN_CH (SSCL_CH (tl, 3), SSCL_CH (tr, 3), SSCL_CH (bl, 3), SSCL_CH (br, 3), wx, in_wt, in_wb);
        VH_CHECK ("pixel.channel", SP_CH (r, VC_CH) == SPX_RESULT (sc, sa, SPX_MC (m32, VC_CH), SP_CH (d32, VC_CH), SP_A (d32)));
    }
#endif
    VH_END ();
}
