/* c02.h — shared helpers of the C02 harnesses.  Include AFTER vh.h. */
#ifndef C02_H
#define C02_H

/* array inputs: nondeterministic under CBMC, taken from the counterexample natively */
#ifdef VH_CBMC
#define VC_IN_ARRAY(type, name, n) type name[n]
#else
#define VC_IN_ARRAY(type, name, n)                                         \
    type name[n];                                                          \
    do { int i_; char b_[64];                                              \
         for (i_ = 0; i_ < (int) (n); i_++) {                              \
             snprintf (b_, sizeof b_, "%s[%d]", #name, i_);                \
             name[i_] = (type) VH_GET_I (b_); } } while (0)
#endif

/* the same, but every element is ASSIGNED from a nondeterministic value (jobs run with --slice-formula: an array that is
 * only declared leaves no assignment in the sliced trace, so the driver could not extract the counterexample's inputs;
 * with the element assignments the elements the failed obligation depends on stay in the trace) */
#ifdef VH_CBMC
#define VC_IN_ARRAY_ASSIGNED(type, name, n)                                \
    type name[n];                                                          \
    do { int i_; for (i_ = 0; i_ < (int) (n); i_++) name[i_] = nondet_##type (); } while (0)
#else
#define VC_IN_ARRAY_ASSIGNED(type, name, n) VC_IN_ARRAY (type, name, n)
#endif

#define VC_CAT2(a, b) a##b
#define VC_CAT(a, b) VC_CAT2 (a, b)
#define VC_ALIGN16 __attribute__ ((aligned (16)))

#endif
