/* replay_link.c — native replay only (empty under CBMC).
 * The C02 harnesses #include whole pixman .c files; natively (ASan keeps every global table
 * alive) the fast-path / iterator tables of those files reference library functions the
 * harness never calls.  They get weak aborting bodies here so that the replay links; a
 * harness that defines one of them itself (strong symbol) wins.  Reaching one aborts. */
#ifdef VH_REPLAY
#include <stdlib.h>
#define VC_WEAK_ABORT(name) __attribute__ ((weak)) void name (void) { abort (); }
VC_WEAK_ABORT (_pixman_bits_image_init)
VC_WEAK_ABORT (_pixman_image_fini)
VC_WEAK_ABORT (_pixman_image_get_solid)
VC_WEAK_ABORT (_pixman_image_validate)
VC_WEAK_ABORT (_pixman_implementation_lookup_composite)
VC_WEAK_ABORT (_pixman_implementation_create)
VC_WEAK_ABORT (_pixman_iter_get_scanline_noop)
VC_WEAK_ABORT (_pixman_iter_init_bits_stride)
VC_WEAK_ABORT (_pixman_log_error)
VC_WEAK_ABORT (_pixman_setup_combiner_functions_32)
VC_WEAK_ABORT (_pixman_setup_combiner_functions_float)
VC_WEAK_ABORT (pixman_fill)
VC_WEAK_ABORT (pixman_blt)
VC_WEAK_ABORT (pixman_transform_point_3d)
VC_WEAK_ABORT (pixman_region32_init_rect)
VC_WEAK_ABORT (pixman_region32_fini)
VC_WEAK_ABORT (pixman_region32_init)
VC_WEAK_ABORT (pixman_image_unref)
VC_WEAK_ABORT (pixman_image_create_bits)
VC_WEAK_ABORT (_pixman_implementation_create_general)
VC_WEAK_ABORT (_pixman_implementation_create_fast_path)
VC_WEAK_ABORT (_pixman_implementation_create_noop)
VC_WEAK_ABORT (_pixman_implementation_create_mmx)
VC_WEAK_ABORT (_pixman_implementation_create_sse2)
VC_WEAK_ABORT (_pixman_implementation_create_ssse3)
VC_WEAK_ABORT (_pixman_x86_get_implementations)
VC_WEAK_ABORT (_pixman_arm_get_implementations)
VC_WEAK_ABORT (_pixman_ppc_get_implementations)
VC_WEAK_ABORT (_pixman_mips_get_implementations)
VC_WEAK_ABORT (_pixman_disabled)
#else
typedef int vc_replay_link_empty;
#endif
