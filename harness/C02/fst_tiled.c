/* C02 (3f): fast_composite_tiled_repeat (pixman-fast-path.c) -- the catch-all entry for an untransformed source with
 * NORMAL repeat: it cuts the request into spans that lie inside one period of the source (extending a narrow source
 * into a stack buffer first) and hands each span to the routine that the dispatcher returns for the same request
 * WITHOUT the repeat flag.
 *
 * Documented meaning of the request (C08: NORMAL repeat, identity transform): the source pixel that destination pixel
 * (dest_x + x, dest_y + y) sees is   src [ (src_y + y) mod src_height ] [ (src_x + x) mod src_width ]   (mod = the
 * non-negative remainder).  The inner routine is replaced by a REFERENCE blit that (a) demands that the span it is
 * given lies inside the image it is given (that is what "samples cover clip" promises it),
 * (b) copies the span (operator SRC).  The obligations are then
 *     tiled.dest_pixel_is_source_pixel_modulo_size     for a ghost pixel (x, y)
 *     tiled.every_inner_span_inside_its_source_image   (a)
 *     tiled.lookup_without_repeat_flag_with_cover_flag the flags of the inner lookup
 *     frame: destination outside the rectangle unchanged
 * Stubs: _pixman_implementation_lookup_composite (returns the reference blit, records the flags),
 * _pixman_bits_image_init (stores the five fields), _pixman_image_validate / _pixman_image_fini (nothing).
 *
 *   -DVC_SW -DVC_SH  source size   -DVC_W -DVC_H  composite size   -DVC_PIX=uint32_t|uint16_t|uint8_t  -DVC_FMT=PIXMAN_...
 *   -DVC_CH=0 pixel | 4 frame
 */
#include "pixman-fast-path.c"
#include "vh.h"
#include "c02.h"

#define VC_DX 1
#define VC_SROWB ((VC_SW * (int) sizeof (VC_PIX) + 3) / 4 * 4)
#define VC_SROW (VC_SROWB / (int) sizeof (VC_PIX))
#define VC_DROWB (((VC_DX + VC_W + 1) * (int) sizeof (VC_PIX) + 3) / 4 * 4)
#define VC_DROW (VC_DROWB / (int) sizeof (VC_PIX))
#define VC_DH (VC_H + 1)

static pixman_image_t vc_src, vc_dst;
static pixman_implementation_t vc_imp;
static int vc_span_ok = 1, vc_flags_ok = 1, vc_calls;

static void vc_blit (pixman_implementation_t *imp, pixman_composite_info_t *info)
{
    bits_image_t *s = &info->src_image->bits, *d = &info->dest_image->bits;
    int j, r;
    vc_calls++;
    /* any span of >= 1 rows that lies inside the image it is given and inside the destination rectangle (the routine
     * under check hands over one row at a time; a routine handing over several would be just as right) */
    if (!(info->height >= 1 && info->width >= 1 && info->src_x >= 0 && info->src_x + info->width <= s->width &&
          info->src_y >= 0 && info->src_y + info->height <= s->height && info->dest_y >= 0 && info->dest_y + info->height <= VC_H &&
          info->dest_x >= VC_DX && info->dest_x + info->width <= VC_DX + VC_W))
    {
        vc_span_ok = 0;
        return;
    }
    for (r = 0; r < info->height; r++)
        for (j = 0; j < info->width; j++)
            ((VC_PIX *) (d->bits + (info->dest_y + r) * d->rowstride))[info->dest_x + j] =
                ((VC_PIX *) (s->bits + (info->src_y + r) * s->rowstride))[info->src_x + j];
}

void _pixman_implementation_lookup_composite (pixman_implementation_t *toplevel, pixman_op_t op,
                                              pixman_format_code_t src_format, uint32_t src_flags,
                                              pixman_format_code_t mask_format, uint32_t mask_flags,
                                              pixman_format_code_t dest_format, uint32_t dest_flags,
                                              pixman_implementation_t **out_imp, pixman_composite_func_t *out_func)
{
    if ((src_flags & FAST_PATH_NORMAL_REPEAT) || !(src_flags & FAST_PATH_SAMPLES_COVER_CLIP_NEAREST) || op != PIXMAN_OP_SRC ||
        mask_format != PIXMAN_null || src_format != VC_FMT || dest_format != VC_FMT)
        vc_flags_ok = 0;
    *out_imp = &vc_imp;
    *out_func = vc_blit;
}

pixman_bool_t _pixman_bits_image_init (pixman_image_t *image, pixman_format_code_t format, int width, int height,
                                       uint32_t *bits, int rowstride, pixman_bool_t clear)
{
    image->bits.common.type = BITS;
    image->bits.format = format;
    image->bits.width = width;
    image->bits.height = height;
    image->bits.bits = bits;
    image->bits.rowstride = rowstride;
    image->bits.indexed = (const pixman_indexed_t *) 0;
    return 1;
}
void _pixman_image_validate (pixman_image_t *image) { }
pixman_bool_t _pixman_image_fini (pixman_image_t *image) { return 0; }

void harness (void)
{
    VC_IN_ARRAY (vh_u32, in_src, VC_SROW * VC_SH);
    VC_IN_ARRAY (vh_u32, in_dst, VC_DROW * VC_DH);
    VH_IN (vh_i32, in_sx); VH_IN (vh_i32, in_sy);
    VH_IN (vh_u32, in_gx); VH_IN (vh_u32, in_gy);
    static VC_PIX sbuf[VC_SROW * VC_SH] VC_ALIGN16;
    static VC_PIX dbuf[VC_DROW * VC_DH] VC_ALIGN16;
    pixman_composite_info_t info;
    int i, x, y, mx, my;

    VH_ASSUME (in_gx < VC_W && in_gy < VC_H);
    VH_ASSUME (in_sx >= -100000 && in_sx <= 100000 && in_sy >= -100000 && in_sy <= 100000);
    for (i = 0; i < VC_SROW * VC_SH; i++) sbuf[i] = (VC_PIX) in_src[i];
    for (i = 0; i < VC_DROW * VC_DH; i++) dbuf[i] = (VC_PIX) in_dst[i];
    vc_src.bits.common.type = BITS; vc_src.bits.format = VC_FMT; vc_src.bits.common.extended_format_code = VC_FMT;
    vc_src.bits.bits = (uint32_t *) sbuf; vc_src.bits.rowstride = VC_SROWB / 4; vc_src.bits.width = VC_SW; vc_src.bits.height = VC_SH;
    vc_dst.bits.common.type = BITS; vc_dst.bits.format = VC_FMT; vc_dst.bits.common.extended_format_code = VC_FMT;
    vc_dst.bits.bits = (uint32_t *) dbuf; vc_dst.bits.rowstride = VC_DROWB / 4; vc_dst.bits.width = VC_DROW; vc_dst.bits.height = VC_DH;
    vc_imp.toplevel = &vc_imp;
    memset (&info, 0, sizeof info);
    info.op = PIXMAN_OP_SRC;
    info.src_image = &vc_src; info.dest_image = &vc_dst;
    info.src_x = in_sx; info.src_y = in_sy; info.dest_x = VC_DX; info.dest_y = 0;
    info.width = VC_W; info.height = VC_H;
    info.src_flags = FAST_PATH_STANDARD_FLAGS | FAST_PATH_ID_TRANSFORM | FAST_PATH_BITS_IMAGE | FAST_PATH_NORMAL_REPEAT;
    info.dest_flags = FAST_PATH_STD_DEST_FLAGS;

    fast_composite_tiled_repeat (&vc_imp, &info);

    VH_CHECK ("tiled.every_inner_span_inside_its_source_image", vc_span_ok);
    VH_CHECK ("tiled.lookup_without_repeat_flag_with_cover_flag", vc_flags_ok);
#if VC_CH == 4
    {
        int ok_d = 1, ok_s = 1;
        for (y = 0; y < VC_DH; y++)
            for (x = 0; x < VC_DROW; x++)
                if (!(y < VC_H && x >= VC_DX && x < VC_DX + VC_W) && dbuf[y * VC_DROW + x] != (VC_PIX) in_dst[y * VC_DROW + x]) ok_d = 0;
        for (i = 0; i < VC_SROW * VC_SH; i++) if (sbuf[i] != (VC_PIX) in_src[i]) ok_s = 0;
        VH_CHECK ("frame.dest_outside_rectangle_unchanged", ok_d);
        VH_CHECK ("frame.src_unchanged", ok_s);
    }
#else
    mx = (in_sx + (int) in_gx) % VC_SW; if (mx < 0) mx += VC_SW;      /* non-negative remainder */
    my = (in_sy + (int) in_gy) % VC_SH; if (my < 0) my += VC_SH;
    VH_CHECK ("tiled.dest_pixel_is_source_pixel_modulo_size",
              dbuf[in_gy * VC_DROW + VC_DX + in_gx] == (VC_PIX) in_src[my * VC_SROW + mx]);
#endif
    VH_END ();
}
