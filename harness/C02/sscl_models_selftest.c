/* sscl_models_selftest.c — native differential test of models/sse2_models_scale.h: every C model against the real instruction
 * (gcc intrinsic), on corner and random vectors.  Built and run by the PyJob sscl.models.selftest (props/C02_sscl.py); prints
 * "ok <name> <n>" or "FAIL <name> <detail>". */
#define VC_MODELS_SELFTEST
#define __CPROVER_assert(c, s) ((void) 0)
#include <stdio.h>
#include <string.h>
#include <stdint.h>
#include <emmintrin.h>
#include <tmmintrin.h>
#include "sse2_models_combine.h"
#include "sse2_models_scale.h"

static uint64_t rs = 0x9e3779b97f4a7c15ull;
static uint64_t rnd (void) { rs ^= rs << 13; rs ^= rs >> 7; rs ^= rs << 17; return rs; }
static const uint16_t corner[] = { 0, 1, 0x7f, 0x80, 0xff, 0x100, 0x101, 0x7fff, 0x8000, 0x8001, 0xff00, 0xfffe, 0xffff, 0x00ff, 0x807f, 0x7f80, 0x8080, 0x7f7f };
typedef union { __m128i m; vc_v16qi b; vc_v8hi h; vc_v4si s; vc_v2di d; uint16_t u16[8]; uint64_t u64[2]; uint32_t u32[4]; } V;

static void fill (V *v, int it)
{
    int i;
    if (it < 4000)
        for (i = 0; i < 8; i++) v->u16[i] = corner[rnd () % (sizeof corner / sizeof corner[0])];
    else
    { v->u64[0] = rnd (); v->u64[1] = rnd (); }
}
#define N 200000

int main (void)
{
    int it, bad;
    for (bad = 0, it = 0; it < N && !bad; it++)
    {
        V a, b, r, e; fill (&a, it); fill (&b, it + 1);
        r.h = vc_pmaddubsw128 (a.b, b.b); e.m = _mm_maddubs_epi16 (a.m, b.m);
        if (memcmp (&r, &e, 16)) bad = 1;
    }
    printf ("%s pmaddubsw128 %d vectors\n", bad ? "FAIL" : "ok", N);
    for (bad = 0, it = 0; it < N && !bad; it++)
    {
        V a, r, e; fill (&a, it);
        r.h = vc_pabsw128 (a.h); e.m = _mm_abs_epi16 (a.m);
        if (memcmp (&r, &e, 16)) bad = 1;
    }
    printf ("%s pabsw128 %d vectors\n", bad ? "FAIL" : "ok", N);
    for (bad = 0, it = 0; it < N && !bad; it++)
    {
        /* MOVQ load from every byte offset 0..7 of a 24-byte buffer (no alignment requirement), upper half zeroed */
        uint8_t buf[24]; V r, e; int i, off = it & 7;
        for (i = 0; i < 24; i++) buf[i] = (uint8_t) rnd ();
        r.s = vc_movq_load (buf + off); e.m = _mm_loadl_epi64 ((const __m128i *) (buf + off));
        if (memcmp (&r, &e, 16)) bad = 1;
    }
    printf ("%s movq_load %d vectors\n", bad ? "FAIL" : "ok", N);
    for (bad = 0, it = 0; it < N && !bad; it++)
    {
        /* MOVQ store: exactly 8 bytes written, the neighbours untouched */
        uint8_t b1[24], b2[24]; V a; int i, off = it & 7;
        fill (&a, it);
        for (i = 0; i < 24; i++) b1[i] = b2[i] = (uint8_t) rnd ();
        vc_movq_store (b1 + off, a.s); _mm_storel_epi64 ((__m128i *) (b2 + off), a.m);
        if (memcmp (b1, b2, 24)) bad = 1;
    }
    printf ("%s movq_store %d vectors\n", bad ? "FAIL" : "ok", N);
    return 0;
}
