/* C02 (3b): more C fast paths of pixman-fast-path.c, any direct-colour format of 1/8/16/24/32 bpp, against the
 * C01 spec (spec_op.h) composed with the literal format codecs of spec_format.h:
 *
 *     field_c (dest pixel after)  ==  NARROW_w ( OP_c ( WIDEN (src pixel), WIDEN (mask pixel), WIDEN (dest pixel before) ) )
 *
 * (w = width of channel c in the destination format; absent alpha widens to 0xff, absent colour to 0; narrowing
 * keeps the w most significant bits).  One row (height 1) of VC_W pixels, x offsets of the three images symbolic,
 * ghost pixel in_k symbolic in [0, VC_W).
 *
 *   -DVC_FN=<fast_composite_...>  routine under check
 *   -DVC_SFMT / -DVC_MFMT / -DVC_DFMT  format names of spec_format.h (a8r8g8b8, x8r8g8b8, r5g6b5, r8g8b8, a8, a1 ...)
 *   -DVC_SOLID      source is a solid colour: _pixman_image_get_solid is a stub returning the symbolic a8r8g8b8
 *                   colour in_solid (its own correctness: C09/C10); VC_SFMT is then a8r8g8b8
 *   -DVC_OP / -DVC_MODE  spec operator / 0 no mask, 1 unified (mask alpha), 2 component alpha
 *   -DVC_CH=0..3    channel (0=B 1=G 2=R 3=A; must be present in VC_DFMT) | 4 frame: every destination pixel outside
 *                   [dest_x, dest_x + VC_W) incl. the guard pixels, the whole source and mask rows unchanged
 *                   | 5 (SRC operator only: no arithmetic) all fields at once: defined bits of the destination pixel ==
 *                   NARROW_PIX (WIDEN_PIX (source pixel))
 *   -DVC_W          width (default 3)
 *   -DVC_SX -DVC_MX -DVC_DX   fix the three x offsets for this query (default: symbolic, src/mask in [0,2], dest in [1,2])
 *   -DVC_K          fix the ghost pixel for this query (default: symbolic in [0, VC_W))
 *   -DVC_XBASE      added to the symbolic x offsets in [0,2] of 1-bpp images (to cross a 32-bit word: 30)
 *   -DVC_OWN_MEMCPY (fast_composite_src_memcpy) memcpy is the byte loop below instead of CBMC 6.11's library model, which
 *                   drops the last word of a 12-byte copy between word arrays at symbolic offsets (false alarm, natively
 *                   not reproducible); natively the real memcpy runs
 *
 * pixman_fill (reached by fast_composite_solid_fill only) is replaced by a per-pixel store of the filler's low bpp bits
 * into row 0 (pixman_fill and its implementations: C19).
 */
#if defined (VH_CBMC) && defined (VC_OWN_MEMCPY)
#include <stddef.h>
void *memcpy (void *dst, const void *src, size_t n)
{
    size_t i;
    for (i = 0; i < n; i++) ((unsigned char *) dst)[i] = ((const unsigned char *) src)[i];
    return dst;
}
#endif
#include "pixman-fast-path.c"
#include "spec_op.h"
#include "spec_format.h"
#include "vh.h"
#include "c02.h"

#ifndef VC_W
#define VC_W 3
#endif
#ifndef VC_XBASE
#define VC_XBASE 0
#endif
#define VC_ROW 8 /* pixels per row of the >= 8 bpp images: x offset <= 2, VC_W <= 4, guards */

static uint32_t vc_solid;
uint32_t _pixman_image_get_solid (pixman_implementation_t *imp, pixman_image_t *image, pixman_format_code_t format)
{
    return vc_solid;
}

/* row 0 of the destination only (height is 1 in this harness) */
pixman_bool_t pixman_fill (uint32_t *bits, int stride, int bpp, int x, int y, int width, int height, uint32_t filler)
{
    int i;
    for (i = 0; i < width; i++)
    {
        if (bpp == 1)
        {
            if (filler & 1) bits[(x + i) >> 5] |= 1u << ((x + i) & 31);
            else bits[(x + i) >> 5] &= ~(1u << ((x + i) & 31));
        }
        else if (bpp == 8) ((uint8_t *) bits)[x + i] = (uint8_t) filler;
        else if (bpp == 16) ((uint16_t *) bits)[x + i] = (uint16_t) filler;
        else bits[x + i] = filler;
    }
    return 1;
}

/* storage per bpp: element type, number of elements, number of pixel positions, raw pixel k */
#define VC_T_32 uint32_t
#define VC_T_24 uint8_t
#define VC_T_16 uint16_t
#define VC_T_8  uint8_t
#define VC_T_1  uint32_t
#define VC_NEL_32 VC_ROW
#define VC_NEL_24 (3 * VC_ROW)
#define VC_NEL_16 VC_ROW
#define VC_NEL_8  VC_ROW
#define VC_NEL_1  2
#define VC_NPIX_32 VC_ROW
#define VC_NPIX_24 VC_ROW
#define VC_NPIX_16 VC_ROW
#define VC_NPIX_8  VC_ROW
#define VC_NPIX_1  64
#define VC_XB_32 0
#define VC_XB_24 0
#define VC_XB_16 0
#define VC_XB_8  0
#define VC_XB_1  VC_XBASE
#define VC_GET_32(b, k) ((uint32_t) (b)[k])
#define VC_GET_24(b, k) SF_RAW_24 (b, k)
#define VC_GET_16(b, k) ((uint32_t) (b)[k])
#define VC_GET_8(b, k)  ((uint32_t) (b)[k])
#define VC_GET_1(b, k)  (((b)[(k) >> 5] >> ((k) & 31)) & 1u)
#define VC_TYPE(f) VC_CAT (VC_T_, SF_BPP (f))
#define VC_NEL(f)  VC_CAT (VC_NEL_, SF_BPP (f))
#define VC_NPIX(f) VC_CAT (VC_NPIX_, SF_BPP (f))
#define VC_XB(f)   VC_CAT (VC_XB_, SF_BPP (f))
#define VC_GET(f, b, k) VC_CAT (VC_GET_, SF_BPP (f)) (b, k)
#define VC_CODE(f) VC_CAT (PIXMAN_, f)

#ifndef VC_MFMT
#define VC_MFMT a8
#endif

/* channel under check: offset / width of its field in the destination format */
#if VC_CH == 0
#define VC_OFF SF_BO (VC_DFMT)
#define VC_WID SF_BW (VC_DFMT)
#elif VC_CH == 1
#define VC_OFF SF_GO (VC_DFMT)
#define VC_WID SF_GW (VC_DFMT)
#elif VC_CH == 2
#define VC_OFF SF_RO (VC_DFMT)
#define VC_WID SF_RW (VC_DFMT)
#elif VC_CH == 3
#define VC_OFF SF_AO (VC_DFMT)
#define VC_WID SF_AW (VC_DFMT)
#endif

static pixman_image_t vc_src, vc_msk, vc_dst;

static void vc_bits (pixman_image_t *im, void *bits, int words, pixman_format_code_t fmt, int npix)
{
    im->bits.common.type = BITS;
    im->bits.format = fmt;
    im->bits.common.extended_format_code = fmt;
    im->bits.bits = (uint32_t *) bits;
    im->bits.rowstride = words;
    im->bits.width = npix;
    im->bits.height = 1;
}

void harness (void)
{
    VC_IN_ARRAY (vh_u32, in_src, VC_NEL (VC_SFMT));
    VC_IN_ARRAY (vh_u32, in_msk, VC_NEL (VC_MFMT));
    VC_IN_ARRAY (vh_u32, in_dst, VC_NEL (VC_DFMT));
    VH_IN (vh_u32, in_solid);
#ifdef VC_DX
    /* x offsets fixed per query (masked routines: the symbolic offsets made the queries run for more than an hour) */
    const vh_u32 in_sx = VC_SX, in_mx = VC_MX, in_dx = VC_DX;
#else
    VH_IN (vh_u32, in_sx); VH_IN (vh_u32, in_mx); VH_IN (vh_u32, in_dx);
#endif
#ifdef VC_K
    const vh_u32 in_k = VC_K;   /* ghost pixel fixed per query (masked colour channels: one query per pixel of the row) */
#else
    VH_IN (vh_u32, in_k);
#endif
    VC_TYPE (VC_SFMT) sbuf[VC_NEL (VC_SFMT)] VC_ALIGN16;
    VC_TYPE (VC_MFMT) mbuf[VC_NEL (VC_MFMT)] VC_ALIGN16;
    VC_TYPE (VC_DFMT) dbuf[VC_NEL (VC_DFMT)] VC_ALIGN16, dold[VC_NEL (VC_DFMT)] VC_ALIGN16;
    pixman_composite_info_t info;
    int i;
    uint32_t sx, mx, dx, s32, m32, d32, r;

    VH_ASSUME (in_sx <= 2 && in_mx <= 2 && in_dx >= 1 && in_dx <= 2 && in_k < VC_W);
    sx = in_sx + VC_XB (VC_SFMT); mx = in_mx + VC_XB (VC_MFMT); dx = in_dx + VC_XB (VC_DFMT);
    for (i = 0; i < VC_NEL (VC_SFMT); i++) sbuf[i] = (VC_TYPE (VC_SFMT)) in_src[i];
    for (i = 0; i < VC_NEL (VC_MFMT); i++) mbuf[i] = (VC_TYPE (VC_MFMT)) in_msk[i];
    for (i = 0; i < VC_NEL (VC_DFMT); i++) dold[i] = dbuf[i] = (VC_TYPE (VC_DFMT)) in_dst[i];
    vc_solid = in_solid;
    vc_bits (&vc_src, sbuf, (int) (sizeof sbuf / 4), VC_CODE (VC_SFMT), VC_NPIX (VC_SFMT));
    vc_bits (&vc_msk, mbuf, (int) (sizeof mbuf / 4), VC_CODE (VC_MFMT), VC_NPIX (VC_MFMT));
    vc_bits (&vc_dst, dbuf, (int) (sizeof dbuf / 4), VC_CODE (VC_DFMT), VC_NPIX (VC_DFMT));
    memset (&info, 0, sizeof info);
    info.op = VC_OP == SPOP_OVER ? PIXMAN_OP_OVER : VC_OP == SPOP_ADD ? PIXMAN_OP_ADD : VC_OP == SPOP_IN ? PIXMAN_OP_IN : PIXMAN_OP_SRC;
    info.src_image = &vc_src;
    info.mask_image = VC_MODE ? &vc_msk : (pixman_image_t *) 0;
    info.dest_image = &vc_dst;
    info.src_x = (int32_t) sx; info.mask_x = (int32_t) mx; info.dest_x = (int32_t) dx;
    info.width = VC_W;
    info.height = 1;

    VC_FN ((pixman_implementation_t *) 0, &info);

#if VC_CH == 4
    {
        int ok_d = 1, ok_s = 1;
        for (i = 0; i < VC_NPIX (VC_DFMT); i++)
            if ((i < (int) dx || i >= (int) dx + VC_W) && VC_GET (VC_DFMT, dbuf, i) != VC_GET (VC_DFMT, dold, i)) ok_d = 0;
        for (i = 0; i < VC_NEL (VC_SFMT); i++)
            if (sbuf[i] != (VC_TYPE (VC_SFMT)) in_src[i]) ok_s = 0;
        for (i = 0; i < VC_NEL (VC_MFMT); i++)
            if (mbuf[i] != (VC_TYPE (VC_MFMT)) in_msk[i]) ok_s = 0;
        VH_CHECK ("frame.dest_outside_rectangle_unchanged", ok_d);
        VH_CHECK ("frame.src_mask_unchanged", ok_s);
    }
#else
#ifdef VC_SOLID
    s32 = in_solid;
#else
    r = VC_GET (VC_SFMT, sbuf, sx + in_k);
    s32 = SF_WIDEN_PIX (VC_SFMT, r);
#endif
    r = VC_GET (VC_MFMT, mbuf, mx + in_k);
    m32 = SF_WIDEN_PIX (VC_MFMT, r);
    r = VC_GET (VC_DFMT, dold, dx + in_k);
    d32 = SF_WIDEN_PIX (VC_DFMT, r);
    r = VC_GET (VC_DFMT, dbuf, dx + in_k);
    VH_ASSUME (SPX_PRE (s32, d32));
#if VC_CH == 5
#if VC_OP != SPOP_SRC || VC_MODE != 0
#error "VC_CH=5 is for the unmasked SRC operator"
#endif
    VH_CHECK ("pixel.defined_bits_are_narrowed_source", (r & SF_DEFMASK (VC_DFMT)) == SF_NARROW_PIX (VC_DFMT, s32));
#else
    VH_CHECK ("pixel.channel",
              SF_FIELD (r, VC_OFF, VC_WID) ==
              SF_NARROW (SPX_RESULT (SP_CH (s32, VC_CH), SP_A (s32), SPX_MC (m32, VC_CH), SP_CH (d32, VC_CH), SP_A (d32)), VC_WID));
#endif
#endif
    VH_END ();
}
