/* C02 (3d): the 90 / 270 degree rotation blitters of pixman-fast-path.c (fast_composite_rotate_{90,270}_{8,565,8888}:
 * SRC with a rotation transform, nearest filter, samples inside the source) against the documented meaning of the
 * request: destination pixel (dest_x + x, dest_y + y) receives the source pixel that the NEAREST sampling rule selects
 * for the transformed centre of pixel (src_x + x, src_y + y):
 *
 *     v  = ( (src_x + x) + 1/2 , (src_y + y) + 1/2 )                 16.16 fixed point
 *     90 : ( -v.y + tx ,  v.x + ty )        270 : ( v.y + tx , -v.x + ty )        (rotation matrices 0 -1 / 1 0 and 0 1 / -1 0)
 *     column = floor (x' - e),  row = floor (y' - e)                  e = 1/65536 ("0.5 rounds down")
 *
 * written below with plain integer arithmetic, independently of the routine's tile walk (leading pixels up to the next
 * 64-byte boundary of the destination, aligned tiles of 64 bytes, trailing pixels).
 *
 *   -DVC_ANGLE=90|270   -DVC_SUFFIX=8|565|8888   -DVC_PIX=uint8_t|uint16_t|uint32_t
 *   -DVC_W -DVC_H       size of the composite      -DVC_DX  destination x (fixes the 64-byte phase: leading / tile / trailing split)
 *   -DVC_CH=0 pixel obligation (ghost pixel in_gx, in_gy symbolic) | 4 frame (every destination pixel outside the rectangle unchanged, source unchanged)
 * Geometry of the buffers: destination VC_DROW pixels per row, VC_H + 1 rows; source: VC_SROW pixels per row, VC_SH rows.
 * src_x, src_y, the translation (tx, ty) are symbolic; the precondition is the flag the fast path table demands
 * (FAST_PATH_SAMPLES_COVER_CLIP_NEAREST: every sample lies inside the source).
 */
#include "pixman-fast-path.c"
#include "vh.h"
#include "c02.h"

#define VC_FN VC_CAT (VC_CAT (VC_CAT (fast_composite_rotate_, VC_ANGLE), _), VC_SUFFIX)
#ifndef VC_DX
#define VC_DX 1
#endif
#define VC_DROW (((VC_DX + VC_W + 1) * (int) sizeof (VC_PIX) + 3) / 4 * 4 / (int) sizeof (VC_PIX))
#define VC_DH (VC_H + 1)
/* source: columns needed = VC_H (90/270 swap the axes), rows needed = VC_W; two spare each for the symbolic translation */
#define VC_SROWB ((((VC_H + 2) * (int) sizeof (VC_PIX)) + 3) / 4 * 4)
#define VC_SROW (VC_SROWB / (int) sizeof (VC_PIX))
#define VC_SH (VC_W + 2)

static pixman_image_t vc_src, vc_dst;
static pixman_transform_t vc_tr;

void harness (void)
{
    VC_IN_ARRAY (vh_u32, in_src, VC_SROW * VC_SH);
    VC_IN_ARRAY (vh_u32, in_dst, VC_DROW * VC_DH);
    VH_IN (vh_i32, in_tx); VH_IN (vh_i32, in_ty);          /* translation column of the transform, 16.16 */
    VH_IN (vh_i32, in_sx); VH_IN (vh_i32, in_sy);          /* src_x, src_y */
    VH_IN (vh_u32, in_gx); VH_IN (vh_u32, in_gy);          /* ghost pixel inside the rectangle */
    static VC_PIX sbuf[VC_SROW * VC_SH] __attribute__ ((aligned (64)));
    static VC_PIX dbuf[VC_DROW * VC_DH] __attribute__ ((aligned (64)));
    pixman_composite_info_t info;
    int i, x, y;
    int64_t vx, vy, px, py, col, row;
    int64_t c00, r00, c11, r11;

    VH_ASSUME (in_gx < VC_W && in_gy < VC_H);
    VH_ASSUME (in_sx >= -1000 && in_sx <= 1000 && in_sy >= -1000 && in_sy <= 1000);
    VH_ASSUME (in_tx >= -(1 << 28) && in_tx <= (1 << 28) && in_ty >= -(1 << 28) && in_ty <= (1 << 28));
    /* FAST_PATH_SAMPLES_COVER_CLIP_NEAREST: the samples of the four corner pixels (hence of all) lie inside the source */
#if VC_ANGLE == 90
#define VC_COL(X, Y) ((-(((int64_t) (Y) * 65536) + 32768) + in_tx - 1) >> 16)
#define VC_ROWOF(X, Y) (((((int64_t) (X) * 65536) + 32768) + in_ty - 1) >> 16)
#else
#define VC_COL(X, Y) (((((int64_t) (Y) * 65536) + 32768) + in_tx - 1) >> 16)
#define VC_ROWOF(X, Y) ((-(((int64_t) (X) * 65536) + 32768) + in_ty - 1) >> 16)
#endif
    c00 = VC_COL (in_sx, in_sy); r00 = VC_ROWOF (in_sx, in_sy);
    c11 = VC_COL (in_sx + VC_W - 1, in_sy + VC_H - 1); r11 = VC_ROWOF (in_sx + VC_W - 1, in_sy + VC_H - 1);
    VH_ASSUME (c00 >= 0 && c00 < VC_SROW && c11 >= 0 && c11 < VC_SROW && r00 >= 0 && r00 < VC_SH && r11 >= 0 && r11 < VC_SH);

    for (i = 0; i < VC_SROW * VC_SH; i++) sbuf[i] = (VC_PIX) in_src[i];
    for (i = 0; i < VC_DROW * VC_DH; i++) dbuf[i] = (VC_PIX) in_dst[i];
    memset (&vc_tr, 0, sizeof vc_tr);
#if VC_ANGLE == 90
    vc_tr.matrix[0][1] = -pixman_fixed_1; vc_tr.matrix[1][0] = pixman_fixed_1;
#else
    vc_tr.matrix[0][1] = pixman_fixed_1; vc_tr.matrix[1][0] = -pixman_fixed_1;
#endif
    vc_tr.matrix[0][2] = in_tx; vc_tr.matrix[1][2] = in_ty; vc_tr.matrix[2][2] = pixman_fixed_1;
    vc_src.bits.common.type = BITS; vc_src.bits.common.transform = &vc_tr;
    vc_src.bits.bits = (uint32_t *) sbuf; vc_src.bits.rowstride = VC_SROWB / 4; vc_src.bits.width = VC_SROW; vc_src.bits.height = VC_SH;
    vc_dst.bits.common.type = BITS;
    vc_dst.bits.bits = (uint32_t *) dbuf; vc_dst.bits.rowstride = VC_DROW * (int) sizeof (VC_PIX) / 4; vc_dst.bits.width = VC_DROW; vc_dst.bits.height = VC_DH;
    memset (&info, 0, sizeof info);
    info.op = PIXMAN_OP_SRC;
    info.src_image = &vc_src; info.dest_image = &vc_dst;
    info.src_x = in_sx; info.src_y = in_sy; info.dest_x = VC_DX; info.dest_y = 0;
    info.width = VC_W; info.height = VC_H;

    VC_FN ((pixman_implementation_t *) 0, &info);

#if VC_CH == 4
    {
        int ok_d = 1, ok_s = 1;
        for (y = 0; y < VC_DH; y++)
            for (x = 0; x < VC_DROW; x++)
                if (!(y < VC_H && x >= VC_DX && x < VC_DX + VC_W) && dbuf[y * VC_DROW + x] != (VC_PIX) in_dst[y * VC_DROW + x]) ok_d = 0;
        for (i = 0; i < VC_SROW * VC_SH; i++) if (sbuf[i] != (VC_PIX) in_src[i]) ok_s = 0;
        VH_CHECK ("frame.dest_outside_rectangle_unchanged", ok_d);
        VH_CHECK ("frame.src_unchanged", ok_s);
    }
#else
    vx = ((int64_t) in_sx + in_gx) * 65536 + 32768;     /* centre of the pixel, 16.16 */
    vy = ((int64_t) in_sy + in_gy) * 65536 + 32768;
#if VC_ANGLE == 90
    px = -vy + in_tx; py = vx + in_ty;
#else
    px = vy + in_tx; py = -vx + in_ty;
#endif
    col = (px - 1) >> 16; row = (py - 1) >> 16;          /* nearest: floor (p - e) */
    VH_CHECK ("rotate.sample_inside_source", col >= 0 && col < VC_SROW && row >= 0 && row < VC_SH);
    VH_CHECK ("rotate.dest_pixel_is_nearest_sample_of_rotated_centre",
              dbuf[in_gy * VC_DROW + VC_DX + in_gx] == (VC_PIX) in_src[row * VC_SROW + col]);
#endif
    VH_END ();
}
