/* C02 (1): _pixman_disabled / _pixman_choose_implementation (real pixman-implementation.c).
 *
 *   -DVC_DISABLED -DVC_NAME=<"fast"|"mmx"|"sse2"|"ssse3"|"wholeops">
 *       _pixman_disabled (name) == "name occurs in $PIXMAN_DISABLE as a space-separated token"
 *       for every environment string of length <= VC_ENVMAX (default 12) over the alphabet
 *       {any byte}, and for an unset variable (FALSE).  Specification, written from the
 *       documentation, independent of the parsing loop:
 *           exists p:  (p == 0 or env[p-1] == ' ')  and  env[p .. p+len) == name
 *                      and (env[p+len] == ' ' or env[p+len] == 0)
 *   -DVC_CHOOSE
 *       _pixman_choose_implementation with stub constructors (every create_* pushes one
 *       implementation with its own table/combiners/iterators; the x86 stub pushes VC_NARCH = 0..3
 *       of them, one job each = any CPU): chain order is noop -> arch... -> fast (unless "fast" is a token) -> general,
 *       toplevel is the head for all; with the token "wholeops" every implementation but the
 *       LAST has an empty fast-path table (first entry PIXMAN_OP_NONE) and the last keeps its
 *       table; without it every table is the implementation's own; combiners, iterators, blt
 *       and fill are never touched.
 *
 * getenv: stub under CBMC (returns the symbolic string or NULL); natively setenv/unsetenv and
 * the C library's getenv.
 */
#include "pixman-implementation.c"
#include "vh.h"
#include "c02.h"

#ifndef VC_ENVMAX
#define VC_ENVMAX 12
#endif

static char vc_env[VC_ENVMAX + 1];
static int vc_env_set;

#ifdef VH_CBMC
char *getenv (const char *name)
{
    __CPROVER_assert (name[0] == 'P' && name[1] == 'I' && name[2] == 'X' && name[3] == 'M' && name[4] == 'A' && name[5] == 'N' &&
                      name[6] == '_' && name[7] == 'D' && name[8] == 'I' && name[9] == 'S' && name[10] == 'A' && name[11] == 'B' &&
                      name[12] == 'L' && name[13] == 'E' && name[14] == 0, "disabled.reads_only_PIXMAN_DISABLE");
    return vc_env_set ? vc_env : (char *) 0;
}
#endif

/* "name occurs as a space-separated token of env" */
static int vc_is_token (const char *env, int envlen, const char *name, int len)
{
    int p, i, found = 0;
    for (p = 0; p + len <= envlen; p++)
    {
        int eq = 1;
        for (i = 0; i < len; i++)
            if (env[p + i] != name[i])
                eq = 0;
        if (eq && (p == 0 || env[p - 1] == ' ') && (env[p + len] == ' ' || env[p + len] == 0))
            found = 1;
    }
    return found;
}

static int vc_setup_env (const vh_u8 *bytes, vh_u32 envlen, vh_u32 set)
{
    int i;
    for (i = 0; i < VC_ENVMAX; i++)
        vc_env[i] = (char) bytes[i];
    vc_env[envlen] = 0;
    vc_env_set = set != 0;
#ifdef VH_REPLAY
    if (vc_env_set) setenv ("PIXMAN_DISABLE", vc_env, 1); else unsetenv ("PIXMAN_DISABLE");
#endif
    return 0;
}

#if defined(VC_DISABLED)

void harness (void)
{
    VC_IN_ARRAY (vh_u8, in_env, VC_ENVMAX);
#ifdef VC_ENVLEN
    const vh_u32 in_envlen = VC_ENVLEN; /* one string length per query */
#else
    VH_IN (vh_u32, in_envlen);
#endif
    VH_IN (vh_u32, in_set);
    static const char name[] = VC_NAME;
    int i, len = (int) sizeof name - 1;
    pixman_bool_t r;

    VH_ASSUME (in_envlen <= VC_ENVMAX);
    for (i = 0; i < VC_ENVMAX; i++)
        VH_ASSUME (i >= (int) in_envlen || in_env[i] != 0); /* in_envlen IS the string length */
    vc_setup_env (in_env, in_envlen, in_set);

    r = _pixman_disabled (name);

    VH_CHECK ("disabled.true_iff_name_is_a_space_separated_token",
              (r != FALSE) == (in_set != 0 && vc_is_token (vc_env, (int) in_envlen, name, len)));
    VH_CHECK ("disabled.result_is_TRUE_or_FALSE", r == TRUE || r == FALSE);
    VH_END ();
}

#elif defined(VC_CHOOSE)

#define VC_POOL 8
static pixman_implementation_t vc_pool[VC_POOL];
static pixman_fast_path_t vc_own_tab[VC_POOL][2];
static pixman_iter_info_t vc_own_iter[VC_POOL][1];
static int vc_n;
#ifndef VC_NARCH
#define VC_NARCH 3
#endif
static void vc_comb (pixman_implementation_t *imp, pixman_op_t op, uint32_t *d, const uint32_t *s, const uint32_t *m, int w) { }
static void vc_comp (pixman_implementation_t *imp, pixman_composite_info_t *info) { }
static pixman_bool_t vc_blt (pixman_implementation_t *imp, uint32_t *s, uint32_t *d, int a, int b, int c, int e, int f, int g, int h, int i, int j, int k) { return FALSE; }
static pixman_bool_t vc_fill (pixman_implementation_t *imp, uint32_t *b, int s, int bpp, int x, int y, int w, int h, uint32_t f) { return FALSE; }

/* pool slots are fixed per kind (0 general, 1 fast, 2..4 arch, 5 noop); vc_seq records creation order */
static int vc_seq[VC_POOL];
static pixman_implementation_t *vc_push (pixman_implementation_t *fallback, int slot)
{
    pixman_implementation_t *imp, *d;
    __CPROVER_assert (vc_n < VC_POOL, "choose.pool_large_enough");
    imp = &vc_pool[slot];
    vc_own_tab[slot][0].op = PIXMAN_OP_any; vc_own_tab[slot][0].func = vc_comp;
    vc_own_tab[slot][1].op = PIXMAN_OP_NONE;
    vc_own_iter[slot][0].format = PIXMAN_null;
    vc_seq[vc_n] = slot;
    /* what the real _pixman_implementation_create does (checked on its own in job create.*) */
    imp->fallback = fallback;
    imp->fast_paths = vc_own_tab[slot];
    for (d = imp; d != (pixman_implementation_t *) 0; d = d->fallback)
        d->toplevel = imp;
    imp->iter_info = vc_own_iter[slot];
    imp->blt = vc_blt;
    imp->fill = vc_fill;
    imp->combine_32[PIXMAN_OP_OVER] = vc_comb;
    imp->combine_32_ca[PIXMAN_OP_ADD] = vc_comb;
    vc_n++;
    return imp;
}
pixman_implementation_t *_pixman_implementation_create_general (void) { return vc_push ((pixman_implementation_t *) 0, 0); }
pixman_implementation_t *_pixman_implementation_create_fast_path (pixman_implementation_t *f) { return vc_push (f, 1); }
pixman_implementation_t *_pixman_implementation_create_noop (pixman_implementation_t *f) { return vc_push (f, 5); }
pixman_implementation_t *_pixman_x86_get_implementations (pixman_implementation_t *imp)
{
#if VC_NARCH >= 1
    imp = vc_push (imp, 2);
#endif
#if VC_NARCH >= 2
    imp = vc_push (imp, 3);
#endif
#if VC_NARCH >= 3
    imp = vc_push (imp, 4);
#endif
    return imp;
}
pixman_implementation_t *_pixman_arm_get_implementations (pixman_implementation_t *imp) { return imp; }
pixman_implementation_t *_pixman_ppc_get_implementations (pixman_implementation_t *imp) { return imp; }
pixman_implementation_t *_pixman_mips_get_implementations (pixman_implementation_t *imp) { return imp; }

void harness (void)
{
    /* the environment is a literal per query: -DVC_ENVSTR="..." or unset (-DVC_ENVUNSET); what
     * _pixman_disabled makes of ANY string is the subject of the disabled.* jobs */
#ifdef VC_ENVUNSET
    static const char lit[] = "";
    const vh_u32 in_set = 0;
#else
    static const char lit[] = VC_ENVSTR;
    const vh_u32 in_set = 1;
#endif
    const vh_u32 in_envlen = sizeof lit - 1;
    vh_u8 in_env[VC_ENVMAX];
    VH_IN (vh_u32, in_dummy);
    pixman_implementation_t *top, *p;
    int expect[VC_POOL], en = 0;
    int i, no_fast, wholeops, order_ok = 1, top_ok = 1, tabs_ok = 1, rest_ok = 1;

    for (i = 0; i < VC_ENVMAX; i++)
        in_env[i] = i < (int) in_envlen ? (vh_u8) lit[i] : 0;
    vc_setup_env (in_env, in_envlen, in_set);

    top = _pixman_choose_implementation ();

    no_fast = in_set != 0 && vc_is_token (vc_env, (int) in_envlen, "fast", 4);
    wholeops = in_set != 0 && vc_is_token (vc_env, (int) in_envlen, "wholeops", 8);
    /* expected chain, head first: noop, arch (last created first), fast unless disabled, general */
    expect[en++] = 5;
#if VC_NARCH >= 3
    expect[en++] = 4;
#endif
#if VC_NARCH >= 2
    expect[en++] = 3;
#endif
#if VC_NARCH >= 1
    expect[en++] = 2;
#endif
    if (!no_fast)
        expect[en++] = 1;
    expect[en++] = 0;

    VH_CHECK ("choose.number_of_implementations", vc_n == en);
    VH_CHECK ("choose.head_is_noop", top == &vc_pool[5]);
    p = top;
    for (i = 0; i < VC_POOL; i++)
        if (i < en)
        {
            int slot = expect[i];
            int last = i == en - 1;
            if (p != &vc_pool[slot])
            {
                order_ok = 0;
                break;
            }
            if (p->toplevel != top)
                top_ok = 0;
            if (wholeops && !last)
            {
                if (p->fast_paths == (const pixman_fast_path_t *) 0 || p->fast_paths[0].op != PIXMAN_OP_NONE)
                    tabs_ok = 0;
            }
            else if (p->fast_paths != vc_own_tab[slot])
                tabs_ok = 0;
            if (p->iter_info != vc_own_iter[slot] || p->blt != vc_blt || p->fill != vc_fill ||
                p->combine_32[PIXMAN_OP_OVER] != vc_comb || p->combine_32_ca[PIXMAN_OP_ADD] != vc_comb ||
                p->combine_32[PIXMAN_OP_SRC] != (pixman_combine_32_func_t) 0)
                rest_ok = 0;
            p = p->fallback;
        }
    VH_CHECK ("choose.chain_is_noop_arch_fast_general_in_that_order", order_ok && p == (pixman_implementation_t *) 0);
    VH_CHECK ("choose.toplevel_is_the_head_for_all", top_ok);
    VH_CHECK ("choose.wholeops_empties_every_table_but_the_last_and_nothing_else_does", tabs_ok);
    VH_CHECK ("choose.combiners_iterators_blt_fill_untouched", rest_ok);
    VH_END ();
}

#else
#error "define VC_DISABLED or VC_CHOOSE"
#endif
