/* models_selftest.c — native differential test of models/sse2_models_combine.h: every C model
 * against the real instruction (gcc builtin), on corner and random vectors.  Built and run by
 * the PyJob models.selftest (props/C02.py); prints "ok <builtin> <n>" or "FAIL <builtin> <detail>". */
#define VC_MODELS_SELFTEST
#define __CPROVER_assert(c, s) ((void) 0)
#include <stdio.h>
#include <string.h>
#include <stdint.h>
#include <emmintrin.h>
#include <tmmintrin.h>
#include "sse2_models_combine.h"

static uint64_t rs = 0x9e3779b97f4a7c15ull;
static uint64_t rnd (void) { rs ^= rs << 13; rs ^= rs >> 7; rs ^= rs << 17; return rs; }
static const uint16_t corner[] = { 0, 1, 0x7f, 0x80, 0xff, 0x100, 0x101, 0x7fff, 0x8000, 0x8001, 0xff00, 0xfffe, 0xffff, 0x00ff };
typedef union { __m128i m; vc_v16qi b; vc_v8hi h; vc_v4si s; vc_v2di d; uint16_t u16[8]; uint64_t u64[2]; } V;

static void fill (V *v, int it)
{
    int i;
    if (it < 2000)
        for (i = 0; i < 8; i++) v->u16[i] = corner[rnd () % (sizeof corner / sizeof corner[0])];
    else if (it < 4000)
        for (i = 0; i < 8; i++) v->u16[i] = (uint16_t) (rnd () & ((it & 1) ? 0x00ff : 0x80ff));
    else
    { v->u64[0] = rnd (); v->u64[1] = rnd (); }
}
#define N 200000
#define T2(name, ty, fld, rfld)                                                        \
    do { int it, bad = 0; for (it = 0; it < N && !bad; it++) { V a, b, r, e; fill (&a, it); fill (&b, it + 1); \
         r.rfld = vc_##name (a.fld, b.fld); e.m = (__m128i) __builtin_ia32_##name (a.fld, b.fld);  \
         if (memcmp (&r, &e, 16)) bad = 1; }                                             \
         printf ("%s %s %d vectors\n", bad ? "FAIL" : "ok", #name, N); } while (0)
#define TI(name, fld, imm)                                                              \
    do { int it, bad = 0; for (it = 0; it < N / 8 && !bad; it++) { V a, r, e; fill (&a, it);       \
         r.fld = vc_##name (a.fld, imm); e.m = (__m128i) __builtin_ia32_##name (a.fld, imm);   \
         if (memcmp (&r, &e, 16)) bad = 1; }                                             \
         if (bad) printf ("FAIL %s imm %d\n", #name, imm); else okc++; } while (0)

int main (void)
{
    int okc;
    T2 (packssdw128, , s, h);
    T2 (packuswb128, , h, b);
    T2 (paddusb128, , b, b);
    T2 (paddusw128, , h, h);
    T2 (pmaddwd128, , h, s);
    T2 (pmulhuw128, , h, h);
    T2 (punpckhbw128, , b, b);
    T2 (punpcklbw128, , b, b);
    T2 (punpckhwd128, , h, h);
    T2 (punpcklwd128, , h, h);
    T2 (punpcklqdq128, , d, d);
    T2 (pshufb128, , b, b);
    { int it, bad = 0; for (it = 0; it < N && !bad; it++) { V a; fill (&a, it);
          if (vc_pmovmskb128 (a.b) != __builtin_ia32_pmovmskb128 (a.b)) bad = 1; }
      printf ("%s pmovmskb128 %d vectors\n", bad ? "FAIL" : "ok", N); }
    { int it, bad = 0; for (it = 0; it < N && !bad; it++) { V a; fill (&a, it);
          if (vc_vec_ext_v4si (a.s, 0) != __builtin_ia32_vec_ext_v4si (a.s, 0) || vc_vec_ext_v4si (a.s, 3) != __builtin_ia32_vec_ext_v4si (a.s, 3)) bad = 1; }
      printf ("%s vec_ext_v4si %d vectors\n", bad ? "FAIL" : "ok", N); }
    /* immediates: the ones pixman uses, plus boundary counts */
#define SH(name, fld) okc = 0; TI (name, fld, 0); TI (name, fld, 1); TI (name, fld, 3); TI (name, fld, 5); TI (name, fld, 6); TI (name, fld, 8); \
    TI (name, fld, 11); TI (name, fld, 15); TI (name, fld, 16); TI (name, fld, 24); TI (name, fld, 31); TI (name, fld, 32); TI (name, fld, 200); \
    printf ("%s %s 13 immediates\n", okc == 13 ? "ok" : "FAIL", #name)
    SH (pslldi128, s); SH (psrldi128, s); SH (psradi128, s); SH (psrlwi128, h);
#define SF(name, fld) okc = 0; TI (name, fld, 0x00); TI (name, fld, 0xff); TI (name, fld, 0x1b); TI (name, fld, 0x44); TI (name, fld, 0xc6); \
    TI (name, fld, 0xe4); TI (name, fld, 0x39); TI (name, fld, 0x93); TI (name, fld, 0x55); TI (name, fld, 0xaa); \
    printf ("%s %s 10 immediates\n", okc == 10 ? "ok" : "FAIL", #name)
    SF (pshufd, s); SF (pshuflw, h); SF (pshufhw, h);
    return 0;
}
