/* C02 (3e): the per-pixel operator of the macro-generated nearest-neighbour scalers of pixman-fast-path.c
 * (FAST_NEAREST_SCANLINE: scaled_nearest_scanline_<fmt>_<repeat>_<OP>, and the hand-unrolled
 * scaled_nearest_scanline_565_565_SRC) against the C01 spec composed with the format codecs:
 *
 *     field_c (dst[k] after) == NARROW ( OP_c ( WIDEN (src[(vx + k * unit_x) >> 16]), -, WIDEN (dst[k] before) ) )
 *
 * i.e. pixel k of the scanline samples the source at the 16.16 position vx + k * unit_x (truncated) and combines it
 * with OP (SRC or OVER).  Only the scanline helper is under check here (2-pixel main loop + 1-pixel tail; 4/2/1 for the
 * unrolled 565 copy); the FAST_NEAREST_MAINLOOP geometry (repeat modes, vx set-up, stride walk) is NOT.
 * COVER / NONE / PAD instances are the same macro text; the NORMAL-repeat instances (vx kept negative, wrapped inside
 * the loop) are not covered.
 *
 *   -DVC_FN=<scanline function>  -DVC_SFMT / -DVC_DFMT  -DVC_OP (SPOP_SRC | SPOP_OVER) -DVC_MODE=0
 *   -DVC_W  width   -DVC_CH=0..3 channel | 4 frame (guard pixels before / after the scanline, source unchanged) | 5 (SRC) all defined bits
 *   -DVC_K  fixed ghost pixel (default symbolic)
 */
#include "pixman-fast-path.c"
#include "spec_fst.h"
#include "vh.h"
#include "c02.h"

#define VC_T_32 uint32_t
#define VC_T_16 uint16_t
#define VC_TYPE(f) VC_CAT (VC_T_, SF_BPP (f))
#define VC_NS 8      /* source pixels */

void harness (void)
{
    VC_IN_ARRAY (vh_u32, in_src, VC_NS);
    VC_IN_ARRAY (vh_u32, in_dst, VC_W + 2);
    VH_IN (vh_i32, in_vx); VH_IN (vh_i32, in_ux);
#ifdef VC_K
    const vh_u32 in_k = VC_K;
#else
    VH_IN (vh_u32, in_k);
#endif
    VC_TYPE (VC_SFMT) sbuf[VC_NS];
    VC_TYPE (VC_DFMT) dbuf[VC_W + 2];
    int i;
    uint32_t s, d, r;
    int64_t pos;

    VH_ASSUME (in_k < VC_W);
    /* the caller's guarantee (COVER: every sample inside the source; unit_x >= 0 as in every caller with a positive scale) */
    VH_ASSUME (in_vx >= 0 && in_ux >= 0 && in_ux <= (VC_NS << 16) && (int64_t) in_vx + (int64_t) (VC_W - 1) * in_ux < ((int64_t) VC_NS << 16));
    for (i = 0; i < VC_NS; i++) sbuf[i] = (VC_TYPE (VC_SFMT)) in_src[i];
    for (i = 0; i < VC_W + 2; i++) dbuf[i] = (VC_TYPE (VC_DFMT)) in_dst[i];

    VC_FN (dbuf + 1, sbuf, VC_W, in_vx, in_ux, (pixman_fixed_t) (VC_NS << 16), 0);

#if VC_CH == 4
    {
        int ok_s = 1;
        for (i = 0; i < VC_NS; i++) if (sbuf[i] != (VC_TYPE (VC_SFMT)) in_src[i]) ok_s = 0;
        VH_CHECK ("frame.guard_pixels_unchanged", dbuf[0] == (VC_TYPE (VC_DFMT)) in_dst[0] && dbuf[VC_W + 1] == (VC_TYPE (VC_DFMT)) in_dst[VC_W + 1]);
        VH_CHECK ("frame.src_unchanged", ok_s);
    }
#else
    pos = (int64_t) in_vx + (int64_t) in_k * in_ux;
    s = (VC_TYPE (VC_SFMT)) in_src[pos >> 16];
    d = (VC_TYPE (VC_DFMT)) in_dst[1 + in_k];
    r = dbuf[1 + in_k];
#if VC_CH == 5
    VH_CHECK ("nearest.defined_bits_are_narrowed_sample", (r & SF_DEFMASK (VC_DFMT)) == SF_NARROW_PIX (VC_DFMT, SF_WIDEN_PIX (VC_SFMT, s)));
#else
    VH_CHECK ("nearest.pixel_is_op_of_sample", FST_POST (VC_SFMT, s, a8, 0u, VC_DFMT, d, r));
#endif
#endif
    VH_END ();
}
