/* C02 (2b): the whole-row SSE2 composite routines of pixman-sse2.c (sse2_composite_*: own head / vector body / tail
 * loops, not just a per-row call of a combiner) against the C01 spec composed with the literal format codecs:
 *
 *     field_c (dest pixel after)  ==  NARROW_w ( OP_c ( WIDEN (src pixel), WIDEN (mask pixel), WIDEN (dest pixel before) ) )
 *
 * under the trusted C models of the __builtin_ia32_* builtins (models/sse2_models_combine.h).  The mask_* constants
 * are initialised by the REAL constructor _pixman_implementation_create_sse2.  One row (height 1); destination,
 * source and mask x offsets are FIXED per query (they decide the 16-byte phase of the destination, i.e. how many
 * pixels the scalar head loop, the vector body and the scalar tail loop get), every pixel value is symbolic, the
 * ghost pixel in_k is symbolic in [0, VC_W) unless -DVC_K fixes it.
 *
 *   -DVC_FN=<sse2_composite_...>   -DVC_SFMT / -DVC_MFMT / -DVC_DFMT   format names of spec_format.h (8/16/32 bpp)
 *   -DVC_SOLID   source solid (stub _pixman_image_get_solid returns in_solid for the source image)
 *   -DVC_MSOLID  mask solid   (the stub returns in_msolid for the mask image; spec: unified mask = its alpha)
 *   -DVC_PIXBUF  "pixbuf" request (pixman_image_composite32: source x8b8g8r8 and mask a8r8g8b8 share the SAME pixel
 *                buffer, i.e. a non-premultiplied a8b8g8r8 pixbuf): the mask image is a second header on the source row and
 *                the spec is the ordinary one for that request, OVER with a unified mask,
 *                s = WIDEN_x8b8g8r8 (p), m = WIDEN_a8r8g8b8 (p) for the same raw pixel p  (VC_SFMT = x8b8g8r8, VC_MODE = 1)
 *   -DVC_OP / -DVC_MODE / -DVC_CH (0..3 | 4 frame)   -DVC_W  -DVC_DX -DVC_SX -DVC_MX  -DVC_ROW (pixels per row)
 *
 * Alignment: CBMC places every object at offset 0 of its own address space and (uintptr_t) p & 15 is the low bits of
 * the offset, i.e. objects are 16-byte aligned; natively the buffers are declared aligned (16).
 * pixman_fill (reached by add_n_8888 / add_n_8 / in_n_8 for the colours 0 / ~0) is replaced by a per-pixel store
 * of the filler into row 0 (its own correctness and that of its implementations: C19).
 */
#ifdef VH_CBMC
#include "sse2_models_combine.h"
#endif
#include "pixman-sse2.c"
#include "spec_op.h"
#include "spec_format.h"
#include "vh.h"
#include "c02.h"

#ifndef VC_MFMT
#define VC_MFMT a8
#endif
#ifndef VC_SX
#define VC_SX 0
#endif
#ifndef VC_MX
#define VC_MX 0
#endif

#define VC_T_32 uint32_t
#define VC_T_16 uint16_t
#define VC_T_8  uint8_t
#define VC_TYPE(f) VC_CAT (VC_T_, SF_BPP (f))
#define VC_CODE(f) VC_CAT (PIXMAN_, f)

#if VC_CH == 0
#define VC_OFF SF_BO (VC_DFMT)
#define VC_WID SF_BW (VC_DFMT)
#elif VC_CH == 1
#define VC_OFF SF_GO (VC_DFMT)
#define VC_WID SF_GW (VC_DFMT)
#elif VC_CH == 2
#define VC_OFF SF_RO (VC_DFMT)
#define VC_WID SF_RW (VC_DFMT)
#elif VC_CH == 3
#define VC_OFF SF_AO (VC_DFMT)
#define VC_WID SF_AW (VC_DFMT)
#endif

static pixman_implementation_t vc_imp;
static pixman_image_t vc_src, vc_msk, vc_dst;
static uint32_t vc_solid, vc_msolid;

pixman_implementation_t *
_pixman_implementation_create (pixman_implementation_t *fallback, const pixman_fast_path_t *fast_paths)
{
    memset (&vc_imp, 0, sizeof vc_imp);
    vc_imp.fallback = fallback;
    vc_imp.fast_paths = fast_paths;
    return &vc_imp;
}

uint32_t _pixman_image_get_solid (pixman_implementation_t *imp, pixman_image_t *image, pixman_format_code_t format)
{
    return image == &vc_msk ? vc_msolid : vc_solid;
}

/* row 0 of the destination only (height is 1 in this harness) */
pixman_bool_t pixman_fill (uint32_t *bits, int stride, int bpp, int x, int y, int width, int height, uint32_t filler)
{
    int i;
    for (i = 0; i < width; i++)
    {
        if (bpp == 8) ((uint8_t *) bits)[x + i] = (uint8_t) filler;
        else if (bpp == 16) ((uint16_t *) bits)[x + i] = (uint16_t) filler;
        else bits[x + i] = filler;
    }
    return 1;
}

static void vc_bits (pixman_image_t *im, void *bits, int words, pixman_format_code_t fmt)
{
    im->bits.common.type = BITS;
    im->bits.format = fmt;
    im->bits.common.extended_format_code = fmt;
    im->bits.bits = (uint32_t *) bits;
    im->bits.rowstride = words;
    im->bits.width = VC_ROW;
    im->bits.height = 1;
}

void harness (void)
{
#ifdef VC_SLICED   /* query run with --slice-formula: see c02.h */
    VC_IN_ARRAY_ASSIGNED (vh_u32, in_src, VC_ROW);
    VC_IN_ARRAY_ASSIGNED (vh_u32, in_msk, VC_ROW);
    VC_IN_ARRAY_ASSIGNED (vh_u32, in_dst, VC_ROW);
#else
    VC_IN_ARRAY (vh_u32, in_src, VC_ROW);
    VC_IN_ARRAY (vh_u32, in_msk, VC_ROW);
    VC_IN_ARRAY (vh_u32, in_dst, VC_ROW);
#endif
    VH_IN (vh_u32, in_solid);
    VH_IN (vh_u32, in_msolid);
#ifndef VC_K
    VH_IN (vh_u32, in_k);
#define VC_KK in_k
#else
#define VC_KK VC_K
#endif
    VC_TYPE (VC_SFMT) sbuf[VC_ROW] VC_ALIGN16;
    VC_TYPE (VC_MFMT) mbuf[VC_ROW] VC_ALIGN16;
    VC_TYPE (VC_DFMT) dbuf[VC_ROW] VC_ALIGN16;
    pixman_composite_info_t info;
    pixman_implementation_t *imp;
    int i;
    uint32_t s32, m32, d32, r;

#ifndef VC_K
    VH_ASSUME (in_k < VC_W);
#endif
    for (i = 0; i < VC_ROW; i++)
    {
        sbuf[i] = (VC_TYPE (VC_SFMT)) in_src[i]; mbuf[i] = (VC_TYPE (VC_MFMT)) in_msk[i]; dbuf[i] = (VC_TYPE (VC_DFMT)) in_dst[i];
    }
    vc_solid = in_solid; vc_msolid = in_msolid;
    vc_bits (&vc_src, sbuf, (int) (sizeof sbuf / 4), VC_CODE (VC_SFMT));
#ifdef VC_PIXBUF
    vc_bits (&vc_msk, sbuf, (int) (sizeof sbuf / 4), PIXMAN_a8r8g8b8);
#else
    vc_bits (&vc_msk, mbuf, (int) (sizeof mbuf / 4), VC_CODE (VC_MFMT));
#endif
    vc_bits (&vc_dst, dbuf, (int) (sizeof dbuf / 4), VC_CODE (VC_DFMT));
    memset (&info, 0, sizeof info);
    info.op = VC_PIXOP;
    info.src_image = &vc_src;
    info.mask_image = VC_MODE ? &vc_msk : (pixman_image_t *) 0;
    info.dest_image = &vc_dst;
#ifdef VC_PIXBUF
    info.src_x = VC_SX; info.mask_x = VC_SX; info.dest_x = VC_DX;
#else
    info.src_x = VC_SX; info.mask_x = VC_MX; info.dest_x = VC_DX;
#endif
    info.width = VC_W;
    info.height = 1;

    imp = _pixman_implementation_create_sse2 ((pixman_implementation_t *) 0);
    VC_FN (imp, &info);

#if VC_CH == 4
    {
        int ok_d = 1, ok_s = 1;
        for (i = 0; i < VC_ROW; i++)
        {
            if ((i < VC_DX || i >= VC_DX + VC_W) && dbuf[i] != (VC_TYPE (VC_DFMT)) in_dst[i]) ok_d = 0;
            if (sbuf[i] != (VC_TYPE (VC_SFMT)) in_src[i] || mbuf[i] != (VC_TYPE (VC_MFMT)) in_msk[i]) ok_s = 0;
        }
        VH_CHECK ("frame.dest_outside_rectangle_unchanged", ok_d);
        VH_CHECK ("frame.src_mask_unchanged", ok_s);
    }
#else
#ifdef VC_SOLID
    s32 = in_solid;
#else
    r = (VC_TYPE (VC_SFMT)) in_src[VC_SX + VC_KK];
    s32 = SF_WIDEN_PIX (VC_SFMT, r);
#endif
#ifdef VC_MSOLID
    m32 = in_msolid;
#elif defined (VC_PIXBUF)
    r = (uint32_t) in_src[VC_SX + VC_KK];
    m32 = SF_WIDEN_PIX (a8r8g8b8, r);
#else
    r = (VC_TYPE (VC_MFMT)) in_msk[VC_MX + VC_KK];
    m32 = SF_WIDEN_PIX (VC_MFMT, r);
#endif
    r = (VC_TYPE (VC_DFMT)) in_dst[VC_DX + VC_KK];
    d32 = SF_WIDEN_PIX (VC_DFMT, r);
    r = dbuf[VC_DX + VC_KK];
    VH_ASSUME (SPX_PRE (s32, d32));
    VH_CHECK ("pixel.channel",
              SF_FIELD (r, VC_OFF, VC_WID) ==
              SF_NARROW (SPX_RESULT (SP_CH (s32, VC_CH), SP_A (s32), SPX_MC (m32, VC_CH), SP_CH (d32, VC_CH), SP_A (d32)), VC_WID));
#endif
    VH_END ();
}
