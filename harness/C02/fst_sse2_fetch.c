/* C02 (2c): the SSE2 scanline fetchers of pixman-sse2.c (sse2_fetch_x8r8g8b8 / sse2_fetch_r5g6b5 / sse2_fetch_a8: scalar
 * head up to the next 16-byte boundary of the BUFFER, vector body, scalar tail) against the format codec of
 * spec_format.h: every fetched pixel is WIDEN of the raw source pixel,
 *
 *     buffer[k] == WIDEN_PIX (format, raw pixel k of the row)          for a ghost pixel k
 *
 * The fetcher is taken from the table the REAL constructor installs (imp->iter_info: entry whose format is VC_FMT), so
 * a wrong table binding fails too.  Also: the function returns iter->buffer, iter->bits advances by iter->stride, the
 * words of the buffer outside [0, width) and the source row are unchanged.
 *
 *   -DVC_FMT=x8r8g8b8|r5g6b5|a8   -DVC_W width   -DVC_BOFF buffer phase in pixels (16-byte phase of the destination buffer)
 *   -DVC_SOFF source phase in pixels   -DVC_CH=0 pixel | 4 frame
 */
#ifdef VH_CBMC
#include "sse2_models_combine.h"
#endif
#include "pixman-sse2.c"
#include "spec_format.h"
#include "vh.h"
#include "c02.h"

#define VC_T_32 uint32_t
#define VC_T_16 uint16_t
#define VC_T_8  uint8_t
#define VC_TYPE(f) VC_CAT (VC_T_, SF_BPP (f))
#define VC_CODE(f) VC_CAT (PIXMAN_, f)
#ifndef VC_SOFF
#define VC_SOFF 1
#endif
#define VC_NB (4 + VC_BOFF + VC_W + 4)
#define VC_NSRC (VC_SOFF + VC_W + 4)

static pixman_implementation_t vc_imp;

pixman_implementation_t *
_pixman_implementation_create (pixman_implementation_t *fallback, const pixman_fast_path_t *fast_paths)
{
    memset (&vc_imp, 0, sizeof vc_imp);
    vc_imp.fallback = fallback;
    vc_imp.fast_paths = fast_paths;
    return &vc_imp;
}

void harness (void)
{
    VC_IN_ARRAY (vh_u32, in_src, VC_NSRC);
    VC_IN_ARRAY (vh_u32, in_buf, VC_NB);
    VH_IN (vh_i32, in_stride);
    VH_IN (vh_u32, in_k);
    VC_TYPE (VC_FMT) sbuf[VC_NSRC] VC_ALIGN16;
    uint32_t buf[VC_NB] VC_ALIGN16;
    pixman_iter_t it;
    pixman_implementation_t *imp;
    const pixman_iter_info_t *e;
    pixman_iter_get_scanline_t f = (pixman_iter_get_scanline_t) 0;
    uint32_t *ret = (uint32_t *) 0, raw;
    int i;

    VH_ASSUME (in_k < VC_W);
    VH_ASSUME (in_stride >= -4096 && in_stride <= 4096);
    for (i = 0; i < VC_NSRC; i++) sbuf[i] = (VC_TYPE (VC_FMT)) in_src[i];
    for (i = 0; i < VC_NB; i++) buf[i] = in_buf[i];
    imp = _pixman_implementation_create_sse2 ((pixman_implementation_t *) 0);
    for (e = imp->iter_info, i = 0; e && i < 4 && e->format != PIXMAN_null; e++, i++)
        if (e->format == VC_CODE (VC_FMT))
        {
            f = e->get_scanline;
            break;
        }
    VH_CHECK ("sse2.fetcher_bound_for_format", f != (pixman_iter_get_scanline_t) 0);
    memset (&it, 0, sizeof it);
    it.width = VC_W;
    it.buffer = buf + 4 + VC_BOFF;
    it.bits = (uint8_t *) (sbuf + VC_SOFF);
    it.stride = in_stride;
    if (f)
        ret = f (&it, (const uint32_t *) 0);

    VH_CHECK ("fetch.returns_buffer", ret == buf + 4 + VC_BOFF);
    VH_CHECK ("fetch.bits_advance_by_stride", it.bits == (uint8_t *) (sbuf + VC_SOFF) + in_stride);
#if VC_CH == 4
    {
        int ok_b = 1, ok_s = 1;
        for (i = 0; i < VC_NB; i++)
            if ((i < 4 + VC_BOFF || i >= 4 + VC_BOFF + VC_W) && buf[i] != in_buf[i]) ok_b = 0;
        for (i = 0; i < VC_NSRC; i++)
            if (sbuf[i] != (VC_TYPE (VC_FMT)) in_src[i]) ok_s = 0;
        VH_CHECK ("frame.buffer_outside_scanline_unchanged", ok_b);
        VH_CHECK ("frame.src_unchanged", ok_s);
    }
#else
    raw = (VC_TYPE (VC_FMT)) in_src[VC_SOFF + in_k];
    VH_CHECK ("fetch.pixel_is_widened_raw_pixel", buf[4 + VC_BOFF + in_k] == SF_WIDEN_PIX (VC_FMT, raw));
#endif
    VH_END ();
}
