/* C02 (2): the SSE2 combiners of pixman-sse2.c against the C01 per-channel spec.
 *
 * The combiner is taken from the table that _pixman_implementation_create_sse2 (the REAL
 * constructor: it also initialises the mask_* constants) binds to the operator:
 *     imp->combine_32[VC_PIXOP]  (VC_MODE 0/1)   imp->combine_32_ca[VC_PIXOP]  (VC_MODE 2)
 * so that a wrong constant and a wrong table binding both fail the pixel obligation.
 *
 *   -DVC_PIXOP=PIXMAN_OP_x -DVC_OP=SPOP_x -DVC_MODE=0|1|2 -DVC_CH=0..3 | 4 (frame)
 *   -DVC_W=<width>   -DVC_DOFF=<0..3> destination misalignment in pixels (16-byte phase)
 *   -DVC_SOFF / -DVC_MOFF   source / mask misalignment in pixels
 *   -DVC_K=<ghost index>    fixed ghost pixel (row jobs); otherwise symbolic in_k in [0,VC_W)
 *
 * VC_W=1, VC_DOFF=1: one pass through the scalar head loop          (pixel kernel)
 * VC_W=1, VC_DOFF=0: one pass through the scalar tail loop          (pixel kernel)
 * VC_W=4, VC_DOFF=0: exactly one pass through the 4-pixel body      (each lane == spec)
 * VC_W=8|9...      : head + body + tail, fixed case per query       (row structure, bounded)
 *
 * Alignment: CBMC's memory model places every object at offset 0 of its own address space and
 * (uintptr_t) p & 15 is the low bits of the offset, i.e. objects are 16-byte aligned; natively
 * the buffers are declared aligned (16).  Aligned loads/stores carry their alignment obligation.
 */
#ifdef VH_CBMC
#include "sse2_models_combine.h"
#endif
#include "pixman-sse2.c"
#include "spec_op.h"
#include "vh.h"
#include "c02.h"

#ifndef VC_W
#define VC_W 1
#endif
#ifndef VC_DOFF
#define VC_DOFF 0
#endif
#ifndef VC_SOFF
#define VC_SOFF 0
#endif
#ifndef VC_MOFF
#define VC_MOFF 0
#endif
#define VC_N (4 + 3 + VC_W + 1) /* guard quad, misalignment, pixels, guard word */

static pixman_implementation_t vc_imp;
static const pixman_fast_path_t *vc_table;

pixman_implementation_t *
_pixman_implementation_create (pixman_implementation_t *fallback, const pixman_fast_path_t *fast_paths)
{
    memset (&vc_imp, 0, sizeof vc_imp);
    vc_imp.fallback = fallback;
    vc_imp.fast_paths = fast_paths;
    vc_table = fast_paths;
    return &vc_imp;
}

void harness (void)
{
    VC_IN_ARRAY (vh_u32, in_src, VC_W);
    VC_IN_ARRAY (vh_u32, in_msk, VC_W);
    VC_IN_ARRAY (vh_u32, in_dst, VC_W);
    VH_IN (vh_u32, in_guard);
#ifndef VC_K
    VH_IN (vh_u32, in_k);
#define VC_KK in_k
#else
#define VC_KK VC_K
#endif
    uint32_t dbuf[VC_N] VC_ALIGN16, sbuf[VC_N] VC_ALIGN16, mbuf[VC_N] VC_ALIGN16;
    uint32_t *dest = dbuf + 4 + VC_DOFF, *src = sbuf + 4 + VC_SOFF, *mask = mbuf + 4 + VC_MOFF;
    pixman_implementation_t *imp;
    pixman_combine_32_func_t f;
    int i;

#ifndef VC_K
    VH_ASSUME (in_k < VC_W);
#endif
    for (i = 0; i < VC_N; i++)
    {
        dbuf[i] = in_guard; sbuf[i] = ~in_guard; mbuf[i] = in_guard ^ 0x5a5a5a5au;
    }
    for (i = 0; i < VC_W; i++)
    {
        dest[i] = in_dst[i]; src[i] = in_src[i]; mask[i] = in_msk[i];
    }
    VH_ASSUME (SPX_PRE (in_src[VC_KK], in_dst[VC_KK]));

    imp = _pixman_implementation_create_sse2 ((pixman_implementation_t *) 0);
#if VC_MODE == 2
    f = imp->combine_32_ca[VC_PIXOP];
#else
    f = imp->combine_32[VC_PIXOP];
#endif
    VH_CHECK ("sse2.combiner_bound_for_operator", f != (pixman_combine_32_func_t) 0);
    if (f)
        f (imp, VC_PIXOP, dest, src, VC_MODE ? mask : (const uint32_t *) 0, VC_W);

#if VC_CH == 4
    {
        int ok_d = 1, ok_s = 1;
        for (i = 0; i < VC_N; i++)
        {
            if ((i < 4 + VC_DOFF || i >= 4 + VC_DOFF + VC_W) && dbuf[i] != in_guard) ok_d = 0;
            if (sbuf[i] != ((i >= 4 + VC_SOFF && i < 4 + VC_SOFF + VC_W) ? in_src[i - 4 - VC_SOFF] : ~in_guard)) ok_s = 0;
            if (mbuf[i] != ((i >= 4 + VC_MOFF && i < 4 + VC_MOFF + VC_W) ? in_msk[i - 4 - VC_MOFF] : (in_guard ^ 0x5a5a5a5au))) ok_s = 0;
        }
        VH_CHECK ("frame.dest_outside_scanline_unchanged", ok_d);
        VH_CHECK ("frame.src_mask_unchanged", ok_s);
    }
#else
    VH_CHECK ("pixel.channel", SPX_POST (dest[VC_KK], in_src[VC_KK], in_msk[VC_KK], in_dst[VC_KK], VC_CH));
#endif
    VH_END ();
}
