/* C02 (3c) route D: UNBOUNDED row contracts on the C fast paths of pixman-fast-path.c whose row loop is a plain
 * `while (w--)` pixel loop.  The function contract ct_<fn> below is enforced on the REAL function
 * (goto-instrument --dfcc --enforce-contract <fn>/ct_<fn>), the inner row loop is closed by a loop invariant
 * (props/C02.py, rowd_jobs) instead of unrolling: any width <= VC_MAXW, any x offsets <= VC_MAXX, every pixel value.
 * The outer `while (height--)' loop with its stride walk is executed once (precondition height == 1, y == 0).
 *
 *   -DVC_FN=<fast_composite_...>  -DVC_SFMT / -DVC_MFMT / -DVC_DFMT (format names of spec_format.h, 8/16/32 bpp)
 *   -DVC_SOLID  source is solid: _pixman_image_get_solid is a stub returning the nondeterministic colour vc_solid
 *   -DVC_NOSRC  / -DVC_MODE=0: no mask image
 *   -DVC_OP / -DVC_MODE / -DVC_CH=0..3 : ghost channel;   ghost pixel gk in [0, width):
 *        ensures  field_c (dest[dest_x + gk])  ==  NARROW (OP_c (WIDEN src[src_x + gk], WIDEN mask[mask_x + gk], WIDEN old dest[dest_x + gk]))
 *   -DVC_CH=4 : frame.  ghost position gf in [0, dest_x + width] outside [dest_x, dest_x + width):
 *        ensures  dest[gf] == old dest[gf]     (incl. the guard pixel dest[dest_x + width])
 *   Both: assigns only the destination pixel object (a write to the source, the mask, an image header or `info' fails
 *   the assigns obligations).
 */
#include "pixman-fast-path.c"
#include "spec_fst.h"
#include "vh.h"
#include "c02.h"

#ifndef VC_MAXW
#define VC_MAXW (1 << 20)
#endif
#ifndef VC_MAXX
#define VC_MAXX (1 << 10)
#endif
#ifndef VC_MFMT
#define VC_MFMT a8
#endif
#ifndef VC_SFMT
#define VC_SFMT a8r8g8b8
#endif

int gk;      /* ghost pixel index inside the row */
int gf;      /* ghost frame position in the destination row */
uint32_t vc_solid;
int vc_pad0, vc_pad1, vc_pad2, vc_pad3, vc_pad4, vc_pad5, vc_pad6, vc_pad7, vc_pad8, vc_pad9, vc_pad10, vc_pad11, vc_pad12, vc_pad13, vc_pad14, vc_pad15;

uint32_t _pixman_image_get_solid (pixman_implementation_t *imp, pixman_image_t *image, pixman_format_code_t format)
{
    return vc_solid;
}

#define VC_T_32 uint32_t
#define VC_T_16 uint16_t
#define VC_T_8  uint8_t
#define VC_TYPE(f) VC_CAT (VC_T_, SF_BPP (f))
#define VC_CODE(f) VC_CAT (PIXMAN_, f)
#define VC_BYTES(f) (SF_BPP (f) / 8)

#define VC_DPIX(i) (((VC_TYPE (VC_DFMT) *) info->dest_image->bits.bits)[i])
#define VC_SPIX(i) (((VC_TYPE (VC_SFMT) *) info->src_image->bits.bits)[i])
#define VC_MPIX(i) (((VC_TYPE (VC_MFMT) *) info->mask_image->bits.bits)[i])

#ifdef VC_SOLID
#define VC_SRAW vc_solid
#else
#define VC_SRAW VC_SPIX (info->src_x + gk)
#endif
#if VC_MODE
#define VC_MRAW VC_MPIX (info->mask_x + gk)
#else
#define VC_MRAW 0u
#endif

static pixman_image_t vc_src, vc_msk, vc_dst;
static pixman_composite_info_t vc_info;

/* The objects are built by the harness below (image headers and `info' are plain static objects whose fields are
 * assigned one by one; the pixel rows are heap blocks of symbolic size): is_fresh'd image headers, through which the
 * routine has to load its row pointers, made symbolic execution 10x slower.  The contract states the relation. */
void VC_CAT (ct_, VC_FN) (pixman_implementation_t *imp, pixman_composite_info_t *info)
__CPROVER_requires (info == &vc_info && info->dest_image == &vc_dst)
__CPROVER_requires (info->height == 1 && 0 <= info->width && info->width <= VC_MAXW)
__CPROVER_requires (info->dest_y == 0 && 0 <= info->dest_x && info->dest_x <= VC_MAXX)
#if VC_CH == 4
__CPROVER_requires (0 <= gf && gf <= info->dest_x + info->width)
#else
__CPROVER_requires (0 <= gk && gk < info->width)
#endif
__CPROVER_assigns (__CPROVER_object_whole (info->dest_image->bits.bits))
/* 16 ghost targets nobody writes: CBMC 6.11's dfcc unwinds its write-set loops max (explicit assigns clause size) + 1 times,
 * but the write set it INFERS for the outer `while (height--)' loop (no contract: unwound once) has more targets than
 * the row loop's clause -> without the padding the library's own unwinding assertions fail */
__CPROVER_assigns (vc_pad0, vc_pad1, vc_pad2, vc_pad3, vc_pad4, vc_pad5, vc_pad6, vc_pad7, vc_pad8, vc_pad9, vc_pad10, vc_pad11, vc_pad12, vc_pad13, vc_pad14, vc_pad15)
#if VC_CH == 4
__CPROVER_ensures ((gf >= info->dest_x && gf < info->dest_x + info->width) || VC_DPIX (gf) == __CPROVER_old (VC_DPIX (gf)))
#else
__CPROVER_ensures (FST_POST (VC_SFMT, VC_SRAW, VC_MFMT, VC_MRAW, VC_DFMT, __CPROVER_old (VC_DPIX (info->dest_x + gk)), VC_DPIX (info->dest_x + gk)))
#endif
;

static void vc_bits (pixman_image_t *im, void *bits, int words, pixman_format_code_t fmt)
{
    im->bits.common.type = BITS;
    im->bits.format = fmt;
    im->bits.common.extended_format_code = fmt;
    im->bits.bits = (uint32_t *) bits;
    im->bits.rowstride = words;
    im->bits.width = 1 << 24;
    im->bits.height = 1;
}

void harness (void)
{
    pixman_implementation_t *imp = (pixman_implementation_t *) 0;
#ifdef VH_CBMC
    int width = nondet_vh_i32 (), dx = nondet_vh_i32 (), sx = nondet_vh_i32 (), mx = nondet_vh_i32 ();
    int ds = nondet_vh_i32 (), ss = nondet_vh_i32 (), ms = nondet_vh_i32 ();   /* row strides: any (one row) */
    gk = nondet_vh_i32 (); gf = nondet_vh_i32 (); vc_solid = nondet_vh_u32 ();   /* ghosts and the solid colour: any value */
    __CPROVER_assume (0 <= width && width <= VC_MAXW && 0 <= dx && dx <= VC_MAXX && 0 <= sx && sx <= VC_MAXX && 0 <= mx && mx <= VC_MAXX);
    __CPROVER_assume (0 <= ds && ds <= (1 << 22) && 0 <= ss && ss <= (1 << 22) && 0 <= ms && ms <= (1 << 22));
    vc_bits (&vc_dst, malloc ((size_t) VC_BYTES (VC_DFMT) * (dx + width + 1)), ds, VC_CODE (VC_DFMT));
    vc_info.dest_image = &vc_dst; vc_info.dest_x = dx; vc_info.dest_y = 0;
#ifndef VC_NOSRC
    vc_info.src_image = &vc_src;
#endif
#ifndef VC_SOLID
    vc_bits (&vc_src, malloc ((size_t) VC_BYTES (VC_SFMT) * (sx + width + 1)), ss, VC_CODE (VC_SFMT));
    vc_info.src_x = sx; vc_info.src_y = 0;
#endif
#if VC_MODE
    vc_bits (&vc_msk, malloc ((size_t) VC_BYTES (VC_MFMT) * (mx + width + 1)), ms, VC_CODE (VC_MFMT));
    vc_info.mask_image = &vc_msk; vc_info.mask_x = mx; vc_info.mask_y = 0;
#endif
    vc_info.width = width; vc_info.height = 1;
    vc_info.op = VC_OP == SPOP_OVER ? PIXMAN_OP_OVER : VC_OP == SPOP_ADD ? PIXMAN_OP_ADD : VC_OP == SPOP_IN ? PIXMAN_OP_IN : PIXMAN_OP_SRC;
#endif
    VC_FN (imp, &vc_info);
    VH_END ();
}
