/* C18: create_1d_filter (pixman-filter.c) — one axis of the separable-convolution block.
 *
 *   -DVC_W=<taps>  -DVC_N=<phases>          the table shape (fixed per job: "one query = one case")
 *   -DVC_STUB=1   integral() is replaced by a stub returning an arbitrary finite value with |c| <= 8
 *                 (exp/sin have no CBMC model; kernel values are not decided).  Kernel pair and scale
 *                 are symbolic (they only select which taps call integral()).  The real integral()
 *                 stays in the TU as integral_real (unused).  Because symbolic double multiplication /
 *                 division does not finish in the SAT back end (W=3,N=2: > 600 s), the two roundings
 *                 (and int -> double -> int round trips: 6 taps > 160 s) the two rounding steps
 *                 `(pixman_fixed_t) floor (v)` are abstracted as a whole: the k-th one yields the integer
 *                 input in_f[k] (vh_floor returns int here) — sampling pass: any integer with |f| <= 2^19 (exactly the set
 *                 {floor (c*65536+0.5) : |c| <= 8}); normalisation pass: any integer with |f| <= 2^27
 *                 (ASSUMPTION: the normalisation is defined, i.e. tap total != 0 and normalised
 *                 coefficients below 2048.0 in magnitude; with arbitrary c this cannot be proved).
 *                 This over-approximates every floating-point result of the function: what is proved
 *                 is what the integer accumulator new_total and the fix-up guarantee by themselves.
 *   -DVC_STUB=0   the real integral(); kernel pair fixed with -DVC_R / -DVC_K to one whose integral is
 *                 plain arithmetic (IMPULSE/BOX/LINEAR combinations without Simpson integration).
 *   -DVC_DOM      domain split of VC_STUB=0, IMPULSE reconstruction (see props/C18.py)
 *
 * How the call of integral() is told from its definition: the definition's first parameter is spelled
 * `pixman_kernel_t kernel1`, the recursive calls pass `kernel1`, create_1d_filter passes `reconstruct`;
 * token pasting selects (a changed spelling stops compiling -> undecided, never a verdict).
 *
 * floor() of pixman-filter.c goes through vh_floor (): it calls the real floor and, because the
 * sequence of floor calls is fixed (per phase: VC_W taps of the sampling pass, then VC_W taps of the
 * normalisation pass), it knows where the tap total is complete.  With VC_STUB=0 it checks there the
 * OBLIGATIONS  norm.total_nonzero / norm.value_fits_int  (and returns the real floor).
 *
 * Obligations: every access inside the VC_W*VC_N words (cbmc pointer checks, ASan natively; guard
 * words on both sides unchanged); every phase sums to exactly 65536; no signed overflow, no
 * out-of-range double -> int conversion (cbmc checks on the real lines).
 */
#include <math.h>
#include <stdlib.h>
#include "vh.h"

#ifndef VC_W
#error "VC_W, VC_N"
#endif
#ifndef VC_STUB
#define VC_STUB 1
#endif
#ifndef VC_DOM
#define VC_DOM 0
#endif
#define NT ((VC_W) * (VC_N))

#if VC_STUB
typedef int vh_floor_t;      /* the rounding step `(pixman_fixed_t) floor (v)` as a whole yields the integer in_f[k] */
#else
typedef double vh_floor_t;
#endif
static vh_floor_t vh_floor (double v);
static double vh_integral_stub ();

#if VC_STUB
#define integral(a, ...)     VHI_##a, __VA_ARGS__)
#define VHI_pixman_kernel_t  integral_real (pixman_kernel_t
#define VHI_kernel1          integral_real (kernel1
#define VHI_reconstruct      vh_integral_stub (reconstruct
#endif
#define floor vh_floor
#include "pixman-filter.c"
#undef floor
#if VC_STUB
#undef integral
#endif

#ifdef VH_CBMC
#define VF_IN_I32_ARRAY(name, n) vh_i32 name[n]; do { int i_; for (i_ = 0; i_ < (int) (n); i_++) name[i_] = nondet_vh_i32 (); } while (0)   /* element-wise: the trace then carries in_f[k] */
#else
#define VF_IN_I32_ARRAY(name, n)                                               \
    vh_i32 name[n];                                                            \
    do { int i_; char b_[96];                                                  \
         for (i_ = 0; i_ < (int) (n); i_++) {                                  \
             snprintf (b_, sizeof b_, "%s[%d]", #name, i_);                    \
             name[i_] = (vh_i32) VH_GET_I (b_); } } while (0)
#endif

static int    vh_calls;          /* floor calls so far */
static int    vh_icalls;         /* integral calls so far */
static int    vh_f[2 * NT + 1];  /* VC_STUB: results of the floor calls */
static long   vh_T;              /* tap total of the current phase (sampling pass) */

static double vh_integral_stub (pixman_kernel_t k1, double x1, pixman_kernel_t k2, double scale, double x2, double width)
{
    int k = vh_icalls++;
    VH_CHECK ("stub.integral_called_at_most_once_per_tap", k < NT);
    return 1.0;       /* any finite |c| <= 8: the value only reaches floor(), which is abstracted */
}

static vh_floor_t vh_floor (double v)
{
    int k = vh_calls % (2 * (VC_W));
    double r;
#if VC_STUB
    VH_CHECK ("stub.two_floor_calls_per_tap", vh_calls < 2 * NT);
    k = vh_f[vh_calls < 2 * NT ? vh_calls : 2 * NT];
    vh_calls++;
    return k;
#endif
    vh_calls++;
    r = floor (v);
    if (k < (VC_W))
    {
        /* sampling pass: v = c * 65536 + 0.5 */
        if (k == 0)
            vh_T = 0;
        VH_CHECK ("sample.value_fits_int", v >= -2147483648.0 && v < 2147483648.0);
        vh_T += (long) r;
        return r;
    }
    /* normalisation pass: v = tap * (65536 / total) + carried error + 0.5 */
    if (k == (VC_W))
        VH_CHECK ("norm.total_nonzero", vh_T != 0);
    if (vh_T != 0)      /* with a zero total the quotient is inf/NaN: that is norm.total_nonzero, reported once */
        VH_CHECK ("norm.value_fits_int", v >= -2147483648.0 && v < 2147483648.0);
    return r;
}

#ifdef VH_CBMC
#define VH_LEMMA(id, c) do { VH_CHECK (id, c); __CPROVER_assume (c); } while (0)
#else
#define VH_LEMMA(id, c) VH_CHECK (id, c)
#endif

#define GUARD0 0x5a5a5a5a
#define GUARD1 0x3c3c3c3c

void harness (void)
{
    /* the table with one guard word on each side (the pointer checks see the whole array; the guards
     * state the frame of the neighbouring words inside one object, as in the real block) */
    pixman_fixed_t blk[NT + 2];
    VH_IN (vh_i32, in_scale);
    VH_IN (vh_u8, in_r);
    VH_IN (vh_u8, in_k);
#if VC_STUB
    VF_IN_I32_ARRAY (in_f, 2 * NT);
#endif
    double sx;
    int i, j;

    VH_ASSUME (in_scale > 0);
    sx = fabs (pixman_fixed_to_double (in_scale));       /* as pixman_filter_create_separable_convolution does */
#if VC_STUB
    VH_ASSUME (in_r == VC_R && in_k == VC_K);
    VH_ASSUME (in_scale == 65536);      /* with every floor() abstracted, scale and kernels only decide which taps call the stub */
    sx = 1.0;
    for (i = 0; i < 2 * NT; i++)
    {
        if (i % (2 * (VC_W)) < (VC_W))
            VH_ASSUME (in_f[i] >= -524288 && in_f[i] <= 524288);         /* floor (c*65536 + 0.5), |c| <= 8 */
        else
            VH_ASSUME (in_f[i] >= -134217728 && in_f[i] <= 134217728);   /* normalisation defined (see top) */
        vh_f[i] = in_f[i];
    }
    vh_f[2 * NT] = 0;
#else
    VH_ASSUME (in_r == VC_R && in_k == VC_K);
    /* call-site relation: the width passed is filter_width() of the same kernels and scale */
    VH_ASSUME (filter_width ((pixman_kernel_t) (VC_R), (pixman_kernel_t) (VC_K), sx) == (VC_W));
#if VC_DOM == 1
    /* IMPULSE reconstruction, more than one phase: the sampling kernel covers half a pixel on each side */
    VH_ASSUME (sx * filters[VC_K].width >= 1.0);
#elif VC_DOM == 2
    /* the complement */
    VH_ASSUME (sx * filters[VC_K].width < 1.0);
#endif
#endif
    for (i = 0; i < NT + 2; i++)
        blk[i] = 0x7b7b7b7b;
    blk[0] = GUARD0;
    blk[NT + 1] = GUARD1;

    create_1d_filter ((VC_W), (pixman_kernel_t) (VC_R), (pixman_kernel_t) (VC_K), sx, (VC_N), blk + 1);

    VH_CHECK ("frame.word_before_table_unchanged", blk[0] == GUARD0);
    VH_CHECK ("frame.word_after_table_unchanged", blk[NT + 1] == GUARD1);
    VH_CHECK ("shape.every_tap_sampled_and_normalised_once", vh_calls == 2 * NT);
    for (i = 0; i < (VC_N); i++)
    {
        long s = blk[1 + i * (VC_W)];
#if VC_STUB
        /* The plain statement "the phase sums to 65536" is a re-association of two 6-term sums, which
         * the SAT back end does not finish (6 taps: > 190 s).  It is therefore led there by lemmas
         * about the rounded values t[j] the normalisation pass obtained (= in_f): each lemma is an
         * obligation first and only then assumed (cbmc); natively they are plain checks. */
        long t[VC_W], n = 0, d, pp;
        for (j = 0; j < (VC_W); j++)
        {
            t[j] = vh_f[i * 2 * (VC_W) + (VC_W) + j];
            n += t[j];
        }
        d = 65536 - n;
        VH_LEMMA ("lemma.first_tap_is_rounded_value_plus_residual", (long) blk[1 + i * (VC_W)] == t[0] + d);
        pp = t[0];
#endif
        for (j = 1; j < (VC_W); j++)
        {
            s += blk[1 + i * (VC_W) + j];
#if VC_STUB
            VH_LEMMA ("lemma.tap_is_rounded_value", (long) blk[1 + i * (VC_W) + j] == t[j]);
            pp += t[j];
            VH_LEMMA ("lemma.partial_sum", s == pp + d);
#endif
        }
        VH_CHECK ("sum.phase_total_is_65536", s == 65536);
    }
    VH_END ();
}
