/* C18: pixman_filter_create_separable_convolution — length, header, allocation, tiling of the block.
 *
 *   -DVC_DOM=0  1 <= width, height <= 32767 (domain split; complements are the two jobs below)
 *   -DVC_DOM=1  x axis: width >= 32768 (scale_x * support >= 32767), subsample bits 0; y axis as VC_DOM=0
 *   -DVC_REAL=1 nothing replaced: all four kernels IMPULSE (width == height == 0), the real
 *               create_1d_filter runs (its tap loops are empty) — the width==0 obligation (DESIGN.md §7)
 *
 * With VC_REAL unset create_1d_filter is replaced by vh_c1d_stub (the token-pasting selection used in
 * taps.c: the definition's first parameter is spelled `int width`, the two calls pass `width` and
 * `height`); the real one stays in the TU as create_1d_filter_real (unused here; it is the subject of
 * taps.c).  The stub CHECKS its precondition — the table handed over is exactly the one the header
 * announces and lies inside the block — and fills the table with an arbitrary value.  The same text
 * runs natively in a replay.
 *
 * The expected widths are written from the definition "the filter covers the support of the
 * reconstruction kernel plus the scaled support of the sampling kernel", with the supports as a
 * literal table (spec side, not filters[]).
 */
#include <math.h>
#include <stdlib.h>
#include "vh.h"
#include "vh_alloc.h"

#ifndef VC_DOM
#define VC_DOM 0
#endif

static void vh_c1d_stub ();
#ifndef VC_REAL
#define create_1d_filter(a, ...)  VHC_##a, __VA_ARGS__)
#define VHC_int     create_1d_filter_real (int
#define VHC_width   vh_c1d_stub (width
#define VHC_height  vh_c1d_stub (height
#endif
#include "pixman-filter.c"
#ifndef VC_REAL
#undef create_1d_filter
#endif

static const double spf_support[8] = { 0.0, 1.0, 2.0, 4.0, 5.0, 4.0, 6.0, 8.0 };
/* IMPULSE BOX LINEAR CUBIC GAUSSIAN LANCZOS2 LANCZOS3 LANCZOS3_STRETCHED(8 = 6 / 0.75) */

static long g_w, g_h, g_nx, g_ny;          /* expected shape */
static int  g_calls;
static pixman_fixed_t *g_tab[2];
static int  g_fill;

static void vh_c1d_stub (int width, pixman_kernel_t reconstruct, pixman_kernel_t sample, double scale, int n_phases,
                         pixman_fixed_t *p)
{
    int k = g_calls++;
    VH_CHECK ("tables.two_calls", k < 2);
    if (k == 0)
        VH_CHECK ("tables.x_table_shape_as_announced", width == g_w && n_phases == g_nx);
    else
        VH_CHECK ("tables.y_table_shape_as_announced", width == g_h && n_phases == g_ny);
    g_tab[k & 1] = p;
    /* the callee's precondition (taps.c): at least one tap, one phase; it writes width*n_phases words at p */
    VH_CHECK ("tables.at_least_one_tap_and_phase", width >= 1 && n_phases >= 1);
    if (width >= 1 && n_phases >= 1)
    {
        p[0] = g_fill;                                      /* first and last word: inside the block */
        p[(long) width * n_phases - 1] = g_fill;            /* (pointer checks / ASan) */
    }
}

void harness (void)
{
    VH_IN (vh_i32, in_sx); VH_IN (vh_i32, in_sy);
    VH_IN (vh_u8, in_rx); VH_IN (vh_u8, in_ry); VH_IN (vh_u8, in_kx); VH_IN (vh_u8, in_ky);
    VH_IN (vh_u8, in_bx); VH_IN (vh_u8, in_by);
    VH_IN (vh_u32, in_failmask);
    VH_IN (vh_i32, in_fill);
    int n = -12345;
    double ex, ey;
    pixman_fixed_t *params;

    /* the property's domain: positive 16.16 scales, the 8 kernels, subsample bits 0..8 */
    VH_ASSUME (in_sx > 0 && in_sy > 0 && in_rx < 8 && in_ry < 8 && in_kx < 8 && in_ky < 8 && in_bx <= 8 && in_by <= 8);
    ex = spf_support[in_rx] + (in_sx / 65536.0) * spf_support[in_kx];
    ey = spf_support[in_ry] + (in_sy / 65536.0) * spf_support[in_ky];
#ifdef VC_REAL
    VH_ASSUME (in_rx == 0 && in_ry == 0 && in_kx == 0 && in_ky == 0 && in_bx == 0 && in_by == 0);
    VH_ASSUME (in_failmask == 0);
#elif VC_DOM == 0
    VH_ASSUME (ex > 0.0 && ex <= 32767.0 && ey > 0.0 && ey <= 32767.0);
#else
    VH_ASSUME (ex > 32767.0 && in_bx == 0 && ey > 0.0 && ey <= 32767.0 && in_by == 0);
    VH_ASSUME (in_failmask == 0);
#endif
    g_w = (long) ceil (ex);                 /* smallest integer >= the support */
    g_h = (long) ceil (ey);
    g_nx = 1L << in_bx;
    g_ny = 1L << in_by;
    g_fill = in_fill;
    vh_failmask = in_failmask;

#ifdef VC_REAL
    /* literals, so that the symbolic execution of the real create_1d_filter is a single concrete path */
    VH_ASSUME (in_sx == 65536 && in_sy == 65536);
    params = pixman_filter_create_separable_convolution (&n, 65536, 65536, PIXMAN_KERNEL_IMPULSE, PIXMAN_KERNEL_IMPULSE,
                                                         PIXMAN_KERNEL_IMPULSE, PIXMAN_KERNEL_IMPULSE, 0, 0);
#else
    params = pixman_filter_create_separable_convolution (&n, in_sx, in_sy, (pixman_kernel_t) in_rx, (pixman_kernel_t) in_ry,
                                                         (pixman_kernel_t) in_kx, (pixman_kernel_t) in_ky, in_bx, in_by);
#endif

    VH_CHECK ("alloc.one_allocation", vh_alloc_calls == 1);
    if (vh_alloc_failed)
        VH_CHECK ("alloc.failure_returns_NULL", params == 0);
    else
    {
        VH_CHECK ("alloc.block_returned", params != 0);
        if (params)
        {
            VH_CHECK ("length.n_values_is_4_plus_tables", (long) n == 4 + g_w * g_nx + g_h * g_ny);
#ifdef VH_CBMC
            VH_CHECK ("length.block_is_exactly_n_values_words", __CPROVER_OBJECT_SIZE (params) == (size_t) n * sizeof (pixman_fixed_t)
                                                               && __CPROVER_POINTER_OFFSET (params) == 0);
#endif
            /* the header as pixman_image_set_filter and the samplers decode it (pixman.h: "integer given as 16.16") */
            VH_CHECK ("header.width_field_decodes_to_table_width", (params[0] & 0xffff) == 0 && (long) (params[0] >> 16) == g_w);
            VH_CHECK ("header.height_field_decodes_to_table_height", (params[1] & 0xffff) == 0 && (long) (params[1] >> 16) == g_h);
            VH_CHECK ("header.x_phase_bits", params[2] == (in_bx << 16));
            VH_CHECK ("header.y_phase_bits", params[3] == (in_by << 16));
#ifndef VC_REAL
            VH_CHECK ("tables.both_axes_built", g_calls == 2);
            VH_CHECK ("tables.x_table_follows_header", g_tab[0] == params + 4);
            VH_CHECK ("tables.y_table_follows_x_table_and_ends_the_block",
                      g_tab[1] == params + 4 + g_w * g_nx && g_tab[1] + g_h * g_ny == params + n);
#endif
            (free) (params);
        }
    }
    VH_END ();
}
