/* C18: pixman_image_set_filter accepts exactly the blocks pixman_filter_create_separable_convolution
 * announces (its consistency test for PIXMAN_FILTER_SEPARABLE_CONVOLUTION, pixman-image.c).
 *
 *   -DVC_CASE=0  any header (width, height <= 32767, phase bits <= 8) and any n_params that is NOT
 *                4 + width*2^bx + height*2^by: FALSE, image untouched, nothing allocated.
 *   -DVC_CASE=1  n_params IS that number (block <= NP words: bounded): TRUE unless the allocation
 *                failed; the image stores its own copy of the block and its length.
 *   -DVC_CASE=2  end to end, nothing replaced: the block made by the real
 *                pixman_filter_create_separable_convolution (BOX x BOX, scale 1, no subsampling: 2+2
 *                taps) is accepted by the real pixman_image_set_filter, and each phase sums to 65536.
 */
#include <math.h>
#include <stdlib.h>
#include <string.h>
#include "vh.h"
#include "vh_alloc.h"
#include "pixman-image.c"
#include "pixman-utils.c"
#if VC_CASE == 2
#include "pixman-filter.c"
#endif

#define NP 12

void harness (void)
{
    VH_IN (vh_u16, in_w); VH_IN (vh_u16, in_h); VH_IN (vh_u8, in_bx); VH_IN (vh_u8, in_by);
    VH_IN (vh_i32, in_n);
    VH_IN (vh_u32, in_failmask);
    VH_IN (vh_i32, in_fill);
    static pixman_image_t img;
    pixman_fixed_t blk[NP];
    pixman_fixed_t *params = blk;
    long want;
    int i, n;
    pixman_bool_t r;

    memset (&img, 0, sizeof img);
    img.type = BITS;
    img.common.ref_count = 1;
    img.common.filter = PIXMAN_FILTER_NEAREST;

#if VC_CASE == 2
    VH_ASSUME (in_failmask == 0);
    params = pixman_filter_create_separable_convolution (&n, pixman_fixed_1, pixman_fixed_1, PIXMAN_KERNEL_BOX, PIXMAN_KERNEL_BOX,
                                                         PIXMAN_KERNEL_BOX, PIXMAN_KERNEL_BOX, 0, 0);
    VH_CHECK ("chain.block_created", params != 0 && n == 8);
    if (!params)
        return;
    VH_CHECK ("chain.x_phase_sums_to_65536", (long) params[4] + params[5] == 65536);
    VH_CHECK ("chain.y_phase_sums_to_65536", (long) params[6] + params[7] == 65536);
    want = n;
#else
    VH_ASSUME (in_w <= 32767 && in_h <= 32767 && in_bx <= 8 && in_by <= 8);
    want = 4 + (long) in_w * (1L << in_bx) + (long) in_h * (1L << in_by);
    for (i = 0; i < NP; i++)
        blk[i] = (pixman_fixed_t) ((vh_u32) in_fill + (vh_u32) i);
    blk[0] = in_w << 16;
    blk[1] = in_h << 16;
    blk[2] = in_bx << 16;
    blk[3] = in_by << 16;
    n = in_n;
#if VC_CASE == 0
    VH_ASSUME ((long) n != want);
#else
    VH_ASSUME ((long) n == want && n <= NP);
#endif
#endif
    vh_failmask = in_failmask;
    vh_alloc_calls = vh_alloc_failed = 0;

    r = pixman_image_set_filter (&img, PIXMAN_FILTER_SEPARABLE_CONVOLUTION, params, n);

#if VC_CASE == 0
    VH_CHECK ("accept.mismatching_length_is_rejected", r == FALSE);
    VH_CHECK ("accept.rejected_block_leaves_image_untouched",
              img.common.filter == PIXMAN_FILTER_NEAREST && img.common.filter_params == 0 && img.common.n_filter_params == 0
              && !img.common.dirty && vh_alloc_calls == 0);
#else
    VH_CHECK ("accept.matching_block_fails_only_on_allocation_failure", r == TRUE || vh_alloc_failed > 0);
    if (r)
    {
        VH_CHECK ("accept.filter_set", img.common.filter == PIXMAN_FILTER_SEPARABLE_CONVOLUTION && img.common.dirty);
        VH_CHECK ("accept.length_stored", img.common.n_filter_params == n);
        VH_CHECK ("accept.own_copy_stored", img.common.filter_params != 0 && img.common.filter_params != params);
        if (img.common.filter_params)
        {
            for (i = 0; i < NP; i++)
                if (i < n)
                    VH_CHECK ("accept.copy_equals_block", img.common.filter_params[i] == params[i]);
            (free) (img.common.filter_params);
        }
    }
    else
        VH_CHECK ("accept.failure_leaves_image_untouched", img.common.filter_params == 0 && img.common.n_filter_params == 0);
#endif
#if VC_CASE == 2
    (free) (params);
#endif
    VH_END ();
}
