/* C04 (3): general_composite_rect (REAL pixman-general.c) — carving of the scanline buffer
 * into the source / mask / destination scanlines, on the stack buffer or on the block obtained
 * from the REAL pixman_malloc_ab_plus_c (pixman-utils.c, #included too).
 *
 * For every width (all int32), both pixel sizes (Bpp 4 narrow / 16 wide), any misalignment of
 * the heap block:
 *   - the three buffers handed to the iterators are 16-byte aligned, pairwise disjoint
 *     (src + width*Bpp <= mask, mask + width*Bpp <= dest) and lie inside the stack buffer /
 *     inside the allocation (dest + width*Bpp <= end of block);
 *   - the stack buffer is used only if the worst-case carving (3 * width*Bpp + 3 * 15) fits it;
 *   - the block is freed exactly once, the stack buffer never.
 * Replaced: _pixman_implementation_iter_init and the iterator callbacks (they record the
 * buffer and WRITE its first and last byte: pointer checks in CBMC, ASan natively),
 * _pixman_implementation_lookup_combiner (a combiner touching first/last pixel of d, s, m).
 * The allocator is intercepted by name for the two real files: vc_malloc (n) hands out a block
 * of exactly n bytes starting at misalignment in_k (0..15), vc_free checks it gets that
 * pointer back.  height = 1 (the row loop runs once).
 *
 * Model note: CBMC computes `(uintptr_t) p & 15` on the offset inside the object, i.e. it
 * treats every object as 16-byte aligned; the misalignment of the heap block is therefore
 * modelled explicitly (in_k), the stack buffer cannot be misaligned in the model: for it the
 * arithmetic obligation "stack path => 3*width*Bpp + 45 <= sizeof buffer" carries the claim
 * and the native replay (ASan) sees the real addresses.
 */
#include <config.h>
#include <stdlib.h>
#include <string.h>
#include <stdio.h>
#include "vh.h"

static unsigned char *vc_base;
static size_t vc_size;
static unsigned vc_k;
static int vc_nmalloc, vc_nfree, vc_free_ok, vc_alloc_fails;

static void *vc_malloc (size_t n)
{
    vc_nmalloc++;
    if (vc_alloc_fails)
        return (void *) 0;
    vc_base = (unsigned char *) malloc (n + vc_k);
    VH_ASSUME (vc_base != 0);
    vc_size = n;
    return vc_base + vc_k;
}
static void vc_free (void *p)
{
    vc_nfree++;
    vc_free_ok = vc_base != 0 && p == (void *) (vc_base + vc_k);
    if (vc_free_ok)
        free (vc_base);
}
/* memset of the real code: under CBMC replaced by a stub that writes the first and the last
 * byte of the range (the range lies inside one object iff both do; filling 24 KB / a block of
 * symbolic size byte by byte only blows the formula up).  Natively the real memset runs. */
static int vc_nmemset;
static void *vc_memset (void *p, int c, size_t n)
{
    vc_nmemset++;
    if (n > 0)
    {
        ((unsigned char *) p)[0] = (unsigned char) c;
        ((unsigned char *) p)[n - 1] = (unsigned char) c;
    }
    return p;
}
#define malloc(n) vc_malloc (n)
#define free(p) vc_free (p)
#ifdef VH_CBMC
#define memset(p, c, n) vc_memset (p, c, n)
#endif
#include "pixman-utils.c"
#include "pixman-general.c"
#undef malloc
#undef free
#undef memset

/* ------------------------------------------------------------------ recorders */
static int vc_ninit, vc_ncombine, vc_nget, vc_nwb;
static uint8_t *vc_buf[3];
static int vc_init_w[3], vc_init_h[3];
static iter_flags_t vc_init_flags[3];
static int vc_Bpp, vc_width;
static int vc_geom_done, vc_aligned, vc_disjoint, vc_inside_heap;

static void vc_touch (uint8_t *b, long n)
{
    if (n > 0)
    {
        b[0] = 0x5a;
        b[n - 1] = 0xa5;
    }
}

static uint32_t *vc_get_scanline (pixman_iter_t *iter, const uint32_t *mask)
{
    vc_nget++;
    vc_touch ((uint8_t *) iter->buffer, (long) vc_width * vc_Bpp);
    return iter->buffer;
}
static void vc_write_back (pixman_iter_t *iter)
{
    vc_nwb++;
    vc_touch ((uint8_t *) iter->buffer, (long) vc_width * vc_Bpp);
}

void
_pixman_implementation_iter_init (pixman_implementation_t *imp, pixman_iter_t *iter, pixman_image_t *image,
                                  int x, int y, int width, int height, uint8_t *buffer, iter_flags_t flags, uint32_t image_flags)
{
    int k = vc_ninit++;
    int Bpp = (flags & ITER_NARROW) ? 4 : 16;
    if (k < 3)
    {
        vc_buf[k] = buffer; vc_init_w[k] = width; vc_init_h[k] = height; vc_init_flags[k] = flags;
    }
    vc_Bpp = Bpp;
    vc_width = width;
    iter->image = image;
    iter->buffer = (uint32_t *) buffer;
    iter->x = x; iter->y = y; iter->width = width; iter->height = height;
    iter->iter_flags = flags; iter->image_flags = image_flags;
    iter->get_scanline = vc_get_scanline;
    iter->write_back = vc_write_back;
    iter->fini = (pixman_iter_fini_t) 0;
    vc_touch (buffer, (long) width * Bpp);
    if (k == 2)
    {
        /* all three buffers are known and still live (the stack buffer dies and the heap block is
         * freed when general_composite_rect returns): evaluate the geometry now */
        long wB = (long) width * Bpp;
        vc_geom_done = 1;
        vc_aligned = ((uintptr_t) vc_buf[0] & 15) == 0 && ((uintptr_t) vc_buf[1] & 15) == 0 && ((uintptr_t) vc_buf[2] & 15) == 0;
        vc_disjoint = vc_buf[0] + wB <= vc_buf[1] && vc_buf[1] + wB <= vc_buf[2];
        if (vc_nmalloc > 0 && vc_base)
            vc_inside_heap = vc_buf[0] >= vc_base + vc_k && vc_buf[2] + wB <= vc_base + vc_k + vc_size;
    }
}

static void vc_combine (pixman_implementation_t *imp, pixman_op_t op, uint32_t *dest, const uint32_t *src, const uint32_t *mask, int width)
{
    vc_ncombine++;
    vc_touch ((uint8_t *) dest, (long) width * vc_Bpp);
    vc_touch ((uint8_t *) src, (long) width * vc_Bpp);
    if (mask)
        vc_touch ((uint8_t *) mask, (long) width * vc_Bpp);
}

pixman_combine_32_func_t
_pixman_implementation_lookup_combiner (pixman_implementation_t *imp, pixman_op_t op, pixman_bool_t component_alpha, pixman_bool_t narrow)
{
    return vc_combine;
}


static pixman_implementation_t vc_imp;
static pixman_image_t vc_src, vc_mask, vc_dest;

void harness (void)
{
    VH_IN (vh_i32, in_width);
    VH_IN (vh_u32, in_op);
    VH_IN (vh_u32, in_src_flags); VH_IN (vh_u32, in_mask_flags); VH_IN (vh_u32, in_dest_flags);
    VH_IN (vh_u8, in_mask_present); VH_IN (vh_u8, in_mask_ca);
    VH_IN (vh_u32, in_dither);
    VH_IN (vh_u8, in_k);
    VH_IN (vh_u8, in_alloc_fails);
    pixman_composite_info_t info;
    int Bpp;
    long wB;

    VH_ASSUME (in_op < PIXMAN_N_OPERATORS);            /* a valid operator code */
    VH_ASSUME (in_k < 16);
    vc_k = in_k;
    vc_alloc_fails = in_alloc_fails != 0;
    /* pixel size of the scanline buffers: 4 if everything is narrow, else 16 */
    Bpp = ((in_src_flags & FAST_PATH_NARROW_FORMAT) && (!in_mask_present || (in_mask_flags & FAST_PATH_NARROW_FORMAT))
           && (in_dest_flags & FAST_PATH_NARROW_FORMAT) && !operator_needs_division ((pixman_op_t) in_op)
           && in_dither == PIXMAN_DITHER_NONE) ? 4 : 16;
#ifdef VC_BPP
    VH_ASSUME (Bpp == VC_BPP);           /* case split */
#endif
    /* case split on the width: VC_PATH 0 = up to the largest width that can use the stack buffer
     * (+ 8 pixels of overlap), 1 = everything above the smallest width that must use the heap
     * (- 8 pixels of overlap).  The two ranges overlap and cover int32. */
#if defined(VC_PATH) && VC_PATH == 0
    VH_ASSUME ((long) in_width * Bpp * 3 <= 3 * SCANLINE_BUFFER_LENGTH + 8 * 16 * 3);
#elif defined(VC_PATH)
    VH_ASSUME ((long) in_width * Bpp * 3 >= 3 * SCANLINE_BUFFER_LENGTH - 45 - 8 * 16 * 3);
#endif

    vc_imp.toplevel = &vc_imp;
    vc_src.common.flags = in_src_flags;
    vc_mask.common.flags = in_mask_flags;
    vc_mask.common.component_alpha = in_mask_ca != 0;
    vc_dest.common.flags = in_dest_flags;
    vc_dest.type = BITS;
    vc_dest.bits.dither = (pixman_dither_t) in_dither;

    info.op = (pixman_op_t) in_op;
    info.src_image = &vc_src;
    info.mask_image = in_mask_present ? &vc_mask : (pixman_image_t *) 0;
    info.dest_image = &vc_dest;
    info.src_x = 0; info.src_y = 0; info.mask_x = 0; info.mask_y = 0; info.dest_x = 0; info.dest_y = 0;
    info.width = in_width;
    info.height = 1;
    info.src_flags = in_src_flags; info.mask_flags = in_mask_flags; info.dest_flags = in_dest_flags;

    /* ---- the real function */
    general_composite_rect (&vc_imp, &info);

    if (vc_ninit == 0)
    {
        /* nothing was set up: only legal for an empty/overflowing width or a failed allocation */
        VH_CHECK ("general.no_work_only_if_width_not_positive_or_too_large_or_allocation_failed",
                  in_width <= 0 || ((long) in_width + 1) * Bpp * 3 > (long) INT32_MAX || (long) in_width * Bpp * 3 + 45 > (long) INT32_MAX
                  || (vc_nmalloc == 1 && vc_alloc_fails));
        VH_CHECK ("general.nothing_to_free_when_no_work", vc_nfree == 0);
    }
    else
    {
        VH_CHECK ("general.three_iterators_initialised", vc_ninit == 3);
        VH_CHECK ("general.iterators_use_the_pixel_size_of_the_case", vc_Bpp == Bpp);
        wB = (long) in_width * Bpp;
        VH_CHECK ("general.iterators_get_the_request_width_and_one_pixel_size",
                  vc_init_w[0] == in_width && vc_init_w[1] == in_width && vc_init_w[2] == in_width
                  && (vc_init_flags[0] & (ITER_NARROW | ITER_WIDE)) == (vc_init_flags[1] & (ITER_NARROW | ITER_WIDE))
                  && (vc_init_flags[0] & (ITER_NARROW | ITER_WIDE)) == (vc_init_flags[2] & (ITER_NARROW | ITER_WIDE))
                  && ((vc_init_flags[0] & (ITER_NARROW | ITER_WIDE)) == ITER_NARROW || (vc_init_flags[0] & (ITER_NARROW | ITER_WIDE)) == ITER_WIDE));
        VH_CHECK ("general.buffers_16_byte_aligned", vc_geom_done && vc_aligned);
        VH_CHECK ("general.buffers_disjoint_in_order_src_mask_dest", vc_geom_done && vc_disjoint);
        if (vc_nmalloc == 0)
        {
            VH_CHECK ("general.stack_buffer_used_only_if_worst_case_carving_fits", 3 * wB + 3 * 15 <= 3 * SCANLINE_BUFFER_LENGTH);
            VH_CHECK ("general.stack_buffer_never_freed", vc_nfree == 0);
        }
        else
        {
            VH_CHECK ("general.heap_block_requested_once_with_room_for_worst_case_carving",
                      vc_nmalloc == 1 && (long) vc_size == 3 * wB + 3 * 15);
            VH_CHECK ("general.buffers_inside_the_allocation", vc_geom_done && vc_inside_heap);
            VH_CHECK ("general.heap_block_freed_exactly_once", vc_nfree == 1 && vc_free_ok);
        }
        VH_CHECK ("general.one_row_composed", vc_ncombine == 1 && vc_nwb == 1);
    }
    VH_END ();
}
