/* C04 (1): analyze_extent + compute_transformed_extents (REAL pixman.c): what the two
 * COVER_CLIP flags licence, and the 16.16 range guarantee.
 *
 * pixman_transform_point is replaced by a stub with GHOST results: call k (k = 0..3 for the
 * extents, 4..7 for the extents expanded by one pixel) records its argument and returns
 * in_tok[k] with the result vector (in_tx[k], in_ty[k]) — any result the real function could
 * give for any matrix (affine or projective): the obligations hold for every transform.
 * That the results are the matrix product is C11's business.
 *
 * Specification (from the property; written on the inputs and the ghost results):
 *   COVER_CLIP_NEAREST licences a nearest fetch without bounds test: the sample read for a
 *   source coordinate c is floor (c - 1/65536); it must lie in [0, size) for the four
 *   transformed corners of the extents (pixel centres x1+1/2 .. x2-1/2).
 *   COVER_CLIP_BILINEAR licences the two taps floor (c - 1/2) and floor (c - 1/2) + 1.
 *   TRUE => the corners of the extents expanded by one pixel, moved by the filter's sampling
 *   offset and widened by the filter's footprint plus 8/65536 slack, fit 32-bit 16.16.
 *   (Corners => every pixel centre of the box is affine convexity: real-arithmetic lemma, not
 *   machine checked.  For the identity transform it IS checked directly with a ghost pixel.)
 *
 *   -DVC_CASE=0  image without transform matrix (ID_TRANSFORM set), ghost pixel
 *   -DVC_CASE=1  image with a transform matrix (ghost results), corners
 *   -DVC_CASE=2  frame: NULL image, non-BITS image, flags only gain COVER bits, refusal cases
 *   -DVC_FILTER=0 nearest/fast  1 bilinear/good/best  2 convolution  3 separable convolution
 *                 4 any other filter code
 *   -DVC_CHECK=1  own job: "TRUE => expanded extents fit 16.16" on the identity shortcut with a
 *                 convolution filter
 */
#include <config.h>
#include "pixman-private.h"
#include <stdlib.h>
#include "vh.h"

#ifndef VC_CASE
#define VC_CASE 0
#endif
#ifndef VC_FILTER
#define VC_FILTER 0
#endif
#ifndef VC_CHECK
#define VC_CHECK 0
#endif

static int vc_tp_calls, vc_tp_ok[8];
static pixman_fixed_t vc_tp_rx[8], vc_tp_ry[8];
static pixman_vector_t vc_tp_arg[8];
static const struct pixman_transform *vc_tp_tr[8];

pixman_bool_t pixman_transform_point (const struct pixman_transform *transform, struct pixman_vector *vector)
{
    int k = vc_tp_calls++;
    if (k >= 8)
    {
        VH_CHECK ("extent.at_most_eight_corner_transforms", 0);
        return FALSE;
    }
    vc_tp_arg[k] = *vector;
    vc_tp_tr[k] = transform;
    if (!vc_tp_ok[k])
        return FALSE;
    vector->vector[0] = vc_tp_rx[k];
    vector->vector[1] = vc_tp_ry[k];
    vector->vector[2] = pixman_fixed_1;
    return TRUE;
}

pixman_implementation_t *_pixman_choose_implementation (void) { return 0; }

#define pixman_constructor vh_unused_pixman_constructor
#include "pixman.c"

#define VC_N FAST_PATH_SAMPLES_COVER_CLIP_NEAREST
#define VC_B FAST_PATH_SAMPLES_COVER_CLIP_BILINEAR
#define VC_E 1L            /* 1/65536 */
#define VC_ONE 65536L
#define VC_HALF 32768L

static long vc_floor16 (long v)          /* floor (v / 65536) */
{
    return v >= 0 ? v / VC_ONE : -((-v + VC_ONE - 1) / VC_ONE);
}

/* is (ax, ay) among the arguments of calls [k0, k0+4) ? */
static int vc_arg_seen (int k0, long ax, long ay)
{
    int k, seen = 0;
    for (k = k0; k < k0 + 4; k++)
        if (vc_tp_arg[k].vector[0] == ax && vc_tp_arg[k].vector[1] == ay && vc_tp_arg[k].vector[2] == VC_ONE)
            seen = 1;
    return seen;
}

static pixman_image_t vc_img;
static pixman_transform_t vc_tr;
static pixman_fixed_t vc_params[2];

void harness (void)
{
    VH_IN (vh_i32, in_x1); VH_IN (vh_i32, in_y1); VH_IN (vh_i32, in_x2); VH_IN (vh_i32, in_y2);
    VH_IN (vh_i32, in_w); VH_IN (vh_i32, in_h);
    VH_IN (vh_u32, in_flags);          /* the flag word the caller accumulates (info.src_flags) */
    VH_IN (vh_u32, in_img_flags);      /* image->common.flags */
    VH_IN (vh_u32, in_filter);
    VH_IN (vh_u32, in_type);
    VH_IN (vh_i32, in_p0); VH_IN (vh_i32, in_p1);
    VH_IN (vh_u8, in_tok0); VH_IN (vh_u8, in_tok1); VH_IN (vh_u8, in_tok2); VH_IN (vh_u8, in_tok3);
    VH_IN (vh_u8, in_tok4); VH_IN (vh_u8, in_tok5); VH_IN (vh_u8, in_tok6); VH_IN (vh_u8, in_tok7);
    VH_IN (vh_i32, in_tx0); VH_IN (vh_i32, in_ty0); VH_IN (vh_i32, in_tx1); VH_IN (vh_i32, in_ty1);
    VH_IN (vh_i32, in_tx2); VH_IN (vh_i32, in_ty2); VH_IN (vh_i32, in_tx3); VH_IN (vh_i32, in_ty3);
    VH_IN (vh_i32, in_tx4); VH_IN (vh_i32, in_ty4); VH_IN (vh_i32, in_tx5); VH_IN (vh_i32, in_ty5);
    VH_IN (vh_i32, in_tx6); VH_IN (vh_i32, in_ty6); VH_IN (vh_i32, in_tx7); VH_IN (vh_i32, in_ty7);
    VH_IN (vh_i32, in_gx); VH_IN (vh_i32, in_gy);
    pixman_box32_t ext;
    uint32_t flags;
    pixman_bool_t ret;
    long xoff, yoff, fw, fh;
    int k, have_tr;

    /* ---- preconditions from the call site (pixman_image_composite32): non-empty extents of a
     * composite region, moved by dest-src offsets; nothing at the very ends of int32 */
    VH_ASSUME (in_x1 < in_x2 && in_y1 < in_y2);
    VH_ASSUME (in_x1 > INT32_MIN && in_y1 > INT32_MIN && in_x2 < INT32_MAX && in_y2 < INT32_MAX);
    /* image described truthfully: size not negative */
    VH_ASSUME (in_w >= 0 && in_h >= 0);
    ext.x1 = in_x1; ext.y1 = in_y1; ext.x2 = in_x2; ext.y2 = in_y2;

#if VC_FILTER == 0
    VH_ASSUME (in_filter == PIXMAN_FILTER_NEAREST || in_filter == PIXMAN_FILTER_FAST);
    xoff = -VC_E; yoff = -VC_E; fw = 0; fh = 0;
#elif VC_FILTER == 1
    VH_ASSUME (in_filter == PIXMAN_FILTER_BILINEAR || in_filter == PIXMAN_FILTER_GOOD || in_filter == PIXMAN_FILTER_BEST);
    xoff = -VC_HALF; yoff = -VC_HALF; fw = VC_ONE; fh = VC_ONE;
#elif VC_FILTER == 2 || VC_FILTER == 3
    VH_ASSUME (in_filter == (VC_FILTER == 2 ? PIXMAN_FILTER_CONVOLUTION : PIXMAN_FILTER_SEPARABLE_CONVOLUTION));
    /* kernel of p0 x p1 (16.16 integers >= 1): taps start (p - 1)/2 to the left of the sample */
    VH_ASSUME (in_p0 >= 65536 && in_p1 >= 65536);
    xoff = -VC_E - (((long) in_p0 - VC_ONE) >> 1); yoff = -VC_E - (((long) in_p1 - VC_ONE) >> 1); fw = in_p0; fh = in_p1;
#else
    VH_ASSUME (in_filter > PIXMAN_FILTER_SEPARABLE_CONVOLUTION);
    xoff = yoff = fw = fh = 0;
#endif

    vc_tp_ok[0] = in_tok0; vc_tp_ok[1] = in_tok1; vc_tp_ok[2] = in_tok2; vc_tp_ok[3] = in_tok3;
    vc_tp_ok[4] = in_tok4; vc_tp_ok[5] = in_tok5; vc_tp_ok[6] = in_tok6; vc_tp_ok[7] = in_tok7;
    vc_tp_rx[0] = in_tx0; vc_tp_ry[0] = in_ty0; vc_tp_rx[1] = in_tx1; vc_tp_ry[1] = in_ty1;
    vc_tp_rx[2] = in_tx2; vc_tp_ry[2] = in_ty2; vc_tp_rx[3] = in_tx3; vc_tp_ry[3] = in_ty3;
    vc_tp_rx[4] = in_tx4; vc_tp_ry[4] = in_ty4; vc_tp_rx[5] = in_tx5; vc_tp_ry[5] = in_ty5;
    vc_tp_rx[6] = in_tx6; vc_tp_ry[6] = in_ty6; vc_tp_rx[7] = in_tx7; vc_tp_ry[7] = in_ty7;

    vc_params[0] = in_p0; vc_params[1] = in_p1;
    vc_img.common.filter = (pixman_filter_t) in_filter;
    vc_img.common.filter_params = vc_params;
    vc_img.common.n_filter_params = 2;
    vc_img.bits.width = in_w;
    vc_img.bits.height = in_h;
#if VC_CASE == 0
    have_tr = 0;
    vc_img.type = BITS;
#elif VC_CASE == 1
    have_tr = 1;
    vc_img.type = BITS;
#else
    have_tr = (in_img_flags & 2) != 0;          /* any */
    VH_ASSUME (in_type == BITS || in_type == LINEAR || in_type == CONICAL || in_type == RADIAL || in_type == SOLID);
    vc_img.type = (image_type_t) in_type;
#endif
    vc_img.common.transform = have_tr ? &vc_tr : (pixman_transform_t *) 0;
    /* flags as compute_image_info leaves them: ID_TRANSFORM <=> no transform matrix (C09/C14) */
    vc_img.common.flags = have_tr ? (in_img_flags & ~FAST_PATH_ID_TRANSFORM) : (in_img_flags | FAST_PATH_ID_TRANSFORM);
    /* the caller starts from the image's flag word, which never carries COVER bits of an earlier request */
    flags = in_flags & ~(VC_N | VC_B);

#if VC_CASE == 2
    {
        uint32_t f0 = flags;
        VH_CHECK ("extent.null_image_accepted_flags_untouched", analyze_extent ((pixman_image_t *) 0, &ext, &flags) && flags == f0);
    }
#endif

    /* ---- the real function */
    ret = analyze_extent (&vc_img, &ext, &flags);

    /* ---- frame */
    VH_CHECK ("extent.flags_only_gain_cover_bits", (flags & ~(VC_N | VC_B)) == (in_flags & ~(VC_N | VC_B)));
    VH_CHECK ("extent.cover_bits_only_for_bits_images", vc_img.type == BITS || !(flags & (VC_N | VC_B)));
    VH_CHECK ("extent.transform_evaluated_only_with_the_image_matrix",
              have_tr ? 1 : vc_tp_calls == 0);
    for (k = 0; k < 8; k++)
        if (k < vc_tp_calls)
            VH_CHECK ("extent.transform_evaluated_only_with_the_image_matrix", vc_tp_tr[k] == &vc_tr);

    if (ret)
    {
        /* the guards every later stage relies on */
        VH_CHECK ("extent.true.expanded_extents_fit_16_bits",
                  (long) in_x1 - 1 >= INT16_MIN && (long) in_y1 - 1 >= INT16_MIN && (long) in_x2 + 1 <= INT16_MAX && (long) in_y2 + 1 <= INT16_MAX);
        if (vc_img.type == BITS)
            VH_CHECK ("extent.true.bits_image_size_below_32767_for_16_16_repeat_arithmetic", in_w < 0x7fff && in_h < 0x7fff);

#if VC_CASE == 0
        /* ---- identity: ghost pixel of the extents, directly */
        if (in_x1 <= in_gx && in_gx < in_x2 && in_y1 <= in_gy && in_gy < in_y2)
        {
            long cx = (long) in_gx * VC_ONE + VC_HALF, cy = (long) in_gy * VC_ONE + VC_HALF;   /* pixel centre */
            if (flags & VC_N)
                VH_CHECK ("extent.identity.cover_nearest_every_pixel_sample_inside_image",
                          vc_floor16 (cx - VC_E) >= 0 && vc_floor16 (cx - VC_E) < in_w
                          && vc_floor16 (cy - VC_E) >= 0 && vc_floor16 (cy - VC_E) < in_h
                          && vc_floor16 (cx - VC_E) == in_gx && vc_floor16 (cy - VC_E) == in_gy);
            if (flags & VC_B)
                VH_CHECK ("extent.identity.cover_bilinear_both_taps_of_every_pixel_inside_image",
                          vc_floor16 (cx - VC_HALF) >= 0 && vc_floor16 (cx - VC_HALF) + 1 < in_w
                          && vc_floor16 (cy - VC_HALF) >= 0 && vc_floor16 (cy - VC_HALF) + 1 < in_h);
        }
#if VC_CHECK == 1 || (VC_FILTER != 2 && VC_FILTER != 3)
        {
            /* expanded extents, identity: corners are the pixel centres themselves */
            long lx = ((long) in_x1 - 1) * VC_ONE + VC_HALF, ly = ((long) in_y1 - 1) * VC_ONE + VC_HALF;
            long hx = ((long) in_x2 + 1) * VC_ONE - VC_HALF, hy = ((long) in_y2 + 1) * VC_ONE - VC_HALF;
            VH_CHECK ("extent.identity.expanded_extents_with_filter_footprint_fit_16_16",
                      lx + xoff - 8 * VC_E >= INT32_MIN && ly + yoff - 8 * VC_E >= INT32_MIN
                      && hx + xoff + 8 * VC_E + fw <= INT32_MAX && hy + yoff + 8 * VC_E + fh <= INT32_MAX);
        }
#endif
#elif VC_CASE == 1
        /* ---- transformed: the eight evaluations happened, on the right points, and succeeded */
        VH_CHECK ("extent.transformed.eight_corner_evaluations_all_successful",
                  vc_tp_calls == 8 && in_tok0 && in_tok1 && in_tok2 && in_tok3 && in_tok4 && in_tok5 && in_tok6 && in_tok7);
        {
            long ax1 = (long) in_x1 * VC_ONE + VC_HALF, ay1 = (long) in_y1 * VC_ONE + VC_HALF;
            long ax2 = (long) in_x2 * VC_ONE - VC_HALF, ay2 = (long) in_y2 * VC_ONE - VC_HALF;
            VH_CHECK ("extent.transformed.the_four_pixel_centre_corners_of_the_extents_are_transformed",
                      vc_arg_seen (0, ax1, ay1) && vc_arg_seen (0, ax2, ay1) && vc_arg_seen (0, ax1, ay2) && vc_arg_seen (0, ax2, ay2));
            VH_CHECK ("extent.transformed.the_four_corners_of_the_expanded_extents_are_transformed",
                      vc_arg_seen (4, ax1 - VC_ONE, ay1 - VC_ONE) && vc_arg_seen (4, ax2 + VC_ONE, ay1 - VC_ONE)
                      && vc_arg_seen (4, ax1 - VC_ONE, ay2 + VC_ONE) && vc_arg_seen (4, ax2 + VC_ONE, ay2 + VC_ONE));
        }
        for (k = 0; k < 4; k++)
        {
            long cx = vc_tp_rx[k], cy = vc_tp_ry[k];
            if (flags & VC_N)
                VH_CHECK ("extent.transformed.cover_nearest_corner_sample_inside_image",
                          vc_floor16 (cx - VC_E) >= 0 && vc_floor16 (cx - VC_E) < in_w
                          && vc_floor16 (cy - VC_E) >= 0 && vc_floor16 (cy - VC_E) < in_h);
            if (flags & VC_B)
                VH_CHECK ("extent.transformed.cover_bilinear_both_corner_taps_inside_image",
                          vc_floor16 (cx - VC_HALF) >= 0 && vc_floor16 (cx - VC_HALF) + 1 < in_w
                          && vc_floor16 (cy - VC_HALF) >= 0 && vc_floor16 (cy - VC_HALF) + 1 < in_h);
        }
        for (k = 4; k < 8; k++)
        {
            long cx = vc_tp_rx[k], cy = vc_tp_ry[k];
            VH_CHECK ("extent.transformed.expanded_corner_with_filter_footprint_fits_16_16",
                      cx + xoff - 8 * VC_E >= INT32_MIN && cy + yoff - 8 * VC_E >= INT32_MIN
                      && cx + xoff + 8 * VC_E + fw <= INT32_MAX && cy + yoff + 8 * VC_E + fh <= INT32_MAX);
        }
#endif
#if VC_FILTER == 4
        VH_CHECK ("extent.true.unknown_filter_refused_for_bits_images", vc_img.type != BITS
                  || (!have_tr && in_x1 >= 0 && in_y1 >= 0 && in_x2 <= in_w && in_y2 <= in_h));
#endif
    }
    VH_END ();
}
