/* C04 (4): the trapezoid row rasterisers rasterize_edges_{1,4,8} (pixman-edge.c + pixman-edge-imp.h, REAL file
 * #included; -DVC_ACC=1: the accessor build of the same text) on an image whose pixel storage is EXACTLY
 * height * stride bytes and an object of its own (malloc, no guard words, no spare word per row).
 *
 * Why a second harness next to harness/C12/row.c: that one checks the VALUE of every slot of a buffer that has a
 * guard word before and after the image and a spare word per row, so a read / same-value rewrite of the first byte
 * after a row lands in storage the harness owns and is invisible.  Here the property is the C04 one: no byte
 * outside [bits, bits + height*stride) is touched at all - stated through CBMC's pointer/bounds checks on the
 * exactly-sized heap object (natively: ASan on the exactly-sized malloc block), for
 *      width      any in 1 .. VC_W  (VC_W = whole words: the row has no padding when width == VC_W)
 *      rows       VC_H (2), the sample row t == b any y of either image row, the LAST row included
 *      l->x, r->x any int32: left of the image, inside, at the right edge (r->x == width.0) and beyond it
 *      stride     +VC_W/ppw words (bits = first byte of the block) or, -DVC_NEG=1, -VC_W/ppw words with bits
 *                 pointing at the last stride-row of the block (bottom-up image: row 0 ends at the end of the block)
 *   -DVC_CASE=1: two consecutive sample rows t, b = next grid row after t with vertical edges, t on the last
 *                grid row of image row 0: the `line += stride` step lands on the last image row.
 * plus one explicit frame obligation: a ghost byte of the block outside the rasterised row keeps its value.
 *
 *   -DVC_N=1|4|8   -DVC_ACC=0|1   -DVC_W=<pixels, multiple of 32/N>   -DVC_NEG=0|1   -DVC_CASE=0|1
 */
#if VC_ACC
#include "pixman-edge-accessors.c"
#else
#include "pixman-edge.c"
#endif
#include <stdlib.h>
#include "vh.h"

#ifndef VC_N
#define VC_N 4
#endif
#ifndef VC_W
#define VC_W 8
#endif
#ifndef VC_CASE
#define VC_CASE 0
#endif
#define N VC_N
#if N == 1
#define RAST rasterize_edges_1
#define FMT PIXMAN_a1
#elif N == 4
#define RAST rasterize_edges_4
#define FMT PIXMAN_a4
#else
#define RAST rasterize_edges_8
#define FMT PIXMAN_a8
#endif

#define PPW      (32 / N)                   /* pixels per 32-bit word */
#define STRIDEW  (VC_W / PPW)               /* words per row: no spare word */
#define STRIDEB  (STRIDEW * 4)
#define H        2
#define NBYTES   (H * STRIDEB)              /* the whole pixel storage */

#if VC_W % PPW
#error "VC_W must be a whole number of words"
#endif

#if VC_ACC
static uint32_t acc_read (const void *p, int size)
{
    return size == 1 ? *(const uint8_t *) p : size == 2 ? *(const uint16_t *) p : *(const uint32_t *) p;
}
static void acc_write (void *p, uint32_t v, int size)
{
    if (size == 1) *(uint8_t *) p = v; else if (size == 2) *(uint16_t *) p = v; else *(uint32_t *) p = v;
}
#endif

void harness (void)
{
    pixman_image_t im;
    pixman_edge_t l, r;
    VH_IN (vh_i32, in_width);
    VH_IN (vh_i32, in_y);
    VH_IN (vh_i32, in_lx);
    VH_IN (vh_i32, in_rx);
    VH_IN (vh_i32, in_g);
    VH_IN (vh_u32, in_b0); VH_IN (vh_u32, in_b1); VH_IN (vh_u32, in_b2); VH_IN (vh_u32, in_b3);
    const vh_u32 init[4] = { in_b0, in_b1, in_b2, in_b3 };
    uint8_t *store = malloc (NBYTES);       /* exactly height * |stride| bytes: nothing of ours before or after */
    int i, row, grow;
    uint8_t old;
    pixman_fixed_t t, b;

    if (!store)
        return;
    for (i = 0; i < NBYTES / 4; i++)         /* H * STRIDEW words */
        ((uint32_t *) store)[i] = init[i % 4] + 0x9e3779b9u * (i / 4);

    VH_ASSUME (in_width >= 1 && in_width <= VC_W);
    VH_ASSUME (in_y >= 0 && (in_y >> 16) < H);
    VH_ASSUME (in_g >= 0 && in_g < NBYTES);
#if N == 1
    /* the complement overflows int32 in `rx += X_FRAC_FIRST(1) - e`: C12 job finding.row.a1.far_right */
    VH_ASSUME (in_lx <= 0x7fffffff - 0x7fff && in_rx <= 0x7fffffff - 0x7fff);
#endif

    memset (&im, 0, sizeof im);
    im.type = BITS;
    im.bits.format = FMT;
    im.bits.width = in_width;
    im.bits.height = H;
#if VC_NEG
    im.bits.bits = (uint32_t *) (store + (H - 1) * STRIDEB);
    im.bits.rowstride = -STRIDEW;
#else
    im.bits.bits = (uint32_t *) store;
    im.bits.rowstride = STRIDEW;
#endif
#if VC_ACC
    im.bits.read_func = acc_read;
    im.bits.write_func = acc_write;
#endif
    memset (&l, 0, sizeof l);
    memset (&r, 0, sizeof r);
    l.x = in_lx;
    r.x = in_rx;

    t = in_y;
#if VC_CASE == 0
    b = t;
#else
    /* last sample row of image row 0, then the first one of image row 1 (one big step, vertical edges) */
    VH_ASSUME (in_y == Y_FRAC_LAST (N));
    b = pixman_fixed_1 + Y_FRAC_FIRST (N);
#endif
    row = in_y >> 16;                       /* image row the (first) sample row belongs to */
#if VC_NEG
    grow = (H - 1) - in_g / STRIDEB;        /* image row of the ghost byte */
#else
    grow = in_g / STRIDEB;
#endif
    old = store[in_g];

    RAST (&im, &l, &r, t, b);               /* every access outside `store` is a failed pointer check / ASan report */

#if VC_CASE == 0
    if (grow != row)
        VH_CHECK ("tight.byte_of_another_row_unchanged", store[in_g] == old);
#endif
    free (store);
    VH_END ();
}
