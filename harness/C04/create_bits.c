/* C04 (2b): create_bits / _pixman_bits_image_init / pixman_image_create_bits (pixman-bits-image.c, REAL file
 * #included together with the real pixman-utils.c, pixman-image.c and pixman-region32.c): the pixel storage the
 * library allocates for an image is as large as the image it then describes.
 *
 * Specification, from the property ("images described truthfully by (bits, width, height, stride, format)";
 * "its own allocations") and the documented layout "stride = ((width * bpp + 0x1f) >> 5) * sizeof (uint32_t)":
 * for a format of VC_BPP bits per pixel and EVERY width, height in int32, the result is either a refusal
 * (NULL / FALSE) or
 *      width > 0, height > 0
 *      stride_bytes == 4 * ceil (width * bpp / 32)         (64-bit arithmetic here: nothing wraps)
 *      stride_bytes * 8 >= width * bpp,  stride_bytes fits int
 *      exactly one allocator call, requested size == height * stride_bytes as a mathematical integer
 *      the block has that many bytes (first / last byte written: pointer checks, natively ASan); `clear` => calloc
 *      (_init / create_bits image) image->bits.{format,width,height} are the arguments, bits == free_me == the block,
 *      rowstride (in uint32_t units) * 4 == stride_bytes
 * and a refusal happens only if the allocator failed, a dimension is negative, or the row is at the limit
 * ((width + 1) * bpp + 31 > INT32_MAX) - the code is deliberately conservative by less than one pixel.
 * Caller-supplied bits (VC_CASE 3): the image describes exactly (bits, stride) as given and owns nothing.
 *
 *   -DVC_CASE=0  create_bits (format, w, h, &stride, clear)                      precondition of the only call site: w != 0 && h != 0
 *   -DVC_CASE=1  _pixman_bits_image_init (&image, format, w, h, NULL, any rowstride, clear)
 *   -DVC_CASE=2  pixman_image_create_bits / _no_clear (format, w, h, NULL, any stride)
 *   -DVC_CASE=3  pixman_image_create_bits (format, w, h, caller's bits, stride)
 *   -DVC_BPP=n   the format code is  bpp field/shift for n | any type, a, r, g, b bits  (1,4,8,12,16,24,32: shift 0; 96,128: shift 3)
 *   -DVC_HBITS=k (optional) height < 2^k;  -DVC_SIZESTUB=1: _pixman_multiply_overflows_size replaced by its contract
 *                (nondeterministic answer satisfying: FALSE => a*b fits size_t; TRUE => (a+1)*b does not), natively the real one.
 *
 * The allocator is intercepted by name for the text of pixman-bits-image.c and pixman-image.c: it records the
 * requested size, fails on request (in_failmask, one bit per call) and refuses requests above 2^40 bytes (a finite
 * machine; this also keeps the model's objects inside CBMC's pointer-offset width).
 */
#include <config.h>
#include <stdlib.h>
#include <string.h>
#include "vh.h"

#ifndef VC_CASE
#define VC_CASE 0
#endif
#ifndef VC_BPP
#define VC_BPP 32
#endif

#define VC_MAXALLOC ((size_t) 1 << 40)
static size_t vc_req_size;          /* size of the last pixel-storage request */
static int vc_calls, vc_calloc_calls, vc_refused;
static unsigned vc_failmask;
static void *vc_last;
static int vc_fail_now (size_t n)
{
    int k = vc_calls++;
    if ((k < 8 && ((vc_failmask >> k) & 1u)) || n > VC_MAXALLOC) { vc_refused++; return 1; }
    return 0;
}
static void *vc_malloc (size_t n)
{
    vc_req_size = n;
    if (vc_fail_now (n)) return (void *) 0;
    return vc_last = malloc (n);
}
static void *vc_calloc (size_t a, size_t b)
{
    vc_calloc_calls++;
    vc_req_size = a * b;            /* create_bits passes (buf_size, 1) */
    if (b != 1 || vc_fail_now (a)) { vc_refused++; return (void *) 0; }
    return vc_last = calloc (a, b);
}

#if VC_CASE >= 2
#define malloc(n) vc_image_malloc (n)
static void *vc_image_malloc (size_t n);
#include "pixman-image.c"
#undef malloc
#else
#include "pixman-image.c"
#endif
#include "pixman-region32.c"
#if VC_SIZESTUB
#define _pixman_multiply_overflows_size real_pixman_multiply_overflows_size
#include "pixman-utils.c"
#undef _pixman_multiply_overflows_size
#else
#include "pixman-utils.c"
#endif
#define malloc(n) vc_malloc (n)
#define calloc(a, b) vc_calloc (a, b)
#include "pixman-bits-image.c"
#undef malloc
#undef calloc

#if VC_CASE >= 2
static int vc_image_allocs;
static unsigned vc_image_fail;
static void *vc_image_malloc (size_t n)
{
    vc_image_allocs++;
    if (vc_image_fail) return (void *) 0;
    return malloc (n);
}
#endif

typedef unsigned __int128 vc_u128;

#if VC_SIZESTUB
pixman_bool_t _pixman_multiply_overflows_size (size_t a, size_t b)
{
#ifdef VH_CBMC
    pixman_bool_t r = nondet_vh_i32 () != 0;
    VH_CHECK ("size_contract.divisor_not_zero", b != 0);
    __CPROVER_assume (r || (vc_u128) a * b <= (vc_u128) SIZE_MAX);
    __CPROVER_assume (!r || ((vc_u128) a + 1) * b > (vc_u128) SIZE_MAX);
    return r;
#else
    return real_pixman_multiply_overflows_size (a, b);
#endif
}
#endif

#if VC_BPP == 96 || VC_BPP == 128
#define VC_FMT_HI   ((vh_u32) ((VC_BPP >> 3) << 24) | (3u << 22))
#else
#define VC_FMT_HI   ((vh_u32) (VC_BPP << 24))
#endif

void harness (void)
{
    VH_IN (vh_u32, in_fmt_low);     /* type, a, r, g, b fields: any */
    VH_IN (vh_i32, in_width);
    VH_IN (vh_i32, in_height);
    VH_IN (vh_i32, in_stride);      /* the rowstride argument (ignored by the code when it allocates) */
    VH_IN (vh_u8, in_clear);
    VH_IN (vh_u32, in_failmask);
    pixman_format_code_t format = (pixman_format_code_t) (VC_FMT_HI | (in_fmt_low & 0x3fffffu));
    long want_stride;
    __int128 want_size;
    int refused_ok;

    vc_failmask = in_failmask;
#ifdef VC_HBITS
    VH_ASSUME (in_height < (1 << VC_HBITS));
#endif
#ifdef VC_WBITS
    VH_ASSUME (in_width < (1 << VC_WBITS));
#endif
    VH_CHECK ("spec.format_has_the_stated_bpp", PIXMAN_FORMAT_BPP (format) == VC_BPP);
    /* written from the documented layout, in 64-bit arithmetic */
    want_stride = (((long) in_width * VC_BPP + 31) / 32) * 4;
    want_size = (__int128) in_height * want_stride;     /* |.| < 2^31 * 2^36: 128-bit, nothing wraps */
    refused_ok = in_width < 0 || in_height < 0 || ((long) in_width + 1) * VC_BPP + 31 > (long) INT32_MAX;

#if VC_CASE == 0
    {
        int stride_bytes = -12345;
        uint8_t *p;
        VH_ASSUME (in_width != 0 && in_height != 0);    /* call site: `if (!bits && width && height)` */
        p = (uint8_t *) create_bits (format, in_width, in_height, &stride_bytes, in_clear != 0);
        if (p)
        {
            VH_CHECK ("create_bits.dimensions_positive", in_width > 0 && in_height > 0);
            VH_CHECK ("create_bits.stride_is_rounded_up_row_size", (long) stride_bytes == want_stride);
            VH_CHECK ("create_bits.stride_covers_the_row", (long) stride_bytes * 8 >= (long) in_width * VC_BPP);
            VH_CHECK ("create_bits.one_allocator_call", vc_calls == 1 && vc_refused == 0 && p == vc_last);
            VH_CHECK ("create_bits.requested_size_is_height_times_stride", (vc_u128) vc_req_size == (vc_u128) want_size && want_size > 0);
            VH_CHECK ("create_bits.clear_uses_calloc", (in_clear != 0) == (vc_calloc_calls == 1));
            p[0] = 1;
            p[(size_t) want_size - 1] = 2;                       /* last byte of the last row */
            p[(long) (in_height - 1) * stride_bytes] = 3;   /* first byte of the last row */
            free (p);
        }
        else
            VH_CHECK ("create_bits.null_only_if_allocator_failed_or_at_the_limit", vc_refused > 0 || refused_ok);
        VH_CHECK ("create_bits.at_most_one_allocator_call", vc_calls <= 1);
    }
#elif VC_CASE == 1
    {
        pixman_image_t im;
        pixman_bool_t ok;
        memset (&im, 0x5a, sizeof im);
#if VC_BPP == 128
        refused_ok = refused_ok || in_stride % 4 != 0;  /* return_val_if_fail (!(rowstride % 4)): a caller's error, logged */
#endif
        ok = _pixman_bits_image_init (&im, format, in_width, in_height, NULL, in_stride, in_clear != 0);
        if (ok)
        {
            VH_CHECK ("init.type_and_geometry_are_the_arguments", im.type == BITS && im.bits.format == format &&
                      im.bits.width == in_width && im.bits.height == in_height);
            if (in_width != 0 && in_height != 0)
            {
                uint8_t *p = (uint8_t *) im.bits.bits;
                VH_CHECK ("init.dimensions_positive", in_width > 0 && in_height > 0);
                VH_CHECK ("init.owns_the_block_it_describes", p != NULL && im.bits.bits == im.bits.free_me && (void *) p == vc_last &&
                          vc_calls == 1 && vc_refused == 0);
                VH_CHECK ("init.rowstride_words_is_rounded_up_row_size", (long) im.bits.rowstride * 4 == want_stride);
                VH_CHECK ("init.block_size_is_height_times_rowstride", (vc_u128) vc_req_size == (vc_u128) ((long) in_height * im.bits.rowstride * 4));
                VH_CHECK ("init.row_fits_rowstride", (long) im.bits.rowstride * 32 >= (long) in_width * VC_BPP);
                p[0] = 1;
                p[(long) (in_height - 1) * im.bits.rowstride * 4] = 2;
                p[(long) in_height * im.bits.rowstride * 4 - 1] = 3;
                free (im.bits.free_me);
            }
            else
                VH_CHECK ("init.empty_image_allocates_nothing", im.bits.bits == NULL && im.bits.free_me == NULL && vc_calls == 0 &&
                          im.bits.rowstride == in_stride);
        }
        else
            VH_CHECK ("init.false_only_if_allocator_failed_or_at_the_limit", vc_refused > 0 || refused_ok);
    }
#elif VC_CASE == 2
    {
        pixman_image_t *im;
        VH_IN (vh_u8, in_image_alloc_fails);
        vc_image_fail = in_image_alloc_fails;
        /* rowstride_bytes is not looked at when bits == NULL */
        im = in_clear ? pixman_image_create_bits (format, in_width, in_height, NULL, in_stride)
                      : pixman_image_create_bits_no_clear (format, in_width, in_height, NULL, in_stride);
        if (im)
        {
            VH_CHECK ("api.type_and_geometry_are_the_arguments", im->type == BITS && im->bits.format == format &&
                      im->bits.width == in_width && im->bits.height == in_height);
            if (in_width != 0 && in_height != 0)
            {
                uint8_t *p = (uint8_t *) im->bits.bits;
                VH_CHECK ("api.dimensions_positive", in_width > 0 && in_height > 0);
                VH_CHECK ("api.owns_the_block_it_describes", p != NULL && im->bits.bits == im->bits.free_me && (void *) p == vc_last &&
                          vc_calls == 1 && vc_refused == 0);
                VH_CHECK ("api.rowstride_words_is_rounded_up_row_size", (long) im->bits.rowstride * 4 == want_stride);
                VH_CHECK ("api.block_size_is_height_times_rowstride", (vc_u128) vc_req_size == (vc_u128) ((long) in_height * im->bits.rowstride * 4));
                VH_CHECK ("api.clear_uses_calloc", (in_clear != 0) == (vc_calloc_calls == 1));
                p[0] = 1;
                p[(long) in_height * im->bits.rowstride * 4 - 1] = 3;
                free (im->bits.free_me);
            }
            else
                VH_CHECK ("api.empty_image_allocates_nothing", im->bits.bits == NULL && im->bits.free_me == NULL && vc_calls == 0);
            free (im);
        }
        else
        {
            VH_CHECK ("api.null_only_if_allocator_failed_or_at_the_limit_or_bad_format", vc_refused > 0 || vc_image_fail || refused_ok ||
                      PIXMAN_FORMAT_BPP (format) < PIXMAN_FORMAT_DEPTH (format));
            VH_CHECK ("api.nothing_left_allocated_on_refusal", vc_calls == vc_refused || vc_calls == 0);
        }
    }
#else
    {
        pixman_image_t *im;
        static uint32_t caller_bits[4];
        VH_IN (vh_u8, in_image_alloc_fails);
        vc_image_fail = in_image_alloc_fails;
        im = pixman_image_create_bits (format, in_width, in_height, caller_bits, in_stride);
        if (im)
        {
            VH_CHECK ("api_bits.describes_exactly_the_callers_buffer", im->type == BITS && im->bits.format == format &&
                      im->bits.width == in_width && im->bits.height == in_height && im->bits.bits == caller_bits &&
                      (long) im->bits.rowstride * 4 == (long) in_stride);
            VH_CHECK ("api_bits.owns_nothing_allocates_nothing", im->bits.free_me == NULL && vc_calls == 0);
            free (im);
        }
        else
            VH_CHECK ("api_bits.null_only_if_image_allocation_failed_or_bad_argument", vc_image_fail || in_stride % 4 != 0 ||
                      (VC_BPP == 128 && in_stride % 16 != 0) || PIXMAN_FORMAT_BPP (format) < PIXMAN_FORMAT_DEPTH (format));
    }
#endif
    VH_END ();
}
