/* C04 (2a): overflow-checked allocation helpers of pixman-utils.c (REAL file #included).
 *
 *   -DVC_FN=1  pixman_malloc_ab (a, b)
 *   -DVC_FN=2  pixman_malloc_abc (a, b, c)
 *   -DVC_FN=3  pixman_malloc_ab_plus_c (a, b, c)
 *   -DVC_FN=4  _pixman_multiply_overflows_int (a, b)
 *   -DVC_FN=5  _pixman_multiply_overflows_size (a, b)
 *   -DVC_FN=6  _pixman_addition_overflows_int (a, b)
 *
 * Specification (from the property: "its own allocations" are as large as the caller's
 * arithmetic says): a non-NULL result was obtained from the allocator with a size that
 * equals the MATHEMATICAL value a*b, a*b*c or a*b+c, computed here in 128-bit unsigned
 * arithmetic where nothing can wrap; and the block really has that many bytes (first and
 * last byte are written: pointer checks / ASan).  The *_overflows_* predicates must be TRUE
 * whenever the mathematical result does not fit the type the callers go on to use
 * (int for _int: callers store the product/sum in `int`; size_t for _size).
 *
 * The allocator is intercepted by name (malloc -> vc_malloc) for the text of
 * pixman-utils.c: it records the requested size and fails on request (in_alloc_fails).
 * Loop-free; full 32/64-bit input domain.
 *
 * Precondition taken from the call sites: the divisor operands (b; c of _abc) are not 0 —
 * the helpers divide INT32_MAX / b.  Every caller in the tree passes a sizeof or a
 * checked positive value (create_bits: see create_bits.c), except pixman_malloc_ab_plus_c
 * which tests b itself: for it b == 0 is part of the domain.
 */
#include <config.h>
#include <stdlib.h>
#include <stdio.h>
#include "vh.h"

static size_t vc_req_size;
static int vc_malloc_calls, vc_alloc_fails;
static void *vc_malloc (size_t n)
{
    vc_malloc_calls++;
    vc_req_size = n;
    if (vc_alloc_fails)
        return (void *) 0;
    return malloc (n);
}
#define malloc(n) vc_malloc (n)
#include "pixman-utils.c"
#undef malloc


typedef unsigned __int128 vc_u128;

#ifndef VC_FN
#define VC_FN 1
#endif

void harness (void)
{
#if VC_FN <= 3
    VH_IN (vh_u32, in_a);
    VH_IN (vh_u32, in_b);
    VH_IN (vh_u32, in_c);
    VH_IN (vh_u8, in_alloc_fails);
    vc_u128 math;
    int refuse_ok;
    unsigned char *p;

    vc_alloc_fails = in_alloc_fails != 0;
#if VC_FN == 1
    VH_ASSUME (in_b != 0);
    math = (vh_u64) in_a * in_b;
    refuse_ok = ((vh_u64) in_a + 1) * in_b > (vh_u64) INT32_MAX;
    p = pixman_malloc_ab (in_a, in_b);
#elif VC_FN == 2
    VH_ASSUME (in_b != 0 && in_c != 0);
    math = (vc_u128) ((vh_u64) in_a * in_b) * in_c;
    refuse_ok = ((vh_u64) in_a + 1) * in_b > (vh_u64) INT32_MAX
                || (vc_u128) ((vh_u64) in_a * in_b + 1) * in_c > (vc_u128) INT32_MAX;
    p = pixman_malloc_abc (in_a, in_b, in_c);
#else
    /* from the only call site (general_composite_rect passes 45): c is a small non-negative int */
    VH_ASSUME (in_c <= (vh_u32) INT32_MAX);
    math = (vh_u64) in_a * in_b + in_c;
    refuse_ok = in_b == 0 || ((vh_u64) in_a + 1) * in_b > (vh_u64) INT32_MAX || (vh_u64) in_a * in_b + in_c > (vh_u64) INT32_MAX;
    p = pixman_malloc_ab_plus_c (in_a, in_b, in_c);
#endif
    if (p)
    {
        VH_CHECK ("alloc.nonnull_came_from_one_allocator_call", vc_malloc_calls == 1 && !vc_alloc_fails);
        VH_CHECK ("alloc.requested_size_is_the_mathematical_value", (vc_u128) vc_req_size == math);
        VH_CHECK ("alloc.size_fits_int32", math <= (vc_u128) INT32_MAX);
        if (math > 0)
        {
            /* the block really has `math` bytes */
            p[0] = 1;
            p[(size_t) math - 1] = 2;
        }
        free (p);
    }
    else
    {
        /* NULL only if the allocator failed or the request is at the limit: one more row
         * ((a+1)*b, resp. (a*b+1)*c) or the sum itself would exceed INT32_MAX.  (The helpers are
         * deliberately conservative by less than one row; a request well inside the range is
         * not refused.) */
        VH_CHECK ("alloc.null_only_if_at_the_limit_or_allocator_failed", vc_alloc_fails || refuse_ok);
    }
    VH_CHECK ("alloc.at_most_one_allocator_call", vc_malloc_calls <= 1);
#elif VC_FN == 4
    VH_IN (vh_u32, in_a);
    VH_IN (vh_u32, in_b);
    VH_ASSUME (in_b != 0);
#ifdef VC_BMAX
    VH_ASSUME (in_b <= VC_BMAX);    /* bounded quick-tier variant (lead): small divisor, every a */
#endif
    {
        pixman_bool_t r = _pixman_multiply_overflows_int (in_a, in_b);
        VH_CHECK ("overflows_int.mul.false_implies_product_fits_int", r || (vh_u64) in_a * in_b <= (vh_u64) INT32_MAX);
        VH_CHECK ("overflows_int.mul.true_only_near_or_beyond_the_limit", !r || ((vh_u64) in_a + 1) * in_b > (vh_u64) INT32_MAX);
    }
#elif VC_FN == 5
    VH_IN (vh_u64, in_a);
    VH_IN (vh_u64, in_b);
    VH_ASSUME (in_b != 0);
    /* call site (create_bits): b is a positive int (the row stride in bytes) */
    VH_ASSUME (in_b <= (vh_u64) INT32_MAX);
    {
        pixman_bool_t r = _pixman_multiply_overflows_size ((size_t) in_a, (size_t) in_b);
        VH_CHECK ("overflows_size.mul.false_implies_product_fits_size_t", r || (vc_u128) in_a * in_b <= (vc_u128) SIZE_MAX);
        VH_CHECK ("overflows_size.mul.true_only_near_or_beyond_the_limit", !r || ((vc_u128) in_a + 1) * in_b > (vc_u128) SIZE_MAX);
    }
#else
    VH_IN (vh_u32, in_a);
    VH_IN (vh_u32, in_b);
    VH_ASSUME (in_b <= (vh_u32) INT32_MAX);
    {
        pixman_bool_t r = _pixman_addition_overflows_int (in_a, in_b);
        VH_CHECK ("overflows_int.add.false_iff_sum_fits_int", (r == 0) == ((vc_u128) in_a + in_b <= (vc_u128) INT32_MAX));
    }
#endif
    VH_END ();
}
