/* replay_link.c - native replay only (empty under CBMC): weak aborting bodies for library
 * functions that the #included whole files (pixman-general.c, pixman.c) reference from code the
 * harness never runs.  A harness that defines one of them itself (strong symbol) wins. */
#ifdef VH_REPLAY
#include <stdlib.h>
#define VC_WEAK_ABORT(name) __attribute__ ((weak)) void name (void) { abort (); }
VC_WEAK_ABORT (_pixman_implementation_create)
VC_WEAK_ABORT (_pixman_setup_combiner_functions_32)
VC_WEAK_ABORT (_pixman_setup_combiner_functions_float)
VC_WEAK_ABORT (_pixman_bits_image_src_iter_init)
VC_WEAK_ABORT (_pixman_bits_image_dest_iter_init)
VC_WEAK_ABORT (_pixman_linear_gradient_iter_init)
VC_WEAK_ABORT (_pixman_radial_gradient_iter_init)
VC_WEAK_ABORT (_pixman_conical_gradient_iter_init)
/* create_bits.c (pixman-bits-image.c + pixman-image.c in one TU) */
VC_WEAK_ABORT (_pixman_bits_image_setup_accessors)
VC_WEAK_ABORT (pixman_transform_point_3d)
#else
typedef int vc_c04_replay_link_empty;
#endif
