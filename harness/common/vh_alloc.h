/* vh_alloc.h — explicit, replayable allocation failure (C15 and every heap-touching check).
 *
 * Include AFTER <stdlib.h> and BEFORE the real pixman .c file:
 *     #include "vh.h"
 *     #include "vh_alloc.h"
 *     #include "pixman-region32.c"
 * Every malloc/calloc/realloc of the real code then goes through vh_*: the k-th
 * allocation call (k = 0..31) fails iff bit k of vh_failmask is set, so "any
 * single, k-th or persistent failure pattern" is the 32-bit input in_failmask
 * (allocation calls beyond the 32nd never fail: stated bound).  The driver runs
 * cbmc with --no-malloc-may-fail so that this mask is the ONLY source of
 * failure and the counterexample replays natively.  Leaks: cbmc
 * --memory-leak-check / ASan leak detector natively.
 * Also counts live blocks for explicit "freed exactly once" postconditions.
 */
#ifndef VH_ALLOC_H
#define VH_ALLOC_H
#include <stdlib.h>

static unsigned vh_failmask;   /* set from VH_IN (vh_u32, in_failmask) in the harness */
static int vh_alloc_calls;     /* number of allocation calls so far */
static int vh_alloc_failed;    /* number of injected failures */
static int vh_free_calls;

static int vh_should_fail (void)
{
    int k = vh_alloc_calls++;
    if (k < 32 && ((vh_failmask >> k) & 1u)) { vh_alloc_failed++; return 1; }
    return 0;
}
static void *vh_malloc (size_t n) { return vh_should_fail () ? (void *) 0 : malloc (n); }
static void *vh_calloc (size_t a, size_t b) { return vh_should_fail () ? (void *) 0 : calloc (a, b); }
static void *vh_realloc (void *p, size_t n) { return vh_should_fail () ? (void *) 0 : realloc (p, n); }
static void vh_free (void *p) { if (p) vh_free_calls++; free (p); }

#define malloc(n)     vh_malloc (n)
#define calloc(a, b)  vh_calloc (a, b)
#define realloc(p, n) vh_realloc (p, n)
#define free(p)       vh_free (p)
#endif
