/* vh.h — one harness text, two compilations.
 *
 *  -DVH_CBMC   : compiled by goto-cc; inputs are nondeterministic, VH_ASSUME is
 *                __CPROVER_assume, VH_CHECK is a named __CPROVER_assert.
 *  -DVH_REPLAY : compiled by gcc (ASan+UBSan) for native replay of a verifier
 *                counterexample; inputs come from the table in VH_INPUTS_FILE
 *                (generated from the trace), VH_ASSUME aborts with exit 3
 *                ("counterexample does not satisfy the precondition natively":
 *                the report is then NOT a replayed violation), VH_CHECK records
 *                a failure and the program exits 1 at VH_END.
 *
 * Inputs are declared with VH_IN(type, name); the name is what the driver
 * looks for in the trace (harness-local variable `name`).
 */
#ifndef VH_H
#define VH_H

#include <stdint.h>
#include <stddef.h>

#if defined(VH_CBMC)

#define VH_IN(type, name)      type name = nondet_##type ()
#define VH_ASSUME(c)           __CPROVER_assume (c)
#define VH_CHECK(id, c)        __CPROVER_assert ((c), id)
#ifdef VH_NO_CANARY
#define VH_END()               do { } while (0)
#else
#define VH_END()               __CPROVER_assert (0, "VH_CANARY harness end reachable (expected to fail)")
#endif
#define VH_COVER_POINT(id)     do { } while (0)

typedef unsigned char vh_u8; typedef unsigned short vh_u16; typedef unsigned vh_u32;
typedef unsigned long vh_u64; typedef int vh_i32; typedef long vh_i64; typedef short vh_i16;
typedef signed char vh_i8; typedef double vh_f64; typedef float vh_f32;
vh_u8 nondet_vh_u8 (void); vh_u16 nondet_vh_u16 (void); vh_u32 nondet_vh_u32 (void);
vh_u64 nondet_vh_u64 (void); vh_i32 nondet_vh_i32 (void); vh_i64 nondet_vh_i64 (void);
vh_i16 nondet_vh_i16 (void); vh_i8 nondet_vh_i8 (void);
vh_f64 nondet_vh_f64 (void); vh_f32 nondet_vh_f32 (void);

#elif defined(VH_REPLAY)

#include <stdio.h>
#include <stdlib.h>
#include <string.h>

typedef unsigned char vh_u8; typedef unsigned short vh_u16; typedef unsigned vh_u32;
typedef unsigned long vh_u64; typedef int vh_i32; typedef long vh_i64; typedef short vh_i16;
typedef signed char vh_i8; typedef double vh_f64; typedef float vh_f32;

struct vh_input { const char *name; long long ival; double fval; };
static const struct vh_input vh_inputs[] = {
#ifdef VH_INPUTS_FILE
#include VH_INPUTS_FILE
#endif
    { 0, 0, 0.0 }
};
static int vh_failed;
static const struct vh_input *vh_find (const char *n)
{
    const struct vh_input *p;
    for (p = vh_inputs; p->name; p++)
        if (!strcmp (p->name, n)) return p;
    return 0;
}
#define VH_GET_I(name) (vh_find (name) ? vh_find (name)->ival : 0)
#define VH_GET_F(name) (vh_find (name) ? vh_find (name)->fval : 0.0)
#define vh_get_vh_u8(n)  ((vh_u8) VH_GET_I (n))
#define vh_get_vh_u16(n) ((vh_u16) VH_GET_I (n))
#define vh_get_vh_u32(n) ((vh_u32) VH_GET_I (n))
#define vh_get_vh_u64(n) ((vh_u64) VH_GET_I (n))
#define vh_get_vh_i8(n)  ((vh_i8) VH_GET_I (n))
#define vh_get_vh_i16(n) ((vh_i16) VH_GET_I (n))
#define vh_get_vh_i32(n) ((vh_i32) VH_GET_I (n))
#define vh_get_vh_i64(n) ((vh_i64) VH_GET_I (n))
#define vh_get_vh_f64(n) ((vh_f64) VH_GET_F (n))
#define vh_get_vh_f32(n) ((vh_f32) VH_GET_F (n))
#define VH_IN(type, name)  type name = vh_get_##type (#name)
#define VH_ASSUME(c) \
    do { if (!(c)) { printf ("REPLAY-ASSUME-FAILED %s\n", #c); exit (3); } } while (0)
#define VH_CHECK(id, c) \
    do { if (!(c)) { printf ("REPLAY-CHECK-FAILED %s\n", id); vh_failed = 1; } } while (0)
#define VH_END() \
    do { if (vh_failed) { printf ("REPLAY-RESULT violated\n"); exit (1); } \
         printf ("REPLAY-RESULT holds\n"); exit (0); } while (0)
#define __CPROVER_assume(c) VH_ASSUME (c)
#define __CPROVER_assert(c, id) VH_CHECK (id, c)
#ifndef VH_ENTRY
#define VH_ENTRY harness
#endif
void VH_ENTRY (void);
int main (void) { VH_ENTRY (); VH_END (); return 0; }

#else
#error "define VH_CBMC or VH_REPLAY"
#endif

#endif
