/* C01 route H, loop-free: one pixel, every (s, m, d) in 2^96, all four
 * channels; the real combiner is called on width-1 buffers with a guard word
 * on each side.  Replayable natively (inputs in_s, in_m, in_d).
 *   -DVC_FN=... -DVC_OP=... -DVC_MODE=0|1|2 -DVC_CH=0..3 (one channel per query) | 4 (frame)
 */
#include "pixman-combine32.c"
#include "spec_op.h"
#include "vh.h"

void harness (void)
{
    VH_IN (vh_u32, in_s);
    VH_IN (vh_u32, in_m);
    VH_IN (vh_u32, in_d);
    VH_IN (vh_u32, in_guard);
    uint32_t dest[3] = { in_guard, in_d, ~in_guard };
    uint32_t src[3] = { in_guard, in_s, ~in_guard };
    uint32_t mask[3] = { in_guard, in_m, ~in_guard };
    uint32_t r;

    VH_ASSUME (SPX_PRE (in_s, in_d));

    VC_FN ((pixman_implementation_t *) 0, (pixman_op_t) 0, dest + 1, src + 1,
           VC_MODE ? mask + 1 : (const uint32_t *) 0, 1);
    r = dest[1];
#if VC_CH == 4
    /* frame job: neighbours, source and mask untouched */
    VH_CHECK ("frame.dest_neighbours", dest[0] == in_guard && dest[2] == ~in_guard);
    VH_CHECK ("frame.src_mask_unchanged", src[0] == in_guard && src[1] == in_s && src[2] == ~in_guard && mask[0] == in_guard && mask[1] == in_m && mask[2] == ~in_guard);
#else
    VH_CHECK ("pixel.channel", SPX_POST (r, in_s, in_m, in_d, VC_CH));
#endif
    VH_END ();
}
