/* C01 / C03 / C15 pipeline glue: general_composite_rect (pixman-general.c), the portable
 * fetch -> combine -> write-back loop every request ends in when no special path matches.
 * Route H: the REAL function, with its three callees replaced by recording contract stubs
 *   _pixman_implementation_iter_init      (sets up get_scanline / write_back / fini of the stub iterator)
 *   _pixman_implementation_lookup_combiner (returns the recording combiner)
 * Contract (from the property: "the value given by the equations applied to the inputs", 8 bits "exact ... on
 * formats of at most 8 bits per channel", float "for operators or formats evaluated in floating point"):
 *   - pipeline: narrow (8-bit) iff every image has a narrow format, the operator needs no division and
 *     the destination does not dither; all three iterators and the combiner get the SAME width class;
 *   - the combiner is looked up for the request's operator, component alpha iff the (non-elided) mask has it;
 *   - per row, in this order: mask fetch, source fetch (it may be told about the mask row), destination fetch,
 *     combine (dest row, src row, mask row, request width), destination write-back; exactly `height` rows;
 *   - the three scanline buffers are 16-byte aligned, pairwise disjoint, width*Bpp bytes each, inside the
 *     function's own stack or heap block (--pointer-check on first and last byte);
 *   - the mask is dropped only if there is none or the operator ignores the source completely;
 *   - width <= 0 or an unallocatable scanline buffer: nothing is fetched, combined or stored (C15: skip
 *     work), nothing leaks; every iterator with a fini gets it exactly once.
 * -DVG_HEIGHT=<n> rows (loop unrolled).
 */
#include "vh.h"
#include "vh_alloc.h"
#include "pixman-utils.c"      /* pixman_malloc_ab_plus_c, _pixman_multiply_overflows_int: the real ones, allocation through vh_alloc.h */

static void vg_iter_init (pixman_implementation_t *imp, pixman_iter_t *iter, pixman_image_t *image,
                          int x, int y, int width, int height, uint8_t *buffer,
                          iter_flags_t flags, uint32_t image_flags);
static pixman_combine_32_func_t vg_lookup_combiner (pixman_implementation_t *imp, pixman_op_t op,
                                                    pixman_bool_t component_alpha, pixman_bool_t narrow);
#define _pixman_implementation_iter_init vg_iter_init
#define _pixman_implementation_lookup_combiner vg_lookup_combiner
#include "pixman-general.c"
#undef _pixman_implementation_iter_init
#undef _pixman_implementation_lookup_combiner

#ifndef VG_HEIGHT
#define VG_HEIGHT 2
#endif

/* ---- recorded facts ---- */
static struct
{
    pixman_implementation_t *imp; pixman_iter_t *iter; pixman_image_t *image;
    int x, y, width, height; uint8_t *buffer; iter_flags_t flags; uint32_t image_flags;
} vg_init[3];
static int vg_n_init, vg_n_lookup;
static pixman_op_t vg_lk_op; static pixman_bool_t vg_lk_ca, vg_lk_narrow; static pixman_implementation_t *vg_lk_imp;
static int vg_phase;            /* 0 mask fetch expected, 1 src fetch, 2 dest fetch, 3 combine, 4 write-back */
static int vg_rows_done, vg_order_ok = 1, vg_args_ok = 1;
static int vg_n_fini[3], vg_has_fini[3];
static uint32_t *vg_row_m, *vg_row_s, *vg_row_d;
static uint32_t vg_direct_src[4];      /* an iterator may return a pointer of its own instead of the buffer */
static int vg_src_direct, vg_mask_null_row;
static pixman_implementation_t vg_top;
static int vg_width; static pixman_op_t vg_op;
static int vg_aligned_ok = 1, vg_disjoint_ok = 1;

static int vg_which (pixman_iter_t *it)
{
    return it == vg_init[0].iter ? 0 : it == vg_init[1].iter ? 1 : it == vg_init[2].iter ? 2 : -1;
}

static uint32_t *vg_get_scanline (pixman_iter_t *iter, const uint32_t *mask)
{
    int w = vg_which (iter);
    if (w == 1)
    {
        if (vg_phase != 0 || mask != NULL) vg_order_ok = 0;
        vg_phase = 1;
        vg_row_m = (vg_init[1].image == NULL || vg_mask_null_row) ? NULL : (uint32_t *) iter->buffer;
        return vg_row_m;
    }
    if (w == 0)
    {
        if (vg_phase != 1 || (mask != vg_row_m && mask != NULL)) vg_order_ok = 0;   /* the mask row is only a hint to the source fetcher */
        vg_phase = 2;
        vg_row_s = vg_src_direct ? vg_direct_src : (uint32_t *) iter->buffer;
        return vg_row_s;
    }
    if (w == 2)
    {
        if (vg_phase != 2 || mask != NULL) vg_order_ok = 0;
        vg_phase = 3;
        vg_row_d = (uint32_t *) iter->buffer;
        return vg_row_d;
    }
    vg_order_ok = 0;
    return NULL;
}

static void vg_write_back (pixman_iter_t *iter)
{
    if (vg_which (iter) != 2 || vg_phase != 4) vg_order_ok = 0;
    vg_phase = 0;
    vg_rows_done++;
}

static void vg_fini (pixman_iter_t *iter)
{
    int w = vg_which (iter);
    if (w >= 0) vg_n_fini[w]++;
    else vg_order_ok = 0;
}

static void vg_combine (pixman_implementation_t *imp, pixman_op_t op, uint32_t *dest, const uint32_t *src,
                        const uint32_t *mask, int width)
{
    if (vg_phase != 3) vg_order_ok = 0;
    vg_phase = 4;
    if (imp != &vg_top || op != vg_op || dest != vg_row_d || src != vg_row_s || mask != vg_row_m || width != vg_width)
        vg_args_ok = 0;
}

static void vg_iter_init (pixman_implementation_t *imp, pixman_iter_t *iter, pixman_image_t *image,
                          int x, int y, int width, int height, uint8_t *buffer,
                          iter_flags_t flags, uint32_t image_flags)
{
    int k = vg_n_init++;
    if (k < 3)
    {
        vg_init[k].imp = imp; vg_init[k].iter = iter; vg_init[k].image = image;
        vg_init[k].x = x; vg_init[k].y = y; vg_init[k].width = width; vg_init[k].height = height;
        vg_init[k].buffer = buffer; vg_init[k].flags = flags; vg_init[k].image_flags = image_flags;
        iter->image = image; iter->buffer = (uint32_t *) buffer; iter->x = x; iter->y = y; iter->width = width;
        iter->height = height; iter->iter_flags = flags; iter->image_flags = image_flags;
        iter->get_scanline = vg_get_scanline;
        iter->write_back = vg_write_back;
        iter->fini = vg_has_fini[k] ? vg_fini : NULL;
        /* licence of an iterator: it may touch all width*Bpp bytes of the buffer it is given */
        if (width > 0)
        {
            int bpp = (flags & ITER_WIDE) ? 16 : 4;
#ifdef VH_CBMC
            __CPROVER_assert (__CPROVER_w_ok (buffer, (size_t) width * bpp), "rect.buffer_of_width_times_Bpp_bytes_is_writable_storage");
#else
            buffer[0] = 0x5a;                          /* ASan sees an out-of-bounds block natively */
            buffer[(size_t) width * bpp - 1] = 0xa5;
#endif
        }
    }
}

static pixman_combine_32_func_t vg_lookup_combiner (pixman_implementation_t *imp, pixman_op_t op,
                                                    pixman_bool_t component_alpha, pixman_bool_t narrow)
{
    int i, j;
    vg_n_lookup++;
    vg_lk_imp = imp; vg_lk_op = op; vg_lk_ca = component_alpha; vg_lk_narrow = narrow;
    /* the buffers are compared while they are alive (the block is a local / freed before the function returns) */
    if (vg_n_init == 3 && vg_init[0].width > 0)
    {
        size_t len = (size_t) vg_init[0].width * ((vg_init[0].flags & ITER_WIDE) ? 16 : 4);
        for (i = 0; i < 3; i++)
        {
            if (((uintptr_t) vg_init[i].buffer & 15) != 0) vg_aligned_ok = 0;
            for (j = i + 1; j < 3; j++)
                if (!(vg_init[i].buffer + len <= vg_init[j].buffer || vg_init[j].buffer + len <= vg_init[i].buffer))
                    vg_disjoint_ok = 0;
        }
    }
    else
        vg_aligned_ok = vg_disjoint_ok = 0;
    return vg_combine;
}

/* the operators the property evaluates in floating point ("operators ... evaluated in floating point"):
 * SATURATE, the disjoint and conjoint families, and the PDF blend modes that divide:
 * COLOR_DODGE, COLOR_BURN, SOFT_LIGHT and the four non-separable HSL modes (literal list) */
static int sp_needs_float (int op)
{
    switch (op)
    {
    case PIXMAN_OP_SATURATE:
    case PIXMAN_OP_COLOR_DODGE: case PIXMAN_OP_COLOR_BURN: case PIXMAN_OP_SOFT_LIGHT:
    case PIXMAN_OP_HSL_HUE: case PIXMAN_OP_HSL_SATURATION: case PIXMAN_OP_HSL_COLOR: case PIXMAN_OP_HSL_LUMINOSITY:
        return 1;
    }
    if (op >= PIXMAN_OP_DISJOINT_CLEAR && op <= PIXMAN_OP_DISJOINT_XOR) return 1;
    if (op >= PIXMAN_OP_CONJOINT_CLEAR && op <= PIXMAN_OP_CONJOINT_XOR) return 1;
    return 0;
}

static int sp_is_operator (int op)
{
    return (op >= PIXMAN_OP_CLEAR && op <= PIXMAN_OP_SATURATE) ||
           (op >= PIXMAN_OP_DISJOINT_CLEAR && op <= PIXMAN_OP_DISJOINT_XOR) ||
           (op >= PIXMAN_OP_CONJOINT_CLEAR && op <= PIXMAN_OP_CONJOINT_XOR) ||
           (op >= PIXMAN_OP_MULTIPLY && op <= PIXMAN_OP_HSL_LUMINOSITY);
}

void harness (void)
{
    static pixman_implementation_t imp;
    static pixman_image_t src, mask, dest;
    pixman_composite_info_t info;
    VH_IN (vh_i32, in_op);
    VH_IN (vh_u32, in_src_flags);
    VH_IN (vh_u32, in_mask_flags);
    VH_IN (vh_u32, in_dest_flags);
    VH_IN (vh_u8, in_have_mask);
    VH_IN (vh_u8, in_mask_ca);
    VH_IN (vh_u8, in_dither);
    VH_IN (vh_i32, in_width);
    VH_IN (vh_i32, in_height);
    VH_IN (vh_i32, in_sx); VH_IN (vh_i32, in_sy); VH_IN (vh_i32, in_mx); VH_IN (vh_i32, in_my);
    VH_IN (vh_i32, in_dx); VH_IN (vh_i32, in_dy);
    VH_IN (vh_u32, in_isf); VH_IN (vh_u32, in_imf); VH_IN (vh_u32, in_idf);
    VH_IN (vh_u8, in_fini0); VH_IN (vh_u8, in_fini1); VH_IN (vh_u8, in_fini2);
    VH_IN (vh_u8, in_src_direct); VH_IN (vh_u8, in_mask_null_row);
    VH_IN (vh_u32, in_fail);       /* allocation failure pattern (vh_alloc.h) */
    int narrow, bpp, i, all_zero_calls;

    VH_ASSUME (sp_is_operator (in_op));
    VH_ASSUME (in_height >= 0 && in_height <= VG_HEIGHT);
    VH_ASSUME (in_dither <= PIXMAN_DITHER_ORDERED_BLUE_NOISE_64);
#ifdef VG_PIPE        /* 1: only requests the property sends down the 8-bit pipeline, 2: only the float pipeline */
    VH_ASSUME ((VG_PIPE == 1) == ((in_src_flags & FAST_PATH_NARROW_FORMAT) && (!in_have_mask || (in_mask_flags & FAST_PATH_NARROW_FORMAT)) &&
               (in_dest_flags & FAST_PATH_NARROW_FORMAT) && !sp_needs_float (in_op) && in_dither == PIXMAN_DITHER_NONE));
#endif
#ifdef VG_WMAX
    VH_ASSUME (in_width <= VG_WMAX);
#endif
#ifdef VG_WMIN
    VH_ASSUME (in_width >= VG_WMIN);
#endif
    vh_failmask = in_fail;

    imp.toplevel = &vg_top;
    src.common.flags = in_src_flags; mask.common.flags = in_mask_flags; dest.common.flags = in_dest_flags;
    mask.common.component_alpha = in_mask_ca & 1;
    dest.bits.dither = (pixman_dither_t) in_dither;
    info.op = (pixman_op_t) in_op; info.src_image = &src; info.mask_image = in_have_mask ? &mask : NULL; info.dest_image = &dest;
    info.src_x = in_sx; info.src_y = in_sy; info.mask_x = in_mx; info.mask_y = in_my; info.dest_x = in_dx; info.dest_y = in_dy;
    info.width = in_width; info.height = in_height;
    info.src_flags = in_isf; info.mask_flags = in_imf; info.dest_flags = in_idf;
    vg_has_fini[0] = in_fini0 & 1; vg_has_fini[1] = in_fini1 & 1; vg_has_fini[2] = in_fini2 & 1;
    vg_src_direct = in_src_direct & 1; vg_mask_null_row = in_mask_null_row & 1;
    vg_width = in_width; vg_op = (pixman_op_t) in_op;

    general_composite_rect (&imp, &info);

    narrow = (in_src_flags & FAST_PATH_NARROW_FORMAT) && (!in_have_mask || (in_mask_flags & FAST_PATH_NARROW_FORMAT)) &&
             (in_dest_flags & FAST_PATH_NARROW_FORMAT) && !sp_needs_float (in_op) && in_dither == PIXMAN_DITHER_NONE;
    bpp = narrow ? 4 : 16;
    all_zero_calls = vg_n_init == 0 && vg_n_lookup == 0 && vg_rows_done == 0 && vg_phase == 0;

    if (in_width <= 0)
        VH_CHECK ("rect.empty_width_does_nothing", all_zero_calls);
    else if (vg_n_init == 0)
    {
        /* skipped: only legal when the scanline block could not be obtained */
        VH_CHECK ("rect.skip_only_when_buffer_unobtainable",
                  all_zero_calls && (vh_alloc_failed > 0 || (int64_t) in_width * bpp * 3 + 45 > 0x7fffffffLL));
    }
    else
    {
        VH_CHECK ("rect.three_iterators_one_combiner", vg_n_init == 3 && vg_n_lookup == 1);
        VH_CHECK ("rect.iterators_are_src_mask_dest",
                  vg_init[0].image == &src && vg_init[2].image == &dest && (vg_init[1].image == NULL || vg_init[1].image == &mask));
        VH_CHECK ("rect.mask_dropped_only_if_absent_or_source_ignored",
                  vg_init[1].image != NULL || !in_have_mask ||
                  /* the operators whose equations do not mention the source (Fa == 0): CLEAR and DST in their three families */
                  (in_op == PIXMAN_OP_CLEAR || in_op == PIXMAN_OP_DST || in_op == PIXMAN_OP_DISJOINT_CLEAR || in_op == PIXMAN_OP_DISJOINT_DST ||
                   in_op == PIXMAN_OP_CONJOINT_CLEAR || in_op == PIXMAN_OP_CONJOINT_DST));
        VH_CHECK ("rect.same_width_class_everywhere",
                  (vg_init[0].flags & (ITER_NARROW | ITER_WIDE)) == (narrow ? ITER_NARROW : ITER_WIDE) &&
                  (vg_init[1].flags & (ITER_NARROW | ITER_WIDE)) == (narrow ? ITER_NARROW : ITER_WIDE) &&
                  (vg_init[2].flags & (ITER_NARROW | ITER_WIDE)) == (narrow ? ITER_NARROW : ITER_WIDE));
        VH_CHECK ("rect.narrow_pipeline_iff_all_narrow_no_division_no_dither", (vg_lk_narrow != 0) == (narrow != 0));
        VH_CHECK ("rect.combiner_for_request_operator", vg_lk_op == (pixman_op_t) in_op && vg_lk_imp == &vg_top);
        VH_CHECK ("rect.component_alpha_iff_kept_mask_has_it",
                  (vg_lk_ca != 0) == (vg_init[1].image != NULL && (in_mask_ca & 1)));
        VH_CHECK ("rect.mask_rgb_fetched_for_component_alpha",
                  !(vg_init[1].image != NULL && (in_mask_ca & 1)) || !(vg_init[1].flags & ITER_IGNORE_RGB));
        VH_CHECK ("rect.src_dest_roles", (vg_init[0].flags & ITER_SRC) && (vg_init[1].flags & ITER_SRC) &&
                  (vg_init[2].flags & ITER_DEST) && !(vg_init[2].flags & ITER_SRC) && !(vg_init[0].flags & ITER_DEST));
        VH_CHECK ("rect.iterator_geometry_is_request_geometry",
                  vg_init[0].x == in_sx && vg_init[0].y == in_sy && vg_init[1].x == in_mx && vg_init[1].y == in_my &&
                  vg_init[2].x == in_dx && vg_init[2].y == in_dy);
        for (i = 0; i < 3; i++)
        {
            VH_CHECK ("rect.iterator_size_is_request_size", vg_init[i].width == in_width && vg_init[i].height == in_height &&
                      vg_init[i].imp == &vg_top);
        }
        VH_CHECK ("rect.buffers_16_byte_aligned", vg_aligned_ok);
        VH_CHECK ("rect.buffers_disjoint", vg_disjoint_ok);
        VH_CHECK ("rect.image_flags_passed_through",
                  vg_init[0].image_flags == in_isf && vg_init[1].image_flags == in_imf && vg_init[2].image_flags == in_idf);
        VH_CHECK ("rect.rows_in_order_mask_src_dest_combine_writeback", vg_order_ok && vg_phase == 0);
        VH_CHECK ("rect.one_pass_per_row", vg_rows_done == in_height);
        VH_CHECK ("rect.combiner_gets_the_fetched_rows_and_request_width", vg_args_ok);
        for (i = 0; i < 3; i++)
            VH_CHECK ("rect.fini_exactly_once_if_present", vg_n_fini[i] == (vg_has_fini[i] ? 1 : 0));
    }
    VH_CHECK ("rect.no_leak", vh_alloc_calls - vh_alloc_failed == vh_free_calls);
    VH_END ();
}
