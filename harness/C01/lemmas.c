/* Lemmas that justify the spec itself (no pixman code except the macros named).
 * All loop-free over the full input domain. */
#include <config.h>
#include "pixman-private.h"
#include "pixman-combine32.h"
#include "spec_un8.h"
#include "vh.h"

void harness (void)
{
    VH_IN (vh_u8, in_a);
    VH_IN (vh_u8, in_b);
    VH_IN (vh_u32, in_x);
    VH_IN (vh_u32, in_y);
    VH_IN (vh_u32, in_t);
    unsigned r = SP_MUL (in_a, in_b);
    /* r == round-half-up(a*b/255), stated without division */
    VH_CHECK ("lemma.SP_MUL_is_round_to_nearest", 510u * r <= 2u * in_a * in_b + 255u && 2u * in_a * in_b + 255u < 510u * r + 510u);
    VH_CHECK ("lemma.SP_MUL_by_one", SP_MUL (in_a, 255) == in_a && SP_MUL (255, in_a) == in_a);
    VH_CHECK ("lemma.SP_MUL_by_zero", SP_MUL (in_a, 0) == 0 && SP_MUL (0, in_a) == 0);
    VH_CHECK ("lemma.SP_MUL_commutes", SP_MUL (in_a, in_b) == SP_MUL (in_b, in_a));
    VH_CHECK ("lemma.SP_MUL_range", r <= 255u && r <= in_a && r <= in_b);
    {
        uint16_t t;
        VH_CHECK ("macro.MUL_UN8", MUL_UN8 (in_a, in_b, t) == SP_MUL (in_a, in_b));
    }
    /* DIV_ONE_UN8(x) == round-half-up(x/255) for 0 <= x <= 255*255 */
    if (in_t <= 255u * 255u)
    {
        unsigned q = DIV_ONE_UN8 (in_t);
        unsigned q2 = SP_RND255 ((int) in_t);
        VH_CHECK ("lemma.SP_RND255_is_round_to_nearest", 510u * q2 <= 2u * in_t + 255u && 2u * in_t + 255u < 510u * q2 + 510u);
        VH_CHECK ("macro.DIV_ONE_UN8_round_to_nearest", 510u * q <= 2u * in_t + 255u && 2u * in_t + 255u < 510u * q + 510u);
    }
    {
        uint32_t x = in_x;
        UN8x4_MUL_UN8 (x, in_a);
        VH_CHECK ("macro.UN8x4_MUL_UN8", SP_CH (x, 0) == SP_MUL (SP_CH (in_x, 0), in_a) && SP_CH (x, 1) == SP_MUL (SP_CH (in_x, 1), in_a)
                  && SP_CH (x, 2) == SP_MUL (SP_CH (in_x, 2), in_a) && SP_CH (x, 3) == SP_MUL (SP_CH (in_x, 3), in_a));
    }
    {
        uint32_t x = in_x;
        UN8x4_MUL_UN8x4 (x, in_y);
        VH_CHECK ("macro.UN8x4_MUL_UN8x4", SP_CH (x, 0) == SP_MUL (SP_CH (in_x, 0), SP_CH (in_y, 0)) && SP_CH (x, 1) == SP_MUL (SP_CH (in_x, 1), SP_CH (in_y, 1))
                  && SP_CH (x, 2) == SP_MUL (SP_CH (in_x, 2), SP_CH (in_y, 2)) && SP_CH (x, 3) == SP_MUL (SP_CH (in_x, 3), SP_CH (in_y, 3)));
    }
    {
        uint32_t x = in_x;
        UN8x4_ADD_UN8x4 (x, in_y);
        VH_CHECK ("macro.UN8x4_ADD_UN8x4_saturates", SP_CH (x, 0) == SP_SAT (SP_CH (in_x, 0) + SP_CH (in_y, 0)) && SP_CH (x, 1) == SP_SAT (SP_CH (in_x, 1) + SP_CH (in_y, 1))
                  && SP_CH (x, 2) == SP_SAT (SP_CH (in_x, 2) + SP_CH (in_y, 2)) && SP_CH (x, 3) == SP_SAT (SP_CH (in_x, 3) + SP_CH (in_y, 3)));
    }
    VH_END ();
}
