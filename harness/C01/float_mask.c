/* C01 float pipeline, unified mask: "compositing with a mask" means every source channel
 * (alpha AND the three colours) is first multiplied by the mask alpha.  For every float
 * combiner with its own masking code (-DVC_FN=combine_<op>_u_float):
 *      F (dest, src, mask)  ==  F (dest, src * mask.alpha, no mask)       bit for bit
 * (the same single-precision multiplication on both sides).  Relational on the REAL code,
 * no spec; inputs in [0,1], premultiplied.  One channel per query (-DVC_CH=0..3).
 */
#include "pixman-combine-float.c"
#include "vh.h"

#ifdef VC_GRID
/* bounded variant: every input is one of the 5 values k/4 (stated bound) */
#if VC_GRID == 3
static int unit (float f) { return f == 0.0f || f == 0.5f || f == 1.0f; }
#else
static int unit (float f) { return f == 0.0f || f == 0.25f || f == 0.5f || f == 0.75f || f == 1.0f; }
#endif
#else
static int unit (float f) { return f >= 0.0f && f <= 1.0f; }
#endif

void harness (void)
{
    VH_IN (vh_f32, in_sa); VH_IN (vh_f32, in_sr); VH_IN (vh_f32, in_sg); VH_IN (vh_f32, in_sb);
    VH_IN (vh_f32, in_ma);
    VH_IN (vh_f32, in_da); VH_IN (vh_f32, in_dr); VH_IN (vh_f32, in_dg); VH_IN (vh_f32, in_db);
    float src[4] = { in_sa, in_sr, in_sg, in_sb };
    float mask[4] = { in_ma, in_ma, in_ma, in_ma };
    float d1[4] = { in_da, in_dr, in_dg, in_db };
    float d2[4] = { in_da, in_dr, in_dg, in_db };
    float pre[4];

    VH_ASSUME (unit (in_sa) && unit (in_sr) && unit (in_sg) && unit (in_sb) && unit (in_ma));
    VH_ASSUME (unit (in_da) && unit (in_dr) && unit (in_dg) && unit (in_db));
    VH_ASSUME (in_sr <= in_sa && in_sg <= in_sa && in_sb <= in_sa && in_dr <= in_da && in_dg <= in_da && in_db <= in_da);

    pre[0] = in_sa * in_ma; pre[1] = in_sr * in_ma; pre[2] = in_sg * in_ma; pre[3] = in_sb * in_ma;
    VC_FN ((pixman_implementation_t *) 0, (pixman_op_t) 0, d1, src, mask, 1);
    VC_FN ((pixman_implementation_t *) 0, (pixman_op_t) 0, d2, pre, (const float *) 0, 1);
    /* compare as bit patterns unless NaN on both sides is impossible; NaN never equals NaN, so use the or-form */
    VH_CHECK ("floatmask.masked_equals_premasked_source", d1[VC_CH] == d2[VC_CH] || (d1[VC_CH] != d1[VC_CH] && d2[VC_CH] != d2[VC_CH]));
    VH_END ();
}
