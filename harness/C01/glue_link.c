/* glue_link.c — native replay only (empty under CBMC): pixman-general.c's iterator table references the
 * iterator constructors of other translation units, which glue_rect.c never calls (iterator set-up is a stub). */
#ifdef VH_REPLAY
#include <stdlib.h>
#define VC_WEAK_ABORT(name) __attribute__ ((weak)) void name (void) { abort (); }
VC_WEAK_ABORT (_pixman_bits_image_src_iter_init)
VC_WEAK_ABORT (_pixman_bits_image_dest_iter_init)
VC_WEAK_ABORT (_pixman_linear_gradient_iter_init)
VC_WEAK_ABORT (_pixman_radial_gradient_iter_init)
VC_WEAK_ABORT (_pixman_conical_gradient_iter_init)
VC_WEAK_ABORT (_pixman_implementation_create)
VC_WEAK_ABORT (_pixman_setup_combiner_functions_32)
VC_WEAK_ABORT (_pixman_setup_combiner_functions_float)
VC_WEAK_ABORT (_pixman_log_error)
VC_WEAK_ABORT (_pixman_image_get_solid)
VC_WEAK_ABORT (pixman_region32_init_rect)
VC_WEAK_ABORT (pixman_region32_fini)
VC_WEAK_ABORT (pixman_region32_init)
VC_WEAK_ABORT (pixman_image_unref)
VC_WEAK_ABORT (pixman_image_create_bits)
#endif
