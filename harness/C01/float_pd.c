/* C01 float pipeline, Porter-Duff + ADD: for premultiplied inputs in [0,1] the REAL float
 * combiner returns, per channel, the IEEE single-precision evaluation of
 *        min (1, s' * Fa + d * Fb)
 * with s' = s*m (mask applied first), the alpha seen by the channel sa' = sa*m, and
 * (Fa, Fb) taken from the Render table below (written from the property, not from the code),
 * and the result is in [0,1] and not NaN.
 * This pins the factor table, the masking and the clamp; it does NOT establish "within one
 * quantisation step of the real-valued result" (no reals in CBMC) — rounding error of the
 * three float operations is assumed, see META.
 *   -DVC_NAME=over -DVC_FA=<code> -DVC_FB=<code> -DVC_MODE=0|1|2   codes: 0 ZERO 1 ONE 2 SA 3 DA 4 1-SA 5 1-DA
 */
#include "pixman-combine-float.c"
#include "vh.h"

#define VC_CAT3_(a, b, c) a##b##c
#define VC_CAT3(a, b, c) VC_CAT3_ (a, b, c)
#if VC_MODE == 2
#define FN VC_CAT3 (combine_, VC_NAME, _ca_float)
#else
#define FN VC_CAT3 (combine_, VC_NAME, _u_float)
#endif

static float spec_factor (int code, float sa, float da)
{
    switch (code)
    {
    case 0: return 0.0f;
    case 1: return 1.0f;
    case 2: return sa;
    case 3: return da;
    case 4: return 1 - sa;
    default: return 1 - da;
    }
}

#ifdef VC_GRID
/* bounded variant: every input is one of the 5 values k/4 (stated bound) */
#if VC_GRID == 3
static int unit (float f) { return f == 0.0f || f == 0.5f || f == 1.0f; }
#else
static int unit (float f) { return f == 0.0f || f == 0.25f || f == 0.5f || f == 0.75f || f == 1.0f; }
#endif
#else
static int unit (float f) { return f >= 0.0f && f <= 1.0f; }
#endif

void harness (void)
{
    VH_IN (vh_f32, in_sa); VH_IN (vh_f32, in_sr); VH_IN (vh_f32, in_sg); VH_IN (vh_f32, in_sb);
    VH_IN (vh_f32, in_ma); VH_IN (vh_f32, in_mr); VH_IN (vh_f32, in_mg); VH_IN (vh_f32, in_mb);
    VH_IN (vh_f32, in_da); VH_IN (vh_f32, in_dr); VH_IN (vh_f32, in_dg); VH_IN (vh_f32, in_db);
    float src[4] = { in_sa, in_sr, in_sg, in_sb };
    float mask[4] = { in_ma, in_mr, in_mg, in_mb };
    float dest[4] = { in_da, in_dr, in_dg, in_db };
    float s[4], a[4], m[4];
    int c;

    VH_ASSUME (unit (in_sa) && unit (in_sr) && unit (in_sg) && unit (in_sb));
    VH_ASSUME (unit (in_ma) && unit (in_mr) && unit (in_mg) && unit (in_mb));
    VH_ASSUME (unit (in_da) && unit (in_dr) && unit (in_dg) && unit (in_db));
    /* premultiplied */
    VH_ASSUME (in_sr <= in_sa && in_sg <= in_sa && in_sb <= in_sa && in_dr <= in_da && in_dg <= in_da && in_db <= in_da);

    /* mask value that applies to channel c (0 = alpha) */
    for (c = 0; c < 4; c++)
        m[c] = VC_MODE == 0 ? 1.0f : VC_MODE == 1 ? in_ma : mask[c];
    for (c = 0; c < 4; c++)
    {
#if VC_MODE == 0
        s[c] = src[c]; a[c] = in_sa;
#else
        s[c] = src[c] * m[c];         /* masked source channel */
        a[c] = m[c] * in_sa;          /* alpha as seen by this channel */
#endif
    }
#if VC_MODE == 1
    for (c = 0; c < 4; c++) a[c] = in_sa * in_ma;
#endif

    FN ((pixman_implementation_t *) 0, (pixman_op_t) 0, dest, src, VC_MODE ? mask : (const float *) 0, 1);

    {
        float e;
        float fa, fb, t;
        fa = spec_factor (VC_FA, a[VC_CH], in_da);
        fb = spec_factor (VC_FB, a[VC_CH], in_da);
        t = s[VC_CH] * fa + (VC_CH == 0 ? in_da : (VC_CH == 1 ? in_dr : VC_CH == 2 ? in_dg : in_db)) * fb;
        e = t > 1.0f ? 1.0f : t;
        VH_CHECK ("floatpd.channel_is_min1_sFa_plus_dFb", dest[VC_CH] == e);
        VH_CHECK ("floatpd.channel_in_unit_range_not_nan", dest[VC_CH] >= 0.0f && dest[VC_CH] <= 1.0f);
    }
    VH_CHECK ("floatpd.src_mask_unchanged", src[0] == in_sa && src[1] == in_sr && src[2] == in_sg && src[3] == in_sb &&
              mask[0] == in_ma && mask[1] == in_mr && mask[2] == in_mg && mask[3] == in_mb);
    VH_END ();
}
