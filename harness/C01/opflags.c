/* C01 pipeline glue: the per-operator iterator hints of pixman-general.c (op_flags[])
 * are SOUND with respect to the real combiners: an input the general path is told it
 * may skip / not localise really cannot influence the result.
 *   ITER_IGNORE_RGB    : result independent of that image's colour channels
 *   ITER_IGNORE_ALPHA  : result independent of that image's alpha
 *   ITER_LOCALIZED_ALPHA: colour channels of the result independent of that image's alpha
 * Relational, on the REAL op_flags table and the REAL 8-bit combiners, one pixel,
 * all values.  -DVC_OPA=<PIXMAN_OP_ suffix> -DVC_FN=<combiner> -DVC_MODE=0|1|2 -DVC_SIDE=0 (src) | 1 (dst)
 */
#include "pixman-combine32.c"
#include "pixman-general.c"
#include "vh.h"

#define VC_CAT2(a, b) a##b
#define VC_CAT(a, b) VC_CAT2 (a, b)
#define OPA VC_CAT (PIXMAN_OP_, VC_OPA)

static uint32_t run (uint32_t s, uint32_t m, uint32_t d)
{
    uint32_t dest[1] = { d }, src[1] = { s }, mask[1] = { m };
    VC_FN ((pixman_implementation_t *) 0, OPA, dest, src, VC_MODE ? mask : (const uint32_t *) 0, 1);
    return dest[0];
}

void harness (void)
{
    VH_IN (vh_u32, in_s);
    VH_IN (vh_u32, in_m);
    VH_IN (vh_u32, in_d);
    VH_IN (vh_u32, in_x);   /* the varied image's other value */
    unsigned fl = VC_SIDE ? op_flags[OPA].dst : op_flags[OPA].src;
    uint32_t v = VC_SIDE ? in_d : in_s;
    uint32_t r1, r2;

    r1 = run (in_s, in_m, in_d);
    r2 = VC_SIDE ? run (in_s, in_m, in_x) : run (in_x, in_m, in_d);
    if (fl & ITER_IGNORE_RGB)
        VH_CHECK ("opflags.ignore_rgb_sound", (in_x >> 24) != (v >> 24) || r1 == r2);
    if (fl & ITER_IGNORE_ALPHA)
        VH_CHECK ("opflags.ignore_alpha_sound", (in_x & 0xffffff) != (v & 0xffffff) || r1 == r2);
    if (fl & ITER_LOCALIZED_ALPHA)
        VH_CHECK ("opflags.localized_alpha_sound", (in_x & 0xffffff) != (v & 0xffffff) || (r1 & 0xffffff) == (r2 & 0xffffff));
    VH_CHECK ("opflags.only_known_hint_bits", (fl & ~(unsigned) (ITER_IGNORE_RGB | ITER_IGNORE_ALPHA | ITER_LOCALIZED_ALPHA)) == 0);
    VH_END ();
}
