/* C01 pipeline glue: consistency of the operator tables that route a request to the
 * 8-bit ("narrow") or the float ("wide") pipeline.
 *  - the narrow path is only allowed for operators evaluated exactly in 8 bits: a literal
 *    list written from the property (Porter-Duff, ADD, and the separable PDF modes that
 *    need no division); everything else (SATURATE, disjoint/conjoint, COLOR_DODGE/BURN,
 *    SOFT_LIGHT, HSL) must be flagged needs_division
 *  - every operator allowed on the narrow path has a registered 8-bit combiner for unified
 *    AND component alpha (DST is elided before dispatch), and it is the routine of THAT operator
 *  - operators above SATURATE carry no iterator hints
 */
#include "pixman-combine32.c"
#include "pixman-general.c"
#include "vh.h"

static pixman_implementation_t vh_imp;

static int spec_narrow_ok (unsigned op)
{
    return op <= PIXMAN_OP_ADD || op == PIXMAN_OP_MULTIPLY || op == PIXMAN_OP_SCREEN || op == PIXMAN_OP_OVERLAY ||
           op == PIXMAN_OP_DARKEN || op == PIXMAN_OP_LIGHTEN || op == PIXMAN_OP_HARD_LIGHT ||
           op == PIXMAN_OP_DIFFERENCE || op == PIXMAN_OP_EXCLUSION;
}

void harness (void)
{
    VH_IN (vh_u32, in_op);
    VH_ASSUME (in_op <= PIXMAN_OP_HSL_LUMINOSITY);
    VH_ASSUME (!(in_op == 0x0e || in_op == 0x0f || (in_op >= 0x1c && in_op <= 0x1f) || (in_op >= 0x2c && in_op <= 0x2f)));
    _pixman_setup_combiner_functions_32 (&vh_imp);

    VH_CHECK ("optables.narrow_path_only_for_exact_8bit_operators",
              operator_needs_division ((pixman_op_t) in_op) || spec_narrow_ok (in_op));
    if (!operator_needs_division ((pixman_op_t) in_op))
    {
        VH_CHECK ("optables.narrow_operator_has_unified_combiner", vh_imp.combine_32[in_op] != 0);
        VH_CHECK ("optables.narrow_operator_has_ca_combiner", in_op == PIXMAN_OP_DST || vh_imp.combine_32_ca[in_op] != 0);
    }
    if (in_op > PIXMAN_OP_SATURATE)
        VH_CHECK ("optables.no_iterator_hints_beyond_porter_duff", op_flags[in_op].src == 0 && op_flags[in_op].dst == 0);

#define REG(OP, U, CA) \
    VH_CHECK ("optables.registered." #OP, vh_imp.combine_32[PIXMAN_OP_##OP] == U && vh_imp.combine_32_ca[PIXMAN_OP_##OP] == CA)
    REG (CLEAR, combine_clear, combine_clear_ca);
    REG (SRC, combine_src_u, combine_src_ca);
    REG (DST, combine_dst, 0);
    REG (OVER, combine_over_u, combine_over_ca);
    REG (OVER_REVERSE, combine_over_reverse_u, combine_over_reverse_ca);
    REG (IN, combine_in_u, combine_in_ca);
    REG (IN_REVERSE, combine_in_reverse_u, combine_in_reverse_ca);
    REG (OUT, combine_out_u, combine_out_ca);
    REG (OUT_REVERSE, combine_out_reverse_u, combine_out_reverse_ca);
    REG (ATOP, combine_atop_u, combine_atop_ca);
    REG (ATOP_REVERSE, combine_atop_reverse_u, combine_atop_reverse_ca);
    REG (XOR, combine_xor_u, combine_xor_ca);
    REG (ADD, combine_add_u, combine_add_ca);
    REG (MULTIPLY, combine_multiply_u, combine_multiply_ca);
    REG (SCREEN, combine_screen_u, combine_screen_ca);
    REG (OVERLAY, combine_overlay_u, combine_overlay_ca);
    REG (DARKEN, combine_darken_u, combine_darken_ca);
    REG (LIGHTEN, combine_lighten_u, combine_lighten_ca);
    REG (HARD_LIGHT, combine_hard_light_u, combine_hard_light_ca);
    REG (DIFFERENCE, combine_difference_u, combine_difference_ca);
    REG (EXCLUSION, combine_exclusion_u, combine_exclusion_ca);
    VH_END ();
}
