/* C01 route D: unbounded scanline contract on a real 8-bit combiner.
 *   -DVC_FN=combine_<op>_<u|ca>  -DVC_OP=<SPOP_*>  -DVC_MODE=0|1|2  -DVC_CH=0..3
 * The real pixman-combine32.c is included unmodified; the function contract
 * ct_<fn> below is attached with --enforce-contract <fn>/ct_<fn>, the loop
 * contract comes from props/C01.py through --loop-contracts-file.
 *
 * Ghost pixel gk (any index < width) and compile-time ghost channel VC_CH:
 *   ensures channel VC_CH of dest[gk] == SP_PIX(op, mode, src[gk], mask[gk], old dest[gk])
 * Frame: assigns only the dest object (a write to src/mask or anything else fails
 * the assigns obligations); the buffers are one word longer than width and the
 * guard word dest[width] must be unchanged.  (object_upto(dest,4*width) as the
 * assigns target made symbolic execution 100x slower, hence guard word.)
 */
#include "pixman-combine32.c"
#include "spec_op.h"
#include "vh.h"

#ifndef VC_MAXW
#define VC_MAXW (1 << 20)
#endif
#define VC_CAT2(a, b) a##b
#define VC_CAT(a, b) VC_CAT2 (a, b)

int gk; /* ghost pixel index */

void VC_CAT (ct_, VC_FN) (pixman_implementation_t *imp, pixman_op_t op, uint32_t *dest,
                          const uint32_t *src, const uint32_t *mask, int width)
__CPROVER_requires (0 <= width && width <= VC_MAXW)
__CPROVER_requires (__CPROVER_is_fresh (dest, 4 * (width + 1)))
__CPROVER_requires (__CPROVER_is_fresh (src, 4 * (width + 1)))
#if VC_MODE == 0
__CPROVER_requires (mask == (const uint32_t *) 0)
#else
__CPROVER_requires (__CPROVER_is_fresh (mask, 4 * (width + 1)))
#endif
__CPROVER_requires (0 <= gk && gk < width)
__CPROVER_requires (SPX_PRE (src[gk], dest[gk]))
__CPROVER_assigns (__CPROVER_object_whole (dest))
__CPROVER_ensures (SPX_POST (dest[gk], src[gk], (VC_MODE ? mask[gk] : 0u), __CPROVER_old (dest[gk]), VC_CH))
__CPROVER_ensures (dest[width] == __CPROVER_old (dest[width])) /* guard word after the scanline */
;

void harness (void)
{
    uint32_t *dest, *src, *mask;
    int width;
    pixman_implementation_t *imp;
    pixman_op_t op;
    VC_FN (imp, op, dest, src, mask, width);
    VH_END ();
}
