/* c03.h — common set-up of the C03 harnesses (composite region, dispatch loop).
 *
 * One TU = the REAL pixman-region32.c (#included, unmodified) + the REAL pixman.c
 * (#included, unmodified).
 *
 * pixman_op (the general band sweep of pixman-region.c) is PRUNED, and the pruning is an
 * obligation: while pixman-region32.c is read, `pixman_op` is a function-like macro whose 4th
 * argument selects the spelling (same trick as harness/C05/rh.h): the definition becomes
 * `pixman_op_real (overlap_proc_ptr overlap_func, ...)` (same body), every call becomes
 * `vh_pixman_op (<band function>, ...)` = VH_CHECK ("pixman_op.unreachable", 0) + cut.
 * With regions of <= 1 rectangle every region operation used by pixman.c stays on its
 * loop-free shortcut path, so the obligation holds; if a change makes the code enter the
 * band sweep, the job fails with that name instead of silently exploring it.
 * Natively (replay) vh_pixman_op calls the real function.
 *
 * The library constructor pixman_constructor() (calls _pixman_choose_implementation) is not
 * part of the property: it is renamed away and _pixman_choose_implementation is a stub.
 */
#ifndef C03_H
#define C03_H

#include <config.h>
#include "pixman-private.h"
#include <stdlib.h>
#include <string.h>
#include "vh.h"

static int vh_log_errors;
void _pixman_log_error (const char *function, const char *message)
{
    (void) function; (void) message;
    vh_log_errors++;
}

static int vh_pixman_op ();
static int vh_op_calls;

#define pixman_op(a, b, c, d, e, f) VRP_##d , a, b, c, e, f)
#define VRP_overlap_proc_ptr             pixman_op_real (overlap_proc_ptr
#define VRP_pixman_region_intersect_o    vh_pixman_op (pixman_region_intersect_o
#define VRP_pixman_region_union_o        vh_pixman_op (pixman_region_union_o
#define VRP_pixman_region_subtract_o     vh_pixman_op (pixman_region_subtract_o
#include "pixman-region32.c"
#undef pixman_op

static int vh_pixman_op (overlap_proc_ptr f, region_type_t *new_reg, region_type_t *reg1, region_type_t *reg2,
                         int append_non1, int append_non2)
{
    vh_op_calls++;
#if defined(VH_CBMC) && !defined(VC_REAL_OP)
    VH_CHECK ("pixman_op.unreachable", 0);
    __CPROVER_assume (0);
    return 0;
#else
    return pixman_op_real (f, new_reg, reg1, reg2, append_non1, append_non2);
#endif
}

#define SR_SFX 32
#define SR_REGION_T pixman_region32_t
#define SR_BOX_T pixman_box32_t
#define SR_DATA_T pixman_region32_data_t
#include "spec_region.h"

/* all coordinates of a request live in +-2^29: the property's "within int32 arithmetic range"
 * (every sum/difference of two of them, and of such a difference and a third, fits int32) */
#define C03_R (1 << 29)
#define C03_INR(v) ((v) >= -C03_R && (v) <= C03_R)

/* clip shape 0: one rectangle stored inline; shape 1: the empty region (static sentinel,
 * degenerate extents anywhere) */
static void c03_make_clip (pixman_region32_t *r, int shape, int x1, int y1, int x2, int y2)
{
    r->extents.x1 = x1; r->extents.y1 = y1; r->extents.x2 = x2; r->extents.y2 = y2;
    if (shape == 0)
    {
        VH_ASSUME (x1 < x2 && y1 < y2);
        r->data = (pixman_region32_data_t *) 0;
    }
    else
    {
        VH_ASSUME (x1 == x2 && y1 == y2);
        r->data = pixman_region_empty_data;
    }
    VH_ASSUME (C03_INR (x1) && C03_INR (y1) && C03_INR (x2) && C03_INR (y2));
}

/* point membership in a clip of shape 0/1, written on the inputs (not on the region object) */
static int c03_in_clip (int shape, long x1, long y1, long x2, long y2, long px, long py)
{
    return shape == 0 && x1 <= px && px < x2 && y1 <= py && py < y2;
}

/* running intersection of half-open boxes in long arithmetic */
typedef struct { long x1, y1, x2, y2; int dead; } c03_box;
static void c03_meet (c03_box *b, long x1, long y1, long x2, long y2)
{
    if (x1 > b->x1) b->x1 = x1;
    if (y1 > b->y1) b->y1 = y1;
    if (x2 < b->x2) b->x2 = x2;
    if (y2 < b->y2) b->y2 = y2;
}
static int c03_box_empty (const c03_box *b)
{
    return b->dead || b->x1 >= b->x2 || b->y1 >= b->y2;
}

#endif
