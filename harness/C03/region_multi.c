/* C03 / C16: the MULTI-RECTANGLE branch of clip_general_image inside _pixman_compute_composite_region32
 * (REAL pixman.c): call protocol and frame, with pixman_region32_translate / pixman_region32_intersect replaced by
 * recording contract stubs (what they compute is C05/C07).
 *
 *   - every clip that is enabled for the request is intersected exactly once, and at that moment the composite
 *     region has been moved by exactly -(offset of that image in destination space), so that region and clip are
 *     in the same coordinate system ("translated to destination space"):
 *         destination clip                        offset (0, 0)
 *         source clip (enabled for sources)       (dest_x - src_x,  dest_y - src_y)
 *         clip of the source's alpha map          (dest_x - src_x + src alpha origin)
 *         mask clip (enabled for sources)         (dest_x - mask_x, dest_y - mask_y)
 *         clip of the mask's alpha map            (dest_x - mask_x + mask alpha origin)   [only specified when the mask
 *                                                  itself has a clip region: the code looks at it only then]
 *     in any order; when the function returns TRUE the region is back in destination space (net translation zero);
 *   - frame (C16: sources shared read-only between threads): the only region object ever handed to translate / as the
 *     destination of intersect is the caller's composite region; no image's clip region is written.
 * All clips are 2-rectangle regions (content irrelevant to the stubs), so every clip takes the general branch.
 */
#include "c03.h"
#ifndef VM_CHECKS
#define VM_CHECKS 1
#endif

static pixman_region32_t *vm_region;      /* the composite region of the call under check */
static long vm_tx, vm_ty;                /* net translation applied to it so far */
static int vm_frame_ok = 1, vm_proto_ok = 1, vm_fail_at, vm_calls;

#define VM_NCLIP 5
static struct { pixman_region32_t *clip; long dx, dy, cx, cy; int expected, optional, used; } vm_exp[VM_NCLIP];

static void vm_translate (pixman_region32_t *r, int x, int y)
{
    int k;
    if (r == vm_region) { vm_tx += x; vm_ty += y; return; }
    vm_frame_ok = 0;                         /* somebody else's region is being moved (frame obligation, C16) ... */
    for (k = 0; k < VM_NCLIP; k++)           /* ... the coordinate bookkeeping (C03) stays relative to that clip */
        if (r == vm_exp[k].clip) { vm_exp[k].cx += x; vm_exp[k].cy += y; }
}
static pixman_bool_t vm_intersect (pixman_region32_t *n, pixman_region32_t *a, pixman_region32_t *b)
{
    int k, hit = 0;
    if (n != vm_region) vm_frame_ok = 0;
    if (a != vm_region) vm_proto_ok = 0;
    for (k = 0; k < VM_NCLIP; k++)
        if (b == vm_exp[k].clip && (vm_exp[k].expected || vm_exp[k].optional) && !vm_exp[k].used)
        {
            vm_exp[k].used = 1; hit = 1;
            if (vm_tx - vm_exp[k].cx != -vm_exp[k].dx || vm_ty - vm_exp[k].cy != -vm_exp[k].dy) vm_proto_ok = 0;
        }
    if (!hit) vm_proto_ok = 0;
    vm_calls++;
    return vm_calls != vm_fail_at;          /* allocation failure / empty result at a chosen call */
}
#define pixman_region32_translate(r, x, y) vm_translate (r, x, y)
#define pixman_region32_intersect(n, a, b) vm_intersect (n, a, b)
#define pixman_constructor vh_unused_pixman_constructor
#include "pixman.c"
#undef pixman_region32_translate
#undef pixman_region32_intersect

pixman_implementation_t *_pixman_choose_implementation (void) { return 0; }

static pixman_image_t vc_src, vc_mask, vc_dest, vc_src_amap, vc_mask_amap;
static struct { long size, numRects; pixman_box32_t r[2]; } vm_data[VM_NCLIP];

static void vm_make_clip (pixman_region32_t *r, int k)
{
    vm_data[k].size = 2; vm_data[k].numRects = 2;
    vm_data[k].r[0].x1 = 0; vm_data[k].r[0].y1 = 0; vm_data[k].r[0].x2 = 10; vm_data[k].r[0].y2 = 10;
    vm_data[k].r[1].x1 = 0; vm_data[k].r[1].y1 = 10; vm_data[k].r[1].x2 = 20; vm_data[k].r[1].y2 = 20;
    r->extents.x1 = 0; r->extents.y1 = 0; r->extents.x2 = 20; r->extents.y2 = 20;
    r->data = (pixman_region32_data_t *) &vm_data[k];
}
static int vm_clip_untouched (const pixman_region32_t *r, int k)
{
    return r->extents.x1 == 0 && r->extents.y1 == 0 && r->extents.x2 == 20 && r->extents.y2 == 20 &&
           r->data == (pixman_region32_data_t *) &vm_data[k] && vm_data[k].numRects == 2 && vm_data[k].size == 2 &&
           vm_data[k].r[0].x2 == 10 && vm_data[k].r[1].y1 == 10 && vm_data[k].r[1].x2 == 20 && vm_data[k].r[0].x1 == 0;
}

#define VM_R (1 << 27)
#define VM_INR(v) ((v) >= -VM_R && (v) <= VM_R)

void harness (void)
{
    VH_IN (vh_i32, in_src_x); VH_IN (vh_i32, in_src_y); VH_IN (vh_i32, in_mask_x); VH_IN (vh_i32, in_mask_y);
    VH_IN (vh_i32, in_dest_x); VH_IN (vh_i32, in_dest_y); VH_IN (vh_i32, in_width); VH_IN (vh_i32, in_height);
    VH_IN (vh_i32, in_dw); VH_IN (vh_i32, in_dh);
    VH_IN (vh_u8, in_d_clip);
    VH_IN (vh_u8, in_s_clip); VH_IN (vh_u8, in_s_sources); VH_IN (vh_u8, in_s_client);
    VH_IN (vh_u8, in_sa); VH_IN (vh_u8, in_sa_clip); VH_IN (vh_u8, in_sa_sources); VH_IN (vh_u8, in_sa_client);
    VH_IN (vh_i32, in_s_aox); VH_IN (vh_i32, in_s_aoy);
    VH_IN (vh_u8, in_m); VH_IN (vh_u8, in_m_clip); VH_IN (vh_u8, in_m_sources); VH_IN (vh_u8, in_m_client);
    VH_IN (vh_u8, in_ma); VH_IN (vh_u8, in_ma_clip); VH_IN (vh_u8, in_ma_sources); VH_IN (vh_u8, in_ma_client);
    VH_IN (vh_i32, in_m_aox); VH_IN (vh_i32, in_m_aoy);
    VH_IN (vh_u8, in_fail_at);
    pixman_region32_t region;
    pixman_bool_t ret;
    int k;

    VH_ASSUME (VM_INR (in_src_x) && VM_INR (in_src_y) && VM_INR (in_mask_x) && VM_INR (in_mask_y) && VM_INR (in_dest_x) &&
               VM_INR (in_dest_y) && VM_INR (in_s_aox) && VM_INR (in_s_aoy) && VM_INR (in_m_aox) && VM_INR (in_m_aoy));
    VH_ASSUME (in_width >= 0 && in_width <= VM_R && in_height >= 0 && in_height <= VM_R && in_dw >= 0 && in_dw <= VM_R && in_dh >= 0 && in_dh <= VM_R);
    VH_ASSUME (in_d_clip <= 1 && in_s_clip <= 1 && in_s_sources <= 1 && in_s_client <= 1 && in_sa <= 1 && in_sa_clip <= 1 &&
               in_sa_sources <= 1 && in_sa_client <= 1 && in_m <= 1 && in_m_clip <= 1 && in_m_sources <= 1 && in_m_client <= 1 &&
               in_ma <= 1 && in_ma_clip <= 1 && in_ma_sources <= 1 && in_ma_client <= 1);
    vm_fail_at = in_fail_at;

    vc_dest.type = BITS; vc_dest.bits.width = in_dw; vc_dest.bits.height = in_dh;
    vc_dest.common.have_clip_region = in_d_clip;
    vm_make_clip (&vc_dest.common.clip_region, 0);
    vc_src.type = BITS; vc_src.common.have_clip_region = in_s_clip; vc_src.common.clip_sources = in_s_sources; vc_src.common.client_clip = in_s_client;
    vm_make_clip (&vc_src.common.clip_region, 1);
    vc_src_amap.type = BITS; vc_src_amap.common.have_clip_region = in_sa_clip; vc_src_amap.common.clip_sources = in_sa_sources;
    vc_src_amap.common.client_clip = in_sa_client;
    vm_make_clip (&vc_src_amap.common.clip_region, 2);
    if (in_sa) { vc_src.common.alpha_map = &vc_src_amap.bits; vc_src.common.alpha_origin_x = in_s_aox; vc_src.common.alpha_origin_y = in_s_aoy; }
    vc_mask.type = BITS; vc_mask.common.have_clip_region = in_m_clip; vc_mask.common.clip_sources = in_m_sources; vc_mask.common.client_clip = in_m_client;
    vm_make_clip (&vc_mask.common.clip_region, 3);
    vc_mask_amap.type = BITS; vc_mask_amap.common.have_clip_region = in_ma_clip; vc_mask_amap.common.clip_sources = in_ma_sources;
    vc_mask_amap.common.client_clip = in_ma_client;
    vm_make_clip (&vc_mask_amap.common.clip_region, 4);
    if (in_ma) { vc_mask.common.alpha_map = &vc_mask_amap.bits; vc_mask.common.alpha_origin_x = in_m_aox; vc_mask.common.alpha_origin_y = in_m_aoy; }

    /* ---- the constraints of the property statement, on the inputs, in long arithmetic */
    vm_exp[0].clip = &vc_dest.common.clip_region; vm_exp[0].dx = 0; vm_exp[0].dy = 0; vm_exp[0].expected = in_d_clip;
    vm_exp[1].clip = &vc_src.common.clip_region; vm_exp[1].dx = (long) in_dest_x - in_src_x; vm_exp[1].dy = (long) in_dest_y - in_src_y;
    vm_exp[1].expected = in_s_clip && in_s_sources && in_s_client;
    vm_exp[2].clip = &vc_src_amap.common.clip_region; vm_exp[2].dx = (long) in_dest_x - in_src_x + in_s_aox;
    vm_exp[2].dy = (long) in_dest_y - in_src_y + in_s_aoy;
    vm_exp[2].expected = in_sa && in_sa_clip && in_sa_sources && in_sa_client;
    vm_exp[3].clip = &vc_mask.common.clip_region; vm_exp[3].dx = (long) in_dest_x - in_mask_x; vm_exp[3].dy = (long) in_dest_y - in_mask_y;
    vm_exp[3].expected = in_m && in_m_clip && in_m_sources && in_m_client;
    vm_exp[4].clip = &vc_mask_amap.common.clip_region; vm_exp[4].dx = (long) in_dest_x - in_mask_x + in_m_aox;
    vm_exp[4].dy = (long) in_dest_y - in_mask_y + in_m_aoy;
    vm_exp[4].expected = in_m && in_m_clip && in_ma && in_ma_clip && in_ma_sources && in_ma_client;
    vm_exp[4].optional = in_m && !in_m_clip && in_ma && in_ma_clip && in_ma_sources && in_ma_client;

    pixman_region32_init (&region);
    vm_region = &region;
    ret = _pixman_compute_composite_region32 (&region, &vc_src, in_m ? &vc_mask : (pixman_image_t *) 0, &vc_dest,
                                              in_src_x, in_src_y, in_mask_x, in_mask_y, in_dest_x, in_dest_y, in_width, in_height);

#if VM_CHECKS == 2       /* C16: frame */
    VH_CHECK ("c16.region.multi.only_the_composite_region_is_written", vm_frame_ok);
    VH_CHECK ("c16.region.multi.image_clip_regions_unchanged",
              vm_clip_untouched (&vc_dest.common.clip_region, 0) && vm_clip_untouched (&vc_src.common.clip_region, 1) &&
              vm_clip_untouched (&vc_src_amap.common.clip_region, 2) && vm_clip_untouched (&vc_mask.common.clip_region, 3) &&
              vm_clip_untouched (&vc_mask_amap.common.clip_region, 4));
    (void) k; (void) ret;
#else                    /* C03: call protocol */
    VH_CHECK ("region.multi.each_clip_intersected_in_its_own_coordinate_system", vm_proto_ok);
    if (ret)
    {
        VH_CHECK ("region.multi.true.region_back_in_destination_space", vm_tx == 0 && vm_ty == 0);
        for (k = 0; k < VM_NCLIP; k++)
            VH_CHECK ("region.multi.true.every_enabled_clip_applied_once", !vm_exp[k].expected || vm_exp[k].used);
    }
#endif
    VH_CHECK ("region.no_internal_consistency_error_logged", vh_log_errors == 0);
    VH_END ();
}
