/* C03 (1): _pixman_compute_composite_region32 + clip_general_image + clip_source_image
 * (REAL pixman.c) over the REAL pixman-region32.c: the reported region is the exact
 * intersection, and FALSE is returned exactly when it is empty.
 *
 * Specification (from the property statement, written on the harness INPUTS, in `long`
 * arithmetic, never on the code's intermediate values):
 *
 *   S(p) =  p in request rectangle [dest_x, dest_x+width) x [dest_y, dest_y+height)
 *        && p in destination bounds [0, dest.width) x [0, dest.height)
 *        && (dest.have_clip_region            => p in dest clip)
 *        && (dest.alpha_map                   => p in [aox, aox+amap.width) x [aoy, aoy+amap.height))
 *        && (src clip enabled for sources     => p - (dest_x - src_x, dest_y - src_y)  in src clip)
 *        && (mask && mask clip enabled        => p - (dest_x - mask_x, dest_y - mask_y) in mask clip)
 *   "clip enabled for sources" = have_clip_region && clip_sources && client_clip.
 *
 *   post:  ret == TRUE  => for the ghost point p (any int32 pair):  p in region  <=>  S(p)
 *          ret == FALSE <=> S is empty
 *
 * Case split (one job per case; a macro left undefined = that part fully symbolic):
 *   -DVC_DCLIP=0|1    destination have_clip_region
 *   -DVC_DALPHA=0|1   destination alpha map absent/present
 *   -DVC_SRC=0|1      0: source clip NOT enabled (the three flags symbolic, not all set)
 *                     1: enabled (all three set)
 *   -DVC_MASK=0|1|2   0: no mask   1: mask present, clip not enabled   2: mask clip enabled
 * Clips are single rectangles or the empty region (symbolic shape).  Source/mask alpha maps
 * are present or absent symbolically; alpha maps carry no clip region (assumption: the
 * property statement names the alpha-map BOUNDS only).
 */
#include "c03.h"

/* The multi-rectangle branch of clip_general_image (translate / intersect / translate back) is
 * dead when region and clip have <= 1 rectangle: asserted, not assumed.  The two names are
 * intercepted for the text of pixman.c only (pixman-region32.c above keeps the real ones, and
 * pixman_region32_intersect_rect -> the real pixman_region32_intersect is untouched). */
static void vc_translate_unreachable (pixman_region32_t *r, int x, int y)
{
#ifdef VH_CBMC
    VH_CHECK ("clip_general_image.multi_rect_branch_unreachable_for_single_rect_clips", 0);
    __CPROVER_assume (0);
#else
    (pixman_region32_translate) (r, x, y);
#endif
}
static pixman_bool_t vc_intersect_unreachable (pixman_region32_t *n, pixman_region32_t *a, pixman_region32_t *b)
{
#ifdef VH_CBMC
    VH_CHECK ("clip_general_image.multi_rect_branch_unreachable_for_single_rect_clips", 0);
    __CPROVER_assume (0);
    return 0;
#else
    return (pixman_region32_intersect) (n, a, b);
#endif
}
#ifndef VC_REAL_GENERAL_BRANCH
#define pixman_region32_translate(r, x, y) vc_translate_unreachable (r, x, y)
#define pixman_region32_intersect(n, a, b) vc_intersect_unreachable (n, a, b)
#endif
#define pixman_constructor vh_unused_pixman_constructor
#include "pixman.c"
#undef pixman_region32_translate
#undef pixman_region32_intersect

pixman_implementation_t *_pixman_choose_implementation (void) { return 0; }

static pixman_image_t vc_src, vc_mask, vc_dest, vc_src_amap, vc_mask_amap, vc_dest_amap;

void harness (void)
{
#include "scene_inputs.inc"
    pixman_region32_t region;
    pixman_bool_t ret;

    pixman_region32_init (&region);

    /* ---- the real function */
    ret = _pixman_compute_composite_region32 (&region, &vc_src, in_m_present ? &vc_mask : (pixman_image_t *) 0, &vc_dest,
                                              in_src_x, in_src_y, in_mask_x, in_mask_y,
                                              in_dest_x, in_dest_y, in_width, in_height);

#include "scene_spec.inc"

    /* ---- postconditions */
    if (ret)
    {
        VH_CHECK ("region.true.point_in_region_iff_in_every_enabled_constraint",
                  (sr_member_32 (&region, px, py) != 0) == (S != 0));
        VH_CHECK ("region.true.region_is_well_formed_and_not_empty",
                  sr_canon_32 (&region, pixman_region_empty_data) && sr_nrects_32 (&region) >= 1);
        VH_CHECK ("region.true.intersection_not_empty", !c03_box_empty (&sb));
    }
    else
    {
        VH_CHECK ("region.false.ghost_point_not_in_intersection", !S);
        VH_CHECK ("region.false.only_if_intersection_empty", c03_box_empty (&sb));
    }
    VH_CHECK ("region.no_internal_consistency_error_logged", vh_log_errors == 0);
    pixman_region32_fini (&region);
    VH_END ();
}
