/* C03 (1): _pixman_compute_composite_region32 + clip_general_image + clip_source_image
 * (REAL pixman.c) over the REAL pixman-region32.c: the reported region is the exact
 * intersection, and FALSE is returned exactly when it is empty.
 *
 * Specification (from the property statement, written on the harness INPUTS, in `long`
 * arithmetic, never on the code's intermediate values):
 *
 *   S(p) =  p in request rectangle [dest_x, dest_x+width) x [dest_y, dest_y+height)
 *        && p in destination bounds [0, dest.width) x [0, dest.height)
 *        && (dest.have_clip_region            => p in dest clip)
 *        && (dest.alpha_map                   => p in [aox, aox+amap.width) x [aoy, aoy+amap.height))
 *        && (src clip enabled for sources     => p - (dest_x - src_x, dest_y - src_y)  in src clip)
 *        && (mask && mask clip enabled        => p - (dest_x - mask_x, dest_y - mask_y) in mask clip)
 *   "clip enabled for sources" = have_clip_region && clip_sources && client_clip.
 *
 *   post:  ret == TRUE  => for the ghost point p (any int32 pair):  p in region  <=>  S(p)
 *          ret == FALSE <=> S is empty
 *
 * Case split (one job per case; a macro left undefined = that part fully symbolic):
 *   -DVC_DCLIP=0|1    destination have_clip_region
 *   -DVC_DALPHA=0|1   destination alpha map absent/present
 *   -DVC_SRC=0|1      0: source clip NOT enabled (the three flags symbolic, not all set)
 *                     1: enabled (all three set)
 *   -DVC_MASK=0|1|2   0: no mask   1: mask present, clip not enabled   2: mask clip enabled
 * Clips are single rectangles or the empty region (symbolic shape).  Source/mask alpha maps
 * are present or absent symbolically; alpha maps carry no clip region (assumption: the
 * property statement names the alpha-map BOUNDS only).
 */
#include "c03.h"
#define pixman_constructor vh_unused_pixman_constructor
#include "pixman.c"

pixman_implementation_t *_pixman_choose_implementation (void) { return 0; }

static pixman_image_t vc_src, vc_mask, vc_dest, vc_src_amap, vc_mask_amap, vc_dest_amap;

void harness (void)
{
    /* request */
    VH_IN (vh_i32, in_src_x); VH_IN (vh_i32, in_src_y);
    VH_IN (vh_i32, in_mask_x); VH_IN (vh_i32, in_mask_y);
    VH_IN (vh_i32, in_dest_x); VH_IN (vh_i32, in_dest_y);
    VH_IN (vh_i32, in_width); VH_IN (vh_i32, in_height);
    /* destination */
    VH_IN (vh_i32, in_dw); VH_IN (vh_i32, in_dh);
    VH_IN (vh_u8, in_d_have_clip);
    VH_IN (vh_u8, in_d_shape);
    VH_IN (vh_i32, in_dcx1); VH_IN (vh_i32, in_dcy1); VH_IN (vh_i32, in_dcx2); VH_IN (vh_i32, in_dcy2);
    VH_IN (vh_u8, in_d_alpha);
    VH_IN (vh_i32, in_aox); VH_IN (vh_i32, in_aoy); VH_IN (vh_i32, in_aw); VH_IN (vh_i32, in_ah);
    /* source */
    VH_IN (vh_u8, in_s_have_clip); VH_IN (vh_u8, in_s_clip_sources); VH_IN (vh_u8, in_s_client_clip);
    VH_IN (vh_u8, in_s_shape);
    VH_IN (vh_i32, in_scx1); VH_IN (vh_i32, in_scy1); VH_IN (vh_i32, in_scx2); VH_IN (vh_i32, in_scy2);
    VH_IN (vh_u8, in_s_alpha);
    VH_IN (vh_i32, in_s_aox); VH_IN (vh_i32, in_s_aoy);
    /* mask */
    VH_IN (vh_u8, in_m_present);
    VH_IN (vh_u8, in_m_have_clip); VH_IN (vh_u8, in_m_clip_sources); VH_IN (vh_u8, in_m_client_clip);
    VH_IN (vh_u8, in_m_shape);
    VH_IN (vh_i32, in_mcx1); VH_IN (vh_i32, in_mcy1); VH_IN (vh_i32, in_mcx2); VH_IN (vh_i32, in_mcy2);
    VH_IN (vh_u8, in_m_alpha);
    VH_IN (vh_i32, in_m_aox); VH_IN (vh_i32, in_m_aoy);
    /* ghost point */
    VH_IN (vh_i32, in_px); VH_IN (vh_i32, in_py);

    pixman_region32_t region;
    pixman_bool_t ret;
    int s_enabled, m_enabled, S;
    long px = in_px, py = in_py;
    c03_box sb;

    /* ---- "within int32 arithmetic range" */
    VH_ASSUME (C03_INR (in_src_x) && C03_INR (in_src_y) && C03_INR (in_mask_x) && C03_INR (in_mask_y));
    VH_ASSUME (C03_INR (in_dest_x) && C03_INR (in_dest_y) && C03_INR (in_width) && C03_INR (in_height));
    /* ---- images described truthfully: sizes are not negative */
    VH_ASSUME (in_dw >= 0 && in_dw <= C03_R && in_dh >= 0 && in_dh <= C03_R);
    VH_ASSUME (in_aw >= 0 && in_aw <= C03_R && in_ah >= 0 && in_ah <= C03_R);
    VH_ASSUME (C03_INR (in_aox) && C03_INR (in_aoy));
    VH_ASSUME (C03_INR (in_s_aox) && C03_INR (in_s_aoy) && C03_INR (in_m_aox) && C03_INR (in_m_aoy));
    VH_ASSUME (in_d_have_clip <= 1 && in_d_alpha <= 1 && in_d_shape <= 1 && in_s_shape <= 1 && in_m_shape <= 1);
    VH_ASSUME (in_s_have_clip <= 1 && in_s_clip_sources <= 1 && in_s_client_clip <= 1 && in_s_alpha <= 1);
    VH_ASSUME (in_m_present <= 1 && in_m_have_clip <= 1 && in_m_clip_sources <= 1 && in_m_client_clip <= 1 && in_m_alpha <= 1);

    /* ---- case split */
#ifdef VC_DCLIP
    VH_ASSUME (in_d_have_clip == VC_DCLIP);
#endif
#ifdef VC_DALPHA
    VH_ASSUME (in_d_alpha == VC_DALPHA);
#endif
    s_enabled = in_s_have_clip && in_s_clip_sources && in_s_client_clip;
    m_enabled = in_m_present && in_m_have_clip && in_m_clip_sources && in_m_client_clip;
#ifdef VC_SRC
    VH_ASSUME (s_enabled == VC_SRC);
#endif
#ifdef VC_MASK
#if VC_MASK == 0
    VH_ASSUME (!in_m_present);
#elif VC_MASK == 1
    VH_ASSUME (in_m_present && !m_enabled);
#else
    VH_ASSUME (m_enabled);
#endif
#endif

    /* ---- build the images */
    vc_dest.type = BITS;
    vc_dest.bits.width = in_dw;
    vc_dest.bits.height = in_dh;
    vc_dest.common.have_clip_region = in_d_have_clip;
    c03_make_clip (&vc_dest.common.clip_region, in_d_shape, in_dcx1, in_dcy1, in_dcx2, in_dcy2);
    if (in_d_alpha)
    {
        vc_dest_amap.type = BITS;
        vc_dest_amap.bits.width = in_aw;
        vc_dest_amap.bits.height = in_ah;
        vc_dest_amap.common.have_clip_region = FALSE;     /* assumption: alpha maps have no clip region */
        vc_dest.common.alpha_map = &vc_dest_amap.bits;
        vc_dest.common.alpha_origin_x = in_aox;
        vc_dest.common.alpha_origin_y = in_aoy;
    }

    vc_src.type = BITS;
    vc_src.common.have_clip_region = in_s_have_clip;
    vc_src.common.clip_sources = in_s_clip_sources;
    vc_src.common.client_clip = in_s_client_clip;
    c03_make_clip (&vc_src.common.clip_region, in_s_shape, in_scx1, in_scy1, in_scx2, in_scy2);
    if (in_s_alpha)
    {
        vc_src_amap.type = BITS;
        vc_src_amap.common.have_clip_region = FALSE;
        vc_src.common.alpha_map = &vc_src_amap.bits;
        vc_src.common.alpha_origin_x = in_s_aox;
        vc_src.common.alpha_origin_y = in_s_aoy;
    }

    vc_mask.type = BITS;
    vc_mask.common.have_clip_region = in_m_have_clip;
    vc_mask.common.clip_sources = in_m_clip_sources;
    vc_mask.common.client_clip = in_m_client_clip;
    c03_make_clip (&vc_mask.common.clip_region, in_m_shape, in_mcx1, in_mcy1, in_mcx2, in_mcy2);
    if (in_m_alpha)
    {
        vc_mask_amap.type = BITS;
        vc_mask_amap.common.have_clip_region = FALSE;
        vc_mask.common.alpha_map = &vc_mask_amap.bits;
        vc_mask.common.alpha_origin_x = in_m_aox;
        vc_mask.common.alpha_origin_y = in_m_aoy;
    }

    pixman_region32_init (&region);

    /* ---- the real function */
    ret = _pixman_compute_composite_region32 (&region, &vc_src, in_m_present ? &vc_mask : (pixman_image_t *) 0, &vc_dest,
                                              in_src_x, in_src_y, in_mask_x, in_mask_y,
                                              in_dest_x, in_dest_y, in_width, in_height);

    /* ---- S(p), pointwise */
    S = (long) in_dest_x <= px && px < (long) in_dest_x + in_width
        && (long) in_dest_y <= py && py < (long) in_dest_y + in_height
        && 0 <= px && px < in_dw && 0 <= py && py < in_dh;
    if (in_d_have_clip)
        S = S && c03_in_clip (in_d_shape, in_dcx1, in_dcy1, in_dcx2, in_dcy2, px, py);
    if (in_d_alpha)
        S = S && (long) in_aox <= px && px < (long) in_aox + in_aw && (long) in_aoy <= py && py < (long) in_aoy + in_ah;
    if (s_enabled)
        S = S && c03_in_clip (in_s_shape, in_scx1, in_scy1, in_scx2, in_scy2,
                              px - ((long) in_dest_x - in_src_x), py - ((long) in_dest_y - in_src_y));
    if (m_enabled)
        S = S && c03_in_clip (in_m_shape, in_mcx1, in_mcy1, in_mcx2, in_mcy2,
                              px - ((long) in_dest_x - in_mask_x), py - ((long) in_dest_y - in_mask_y));

    /* ---- S as a box (an intersection of boxes is the box of the largest lower / smallest upper
     * bounds), to decide emptiness */
    sb.dead = 0;
    sb.x1 = in_dest_x; sb.y1 = in_dest_y; sb.x2 = (long) in_dest_x + in_width; sb.y2 = (long) in_dest_y + in_height;
    c03_meet (&sb, 0, 0, in_dw, in_dh);
    if (in_d_have_clip)
    {
        if (in_d_shape) sb.dead = 1;
        c03_meet (&sb, in_dcx1, in_dcy1, in_dcx2, in_dcy2);
    }
    if (in_d_alpha)
        c03_meet (&sb, in_aox, in_aoy, (long) in_aox + in_aw, (long) in_aoy + in_ah);
    if (s_enabled)
    {
        long dx = (long) in_dest_x - in_src_x, dy = (long) in_dest_y - in_src_y;
        if (in_s_shape) sb.dead = 1;
        c03_meet (&sb, in_scx1 + dx, in_scy1 + dy, in_scx2 + dx, in_scy2 + dy);
    }
    if (m_enabled)
    {
        long dx = (long) in_dest_x - in_mask_x, dy = (long) in_dest_y - in_mask_y;
        if (in_m_shape) sb.dead = 1;
        c03_meet (&sb, in_mcx1 + dx, in_mcy1 + dy, in_mcx2 + dx, in_mcy2 + dy);
    }

    /* ---- postconditions */
    if (ret)
    {
        VH_CHECK ("region.true.point_in_region_iff_in_every_enabled_constraint",
                  (sr_member_32 (&region, px, py) != 0) == (S != 0));
        VH_CHECK ("region.true.region_is_well_formed_and_not_empty",
                  sr_canon_32 (&region, pixman_region_empty_data) && sr_nrects_32 (&region) >= 1);
        VH_CHECK ("region.true.intersection_not_empty", !c03_box_empty (&sb));
    }
    else
    {
        VH_CHECK ("region.false.ghost_point_not_in_intersection", !S);
        VH_CHECK ("region.false.only_if_intersection_empty", c03_box_empty (&sb));
    }
    VH_CHECK ("region.no_internal_consistency_error_logged", vh_log_errors == 0);
    pixman_region32_fini (&region);
    VH_END ();
}
