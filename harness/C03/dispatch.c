/* C03 (2) + composite32.*: the REAL pixman_image_composite32 (pixman.c) from the validated
 * images to the calls of the chosen routine.
 *
 * Replaced (recording stubs / contracts), everything else is the real text of pixman.c and
 * pixman-region32.c:
 *   _pixman_image_validate                   counts its calls (flags / extended_format_code of the
 *                                            images are harness inputs = the state after validation)
 *   _pixman_implementation_lookup_composite  records its arguments, returns (&vc_imp, vc_func)
 *   vc_func                                  records the pixman_composite_info_t of every call
 *   pixman_transform_point                   asserted unreachable (images have no transform matrix
 *                                            unless analyze_extent is stubbed)
 *   -DVC_REGION_MODE=0  _pixman_compute_composite_region32 = its contract (proved by the region.*
 *                       jobs for <= 1-rectangle clips): FALSE, or TRUE with a region of
 *                       1..VC_NBOX symbolic non-empty boxes inside request ∩ destination bounds
 *   -DVC_REGION_MODE=1  the real function (single-rectangle clips, scene_inputs.inc)
 *   -DVC_AE_MODE=0      analyze_extent = its frame contract (proved in C04 extent.*): NULL image ->
 *                       TRUE and flags untouched; else any result, flags |= any subset of the two
 *                       COVER_CLIP bits
 *   -DVC_AE_MODE=1      the real analyze_extent (identity transforms)
 *
 * How the two functions defined in pixman.c are intercepted without touching /repo: both names
 * are #defined to vc_ic_<__COUNTER__> while pixman.c is read.  Their occurrences are, in
 * order: definition of _pixman_compute_composite_region32 (-> vc_ic_0, real body), definition
 * of analyze_extent (-> vc_ic_1, real body), the call of the former in
 * pixman_image_composite32 (-> vc_ic_2), the two calls of analyze_extent for source and
 * mask (-> vc_ic_3, vc_ic_4), the call in pixman_compute_composite_region (-> vc_ic_5).
 * Any change of that shape fails to compile (=> undecided), never a verdict.
 *
 * Obligation groups (-DVC_CHECK):
 *   0  dispatch.*            one call per box, rectangle == box, origins translated with the box
 *   5  dispatch.e2e.*        real region: union of the rectangles handed out == S (ghost point)
 *   1  composite32.pixbuf.*  pixbuf/rpixbuf presentation only for "mask sample == source sample"
 *   2  composite32.pixbuf.same_geometry (own job)
 *   3  composite32.promote.* IS_OPAQUE added only with SAMPLES_OPAQUE + filter + matching COVER flag
 *   4  composite32.mask.*    mask dropped only if flagged IS_OPAQUE (or absent)
 */
#include "c03.h"

#ifndef VC_CHECK
#define VC_CHECK 0
#endif
#ifndef VC_REGION_MODE
#define VC_REGION_MODE 0
#endif
#ifndef VC_AE_MODE
#define VC_AE_MODE 0
#endif
#ifndef VC_NBOX
#define VC_NBOX 2
#endif
#define VC_MAXCALL 4

/* ------------------------------------------------------------------ recorders */
static pixman_image_t vc_src, vc_mask, vc_dest, vc_src_amap, vc_mask_amap, vc_dest_amap;
static pixman_implementation_t vc_top, vc_imp;
static pixman_transform_t vc_src_tr, vc_mask_tr;
static pixman_fixed_t vc_src_params[2], vc_mask_params[2];
static uint32_t vc_buf_a[1], vc_buf_b[1];

static int vc_nvalidate_src, vc_nvalidate_mask, vc_nvalidate_dest, vc_nvalidate_other;
static int vc_nlookup, vc_ncalls, vc_ntransform;
static struct { pixman_implementation_t *top; pixman_op_t op; pixman_format_code_t sf, mf, df; uint32_t sfl, mfl, dfl; } vc_lk;
static struct { pixman_implementation_t *imp; pixman_composite_info_t info; } vc_call[VC_MAXCALL];

/* region contract state */
static int vc_reg_calls, vc_reg_args_ok, vc_reg_ret, vc_nbox;
static pixman_box32_t vc_box[VC_NBOX];
static struct { int32_t sx, sy, mx, my, dx, dy, w, h; pixman_image_t *mask; } vc_req;
/* analyze_extent contract state */
static int vc_ae_ok[2], vc_ae_calls[2], vc_ae_null[2];
static uint32_t vc_ae_add[2], vc_ae_flags_in[2];
static pixman_box32_t vc_ae_ext[2];

pixman_implementation_t *_pixman_choose_implementation (void) { return &vc_top; }

void _pixman_image_validate (pixman_image_t *image)
{
    if (image == &vc_src) vc_nvalidate_src++;
    else if (image == &vc_mask) vc_nvalidate_mask++;
    else if (image == &vc_dest) vc_nvalidate_dest++;
    else vc_nvalidate_other++;
}

static void vc_func (pixman_implementation_t *imp, pixman_composite_info_t *info)
{
    if (vc_ncalls < VC_MAXCALL)
    {
        vc_call[vc_ncalls].imp = imp;
        vc_call[vc_ncalls].info = *info;
    }
    vc_ncalls++;
}

void
_pixman_implementation_lookup_composite (pixman_implementation_t *toplevel, pixman_op_t op,
                                         pixman_format_code_t src_format, uint32_t src_flags,
                                         pixman_format_code_t mask_format, uint32_t mask_flags,
                                         pixman_format_code_t dest_format, uint32_t dest_flags,
                                         pixman_implementation_t **out_imp, pixman_composite_func_t *out_func)
{
    vc_nlookup++;
    vc_lk.top = toplevel; vc_lk.op = op;
    vc_lk.sf = src_format; vc_lk.mf = mask_format; vc_lk.df = dest_format;
    vc_lk.sfl = src_flags; vc_lk.mfl = mask_flags; vc_lk.dfl = dest_flags;
    *out_imp = &vc_imp;
    *out_func = vc_func;
}

pixman_bool_t pixman_transform_point (const struct pixman_transform *transform, struct pixman_vector *vector)
{
    vc_ntransform++;
    return FALSE;
}

/* ------------------------------------------------------------------ intercepted callees */
pixman_bool_t vc_ic_0 (pixman_region32_t *, pixman_image_t *, pixman_image_t *, pixman_image_t *,
                       int32_t, int32_t, int32_t, int32_t, int32_t, int32_t, int32_t, int32_t);
static pixman_bool_t vc_ic_1 (pixman_image_t *, const pixman_box32_t *, uint32_t *);

static pixman_bool_t
vc_ic_2 (pixman_region32_t *region, pixman_image_t *src, pixman_image_t *mask, pixman_image_t *dest,
         int32_t sx, int32_t sy, int32_t mx, int32_t my, int32_t dx, int32_t dy, int32_t w, int32_t h)
{
    vc_reg_calls++;
    vc_reg_args_ok = src == &vc_src && mask == vc_req.mask && dest == &vc_dest
                     && sx == vc_req.sx && sy == vc_req.sy && mx == vc_req.mx && my == vc_req.my
                     && dx == vc_req.dx && dy == vc_req.dy && w == vc_req.w && h == vc_req.h;
#if VC_REGION_MODE == 1
    return vc_ic_0 (region, src, mask, dest, sx, sy, mx, my, dx, dy, w, h);
#else
    if (!vc_reg_ret)
        return FALSE;
    if (vc_nbox == 1)
    {
        region->extents = vc_box[0];
        region->data = (pixman_region32_data_t *) 0;
    }
    else
    {
        int i;
        pixman_box32_t *b;
        region->data = (pixman_region32_data_t *) malloc (sizeof (pixman_region32_data_t) + VC_NBOX * sizeof (pixman_box32_t));
        VH_ASSUME (region->data != 0);
        region->data->size = VC_NBOX;
        region->data->numRects = vc_nbox;
        b = (pixman_box32_t *) (region->data + 1);
        region->extents = vc_box[0];
        for (i = 0; i < VC_NBOX; i++)
        {
            if (i < vc_nbox)
            {
                b[i] = vc_box[i];
                if (vc_box[i].x1 < region->extents.x1) region->extents.x1 = vc_box[i].x1;
                if (vc_box[i].y1 < region->extents.y1) region->extents.y1 = vc_box[i].y1;
                if (vc_box[i].x2 > region->extents.x2) region->extents.x2 = vc_box[i].x2;
                if (vc_box[i].y2 > region->extents.y2) region->extents.y2 = vc_box[i].y2;
            }
        }
    }
    return TRUE;
#endif
}

static pixman_bool_t vc_ae (int which, pixman_image_t *image, const pixman_box32_t *extents, uint32_t *flags)
{
    vc_ae_calls[which]++;
    vc_ae_null[which] = image == (pixman_image_t *) 0;
    vc_ae_ext[which] = *extents;
    vc_ae_flags_in[which] = *flags;
#if VC_AE_MODE == 1
    return vc_ic_1 (image, extents, flags);
#else
    if (!image)
        return TRUE;
    *flags |= vc_ae_add[which];
    return vc_ae_ok[which];
#endif
}
static pixman_bool_t vc_ic_3 (pixman_image_t *image, const pixman_box32_t *extents, uint32_t *flags) { return vc_ae (0, image, extents, flags); }
static pixman_bool_t vc_ic_4 (pixman_image_t *image, const pixman_box32_t *extents, uint32_t *flags) { return vc_ae (1, image, extents, flags); }
static pixman_bool_t
vc_ic_5 (pixman_region32_t *region, pixman_image_t *src, pixman_image_t *mask, pixman_image_t *dest,
         int32_t sx, int32_t sy, int32_t mx, int32_t my, int32_t dx, int32_t dy, int32_t w, int32_t h)
{
    return vc_ic_0 (region, src, mask, dest, sx, sy, mx, my, dx, dy, w, h);
}

/* multi-rectangle branch of clip_general_image: dead for <= 1-rectangle clips (asserted) */
static void vc_translate_unreachable (pixman_region32_t *r, int x, int y)
{
#ifdef VH_CBMC
    VH_CHECK ("clip_general_image.multi_rect_branch_unreachable_for_single_rect_clips", 0);
    __CPROVER_assume (0);
#else
    (pixman_region32_translate) (r, x, y);
#endif
}
static pixman_bool_t vc_intersect_unreachable (pixman_region32_t *n, pixman_region32_t *a, pixman_region32_t *b)
{
#ifdef VH_CBMC
    VH_CHECK ("clip_general_image.multi_rect_branch_unreachable_for_single_rect_clips", 0);
    __CPROVER_assume (0);
    return 0;
#else
    return (pixman_region32_intersect) (n, a, b);
#endif
}

#define pixman_region32_translate(r, x, y) vc_translate_unreachable (r, x, y)
#define pixman_region32_intersect(n, a, b) vc_intersect_unreachable (n, a, b)
#define VC_PICK2(n) vc_ic_##n
#define VC_PICK(n) VC_PICK2 (n)
#define _pixman_compute_composite_region32 VC_PICK (__COUNTER__)
#define analyze_extent VC_PICK (__COUNTER__)
#define pixman_constructor vh_unused_pixman_constructor
#include "pixman.c"
#undef _pixman_compute_composite_region32
#undef analyze_extent
#undef pixman_region32_translate
#undef pixman_region32_intersect

#define VC_COVER (FAST_PATH_SAMPLES_COVER_CLIP_NEAREST | FAST_PATH_SAMPLES_COVER_CLIP_BILINEAR)
#define VC_HAS(w, bits) (((w) & (bits)) == (bits))

static int vc_is_image_type (unsigned t) { return t == BITS || t == LINEAR || t == CONICAL || t == RADIAL || t == SOLID; }

/* flags / extended_format_code as compute_image_info leaves them (C09 info.* / C14 jobs), as far
 * as pixman_image_composite32 relies on them:
 *   ID_TRANSFORM set  <=>  the image has no transform matrix
 *   non-BITS image    =>   code is PIXMAN_solid or PIXMAN_unknown
 *   BITS image        =>   code is its bits.format (a real format: bpp field != 0), or
 *                          PIXMAN_solid (1x1 repeating) */
static int vc_info_truthful (const pixman_image_t *im)
{
    int id = (im->common.flags & FAST_PATH_ID_TRANSFORM) != 0;
    if (id != (im->common.transform == (pixman_transform_t *) 0))
        return 0;
    if (im->type != BITS)
        return im->common.extended_format_code == PIXMAN_solid || im->common.extended_format_code == PIXMAN_unknown;
    /* a real pixel format has a non-zero bits-per-pixel field; the internal pseudo formats
     * (null, solid, pixbuf, rpixbuf, unknown, any) are exactly the codes with bpp field 0 */
    if (((uint32_t) im->bits.format >> 24) == 0)
        return 0;
    return im->common.extended_format_code == im->bits.format
           || (im->common.extended_format_code == PIXMAN_solid && im->bits.width == 1 && im->bits.height == 1
               && im->common.repeat != PIXMAN_REPEAT_NONE);
}

void harness (void)
{
#include "scene_inputs.inc"
    VH_IN (vh_u32, in_op);
    VH_IN (vh_u32, in_src_type); VH_IN (vh_u32, in_mask_type);
    VH_IN (vh_u32, in_src_flags); VH_IN (vh_u32, in_mask_flags); VH_IN (vh_u32, in_dest_flags);
    VH_IN (vh_u32, in_src_code); VH_IN (vh_u32, in_mask_code); VH_IN (vh_u32, in_dest_code);
    VH_IN (vh_u32, in_src_fmt); VH_IN (vh_u32, in_mask_fmt);
    VH_IN (vh_u32, in_src_repeat); VH_IN (vh_u32, in_mask_repeat);
    VH_IN (vh_u32, in_src_filter); VH_IN (vh_u32, in_mask_filter);
    VH_IN (vh_u8, in_src_has_tr); VH_IN (vh_u8, in_mask_has_tr);
    VH_IN (vh_u8, in_src_buf); VH_IN (vh_u8, in_mask_buf);
    VH_IN (vh_i32, in_sw); VH_IN (vh_i32, in_sh); VH_IN (vh_i32, in_sstride);
    VH_IN (vh_i32, in_mw); VH_IN (vh_i32, in_mh); VH_IN (vh_i32, in_mstride);
    VH_IN (vh_i32, in_sp0); VH_IN (vh_i32, in_sp1); VH_IN (vh_i32, in_mp0); VH_IN (vh_i32, in_mp1);
    /* contracts */
    VH_IN (vh_u8, in_reg_ret); VH_IN (vh_u8, in_nbox);
    VH_IN (vh_i32, in_b0x1); VH_IN (vh_i32, in_b0y1); VH_IN (vh_i32, in_b0x2); VH_IN (vh_i32, in_b0y2);
    VH_IN (vh_i32, in_b1x1); VH_IN (vh_i32, in_b1y1); VH_IN (vh_i32, in_b1x2); VH_IN (vh_i32, in_b1y2);
    VH_IN (vh_i32, in_b2x1); VH_IN (vh_i32, in_b2y1); VH_IN (vh_i32, in_b2x2); VH_IN (vh_i32, in_b2y2);
    VH_IN (vh_u8, in_ae_src_ok); VH_IN (vh_u8, in_ae_mask_ok);
    VH_IN (vh_u32, in_ae_src_add); VH_IN (vh_u32, in_ae_mask_add);
    pixman_image_t *maskp = in_m_present ? &vc_mask : (pixman_image_t *) 0;
    int i, ae_ok, ae_refused, mask_dropped;

    /* ---- precondition: a valid operator code (index of operator_table) */
    VH_ASSUME (in_op <= PIXMAN_OP_HSL_LUMINOSITY);

    /* ---- images (scene_inputs.inc has set sizes of dest, clips, alpha maps) */
    VH_ASSUME (vc_is_image_type (in_src_type) && vc_is_image_type (in_mask_type));
    vc_src.type = (image_type_t) in_src_type;
    vc_mask.type = (image_type_t) in_mask_type;
    vc_dest.type = BITS;
    VH_ASSUME (in_sw >= 0 && in_sw <= C03_R && in_sh >= 0 && in_sh <= C03_R && in_mw >= 0 && in_mw <= C03_R && in_mh >= 0 && in_mh <= C03_R);
    if (vc_src.type == BITS)
    {
        vc_src.bits.format = (pixman_format_code_t) in_src_fmt;
        vc_src.bits.width = in_sw; vc_src.bits.height = in_sh; vc_src.bits.rowstride = in_sstride;
        vc_src.bits.bits = in_src_buf ? vc_buf_b : vc_buf_a;
    }
    if (vc_mask.type == BITS)
    {
        vc_mask.bits.format = (pixman_format_code_t) in_mask_fmt;
        vc_mask.bits.width = in_mw; vc_mask.bits.height = in_mh; vc_mask.bits.rowstride = in_mstride;
        vc_mask.bits.bits = in_mask_buf ? vc_buf_b : vc_buf_a;
    }
    VH_ASSUME (in_src_repeat <= PIXMAN_REPEAT_REFLECT && in_mask_repeat <= PIXMAN_REPEAT_REFLECT);
    vc_src.common.repeat = (pixman_repeat_t) in_src_repeat;
    vc_mask.common.repeat = (pixman_repeat_t) in_mask_repeat;
    vc_src.common.filter = (pixman_filter_t) in_src_filter;
    vc_mask.common.filter = (pixman_filter_t) in_mask_filter;
    vc_src_params[0] = in_sp0; vc_src_params[1] = in_sp1; vc_mask_params[0] = in_mp0; vc_mask_params[1] = in_mp1;
    vc_src.common.filter_params = vc_src_params; vc_src.common.n_filter_params = 2;
    vc_mask.common.filter_params = vc_mask_params; vc_mask.common.n_filter_params = 2;
#if VC_AE_MODE == 1
    VH_ASSUME (!in_src_has_tr && !in_mask_has_tr);
    /* convolution kernel sizes as pixman_image_set_filter accepts them would need the kernel
     * itself: the real analyze_extent is exercised with the non-convolution filters here */
    VH_ASSUME (in_src_filter != PIXMAN_FILTER_CONVOLUTION && in_src_filter != PIXMAN_FILTER_SEPARABLE_CONVOLUTION);
    VH_ASSUME (in_mask_filter != PIXMAN_FILTER_CONVOLUTION && in_mask_filter != PIXMAN_FILTER_SEPARABLE_CONVOLUTION);
#endif
    vc_src.common.transform = in_src_has_tr ? &vc_src_tr : (pixman_transform_t *) 0;
    vc_mask.common.transform = in_mask_has_tr ? &vc_mask_tr : (pixman_transform_t *) 0;
    vc_src.common.flags = in_src_flags; vc_mask.common.flags = in_mask_flags; vc_dest.common.flags = in_dest_flags;
    vc_src.common.extended_format_code = (pixman_format_code_t) in_src_code;
    vc_mask.common.extended_format_code = (pixman_format_code_t) in_mask_code;
    vc_dest.common.extended_format_code = (pixman_format_code_t) in_dest_code;
    VH_ASSUME (vc_info_truthful (&vc_src) && vc_info_truthful (&vc_mask));

    /* ---- contracts of the replaced callees */
    VH_ASSUME (in_reg_ret <= 1 && in_nbox >= 1 && in_nbox <= VC_NBOX);
    vc_reg_ret = in_reg_ret; vc_nbox = in_nbox;
    vc_box[0].x1 = in_b0x1; vc_box[0].y1 = in_b0y1; vc_box[0].x2 = in_b0x2; vc_box[0].y2 = in_b0y2;
#if VC_NBOX >= 2
    vc_box[1].x1 = in_b1x1; vc_box[1].y1 = in_b1y1; vc_box[1].x2 = in_b1x2; vc_box[1].y2 = in_b1y2;
#endif
#if VC_NBOX >= 3
    vc_box[2].x1 = in_b2x1; vc_box[2].y1 = in_b2y1; vc_box[2].x2 = in_b2x2; vc_box[2].y2 = in_b2y2;
#endif
#if VC_REGION_MODE == 0
    for (i = 0; i < VC_NBOX; i++)
    {
        /* every box of the composite region: not empty, inside request ∩ destination bounds */
        VH_ASSUME (vc_box[i].x1 < vc_box[i].x2 && vc_box[i].y1 < vc_box[i].y2);
        VH_ASSUME ((long) vc_box[i].x1 >= in_dest_x && (long) vc_box[i].x2 <= (long) in_dest_x + in_width && vc_box[i].x1 >= 0 && vc_box[i].x2 <= in_dw);
        VH_ASSUME ((long) vc_box[i].y1 >= in_dest_y && (long) vc_box[i].y2 <= (long) in_dest_y + in_height && vc_box[i].y1 >= 0 && vc_box[i].y2 <= in_dh);
    }
#endif
    VH_ASSUME (in_ae_src_ok <= 1 && in_ae_mask_ok <= 1);
    VH_ASSUME ((in_ae_src_add & ~VC_COVER) == 0 && (in_ae_mask_add & ~VC_COVER) == 0);
    vc_ae_ok[0] = in_ae_src_ok; vc_ae_ok[1] = in_ae_mask_ok;
    vc_ae_add[0] = in_ae_src_add; vc_ae_add[1] = in_ae_mask_add;

    vc_req.sx = in_src_x; vc_req.sy = in_src_y; vc_req.mx = in_mask_x; vc_req.my = in_mask_y;
    vc_req.dx = in_dest_x; vc_req.dy = in_dest_y; vc_req.w = in_width; vc_req.h = in_height; vc_req.mask = maskp;
    global_implementation = &vc_top;

    /* ---- the real function */
    pixman_image_composite32 ((pixman_op_t) in_op, &vc_src, maskp, &vc_dest,
                              in_src_x, in_src_y, in_mask_x, in_mask_y, in_dest_x, in_dest_y, in_width, in_height);

#include "scene_spec.inc"
    (void) sb; (void) S;

    ae_ok = vc_ae_calls[0] == 1 && (vc_ae_null[0] || VC_AE_MODE == 1 || in_ae_src_ok)
            && vc_ae_calls[1] == 1 && (vc_ae_null[1] || VC_AE_MODE == 1 || in_ae_mask_ok);
    ae_refused = (vc_ae_calls[0] == 1 && !vc_ae_null[0] && !in_ae_src_ok) || (vc_ae_calls[1] == 1 && !vc_ae_null[1] && !in_ae_mask_ok);
    mask_dropped = vc_lk.mf == PIXMAN_null;
    (void) ae_refused; (void) ae_ok; (void) mask_dropped;

    VH_CHECK ("composite32.images_validated_before_use",
              vc_nvalidate_src >= 1 && vc_nvalidate_dest >= 1 && (!in_m_present || vc_nvalidate_mask >= 1) && vc_nvalidate_other == 0);
    VH_CHECK ("composite32.region_computed_once_for_the_request_as_given", vc_reg_calls == 1 && vc_reg_args_ok);
    VH_CHECK ("composite32.no_internal_consistency_error_logged", vh_log_errors == 0);
#if VC_AE_MODE == 1
    VH_CHECK ("composite32.no_transform_evaluated_for_identity_images", vc_ntransform == 0);
#endif

#if VC_CHECK == 0
    /* ---------------------------------------------------------------- dispatch.* */
#if VC_REGION_MODE == 0
    if (!in_reg_ret)
    {
        VH_CHECK ("dispatch.empty_region_no_call", vc_ncalls == 0 && vc_nlookup == 0);
    }
    else
#if VC_AE_MODE == 0
    if (!ae_ok)
    {
        VH_CHECK ("dispatch.unrepresentable_extents_request_dropped", vc_ncalls == 0);
    }
    else
#else
    if (vc_nlookup)
#endif
    {
        VH_CHECK ("dispatch.one_lookup", vc_nlookup == 1 && vc_lk.top == &vc_top);
        VH_CHECK ("dispatch.one_call_per_box", vc_ncalls == in_nbox);
        for (i = 0; i < VC_NBOX; i++)
        {
            if (i < in_nbox && i < vc_ncalls)
            {
                const pixman_composite_info_t *c = &vc_call[i].info;
                VH_CHECK ("dispatch.rectangle_is_the_box",
                          c->dest_x == vc_box[i].x1 && c->dest_y == vc_box[i].y1
                          && (long) c->dest_x + c->width == vc_box[i].x2 && (long) c->dest_y + c->height == vc_box[i].y2
                          && c->width > 0 && c->height > 0);
                VH_CHECK ("dispatch.source_origin_translated_with_the_box",
                          (long) c->src_x == (long) vc_box[i].x1 + in_src_x - in_dest_x
                          && (long) c->src_y == (long) vc_box[i].y1 + in_src_y - in_dest_y);
                VH_CHECK ("dispatch.mask_origin_translated_with_the_box",
                          (long) c->mask_x == (long) vc_box[i].x1 + in_mask_x - in_dest_x
                          && (long) c->mask_y == (long) vc_box[i].y1 + in_mask_y - in_dest_y);
                VH_CHECK ("dispatch.images_operator_flags_are_those_looked_up",
                          c->src_image == &vc_src && c->mask_image == maskp && c->dest_image == &vc_dest
                          && c->op == vc_lk.op && c->src_flags == vc_lk.sfl && c->mask_flags == vc_lk.mfl
                          && c->dest_flags == vc_lk.dfl && vc_call[i].imp == &vc_imp);
            }
        }
    }
#endif
#endif

#if VC_CHECK == 5
    /* ---------------------------------------------------------------- dispatch.e2e.* (real region) */
    {
        int in_calls = 0;
        VH_CHECK ("dispatch.e2e.at_most_one_rectangle_for_single_rect_clips", vc_ncalls <= 1);
        for (i = 0; i < VC_MAXCALL; i++)
            if (i < vc_ncalls)
            {
                const pixman_composite_info_t *c = &vc_call[i].info;
                if ((long) c->dest_x <= px && px < (long) c->dest_x + c->width && (long) c->dest_y <= py && py < (long) c->dest_y + c->height)
                    in_calls = 1;
                VH_CHECK ("dispatch.e2e.source_origin_translated",
                          (long) c->src_x - in_src_x == (long) c->dest_x - in_dest_x && (long) c->src_y - in_src_y == (long) c->dest_y - in_dest_y
                          && (long) c->mask_x - in_mask_x == (long) c->dest_x - in_dest_x && (long) c->mask_y - in_mask_y == (long) c->dest_y - in_dest_y);
            }
        VH_CHECK ("dispatch.e2e.every_pixel_handed_out_is_in_the_intersection", !in_calls || S);
        if (ae_refused)
            VH_CHECK ("dispatch.e2e.unrepresentable_extents_request_dropped", vc_ncalls == 0);
        else
            VH_CHECK ("dispatch.e2e.every_pixel_of_the_intersection_is_handed_out", !S || in_calls);
    }
#endif

#if VC_CHECK == 1 || VC_CHECK == 2
    /* ---------------------------------------------------------------- composite32.pixbuf.*
     * The pixbuf / rpixbuf presentation tells the routine "the mask IS the source's own alpha
     * channel": it must only be used if mask sample == source sample for every pixel, i.e.
     * both images read the same storage with the same geometry, the same sampling (no
     * transform on either; identical repeat) at the same offsets. */
    if (vc_nlookup)
    {
        int pb = vc_lk.sf == PIXMAN_pixbuf || vc_lk.mf == PIXMAN_pixbuf;
        int rpb = vc_lk.sf == PIXMAN_rpixbuf || vc_lk.mf == PIXMAN_rpixbuf;
#if VC_CHECK == 1
        if (pb || rpb)
        {
            VH_CHECK ("composite32.pixbuf.both_presentations_replaced_together", vc_lk.sf == vc_lk.mf);
            VH_CHECK ("composite32.pixbuf.mask_present_and_both_bits_images",
                      in_m_present && vc_src.type == BITS && vc_mask.type == BITS);
            VH_CHECK ("composite32.pixbuf.same_storage", in_m_present && vc_src.bits.bits == vc_mask.bits.bits);
            VH_CHECK ("composite32.pixbuf.same_offsets_x_and_y", in_src_x == in_mask_x && in_src_y == in_mask_y);
            VH_CHECK ("composite32.pixbuf.no_transform_on_either", !in_src_has_tr && !in_mask_has_tr);
            VH_CHECK ("composite32.pixbuf.same_repeat", in_src_repeat == in_mask_repeat);
            VH_CHECK ("composite32.pixbuf.formats_are_colour_without_alpha_plus_alpha_of_same_word",
                      (in_mask_code == PIXMAN_a8r8g8b8 || in_mask_code == PIXMAN_a8b8g8r8)
                      && in_src_code == (pb ? PIXMAN_x8b8g8r8 : PIXMAN_x8r8g8b8));
        }
        else
        {
            VH_CHECK ("composite32.pixbuf.otherwise_formats_passed_unchanged",
                      vc_lk.sf == (pixman_format_code_t) in_src_code
                      && (vc_lk.mf == (pixman_format_code_t) in_mask_code || vc_lk.mf == PIXMAN_null));
        }
        VH_CHECK ("composite32.dest_format_and_flags_passed_unchanged",
                  vc_lk.df == (pixman_format_code_t) in_dest_code && vc_lk.dfl == in_dest_flags);
#else
        if (pb || rpb)
            VH_CHECK ("composite32.pixbuf.same_geometry",
                      in_m_present && in_sstride == in_mstride && in_sw == in_mw && in_sh == in_mh);
#endif
    }
#endif

#if VC_CHECK == 3
    /* ---------------------------------------------------------------- composite32.promote.* */
    if (vc_nlookup)
    {
        uint32_t f = vc_lk.sfl;
        VH_CHECK ("composite32.promote.source_flags_differ_only_by_cover_and_opaque",
                  (f & ~(VC_COVER | FAST_PATH_IS_OPAQUE)) == (in_src_flags & ~(VC_COVER | FAST_PATH_IS_OPAQUE))
                  && (f & VC_COVER) == ((in_src_flags | in_ae_src_add) & VC_COVER)
                  && VC_HAS (f, in_src_flags & FAST_PATH_IS_OPAQUE));
        if ((f & FAST_PATH_IS_OPAQUE) && !(in_src_flags & FAST_PATH_IS_OPAQUE))
            VH_CHECK ("composite32.promote.source_opaque_added_only_if_samples_opaque_and_filter_and_matching_cover",
                      (f & FAST_PATH_SAMPLES_OPAQUE)
                      && ((VC_HAS (f, FAST_PATH_NEAREST_FILTER | FAST_PATH_SAMPLES_COVER_CLIP_NEAREST))
                          || (VC_HAS (f, FAST_PATH_BILINEAR_FILTER | FAST_PATH_SAMPLES_COVER_CLIP_BILINEAR))));
        if (!mask_dropped)
        {
            uint32_t g = vc_lk.mfl;
            VH_CHECK ("composite32.promote.mask_flags_differ_only_by_cover_and_opaque",
                      (g & ~(VC_COVER | FAST_PATH_IS_OPAQUE)) == (in_mask_flags & ~(VC_COVER | FAST_PATH_IS_OPAQUE))
                      && (g & VC_COVER) == ((in_mask_flags | in_ae_mask_add) & VC_COVER)
                      && VC_HAS (g, in_mask_flags & FAST_PATH_IS_OPAQUE));
            if ((g & FAST_PATH_IS_OPAQUE) && !(in_mask_flags & FAST_PATH_IS_OPAQUE))
                VH_CHECK ("composite32.promote.mask_opaque_added_only_if_samples_opaque_and_filter_and_matching_cover",
                          (g & FAST_PATH_SAMPLES_OPAQUE)
                          && ((VC_HAS (g, FAST_PATH_NEAREST_FILTER | FAST_PATH_SAMPLES_COVER_CLIP_NEAREST))
                              || (VC_HAS (g, FAST_PATH_BILINEAR_FILTER | FAST_PATH_SAMPLES_COVER_CLIP_BILINEAR))));
        }
    }
#endif

#if VC_CHECK == 4
    /* ---------------------------------------------------------------- composite32.mask.* */
    if (vc_nlookup)
    {
        VH_CHECK ("composite32.mask.dropped_only_if_absent_or_flagged_opaque",
                  !mask_dropped || !in_m_present || (in_mask_flags & FAST_PATH_IS_OPAQUE));
        VH_CHECK ("composite32.mask.absent_mask_is_presented_as_null", in_m_present || mask_dropped);
        VH_CHECK ("composite32.mask.dropped_mask_is_presented_as_opaque_without_alpha_map",
                  !mask_dropped || VC_HAS (vc_lk.mfl, FAST_PATH_IS_OPAQUE | FAST_PATH_NO_ALPHA_MAP));
        VH_CHECK ("composite32.mask.kept_mask_keeps_its_format",
                  mask_dropped || vc_lk.mf == (pixman_format_code_t) in_mask_code
                  || vc_lk.mf == PIXMAN_pixbuf || vc_lk.mf == PIXMAN_rpixbuf);
        for (i = 0; i < VC_MAXCALL; i++)
            if (i < vc_ncalls)
                VH_CHECK ("composite32.mask.routine_still_gets_the_mask_image", vc_call[i].info.mask_image == maskp);
    }
#endif
    VH_END ();
}
