/* C10 (7): the scalar converters.
 *   VF_UT 0  unorm_to_unorm (v, from, to), from, to in 1..16 (inputs): to <= from keeps the top bits,
 *            to > from replicates bits (result bit i from the top == bit i mod from of v from the top);
 *            from == 0 gives 0
 *   VF_UT 1  float_to_unorm (unorm_to_float (u, 8), 8) == u for all u; same for n in 1..8,10 via VF_NB
 *   VF_UT 2  float_to_unorm clamps: f >= 1 -> max, f <= 0 -> 0, result <= max for every non-NaN float
 *   VF_UT 3  pixman_contract_from_float (pixman_expand_to_float (p, a8r8g8b8)) == p  (width 1, one channel VF_CH)
 */
#include "pixman-utils.c"
#include "vh.h"

#ifndef VF_NB
#define VF_NB 8
#endif

void harness (void)
{
#if VF_UT == 0
    VH_IN (vh_u32, in_v);
    VH_IN (vh_u32, in_from);
    VH_IN (vh_u32, in_to);
    VH_IN (vh_u32, in_i);
    uint32_t r, v;
    VH_ASSUME (in_from >= 1 && in_from <= 16 && in_to >= 1 && in_to <= 16 && in_i < in_to);
    r = unorm_to_unorm (in_v, (int) in_from, (int) in_to);
    v = in_v & ((1u << in_from) - 1u);
    VH_CHECK ("unorm_to_unorm.fits_to_bits", r < (1u << in_to));
    VH_CHECK ("unorm_to_unorm.narrowing_keeps_top_bits", in_to > in_from || r == (v >> (in_from - in_to)));
    VH_CHECK ("unorm_to_unorm.bit_replication",
              ((r >> (in_to - 1 - in_i)) & 1u) == ((v >> (in_from - 1 - (in_i % in_from))) & 1u));
    VH_CHECK ("unorm_to_unorm.from_zero_bits_is_zero", unorm_to_unorm (in_v, 0, (int) in_to) == 0);
#elif VF_UT == 1
    VH_IN (vh_u16, in_u);
    uint16_t u = in_u & ((1u << VF_NB) - 1u);
    float f = pixman_unorm_to_float (in_u, VF_NB);
    VH_CHECK ("float.unorm_to_float_in_0_1", f >= 0.0f && f <= 1.0f);
    VH_CHECK ("float.zero_is_zero", u != 0 || f == 0.0f);
    VH_CHECK ("float.max_is_one", u != ((1u << VF_NB) - 1u) || f == 1.0f);
    VH_CHECK ("float.round_trip_is_identity", pixman_float_to_unorm (f, VF_NB) == u);
#elif VF_UT == 2
    VH_IN (vh_f32, in_f);
    uint16_t r;
    VH_ASSUME (in_f == in_f);   /* NaN: the conversion float -> uint32_t is undefined; not claimed */
    r = pixman_float_to_unorm (in_f, VF_NB);
    VH_CHECK ("float.result_fits", r <= ((1u << VF_NB) - 1u));
    VH_CHECK ("float.clamp_high", !(in_f >= 1.0f) || r == ((1u << VF_NB) - 1u));
    VH_CHECK ("float.clamp_low", !(in_f <= 0.0f) || r == 0);
#else
    VH_IN (vh_u32, in_p);
    argb_t f;
    uint32_t p = in_p, q = 0;
    pixman_expand_to_float (&f, &p, PIXMAN_a8r8g8b8, 1);
    pixman_contract_from_float (&q, &f, 1);
    VH_CHECK ("float.contract_of_expand_is_identity", ((q >> (8 * VF_CH)) & 0xff) == ((in_p >> (8 * VF_CH)) & 0xff));
#endif
    VH_END ();
}
