/* C10 (1a): fetch_pixel_<f> (image, x, y) == WIDEN_<f> (raw pixel x of row y)
 * loop-free; every raw memory content, every x in the row (all positions inside a
 * 32-bit word), both rows, top-down and bottom-up images.
 * Indexed formats: == palette.rgba[raw pixel], any palette.
 */
#include "fmt_common.h"

void harness (void)
{
    VF_IN_ARRAY (vh_u32, in_mem, VF_WORDS);
    VF_DECL_DECOY;
    VF_DECL_PAL;
    VH_IN (vh_u32, in_x);
    VH_IN (vh_u32, in_y);
    VH_IN (vh_u32, in_up);
    VH_IN (vh_u32, in_gw);
    uint32_t got, raw;

    VH_ASSUME (in_x < VF_NPIX && in_y < VF_ROWS && in_up <= 1 && in_gw < VF_WORDS);
    VF_SETUP (in_mem, in_up);

    got = VF_FETCH_PIXEL (&vf_image, (int) in_x, (int) in_y);

    raw = SF_RAW (VF, VF_ROWBYTES (in_up, in_y), in_x);
    VH_CHECK ("fetch_pixel.is_widen_of_raw", got == VF_SPEC_FETCH (raw));
    VH_CHECK ("fetch_pixel.memory_unchanged", VF_MEM[in_gw] == in_mem[in_gw]);
    VF_CHECK_ACC (in_mem, in_gw);
    VH_END ();
}
