/* C10 (3): round trip through the real accessors of one direct-colour format, one pixel at x.
 *   VF_MODE 0  fetch (store (v)) == WIDEN_<f> (NARROW_<f> (v))   for every a8r8g8b8 value v
 *              (so: a value already of the form WIDEN (p) comes back unchanged — see lemmas.c —
 *               absent alpha reads back 0xff, absent colour 0)
 *   VF_MODE 1  store (fetch (p)) == p on the format's defined bits, for every raw pixel p
 * Loop bound: width 1 (the one pixel); every x in the row, every old memory content.
 */
#include "fmt_common.h"

void harness (void)
{
    VF_IN_ARRAY (vh_u32, in_mem, VF_WORDS);
    VF_DECL_DECOY;
    VH_IN (vh_u32, in_v);
    VH_IN (vh_u32, in_x);
    VH_IN (vh_u32, in_y);
    VH_IN (vh_u32, in_up);
    VH_IN (vh_u32, in_gw);
    uint32_t got, raw0, raw1, val[1];

    VH_ASSUME (in_x < VF_NPIX && in_y < VF_ROWS && in_up <= 1 && in_gw < VF_WORDS);
    VF_SETUP (in_mem, in_up);

#if VF_MODE == 0
    val[0] = in_v;
    VF_STORE_SCANLINE (&vf_image, (int) in_x, (int) in_y, 1, val);
    got = VF_FETCH_PIXEL (&vf_image, (int) in_x, (int) in_y);
    VH_CHECK ("roundtrip.fetch_of_store_is_widen_of_narrow", got == SF_WIDEN_PIX (VF, SF_NARROW_PIX (VF, in_v)));
#else
    raw0 = SF_RAW (VF, VF_ROWBYTES (in_up, in_y), in_x);
    val[0] = VF_FETCH_PIXEL (&vf_image, (int) in_x, (int) in_y);
    VF_STORE_SCANLINE (&vf_image, (int) in_x, (int) in_y, 1, val);
    raw1 = SF_RAW (VF, VF_ROWBYTES (in_up, in_y), in_x);
    VH_CHECK ("roundtrip.store_of_fetch_is_identity_on_defined_bits", (raw1 & VF_DEFMASK) == (raw0 & VF_DEFMASK));
#endif
    VF_CHECK_ACC (in_mem, in_gw);
    VH_END ();
}
