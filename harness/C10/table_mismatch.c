/* C10 sentinel: built only when props/C10.py found a discrepancy between its
 * FORMATS table and the accessors[] / MAKE_ACCESSORS list of the pixman-access.c
 * under check.  It can never be built: the job is UNDECIDED and bin/check exits 2
 * (a format nobody wrote obligations for must not pass silently).
 */
#include "vh.h"
#ifdef VF_TABLE_PROBLEM
#error "C10 format table mismatch (see job note / VF_TABLE_PROBLEM): extend FORMATS in props/C10.py and spec/spec_format.h"
#endif
void harness (void)
{
    VH_END ();
}
