/* C10 route D (lead): UNBOUNDED scanline contracts on the macro-generated fetch_scanline_<f> /
 * store_scanline_<f> of the real pixman-access.c: any width up to the row capacity, any x,
 * function contract enforced by goto-instrument --dfcc, row loop closed by a loop invariant
 * (props/C10.py) instead of unrolling.
 *   -DVF=<format>  -DVD_STORE=0|1
 * fetch:  buffer[gk] == WIDEN (raw pixel x+gk)         for a ghost index gk < width; buffer[width] unchanged
 * store:  raw pixel x+gk, defined bits == NARROW (values[gk]); ghost BIT gb of the row outside
 *         [x, x+width)*bpp unchanged  (sub-byte neighbours, row padding)
 * Row: VD_ROWWORDS 32-bit words, y == 0.
 */
#include "pixman-access.c"
#include "spec_format.h"
#include "vh.h"

#ifndef VD_ROWWORDS
#define VD_ROWWORDS 4096
#endif
#define VD_BPP SF_BPP (VF)
#define VD_NPIX ((VD_ROWWORDS * 32) / VD_BPP)
#define VD_CAT2(a, b) a##b
#define VD_CAT(a, b) VD_CAT2 (a, b)

int gk;        /* ghost pixel index */
unsigned gb;   /* ghost bit index in the row (store frame) */

#if !VD_STORE
#define VD_FN VD_CAT (fetch_scanline_, VF)
void VD_CAT (ct_fetch_scanline_, VF) (bits_image_t *image, int x, int y, int width, uint32_t *buffer, const uint32_t *mask)
__CPROVER_requires (__CPROVER_is_fresh (image, sizeof (bits_image_t)))
__CPROVER_requires (__CPROVER_is_fresh (image->bits, VD_ROWWORDS * 4))
__CPROVER_requires (y == 0 && 0 <= width && 0 <= x && x <= VD_NPIX && width <= VD_NPIX - x)
__CPROVER_requires (__CPROVER_is_fresh (buffer, 4 * (width + 1)))
__CPROVER_requires (0 <= gk && gk < width)
__CPROVER_assigns (__CPROVER_object_whole (buffer))
__CPROVER_ensures (buffer[gk] == SF_WIDEN_PIX (VF, SF_RAW (VF, (const uint8_t *) image->bits, x + gk)))
__CPROVER_ensures (buffer[width] == __CPROVER_old (buffer[width]))
;
#else
#define VD_FN VD_CAT (store_scanline_, VF)
void VD_CAT (ct_store_scanline_, VF) (bits_image_t *image, int x, int y, int width, const uint32_t *values)
__CPROVER_requires (__CPROVER_is_fresh (image, sizeof (bits_image_t)))
__CPROVER_requires (__CPROVER_is_fresh (image->bits, VD_ROWWORDS * 4))
__CPROVER_requires (y == 0 && 0 <= width && 0 <= x && x <= VD_NPIX && width <= VD_NPIX - x)
__CPROVER_requires (__CPROVER_is_fresh (values, 4 * (width + 1)))
__CPROVER_requires (0 <= gk && gk < width && gb < VD_ROWWORDS * 32u)
__CPROVER_assigns (__CPROVER_object_whole (image->bits))
__CPROVER_ensures ((SF_RAW (VF, (const uint8_t *) image->bits, x + gk) & SF_DEFMASK (VF)) == SF_NARROW_PIX (VF, values[gk]))
/* (cbmc cannot take __CPROVER_old of an expression with &: take the old BYTE and select the bit outside) */
__CPROVER_ensures ((gb >= (unsigned) x * VD_BPP && gb < (unsigned) (x + width) * VD_BPP) ||
                   ((((const uint8_t *) image->bits)[gb >> 3] >> (gb & 7)) & 1) ==
                   ((__CPROVER_old (((const uint8_t *) image->bits)[gb >> 3]) >> (gb & 7)) & 1))
;
#endif

void harness (void)
{
    bits_image_t *image;
    int x, y, width;
    uint32_t *buf;
#if !VD_STORE
    const uint32_t *mask;
    VD_FN (image, x, y, width, buf, mask);
#else
    VD_FN (image, x, y, width, buf);
#endif
    VH_END ();
}
