/* C10 (6): setup_accessors installs, for an image of format PIXMAN_<f>, exactly the <f> accessors
 * (the accessors[] row of that format), and nothing for a format that is not in the table.
 *   -DVF_FORMATS="X(a8r8g8b8) X(x8r8g8b8) ..."   generated from props/C10.py
 *   -DVF_ACC: the accessor build's table (pixman-access-accessors.c) and
 *             _pixman_bits_image_setup_accessors_accessors
 * Direct build additionally: _pixman_bits_image_setup_accessors goes to the accessor build's entry point
 * exactly when read_func or write_func is set (the other TU's entry point is a recording stub here).
 * The table walk is unrolled over the real table (unwinding assertion = the table has an end marker).
 */
#ifdef VF_ACC
#include "pixman-access-accessors.c"
#else
#include "pixman-access.c"
#endif
#include "vh.h"
#define VF_OWN_ACC_ENTRY 1
#include "link_stubs.h"

#ifndef VF_ACC
static int vf_acc_entry_calls;
void _pixman_bits_image_setup_accessors_accessors (bits_image_t *image)
{
    vf_acc_entry_calls++;
}
static uint32_t vf_rd (const void *p, int n) { return 0; }
static void vf_wr (void *p, uint32_t v, int n) { }
#endif

static bits_image_t img;

#define X(f)                                                                                        \
    memset (&img, 0, sizeof img);                                                                   \
    img.format = PIXMAN_##f;                                                                        \
    VF_ENTRY (&img);                                                                                \
    VH_CHECK ("dispatch." #f ".fetch_scanline_32", img.fetch_scanline_32 == fetch_scanline_##f);    \
    VH_CHECK ("dispatch." #f ".fetch_pixel_32", img.fetch_pixel_32 == fetch_pixel_##f);             \
    VH_CHECK ("dispatch." #f ".store_scanline_32", img.store_scanline_32 == store_scanline_##f);    \
    VH_CHECK ("dispatch." #f ".float_paths_are_the_generic_ones",                                   \
              img.fetch_scanline_float == fetch_scanline_generic_float &&                           \
              img.fetch_pixel_float == fetch_pixel_generic_float &&                                 \
              img.store_scanline_float == store_scanline_generic_float);

void harness (void)
{
#if VF_PART == 0
#ifdef VF_ACC
#define VF_ENTRY _pixman_bits_image_setup_accessors_accessors
#else
#define VF_ENTRY _pixman_bits_image_setup_accessors
#endif
    VF_FORMATS
#ifndef VF_ACC
    VH_CHECK ("dispatch.direct_images_never_enter_accessor_build", vf_acc_entry_calls == 0);
#endif
#else
    /* callbacks set => the accessor build's entry point, and the direct table installs nothing */
    VH_IN (vh_u32, in_which);
    VH_ASSUME (in_which >= 1 && in_which <= 3);
    memset (&img, 0, sizeof img);
    img.format = PIXMAN_a8r8g8b8;
    if (in_which & 1) img.read_func = vf_rd;
    if (in_which & 2) img.write_func = vf_wr;
    _pixman_bits_image_setup_accessors (&img);
    VH_CHECK ("dispatch.callbacks_select_accessor_build", vf_acc_entry_calls == 1);
    VH_CHECK ("dispatch.callbacks_direct_accessors_not_installed",
              img.fetch_scanline_32 == 0 && img.fetch_pixel_32 == 0 && img.store_scanline_32 == 0);
    /* a format code that is in no row: nothing installed */
    memset (&img, 0, sizeof img);
    img.format = (pixman_format_code_t) 0x12345678;
    _pixman_bits_image_setup_accessors (&img);
    VH_CHECK ("dispatch.unknown_format_installs_nothing", img.fetch_scanline_32 == 0 && img.store_scanline_32 == 0);
#endif
    VH_END ();
}
