/* C10 (extension msc): the glue between the float pipeline and the narrow accessors (pixman-access.c):
 *   VM_FN 0  store_scanline_generic_float   argb_t scanline -> pixman_contract_from_float -> image->store_scanline_32
 *   VM_FN 1  fetch_scanline_generic_float   image->fetch_scanline_32 -> pixman_expand_to_float in place
 *   VM_FN 2  fetch_pixel_generic_float      image->fetch_pixel_32 -> pixman_expand_to_float (1 pixel)
 *   VM_FN 3  fetch_pixel_generic_lossy_32   image->fetch_pixel_float -> pixman_contract_from_float (1 pixel)
 *   VM_FN 4  pixman_contract_from_float itself, width <= VM_W, against the contract the call-site stub assumes
 *   VM_FN 5  pixman_expand_to_float itself (in place, as the glue calls it), width <= VM_W, same
 *   VM_FN 6  readers agree: fetch_scanline_generic_float (real converter, width <= VM_W) and fetch_pixel_generic_float
 *            deliver the same wide pixel for the same narrow pixel, for the format VM_FMT (e.g. PIXMAN_r5g6b5) or any
 *            narrow format code; and the widening is exact at the ends: a channel of all ones reads 1.0, of zeros 0.0,
 *            absent alpha reads 1.0 (property text)
 * Real code: pixman-access.c AND pixman-utils.c in this TU (real pixman_malloc_ab, real converters).
 *
 * The accessors behind the function pointers of the image (store_scanline_32, fetch_scanline_32, fetch_pixel_32,
 * fetch_pixel_float) are RECORDING STUBS (their own contracts: the per-format C10 jobs).  Statement for a ghost
 * pixel k (input in_gk) of the scanline and a ghost destination position gx (input in_gx, any int):
 *   store.every_position_stored_exactly_once   the union of the store_scanline_32 calls covers [x, x+width) exactly
 *                                              once and nothing else: #calls covering gx == (x <= gx < x+width)
 *   store.pixel_is_contracted_source_pixel     the word handed over for destination x+k is contract (values[k])
 *   store.calls_target_same_image_and_row, store.run_readable, store.source_scanline_unchanged
 *   store.allocation_failure_stores_nothing    failed allocation (vh_alloc.h, in_failmask) => no call at all
 *   --memory-leak-check + alloc.every_block_freed: nothing leaked
 *
 * VM_FN 0/1: the two scanline converters are replaced AT THE GLUE'S CALL SITES by their contract
 *      pixman_contract_from_float (dst, src, w):  pre  src run is a pixel-aligned part of the scanline, dst run writable
 *                                                 post dst[i] == contract (src[i]) for i < w, nothing else written
 * Because a 600-pixel scanline with symbolic indices exhausts the solver (measured: > 14 GB / > 900 s) the verifier
 * build tracks this by CELL IDENTITY instead of by value: the stub records the address of the destination cell
 * that now holds contract (values[k]) (and forgets it when a later call overwrites that cell with another pixel);
 * the store stub demands that the word it is handed for destination x+k IS that cell.  No array is read or written
 * in the verifier build; run bounds are checked with __CPROVER_r_ok / __CPROVER_w_ok.  What contract () computes is
 * VM_FN 4 (the real converter, ghost index, one channel per query, against the closed form written from the
 * property text: f >= 1: 255, f <= 0: 0, else floor (256 f)).
 * The NATIVE build (replay) runs the real converters and compares VALUES: scanline = 0.0 everywhere except pixel k.
 * Width: symbolic 1..VM_W (600: a chunk loop of 256 would need three rounds).
 */
#include "vh.h"
#include <stdlib.h>
#include "vh_alloc.h"

#ifndef VM_FN
#define VM_FN 0
#endif
#ifndef VM_W
#define VM_W 600
#endif
#ifndef VM_CH
#define VM_CH 0
#endif

#if VM_FN < 2
#define pixman_contract_from_float msc_contract_site
#define pixman_expand_to_float     msc_expand_site
#endif
#include "pixman-access.c"
#undef pixman_contract_from_float
#undef pixman_expand_to_float
#include "pixman-utils.c"

#if !defined (VF_ACC)
void _pixman_bits_image_setup_accessors_accessors (bits_image_t *image) { __CPROVER_assert (0, "stub.unreachable"); }
#endif

/* closed form of the 8-bit narrowing of a float channel (property text: 0 -> 0, 1 -> max, clamped, the most
 * significant 8 bits of the fraction kept) */
#define MSC_U8(f)  ((f) >= 1.0f ? 255u : (f) <= 0.0f ? 0u : (uint32_t) ((f) * 256.0f))

static bits_image_t img;
static argb_t  vals[VM_W + 1];           /* the wide scanline (VM_FN 0, 4); [VM_W] guard */
static uint32_t nbuf[4 * (VM_W + 1)];    /* fetch buffer: width argb_t = 4*width words (VM_FN 1, 4, 5) */
static int  g_k;                         /* ghost pixel index in the scanline */
static long g_x;                         /* ghost destination position */
static int  q_x0, q_y0, q_w0;
static argb_t ghost;

/* ---------------------------------------------------------------- converter contracts at the glue's call sites */
static int site_calls, site_bad;
static const void *src_base;             /* start of the scanline the source runs must lie in */
static int src_pixels;                   /* its length in pixels */
static const uint32_t *cell_k;           /* the cell that holds contract (values[k]); 0 = none */
static int f_calls, f_bad;

#if VM_FN < 2
void msc_contract_site (uint32_t *dst, const argb_t *src, int width)
{
    long off = (const char *) src - (const char *) src_base;
    int first;
    site_calls++;
    VH_CHECK ("contract.pre.source_run_is_pixel_aligned_part_of_the_scanline",
              width >= 0 && off >= 0 && off % (long) sizeof (argb_t) == 0 && off / (long) sizeof (argb_t) + width <= src_pixels);
    first = (int) (off / (long) sizeof (argb_t));
#ifdef VH_CBMC
    VH_CHECK ("contract.pre.destination_run_writable", width == 0 || __CPROVER_w_ok (dst, (size_t) width * sizeof (uint32_t)));
#define MSC_SAME_BLOCK(p, q) __CPROVER_same_object (p, q)
#else
    pixman_contract_from_float (dst, src, width);
#define MSC_SAME_BLOCK(p, q) 1
#endif
    if (first <= g_k && g_k < first + width)
        cell_k = dst + (g_k - first);                        /* this cell now holds contract (values[k]) */
    else if (cell_k != (const uint32_t *) 0 && MSC_SAME_BLOCK (cell_k, dst) && dst <= cell_k && cell_k < dst + width)
        cell_k = (const uint32_t *) 0;                       /* ... overwritten with another pixel's word */
}

void msc_expand_site (argb_t *dst, const uint32_t *src, pixman_format_code_t format, int width)
{
    site_calls++;
    /* in place over the whole fetched run, with the image's format, after the narrow fetcher has filled the run */
    if (!((const void *) dst == (const void *) src && (const void *) src == src_base && width == src_pixels &&
          format == img.format && f_calls == 1))
        site_bad = 1;
#ifndef VH_CBMC
    pixman_expand_to_float (dst, src, format, width);
#endif
}
#endif

/* ---------------------------------------------------------------- recording accessor stubs */
static int st_calls, st_hits, st_bad, st_k_hits, st_k_ok;

static void rec_store32 (bits_image_t *image, int x, int y, int width, const uint32_t *v)
{
    st_calls++;
    if (image != &img || y != q_y0 || width < 0)
        st_bad = 1;
#ifdef VH_CBMC
    VH_CHECK ("store.run_readable", width <= 0 || __CPROVER_r_ok (v, (size_t) width * sizeof (uint32_t)));
#endif
    if ((long) x <= g_x && g_x < (long) x + width)
        st_hits++;
    if ((long) x <= (long) q_x0 + g_k && (long) q_x0 + g_k < (long) x + width)
    {
        st_k_hits++;
        if (cell_k != (const uint32_t *) 0 && v + ((long) q_x0 + g_k - x) == cell_k)
        {
#ifdef VH_CBMC
            st_k_ok++;
#else
            uint32_t word;                                   /* native: the value too */
            pixman_contract_from_float (&word, &ghost, 1);
            if (v[(long) q_x0 + g_k - x] == word)
                st_k_ok++;
#endif
        }
    }
}

static uint32_t p32_val;
static void rec_fetch32 (bits_image_t *image, int x, int y, int width, uint32_t *buffer, const uint32_t *mask)
{
    f_calls++;
    if (image != &img || x != q_x0 || y != q_y0 || width != q_w0 || buffer != nbuf || mask != (const uint32_t *) 0 || site_calls != 0)
        f_bad = 1;
#if VM_FN == 6
    {
        int i;
        for (i = 0; i < VM_W; i++)
            if (i < width)
                buffer[i] = p32_val * 0x9e3779b9u + (uint32_t) i;
        if (0 <= g_k && g_k < width)
            buffer[g_k] = p32_val;                 /* the narrow pixel at position x + k */
    }
#elif !defined (VH_CBMC)
    {
        int i;
        for (i = 0; i < width; i++)
            buffer[i] = 0x01020304u * (uint32_t) (i + 1);
    }
#endif
}

static int p32_calls, p32_bad;
static uint32_t rec_fetch_pixel32 (bits_image_t *image, int offset, int line)
{
    p32_calls++;
    if (image != &img || offset != q_x0 + (VM_FN == 6 ? g_k : 0) || line != q_y0)
        p32_bad = 1;
    return p32_val;
}
static argb_t pf_val; static int pf_calls, pf_bad;
static argb_t rec_fetch_pixel_float (bits_image_t *image, int offset, int line)
{
    pf_calls++;
    if (image != &img || offset != q_x0 || line != q_y0)
        pf_bad = 1;
    return pf_val;
}

#define NOT_NAN4(a, r, g, b) ((a) == (a) && (r) == (r) && (g) == (g) && (b) == (b))

void harness (void)
{
    VH_IN (vh_i32, in_x); VH_IN (vh_i32, in_y); VH_IN (vh_i32, in_width);
    VH_IN (vh_i32, in_gk); VH_IN (vh_i32, in_gx);
    VH_IN (vh_f32, in_a); VH_IN (vh_f32, in_r); VH_IN (vh_f32, in_g); VH_IN (vh_f32, in_b);
    VH_IN (vh_u32, in_pix); VH_IN (vh_u32, in_format); VH_IN (vh_u32, in_failmask);
    argb_t one;
    uint32_t word;
    int i;

    VH_ASSUME (in_width >= 1 && in_width <= VM_W);
    /* destination positions stay inside int (an image row) */
    VH_ASSUME (in_x >= -(1 << 20) && in_x <= (1 << 20));
    /* float -> integer conversion of NaN is undefined (C10 assumption, props/C10.py utils.float_clamp) */
    VH_ASSUME (NOT_NAN4 (in_a, in_r, in_g, in_b));
    /* a narrow format's code: channel sizes are plain 4-bit fields (no size scaling as in the float formats) */
    VH_ASSUME (((in_format >> 22) & 3u) == 0);
    /* ... of at most 8 bits each (every format that has no float accessors of its own; wider channels would shift by a
     * negative amount in pixman_expand_to_float, which expects a8r8g8b8-positioned channels) */
    VH_ASSUME (((in_format >> 12) & 15u) <= 8 && ((in_format >> 8) & 15u) <= 8 && ((in_format >> 4) & 15u) <= 8 && (in_format & 15u) <= 8);
    ghost.a = in_a; ghost.r = in_r; ghost.g = in_g; ghost.b = in_b;
    memset (&img, 0, sizeof img);
    img.common.type = BITS;
    img.format = (pixman_format_code_t) in_format;
    q_x0 = in_x; q_y0 = in_y; q_w0 = in_width; g_k = in_gk; g_x = in_gx;
    vh_failmask = in_failmask;

#if VM_FN == 0
    VH_ASSUME (in_gk >= 0 && in_gk < in_width);
#ifndef VH_CBMC
    vals[in_gk] = ghost;                          /* native: every other pixel of the scanline is 0.0 */
#endif
    src_base = vals; src_pixels = in_width;
    img.store_scanline_32 = rec_store32;

    store_scanline_generic_float (&img, in_x, in_y, in_width, (const uint32_t *) vals);

    if (vh_alloc_failed)
        VH_CHECK ("store.allocation_failure_stores_nothing", st_calls == 0);
    else
    {
        VH_CHECK ("store.every_position_stored_exactly_once",
                  st_hits == (((long) in_x <= (long) in_gx && (long) in_gx < (long) in_x + in_width) ? 1 : 0));
        VH_CHECK ("store.calls_target_same_image_and_row", st_calls >= 1 && !st_bad);
        VH_CHECK ("store.pixel_is_contracted_source_pixel", st_k_hits == 1 && st_k_ok == 1);
    }
#ifndef VH_CBMC
    VH_CHECK ("store.source_scanline_unchanged", vals[in_gk].a == ghost.a && vals[in_gk].r == ghost.r && vals[in_gk].g == ghost.g &&
              vals[in_gk].b == ghost.b);
#endif
    VH_CHECK ("alloc.every_block_freed", vh_free_calls == vh_alloc_calls - vh_alloc_failed);
#elif VM_FN == 1
    VH_ASSUME (in_gk >= 0 && in_gk < in_width);
    src_base = nbuf; src_pixels = in_width;
    img.fetch_scanline_32 = rec_fetch32;

    fetch_scanline_generic_float (&img, in_x, in_y, in_width, nbuf, (const uint32_t *) 0);

    VH_CHECK ("fetch.narrow_fetcher_called_once_first_for_the_same_run", f_calls == 1 && !f_bad);
    VH_CHECK ("fetch.converter_applied_once_in_place_to_the_fetched_run_with_the_image_format", site_calls == 1 && !site_bad);
#ifndef VH_CBMC
    word = 0x01020304u * (uint32_t) (in_gk + 1);
    pixman_expand_to_float (&one, &word, img.format, 1);
    {
        argb_t got = ((argb_t *) nbuf)[in_gk];
        VH_CHECK ("fetch.pixel_is_expanded_narrow_pixel", got.a == one.a && got.r == one.r && got.g == one.g && got.b == one.b);
    }
#endif
#elif VM_FN == 2
    img.fetch_pixel_32 = rec_fetch_pixel32;
    p32_val = in_pix;
    {
        argb_t got = fetch_pixel_generic_float (&img, in_x, in_y);
        word = in_pix;
        pixman_expand_to_float (&one, &word, img.format, 1);
        VH_CHECK ("fetch_pixel.narrow_reader_called_once_same_position", p32_calls == 1 && !p32_bad);
        /* (== on floats: the converter never produces NaN from an integer channel) */
        VH_CHECK ("fetch_pixel.is_expanded_narrow_pixel", got.a == one.a && got.r == one.r && got.g == one.g && got.b == one.b);
    }
#elif VM_FN == 3
    img.fetch_pixel_float = rec_fetch_pixel_float;
    pf_val = ghost;
    {
        uint32_t got = fetch_pixel_generic_lossy_32 (&img, in_x, in_y);
        pixman_contract_from_float (&word, &ghost, 1);
        VH_CHECK ("lossy_pixel.wide_reader_called_once_same_position", pf_calls == 1 && !pf_bad);
        VH_CHECK ("lossy_pixel.is_contracted_wide_pixel", got == word);
    }
#elif VM_FN == 4
    /* the real pixman_contract_from_float against the contract msc_contract_site assumes */
    VH_ASSUME (in_gk >= 0 && in_gk < in_width);
    vals[in_gk] = ghost;
    for (i = 0; i <= VM_W; i++)
        nbuf[i] = 0xa5a5a5a5u;
    pixman_contract_from_float (nbuf, vals, in_width);
    /* one channel per query (VM_CH 0 b, 1 g, 2 r, 3 a) */
    VH_CHECK ("contract.pixel_k_channel_is_narrowed_source_channel",
              ((nbuf[in_gk] >> (8 * VM_CH)) & 0xffu) == (VM_CH == 3 ? MSC_U8 (ghost.a) : VM_CH == 2 ? MSC_U8 (ghost.r) : VM_CH == 1 ? MSC_U8 (ghost.g) : MSC_U8 (ghost.b)));
    VH_CHECK ("contract.writes_only_the_run", nbuf[in_width] == 0xa5a5a5a5u);
    VH_CHECK ("contract.source_unchanged", vals[in_gk].a == ghost.a && vals[in_gk].r == ghost.r && vals[in_gk].g == ghost.g && vals[in_gk].b == ghost.b);
#elif VM_FN == 5
    /* the real pixman_expand_to_float, in place, against the contract msc_expand_site assumes: pixel k of the result
     * is the expansion of (only) pixel k of the input, whatever the other pixels are */
    VH_ASSUME (in_gk >= 0 && in_gk < in_width);
    for (i = 0; i < VM_W; i++)
        nbuf[i] = in_pix * 0x9e3779b9u + (uint32_t) i * 0x01000193u;
    nbuf[in_gk] = in_pix;
    nbuf[4 * VM_W] = 0xfeedfaceu;
    pixman_expand_to_float ((argb_t *) nbuf, nbuf, img.format, in_width);
    word = in_pix;
    {
        argb_t got = ((argb_t *) nbuf)[in_gk];
        pixman_expand_to_float (&one, &word, img.format, 1);
        VH_CHECK ("expand.in_place_pixel_k_is_expanded_source_pixel_k", got.a == one.a && got.r == one.r && got.g == one.g && got.b == one.b);
        VH_CHECK ("expand.writes_only_the_run", nbuf[4 * VM_W] == 0xfeedfaceu);
    }
#elif VM_FN == 6
    VH_ASSUME (in_gk >= 0 && in_gk < in_width);
#ifdef VM_FMT
    img.format = VM_FMT;
#endif
    img.fetch_scanline_32 = rec_fetch32;
    img.fetch_pixel_32 = rec_fetch_pixel32;
    p32_val = in_pix;
    fetch_scanline_generic_float (&img, in_x, in_y, in_width, nbuf, (const uint32_t *) 0);
    {
        argb_t got = ((argb_t *) nbuf)[in_gk];
        argb_t single = fetch_pixel_generic_float (&img, in_x + in_gk, in_y);
        /* a format without any a/r/g/b size (YUV) delivers, and is expanded as, a8r8g8b8 */
        pixman_format_code_t vf = (img.format & 0xffff) ? img.format : PIXMAN_a8r8g8b8;
        int as = PIXMAN_FORMAT_A (vf), rs = PIXMAN_FORMAT_R (vf), gs = PIXMAN_FORMAT_G (vf), bs = PIXMAN_FORMAT_B (vf);
        /* the narrow pixel arrives in a8r8g8b8 position: channel c of size n occupies the top n bits of its byte */
        uint32_t av = as ? (in_pix >> (32 - as)) & ((1u << as) - 1u) : 0, rv = rs ? (in_pix >> (24 - rs)) & ((1u << rs) - 1u) : 0;
        uint32_t gv = gs ? (in_pix >> (16 - gs)) & ((1u << gs) - 1u) : 0, bv = bs ? (in_pix >> (8 - bs)) & ((1u << bs) - 1u) : 0;
        VH_CHECK ("readers_agree.stubs_called_for_the_same_pixel", f_calls == 1 && !f_bad && p32_calls == 1 && !p32_bad);
        VH_CHECK ("readers_agree.scanline_equals_single_pixel", got.a == single.a && got.r == single.r && got.g == single.g && got.b == single.b);
        VH_CHECK ("widening.absent_alpha_reads_one_absent_colour_zero",
                  (as != 0 || single.a == 1.0f) && (rs != 0 || single.r == 0.0f) && (gs != 0 || single.g == 0.0f) && (bs != 0 || single.b == 0.0f));
        VH_CHECK ("widening.zero_reads_zero", (as == 0 || av != 0 || single.a == 0.0f) && (rs == 0 || rv != 0 || single.r == 0.0f) &&
                  (gs == 0 || gv != 0 || single.g == 0.0f) && (bs == 0 || bv != 0 || single.b == 0.0f));
        VH_CHECK ("widening.maximum_reads_one", (as == 0 || av != (1u << as) - 1u || single.a == 1.0f) && (rs == 0 || rv != (1u << rs) - 1u || single.r == 1.0f) &&
                  (gs == 0 || gv != (1u << gs) - 1u || single.g == 1.0f) && (bs == 0 || bv != (1u << bs) - 1u || single.b == 1.0f));
        VH_CHECK ("widening.in_unit_interval", single.a >= 0.0f && single.a <= 1.0f && single.r >= 0.0f && single.r <= 1.0f &&
                  single.g >= 0.0f && single.g <= 1.0f && single.b >= 0.0f && single.b <= 1.0f);
    }
#endif
    VH_END ();
}
