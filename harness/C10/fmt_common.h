/* fmt_common.h — shared set-up of the C10 per-format harnesses.
 *
 *   -DVF=<format name>         one of the MAKE_ACCESSORS formats (a8r8g8b8, ..., g1)
 *   -DVF_NPIX=<n>              pixels per row of the test image
 *   -DVF_ACC                   accessor build: the REAL pixman-access-accessors.c
 *                              (= pixman-access.c with PIXMAN_FB_ACCESSORS) is the
 *                              code under check, read_func/write_func bound to the
 *                              stubs below
 *
 * The image is built by hand: two rows of VF_ROWW words (pixels + one padding
 * word), bits/rowstride either top-down or bottom-up (negative rowstride).
 *
 * Direct build: image->bits points at the pixel memory in_mem[].
 * Accessor build: image->bits points at a DECOY area (arbitrary content in_decoy[],
 * so in particular different from the pixel data); the pixel memory proper lives VF_WORDS words
 * further up and is reachable only through read_func/write_func, which add
 * that displacement (a memory-faithful model of a mapped frame buffer).  Any
 * access that bypasses the callbacks reads decoy data or writes into the
 * decoy (both are obligations), so "behaves identically through callbacks"
 * also means "every access goes through the callbacks".
 */
#ifndef VF_COMMON_H
#define VF_COMMON_H

#ifdef VF_ACC
#include "pixman-access-accessors.c"
#else
#include "pixman-access.c"
#endif
#include "spec_format.h"
#include "vh.h"
#include "link_stubs.h"

#define VF_CAT2(a, b) a##b
#define VF_CAT(a, b) VF_CAT2 (a, b)
#define VF_FETCH_PIXEL    VF_CAT (fetch_pixel_, VF)
#define VF_FETCH_SCANLINE VF_CAT (fetch_scanline_, VF)
#define VF_STORE_SCANLINE VF_CAT (store_scanline_, VF)
#define VF_PIXMAN_CODE    VF_CAT (PIXMAN_, VF)

#define VF_BPP     SF_BPP (VF)
#define VF_ROWBITS (VF_NPIX * VF_BPP)
#define VF_ROWW    ((VF_ROWBITS + 31) / 32 + 1)   /* words per row, one padding word */
#define VF_ROWS    2
#define VF_WORDS   (VF_ROWW * VF_ROWS)
#define VF_BITS    (VF_WORDS * 32)

/* array inputs: nondeterministic under CBMC, taken from the counterexample natively */
#ifdef VH_CBMC
#define VF_IN_ARRAY(type, name, n) type name[n]
#else
#define VF_IN_ARRAY(type, name, n)                                         \
    type name[n];                                                          \
    do { int i_; char b_[64];                                              \
         for (i_ = 0; i_ < (int) (n); i_++) {                              \
             snprintf (b_, sizeof b_, "%s[%d]", #name, i_);                \
             name[i_] = (type) VH_GET_I (b_); } } while (0)
#endif

/* ---- palette for the indexed formats ----
 * read side (fetch jobs): one never-written nondeterministic pixman_indexed_t = every palette
 *   (native replay uses a palette in which different indices give different entries).
 * write side (store jobs, -DVF_PAL_FIXED): a symbolic 32 KB ent[] table does not get through the
 *   SAT back end (> 10 min, 4 GB per query: the code reaches it through a pixman_image_t * cast),
 *   so ent[] is the literal pseudo-random table of palette_fixed.h, identical under CBMC and natively. */
#if SF_KIND (VF) != SF_K_RGB
#define VF_INDEXED 1
#if defined (VH_CBMC) && !defined (VF_PAL_FIXED)
/* one never-written nondeterministic object: every palette */
#define VF_DECL_PAL   pixman_indexed_t vf_pal_any; const pixman_indexed_t *vf_palp = &vf_pal_any
#elif defined (VF_PAL_FIXED)
/* the literal pseudo-random palette of palette_fixed.h, the same under CBMC and natively */
#include "palette_fixed.h"
#define VF_DECL_PAL   const pixman_indexed_t *vf_palp = &vf_pal0
#else
static pixman_indexed_t vf_pal0;
#define VF_DECL_PAL   const pixman_indexed_t *vf_palp = vf_replay_palette ()
static const pixman_indexed_t *vf_replay_palette (void)
{
    /* native replay: a palette in which different indices give different entries */
    int i;
    for (i = 0; i < 256; i++) vf_pal0.rgba[i] = 0x9e3779b1u * (uint32_t) (i + 1);
    for (i = 0; i < 32768; i++) vf_pal0.ent[i] = (uint8_t) (i ^ (i >> 5) ^ (i >> 10));
    return &vf_pal0;
}
#endif
#define vf_pal (*vf_palp)
#define VF_PAL_SETUP() do { vf_image.indexed = vf_palp; } while (0)
#define VF_SPEC_FETCH(raw)  (vf_pal.rgba[(raw)])
#if SF_KIND (VF) == SF_K_GRAY
#define VF_SPEC_STORE(v)    ((uint32_t) vf_pal.ent[SF_KEY_GRAY (v)] & SF_PIXMASK (VF))
#else
#define VF_SPEC_STORE(v)    ((uint32_t) vf_pal.ent[SF_KEY_COLOR (v)] & SF_PIXMASK (VF))
#endif
#define VF_DEFMASK          SF_PIXMASK (VF)
#else
#define VF_INDEXED 0
#define VF_DECL_PAL
#define VF_PAL_SETUP() do { } while (0)
#define VF_SPEC_FETCH(raw)  SF_WIDEN_PIX (VF, raw)
#define VF_SPEC_STORE(v)    SF_NARROW_PIX (VF, v)
#define VF_DEFMASK          SF_DEFMASK (VF)
#endif

/* ---- memory ---- */
#ifdef VF_ACC
static uint32_t vf_area[2 * VF_WORDS];      /* [0, VF_WORDS) decoy, [VF_WORDS, 2 VF_WORDS) pixels */
#define VF_DISP (4 * VF_WORDS)              /* displacement in bytes applied by the callbacks */
static int vf_bad_size;
static uint32_t vf_read (const void *src, int size)
{
    const uint8_t *p = (const uint8_t *) src + VF_DISP;
    switch (size)
    {
    case 1: return *(const uint8_t *) p;
    case 2: return *(const uint16_t *) p;
    case 4: return *(const uint32_t *) p;
    default: vf_bad_size = 1; return 0;
    }
}
static void vf_write (void *dst, uint32_t value, int size)
{
    uint8_t *p = (uint8_t *) dst + VF_DISP;
    switch (size)
    {
    case 1: *(uint8_t *) p = (uint8_t) value; break;
    case 2: *(uint16_t *) p = (uint16_t) value; break;
    case 4: *(uint32_t *) p = value; break;
    default: vf_bad_size = 1; break;
    }
}
#define VF_MEM   (vf_area + VF_WORDS)
#define VF_BASE  vf_area
#else
static uint32_t vf_area[VF_WORDS];
#define VF_MEM   vf_area
#define VF_BASE  vf_area
#endif

/* (a bits_image_t, not the pixman_image_t union: CBMC keeps struct fields such as write_func constant,
 * a union would make every indirect WRITE fan out over all address-taken functions) */
static bits_image_t vf_image;

/* fills the pixel memory from in_mem (and, accessor build, the decoy from in_decoy),
 * builds the image; in_up != 0: bottom-up image.  memcpy, not loops: the only loops
 * left in a job are those of the code under check. */
#ifdef VF_ACC
#define VF_DECL_DECOY VF_IN_ARRAY (vh_u32, in_decoy, VF_WORDS)
#define VF_SETUP(in_mem, in_up)                                                      \
    do { memcpy (VF_MEM, in_mem, 4 * VF_WORDS);                                      \
         memcpy (vf_area, in_decoy, 4 * VF_WORDS);                                   \
         vf_setup_image (in_up); VF_PAL_SETUP (); } while (0)
#else
#define VF_DECL_DECOY
#define VF_SETUP(in_mem, in_up)                                                      \
    do { memcpy (VF_MEM, in_mem, 4 * VF_WORDS);                                      \
         vf_setup_image (in_up); VF_PAL_SETUP (); } while (0)
#endif

static void vf_setup_image (int up)
{
#ifdef VF_ACC
    vf_image.read_func = vf_read;
    vf_image.write_func = vf_write;
#else
    vf_image.read_func = 0;
    vf_image.write_func = 0;
#endif
    vf_image.common.type = BITS;
    vf_image.format = VF_PIXMAN_CODE;
    vf_image.width = VF_NPIX;
    vf_image.height = VF_ROWS;
    if (up)
    {
        vf_image.bits = VF_BASE + (VF_ROWS - 1) * VF_ROWW;
        vf_image.rowstride = -VF_ROWW;
    }
    else
    {
        vf_image.bits = VF_BASE;
        vf_image.rowstride = VF_ROWW;
    }
    vf_image.indexed = 0;
}

/* byte view of image row y in the pixel memory, by the definition of bits/rowstride:
 * row 0 is the first row of memory for a top-down image and the last one for a bottom-up image */
#define VF_ROWBYTES(up, y) ((const uint8_t *) (VF_MEM + ((up) ? (VF_ROWS - 1 - (y)) : (y)) * VF_ROWW))
/* number (in the whole pixel memory) of bit n of row y */
#define VF_MEMBIT(up, y, n) ((((up) ? (VF_ROWS - 1 - (y)) : (y)) * VF_ROWW) * 32 + (n))

/* accessor build only: callbacks were called with sizes 1/2/4 only, and the decoy word gw
 * (any word of the directly addressable area) still holds what the set-up put there */
#ifdef VF_ACC
#define VF_CHECK_ACC(in_mem, gw)                                                              \
    do { VH_CHECK ("acc.callback_sizes_are_1_2_4", !vf_bad_size);                             \
         VH_CHECK ("acc.no_direct_write", vf_area[(gw)] == in_decoy[(gw)]);                    \
    } while (0)
#else
#define VF_CHECK_ACC(in_mem, gw) do { } while (0)
#endif

#endif
