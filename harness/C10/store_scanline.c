/* C10 (2): store_scanline_<f> (image, x, y, width, values)
 *   VF_MODE 0  value: raw pixel x+k of row y, on the format's defined bits, == NARROW_<f> (values[k])
 *                     for the ghost index k < width  (indexed: == low bpp bits of palette.ent[key (values[k])])
 *   VF_MODE 1  frame: the ghost bit gb ANYWHERE in the image memory (both rows, padding words) that is
 *                     not one of the bits [x*bpp, (x+width)*bpp) of row y is unchanged: sub-byte
 *                     neighbours of 1/4-bpp pixels, the bytes next to a 24-bpp pixel, row padding, the
 *                     other row; width 0 changes nothing
 * Row loop unrolled: width <= VF_WMAX (bounded), x + width <= VF_NPIX, every old memory content.
 */
#include "fmt_common.h"

#ifndef VF_WMAX
#define VF_WMAX 8
#endif

void harness (void)
{
    VF_IN_ARRAY (vh_u32, in_mem, VF_WORDS);
    VF_DECL_DECOY;
    VF_DECL_PAL;
    VF_IN_ARRAY (vh_u32, in_val, VF_WMAX);
    VH_IN (vh_u32, in_x);
    VH_IN (vh_u32, in_y);
    VH_IN (vh_u32, in_w);
    VH_IN (vh_u32, in_k);
    VH_IN (vh_u32, in_up);
    VH_IN (vh_u32, in_gw);
    VH_IN (vh_u32, in_gb);
    uint32_t raw, lo, hi;

    VH_ASSUME (in_w <= VF_WMAX && in_x <= VF_NPIX && in_w <= VF_NPIX - in_x);
    VH_ASSUME (in_y < VF_ROWS && in_up <= 1 && in_gw < VF_WORDS && in_gb < VF_BITS);
#if VF_MODE == 0
    VH_ASSUME (in_k < in_w);
#endif
    VF_SETUP (in_mem, in_up);

    VF_STORE_SCANLINE (&vf_image, (int) in_x, (int) in_y, (int) in_w, in_val);

#if VF_MODE == 0
    raw = SF_RAW (VF, VF_ROWBYTES (in_up, in_y), in_x + in_k);
    VH_CHECK ("store_scanline.pixel_is_narrow_of_value", (raw & VF_DEFMASK) == VF_SPEC_STORE (in_val[in_k]));
#else
    lo = VF_MEMBIT (in_up, in_y, in_x * VF_BPP);
    hi = VF_MEMBIT (in_up, in_y, (in_x + in_w) * VF_BPP);
    VH_CHECK ("store_scanline.frame_bit_outside_span_unchanged",
              (lo <= in_gb && in_gb < hi) ||
              SF_BIT ((const uint8_t *) VF_MEM, in_gb) == SF_BIT ((const uint8_t *) in_mem, in_gb));
#endif
    VF_CHECK_ACC (in_mem, in_gw);
    VH_END ();
}
