/* link_stubs.h — native replay only: the accessors[] table of pixman-access.c takes the address of the
 * wide-format accessors, which reference functions of pixman-utils.c.  None of them is called by a C10
 * harness that includes this file; they only have to exist for the linker (CBMC drops unused functions). */
#ifdef VH_REPLAY
uint16_t pixman_float_to_unorm (float f, int n_bits) { abort (); }
float pixman_unorm_to_float (uint16_t u, int n_bits) { abort (); }
void *pixman_malloc_ab (unsigned int a, unsigned int b) { abort (); }
void pixman_expand_to_float (argb_t *dst, const uint32_t *src, pixman_format_code_t format, int width) { abort (); }
void pixman_contract_from_float (uint32_t *dst, const argb_t *src, int width) { abort (); }
#if !defined (VF_ACC) && !defined (VF_OWN_ACC_ENTRY)
void _pixman_bits_image_setup_accessors_accessors (bits_image_t *image) { abort (); }
#endif
#endif
