/* C10 (1b, 4): fetch_scanline_<f> (image, x, y, width, buffer, mask)
 *   buffer[k] == WIDEN_<f> (raw pixel x+k of row y)        for the ghost index k < width
 *   buffer[k] == fetch_pixel_<f> (image, x+k, y)             (scanline reader == single-pixel reader)
 *   buffer[width] (guard word after the output) and the image memory unchanged
 * Row loop unrolled: width <= VF_WMAX (bounded), x + width <= VF_NPIX, every memory content.
 */
#include "fmt_common.h"

#ifndef VF_WMAX
#define VF_WMAX 8
#endif

void harness (void)
{
    VF_IN_ARRAY (vh_u32, in_mem, VF_WORDS);
    VF_DECL_DECOY;
    VF_DECL_PAL;
    VH_IN (vh_u32, in_x);
    VH_IN (vh_u32, in_y);
    VH_IN (vh_u32, in_w);
    VH_IN (vh_u32, in_k);
    VH_IN (vh_u32, in_up);
    VH_IN (vh_u32, in_gw);
    VF_IN_ARRAY (vh_u32, in_buf, VF_WMAX + 1);
    uint32_t buffer[VF_WMAX + 1];
    uint32_t raw, single;

    VH_ASSUME (in_w <= VF_WMAX && in_x <= VF_NPIX && in_w <= VF_NPIX - in_x);
    VH_ASSUME (in_y < VF_ROWS && in_up <= 1 && in_gw < VF_WORDS && in_k < in_w);
    VF_SETUP (in_mem, in_up);
    memcpy (buffer, in_buf, sizeof buffer);

    VF_FETCH_SCANLINE (&vf_image, (int) in_x, (int) in_y, (int) in_w, buffer, (const uint32_t *) 0);

    raw = SF_RAW (VF, VF_ROWBYTES (in_up, in_y), in_x + in_k);
    VH_CHECK ("fetch_scanline.is_widen_of_raw", buffer[in_k] == VF_SPEC_FETCH (raw));
    VH_CHECK ("fetch_scanline.guard_after_width", buffer[in_w] == in_buf[in_w]);
    VH_CHECK ("fetch_scanline.memory_unchanged", VF_MEM[in_gw] == in_mem[in_gw]);
    single = VF_FETCH_PIXEL (&vf_image, (int) (in_x + in_k), (int) in_y);
    VH_CHECK ("fetch_scanline.equals_fetch_pixel", buffer[in_k] == single);
    VF_CHECK_ACC (in_mem, in_gw);
    VH_END ();
}
