/* C10 route D (c10d): UNBOUNDED contracts on the macro-generated fetch_scanline_<f> / store_scanline_<f> of the
 * real pixman-access.c (or, -DVD_ACC, of pixman-access-accessors.c = the same text compiled with
 * PIXMAN_FB_ACCESSORS): any width, any x, function contract enforced by goto-instrument --dfcc, the row loop
 * closed by a loop invariant (props/C10_c10d.py, spec/spec_c10d.h), no unwinding.
 *
 *   -DVF=<format>  -DVD_STORE=0|1  -DVD_ANYROW=0|1  [-DVD_ACC]  [-DVD_MAXBYTES=<n>]
 *
 * fetch:  buffer[g_k] == WIDEN_<f> (raw pixel x+g_k)     (indexed: == indexed->rgba[raw pixel]) for the ghost g_k < width
 *         buffer[width] (guard word) unchanged; assigns nothing but the buffer object (image memory, palette: frame)
 * store:  raw pixel x+g_k, defined bits == NARROW_<f> (values[g_k])   (indexed: == low bpp bits of indexed->ent[key (values[g_k])])
 *         ghost BIT g_fb anywhere in the pixel memory outside [x, x+width)*bpp of row y unchanged (sub-byte neighbours,
 *         the bytes next to a 24-bpp pixel, row padding, the rows before row y); assigns nothing but that object
 *
 * No __CPROVER_old: the pre-state of the ghost byte / guard word / buffer pointer is bound to a free ghost global by
 * an equality in `requires` (goto-instrument --dfcc makes the globals nondeterministic).
 *
 * Pixel memory (one fresh object at image->bits, symbolic size): g_rowoff bytes of rows before row y, then g_rowbytes
 * bytes of row y (ghost, symbolic, a multiple of 4, <= VD_MAXBYTES) into which x + width pixels fit.
 *   VD_ANYROW 0: y == 0 (g_rowoff == 0)
 *   VD_ANYROW 1: 0 <= y <= VD_MAXY, 0 <= rowstride <= VD_MAXSTRIDE words, g_rowoff == 4 * y * rowstride (top-down image)
 * Palette (indexed formats): one fresh object of sizeof (pixman_indexed_t) .. +64 bytes with arbitrary content.  (The size
 * is deliberately not the literal sizeof: a literal makes CBMC type the object as the 33 KB struct and flatten it into one
 * bit vector, and then neither fetch nor store of an indexed format gets through the SAT back end.)
 */
#ifdef VD_ACC
#include "pixman-access-accessors.c"
#else
#include "pixman-access.c"
#endif
#include "spec_c10d.h"
#include "vh.h"

#ifndef VD_MAXBYTES
#define VD_MAXBYTES (1 << 20)
#endif
#define VD_BPP SF_BPP (VF)
#define VD_CAT2(a, b) a##b
#define VD_CAT(a, b) VD_CAT2 (a, b)

int g_k;                    /* ghost pixel index */
unsigned long g_fb;         /* ghost bit number in the whole pixel memory (store frame) */
unsigned char g_fold;       /* byte g_fb / 8 of the pixel memory before the call */
uint32_t *g_buf;            /* fetch: output pointer before the call */
uint32_t g_guard;           /* fetch: word after the output before the call */
const uint32_t *g_rgba;     /* indexed: image->indexed->rgba */
const uint8_t *g_ent;       /* indexed: image->indexed->ent */
unsigned g_rowbytes;        /* bytes of row y available in the object (from the row start to the end of the pixel memory) */
unsigned long g_rowoff;     /* byte offset of row y in the pixel memory == 4 * y * rowstride */
#ifndef VD_MAXY
#define VD_MAXY 32767
#endif
#ifndef VD_MAXSTRIDE
#define VD_MAXSTRIDE 32767
#endif
#define VD_IMGBYTES (g_rowoff + (unsigned long) g_rowbytes)   /* pixel memory: rows 0..y-1 and what there is of row y */
#define VD_ROW(image) (VD_MEM (image) + g_rowoff)
unsigned long g_palbytes;   /* == sizeof (pixman_indexed_t); a ghost instead of the literal so that the palette is an untyped
                             * byte object (array theory) and not a 33 KB struct flattened into one bit vector */

#ifdef VD_ACC
/* Accessor build.  The object at image->bits is TWICE the row: bytes [0, g_rowbytes) are a decoy (arbitrary content),
 * the pixel memory proper is bytes [g_rowbytes, 2 g_rowbytes) and is reachable only through read_func/write_func,
 * which add that displacement (memory-faithful model of a mapped frame buffer, sizes 1/2/4; any other size is an
 * obligation failure).  An access that bypasses the callbacks reads decoy data (value obligation fails) or writes
 * into the decoy (ghost decoy byte g_db / g_dold must be unchanged). */
unsigned long g_db;         /* ghost byte index in the decoy */
unsigned long g_disp;       /* the callbacks' displacement == size of the decoy == size of the pixel memory */
unsigned char g_dold;       /* that decoy byte before the call */
static uint32_t vd_read (const void *src, int size)
{
    const uint8_t *p = (const uint8_t *) src + g_disp;
    switch (size)
    {
    case 1: return *(const uint8_t *) p;
    case 2: return *(const uint16_t *) p;
    case 4: return *(const uint32_t *) p;
    default: __CPROVER_assert (0, "acc.callback_sizes_are_1_2_4"); return 0;
    }
}
static void vd_write (void *dst, uint32_t value, int size)
{
    uint8_t *p = (uint8_t *) dst + g_disp;
    switch (size)
    {
    case 1: *(uint8_t *) p = (uint8_t) value; break;
    case 2: *(uint16_t *) p = (uint16_t) value; break;
    case 4: *(uint32_t *) p = value; break;
    default: __CPROVER_assert (0, "acc.callback_sizes_are_1_2_4"); break;
    }
}
#define VD_OBJBYTES (2ul * VD_IMGBYTES)
#define VD_MEM(image) ((const uint8_t *) (image)->bits + g_disp)
#define VD_REQ_ACC                                                                                  \
    __CPROVER_requires (image->read_func == vd_read && image->write_func == vd_write)               \
    __CPROVER_requires (g_disp == VD_IMGBYTES && g_db < VD_IMGBYTES && ((const uint8_t *) image->bits)[g_db] == g_dold)
#define VD_ENS_ACC __CPROVER_ensures (((const uint8_t *) image->bits)[g_db] == g_dold)
#else
#define VD_OBJBYTES VD_IMGBYTES
#define VD_MEM(image) ((const uint8_t *) (image)->bits)
#define VD_REQ_ACC
#define VD_ENS_ACC
#endif

#if SF_KIND (VF) != SF_K_RGB
#define VD_REQ_PAL                                                              \
    __CPROVER_requires (sizeof (pixman_indexed_t) <= g_palbytes && g_palbytes <= sizeof (pixman_indexed_t) + 64)   \
    __CPROVER_requires (__CPROVER_is_fresh (image->indexed, g_palbytes))                  \
    __CPROVER_requires (g_rgba == image->indexed->rgba && g_ent == image->indexed->ent)
#else
#define VD_REQ_PAL
#endif

#if VD_ANYROW   /* any row y >= 0 of a top-down image (rowstride >= 0 words) */
#define VD_REQ_Y                                                                                                    \
    __CPROVER_requires (0 <= y && y <= VD_MAXY && 0 <= image->rowstride && image->rowstride <= VD_MAXSTRIDE)        \
    __CPROVER_requires (g_rowoff == 4ul * ((unsigned long) y * (unsigned long) image->rowstride))
#else           /* row 0 (3-4x cheaper: no multiplication, constant row offset) */
#define VD_REQ_Y __CPROVER_requires (y == 0 && g_rowoff == 0)
#endif

#define VD_REQ_ROW                                                                                          \
    __CPROVER_requires (__CPROVER_is_fresh (image, sizeof (bits_image_t)))                                  \
    __CPROVER_requires (4 <= g_rowbytes && g_rowbytes <= VD_MAXBYTES && (g_rowbytes & 3u) == 0)             \
    VD_REQ_Y                                                                                                \
    __CPROVER_requires (__CPROVER_is_fresh (image->bits, VD_OBJBYTES))                                     \
    __CPROVER_requires (0 <= width && 0 <= x)                                                               \
    __CPROVER_requires (((unsigned long) x + (unsigned long) width) * VD_BPP <= (unsigned long) g_rowbytes * 8) \
    VD_REQ_ACC VD_REQ_PAL

#if !VD_STORE
#define VD_FN VD_CAT (fetch_scanline_, VF)
void VD_CAT (ct_fetch_scanline_, VF) (bits_image_t *image, int x, int y, int width, uint32_t *buffer, const uint32_t *mask)
VD_REQ_ROW
__CPROVER_requires (__CPROVER_is_fresh (buffer, 4 * ((unsigned long) width + 1)))
__CPROVER_requires (0 <= g_k && g_k < width)
__CPROVER_requires (g_buf == buffer && buffer[width] == g_guard)
__CPROVER_assigns (__CPROVER_object_whole (buffer))
__CPROVER_ensures (SD_FETCH_POST (VF, buffer[g_k], VD_ROW (image), x, g_k, g_rgba))
__CPROVER_ensures (buffer[width] == g_guard)
;   /* (no store: the decoy cannot change, it is not assignable) */
#else
#define VD_FN VD_CAT (store_scanline_, VF)
void VD_CAT (ct_store_scanline_, VF) (bits_image_t *image, int x, int y, int width, const uint32_t *values)
VD_REQ_ROW
__CPROVER_requires (__CPROVER_is_fresh (values, 4 * ((unsigned long) width + 1)))
__CPROVER_requires (0 <= g_k && g_k < width && g_fb < VD_IMGBYTES * 8ul)
__CPROVER_requires (VD_MEM (image)[g_fb >> 3] == g_fold)
__CPROVER_assigns (__CPROVER_object_whole (image->bits))
__CPROVER_ensures (SD_STORE_POST (VF, VD_ROW (image), x, g_k, values[g_k], g_ent))
__CPROVER_ensures (SD_FRAME_AT (VF, VD_MEM (image), g_rowoff, g_fb, g_fold, x, width))
VD_ENS_ACC
;
#endif

#ifdef VD_ACC
/* address taken in program text (not only in the contract): candidates of the indirect READ/WRITE calls */
pixman_read_memory_func_t vd_keep_r = vd_read;
pixman_write_memory_func_t vd_keep_w = vd_write;
#endif

void harness (void)
{
    bits_image_t *image;
    int x, y, width;
    uint32_t *buf;
#if !VD_STORE
    const uint32_t *mask;
    VD_FN (image, x, y, width, buf, mask);
#else
    VD_FN (image, x, y, width, buf);
#endif
    VH_END ();
}
