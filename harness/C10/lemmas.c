/* C10 spec-level lemmas and the link between spec_format.h and pixman.h.
 *   VF_LEMMA 0  per width w in 1..8 (w is an input): WIDEN (0) = 0, WIDEN (max) = 0xff, WIDEN monotone,
 *               NARROW (WIDEN (v)) = v, WIDEN is "bit replication": bit i (from the top) of the result is
 *               bit i mod w (from the top) of v; the literal-width and run-time-width forms agree
 *   VF_LEMMA 1  (with -DVF=<f>) the PIXMAN_<f> code of pixman.h announces the bpp and field widths of
 *               the literal table, and the fields of the table do not overlap and fit in bpp bits
 *   VF_LEMMA 2  (with -DVF=<f>, direct colour) spec-level round trip for every raw pixel p and value v:
 *               NARROW_PIX (WIDEN_PIX (p)) == p on the defined bits;
 *               WIDEN_PIX (NARROW_PIX (WIDEN_PIX (p))) == WIDEN_PIX (p)
 */
#include <stdint.h>
#include <config.h>
#include "pixman.h"
#include "spec_format.h"
#include "vh.h"

#define L_WIDEN_LIT(v, w) ((w) == 1 ? SF_WIDEN (v, 1) : (w) == 2 ? SF_WIDEN (v, 2) : (w) == 3 ? SF_WIDEN (v, 3) : \
                           (w) == 4 ? SF_WIDEN (v, 4) : (w) == 5 ? SF_WIDEN (v, 5) : (w) == 6 ? SF_WIDEN (v, 6) : \
                           (w) == 7 ? SF_WIDEN (v, 7) : SF_WIDEN (v, 8))

void harness (void)
{
#if VF_LEMMA == 0
    VH_IN (vh_u32, in_w);
    VH_IN (vh_u32, in_v);
    VH_IN (vh_u32, in_v2);
    VH_IN (vh_u32, in_i);
    uint32_t max, wv, wv2;

    VH_ASSUME (in_w >= 1 && in_w <= 8 && in_i < 8);
    max = (1u << in_w) - 1u;
    VH_ASSUME (in_v <= max && in_v2 <= max);
    wv = SF_WIDEN_RT (in_v, in_w);
    wv2 = SF_WIDEN_RT (in_v2, in_w);
    VH_CHECK ("lemma.widen_literal_eq_runtime", wv == L_WIDEN_LIT (in_v, in_w));
    VH_CHECK ("lemma.widen_fits_8_bits", wv <= 0xff);
    VH_CHECK ("lemma.widen_zero_is_zero", in_v != 0 || wv == 0);
    VH_CHECK ("lemma.widen_max_is_ff", in_v != max || wv == 0xff);
    VH_CHECK ("lemma.widen_monotone", !(in_v <= in_v2) || wv <= wv2);
    VH_CHECK ("lemma.widen_strictly_monotone", !(in_v < in_v2) || wv < wv2);
    VH_CHECK ("lemma.narrow_of_widen_is_identity", (wv >> (8 - in_w)) == in_v);
    /* bit replication: result bit (7 - i) is bit (w - 1 - i mod w) of v */
    VH_CHECK ("lemma.widen_is_bit_replication",
              ((wv >> (7 - in_i)) & 1u) == ((in_v >> (in_w - 1 - (in_i % in_w))) & 1u));
#elif VF_LEMMA == 1
#define L_CAT2(a, b) a##b
#define L_CAT(a, b) L_CAT2 (a, b)
#define L_CODE L_CAT (PIXMAN_, VF)
    uint32_t ma = SF_MAXV (SF_AW (VF)) << SF_AO (VF), mr = SF_MAXV (SF_RW (VF)) << SF_RO (VF);
    uint32_t mg = SF_MAXV (SF_GW (VF)) << SF_GO (VF), mb = SF_MAXV (SF_BW (VF)) << SF_BO (VF);
    VH_CHECK ("table.bpp_matches_format_code", PIXMAN_FORMAT_BPP (L_CODE) == SF_BPP (VF));
    VH_CHECK ("table.alpha_width_matches_format_code", PIXMAN_FORMAT_A (L_CODE) == SF_AW (VF));
    VH_CHECK ("table.red_width_matches_format_code", PIXMAN_FORMAT_R (L_CODE) == SF_RW (VF));
    VH_CHECK ("table.green_width_matches_format_code", PIXMAN_FORMAT_G (L_CODE) == SF_GW (VF));
    VH_CHECK ("table.blue_width_matches_format_code", PIXMAN_FORMAT_B (L_CODE) == SF_BW (VF));
    VH_CHECK ("table.kind_matches_format_code",
              (SF_KIND (VF) == SF_K_COLOR) == (PIXMAN_FORMAT_TYPE (L_CODE) == PIXMAN_TYPE_COLOR) &&
              (SF_KIND (VF) == SF_K_GRAY) == (PIXMAN_FORMAT_TYPE (L_CODE) == PIXMAN_TYPE_GRAY));
    VH_CHECK ("table.fields_disjoint", (ma & mr) == 0 && (ma & mg) == 0 && (ma & mb) == 0 && (mr & mg) == 0 && (mr & mb) == 0 && (mg & mb) == 0);
    VH_CHECK ("table.fields_inside_pixel", ((ma | mr | mg | mb) & ~SF_PIXMASK (VF)) == 0);
    VH_CHECK ("table.widths_sum_to_depth", SF_AW (VF) + SF_RW (VF) + SF_GW (VF) + SF_BW (VF) == PIXMAN_FORMAT_DEPTH (L_CODE));
#else
    VH_IN (vh_u32, in_p);
    uint32_t p = in_p & SF_PIXMASK (VF);
    uint32_t w = SF_WIDEN_PIX (VF, p);
    uint32_t n = SF_NARROW_PIX (VF, w);
    VH_CHECK ("lemma.narrow_of_widen_is_identity_on_defined_bits", n == (p & SF_DEFMASK (VF)));
    VH_CHECK ("lemma.widen_narrow_widen_is_widen", SF_WIDEN_PIX (VF, n) == w);
    VH_CHECK ("lemma.absent_alpha_reads_ff", SF_AW (VF) != 0 || (w >> 24) == 0xff);
    VH_CHECK ("lemma.absent_colour_reads_0",
              (SF_RW (VF) != 0 || ((w >> 16) & 0xff) == 0) && (SF_GW (VF) != 0 || ((w >> 8) & 0xff) == 0) &&
              (SF_BW (VF) != 0 || (w & 0xff) == 0));
#endif
    VH_END ();
}
