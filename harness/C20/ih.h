/* ih.h — common set-up of the image-object harnesses (C20 lifetime, C14 stale state, C09 flags).
 *
 * The REAL pixman-image.c is #included unmodified, after vh_alloc.h, so that every
 * malloc/free of the code under check is counted and can be made to fail through in_failmask.
 * pixman-region32.c (clip region: init/fini/copy) and pixman-utils.c (pixman_malloc_ab,
 * _pixman_log_error, copy_from_region16) are the real files too, in the same TU for the same reason.
 *
 * Images are built by hand from scalar inputs (one IH_INPUTS (prefix) per image), every field
 * symbolic: type, counts, flags, and for each owned pointer "absent or a fresh heap block".
 * Blocks are obtained with (malloc) — the parenthesised name bypasses vh_alloc's counter — and
 * remembered in a ghost ih_own record, so that postconditions can say which blocks had to be
 * freed, and ih_release () can free what must still be alive (double free = the code freed
 * something it still references; leak = it dropped something without freeing).
 */
#ifndef IH_H
#define IH_H

#include "vh.h"
#include <stdlib.h>
#include <string.h>
#include "vh_alloc.h"

#if defined(VH_CBMC) && defined(IH_MEMMOVE_MODEL)
/* CBMC's library memmove with a symbolic length is not usable on these heap blocks (cbmc 6.11:
 * spurious copy results and an invariant violation in boolbv_get while building the trace), so
 * under CBMC the memmove of pixman_region32_copy is this word-wise model (trusted; natively the
 * libc function runs).  Lengths here are multiples of sizeof (box). */
static void *ih_memmove (void *d, const void *s, size_t n)
{
    unsigned *dd = (unsigned *) d; const unsigned *ss = (const unsigned *) s;
    size_t w = n / sizeof (unsigned), i;
    __CPROVER_assert (n % sizeof (unsigned) == 0, "model.memmove_length_is_whole_words");
    __CPROVER_assert (__CPROVER_POINTER_OBJECT (d) != __CPROVER_POINTER_OBJECT (s), "model.memmove_between_distinct_objects");
    for (i = 0; i < w; i++) dd[i] = ss[i];
    return d;
}
#define memmove(d, s, n) ih_memmove ((d), (s), (n))
#endif

#include "pixman-image.c"
#ifndef IH_NO_REGION32
#ifdef IH_PRUNE_VALIDATE
/* jobs whose regions have <= 1 rectangle: the region re-canonicaliser `validate` (reached only from
 * pixman_region32_init_rects with count > 1) must be unreachable; under CBMC it is replaced by
 * `assert (unreachable)`, natively the real one runs.  The definition has the parameter text
 * `region_type_t * badreg`, the single call site passes `region`: pasting selects the spelling
 * (if the source changes shape this stops compiling -> undecided, never a verdict). */
static int ih_validate_stub ();
#define validate(x) IHV_##x )
#define IHV_region_type_t validate_real (region_type_t
#define IHV_region        ih_validate_stub (region
#endif
#include "pixman-region32.c"
#ifdef IH_PRUNE_VALIDATE
#undef validate
static int ih_validate_stub (region_type_t *r)
{
#ifdef VH_CBMC
    VH_CHECK ("validate.unreachable_for_at_most_one_rectangle", 0);
    __CPROVER_assume (0);
    return 0;
#else
    return validate_real (r);
#endif
}
#endif
#endif
#ifndef IH_NO_UTILS
#include "pixman-utils.c"
#endif
#include "spec_image.h"

/* stop after a failed accounting check (the failure is already recorded): nothing can be read
 * safely any more.  Not VH_END: the canary must stay a single, reachable obligation. */
#ifdef VH_CBMC
#define IH_STOP() __CPROVER_assume (0)
#else
#define IH_STOP() VH_END ()
#endif

#define IH_MAXFP    6      /* filter parameter words in a built image */
#define IH_MAXSTOPS 3      /* gradient stops in a built image */
#define IH_MAXBOX   2      /* rectangles in a built heap clip region */

/* array inputs: nondeterministic under CBMC, taken from the counterexample natively */
#ifdef VH_CBMC
#define IH_IN_ARRAY(type, name, n) type name[n]
#else
#define IH_IN_ARRAY(type, name, n)                                         \
    type name[n];                                                          \
    do { int i_; char b_[96];                                              \
         for (i_ = 0; i_ < (int) (n); i_++) {                              \
             snprintf (b_, sizeof b_, "%s[%d]", #name, i_);                \
             name[i_] = (type) VH_GET_I (b_); } } while (0)
#endif

typedef struct
{
    vh_u8  type;                 /* image_type_t */
    vh_i32 ref, acount;
    vh_u8  have_clip, client_clip, clip_sources, dirty;
    vh_u8  has_tr;
    vh_i32 m[9];
    vh_u32 repeat, filter;
    vh_u8  has_fp;               /* filter_params block present */
    vh_i32 nfp;                  /* n_filter_params (== words in the block when present) */
    vh_i32 fp[IH_MAXFP];
    vh_u8  clip_shape;           /* 0: one rectangle, data NULL; 1: empty, static data; 2: heap block */
    vh_u8  clip_n;               /* rectangles in the heap block */
    vh_i32 cb[4 * IH_MAXBOX];    /* clip boxes (x1,y1,x2,y2)... (extents = first box) */
    vh_i32 aox, aoy;
    vh_u8  ca;
    vh_u8  has_destroy;
    vh_u8  no_hook;              /* property_changed == NULL (as for solid fills); non-gradient types only */
    vh_u32 flags, efc;
    /* BITS */
    vh_u32 format;
    vh_i32 w, h;
    vh_u8  has_free_me, has_indexed, has_read, has_write;
    vh_u32 dither, dox, doy;
    /* SOLID */
    vh_u16 salpha;
    /* gradients */
    vh_u8  nstops;
    vh_u16 stop_alpha[IH_MAXSTOPS];
    vh_i32 stop_x[IH_MAXSTOPS];
    vh_i32 radial_a;             /* sign and zero matter only: a = radial_a / 4.0 */
} ih_in;

/* one set of inputs per image; prefix p gives input names in_<p>_<field> */
#define IH_INPUTS(p)                                                                        \
    ih_in p;                                                                                \
    VH_IN (vh_u8, in_##p##_type); VH_IN (vh_i32, in_##p##_ref); VH_IN (vh_i32, in_##p##_acount); \
    VH_IN (vh_u8, in_##p##_have_clip); VH_IN (vh_u8, in_##p##_client_clip);                 \
    VH_IN (vh_u8, in_##p##_clip_sources); VH_IN (vh_u8, in_##p##_dirty);                    \
    VH_IN (vh_u8, in_##p##_has_tr); IH_IN_ARRAY (vh_i32, in_##p##_m, 9);                    \
    VH_IN (vh_u32, in_##p##_repeat); VH_IN (vh_u32, in_##p##_filter);                       \
    VH_IN (vh_u8, in_##p##_has_fp); VH_IN (vh_i32, in_##p##_nfp);                           \
    IH_IN_ARRAY (vh_i32, in_##p##_fp, IH_MAXFP);                                            \
    VH_IN (vh_u8, in_##p##_clip_shape); VH_IN (vh_u8, in_##p##_clip_n);                     \
    IH_IN_ARRAY (vh_i32, in_##p##_cb, 4 * IH_MAXBOX);                                       \
    VH_IN (vh_i32, in_##p##_aox); VH_IN (vh_i32, in_##p##_aoy); VH_IN (vh_u8, in_##p##_ca); \
    VH_IN (vh_u8, in_##p##_has_destroy); VH_IN (vh_u32, in_##p##_flags); VH_IN (vh_u32, in_##p##_efc); \
    VH_IN (vh_u8, in_##p##_no_hook);                                                        \
    VH_IN (vh_u32, in_##p##_format); VH_IN (vh_i32, in_##p##_w); VH_IN (vh_i32, in_##p##_h); \
    VH_IN (vh_u8, in_##p##_has_free_me); VH_IN (vh_u8, in_##p##_has_indexed);               \
    VH_IN (vh_u8, in_##p##_has_read); VH_IN (vh_u8, in_##p##_has_write);                    \
    VH_IN (vh_u32, in_##p##_dither); VH_IN (vh_u32, in_##p##_dox); VH_IN (vh_u32, in_##p##_doy); \
    VH_IN (vh_u16, in_##p##_salpha); VH_IN (vh_u8, in_##p##_nstops);                        \
    IH_IN_ARRAY (vh_u16, in_##p##_stop_alpha, IH_MAXSTOPS);                                 \
    IH_IN_ARRAY (vh_i32, in_##p##_stop_x, IH_MAXSTOPS);                                     \
    VH_IN (vh_i32, in_##p##_radial_a);                                                      \
    do { int k_;                                                                            \
        p.type = in_##p##_type; p.ref = in_##p##_ref; p.acount = in_##p##_acount;           \
        p.have_clip = in_##p##_have_clip; p.client_clip = in_##p##_client_clip;             \
        p.clip_sources = in_##p##_clip_sources; p.dirty = in_##p##_dirty;                   \
        p.has_tr = in_##p##_has_tr; for (k_ = 0; k_ < 9; k_++) p.m[k_] = in_##p##_m[k_];    \
        p.repeat = in_##p##_repeat; p.filter = in_##p##_filter;                             \
        p.has_fp = in_##p##_has_fp; p.nfp = in_##p##_nfp;                                   \
        for (k_ = 0; k_ < IH_MAXFP; k_++) p.fp[k_] = in_##p##_fp[k_];                       \
        p.clip_shape = in_##p##_clip_shape; p.clip_n = in_##p##_clip_n;                     \
        for (k_ = 0; k_ < 4 * IH_MAXBOX; k_++) p.cb[k_] = in_##p##_cb[k_];                  \
        p.aox = in_##p##_aox; p.aoy = in_##p##_aoy; p.ca = in_##p##_ca;                     \
        p.has_destroy = in_##p##_has_destroy; p.flags = in_##p##_flags; p.efc = in_##p##_efc; \
        p.no_hook = in_##p##_no_hook;                                                       \
        p.format = in_##p##_format; p.w = in_##p##_w; p.h = in_##p##_h;                     \
        p.has_free_me = in_##p##_has_free_me; p.has_indexed = in_##p##_has_indexed;         \
        p.has_read = in_##p##_has_read; p.has_write = in_##p##_has_write;                   \
        p.dither = in_##p##_dither; p.dox = in_##p##_dox; p.doy = in_##p##_doy;             \
        p.salpha = in_##p##_salpha; p.nstops = in_##p##_nstops;                             \
        for (k_ = 0; k_ < IH_MAXSTOPS; k_++) { p.stop_alpha[k_] = in_##p##_stop_alpha[k_];  \
                                               p.stop_x[k_] = in_##p##_stop_x[k_]; }        \
        p.radial_a = in_##p##_radial_a;                                                     \
    } while (0)

/* ghost record of what the image owns (as built) */
typedef struct
{
    pixman_image_t *img;
    void *tr, *fp, *clip, *stops_block, *free_me;
    int   n_blocks;              /* number of non-NULL owned blocks above (type-dependent ones only if the type has them) */
} ih_own;

/* ---- callbacks ------------------------------------------------------------------------ */
/* destroy callback of the image under test: counts calls, remembers how many frees had
 * happened when it ran ("before any free"), checks that it is handed a still intact image */
static int   ih_cb_calls, ih_cb_frees_seen, ih_cb_args_ok;
static void *ih_cb_expect_image;
static int   ih_cb_data_cookie;
static void ih_destroy_cb (pixman_image_t *image, void *data)
{
    ih_cb_calls++;
    ih_cb_frees_seen = vh_free_calls;
    ih_cb_args_ok = ((void *) image == ih_cb_expect_image && data == (void *) &ih_cb_data_cookie
                     && image->common.ref_count == 0);
}
/* destroy callback of a second image (alpha map) */
static int   ih_cb2_calls, ih_cb2_args_ok;
static void *ih_cb2_expect_image;
static int   ih_cb2_data_cookie;
static void ih_destroy_cb2 (pixman_image_t *image, void *data)
{
    ih_cb2_calls++;
    ih_cb2_args_ok = ((void *) image == ih_cb2_expect_image && data == (void *) &ih_cb2_data_cookie);
}
/* property_changed hook of hand-built non-gradient images: counts, and remembers the flags it saw */
static int      ih_pc_calls;
static uint32_t ih_pc_flags_seen;
static int      ih_pc_dirty_seen;
static void ih_property_changed (pixman_image_t *image)
{
    ih_pc_calls++;
    ih_pc_flags_seen = image->common.flags;
    ih_pc_dirty_seen = image->common.dirty;
}
static uint32_t ih_read_stub (const void *src, int size) { (void) src; (void) size; return 0; }
static void ih_write_stub (void *dst, uint32_t value, int size) { (void) dst; (void) value; (void) size; }
static pixman_indexed_t ih_palette;

/* ---- builder --------------------------------------------------------------------------- */
/* domain of the scalar inputs (type/shape selectors); everything else is unconstrained */
static void ih_assume_domain (const ih_in *s)
{
    VH_ASSUME (s->type <= SOLID);
    VH_ASSUME (s->clip_shape <= 2);
    VH_ASSUME (s->clip_n <= IH_MAXBOX);
    VH_ASSUME (s->nstops >= 1 && s->nstops <= IH_MAXSTOPS);
    VH_ASSUME (!s->has_fp || (s->nfp >= 0 && s->nfp <= IH_MAXFP));
}

static int ih_is_gradient_type (int t) { return t == LINEAR || t == RADIAL || t == CONICAL; }

/* second_cb: use the second destroy callback (for an alpha map) */
static pixman_image_t *ih_build (const ih_in *s, ih_own *o, int second_cb)
{
    pixman_image_t *im = (pixman_image_t *) (malloc) (sizeof (pixman_image_t));
    image_common_t *c;
    int k;

    VH_ASSUME (im != 0);
    memset (im, 0, sizeof *im);
    memset (o, 0, sizeof *o);
    o->img = im;
    c = &im->common;

    c->type = (image_type_t) s->type;
    c->ref_count = s->ref;
    c->alpha_count = s->acount;
    c->have_clip_region = s->have_clip;
    c->client_clip = s->client_clip;
    c->clip_sources = s->clip_sources;
    c->dirty = s->dirty;
    c->repeat = (pixman_repeat_t) s->repeat;
    c->filter = (pixman_filter_t) s->filter;
    c->n_filter_params = s->nfp;
    c->alpha_map = 0;
    c->alpha_origin_x = s->aox;
    c->alpha_origin_y = s->aoy;
    c->component_alpha = s->ca;
    c->flags = s->flags;
    c->extended_format_code = (pixman_format_code_t) s->efc;
    c->property_changed = ih_is_gradient_type (s->type) ? gradient_property_changed
                          : s->no_hook ? (property_changed_func_t) 0 : ih_property_changed;
    if (s->has_destroy)
    {
        c->destroy_func = second_cb ? ih_destroy_cb2 : ih_destroy_cb;
        c->destroy_data = second_cb ? (void *) &ih_cb2_data_cookie : (void *) &ih_cb_data_cookie;
        if (second_cb) ih_cb2_expect_image = im; else ih_cb_expect_image = im;
    }

    if (s->has_tr)
    {
        pixman_transform_t *t = (pixman_transform_t *) (malloc) (sizeof (pixman_transform_t));
        VH_ASSUME (t != 0);
        for (k = 0; k < 9; k++)
            t->matrix[k / 3][k % 3] = s->m[k];
        c->transform = t;
        o->tr = t; o->n_blocks++;
    }
    if (s->has_fp)
    {
        pixman_fixed_t *p = (pixman_fixed_t *) (malloc) (IH_MAXFP * sizeof (pixman_fixed_t));
        VH_ASSUME (p != 0);
        for (k = 0; k < IH_MAXFP; k++)
            p[k] = s->fp[k];
        c->filter_params = p;
        o->fp = p; o->n_blocks++;
    }

#ifndef IH_NO_REGION32
    c->clip_region.extents.x1 = s->cb[0]; c->clip_region.extents.y1 = s->cb[1];
    c->clip_region.extents.x2 = s->cb[2]; c->clip_region.extents.y2 = s->cb[3];
    if (s->clip_shape == 0)
        c->clip_region.data = 0;
    else if (s->clip_shape == 1)
        c->clip_region.data = pixman_region_empty_data;
    else
    {
        pixman_region32_data_t *d = (pixman_region32_data_t *)
            (malloc) (sizeof (pixman_region32_data_t) + IH_MAXBOX * sizeof (pixman_box32_t));
        pixman_box32_t *b;
        VH_ASSUME (d != 0);
        d->size = IH_MAXBOX;
        d->numRects = s->clip_n;
        b = (pixman_box32_t *) (d + 1);
        for (k = 0; k < IH_MAXBOX; k++)
        {
            b[k].x1 = s->cb[4 * k]; b[k].y1 = s->cb[4 * k + 1];
            b[k].x2 = s->cb[4 * k + 2]; b[k].y2 = s->cb[4 * k + 3];
        }
        c->clip_region.data = d;
        o->clip = d; o->n_blocks++;
    }
#endif

    if (s->type == BITS)
    {
        im->bits.format = (pixman_format_code_t) s->format;
        im->bits.width = s->w;
        im->bits.height = s->h;
        im->bits.rowstride = 1;
        im->bits.dither = (pixman_dither_t) s->dither;
        im->bits.dither_offset_x = s->dox;
        im->bits.dither_offset_y = s->doy;
        im->bits.indexed = s->has_indexed ? &ih_palette : 0;
        im->bits.read_func = s->has_read ? ih_read_stub : 0;
        im->bits.write_func = s->has_write ? ih_write_stub : 0;
        if (s->has_free_me)
        {
            uint32_t *px = (uint32_t *) (malloc) (4 * sizeof (uint32_t));
            VH_ASSUME (px != 0);
            im->bits.bits = px;
            im->bits.free_me = px;
            o->free_me = px; o->n_blocks++;
        }
    }
    else if (s->type == SOLID)
    {
        im->solid.color.alpha = s->salpha;
        /* the narrow and float presentations of the colour as pixman_image_create_solid_fill derives them (image invariant:
         * the three presentations describe the same colour); colour channels 0 */
        im->solid.color_32 = (uint32_t) (s->salpha >> 8) << 24;
        im->solid.color_float.a = (float) (s->salpha / 65535.0);
    }
    else
    {
        pixman_gradient_stop_t *st = (pixman_gradient_stop_t *)
            (malloc) ((IH_MAXSTOPS + 2) * sizeof (pixman_gradient_stop_t));
        VH_ASSUME (st != 0);
        memset (st, 0, (IH_MAXSTOPS + 2) * sizeof (pixman_gradient_stop_t));
        for (k = 0; k < IH_MAXSTOPS; k++)
        {
            st[k + 1].x = s->stop_x[k];
            st[k + 1].color.alpha = s->stop_alpha[k];
        }
        im->gradient.stops = st + 1;
        im->gradient.n_stops = s->nstops;
        o->stops_block = st; o->n_blocks++;
        if (s->type == RADIAL)
        {
            im->radial.a = s->radial_a / 4.0;
            /* the circles alias bits.bits / bits.free_me of the BITS member: arbitrary, not zero */
            im->radial.c1.x = s->stop_x[0]; im->radial.c1.y = s->stop_x[1]; im->radial.c1.radius = s->stop_x[2];
            im->radial.c2.x = s->stop_x[2]; im->radial.c2.y = s->stop_x[0]; im->radial.c2.radius = s->stop_x[1];
        }
    }
    return im;
}

/* attach `am` as the alpha map of `im` by hand (what a legal earlier set_alpha_map left behind);
 * the counts of `am` must already include this attachment */
static void ih_attach (pixman_image_t *im, pixman_image_t *am)
{
    im->common.alpha_map = (bits_image_t *) am;
}

/* liveness probe of a block: a read of its first and last byte (pointer-check obligation under
 * CBMC, ASan natively) */
static int ih_probe (const void *p, size_t n)
{
    const volatile unsigned char *q = (const volatile unsigned char *) p;
    return n == 0 ? 0 : (int) q[0] + (int) q[n - 1];
}

/* word-wise comparison (instead of memcmp, whose CBMC model is a byte loop) */
static int ih_words_equal (const void *a, const void *b, int nwords)
{
    const uint32_t *x = (const uint32_t *) a, *y = (const uint32_t *) b;
    int i;
    for (i = 0; i < nwords; i++)
        if (x[i] != y[i])
            return 0;
    return 1;
}

/* free, by hand, the image and what it owns NOW (used when the image must still be alive at the
 * end of a harness).  Goes around vh_alloc's counters. */
static void ih_release (pixman_image_t *im)
{
    if (!im)
        return;
    (free) (im->common.transform);
    (free) (im->common.filter_params);
#ifndef IH_NO_REGION32
    if (im->common.clip_region.data && im->common.clip_region.data->size)
        (free) (im->common.clip_region.data);
#endif
    if (ih_is_gradient_type (im->type) && im->gradient.stops)
        (free) (im->gradient.stops - 1);
    if (im->type == BITS && im->bits.free_me)
        (free) (im->bits.free_me);
    (free) (im);
}

/* snapshot of the plain (non-pointer-content) fields for frame conditions */
typedef struct { pixman_image_t copy; pixman_transform_t tr; int has_tr; pixman_fixed_t fp[IH_MAXFP]; } ih_snap;
static void ih_snapshot (ih_snap *sn, const pixman_image_t *im)
{
    int k;
    sn->copy = *im;
    sn->has_tr = im->common.transform != 0;
    if (sn->has_tr)
        sn->tr = *im->common.transform;
    for (k = 0; k < IH_MAXFP; k++)
        sn->fp[k] = im->common.filter_params ? im->common.filter_params[k] : 0;
}

/* every field of the common part equal, except ref_count when told to ignore it */
static int ih_common_equal (const image_common_t *a, const image_common_t *b, int ignore_ref, int ignore_dirty)
{
    return a->type == b->type
           && (ignore_ref || a->ref_count == b->ref_count)
           && a->clip_region.extents.x1 == b->clip_region.extents.x1
           && a->clip_region.extents.y1 == b->clip_region.extents.y1
           && a->clip_region.extents.x2 == b->clip_region.extents.x2
           && a->clip_region.extents.y2 == b->clip_region.extents.y2
           && a->clip_region.data == b->clip_region.data
           && a->alpha_count == b->alpha_count
           && a->have_clip_region == b->have_clip_region
           && a->client_clip == b->client_clip
           && a->clip_sources == b->clip_sources
           && (ignore_dirty || a->dirty == b->dirty)
           && a->transform == b->transform
           && a->repeat == b->repeat
           && a->filter == b->filter
           && a->filter_params == b->filter_params
           && a->n_filter_params == b->n_filter_params
           && a->alpha_map == b->alpha_map
           && a->alpha_origin_x == b->alpha_origin_x
           && a->alpha_origin_y == b->alpha_origin_y
           && a->component_alpha == b->component_alpha
           && a->property_changed == b->property_changed
           && a->destroy_func == b->destroy_func
           && a->destroy_data == b->destroy_data
           && a->flags == b->flags
           && a->extended_format_code == b->extended_format_code;
}

/* type-specific fields (as far as the builder sets them) equal */
static int ih_specific_equal (const pixman_image_t *a, const pixman_image_t *b)
{
    if (a->type != b->type)
        return 0;
    if (a->type == BITS)
        return a->bits.format == b->bits.format && a->bits.indexed == b->bits.indexed
               && a->bits.width == b->bits.width && a->bits.height == b->bits.height
               && a->bits.bits == b->bits.bits && a->bits.free_me == b->bits.free_me
               && a->bits.rowstride == b->bits.rowstride && a->bits.dither == b->bits.dither
               && a->bits.dither_offset_x == b->bits.dither_offset_x
               && a->bits.dither_offset_y == b->bits.dither_offset_y
               && a->bits.fetch_scanline_32 == b->bits.fetch_scanline_32
               && a->bits.fetch_pixel_32 == b->bits.fetch_pixel_32
               && a->bits.store_scanline_32 == b->bits.store_scanline_32
               && a->bits.fetch_scanline_float == b->bits.fetch_scanline_float
               && a->bits.fetch_pixel_float == b->bits.fetch_pixel_float
               && a->bits.store_scanline_float == b->bits.store_scanline_float
               && a->bits.read_func == b->bits.read_func && a->bits.write_func == b->bits.write_func;
    if (a->type == SOLID)
        return a->solid.color.alpha == b->solid.color.alpha;
    return a->gradient.stops == b->gradient.stops && a->gradient.n_stops == b->gradient.n_stops
           && (a->type != RADIAL || a->radial.a == b->radial.a);
}

/* ---- C14: the *property* fields of an image, by value -----------------------------------
 * (what the user sets; what a fresh replica would be given).  Not in the list, because no derived
 * state may depend on them (checked by the non-interference jobs of C14): ref_count, alpha_count,
 * client_clip (read directly at composite time), destroy_func/destroy_data, dirty itself. */
#define IH_PFP 8
typedef struct
{
    int has_tr; pixman_transform_t tr;
    pixman_repeat_t repeat;
    pixman_filter_t filter; int has_fp; int nfp; pixman_fixed_t fp[IH_PFP];
    pixman_box32_t clip_extents; void *clip_data; long clip_n; pixman_box32_t clip_box[3];
    pixman_bool_t have_clip, clip_sources;
    bits_image_t *alpha_map; int aox, aoy;
    pixman_bool_t ca;
    /* BITS */
    const pixman_indexed_t *indexed; pixman_read_memory_func_t rf; pixman_write_memory_func_t wf;
    pixman_dither_t dither; uint32_t dox, doy;
} ih_props;

/* fp_words: how many words of the filter parameter block may be read; clip_boxes: how many boxes of a
 * heap clip block may be read */
static void ih_props_get (ih_props *p, const pixman_image_t *im, int fp_words, int clip_boxes)
{
    int k;
    memset (p, 0, sizeof *p);
    p->has_tr = im->common.transform != 0;
    if (p->has_tr) p->tr = *im->common.transform;
    p->repeat = im->common.repeat;
    p->filter = im->common.filter;
    p->has_fp = im->common.filter_params != 0;
    p->nfp = im->common.n_filter_params;
    for (k = 0; k < IH_PFP; k++)
        p->fp[k] = (p->has_fp && k < fp_words && k < p->nfp) ? im->common.filter_params[k] : 0;
#ifndef IH_NO_REGION32
    p->clip_extents = im->common.clip_region.extents;
    p->clip_data = im->common.clip_region.data;
    p->clip_n = im->common.clip_region.data ? im->common.clip_region.data->numRects : 1;
    for (k = 0; k < 3; k++)
        if (im->common.clip_region.data && im->common.clip_region.data->size && k < clip_boxes && k < p->clip_n)
            p->clip_box[k] = ((const pixman_box32_t *) (im->common.clip_region.data + 1))[k];
#endif
    p->have_clip = im->common.have_clip_region;
    p->clip_sources = im->common.clip_sources;
    p->alpha_map = im->common.alpha_map;
    p->aox = im->common.alpha_origin_x; p->aoy = im->common.alpha_origin_y;
    p->ca = im->common.component_alpha;
    if (im->type == BITS)
    {
        p->indexed = im->bits.indexed; p->rf = im->bits.read_func; p->wf = im->bits.write_func;
        p->dither = im->bits.dither; p->dox = im->bits.dither_offset_x; p->doy = im->bits.dither_offset_y;
    }
}

static int ih_box_equal (const pixman_box32_t *a, const pixman_box32_t *b)
{
    return a->x1 == b->x1 && a->y1 == b->y1 && a->x2 == b->x2 && a->y2 == b->y2;
}

static int ih_props_equal (const ih_props *a, const ih_props *b)
{
    int k, same = 1;
    for (k = 0; k < IH_PFP; k++)
        same = same && a->fp[k] == b->fp[k];
    for (k = 0; k < 3; k++)
        same = same && ih_box_equal (&a->clip_box[k], &b->clip_box[k]);
    return same
           && a->has_tr == b->has_tr && (!a->has_tr || ih_words_equal (&a->tr, &b->tr, 9))
           && a->repeat == b->repeat
           && a->filter == b->filter && a->has_fp == b->has_fp && (!a->has_fp || a->nfp == b->nfp)
           && ih_box_equal (&a->clip_extents, &b->clip_extents)
           && ((a->clip_data == 0) == (b->clip_data == 0)) && a->clip_n == b->clip_n
           && a->have_clip == b->have_clip && a->clip_sources == b->clip_sources
           && a->alpha_map == b->alpha_map && a->aox == b->aox && a->aoy == b->aoy
           && a->ca == b->ca
           && a->indexed == b->indexed && a->rf == b->rf && a->wf == b->wf
           && a->dither == b->dither && a->dox == b->dox && a->doy == b->doy;
}

#endif
