/* C20: setters that replace a buffer the image owns.
 *   -DVI_FN=1  pixman_image_set_transform
 *   -DVI_FN=2  pixman_image_set_filter
 *   -DVI_FN=3  pixman_image_set_clip_region32
 *   -DVI_FN=4  pixman_image_set_clip_region   (16-bit argument, <= 1 rectangle)
 * Every allocation of the code under check may fail (in_failmask).
 *
 * Ownership: the old block is freed exactly once when (and only when) it is replaced, the stored
 * block is the image's own copy (never the caller's), it is alive, and the number of live blocks
 * changes exactly by (new owned block ? 1 : 0) - (old owned block ? 1 : 0).  Allocation failure:
 * FALSE, nothing leaked; transform and filter keep the old value.  FALSE only for a reason.
 * At the end the harness releases the image by hand: a block the code freed but still references
 * is a double free, a block it dropped without freeing is a leak.
 */
#include "ih.h"

#ifndef VI_FN
#error "VI_FN"
#endif

#define NP 8      /* words in the caller's filter parameter array */
#define RB 3      /* boxes in the caller's heap region (one more than the image's old block holds) */

static const pixman_transform_t ident = { { { pixman_fixed_1, 0, 0 }, { 0, pixman_fixed_1, 0 }, { 0, 0, pixman_fixed_1 } } };

void harness (void)
{
    IH_INPUTS (a);
    VH_IN (vh_u32, in_failmask);
    VH_IN (vh_u8, in_sel);
    ih_own ao;
    ih_snap sa;
    pixman_image_t *img;
    image_common_t want;
    pixman_bool_t ret;
    int frees0, calls0, fails0, d_frees, d_ok, fp_words = IH_MAXFP;
    ih_props p0, p1;

    ih_assume_domain (&a);
    img = ih_build (&a, &ao, 0);
    VH_ASSUME (spi_wf_fields (img));
    ih_snapshot (&sa, img);
    vh_failmask = in_failmask;
    frees0 = vh_free_calls; calls0 = vh_alloc_calls; fails0 = vh_alloc_failed;
    want = sa.copy.common;
    ih_props_get (&p0, img, IH_MAXFP, IH_MAXBOX);

#if VI_FN == 1
    {
        IH_IN_ARRAY (vh_i32, in_t, 9);
        pixman_transform_t t, argval;
        const pixman_transform_t *arg;
        pixman_transform_t *np;
        int k;
        for (k = 0; k < 9; k++)
            t.matrix[k / 3][k % 3] = in_t[k];
        VH_ASSUME (in_sel <= 2 && (in_sel != 2 || a.has_tr));      /* 0: NULL  1: caller's matrix  2: the stored pointer */
        arg = in_sel == 0 ? 0 : in_sel == 1 ? &t : img->common.transform;
        argval = arg ? *arg : ident;

        ret = pixman_image_set_transform (img, arg);

        np = img->common.transform;
        d_frees = vh_free_calls - frees0;
        d_ok = (vh_alloc_calls - calls0) - (vh_alloc_failed - fails0);
        /* the only block this setter may free is the old matrix: if it did and still stores it, the
         * stored pointer dangles (stated before anything is read through it) */
        VH_CHECK ("set_transform.stored_block_not_freed", !(np && (void *) np == ao.tr && d_frees > 0));
        if (np && (void *) np == ao.tr && d_frees > 0)
            np = img->common.transform = 0;
        if (!ret)
        {
            VH_CHECK ("set_transform.false_only_on_allocation_failure", vh_alloc_failed > fails0);
            VH_CHECK ("set_transform.failure_keeps_old_transform",
                      np == sa.copy.common.transform && (!np || ih_words_equal (np, &sa.tr, 9)));
            VH_CHECK ("set_transform.failure_frees_and_leaks_nothing", d_frees == 0 && d_ok == 0);
        }
        else
        {
            pixman_transform_t stored = np ? *np : ident;
            VH_CHECK ("set_transform.stored_matrix_is_the_argument", ih_words_equal (&stored, &argval, 9));
            VH_CHECK ("set_transform.stored_block_is_not_the_callers", np == 0 || np != &t);
            VH_CHECK ("set_transform.old_block_freed_exactly_when_dropped", d_frees == ((ao.tr && !np) ? 1 : 0));
            VH_CHECK ("set_transform.new_block_allocated_exactly_when_needed", d_ok == ((!ao.tr && np) ? 1 : 0));
            VH_CHECK ("set_transform.old_block_reused_in_place", !(ao.tr && np) || (void *) np == ao.tr);
        }
        VH_CHECK ("set_transform.stored_block_alive", ih_probe (np, np ? sizeof *np : 0) >= 0);
        want.transform = np;
    }
#elif VI_FN == 2
    {
        IH_IN_ARRAY (vh_i32, in_p, NP);
        VH_IN (vh_u32, in_filter);
        VH_IN (vh_i32, in_n);
        VH_IN (vh_u8, in_gk);
        const pixman_fixed_t *arg;
        pixman_fixed_t *np;
        int early;
        VH_ASSUME (in_sel <= 1);                                    /* 0: NULL  1: caller's array */
        arg = in_sel ? (const pixman_fixed_t *) in_p : (const pixman_fixed_t *) 0;
        VH_ASSUME (!arg || (in_n >= 0 && in_n <= NP));
        /* API: a separable convolution is described by a block of >= 4 header words */
        VH_ASSUME (in_filter != PIXMAN_FILTER_SEPARABLE_CONVOLUTION || (arg && in_n >= 4));
        /* ... whose header holds a kernel size and phase bits in a sane range (what
         * pixman_filter_create_separable_convolution produces): 1 << bits and the products are defined */
        VH_ASSUME (in_filter != PIXMAN_FILTER_SEPARABLE_CONVOLUTION
                   || (in_p[0] >= 0 && in_p[0] <= pixman_int_to_fixed (1024) && in_p[1] >= 0 && in_p[1] <= pixman_int_to_fixed (1024)
                       && in_p[2] >= 0 && in_p[2] <= pixman_int_to_fixed (8) && in_p[3] >= 0 && in_p[3] <= pixman_int_to_fixed (8)));
        early = (arg == 0 && ao.fp == 0 && in_filter == a.filter);  /* same filter, no parameters before or after */

        ret = pixman_image_set_filter (img, (pixman_filter_t) in_filter, arg, in_n);

        np = img->common.filter_params;
        d_frees = vh_free_calls - frees0;
        d_ok = (vh_alloc_calls - calls0) - (vh_alloc_failed - fails0);
        VH_CHECK ("set_filter.stored_block_not_freed", !(np && (void *) np == ao.fp && d_frees > 0));
        if (np && (void *) np == ao.fp && d_frees > 0)
            np = img->common.filter_params = 0;
        if (!ret)
        {
            VH_CHECK ("set_filter.false_only_on_allocation_failure_or_bad_convolution",
                      vh_alloc_failed > fails0 || in_filter == PIXMAN_FILTER_SEPARABLE_CONVOLUTION);
            VH_CHECK ("set_filter.failure_keeps_old_filter",
                      img->common.filter == (pixman_filter_t) a.filter && np == ao.fp
                      && img->common.n_filter_params == a.nfp
                      && (!np || ih_words_equal (np, sa.fp, IH_MAXFP)));
            VH_CHECK ("set_filter.failure_frees_and_leaks_nothing", d_frees == 0 && d_ok == 0);
            VH_CHECK ("set_filter.failure_changes_nothing", ih_common_equal (&img->common, &sa.copy.common, 0, 0));
        }
        else
        {
            VH_CHECK ("set_filter.filter_stored", img->common.filter == (pixman_filter_t) in_filter);
            VH_CHECK ("set_filter.params_present_iff_given", (np != 0) == (arg != 0));
            VH_CHECK ("set_filter.param_count_stored", !arg || img->common.n_filter_params == in_n);
            VH_CHECK ("set_filter.param_values_copied", !arg || !(in_gk < in_n) || np[in_gk] == in_p[in_gk]);
            VH_CHECK ("set_filter.stored_block_is_not_the_callers", !np || np != in_p);
            VH_CHECK ("set_filter.old_block_freed_exactly_once", d_frees == ((ao.fp && !early) ? 1 : 0));
            VH_CHECK ("set_filter.new_block_allocated_exactly_when_given", d_ok == ((arg && !early) ? 1 : 0));
            VH_CHECK ("set_filter.stored_block_alive", ih_probe (np, (np && in_n > 0) ? in_n * sizeof (pixman_fixed_t) : 0) >= 0);
        }
        fp_words = ((void *) np == ao.fp) ? IH_MAXFP : in_n;
        want.filter = img->common.filter;
        want.filter_params = np;
        want.n_filter_params = img->common.n_filter_params;
    }
#elif VI_FN == 3
    {
        VH_IN (vh_u8, in_rshape);       /* 0: one rectangle (data NULL)  1: empty (static data)  2: heap block */
        VH_IN (vh_u8, in_rn);
        VH_IN (vh_u8, in_gk);
        IH_IN_ARRAY (vh_i32, in_rb, 4 * RB);
        pixman_region32_t r;
        pixman_region32_t *arg;
        pixman_region32_data_t *rd = 0, *nd;
        pixman_box32_t *rbox = 0;
        int k, old_heap = ao.clip != 0, new_heap;
        VH_ASSUME (in_sel <= 1 && in_rshape <= 2 && in_rn <= RB && in_gk < RB);
        /* the argument is a valid region: an empty region uses the static empty data, a heap block
         * holds at least one rectangle */
        VH_ASSUME (in_rn >= 1);
#ifdef VI_OLD
        VH_ASSUME (a.clip_shape == VI_OLD);
#endif
#ifdef VI_RSHAPE
        VH_ASSUME (in_rshape == VI_RSHAPE);
#endif
#ifdef VI_RN
        VH_ASSUME (in_rn == VI_RN);
#endif
        r.extents.x1 = in_rb[0]; r.extents.y1 = in_rb[1]; r.extents.x2 = in_rb[2]; r.extents.y2 = in_rb[3];
        if (in_rshape == 0)
            r.data = 0;
        else if (in_rshape == 1)
            r.data = pixman_region_empty_data;
        else
        {
            rd = (pixman_region32_data_t *) (malloc) (sizeof (pixman_region32_data_t) + RB * sizeof (pixman_box32_t));
            VH_ASSUME (rd != 0);
            rd->size = RB;
#ifdef VI_RN
            rd->numRects = VI_RN;
#else
            rd->numRects = in_rn;
#endif
            rbox = (pixman_box32_t *) (rd + 1);
            for (k = 0; k < RB; k++)
            {
                rbox[k].x1 = in_rb[4 * k]; rbox[k].y1 = in_rb[4 * k + 1];
                rbox[k].x2 = in_rb[4 * k + 2]; rbox[k].y2 = in_rb[4 * k + 3];
            }
            r.data = rd;
        }
        arg = in_sel ? &r : 0;

        ret = pixman_image_set_clip_region32 (img, arg);

        nd = img->common.clip_region.data;
        new_heap = nd && nd->size;
        d_frees = vh_free_calls - frees0;
        d_ok = (vh_alloc_calls - calls0) - (vh_alloc_failed - fails0);
        VH_CHECK ("set_clip_region32.image_dirty", img->common.dirty);
        VH_CHECK ("set_clip_region32.live_blocks_balance", d_ok - d_frees == new_heap - old_heap);
        VH_CHECK ("set_clip_region32.at_most_one_free_one_allocation", d_frees <= 1 && d_ok <= 1);
        VH_CHECK ("set_clip_region32.old_block_not_freed_unless_it_was_a_heap_block", d_frees <= old_heap);
        if (!arg)
        {
            VH_CHECK ("set_clip_region32.reset.true", ret);
            VH_CHECK ("set_clip_region32.reset.no_clip", !img->common.have_clip_region);
            VH_CHECK ("set_clip_region32.reset.block_kept_owned", (void *) nd == (void *) sa.copy.common.clip_region.data
                                                                 && d_frees == 0 && d_ok == 0);
        }
        else if (ret)
        {
            VH_CHECK ("set_clip_region32.has_clip", img->common.have_clip_region);
            VH_CHECK ("set_clip_region32.stored_block_is_not_the_callers", !new_heap || nd != rd);
            VH_CHECK ("set_clip_region32.static_data_shared_only_if_static", new_heap || nd == r.data || (nd == 0 && in_rshape == 0));
            VH_CHECK ("set_clip_region32.extents_copied",
                      img->common.clip_region.extents.x1 == in_rb[0] && img->common.clip_region.extents.y1 == in_rb[1]
                      && img->common.clip_region.extents.x2 == in_rb[2] && img->common.clip_region.extents.y2 == in_rb[3]);
            if (in_rshape == 2 && in_rn > 0)
            {
                VH_CHECK ("set_clip_region32.heap_copy_is_heap", new_heap && nd->numRects == in_rn && nd->size >= in_rn);
                if (in_gk < in_rn)
                {
                    const pixman_box32_t *nb = (const pixman_box32_t *) (nd + 1);
                    VH_CHECK ("set_clip_region32.boxes_copied",
                              nb[in_gk].x1 == in_rb[4 * in_gk] && nb[in_gk].y1 == in_rb[4 * in_gk + 1]
                              && nb[in_gk].x2 == in_rb[4 * in_gk + 2] && nb[in_gk].y2 == in_rb[4 * in_gk + 3]);
                }
            }
        }
        else
        {
            VH_CHECK ("set_clip_region32.false_only_on_allocation_failure", vh_alloc_failed > fails0);
            VH_CHECK ("set_clip_region32.failure_leaves_no_heap_block", nd != 0 && !new_heap);
            VH_CHECK ("set_clip_region32.failure_keeps_clip_flag", img->common.have_clip_region == sa.copy.common.have_clip_region);
        }
        VH_CHECK ("set_clip_region32.argument_untouched",
                  r.data == (in_rshape == 0 ? 0 : in_rshape == 1 ? pixman_region_empty_data : rd)
                  && (!rd || (rd->size == RB && rd->numRects == in_rn)));
        if (rd)
            (free) (rd);
        want.clip_region = img->common.clip_region;
        want.have_clip_region = img->common.have_clip_region;
    }
#elif VI_FN == 4
    {
        VH_IN (vh_u8, in_rshape);       /* 0: one rectangle  1: empty */
        IH_IN_ARRAY (vh_i16, in_rb, 4);
        pixman_region16_t r;
        pixman_region16_t *arg;
        pixman_region32_data_t *nd;
        int old_heap = ao.clip != 0, new_heap;
        static const pixman_region16_data_t empty16 = { 0, 0 };      /* an empty region: static data, no rectangles */
        /* the shape is a compile-time case (-DVI_RSHAPE) so that the rectangle count the library reads
         * is a constant and init_rects' multi-rectangle part is not explored */
        VH_ASSUME (in_sel <= 1 && in_rshape == VI_RSHAPE);
#if VI_RSHAPE == 0
        VH_ASSUME (in_rb[0] < in_rb[2] && in_rb[1] < in_rb[3]);
        r.extents.x1 = in_rb[0]; r.extents.y1 = in_rb[1]; r.extents.x2 = in_rb[2]; r.extents.y2 = in_rb[3];
        r.data = 0;
#else
        r.extents.x1 = r.extents.y1 = r.extents.x2 = r.extents.y2 = 0;
        r.data = (pixman_region16_data_t *) &empty16;
#endif
        arg = in_sel ? &r : 0;

        ret = pixman_image_set_clip_region (img, arg);

        nd = img->common.clip_region.data;
        new_heap = nd && nd->size;
        d_frees = vh_free_calls - frees0;
        d_ok = (vh_alloc_calls - calls0) - (vh_alloc_failed - fails0);
        VH_CHECK ("set_clip_region.image_dirty", img->common.dirty);
        VH_CHECK ("set_clip_region.true_for_at_most_one_rectangle", ret);
        VH_CHECK ("set_clip_region.live_blocks_balance", d_ok - d_frees == new_heap - old_heap);
        if (!arg)
        {
            VH_CHECK ("set_clip_region.reset.no_clip", !img->common.have_clip_region);
            VH_CHECK ("set_clip_region.reset.block_kept_owned", (void *) nd == (void *) sa.copy.common.clip_region.data && d_frees == 0);
        }
        else
        {
            VH_CHECK ("set_clip_region.has_clip", img->common.have_clip_region);
            VH_CHECK ("set_clip_region.old_block_freed_exactly_once", d_frees == old_heap && !new_heap);
            VH_CHECK ("set_clip_region.rectangle_widened",
                      in_rshape != 0 || (nd == 0 && img->common.clip_region.extents.x1 == in_rb[0]
                                         && img->common.clip_region.extents.y1 == in_rb[1]
                                         && img->common.clip_region.extents.x2 == in_rb[2]
                                         && img->common.clip_region.extents.y2 == in_rb[3]));
            VH_CHECK ("set_clip_region.empty_stays_empty", in_rshape != 1 || (nd != 0 && nd->numRects == 0));
        }
        want.clip_region = img->common.clip_region;
        want.have_clip_region = img->common.have_clip_region;
    }
#endif

    /* C14: a changed property leaves the image dirty; derived state is not written by a setter */
    ih_props_get (&p1, img, fp_words, 3);
    VH_CHECK ("c14.changed_property_leaves_image_dirty", ih_props_equal (&p0, &p1) || img->common.dirty);
    VH_CHECK ("c14.setter_does_not_write_derived_state",
              img->common.flags == a.flags && img->common.extended_format_code == (pixman_format_code_t) a.efc);
    VH_CHECK ("setter.every_other_field_unchanged",
              ih_common_equal (&img->common, &want, 0, 1) && ih_specific_equal (img, &sa.copy));
    VH_CHECK ("setter.no_destroy_callback", ih_cb_calls == 0);
    VH_CHECK ("setter.preserves_img_wf", spi_wf_fields (img));
    (void) d_frees; (void) d_ok; (void) ret;
    ih_release (img);
    VH_END ();
}
