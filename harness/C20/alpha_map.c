/* C20: pixman_image_set_alpha_map — reference exchange and refusal of chains.
 *
 * img (any type) may have an old map o attached; the argument is NULL, o again, a fresh image n of
 * any type (n may itself have a map x attached), or — job alpha_map.self, -DVI_SELF — img itself.
 * All images satisfy img_wf before; images outside the harness may hold further references /
 * attachments (ref_count and alpha_count are only bounded from below).
 *
 * A chain would arise (=> the call must be refused, nothing at all changes) when the argument is
 * not a BITS image, img is itself in use as an alpha map (alpha_count > 0), the argument has an
 * alpha map of its own, or the argument is img.
 * Otherwise: img->alpha_map == argument, origin stored, img dirty, old map lost exactly one
 * reference and one alpha_count (destroyed exactly once if that was its last reference), new map
 * gained exactly one of each, nothing else changed, img_wf holds again.
 */
#include "ih.h"

void harness (void)
{
    IH_INPUTS (a);
    IH_INPUTS (o);
    IH_INPUTS (n);
    IH_INPUTS (x);
    VH_IN (vh_u8, in_has_old);
    VH_IN (vh_u8, in_sel);          /* 0: NULL  1: fresh image n  2: the old map again  3: img itself */
    VH_IN (vh_u8, in_n_has_map);
    VH_IN (vh_i16, in_x);
    VH_IN (vh_i16, in_y);
    ih_own ao, oo, no, xo;
    ih_snap sa, so, sn;
    pixman_image_t *img, *old = 0, *nw = 0, *nx = 0, *arg = 0;
    int frees0, refuse, old_dies = 0;
    ih_props p0, p1;

    ih_assume_domain (&a);
    ih_assume_domain (&o);
    ih_assume_domain (&n);
    ih_assume_domain (&x);
#ifdef VI_SELF
    VH_ASSUME (in_sel == 3);
#elif defined(VI_SEL)
    VH_ASSUME (in_sel == VI_SEL);
#else
    VH_ASSUME (in_sel <= 2);
#endif
    VH_ASSUME (in_sel != 2 || in_has_old);

    img = ih_build (&a, &ao, 0);
    if (in_has_old)
    {
        VH_ASSUME (o.type == BITS);
        old = ih_build (&o, &oo, 1);
        ih_attach (img, old);
    }
    if (in_sel == 1)
    {
        nw = ih_build (&n, &no, 0);
        nw->common.destroy_func = 0;          /* n is never destroyed here; keep callback 1 for img */
        if (in_n_has_map)
        {
            VH_ASSUME (x.type == BITS);
            nx = ih_build (&x, &xo, 0);
            nx->common.destroy_func = 0;
            ih_attach (nw, nx);
        }
    }
    arg = in_sel == 0 ? 0 : in_sel == 1 ? nw : in_sel == 2 ? old : img;

    /* img_wf of every image */
    VH_ASSUME (spi_wf_fields (img));
    if (old) VH_ASSUME (spi_wf_fields (old));
    if (nw)  VH_ASSUME (spi_wf_fields (nw));
    if (nx)  VH_ASSUME (spi_wf_fields (nx));
    if (nw)  VH_ASSUME (n.ref < INT32_MAX && n.acount < INT32_MAX);     /* fewer than 2^31-1 references */
    VH_ASSUME (a.ref < INT32_MAX && a.acount < INT32_MAX);

    ih_snapshot (&sa, img);
    if (old) ih_snapshot (&so, old);
    if (nw)  ih_snapshot (&sn, nw);
    frees0 = vh_free_calls;
    ih_props_get (&p0, img, IH_MAXFP, IH_MAXBOX);

    pixman_image_set_alpha_map (img, arg, in_x, in_y);

    refuse = arg != 0 && (arg->type != BITS || a.acount > 0 || arg == img
                          || (arg == nw && in_n_has_map));
#ifndef VI_SELF
    /* free accounting first: the only thing that may die here is the old map, when it is really
     * replaced and img held its last reference; anything else and nothing can be read safely */
    old_dies = !refuse && old && arg != old && o.ref == 1;
    VH_CHECK ("set_alpha_map.frees_exactly_what_must_die", vh_free_calls - frees0 == (old_dies ? 1 + oo.n_blocks : 0));
    if (vh_free_calls - frees0 != (old_dies ? 1 + oo.n_blocks : 0))
        { IH_STOP (); return; }
#endif

    /* C14: a changed property leaves the image dirty; derived state is not written by a setter */
    ih_props_get (&p1, img, IH_MAXFP, IH_MAXBOX);
    VH_CHECK ("c14.changed_property_leaves_image_dirty", ih_props_equal (&p0, &p1) || img->common.dirty);
    VH_CHECK ("c14.setter_does_not_write_derived_state",
              img->common.flags == a.flags && img->common.extended_format_code == (pixman_format_code_t) a.efc);

#ifdef VI_SELF
    /* img -> img is a chain (a cycle): the property says chains are refused */
    VH_CHECK ("set_alpha_map.self.refused_nothing_changed",
              ih_common_equal (&img->common, &sa.copy.common, 0, 0) && ih_specific_equal (img, &sa.copy));
    VH_CHECK ("set_alpha_map.self.preserves_img_wf", spi_wf_fields (img));
    /* undo by hand what the call did so that the harness can release the image */
    old_dies = old && o.ref == 1 && img->common.alpha_map != (bits_image_t *) old;
    img->common.alpha_map = 0;
    ih_release (img);
    if (!old_dies) ih_release (old);
#else
    if (refuse)
    {
        VH_CHECK ("set_alpha_map.refused.image_unchanged",
                  ih_common_equal (&img->common, &sa.copy.common, 0, 0) && ih_specific_equal (img, &sa.copy));
        VH_CHECK ("set_alpha_map.refused.old_map_unchanged",
                  !old || (ih_common_equal (&old->common, &so.copy.common, 0, 0) && ih_specific_equal (old, &so.copy)));
        VH_CHECK ("set_alpha_map.refused.argument_unchanged",
                  !nw || (ih_common_equal (&nw->common, &sn.copy.common, 0, 0) && ih_specific_equal (nw, &sn.copy)));
        VH_CHECK ("set_alpha_map.refused.nothing_freed_no_callback",
                  vh_free_calls == frees0 && ih_cb_calls == 0 && ih_cb2_calls == 0);
    }
    else
    {
        image_common_t want = sa.copy.common;
        want.alpha_map = (bits_image_t *) arg;
        want.alpha_origin_x = in_x;
        want.alpha_origin_y = in_y;
        VH_CHECK ("set_alpha_map.attached_map_is_the_argument", img->common.alpha_map == (bits_image_t *) arg);
        VH_CHECK ("set_alpha_map.origin_stored", img->common.alpha_origin_x == in_x && img->common.alpha_origin_y == in_y);
        VH_CHECK ("set_alpha_map.image_dirty", img->common.dirty);
        VH_CHECK ("set_alpha_map.image_otherwise_unchanged",
                  ih_common_equal (&img->common, &want, 0, 1) && ih_specific_equal (img, &sa.copy));
        VH_CHECK ("set_alpha_map.image_destroy_callback_not_run", ih_cb_calls == 0);
        if (arg == old)
        {
            VH_CHECK ("set_alpha_map.same_map.counts_unchanged",
                      !old || (ih_common_equal (&old->common, &so.copy.common, 0, 0) && ih_specific_equal (old, &so.copy)));
            VH_CHECK ("set_alpha_map.same_map.nothing_freed", vh_free_calls == frees0 && ih_cb2_calls == 0);
        }
        else
        {
            if (old && !old_dies)
            {
                image_common_t wo = so.copy.common;
                wo.ref_count = o.ref - 1;
                wo.alpha_count = o.acount - 1;
                VH_CHECK ("set_alpha_map.old_map_lost_one_reference", old->common.ref_count == o.ref - 1);
                VH_CHECK ("set_alpha_map.old_map_alpha_count_minus_one", old->common.alpha_count == o.acount - 1);
                VH_CHECK ("set_alpha_map.old_map_otherwise_unchanged",
                          ih_common_equal (&old->common, &wo, 0, 0) && ih_specific_equal (old, &so.copy));
                VH_CHECK ("set_alpha_map.old_map_alive_nothing_freed", vh_free_calls == frees0 && ih_cb2_calls == 0);
            }
            if (old_dies)
            {
                VH_CHECK ("set_alpha_map.old_map_destroyed_exactly_once", vh_free_calls - frees0 == 1 + oo.n_blocks);
                VH_CHECK ("set_alpha_map.old_map_callback_exactly_once",
                          ih_cb2_calls == (o.has_destroy ? 1 : 0) && (!o.has_destroy || ih_cb2_args_ok));
            }
            if (!old)
                VH_CHECK ("set_alpha_map.no_old_map.nothing_freed", vh_free_calls == frees0 && ih_cb2_calls == 0);
            if (nw)
            {
                image_common_t wn = sn.copy.common;
                wn.ref_count = n.ref + 1;
                wn.alpha_count = n.acount + 1;
                VH_CHECK ("set_alpha_map.new_map_gained_one_reference", nw->common.ref_count == n.ref + 1);
                VH_CHECK ("set_alpha_map.new_map_alpha_count_plus_one", nw->common.alpha_count == n.acount + 1);
                VH_CHECK ("set_alpha_map.new_map_otherwise_unchanged",
                          ih_common_equal (&nw->common, &wn, 0, 0) && ih_specific_equal (nw, &sn.copy));
            }
        }
        VH_CHECK ("set_alpha_map.preserves_img_wf", spi_wf_fields (img) && (!nw || spi_wf_fields (nw))
                                                    && (!old || old_dies || spi_wf_fields (old)));
    }
    ih_release (img);
    if (!old_dies) ih_release (old);
    ih_release (nw);
    ih_release (nx);
#endif
    VH_END ();
}
