/* C20: pixman_image_unref / _pixman_image_fini / pixman_image_ref.
 *
 * An arbitrary well-formed image (any type, any ref_count >= 1, every owned block present or
 * absent, optionally an attached alpha map with its own counts and blocks) loses one reference.
 *
 *   ret == (old ref_count == 1)
 *   last reference:  destroy callback ran exactly once, with (image, destroy_data), on a still
 *                    intact image and before any free; every owned block and the image freed
 *                    exactly once (free count == number of owned blocks, no double free, no leak);
 *                    the alpha map lost exactly one reference (and is destroyed the same way when
 *                    that was its last one)
 *   otherwise:       nothing freed, no callback, only ref_count changed.
 *
 * -DVI_REF: pixman_image_ref first (ref_count + 1, nothing else, returns the image), then unref.
 * -DVI_ACOUNT: own job for the ghost invariant alpha_count == #images attached (see props/C20.py).
 */
#include "ih.h"

void harness (void)
{
    IH_INPUTS (a);
    IH_INPUTS (m);
    VH_IN (vh_u8, in_has_am);
    ih_own ao, mo;
    ih_snap before, mbefore;
    pixman_image_t *img, *am = 0;
    pixman_bool_t ret;
    int frees0, expect_frees, am_dies;

    ih_assume_domain (&a);
    ih_assume_domain (&m);
#ifdef VI_TYPE
    VH_ASSUME (a.type == VI_TYPE);
    a.type = VI_TYPE;           /* a constant for the builder (one image type per query) */
#endif
    if (in_has_am)
    {
        VH_ASSUME (m.type == BITS);
        am = ih_build (&m, &mo, 1);
    }
    img = ih_build (&a, &ao, 0);
    if (am)
        ih_attach (img, am);
    /* img_wf */
    VH_ASSUME (spi_wf_fields (img));
    if (am)
        VH_ASSUME (spi_wf_fields (am));
#ifdef VI_REF
    VH_ASSUME (a.ref < INT32_MAX);
#endif

    ih_snapshot (&before, img);
    if (am)
        ih_snapshot (&mbefore, am);
    frees0 = vh_free_calls;

#ifdef VI_REF
    {
        pixman_image_t *r = pixman_image_ref (img);
        VH_CHECK ("ref.returns_the_image", r == img);
        VH_CHECK ("ref.ref_count_plus_one", img->common.ref_count == a.ref + 1);
        VH_CHECK ("ref.nothing_else_changed", ih_common_equal (&img->common, &before.copy.common, 1, 0)
                                              && ih_specific_equal (img, &before.copy));
        VH_CHECK ("ref.nothing_freed_no_callback", vh_free_calls == frees0 && ih_cb_calls == 0);
        ret = pixman_image_unref (img);
        VH_CHECK ("ref_unref.not_last_reference", !ret);
        VH_CHECK ("ref_unref.is_identity", ih_common_equal (&img->common, &before.copy.common, 0, 0)
                                           && ih_specific_equal (img, &before.copy));
        VH_CHECK ("ref_unref.nothing_freed_no_callback", vh_free_calls == frees0 && ih_cb_calls == 0);
    }
#endif

    ret = pixman_image_unref (img);

    VH_CHECK ("unref.true_exactly_when_last_reference", (ret != 0) == (a.ref == 1));
    if (ret)
    {
        am_dies = am && m.ref == 1;
        expect_frees = 1 + ao.n_blocks + (am_dies ? 1 + mo.n_blocks : 0);
        /* free accounting first: if the code freed something else than it should, nothing can be read safely */
        VH_CHECK ("unref.last.every_owned_block_freed_once", vh_free_calls - frees0 == expect_frees);
        if (vh_free_calls - frees0 != expect_frees)
            { IH_STOP (); return; }
#ifndef VI_ACOUNT
        VH_CHECK ("unref.last.destroy_callback_exactly_once", ih_cb_calls == (a.has_destroy ? 1 : 0));
        VH_CHECK ("unref.last.callback_before_any_free", !a.has_destroy || ih_cb_frees_seen == frees0);
        VH_CHECK ("unref.last.callback_gets_image_and_data", !a.has_destroy || ih_cb_args_ok);
        if (am && !am_dies)
        {
            VH_CHECK ("unref.last.alpha_map_lost_exactly_one_reference", am->common.ref_count == m.ref - 1);
            /* the map's use count goes down with the reference (fix: commit 66ced33); everything else is untouched */
            VH_CHECK ("unref.last.alpha_map_use_count_decremented", am->common.alpha_count == m.acount - 1);
            mbefore.copy.common.alpha_count = am->common.alpha_count;
            VH_CHECK ("unref.last.alpha_map_otherwise_untouched",
                      ih_common_equal (&am->common, &mbefore.copy.common, 1, 0) && ih_specific_equal (am, &mbefore.copy));
            VH_CHECK ("unref.last.alpha_map_callback_not_run", ih_cb2_calls == 0);
        }
        if (am_dies)
            VH_CHECK ("unref.last.alpha_map_destroyed_with_its_callback_once", ih_cb2_calls == (m.has_destroy ? 1 : 0)
                                                                               && (!m.has_destroy || ih_cb2_args_ok));
#else
        /* ghost invariant: alpha_count == number of images that have this one attached.  The
         * destroyed image was one of them. */
        if (am && !am_dies)
            VH_CHECK ("unref.last.alpha_map_alpha_count_decremented", am->common.alpha_count == m.acount - 1);
#endif
        if (am && !am_dies)
            ih_release (am);
    }
    else
    {
        VH_CHECK ("unref.notlast.nothing_freed", vh_free_calls == frees0);
        if (vh_free_calls != frees0)
            { IH_STOP (); return; }
#ifndef VI_ACOUNT
        VH_CHECK ("unref.notlast.ref_count_minus_one", img->common.ref_count == a.ref - 1);
        VH_CHECK ("unref.notlast.nothing_else_changed", ih_common_equal (&img->common, &before.copy.common, 1, 0)
                                                        && ih_specific_equal (img, &before.copy));
        VH_CHECK ("unref.notlast.no_callback", ih_cb_calls == 0 && ih_cb2_calls == 0);
        if (am)
            VH_CHECK ("unref.notlast.alpha_map_untouched",
                      ih_common_equal (&am->common, &mbefore.copy.common, 0, 0) && ih_specific_equal (am, &mbefore.copy));
        /* still alive: every block can be read */
        VH_CHECK ("unref.notlast.blocks_alive",
                  ih_probe (img, sizeof *img) + ih_probe (ao.tr, ao.tr ? sizeof (pixman_transform_t) : 0)
                  + ih_probe (ao.fp, ao.fp ? 4 : 0) + ih_probe (ao.clip, ao.clip ? 4 : 0)
                  + ih_probe (ao.stops_block, ao.stops_block ? 4 : 0) + ih_probe (ao.free_me, ao.free_me ? 4 : 0) >= 0);
#endif
        ih_release (img);
        ih_release (am);
    }
    VH_END ();
}
