/* C08 (1), route D: repeat (PIXMAN_REPEAT_NORMAL, ...) — the two unbounded `while` loops under loop contracts
 * (props/C08.py: NORMAL_LOOPS), function contract below enforced on the real function of pixman-inlines.h.
 *
 *  -DVC_CONG=1  contract with the congruence  r == c (mod size)   (VC_SIZEMAX caps size if the full width does not close)
 *  -DVC_CONG=0  range + termination only: TRUE, 0 <= r < size, both loops terminate (decreases), for every int c and size >= 1
 */
#include <config.h>
#include "pixman-private.h"
#include "pixman-inlines.h"
#include "spec_sample.h"
#include "vh.h"

#ifndef VC_SIZEMAX
#define VC_SIZEMAX 2147483647
#endif

pixman_bool_t ct_repeat (pixman_repeat_t repeat, int *c, int size)
__CPROVER_requires (__CPROVER_is_fresh (c, sizeof (int)))
__CPROVER_requires (repeat == PIXMAN_REPEAT_NORMAL)
__CPROVER_requires (size >= 1 && size <= VC_SIZEMAX)
__CPROVER_assigns (*c)
__CPROVER_ensures (__CPROVER_return_value == 1)
__CPROVER_ensures (0 <= *c && *c < size)
#if VC_CONG
__CPROVER_ensures (((long long) __CPROVER_old (*c) - (long long) *c) % (long long) size == 0)
#endif
;

void harness (void)
{
    pixman_repeat_t mode;
    int *c;
    int size;
    repeat (mode, c, size);
    VH_END ();
}
