/* C08 (lead): pad_repeat_get_scanline_bounds (pixman-inlines.h), the helper every scaled NONE/PAD fast path (C and
 * SSE2, nearest and bilinear) uses to split a destination scanline into left padding, image part and right padding.
 * Spec from the property ("nearest takes floor(x - e)"; here the callers pass vx already biased by -e): pixel i of the
 * scanline samples the source column  floor ((vx + i*unit_x) / 65536);  it belongs to
 *      the left padding   iff  vx + i*unit_x <  0
 *      the right padding  iff  vx + i*unit_x >= source_width * 65536
 *      the image part     otherwise,
 * and the three parts are consecutive: [0,left_pad) [left_pad, left_pad+width') [.., width).
 * Ghost pixel index gi; bounded operand widths (the 64/32 division): source width < 2^VC_SWBITS, scanline width
 * < 2^VC_WBITS, 0 < unit_x < 2^VC_UBITS, vx any int32.
 */
#include <config.h>
#include "pixman-private.h"
#include "pixman-inlines.h"
#include "vh.h"

#ifndef VC_SWBITS
#define VC_SWBITS 15
#endif
#ifndef VC_WBITS
#define VC_WBITS 12
#endif
#ifndef VC_UBITS
#define VC_UBITS 20
#endif

void harness (void)
{
    VH_IN (vh_i32, in_sw);
    VH_IN (vh_i32, in_vx);
    VH_IN (vh_i32, in_ux);
    VH_IN (vh_i32, in_w);
    VH_IN (vh_i32, in_gi);
    int32_t width, left_pad, right_pad;
    long pos;

    VH_ASSUME (in_sw >= 1 && in_sw < (1 << VC_SWBITS));
    VH_ASSUME (in_w >= 0 && in_w < (1 << VC_WBITS));
    VH_ASSUME (in_ux >= 1 && in_ux < (1 << VC_UBITS));
    VH_ASSUME (in_gi >= 0 && in_gi < in_w);
    width = in_w;
    pad_repeat_get_scanline_bounds (in_sw, in_vx, in_ux, &width, &left_pad, &right_pad);
    pos = (long) in_vx + (long) in_gi * in_ux;
    VH_CHECK ("padbounds.parts_are_non_negative_and_add_up", left_pad >= 0 && right_pad >= 0 && width >= 0 &&
              (long) left_pad + width + right_pad == in_w);
    VH_CHECK ("padbounds.left_padding_iff_sample_left_of_image", (in_gi < left_pad) == (pos < 0));
    VH_CHECK ("padbounds.right_padding_iff_sample_right_of_image", (in_gi >= left_pad + width) == (pos >= ((long) in_sw << 16)));
    VH_END ();
}
