/* c08.h — common set-up of the C08 fetcher harnesses.
 *
 * The harness TU includes the REAL pixman-bits-image.c.  The image is built by hand: an a8r8g8b8 bits image whose
 * fetch_pixel_32 is the ghost image below, so that every query is about WHICH coordinates are read and with
 * WHICH weights, not about pixel formats (C10).
 *
 * Ghost image: a function of the coordinates given by NG free points (g_x[k], g_y[k]) -> g_v[k] and a default value
 * for every other coordinate.  The points are harness inputs and are NOT tied to the expected coordinates: the
 * solver places them wherever they tell a right sample from a wrong one.  fetch_pixel_32 is only defined inside the
 * image: the stub carries the obligation `fetch.coordinates_inside_image` (the licence of the unchecked fetch).
 *
 * repeat(): with -DVC_REPMODEL=1 (CBMC build only) calls of repeat() from pixman-bits-image.c go to the spec's
 * functional repeat map (ss_repeat_map) abstracted as an uninterpreted function with range [0,size) instead of the real function; the real repeat() is checked against the
 * map itself by the repeat.* jobs (harness repeat.c, repeat_d.c).  Needed for NORMAL (unbounded while loops) and
 * REFLECT (symbolic remainder); NONE and PAD always run the real function.  The native replay always runs the real one.
 */
#ifndef C08_H
#define C08_H

#include <config.h>
#include "pixman-private.h"
#include "pixman-inlines.h"          /* the real repeat(), bilinear_interpolation() ... (include guard: not included again) */
#include "spec_sample.h"
#include "vh.h"

#ifdef VH_CBMC
#define C08_IN_ARRAY(type, name, n) type name[n]
#else
#define C08_IN_ARRAY(type, name, n)                                        \
    type name[n];                                                          \
    do { int i_; char b_[64];                                              \
         for (i_ = 0; i_ < (int) (n); i_++) {                              \
             snprintf (b_, sizeof b_, "%s[%d]", #name, i_);                \
             name[i_] = (type) VH_GET_I (b_); } } while (0)
#endif

#if defined (VH_CBMC) && defined (VC_REPMODEL) && VC_REPMODEL
/* "THE image of c under the repeat map": an uninterpreted function (functional consistency only) whose range is
 * [0, size) — exactly what the fetchers may rely on.  Code (through the macro below) and spec (c08_repmap) apply the
 * same symbol, so the query is about the ARGUMENT the fetcher passes to repeat(), for every map with that range. */
long long __CPROVER_uninterpreted_c08_repmap (long long mode, long long c, long long size);
static ss_i64 c08_repmap (int mode, ss_i64 c, ss_i64 size)
{
    ss_i64 r = __CPROVER_uninterpreted_c08_repmap (mode, c, size);
    __CPROVER_assume (r >= 0 && r < size);
    return r;
}
static pixman_bool_t c08_model_repeat (pixman_repeat_t mode, int *c, int size)
{
    __CPROVER_assert (size >= 1, "licence.repeat.size_positive");
    __CPROVER_assert (mode == PIXMAN_REPEAT_NORMAL || mode == PIXMAN_REPEAT_REFLECT, "model.repeat.only_normal_reflect");
    *c = (int) c08_repmap ((int) mode, *c, size);
    return TRUE;
}
#define repeat(m, c, s) c08_model_repeat (m, c, s)
#else
#define c08_repmap(mode, c, size) ss_repeat_map (mode, c, size)
#endif

#if defined (VH_CBMC) && defined (VC_BLENDMODEL) && VC_BLENDMODEL
/* bilinear_interpolation() abstracted as an uninterpreted function of its six arguments (the function itself is
 * checked by the bilin.* jobs): the query is about the four neighbours and the two weights handed to it. */
unsigned __CPROVER_uninterpreted_c08_blend (unsigned tl, unsigned tr, unsigned bl, unsigned br, int wx, int wy);
#define bilinear_interpolation(tl, tr, bl, br, wx, wy) __CPROVER_uninterpreted_c08_blend (tl, tr, bl, br, wx, wy)
#endif

#ifndef VC_NG
#define VC_NG 1
#endif
static int g_x[VC_NG], g_y[VC_NG];
static uint32_t g_v[VC_NG], g_other;
static int g_w, g_h;
static int g_fetches;

static uint32_t ghost_pixel (ss_i64 x, ss_i64 y)
{
    int k;
    for (k = 0; k < VC_NG; k++)
        if (x == g_x[k] && y == g_y[k])
            return g_v[k];
    return g_other;
}

static uint32_t c08_fetch_pixel_32 (bits_image_t *image, int x, int y)
{
    VH_CHECK ("fetch.coordinates_inside_image", x >= 0 && x < g_w && y >= 0 && y < g_h);
    g_fetches++;
    return ghost_pixel (x, y);
}

/* the pixel of the virtually repeated image at integer position (cx, cy), per the property text */
static uint32_t spec_pixel (int mode, ss_i64 cx, ss_i64 cy)
{
    if (mode == SS_NONE)
        return (SS_INSIDE (cx, g_w) && SS_INSIDE (cy, g_h)) ? ghost_pixel (cx, cy) : 0u;
    return ghost_pixel (c08_repmap (mode, cx, g_w), c08_repmap (mode, cy, g_h));
}

/* largest size of an a8r8g8b8 image create_bits accepts: width * 32 must fit an int */
#define C08_SIZE_MAX  ((1 << 26) - 1)

#define C08_GHOST_INPUTS()                                   \
    C08_IN_ARRAY (vh_i32, in_gx, VC_NG);                     \
    C08_IN_ARRAY (vh_i32, in_gy, VC_NG);                     \
    C08_IN_ARRAY (vh_u32, in_gv, VC_NG);                     \
    VH_IN (vh_u32, in_gother);                               \
    VH_IN (vh_i32, in_w);                                    \
    VH_IN (vh_i32, in_h)

#define C08_GHOST_SETUP()                                                            \
    do { int k_;                                                                     \
         for (k_ = 0; k_ < VC_NG; k_++) { g_x[k_] = in_gx[k_]; g_y[k_] = in_gy[k_]; g_v[k_] = in_gv[k_]; } \
         g_other = in_gother; g_w = in_w; g_h = in_h;                                \
         VH_ASSUME (in_w >= 1 && in_w <= C08_SIZE_MAX && in_h >= 1 && in_h <= C08_SIZE_MAX); } while (0)

/* img must be a zero-initialised (static) object.  It is a bits_image_t (the struct), not the pixman_image_t union:
 * union members are not tracked field by field, and the constant repeat/filter of a job must stay constants for the
 * symbolic execution (otherwise every repeat branch, incl. the while loops and the remainder, ends up in the formula). */
static void c08_image_init (bits_image_t *img, pixman_repeat_t rep, pixman_filter_t filter, pixman_fixed_t *params, int n_params)
{
    img->common.type = BITS;
    img->common.ref_count = 1;
    img->common.repeat = rep;
    img->common.filter = filter;
    img->common.filter_params = params;
    img->common.n_filter_params = n_params;
    img->common.transform = 0;
    img->common.alpha_map = 0;
    img->format = PIXMAN_a8r8g8b8;
    img->width = g_w;
    img->height = g_h;
    img->bits = 0;            /* never touched: every access goes through fetch_pixel_32 */
    img->rowstride = g_w;
    img->fetch_pixel_32 = c08_fetch_pixel_32;
}

#if defined (VH_REPLAY) && !defined (C08_OWN_T3D)
/* native replay only: the iterator table of pixman-bits-image.c references it; never called by these harnesses */
PIXMAN_EXPORT pixman_bool_t pixman_transform_point_3d (const struct pixman_transform *t, struct pixman_vector *v) { abort (); }
#endif

#define A_SIZE "image width/height in [1, 2^26-1] (an a8r8g8b8 image pixman_image_create_bits can allocate)"

#endif
