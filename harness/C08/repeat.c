/* C08 (1): repeat() and MOD of pixman-inlines.h / pixman-private.h against the repeat maps of spec_sample.h.
 *
 *  -DVC_MODE=0 NONE     returns FALSE <=> coordinate outside [0,size); coordinate never changed
 *  -DVC_MODE=1 NORMAL   route H: 0 <= r < size, r == c (mod size)        [bounded: |c| <= VC_K*size, loops unwound]
 *  -DVC_MODE=2 PAD      clamp
 *  -DVC_MODE=3 REFLECT  mirror, period 2*size, incl. size == 1
 *  -DVC_MODE=4          MOD(a,b) is the mathematical (non-negative) remainder
 *  -DVC_MODE=5          REFLECT with size == 1 pinned (every coordinate maps to 0) and size == 2 table
 */
#include <config.h>
#include "pixman-private.h"
#include "pixman-inlines.h"
#include "spec_sample.h"
#include "vh.h"

void harness (void)
{
    VH_IN (vh_i32, in_c);
    VH_IN (vh_i32, in_size);
    int c = in_c;
    pixman_bool_t ret;

#ifdef VC_NARROW
    /* bounded operand widths (the remainder by a symbolic 31-bit size does not finish): c in [-2^17, 2^17), size < 2^VC_NARROW;
     * built by masking so that the high bits are constants for the bit-level encoding */
    in_c = (in_c & 0x3ffff) - 0x20000;
    in_size = in_size & ((1 << VC_NARROW) - 1);
    c = in_c;
#endif
#ifdef VC_SIZEFIX
    /* bounded stand-in: one fixed size per query (constant divisor), every coordinate */
    in_size = VC_SIZEFIX;
#endif
    VH_ASSUME (in_size >= 1);

#if VC_MODE == 0
    ret = repeat (PIXMAN_REPEAT_NONE, &c, in_size);
    VH_CHECK ("repeat.none.false_iff_outside", (ret == FALSE) == !SS_INSIDE (in_c, in_size));
    VH_CHECK ("repeat.none.result_is_boolean", ret == FALSE || ret == TRUE);
    VH_CHECK ("repeat.none.coordinate_unchanged", c == in_c);
#elif VC_MODE == 1
    VH_ASSUME ((ss_i64) in_c >= -(ss_i64) VC_K * in_size && (ss_i64) in_c <= (ss_i64) VC_K * in_size);
    ret = repeat (PIXMAN_REPEAT_NORMAL, &c, in_size);
    VH_CHECK ("repeat.normal.returns_true", ret == TRUE);
    VH_CHECK ("repeat.normal.in_range", SS_INSIDE (c, in_size));
    VH_CHECK ("repeat.normal.congruent_mod_size", SS_IS_NORMAL (in_c, in_size, c));
#elif VC_MODE == 2
    ret = repeat (PIXMAN_REPEAT_PAD, &c, in_size);
    VH_CHECK ("repeat.pad.returns_true", ret == TRUE);
    VH_CHECK ("repeat.pad.clamps", SS_IS_PAD (in_c, in_size, c));
#elif VC_MODE == 3
    /* call-site domain: 2*size must be an int; -c must be an int (c is the integer part of a 16.16 number +- a kernel width) */
    VH_ASSUME (in_size <= VC_SIZEMAX);
    VH_ASSUME (in_c > -2147483647 - 1);
    ret = repeat (PIXMAN_REPEAT_REFLECT, &c, in_size);
    VH_CHECK ("repeat.reflect.returns_true", ret == TRUE);
    VH_CHECK ("repeat.reflect.in_range", SS_INSIDE (c, in_size));
    VH_CHECK ("repeat.reflect.mirror_period_2size", SS_IS_REFLECT (in_c, in_size, c));
    VH_CHECK ("repeat.reflect.equals_functional_map", c == ss_repeat_map (SS_REFLECT, in_c, in_size));
#elif VC_MODE == 4
    {
        int m;
        VH_ASSUME (in_size <= VC_SIZEMAX);
        VH_ASSUME (in_c > -2147483647 - 1);
        m = MOD (in_c, in_size);
        VH_CHECK ("mod.in_range", SS_INSIDE (m, in_size));
        VH_CHECK ("mod.congruent", ((ss_i64) in_c - m) % in_size == 0);
    }
#elif VC_MODE == 5
    VH_ASSUME (in_c > -2147483647 - 1);
    VH_ASSUME (in_size <= 2);
    ret = repeat (PIXMAN_REPEAT_REFLECT, &c, in_size);
    VH_CHECK ("repeat.reflect.returns_true", ret == TRUE);
    if (in_size == 1)
        VH_CHECK ("repeat.reflect.size1_maps_everything_to_0", c == 0);
    else
    {
        /* ... 1 0 | 0 1 | 1 0 | 0 1 ...   (pixel 0 at c = 0, 3, 4, 7, ...; c = -1 mirrors to 0) */
        int q = (int) (((ss_i64) in_c + 4294967296LL) & 3);       /* c mod 4, mathematical */
        VH_CHECK ("repeat.reflect.size2_table", c == ((q == 0 || q == 3) ? 0 : 1));
    }
#endif
    VH_END ();
}
