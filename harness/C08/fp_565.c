/* C08 (b-sample2): the r5g6b5 scanline iterators of pixman-fast-path.c (fast_iters[] entries 0..2)
 *      fast_fetch_r5g6b5        row of r5g6b5 pixels  ->  a8r8g8b8 buffer     (untransformed source / destination fetch)
 *      fast_write_back_r5g6b5   a8r8g8b8 buffer       ->  row of r5g6b5 pixels
 * "the fetched value equals this reference ... whichever internal fetcher is used": with the identity transform the
 * reference sample of destination pixel k is source pixel (x + k, y); its value is what the format NAME says
 * (spec_format.h: r5g6b5 = red 15..11, green 10..5, blue 4..0, bit-replicated to 8 bits, absent alpha = 0xff; stored
 * pixel = the most significant 5/6/5 bits of the 8-bit channels).
 *
 *  -DVC_CASE=0 fetch, 1 write back.   Row of VC_WMAX + 2 pixels per line, two lines; the scanline starts at pixel in_start
 *  (0 or 1: 4-byte aligned or not: the fetcher has an alignment prologue) and has in_w <= VC_WMAX pixels.
 *  iter->bits / iter->stride as _pixman_iter_init_bits_stride sets them (bits = first pixel of the current line,
 *  stride in bytes; get_scanline advances bits by one line, write_back addresses bits - stride).
 */
#include "vh.h"
#include <stdlib.h>
#include "spec_format.h"
#include "pixman-fast-path.c"

#ifndef VC_WMAX
#define VC_WMAX 7
#endif
#ifndef VC_CASE
#define VC_CASE 0
#endif
#define ROWPIX (VC_WMAX + 3)                  /* odd number of pixels + 1: a multiple of 2 -> rows stay 4-byte aligned */
#define ROWW   ((ROWPIX + 1) / 2)             /* words per line */

PIXMAN_EXPORT pixman_bool_t
pixman_transform_point_3d (const struct pixman_transform *transform, struct pixman_vector *vector)
{
    (void) transform; (void) vector;
    return FALSE;       /* never called by these iterators */
}

#ifdef VH_CBMC
#define IN_ARRAY(type, name, n) type name[n]
#else
#define IN_ARRAY(type, name, n) type name[n]; do { int i_; char b_[64]; for (i_ = 0; i_ < (int) (n); i_++) { \
    snprintf (b_, sizeof b_, "%s[%d]", #name, i_); name[i_] = (type) VH_GET_I (b_); } } while (0)
#endif

void harness (void)
{
    IN_ARRAY (uint32_t, in_row, 2 * ROWW);          /* two lines of r5g6b5 pixels */
    IN_ARRAY (uint32_t, in_buf, VC_WMAX + 1);       /* the a8r8g8b8 scanline buffer (old contents / data to write back) */
    VH_IN (vh_u8, in_w);
    VH_IN (vh_u8, in_start);
    VH_IN (vh_u8, in_line);
    VH_IN (vh_u8, in_gk);
    static pixman_iter_t iter;
    uint32_t buffer[VC_WMAX + 1];
    uint32_t rows[2 * ROWW];
    const uint8_t *rb;
    uint32_t *ret;
    int w = in_w, gk = in_gk, line = in_line, i;

    VH_ASSUME (w <= VC_WMAX && in_start <= 1 && line <= 1 && gk <= VC_WMAX);
    for (i = 0; i < 2 * ROWW; i++) rows[i] = in_row[i];
    for (i = 0; i <= VC_WMAX; i++) buffer[i] = in_buf[i];

    iter.width = w;
    iter.buffer = buffer;
    iter.stride = ROWW * 4;
    iter.bits = (uint8_t *) rows + line * (ROWW * 4) + in_start * 2;

#if VC_CASE == 0
    ret = fast_fetch_r5g6b5 (&iter, (const uint32_t *) 0);
    VH_CHECK ("fetch565.returns_buffer", ret == buffer);
    VH_CHECK ("fetch565.bits_advanced_by_one_line", iter.bits == (uint8_t *) rows + (line + 1) * (ROWW * 4) + in_start * 2);
    rb = (const uint8_t *) in_row + line * (ROWW * 4);
    if (gk < w)
        VH_CHECK ("fetch565.pixel_k_is_source_pixel_x_plus_k_widened_per_format_name",
                  buffer[gk] == SF_WIDEN_PIX (r5g6b5, SF_RAW (r5g6b5, rb, in_start + gk)));
    else
        VH_CHECK ("fetch565.nothing_written_beyond_width", buffer[gk] == in_buf[gk]);
    for (i = 0; i < 2 * ROWW; i++)
        VH_CHECK ("fetch565.source_unchanged", rows[i] == in_row[i]);
#else
    iter.bits += iter.stride;                       /* state after get_scanline of this line */
    fast_write_back_r5g6b5 (&iter);
    {
        /* pixel index gp of the two-line storage, seen as bytes */
        VH_IN (vh_u8, in_gp);
        int gp = in_gp, first = line * (ROWW * 2) + in_start;
        uint32_t now, was;
        VH_ASSUME (gp < 2 * ROWW * 2);
        rb = (const uint8_t *) rows;
        now = SF_RAW (r5g6b5, rb, gp);
        rb = (const uint8_t *) in_row;
        was = SF_RAW (r5g6b5, rb, gp);
        if (gp >= first && gp < first + w)
            VH_CHECK ("writeback565.pixel_k_is_top_5_6_5_bits_of_buffer_k", now == SF_NARROW_PIX (r5g6b5, in_buf[gp - first]));
        else
            VH_CHECK ("writeback565.nothing_written_outside_the_scanline", now == was);
    }
    for (i = 0; i <= VC_WMAX; i++)
        VH_CHECK ("writeback565.buffer_unchanged", buffer[i] == in_buf[i]);
#endif
    VH_END ();
}
