/* C08 (b-sample2): the "bilinear cover" iterator of pixman-fast-path.c
 *      fast_bilinear_cover_iter_init / fast_fetch_bilinear_cover / fetch_horizontal / bilinear_cover_iter_fini
 * (a8r8g8b8 source, scaling transform, BILINEAR filter, flag SAMPLES_COVER_CLIP_BILINEAR; no repeat handling at all).
 *
 * Reference (property text): pixel i of scanline j samples the source at  (X, Y) = v + (i * sx, j * sy),  v = T (centre of
 * the first pixel), sx, sy the diagonal of the scaling matrix; the value is the blend of the four neighbours of
 * (X - 1/2, Y - 1/2) with the 7-bit weights, per channel
 *      (tl (256-dx)(256-dy) + tr dx (256-dy) + bl (256-dx) dy + br dx dy) >> 16,   dx = 2 wx, dy = 2 wy     (SS_BILIN_CH).
 * The iterator computes this in two passes (a cached horizontal pass per source line in 64-bit lanes, then a vertical
 * pass): nothing is truncated in between, so the value must be the same number.
 *
 * Precondition = the meaning of FAST_PATH_SAMPLES_COVER_CLIP_BILINEAR (pixman.c, analyze_extent): for every sample of the
 * composite,  floor (X - 1/2) >= 0  and  floor (X + 1/2) < width  (same for Y): all four neighbours are pixels of the image.
 *
 * The iterator is obtained the way the library obtains it: _pixman_implementation_iter_init over fast_iters[] with the
 * flags of such an image.  Two consecutive scanlines are fetched (the second one can hit the line cache).
 * One channel (VC_CH) and one weight pair (VC_WX, VC_WY) per query, whole-pixel steps (so that every sample has that pair):
 * the products with symbolic weights do not finish (see the bilin.* jobs).
 */
#include "vh.h"
#include <stdlib.h>
#include "spec_sample.h"
#include "pixman-fast-path.c"
#include "pixman-implementation.c"

#ifndef VC_W
#define VC_W 2
#endif
#ifndef VC_CH
#define VC_CH 0
#endif
#define VC_SW 4
#define VC_SH 4          /* 4 lines: a step of -2 lines after lines (2,3) leaves a stale cached line 3 where line 1 is wanted */
#define RS 5

static pixman_vector_t m_out;
static pixman_bool_t m_ok;
static int m_calls, m_arg_ok;
static int m_cx, m_cy;
PIXMAN_EXPORT pixman_bool_t
pixman_transform_point_3d (const struct pixman_transform *transform, struct pixman_vector *vector)
{
    (void) transform;
    m_calls++;
    m_arg_ok = (vector->vector[0] == m_cx && vector->vector[1] == m_cy && vector->vector[2] == 65536);
    *vector = m_out;
    return m_ok;
}

#ifdef VH_CBMC
#define IN_ARRAY(type, name, n) type name[n]
#else
#define IN_ARRAY(type, name, n) type name[n]; do { int i_; char b_[64]; for (i_ = 0; i_ < (int) (n); i_++) { \
    snprintf (b_, sizeof b_, "%s[%d]", #name, i_); name[i_] = (type) VH_GET_I (b_); } } while (0)
#endif

void harness (void)
{
    IN_ARRAY (uint32_t, in_px, VC_SH * RS);
    VH_IN (vh_i32, in_vx);
    VH_IN (vh_i32, in_vy);
    VH_IN (vh_i32, in_sx);
    VH_IN (vh_i32, in_sy);
    VH_IN (vh_i16, in_offset);
    VH_IN (vh_i16, in_line);
    VH_IN (vh_u8, in_gk);
    VH_IN (vh_u8, in_gl);
    static bits_image_t img;
    static pixman_transform_t tr;
    static pixman_iter_t iter;
    static pixman_implementation_t imp;
    uint32_t buffer[VC_W + 1], line_out[2][VC_W + 1], *ret[2] = { 0, 0 };
    uint32_t flags;
    int gk = in_gk, gl = in_gl, i, j;
    vh_i32 vx = in_vx, vy = in_vy, sx = in_sx, sy = in_sy;
    ss_i64 X, Y, x1, y1;

    VH_ASSUME (gk < VC_W && gl < 2);
    VH_ASSUME (in_sx > -(8 << 16) && in_sx < (8 << 16) && in_sy > -(8 << 16) && in_sy < (8 << 16));
#ifdef VC_WX
    /* the weight pair of the FIRST sample is fixed by the job: bits 9..15 of v - 1/2 are built as constants (masking, so
     * that they are constants for the bit-level encoding too), every other bit of v stays free */
    vx = (vh_i32) ((((uint32_t) in_vx & 0xffff01ffu) | ((uint32_t) VC_WX << 9)) + 0x8000u);
    vy = (vh_i32) ((((uint32_t) in_vy & 0xffff01ffu) | ((uint32_t) VC_WY << 9)) + 0x8000u);
    /* ... and the steps are whole pixels, so that every sample of the two scanlines has that weight pair (the second
     * scanline exercises the line cache: sy = 0 hits both cached lines, sy = +-1 one of them) */
    sx = (vh_i32) ((uint32_t) in_sx & 0xffff0000u);
    sy = (vh_i32) ((uint32_t) in_sy & 0xffff0000u);
#endif
    /* SAMPLES_COVER_CLIP_BILINEAR: the four neighbours of every sample are pixels of the image */
    for (j = 0; j < 2; j++)
        for (i = 0; i < VC_W; i++)
        {
            X = (ss_i64) vx + i * (ss_i64) sx; Y = (ss_i64) vy + j * (ss_i64) sy;
            VH_ASSUME (SS_BILIN_INDEX (X) >= 0 && SS_BILIN_INDEX (X) + 1 < VC_SW && SS_BILIN_INDEX (Y) >= 0 && SS_BILIN_INDEX (Y) + 1 < VC_SH);
        }
    X = (ss_i64) vx + gk * (ss_i64) sx; Y = (ss_i64) vy + gl * (ss_i64) sy;

    memset (&img, 0, sizeof img);
    img.common.type = BITS;
    img.common.repeat = PIXMAN_REPEAT_NONE;
    img.common.filter = PIXMAN_FILTER_BILINEAR;
    tr.matrix[0][0] = sx;
    tr.matrix[1][1] = sy;
    tr.matrix[2][2] = pixman_fixed_1;
    img.common.transform = &tr;
    img.format = PIXMAN_a8r8g8b8;
    img.common.extended_format_code = PIXMAN_a8r8g8b8;
    img.width = VC_SW; img.height = VC_SH; img.rowstride = RS; img.bits = in_px;

    m_out.vector[0] = vx; m_out.vector[1] = vy; m_out.vector[2] = pixman_fixed_1;
    m_ok = TRUE;
    m_cx = in_offset * 65536 + 32768;
    m_cy = in_line * 65536 + 32768;
    for (i = 0; i <= VC_W; i++)
        buffer[i] = 0x12345678;

    /* flags of a BITS a8r8g8b8 image without alpha map / accessors, scaling transform, BILINEAR filter, NONE repeat, whose
     * samples cover the clip */
    flags = FAST_PATH_NO_ALPHA_MAP | FAST_PATH_NO_ACCESSORS | FAST_PATH_NARROW_FORMAT | FAST_PATH_NO_CONVOLUTION_FILTER |
            FAST_PATH_BITS_IMAGE | FAST_PATH_HAS_TRANSFORM | FAST_PATH_AFFINE_TRANSFORM | FAST_PATH_SCALE_TRANSFORM |
            FAST_PATH_BILINEAR_FILTER | FAST_PATH_SAMPLES_COVER_CLIP_BILINEAR |
            FAST_PATH_NO_NORMAL_REPEAT | FAST_PATH_NO_PAD_REPEAT | FAST_PATH_NO_REFLECT_REPEAT;
    imp.iter_info = fast_iters;
    imp.fallback = 0;
    iter.get_scanline = 0;
    iter.fini = 0;
    _pixman_implementation_iter_init (&imp, &iter, (pixman_image_t *) &img, in_offset, in_line, VC_W, 2,
                                      (uint8_t *) buffer, (iter_flags_t) (ITER_NARROW | ITER_SRC), flags);
    VH_CHECK ("cover.fast_iters_has_an_entry_for_this_image", iter.get_scanline != 0);
    if (iter.get_scanline)
        for (j = 0; j < 2; j++)
        {
            ret[j] = iter.get_scanline (&iter, (const uint32_t *) 0);
            for (i = 0; i <= VC_W; i++)
                line_out[j][i] = buffer[i];
        }
    if (iter.fini)
        iter.fini (&iter);

    VH_CHECK ("cover.returns_buffer", ret[0] == buffer && ret[1] == buffer);
    VH_CHECK ("cover.transform_called_once_with_pixel_centre", m_calls == 1 && m_arg_ok);
    VH_CHECK ("cover.nothing_written_beyond_width", line_out[gl][VC_W] == 0x12345678);
    x1 = SS_BILIN_INDEX (X); y1 = SS_BILIN_INDEX (Y);
    {
        uint32_t tl = in_px[y1 * RS + x1], tr_ = in_px[y1 * RS + x1 + 1];
        uint32_t bl = in_px[(y1 + 1) * RS + x1], br = in_px[(y1 + 1) * RS + x1 + 1];
        VH_CHECK ("cover.pixel_i_of_line_j_is_blend_of_four_neighbours_with_7bit_weights",
                  SS_CH (line_out[gl][gk], VC_CH) ==
                  SS_BILIN_CH (SS_CH (tl, VC_CH), SS_CH (tr_, VC_CH), SS_CH (bl, VC_CH), SS_CH (br, VC_CH), SS_BILIN_W7 (X), SS_BILIN_W7 (Y)));
    }
    VH_END ();
}
