/* C08 (4): the scanline iterators of pixman-bits-image.c on the ghost image of c08.h.
 *
 *  -DVC_ITER=0  __bits_image_fetch_affine_no_alpha (via bits_image_fetch_affine_no_alpha_32): the pixel written at index i
 *               is the NEAREST sample at  v + i * (ux, uy),  v = T (pixel centre);  masked-out pixels are not written;
 *               nothing beyond `width` is written.
 *  -DVC_ITER=1  __bits_image_fetch_general (via bits_image_fetch_general_32): the pixel at index i is the NEAREST sample at
 *               ( trunc ((x + i ux) * 65536 / (w + i uw)),  same for y )  — SIGNED quotient (property: "affine and projective
 *               alike"); w == 0 samples position (0,0).
 *               -DVC_SIGNED=0: homogeneous x, y >= 0 (and w > 0); -DVC_SIGNED=1: any sign of x, y (job finding.general.*).
 *               Operand widths are bounded (VC_XBITS, VC_WBITS): the full-width 64-bit division does not finish.
 *  Width <= VC_WMAX pixels (loop unwound).  Filter NEAREST, repeat VC_REP.
 *
 *  pixman_transform_point_3d (pixman-matrix.c, property C11) is replaced by a model defined here (CBMC and native
 *  build alike): it checks that it is handed the centre of the first pixel and returns the harness-chosen vector /
 *  verdict, i.e. "v is whatever T maps the centre to".
 */
#define C08_OWN_T3D 1
#include "c08.h"
#include "pixman-bits-image.c"

#ifndef VC_WMAX
#define VC_WMAX 3
#endif

static pixman_vector_t m_out;
static pixman_bool_t m_ok;
static int m_calls, m_arg_ok;
static int m_cx, m_cy;

PIXMAN_EXPORT pixman_bool_t
pixman_transform_point_3d (const struct pixman_transform *transform, struct pixman_vector *vector)
{
    m_calls++;
    m_arg_ok = (vector->vector[0] == m_cx && vector->vector[1] == m_cy && vector->vector[2] == 65536);
    *vector = m_out;
    return m_ok;
}

void harness (void)
{
    C08_GHOST_INPUTS ();
    VH_IN (vh_i32, in_vx);
    VH_IN (vh_i32, in_vy);
    VH_IN (vh_i32, in_vw);
    VH_IN (vh_i32, in_ux);
    VH_IN (vh_i32, in_uy);
    VH_IN (vh_i32, in_uw);
    VH_IN (vh_u8, in_has_transform);
    VH_IN (vh_u8, in_ok);
    VH_IN (vh_u8, in_use_mask);
    VH_IN (vh_i16, in_offset);
    VH_IN (vh_i16, in_line);
    VH_IN (vh_u8, in_width);
    VH_IN (vh_u8, in_gk);
    VH_IN (vh_u32, in_buf0);
    C08_IN_ARRAY (vh_u32, in_mask, VC_WMAX);
    static bits_image_t img;
    static pixman_transform_t tr;
    static pixman_iter_t iter;
    uint32_t buffer[VC_WMAX + 1], mask[VC_WMAX], *ret;
    int width = in_width, gk = in_gk, i, written;
    ss_i64 vx, vy, vw, ux, uy, uw, X, Y, W, ex, ey;

    C08_GHOST_SETUP ();
    VH_ASSUME (width >= 0 && width <= VC_WMAX && gk <= VC_WMAX);
    c08_image_init (&img, (pixman_repeat_t) VC_REP, PIXMAN_FILTER_NEAREST, 0, 0);

    for (i = 0; i <= VC_WMAX; i++)
        buffer[i] = in_buf0;
    for (i = 0; i < VC_WMAX; i++)
        mask[i] = in_mask[i];

    if (in_has_transform)
    {
        tr.matrix[0][0] = in_ux;
        tr.matrix[1][0] = in_uy;
        tr.matrix[2][0] = in_uw;
        img.common.transform = &tr;
        vx = in_vx; vy = in_vy; vw = in_vw; ux = in_ux; uy = in_uy; uw = in_uw;
#if VC_ITER == 1 && !VC_SIGNED
        /* bounded operand widths, built by masking so that the high bits are constants for the bit-level encoding */
        vx = in_vx & ((1 << VC_XBITS) - 1); vy = in_vy & ((1 << VC_XBITS) - 1); vw = in_vw & ((1 << VC_WBITS) - 1);
        ux = in_ux & ((1 << VC_XBITS) - 1); uy = in_uy & ((1 << VC_XBITS) - 1); uw = in_uw & ((1 << VC_WBITS) - 1);
        tr.matrix[0][0] = (pixman_fixed_t) ux;
        tr.matrix[1][0] = (pixman_fixed_t) uy;
        tr.matrix[2][0] = (pixman_fixed_t) uw;
#endif
    }
    else
    {
        /* no transform: the identity */
        vx = (ss_i64) in_offset * SS_ONE + SS_HALF; vy = (ss_i64) in_line * SS_ONE + SS_HALF; vw = SS_ONE;
        ux = SS_ONE; uy = 0; uw = 0;
    }
#if VC_ITER == 0
    vw = SS_ONE; uw = 0;          /* affine: the homogeneous coordinate is 1 and is not looked at */
#endif
    m_out.vector[0] = (pixman_fixed_t) vx; m_out.vector[1] = (pixman_fixed_t) vy; m_out.vector[2] = (pixman_fixed_t) vw;
    m_ok = in_ok ? TRUE : FALSE;
    m_cx = in_offset * 65536 + 32768;
    m_cy = in_line * 65536 + 32768;

#if VC_ITER == 1
    /* bounded operand widths */
#if VC_SIGNED
    VH_ASSUME (vx > -(1LL << VC_XBITS) && vx < (1LL << VC_XBITS) && vy > -(1LL << VC_XBITS) && vy < (1LL << VC_XBITS));
#else
    VH_ASSUME (vx >= 0 && vx < (1LL << VC_XBITS) && vy >= 0 && vy < (1LL << VC_XBITS));
    VH_ASSUME (ux >= 0 && uy >= 0);
#endif
    VH_ASSUME (vw >= 1 && vw < (1LL << VC_WBITS) && uw >= 0 && uw < (1LL << VC_WBITS));
    VH_ASSUME (ux > -(1LL << VC_XBITS) && ux < (1LL << VC_XBITS) && uy > -(1LL << VC_XBITS) && uy < (1LL << VC_XBITS));
#endif
    /* every position v + i u, i = 0 .. width, is a 16.16 number (the code steps once past the last pixel) */
    for (i = 0; i <= VC_WMAX; i++)
        if (i <= width)
        {
            X = vx + i * ux; Y = vy + i * uy; W = vw + i * uw;
            VH_ASSUME (X > -2147483648LL && X <= 2147483647LL && Y > -2147483648LL && Y <= 2147483647LL &&
                       W > -2147483648LL && W <= 2147483647LL);
#if VC_ITER == 1
            /* ... and so is the projected position */
            if (W != 0 && i < width)
                VH_ASSUME (SS_PROJ (X, W) > -2147483648LL && SS_PROJ (X, W) <= 2147483647LL &&
                           SS_PROJ (Y, W) > -2147483648LL && SS_PROJ (Y, W) <= 2147483647LL);
#endif
        }

    iter.image = (pixman_image_t *) &img;
    iter.x = in_offset;
    iter.y = in_line;
    iter.width = width;
    iter.buffer = buffer;

#if VC_ITER == 0
    ret = bits_image_fetch_affine_no_alpha_32 (&iter, in_use_mask ? mask : (uint32_t *) 0);
#else
    ret = bits_image_fetch_general_32 (&iter, in_use_mask ? mask : (uint32_t *) 0);
#endif

    VH_CHECK ("iter.returns_buffer", ret == buffer);
    VH_CHECK ("iter.line_advanced", iter.y == in_line + 1);
    VH_CHECK ("iter.transform_called_with_pixel_centre", in_has_transform ? (m_calls == 1 && m_arg_ok) : m_calls == 0);
    VH_CHECK ("iter.nothing_written_beyond_width", gk < width || buffer[gk] == in_buf0);
    written = !(in_has_transform && !in_ok) && !(in_use_mask && gk < VC_WMAX && mask[gk] == 0);
    if (gk < width && !written)
        VH_CHECK ("iter.masked_or_untransformable_pixel_not_written", buffer[gk] == in_buf0);
    if (gk < width && written)
    {
        X = vx + gk * ux; Y = vy + gk * uy; W = vw + gk * uw;
#if VC_ITER == 0
        ex = X; ey = Y;
        VH_CHECK ("affine.pixel_i_sampled_at_v_plus_i_u",
                  buffer[gk] == spec_pixel (VC_REP, SS_NEAREST_INDEX (ex), SS_NEAREST_INDEX (ey)));
#else
        if (W != 0) { ex = SS_PROJ (X, W); ey = SS_PROJ (Y, W); } else { ex = 0; ey = 0; }
        VH_CHECK ("general.pixel_i_sampled_at_signed_quotient_x_over_w",
                  buffer[gk] == spec_pixel (VC_REP, SS_NEAREST_INDEX (ex), SS_NEAREST_INDEX (ey)));
#endif
    }
    VH_END ();
}
