/* C08 / C02 (lead): the C fast-path separable-convolution fetcher (pixman-fast-path.c,
 * bits_image_fetch_separable_convolution_affine) samples the kernel window where rounding.txt puts it —
 * "the fetched value equals this reference ... whichever internal fetcher is used".
 *
 * Kernel VC_CW x VC_CH, 0 subsample bits, ONE-HOT weights: tap (tj, ti) (symbolic) has weight 1.0, all others 0,
 * so the fetched pixel must be exactly the source pixel at  (x1 + tj, y1 + ti)  with
 *      x1 = floor (xc - e - (VC_CW - 1)/2),   xc = the sample position rounded to the centre of its phase,
 * (same for y), mapped by the repeat mode (NORMAL here: a 4x4 a8r8g8b8 image with 16 symbolic pixels).
 * pixman_transform_point_3d is a stub returning the harness-chosen position (C11 owns the real one).
 */
#include "vh.h"
#include <stdlib.h>
#include "spec_sample.h"
#include "pixman-fast-path.c"

#ifndef VC_CW
#define VC_CW 1
#endif
#ifndef VC_CH
#define VC_CH 3
#endif

static pixman_fixed_t m_vx, m_vy;
PIXMAN_EXPORT pixman_bool_t
pixman_transform_point_3d (const struct pixman_transform *transform, struct pixman_vector *vector)
{
    (void) transform;
    vector->vector[0] = m_vx; vector->vector[1] = m_vy; vector->vector[2] = pixman_fixed_1;
    return TRUE;
}

#ifdef VH_CBMC
#define IN_ARRAY(type, name, n) type name[n]
#else
#define IN_ARRAY(type, name, n) type name[n]; do { int i_; char b_[64]; for (i_ = 0; i_ < (int) (n); i_++) { \
    snprintf (b_, sizeof b_, "%s[%d]", #name, i_); name[i_] = (type) VH_GET_I (b_); } } while (0)
#endif

void harness (void)
{
    IN_ARRAY (uint32_t, in_px, 16);
    VH_IN (vh_i32, in_vx);
    VH_IN (vh_i32, in_vy);
    VH_IN (vh_u8, in_tj);
    VH_IN (vh_u8, in_ti);
    static bits_image_t img;
    static pixman_transform_t tr;
    pixman_fixed_t params[4 + VC_CW + VC_CH];
    uint32_t buffer[2] = { 0, 0x12345678 };
    ss_i64 xc, yc, x1, y1, sx, sy;
    int k;

    VH_ASSUME (in_tj < VC_CW && in_ti < VC_CH);
    /* positions within +-12 pixels of the 4x4 source: the NORMAL-repeat while loops of repeat() then run <= 5 times
     * (unwinding assertion); the window arithmetic under check does not depend on the magnitude */
    VH_ASSUME (in_vx > -(12 << 16) && in_vx < (12 << 16) && in_vy > -(12 << 16) && in_vy < (12 << 16));
    memset (&img, 0, sizeof img);
    img.common.type = BITS;
    img.common.repeat = PIXMAN_REPEAT_NORMAL;
    img.common.filter = PIXMAN_FILTER_SEPARABLE_CONVOLUTION;
    tr.matrix[0][0] = tr.matrix[1][1] = tr.matrix[2][2] = pixman_fixed_1;
    img.common.transform = &tr;
    img.format = PIXMAN_a8r8g8b8;
    img.width = 4; img.height = 4; img.rowstride = 4; img.bits = in_px;
    params[0] = pixman_int_to_fixed (VC_CW);
    params[1] = pixman_int_to_fixed (VC_CH);
    params[2] = 0; params[3] = 0;
    for (k = 0; k < VC_CW; k++) params[4 + k] = (k == in_tj) ? pixman_fixed_1 : 0;
    for (k = 0; k < VC_CH; k++) params[4 + VC_CW + k] = (k == in_ti) ? pixman_fixed_1 : 0;
    img.common.filter_params = params;
    img.common.n_filter_params = 4 + VC_CW + VC_CH;
    m_vx = in_vx; m_vy = in_vy;

    bits_image_fetch_separable_convolution_affine ((pixman_image_t *) &img, 0, 0, 1, buffer, (const uint32_t *) 0,
                                                   convert_a8r8g8b8, PIXMAN_a8r8g8b8, PIXMAN_REPEAT_NORMAL);

    xc = SS_PHASE_ROUND (in_vx, 0);
    yc = SS_PHASE_ROUND (in_vy, 0);
    x1 = SS_CONV_FIRST (xc, VC_CW);
    y1 = SS_CONV_FIRST (yc, VC_CH);
    sx = ss_mod (x1 + in_tj, 4);
    sy = ss_mod (y1 + in_ti, 4);
    VH_CHECK ("fp_sepconv.one_hot_kernel_fetches_the_documented_tap", buffer[0] == in_px[sy * 4 + sx]);
    VH_CHECK ("fp_sepconv.nothing_written_past_width", buffer[1] == 0x12345678);
    VH_END ();
}
