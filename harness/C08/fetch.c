/* C08 (3): bits_image_fetch_pixel_{nearest, bilinear_32, convolution, separable_convolution} of pixman-bits-image.c
 * with the real get_pixel (fetch_pixel_no_alpha_32) on top of the ghost image of c08.h.
 *
 *  -DVC_FILTER=0  nearest:    result == pixel at floor (x - e), floor (y - e) of the repeated image
 *  -DVC_FILTER=1  bilinear:   channel VC_CH == 7-bit weighted blend of the 4 neighbours of (x - 1/2, y - 1/2)
 *  -DVC_FILTER=2  convolution VC_CW x VC_CHT: channel VC_CH == clamp (round (SIGNED sum of coefficient * channel)),
 *                 first tap at floor (x - (w-1)/2 - e)
 *  -DVC_FILTER=3  separable convolution VC_CW x VC_CHT with 2^VC_XB x 2^VC_YB phases
 *  -DVC_REP       repeat mode 0..3;   -DVC_NONNEG=1 adds the precondition "the channel's signed total rounds to >= 0"
 *                 (its complement is the job finding.conv.negative_total, which runs the same text without it)
 */
#include "c08.h"
#include "pixman-bits-image.c"

#ifndef VC_CW
#define VC_CW 1
#define VC_CHT 1
#endif
#ifndef VC_XB
#define VC_XB 0
#define VC_YB 0
#endif
#ifndef VC_CH
#define VC_CH 0
#endif
#define NX ((1 << VC_XB) * VC_CW)
#define NY ((1 << VC_YB) * VC_CHT)
#define COEF_MAX 262144        /* |coefficient| <= 4.0 */
/* signed total of one channel: at most 9 taps, |coefficient| <= 2^18, channel <= 255  =>  |total| < 2^30: int is exact
 * (a 64-bit total is the same number; the narrow type keeps the query small) */
typedef int SS_TOTAL_T;
#define SS_TAP(ch, k)  ((int) (ch) * (int) (k))

void harness (void)
{
    C08_GHOST_INPUTS ();
    VH_IN (vh_i32, in_x);
    VH_IN (vh_i32, in_y);
    static bits_image_t img;
    uint32_t out = 0x12345678u;

    C08_GHOST_SETUP ();

#if VC_FILTER == 0
    /* sample positions stay in 16.16 together with the filter's offset */
    VH_ASSUME (in_x > -2147483647 - 1 && in_y > -2147483647 - 1);
    c08_image_init (&img, (pixman_repeat_t) VC_REP, PIXMAN_FILTER_NEAREST, 0, 0);
    bits_image_fetch_pixel_nearest (&img, in_x, in_y, fetch_pixel_no_alpha_32, &out);
    VH_CHECK ("nearest.pixel_at_floor_x_minus_e", out == spec_pixel (VC_REP, SS_NEAREST_INDEX (in_x), SS_NEAREST_INDEX (in_y)));
    VH_CHECK ("nearest.at_most_one_fetch", g_fetches <= 1);

#elif VC_FILTER == 1
    VH_ASSUME (in_x >= -2147483647 - 1 + 32768 && in_y >= -2147483647 - 1 + 32768);
    c08_image_init (&img, (pixman_repeat_t) VC_REP, PIXMAN_FILTER_BILINEAR, 0, 0);
    bits_image_fetch_pixel_bilinear_32 (&img, in_x, in_y, fetch_pixel_no_alpha_32, &out);
    {
        ss_i64 x1 = SS_BILIN_INDEX (in_x), y1 = SS_BILIN_INDEX (in_y);
        uint32_t tl = spec_pixel (VC_REP, x1, y1), tr = spec_pixel (VC_REP, x1 + 1, y1);
        uint32_t bl = spec_pixel (VC_REP, x1, y1 + 1), br = spec_pixel (VC_REP, x1 + 1, y1 + 1);
        /* bilinear_interpolation here is the same symbol the fetcher calls (the real function natively and with
         * VC_BLENDMODEL=0; its uninterpreted stand-in otherwise): the obligation is about its six arguments */
        VH_CHECK ("bilinear.blend_of_four_neighbours_of_x_minus_half",
                  out == bilinear_interpolation (tl, tr, bl, br, (int) SS_BILIN_W7 (in_x), (int) SS_BILIN_W7 (in_y)));
        VH_CHECK ("bilinear.at_most_four_fetches", g_fetches <= 4);
    }

#elif VC_FILTER == 2 && defined (VC_ONEHOT)
    /* (b-sample2) ONE-HOT kernel: tap (tj, ti) (symbolic) has weight 1.0, all others 0: the result must be exactly the pixel of
     * the repeated image at (kx + tj, ky + ti), kx = floor (x - (w-1)/2 - e): tap order and row stride of the kernel matrix
     * and the window alignment for kernels larger than 1x1, without any symbolic product */
    {
        VH_IN (vh_u8, in_tj);
        VH_IN (vh_u8, in_ti);
        static pixman_fixed_t params[2 + VC_CW * VC_CHT];
        ss_i64 kx, ky;
        int i, j;
        VH_ASSUME (in_tj < VC_CW && in_ti < VC_CHT);
        params[0] = VC_CW << 16;
        params[1] = VC_CHT << 16;
        for (i = 0; i < VC_CHT; i++)
            for (j = 0; j < VC_CW; j++)
                params[2 + i * VC_CW + j] = (i == in_ti && j == in_tj) ? 65536 : 0;
        VH_ASSUME (in_x >= -2147483647 + 2 * 65536 && in_y >= -2147483647 + 2 * 65536);
        c08_image_init (&img, (pixman_repeat_t) VC_REP, PIXMAN_FILTER_CONVOLUTION, params, 2 + VC_CW * VC_CHT);
        kx = SS_CONV_FIRST (in_x, VC_CW);
        ky = SS_CONV_FIRST (in_y, VC_CHT);
        bits_image_fetch_pixel_convolution (&img, in_x, in_y, fetch_pixel_no_alpha_32, &out, accum_32, reduce_32);
        VH_CHECK ("conv.one_hot_kernel_fetches_the_documented_tap", out == spec_pixel (VC_REP, kx + in_tj, ky + in_ti));
    }

#elif VC_FILTER == 2
    {
        C08_IN_ARRAY (vh_i32, in_k, VC_CW * VC_CHT);
        static pixman_fixed_t params[2 + VC_CW * VC_CHT];
        ss_i64 kx, ky; SS_TOTAL_T total = 0;
        int i, j;
        params[0] = VC_CW << 16;
        params[1] = VC_CHT << 16;
        for (i = 0; i < VC_CHT; i++)         /* (nested: no harness loop runs longer than a kernel side) */
            for (j = 0; j < VC_CW; j++)
            {
                VH_ASSUME (in_k[i * VC_CW + j] >= -COEF_MAX && in_k[i * VC_CW + j] <= COEF_MAX);
                params[2 + i * VC_CW + j] = in_k[i * VC_CW + j];
            }
        /* x - e - (w-1)/2 stays in 16.16 */
        VH_ASSUME (in_x >= -2147483647 + 2 * 65536 && in_y >= -2147483647 + 2 * 65536);
        c08_image_init (&img, (pixman_repeat_t) VC_REP, PIXMAN_FILTER_CONVOLUTION, params, 2 + VC_CW * VC_CHT);
        kx = SS_CONV_FIRST (in_x, VC_CW);
        ky = SS_CONV_FIRST (in_y, VC_CHT);
        for (i = 0; i < VC_CHT; i++)
            for (j = 0; j < VC_CW; j++)
                total += SS_TAP (SS_CH (spec_pixel (VC_REP, kx + j, ky + i), VC_CH), in_k[i * VC_CW + j]);
#if VC_NONNEG
        VH_ASSUME (total + SS_HALF >= 0);
#endif
        bits_image_fetch_pixel_convolution (&img, in_x, in_y, fetch_pixel_no_alpha_32, &out, accum_32, reduce_32);
        VH_CHECK ("conv.channel_is_clamped_rounded_signed_sum", SS_CH (out, VC_CH) == SS_CONV_CH (total));
    }

#elif VC_FILTER == 3
    {
        C08_IN_ARRAY (vh_i32, in_kx, NX);
        C08_IN_ARRAY (vh_i32, in_ky, NY);
        static pixman_fixed_t params[4 + NX + NY];
        ss_i64 xr, yr, px, py, kx, ky; SS_TOTAL_T total = 0;
        int i, j;
        params[0] = VC_CW << 16;
        params[1] = VC_CHT << 16;
        params[2] = VC_XB << 16;
        params[3] = VC_YB << 16;
        for (i = 0; i < (1 << VC_XB); i++)
            for (j = 0; j < VC_CW; j++)
            {
                VH_ASSUME (in_kx[i * VC_CW + j] >= -131072 && in_kx[i * VC_CW + j] <= 131072);
                params[4 + i * VC_CW + j] = in_kx[i * VC_CW + j];
            }
        for (i = 0; i < (1 << VC_YB); i++)
            for (j = 0; j < VC_CHT; j++)
            {
                VH_ASSUME (in_ky[i * VC_CHT + j] >= -131072 && in_ky[i * VC_CHT + j] <= 131072);
                params[4 + NX + i * VC_CHT + j] = in_ky[i * VC_CHT + j];
            }
        VH_ASSUME (in_x >= -2147483647 + 2 * 65536 && in_y >= -2147483647 + 2 * 65536);
        VH_ASSUME (in_x <= 2147483647 - 65536 && in_y <= 2147483647 - 65536);       /* rounding to the phase centre stays in 16.16 */
        c08_image_init (&img, (pixman_repeat_t) VC_REP, PIXMAN_FILTER_SEPARABLE_CONVOLUTION, params, 4 + NX + NY);
        xr = SS_PHASE_ROUND (in_x, VC_XB);
        yr = SS_PHASE_ROUND (in_y, VC_YB);
        px = SS_PHASE_INDEX (in_x, VC_XB);
        py = SS_PHASE_INDEX (in_y, VC_YB);
        kx = SS_CONV_FIRST (xr, VC_CW);
        ky = SS_CONV_FIRST (yr, VC_CHT);
        for (i = 0; i < VC_CHT; i++)
            for (j = 0; j < VC_CW; j++)
                total += SS_TAP (SS_CH (spec_pixel (VC_REP, kx + j, ky + i), VC_CH), SS_SEP_WEIGHT (in_kx[px * VC_CW + j], in_ky[py * VC_CHT + i]));
#if VC_NONNEG
        VH_ASSUME (total + SS_HALF >= 0);
#endif
        bits_image_fetch_pixel_separable_convolution (&img, in_x, in_y, fetch_pixel_no_alpha_32, &out, accum_32, reduce_32);
#ifndef VC_NOCHECK     /* (finding.sepconv.negative_shift only looks at the language-level obligations of the call) */
        VH_CHECK ("sepconv.channel_is_clamped_rounded_signed_sum", SS_CH (out, VC_CH) == SS_CONV_CH (total));
#endif
    }
#endif
    VH_END ();
}
