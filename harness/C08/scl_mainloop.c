/* C04 + C08 (helper scl): the macro-generated scaled main loops of pixman-inlines.h
 *
 *      FAST_NEAREST_MAINLOOP_COMMON  -> FAST_NEAREST_MAINLOOP_INT      (fast_composite_scaled_nearest_*)
 *      FAST_BILINEAR_MAINLOOP_COMMON -> FAST_BILINEAR_MAINLOOP_INT     (fast_composite_scaled_bilinear_*)
 *
 * from which every scaled fast path (C, MMX, SSE2, SSSE3, VMX) is instantiated.  The REAL macros are instantiated here, in
 * this translation unit, with a CONTRACT STUB as `scanline_func`; nothing of the macro text is copied.  The stub states what
 * the real scanline functions do with their arguments (FAST_NEAREST_SCANLINE in pixman-inlines.h; scaled_nearest_scanline_sse2_*,
 * scaled_bilinear_scanline_sse2_* in pixman-sse2.c):
 *
 *   nearest   (mask, dst, src, w, vx, unit_x, max_vx, fully_transparent_src)
 *             pixel i < w reads  src[(vx + i*unit_x) >> 16]  and writes dst[i]; NORMAL instances start with -max_vx <= vx < 0
 *             and wrap the position back into [-max_vx, 0) after every step (`while (vx >= 0) vx -= max_vx`).
 *   bilinear  (dst, mask, src_top, src_bottom, w, wt, wb, vx, unit_x, max_vx, zero_src)
 *             pixel i < w reads  src_top[x], src_top[x+1], src_bottom[x], src_bottom[x+1],  x = (vx + i*unit_x) >> 16  (the SSE2
 *             code loads the pair with one 64-bit load whatever the weights are), horizontal weight = 7 top bits of the
 *             fraction of vx + i*unit_x, vertical weights wt, wb (< 128 each, sum <= 128); writes dst[i].
 *             fully_transparent_src / zero_src allow the function to treat every source pixel as 0 without reading.
 *
 * Obligations (names are stable):
 *   c04.*  checked in the stub for BOTH ENDS of every span it is called with (positions are monotone in i, so the ends bound
 *          the span): every address read lies inside the source storage  height * |rowstride| words  (pointer into the image)
 *          or inside the object the pointer points into (stack buffers / `zero` of the main loop: the stub really reads, so
 *          CBMC's pointer checks and, natively, ASan decide); dst[0..w) lies inside the row of the composite box; the positions
 *          of the span are 16.16 numbers.
 *   c08.*  for a ghost destination pixel (in_gk, in_gj) of the box: it is composited exactly once, and what the stub is told
 *          to read for it is the documented sample (spec_scl.h) of the source under the repeat mode of the instance.  The
 *          source content is arbitrary (every word of the storage is unconstrained), so "same value for every content" is
 *          "same pixel".
 *
 *  -DVC_FILTER=0 nearest | 1 bilinear     -DVC_REP=0 NONE | 1 NORMAL | 2 PAD | 4 COVER
 *  -DVC_UX=<16.16 constant>   x scale of the job (matrix[0][0]).  Without it unit_x is symbolic with VC_UXBITS bits (no job: the
 *              tiling of a scanline is then multiplier distributivity, left_pad*unit_x + i*unit_x against k*unit_x).
 *  -DVC_HMAX   rows of the composite box (row loop unrolled)       -DVC_SHMAX  rows of the source storage
 *  -DVC_WMAX   box width bound (65533 = what the 16-bit extents test of analyze_extent leaves)
 *  -DVC_SWMIN/-DVC_SWMAX  source width range (32766 = what analyze_extent leaves).  The source rowstride is the constant
 *              +-VC_SWMAX words (width == VC_SWMAX: minimal stride; smaller widths: padded rows): a symbolic stride would put a
 *              32-bit product (`src_stride * y`) against the reference's 64-bit one, which SAT does not decide.  With
 *              VC_SWMAX <= 128 the storage is an object of constant size under CBMC (cheap reads); the storage DESCRIBED to the
 *              library is always exactly in_sh * VC_SWMAX words (natively: exactly that malloc, so ASan sees every byte past it).
 *  -DVC_K      NORMAL: every sample position within [-K, K+1) source widths/heights (loops of repeat() unwound)
 *  -DVC_SNEG=1  negative rowstride (bits points at the last row of the block)
 *  -DVC_NOVALUE   leave out the value comparison c08.*_documented_* (jobs over the full source-width range: c04.* and tiling only)
 *  -DVC_STEP_PAST=1  also demand that the position one step past the span (i == w) is a 16.16 number
 *
 * Preconditions (all from the call site, pixman.c: analyze_extent and the fast-path tables):
 *   - 16.16 range test on the extents expanded by one pixel (every instance)
 *   - FAST_PATH_X_UNIT_POSITIVE for NONE / PAD / NORMAL instances (the table entries demand it); COVER: any sign
 *   - COVER: FAST_PATH_SAMPLES_COVER_CLIP_NEAREST / _BILINEAR as analyze_extent computes them
 *   - pixman_transform_point_3d is a model returning the harness-chosen v (the transform itself: C11)
 */
#include <config.h>
#include "pixman-private.h"
#include "pixman-inlines.h"
#include "vh.h"
#include <stdlib.h>
#include <string.h>
#include "spec_scl.h"

#ifndef VC_FILTER
#define VC_FILTER 1
#endif
#ifndef VC_REP
#define VC_REP 2
#endif
#ifndef VC_HMAX
#define VC_HMAX 2
#endif
#ifndef VC_SHMAX
#define VC_SHMAX 3
#endif
#ifndef VC_WMAX
#define VC_WMAX 65533
#endif
#ifndef VC_SWMIN
#define VC_SWMIN 1
#endif
#ifndef VC_SWMAX
#define VC_SWMAX 32766
#endif
#ifndef VC_K
#define VC_K 2
#endif
#ifndef VC_UXBITS
#define VC_UXBITS 18
#endif
#ifndef VC_SNEG
#define VC_SNEG 0
#endif
#ifndef VC_STEP_PAST
#define VC_STEP_PAST 0
#endif

#if VC_REP == 0
#define VH_REPEAT NONE
#elif VC_REP == 1
#define VH_REPEAT NORMAL
#elif VC_REP == 2
#define VH_REPEAT PAD
#else
#define VH_REPEAT COVER
#endif

/* ---------------------------------------------------------------- what the harness described to the library */
static uint32_t *g_store;               /* source pixel storage: g_swords words, content arbitrary */
static long      g_swords;
static uint32_t *g_bits;                /* first row (== g_store for a positive stride, the last row of the block otherwise) */
static int       g_rowstride, g_sw, g_sh;
static uint32_t *g_dstore;              /* destination storage */
static long      g_dwords;
static long      g_rowstart[VC_HMAX];   /* word offset of (dest_x, dest_y + j) in the destination storage */
static int       g_width;
static int       g_gk, g_gj;            /* ghost pixel of the box */
/* what the stub recorded for the ghost pixel */
static int       g_hits, g_calls;
typedef struct { int img; long idx; uint32_t val; } vh_tap;   /* a word of the image (by position) or a value read from a buffer */
static vh_tap    g_tl, g_tr, g_bl, g_br;
static int       g_wx, g_wt, g_wb;
static uint32_t  g_sink;

static int vh_is_source_pointer (const uint32_t *p)
{
#ifdef VH_CBMC
    return __CPROVER_same_object (p, g_store);
#else
    return (uintptr_t) p >= (uintptr_t) g_store && (uintptr_t) p <= (uintptr_t) (g_store + g_swords);
#endif
}

/* licence to read p[x]: inside the storage if p points into the image; otherwise the read itself is the check */
static int vh_licensed (const uint32_t *p, long x)
{
    if (vh_is_source_pointer (p))
    {
        long off = (long) (p - g_store) + x;
        return off >= 0 && off < g_swords;
    }
    return 1;
}

/* what a scanline function reads at p[x]: a word of the image - recorded by POSITION, its value is looked up once, after
 * the main loop has returned (every read of the big storage costs the SAT solver dearly, and a read through the derived
 * pointer makes CBMC extract bytes at an offset it cannot see to be aligned) - or a word of one of the main loop's own
 * buffers (`zero`, buf1/buf2, extended_src_line*), whose value is read on the spot */
static vh_tap vh_read (const uint32_t *p, long x)
{
    vh_tap t;
    if (vh_is_source_pointer (p))
    {
        t.img = 1; t.idx = (long) (p - g_store) + x; t.val = 0;
    }
    else
    {
        t.img = 0; t.idx = 0; t.val = p[x];
    }
    return t;
}
static uint32_t vh_tap_value (vh_tap t)
{
    return t.img ? g_store[t.idx] : t.val;
}
static vh_tap vh_tap_zero (void)
{
    vh_tap t;
    t.img = 0; t.idx = 0; t.val = 0;
    return t;
}

/* really access p[x]: objects of the main loop always (CBMC pointer checks / ASan decide), the image natively (ASan) -
 * under CBMC the licence obligation c04.* has just decided that one arithmetically */
static void vh_touch (const uint32_t *p, long x)
{
#ifdef VH_CBMC
    if (!vh_is_source_pointer (p))
#endif
        g_sink ^= p[x];
}

/* row j of the box the span dst[0..w) belongs to (-1: none), *col0 = its first column */
static int vh_locate (const uint32_t *dst, int32_t w, int *col0)
{
    long d0 = (long) (dst - g_dstore);
    int j, found = -1;
    for (j = 0; j < VC_HMAX; j++)
        if (d0 >= g_rowstart[j] && d0 + w <= g_rowstart[j] + g_width)
        {
            found = j;
            *col0 = (int) (d0 - g_rowstart[j]);
        }
    return found;
}

#if VC_FILTER == 1
static force_inline void
vh_bilinear_scanline (uint32_t *dst, const uint32_t *mask, const uint32_t *src_top, const uint32_t *src_bottom,
                      int32_t w, int wt, int wb, pixman_fixed_t vx, pixman_fixed_t unit_x, pixman_fixed_t max_vx,
                      pixman_bool_t zero_src)
{
    int j, col0 = 0, x0, x1;
    ss_i64 p0, p1;
    (void) mask; (void) max_vx;
    g_calls++;
    VH_CHECK ("c08.scanline_weights_are_below_128_and_sum_to_at_most_128",
              wt >= 0 && wb >= 0 && wt < BILINEAR_INTERPOLATION_RANGE && wb < BILINEAR_INTERPOLATION_RANGE &&
              wt + wb <= BILINEAR_INTERPOLATION_RANGE);
    if (w <= 0)
        return;
    j = vh_locate (dst, w, &col0);
    VH_CHECK ("c04.destination_span_inside_row_of_composite_box", j >= 0);
    if (j < 0)
        return;
#ifdef VH_REPLAY
    dst[0] = 0x5c1a0000u; dst[w - 1] = 0x5c1a0001u;
#endif
    p0 = (ss_i64) vx;
    p1 = (ss_i64) vx + (ss_i64) (w - 1 + VC_STEP_PAST) * unit_x;
    VH_CHECK ("c04.span_positions_are_16_16_numbers", p1 >= INT32_MIN && p1 <= INT32_MAX);
    p1 = (ss_i64) vx + (ss_i64) (w - 1) * unit_x;
    x0 = (int) (p0 >> 16); x1 = (int) (p1 >> 16);
    VH_CHECK ("c04.bilinear_first_pixel_pairs_inside_source_storage",
              vh_licensed (src_top, x0) && vh_licensed (src_top, (long) x0 + 1) &&
              vh_licensed (src_bottom, x0) && vh_licensed (src_bottom, (long) x0 + 1));
    VH_CHECK ("c04.bilinear_last_pixel_pairs_inside_source_storage",
              vh_licensed (src_top, x1) && vh_licensed (src_top, (long) x1 + 1) &&
              vh_licensed (src_bottom, x1) && vh_licensed (src_bottom, (long) x1 + 1));
    vh_touch (src_top, x0); vh_touch (src_top, (long) x0 + 1); vh_touch (src_bottom, x0); vh_touch (src_bottom, (long) x0 + 1);
    vh_touch (src_top, x1); vh_touch (src_top, (long) x1 + 1); vh_touch (src_bottom, x1); vh_touch (src_bottom, (long) x1 + 1);
    if (j == g_gj && g_gk >= col0 && g_gk < col0 + w)
    {
        ss_i64 p = (ss_i64) vx + (ss_i64) (g_gk - col0) * unit_x;
        int x = (int) (p >> 16);
        g_hits++;
        g_tl = vh_read (src_top, x); g_tr = vh_read (src_top, (long) x + 1);
        g_bl = vh_read (src_bottom, x); g_br = vh_read (src_bottom, (long) x + 1);
        g_wx = (int) ((p >> (16 - BILINEAR_INTERPOLATION_BITS)) & (BILINEAR_INTERPOLATION_RANGE - 1));
        g_wt = wt; g_wb = wb;
        if (zero_src)
        {
            VH_CHECK ("c08.zero_src_hint_only_with_transparent_pixels",
                      !g_tl.img && !g_tr.img && !g_bl.img && !g_br.img && g_tl.val == 0 && g_tr.val == 0 && g_bl.val == 0 && g_br.val == 0);
            g_tl = g_tr = g_bl = g_br = vh_tap_zero ();
        }
    }
}

FAST_BILINEAR_MAINLOOP_COMMON (vh, vh_bilinear_scanline, uint32_t, uint32_t, uint32_t, VH_REPEAT, FLAG_NONE)
#define VH_MAINLOOP fast_composite_scaled_bilinear_vh

#else /* nearest */

static force_inline void
vh_nearest_scanline (const uint32_t *mask, uint32_t *dst, const uint32_t *src, int32_t w, pixman_fixed_t vx,
                     pixman_fixed_t unit_x, pixman_fixed_t max_vx, pixman_bool_t fully_transparent_src)
{
    int j, col0 = 0;
    (void) mask;
    g_calls++;
    if (w <= 0)
        return;
    j = vh_locate (dst, w, &col0);
    VH_CHECK ("c04.destination_span_inside_row_of_composite_box", j >= 0);
    if (j < 0)
        return;
#ifdef VH_REPLAY
    dst[0] = 0x5c1a0000u; dst[w - 1] = 0x5c1a0001u;
#endif
#if VC_REP == 1
    /* NORMAL instance: the start position is wrapped, every later one is wrapped by the scanline function itself; what it
     * may read is the whole row [src - W, src) */
    VH_CHECK ("c04.nearest_normal_start_position_is_wrapped", vx < 0 && (ss_i64) vx >= -(ss_i64) max_vx && max_vx > 0);
    VH_CHECK ("c04.nearest_normal_row_inside_source_storage",
              vh_licensed (src, -(long) pixman_fixed_to_int (max_vx)) && vh_licensed (src, -1));
    vh_touch (src, -(long) pixman_fixed_to_int (max_vx)); vh_touch (src, -1);
#else
    {
        ss_i64 p0 = (ss_i64) vx;
        ss_i64 p1 = (ss_i64) vx + (ss_i64) (w - 1 + VC_STEP_PAST) * unit_x;
        VH_CHECK ("c04.span_positions_are_16_16_numbers", p1 >= INT32_MIN && p1 <= INT32_MAX);
        p1 = (ss_i64) vx + (ss_i64) (w - 1) * unit_x;
        VH_CHECK ("c04.nearest_first_pixel_inside_source_storage", vh_licensed (src, (long) (p0 >> 16)));
        VH_CHECK ("c04.nearest_last_pixel_inside_source_storage", vh_licensed (src, (long) (p1 >> 16)));
        vh_touch (src, (long) (p0 >> 16)); vh_touch (src, (long) (p1 >> 16));
    }
#endif
    if (j == g_gj && g_gk >= col0 && g_gk < col0 + w)
    {
        ss_i64 p = (ss_i64) vx + (ss_i64) (g_gk - col0) * unit_x;
#if VC_REP == 1
        while (p >= 0)
            p -= max_vx;
#endif
        g_hits++;
        g_tl = vh_read (src, (long) (p >> 16));
        if (fully_transparent_src)
        {
            VH_CHECK ("c08.fully_transparent_hint_only_with_transparent_pixels", !g_tl.img && g_tl.val == 0);
            g_tl = vh_tap_zero ();
        }
    }
}

FAST_NEAREST_MAINLOOP_COMMON (vh, vh_nearest_scanline, uint32_t, uint32_t, uint32_t, VH_REPEAT, FALSE, FALSE)
#define VH_MAINLOOP fast_composite_scaled_nearest_vh
#endif

/* ---------------------------------------------------------------- model of the transform (C11 owns the real one) */
static pixman_vector_t m_out;
static int m_calls, m_arg_ok, m_cx, m_cy;
PIXMAN_EXPORT pixman_bool_t
pixman_transform_point_3d (const struct pixman_transform *transform, struct pixman_vector *vector)
{
    (void) transform;
    m_calls++;
    m_arg_ok = (vector->vector[0] == m_cx && vector->vector[1] == m_cy && vector->vector[2] == 65536);
    *vector = m_out;
    return TRUE;
}

/* ---------------------------------------------------------------- the repeated image of the property */
#if VC_REP == 1
static ss_i64 vh_mod (ss_i64 c, ss_i64 n)       /* mathematical modulo; |c| within a few n (VC_K) */
{
    while (c < 0)
        c += n;
    while (c >= n)
        c -= n;
    return c;
}
#endif

static uint32_t spec_pixel (ss_i64 x, ss_i64 y)
{
#if VC_REP == 0
    if (!SS_INSIDE (x, g_sw) || !SS_INSIDE (y, g_sh))
        return 0;
#elif VC_REP == 1
    x = vh_mod (x, g_sw); y = vh_mod (y, g_sh);
#elif VC_REP == 2
    x = SS_PAD_OF (x, g_sw); y = SS_PAD_OF (y, g_sh);
#else
    if (!SS_INSIDE (x, g_sw) || !SS_INSIDE (y, g_sh))       /* excluded by the COVER precondition */
        return 0;
#endif
    return g_bits[(y == 0 ? 0 : y == 1 ? (long) g_rowstride : 2 * (long) g_rowstride) + x];
}

/* k * v for a small k, without a symbolic 64-bit multiplier */
#define SMALLMUL(k, v) ((k) == 0 ? 0 : (k) == 1 ? (ss_i64) (v) : (k) == 2 ? 2 * (ss_i64) (v) : 3 * (ss_i64) (v))      /* k <= 3 */
#define MIN2(a, b) ((a) < (b) ? (a) : (b))
#define MAX2(a, b) ((a) > (b) ? (a) : (b))

void harness (void)
{
    VH_IN (vh_i32, in_sw);
    VH_IN (vh_i32, in_sh);
    VH_IN (vh_i32, in_width);
    VH_IN (vh_i32, in_height);
    VH_IN (vh_i32, in_src_x);
    VH_IN (vh_i32, in_src_y);
    VH_IN (vh_u8, in_dest_x);
    VH_IN (vh_u8, in_dest_y);
    VH_IN (vh_i32, in_vx);
    VH_IN (vh_i32, in_vy);
    VH_IN (vh_i32, in_ux);
    VH_IN (vh_i32, in_uy);
    VH_IN (vh_i32, in_gk);
    VH_IN (vh_i32, in_gj);
    static pixman_image_t src_img, dst_img;
    static pixman_transform_t tr;
    static pixman_composite_info_t info;
    ss_i64 ux, uy, X, Y, xlo, xhi, ylo, yhi, xoff, yoff, fw;
    int dstride, j;
    long i;

#ifdef VC_UX
    ux = (VC_UX);
#else
    ux = in_ux;
    VH_ASSUME (in_ux > -(1 << VC_UXBITS) && in_ux < (1 << VC_UXBITS));
#endif
    uy = in_uy;
#if VC_REP != 4
    VH_ASSUME (ux > 0);                                         /* FAST_PATH_X_UNIT_POSITIVE */
#endif
    /* source: in_sh rows of in_sw pixels; rowstride = +-VC_SWMAX words (a constant: the stride only enters through
     * `src_stride * y`, and a symbolic 32-bit product against the 64-bit one of the reference is what SAT cannot do);
     * in_sw == VC_SWMAX is the minimal stride, smaller widths are padded rows */
    VH_ASSUME (in_sw >= VC_SWMIN && in_sw <= VC_SWMAX);
    VH_ASSUME (in_sh >= 1 && in_sh <= VC_SHMAX);
    g_sw = in_sw; g_sh = in_sh;
    g_swords = (long) VC_SWMAX * in_sh;
#if defined (VH_CBMC) && VC_SWMAX <= 128
    /* small source: an object of constant size (CBMC then treats its words as individual variables, which makes the reads of
     * the main loop itself cheap); the storage DESCRIBED to the library is its first g_swords words (obligations c04.*) */
    g_store = malloc (sizeof (uint32_t) * VC_SWMAX * VC_SHMAX);
#else
    g_store = malloc (sizeof (uint32_t) * g_swords);
#endif
#ifdef VH_REPLAY
    for (i = 0; i < g_swords; i++)
        g_store[i] = (uint32_t) (i + 1);                        /* natively: every word names its position */
#endif
    g_rowstride = VC_SNEG ? -VC_SWMAX : VC_SWMAX;
    g_bits = VC_SNEG ? g_store + g_swords - VC_SWMAX : g_store;
    /* box: in_height rows of in_width pixels; the extents pass the 16-bit test of analyze_extent */
    VH_ASSUME (in_width >= 1 && in_width <= VC_WMAX);
    VH_ASSUME (in_height >= 1 && in_height <= VC_HMAX);
    VH_ASSUME (in_src_x >= -32767 && (ss_i64) in_src_x + in_width <= 32766);
    VH_ASSUME (in_src_y >= -32767 && (ss_i64) in_src_y + in_height <= 32766);
    VH_ASSUME (in_dest_x <= 7 && in_dest_y <= 1);
    dstride = VC_WMAX + 8;                                       /* constant, for the same reason */
    g_dwords = (long) dstride * (in_dest_y + in_height);
#if defined (VH_CBMC) && VC_WMAX <= 128
    g_dstore = malloc (sizeof (uint32_t) * (VC_WMAX + 8) * (VC_HMAX + 1));
#else
    g_dstore = malloc (sizeof (uint32_t) * g_dwords);
#endif
    g_width = in_width;
    for (j = 0; j < VC_HMAX; j++)
        g_rowstart[j] = j < in_height ? (long) dstride * (in_dest_y + j) + in_dest_x : -1 - (long) VC_WMAX;
    VH_ASSUME (in_gk >= 0 && in_gk < in_width && in_gj >= 0 && in_gj < in_height);
    g_gk = in_gk; g_gj = in_gj;

    /* 16.16 range test of analyze_extent on the extents expanded by one pixel: the transformed centres of columns -1 and
     * width (rows -1 and height), with the filter's offsets and the 8 e slack */
#if VC_FILTER == 1
    xoff = -SS_HALF; yoff = -SS_HALF; fw = SS_ONE;
#else
    xoff = -SS_E; yoff = -SS_E; fw = 0;
#endif
    xlo = MIN2 ((ss_i64) in_vx - ux, (ss_i64) in_vx + in_width * ux);
    xhi = MAX2 ((ss_i64) in_vx - ux, (ss_i64) in_vx + in_width * ux);
    ylo = MIN2 ((ss_i64) in_vy - uy, (ss_i64) in_vy + SMALLMUL (in_height, uy));
    yhi = MAX2 ((ss_i64) in_vy - uy, (ss_i64) in_vy + SMALLMUL (in_height, uy));
    VH_ASSUME (xlo + xoff - 8 >= INT32_MIN && xhi + xoff + 8 + fw <= INT32_MAX);
    VH_ASSUME (ylo + yoff - 8 >= INT32_MIN && yhi + yoff + 8 + fw <= INT32_MAX);
#if VC_REP == 4
    {
        /* FAST_PATH_SAMPLES_COVER_CLIP_NEAREST / _BILINEAR (analyze_extent on the transformed extents = first and last centre) */
        ss_i64 x1 = MIN2 ((ss_i64) in_vx, (ss_i64) in_vx + (in_width - 1) * ux);
        ss_i64 x2 = MAX2 ((ss_i64) in_vx, (ss_i64) in_vx + (in_width - 1) * ux);
        ss_i64 y1 = MIN2 ((ss_i64) in_vy, (ss_i64) in_vy + SMALLMUL (in_height - 1, uy));
        ss_i64 y2 = MAX2 ((ss_i64) in_vy, (ss_i64) in_vy + SMALLMUL (in_height - 1, uy));
#if VC_FILTER == 1
        VH_ASSUME (SS_FLOOR_INT (x1 - SS_HALF) >= 0 && SS_FLOOR_INT (y1 - SS_HALF) >= 0 &&
                   SS_FLOOR_INT (x2 + SS_HALF) < in_sw && SS_FLOOR_INT (y2 + SS_HALF) < in_sh);
#else
        VH_ASSUME (SS_FLOOR_INT (x1 - SS_E) >= 0 && SS_FLOOR_INT (y1 - SS_E) >= 0 &&
                   SS_FLOOR_INT (x2 - SS_E) < in_sw && SS_FLOOR_INT (y2 - SS_E) < in_sh);
#endif
    }
#endif
#if VC_REP == 1
    /* harness bound: every position (columns -1 .. width, rows -1 .. height, +- 1 pixel) within [-K, K+1) source sizes */
    VH_ASSUME (xlo - SS_ONE >= -(ss_i64) VC_K * in_sw * SS_ONE && xhi + SS_ONE < (ss_i64) (VC_K + 1) * in_sw * SS_ONE);
    VH_ASSUME (ylo - SS_ONE >= -(ss_i64) VC_K * in_sh * SS_ONE && yhi + SS_ONE < (ss_i64) (VC_K + 1) * in_sh * SS_ONE);
#endif

    memset (&src_img, 0, sizeof src_img);
    memset (&dst_img, 0, sizeof dst_img);
    src_img.type = BITS;
    src_img.bits.format = PIXMAN_a8r8g8b8;
    src_img.bits.width = in_sw; src_img.bits.height = in_sh;
    src_img.bits.rowstride = g_rowstride; src_img.bits.bits = g_bits;
    tr.matrix[0][0] = (pixman_fixed_t) ux; tr.matrix[1][1] = (pixman_fixed_t) uy; tr.matrix[2][2] = pixman_fixed_1;
    src_img.common.transform = &tr;
    dst_img.type = BITS;
    dst_img.bits.format = PIXMAN_a8r8g8b8;
    dst_img.bits.width = dstride; dst_img.bits.height = in_dest_y + in_height;
    dst_img.bits.rowstride = dstride; dst_img.bits.bits = g_dstore;
    info.op = PIXMAN_OP_SRC;
    info.src_image = &src_img; info.mask_image = 0; info.dest_image = &dst_img;
    info.src_x = in_src_x; info.src_y = in_src_y; info.mask_x = 0; info.mask_y = 0;
    info.dest_x = in_dest_x; info.dest_y = in_dest_y; info.width = in_width; info.height = in_height;
    m_out.vector[0] = in_vx; m_out.vector[1] = in_vy; m_out.vector[2] = pixman_fixed_1;
    m_cx = in_src_x * 65536 + 32768; m_cy = in_src_y * 65536 + 32768;

    VH_MAINLOOP ((pixman_implementation_t *) 0, &info);

    VH_CHECK ("c08.transform_applied_once_to_centre_of_first_pixel", m_calls == 1 && m_arg_ok);
    VH_CHECK ("c08.every_pixel_of_the_box_is_composited_exactly_once", g_hits == 1);
    X = (ss_i64) in_vx + in_gk * ux;
    Y = (ss_i64) in_vy + SMALLMUL (in_gj, uy);
#ifndef VC_NOVALUE
    if (g_hits == 1)
    {
#if VC_FILTER == 1
        ss_i64 x0 = SS_BILIN_INDEX (X), y0 = SS_BILIN_INDEX (Y);
        int wxs = (int) SS_BILIN_W7 (X), wys = (int) SS_BILIN_W7 (Y);
        scl_blend code = scl_blend_canon (scl_row_canon (vh_tap_value (g_tl), vh_tap_value (g_tr), g_wx), g_wt,
                                          scl_row_canon (vh_tap_value (g_bl), vh_tap_value (g_br), g_wx), g_wb);
        scl_blend spec = scl_blend_canon (scl_row_canon (spec_pixel (x0, y0), spec_pixel (x0 + 1, y0), wxs), 128 - wys,
                                          scl_row_canon (spec_pixel (x0, y0 + 1), spec_pixel (x0 + 1, y0 + 1), wxs), wys);
        VH_CHECK ("c08.bilinear_pixel_blends_documented_neighbours_with_documented_weights", scl_blend_eq (code, spec));
#else
        VH_CHECK ("c08.nearest_pixel_is_documented_sample_of_repeated_image",
                  vh_tap_value (g_tl) == spec_pixel (SS_NEAREST_INDEX (X), SS_NEAREST_INDEX (Y)));
#endif
    }
#endif
    VH_END ();
}
