/* C08/C01 (lead): the float ("wide") scanline fetchers of transformed sources must not skip a pixel whose mask
 * pixel is non-zero.  In the wide pipeline the mask buffer holds one argb_t (four floats = four 32-bit words) per
 * pixel; the affine / general fetchers skip pixel i "when the mask is zero there".
 *   obligation  wide.pixel_with_nonzero_mask_is_fetched :  some word of mask pixel gk != 0  ==>  buffer pixel gk written
 * -DVC_ITER=0 bits_image_fetch_affine_no_alpha_float, 1 bits_image_fetch_general_float.  Width VC_W (unrolled).
 * The image's float pixel reader is a stub that returns the constant (1,1,1,1); the buffer starts as zeros.
 */
#include "vh.h"
#include <stdlib.h>
#define C08_OWN_T3D 1
#include "pixman-bits-image.c"

#ifndef VC_W
#define VC_W 4
#endif

PIXMAN_EXPORT pixman_bool_t
pixman_transform_point_3d (const struct pixman_transform *transform, struct pixman_vector *vector)
{
    (void) transform; (void) vector;   /* identity matrix: the vector stays */
    return TRUE;
}

static argb_t one_pixel (bits_image_t *image, int x, int y)
{
    argb_t p = { 1.0f, 1.0f, 1.0f, 1.0f };
    (void) image; (void) x; (void) y;
    return p;
}

#ifdef VH_CBMC
#define IN_ARRAY(type, name, n) type name[n]
#else
#define IN_ARRAY(type, name, n) type name[n]; do { int i_; char b_[64]; for (i_ = 0; i_ < (int) (n); i_++) { \
    snprintf (b_, sizeof b_, "%s[%d]", #name, i_); name[i_] = (type) VH_GET_I (b_); } } while (0)
#endif

void harness (void)
{
    IN_ARRAY (uint32_t, in_maskw, 4 * VC_W);
    VH_IN (vh_u8, in_gk);
    static bits_image_t img;
    static pixman_transform_t tr;
    static pixman_iter_t iter;
    static argb_t buffer[VC_W + 1];
    int any;

    VH_ASSUME (in_gk < VC_W);
    memset (&img, 0, sizeof img);
    img.common.type = BITS;
    img.common.repeat = PIXMAN_REPEAT_PAD;
    img.common.filter = PIXMAN_FILTER_NEAREST;
    tr.matrix[0][0] = tr.matrix[1][1] = tr.matrix[2][2] = pixman_fixed_1;
    img.common.transform = &tr;
    img.width = 64;
    img.height = 4;
    img.fetch_pixel_float = one_pixel;
    memset (buffer, 0, sizeof buffer);
    iter.image = (pixman_image_t *) &img;
    iter.x = 0;
    iter.y = 0;
    iter.width = VC_W;
    iter.buffer = (uint32_t *) buffer;
#if VC_ITER == 0
    bits_image_fetch_affine_no_alpha_float (&iter, in_maskw);
#else
    bits_image_fetch_general_float (&iter, in_maskw);
#endif
    any = in_maskw[4 * in_gk] | in_maskw[4 * in_gk + 1] | in_maskw[4 * in_gk + 2] | in_maskw[4 * in_gk + 3];
    VH_CHECK ("wide.pixel_with_nonzero_mask_is_fetched", !any || buffer[in_gk].a == 1.0f);
    VH_CHECK ("wide.nothing_written_past_width", buffer[VC_W].a == 0.0f && buffer[VC_W].b == 0.0f);
    VH_END ();
}
