/* C08 (b-sample2): the specialised affine scanline fetchers of pixman-fast-path.c
 *      bits_image_fetch_{nearest, bilinear, separable_convolution}_affine   and their 48 macro-generated instances
 *      bits_image_fetch_<filter>_affine_<repeat>_<format>  as bound in the iterator table fast_iters[]
 * against the sampling reference of the property ("... whichever internal fetcher is used").
 *
 *  -DVC_KIND=0  NEAREST:   pixel i == source pixel at floor (x_i - e), floor (y_i - e) of the repeated image
 *  -DVC_KIND=1  BILINEAR:  pixel i == blend (tl, tr, bl, br, wx, wy): the four neighbours of (x_i - 1/2, y_i - 1/2) in the
 *               repeated image and the 7-bit weights.  With -DVC_BLENDMODEL=1 (CBMC build) bilinear_interpolation is an
 *               uninterpreted function of its six arguments (with blend (0,0,0,0,.,.) == 0, the lemma of -DVC_KIND=9);
 *               the function itself is the subject of the bilin.* jobs.
 *  -DVC_KIND=2  SEPARABLE CONVOLUTION, kernel VC_CW x VC_CHT, 0 subsample bits, ONE-HOT weights (tap (tj, ti) symbolic,
 *               weight 1.0, others 0): pixel i == source pixel at (x1 + tj, y1 + ti), x1 = floor (xc - e - (VC_CW - 1)/2),
 *               xc = x_i rounded to the centre of its phase.
 *               -DVC_TJ= -DVC_TI= fix the tap per job (cheap: constant weights); without them the tap is symbolic.
 *  -DVC_KIND=9  lemma: bilinear_interpolation (0, 0, 0, 0, wx, wy) == 0 for every 7-bit weight pair.
 *
 *  x_i = v + i * (ux, uy);  v = what pixman_transform_point_3d (a model here, property C11 owns the real one) makes of the
 *  centre of the first pixel; (ux, uy) = first column of the matrix.
 *
 *  -DVC_REP=0..3 (pixman_repeat_t: NONE NORMAL PAD REFLECT)   -DVC_FMT=a8r8g8b8 | x8r8g8b8 | a8 | r5g6b5
 *  -DVC_CALL=0  the force_inline worker with (convert_<fmt>, PIXMAN_<fmt>, repeat) passed by the harness
 *  -DVC_CALL=1  the generated instance NAMED after VC_REP / VC_FMT (binds repeat mode, format code and convert_ helper)
 *  -DVC_CALL=2  whatever _pixman_implementation_iter_init (the real selection code) picks from fast_iters[] for an image of
 *               format VC_FMT whose flags say: general affine transform, filter VC_KIND, repeat VC_REP
 *
 *  Source: VC_SW x VC_SH (4 x 3) pixels of format VC_FMT, every stored bit symbolic, rowstride one word longer than
 *  the row (so that width, height and rowstride are three different numbers).  The reference reads the storage with
 *  spec_format.h (SF_RAW: little-endian layout; SF_WIDEN_PIX: field table of the format NAME, absent alpha = 0xff).
 */
#include <config.h>
#include "pixman-private.h"
#include "pixman-inlines.h"
#include "vh.h"
#include <stdlib.h>
#include "spec_sample.h"
#include "spec_format.h"

#ifndef VC_KIND
#define VC_KIND 0
#endif
#ifndef VC_REP
#define VC_REP 2
#endif
#ifndef VC_FMT
#define VC_FMT a8r8g8b8
#endif
#ifndef VC_CALL
#define VC_CALL 1
#endif
#ifndef VC_W
#define VC_W 2
#endif
#ifndef VC_CW
#define VC_CW 2
#endif
#ifndef VC_CHT
#define VC_CHT 1
#endif
#define VC_SW 4
#define VC_SH 3
/* words of the same object in front of the image storage.  The NONE-repeat bilinear worker forms `row + bpp/8 * x1` with
 * x1 == -1 before it reads pixel [1] of that row: for the first row of an image that starts an allocation this is a pointer
 * before the object (undefined in ISO C, and "outside the object" in CBMC's memory model although the byte that is finally
 * read is the image's first).  VC_PAD=1 keeps that pointer inside the object so that the VALUE obligation is decidable;
 * VC_PAD=0 is the job finding.fastpath.bilinear.none.row_pointer_before_allocation. */
#ifndef VC_PAD
#define VC_PAD 0
#endif
#ifndef VC_RANGE
#define VC_RANGE 10          /* sample positions within +-VC_RANGE pixels */
#endif

#if defined (VH_CBMC) && defined (VC_BLENDMODEL) && VC_BLENDMODEL
unsigned __CPROVER_uninterpreted_c08_blend (unsigned tl, unsigned tr, unsigned bl, unsigned br, int wx, int wy);
static unsigned c08_blend (unsigned tl, unsigned tr, unsigned bl, unsigned br, int wx, int wy)
{
    unsigned r = __CPROVER_uninterpreted_c08_blend (tl, tr, bl, br, wx, wy);
    __CPROVER_assume (!(tl == 0 && tr == 0 && bl == 0 && br == 0) || r == 0);      /* lemma VC_KIND=9 */
    return r;
}
#define bilinear_interpolation(tl, tr, bl, br, wx, wy) c08_blend (tl, tr, bl, br, wx, wy)
#endif

#include "pixman-fast-path.c"
#if VC_CALL == 2
#include "pixman-implementation.c"
#endif

#define CAT3_(a, b, c) a##b##c
#define CAT3(a, b, c) CAT3_ (a, b, c)
#define CAT5_(a, b, c, d, e) a##b##c##d##e
#define CAT5(a, b, c, d, e) CAT5_ (a, b, c, d, e)

#if VC_REP == 0
#define REPNAME none
#elif VC_REP == 1
#define REPNAME normal
#elif VC_REP == 2
#define REPNAME pad
#else
#define REPNAME reflect
#endif
#if VC_KIND == 0
#define KINDNAME nearest
#elif VC_KIND == 1
#define KINDNAME bilinear
#else
#define KINDNAME separable_convolution
#endif
#define WORKER   CAT3 (bits_image_fetch_, KINDNAME, _affine)
#define INSTANCE CAT5 (WORKER, _, REPNAME, _, VC_FMT)
#define CONVERT  CAT3 (convert_, VC_FMT, )
#define FORMAT   CAT3 (PIXMAN_, VC_FMT, )

/* ---- pixman_transform_point_3d: model ---- */
static pixman_vector_t m_out;
static pixman_bool_t m_ok;
static int m_calls, m_arg_ok;
static int m_cx, m_cy;
PIXMAN_EXPORT pixman_bool_t
pixman_transform_point_3d (const struct pixman_transform *transform, struct pixman_vector *vector)
{
    (void) transform;
    m_calls++;
    m_arg_ok = (vector->vector[0] == m_cx && vector->vector[1] == m_cy && vector->vector[2] == 65536);
    *vector = m_out;
    return m_ok;
}

#ifdef VH_CBMC
#define IN_ARRAY(type, name, n) type name[n]
#else
#define IN_ARRAY(type, name, n) type name[n]; do { int i_; char b_[64]; for (i_ = 0; i_ < (int) (n); i_++) { \
    snprintf (b_, sizeof b_, "%s[%d]", #name, i_); name[i_] = (type) VH_GET_I (b_); } } while (0)
#endif

/* ---- the source image and its reference reading ---- */
#define RS ((VC_SW * SF_BPP (VC_FMT) / 8 + 3) / 4 + 1)       /* rowstride in 32-bit words */
static const uint32_t *src_words;          /* = in_px + VC_PAD, VC_SH * RS words */

static uint32_t src_pixel (ss_i64 x, ss_i64 y)               /* 0 <= x < VC_SW, 0 <= y < VC_SH */
{
    const uint8_t *rb = (const uint8_t *) src_words + y * (RS * 4);
    uint32_t raw = SF_RAW (VC_FMT, rb, x);
    return SF_WIDEN_PIX (VC_FMT, raw);
}
/* pixel (cx, cy) of the virtually repeated image, per the property text */
static uint32_t spec_pixel (ss_i64 cx, ss_i64 cy)
{
#if VC_REP == SS_NONE
    if (!(SS_INSIDE (cx, VC_SW) && SS_INSIDE (cy, VC_SH)))
        return 0u;
    return src_pixel (cx, cy);
#else
    return src_pixel (ss_repeat_map (VC_REP, cx, VC_SW), ss_repeat_map (VC_REP, cy, VC_SH));
#endif
}

#if VC_KIND == 9
void harness (void)
{
    VH_IN (vh_u8, in_wx);
    VH_IN (vh_u8, in_wy);
    VH_ASSUME (in_wx < 128 && in_wy < 128);
    VH_CHECK ("lemma.blend_of_four_transparent_pixels_is_transparent", bilinear_interpolation (0, 0, 0, 0, in_wx, in_wy) == 0);
    VH_END ();
}
#else
void harness (void)
{
    IN_ARRAY (uint32_t, in_px, VC_PAD + VC_SH * RS);
    VH_IN (vh_i32, in_vx);
    VH_IN (vh_i32, in_vy);
    VH_IN (vh_i32, in_ux);
    VH_IN (vh_i32, in_uy);
    VH_IN (vh_u8, in_ok);
    VH_IN (vh_u8, in_use_mask);
    VH_IN (vh_i16, in_offset);
    VH_IN (vh_i16, in_line);
    VH_IN (vh_u8, in_gk);
    VH_IN (vh_u32, in_buf0);
    VH_IN (vh_u8, in_tj);
    VH_IN (vh_u8, in_ti);
    IN_ARRAY (uint32_t, in_mask, VC_W);
    static bits_image_t img;
    static pixman_transform_t tr;
    static pixman_iter_t iter;
    static pixman_fixed_t params[4 + VC_CW + VC_CHT];
    uint32_t buffer[VC_W + 1], mask[VC_W], *ret = buffer;
    const uint32_t *maskp;
    int gk = in_gk, i, written;
    ss_i64 X, Y;

    VH_ASSUME (gk <= VC_W);
    /* every sample position within +-VC_RANGE pixels of the 4x3 source: the NORMAL-repeat while loops of repeat() then
     * stay inside the unwinding bound; the index arithmetic under check does not depend on the magnitude */
    for (i = 0; i < VC_W; i++)
    {
        X = (ss_i64) in_vx + i * (ss_i64) in_ux; Y = (ss_i64) in_vy + i * (ss_i64) in_uy;
        VH_ASSUME (X > -(VC_RANGE * SS_ONE) && X < VC_RANGE * SS_ONE && Y > -(VC_RANGE * SS_ONE) && Y < VC_RANGE * SS_ONE);
    }
    VH_ASSUME (in_ux > -(2 * VC_RANGE << 16) && in_ux < (2 * VC_RANGE << 16) && in_uy > -(2 * VC_RANGE << 16) && in_uy < (2 * VC_RANGE << 16));

    src_words = in_px + VC_PAD;
    for (i = 0; i <= VC_W; i++)
        buffer[i] = in_buf0;
    for (i = 0; i < VC_W; i++)
        mask[i] = in_mask[i];
    maskp = in_use_mask ? mask : (const uint32_t *) 0;

    memset (&img, 0, sizeof img);
    img.common.type = BITS;
    img.common.repeat = (pixman_repeat_t) VC_REP;
    tr.matrix[0][0] = in_ux;
    tr.matrix[1][0] = in_uy;
    tr.matrix[2][2] = pixman_fixed_1;
    img.common.transform = &tr;
    img.format = FORMAT;
    img.common.extended_format_code = FORMAT;
    img.width = VC_SW; img.height = VC_SH; img.rowstride = RS; img.bits = in_px + VC_PAD;
#if VC_KIND == 0
    img.common.filter = PIXMAN_FILTER_NEAREST;
#elif VC_KIND == 1
    img.common.filter = PIXMAN_FILTER_BILINEAR;
#else
#ifdef VC_TJ      /* the tap fixed by the job (constant weights: the products fold), else symbolic */
    VH_ASSUME (in_tj == VC_TJ && in_ti == VC_TI);
#else
    VH_ASSUME (in_tj < VC_CW && in_ti < VC_CHT);
#endif
    img.common.filter = PIXMAN_FILTER_SEPARABLE_CONVOLUTION;
    params[0] = pixman_int_to_fixed (VC_CW);
    params[1] = pixman_int_to_fixed (VC_CHT);
    params[2] = 0; params[3] = 0;
#ifdef VC_TJ
    for (i = 0; i < VC_CW; i++) params[4 + i] = (i == VC_TJ) ? pixman_fixed_1 : 0;
    for (i = 0; i < VC_CHT; i++) params[4 + VC_CW + i] = (i == VC_TI) ? pixman_fixed_1 : 0;
#else
    for (i = 0; i < VC_CW; i++) params[4 + i] = (i == in_tj) ? pixman_fixed_1 : 0;
    for (i = 0; i < VC_CHT; i++) params[4 + VC_CW + i] = (i == in_ti) ? pixman_fixed_1 : 0;
#endif
    img.common.filter_params = params;
    img.common.n_filter_params = 4 + VC_CW + VC_CHT;
#endif

    m_out.vector[0] = in_vx; m_out.vector[1] = in_vy; m_out.vector[2] = pixman_fixed_1;
    m_ok = in_ok ? TRUE : FALSE;
    m_cx = in_offset * 65536 + 32768;
    m_cy = in_line * 65536 + 32768;

    iter.image = (pixman_image_t *) &img;
    iter.x = in_offset;
    iter.y = in_line;
    iter.width = VC_W;
    iter.buffer = buffer;

#if VC_CALL == 0
    WORKER ((pixman_image_t *) &img, in_offset, in_line, VC_W, buffer, maskp, CONVERT, FORMAT, (pixman_repeat_t) VC_REP);
    iter.y++;
#elif VC_CALL == 1
    ret = INSTANCE (&iter, maskp);
#else
    {
        /* image flags of a BITS image without alpha map and accessors, with a general (not scaling, not integer-translation)
         * affine transform, the job's filter and the job's repeat mode: "repeat is R" = none of the other three */
        static pixman_implementation_t imp;
        uint32_t flags = FAST_PATH_NO_ALPHA_MAP | FAST_PATH_NO_ACCESSORS | FAST_PATH_NARROW_FORMAT | FAST_PATH_BITS_IMAGE |
                         FAST_PATH_HAS_TRANSFORM | FAST_PATH_AFFINE_TRANSFORM;
#if VC_KIND == 0
        flags |= FAST_PATH_NEAREST_FILTER | FAST_PATH_NO_CONVOLUTION_FILTER;
#elif VC_KIND == 1
        flags |= FAST_PATH_BILINEAR_FILTER | FAST_PATH_NO_CONVOLUTION_FILTER;
#else
        flags |= FAST_PATH_SEPARABLE_CONVOLUTION_FILTER;
#endif
#if VC_REP != 0
        flags |= FAST_PATH_NO_NONE_REPEAT;
#endif
#if VC_REP != 1
        flags |= FAST_PATH_NO_NORMAL_REPEAT;
#endif
#if VC_REP != 2
        flags |= FAST_PATH_NO_PAD_REPEAT;
#endif
#if VC_REP != 3
        flags |= FAST_PATH_NO_REFLECT_REPEAT;
#endif
        imp.iter_info = fast_iters;
        imp.fallback = 0;
        iter.get_scanline = 0;
        _pixman_implementation_iter_init (&imp, &iter, (pixman_image_t *) &img, in_offset, in_line, VC_W, 1,
                                          (uint8_t *) buffer, (iter_flags_t) (ITER_NARROW | ITER_SRC), flags);
        VH_CHECK ("table.fast_iters_has_an_entry_for_this_image", iter.get_scanline != 0);
        if (iter.get_scanline)
            ret = iter.get_scanline (&iter, maskp);
    }
#endif

    VH_CHECK ("fp.returns_buffer", ret == buffer);
    VH_CHECK ("fp.line_advanced", iter.y == in_line + 1);
    VH_CHECK ("fp.transform_called_once_with_pixel_centre", m_calls == 1 && m_arg_ok);
    VH_CHECK ("fp.nothing_written_beyond_width", gk < VC_W || buffer[gk] == in_buf0);
    written = in_ok && !(in_use_mask && gk < VC_W && mask[gk] == 0);
    if (gk < VC_W && !written)
        VH_CHECK ("fp.masked_or_untransformable_pixel_not_written", buffer[gk] == in_buf0);
#ifndef VC_NOCHECK    /* (the finding.* job only looks at the language-level obligations of the call) */
    if (gk < VC_W && written)
    {
        X = (ss_i64) in_vx + gk * (ss_i64) in_ux; Y = (ss_i64) in_vy + gk * (ss_i64) in_uy;
#if VC_KIND == 0
        VH_CHECK ("fp_nearest.pixel_i_is_source_pixel_at_floor_x_minus_e",
                  buffer[gk] == spec_pixel (SS_NEAREST_INDEX (X), SS_NEAREST_INDEX (Y)));
#elif VC_KIND == 1
        {
            ss_i64 x1 = SS_BILIN_INDEX (X), y1 = SS_BILIN_INDEX (Y);
            uint32_t tl = spec_pixel (x1, y1), tr_ = spec_pixel (x1 + 1, y1);
            uint32_t bl = spec_pixel (x1, y1 + 1), br = spec_pixel (x1 + 1, y1 + 1);
            /* bilinear_interpolation: the same symbol the fetcher calls (real function natively, uninterpreted under CBMC) */
            VH_CHECK ("fp_bilinear.pixel_i_is_blend_of_four_neighbours_of_x_minus_half_with_7bit_weights",
                      buffer[gk] == bilinear_interpolation (tl, tr_, bl, br, (int) SS_BILIN_W7 (X), (int) SS_BILIN_W7 (Y)));
        }
#else
        {
            ss_i64 xc = SS_PHASE_ROUND (X, 0), yc = SS_PHASE_ROUND (Y, 0);
            ss_i64 x1 = SS_CONV_FIRST (xc, VC_CW), y1 = SS_CONV_FIRST (yc, VC_CHT);
            VH_CHECK ("fp_sepconv.pixel_i_is_the_documented_tap_of_a_one_hot_kernel",
                      buffer[gk] == spec_pixel (x1 + in_tj, y1 + in_ti));
        }
#endif
    }
#endif
    VH_END ();
}
#endif
