/* C08 (2): pixman_fixed_to_bilinear_weight and bilinear_interpolation (pixman-inlines.h; the variant selected by
 * BILINEAR_INTERPOLATION_BITS / SIZEOF_LONG of the build's config.h) against the blend of spec_sample.h.
 *
 *  -DVC_CASE=0          configuration facts + weight: 7 most significant bits of the fraction, for every 16.16 value
 *  -DVC_CASE=1 -DVC_CH  one channel of bilinear_interpolation, every 4 pixels x every pair of 7-bit weights
 *  -DVC_CASE=3 -DVC_CH  the same with both weights taken from the fixed grid VC_GRID (VC_NGRID values): bounded stand-in,
 *                       the query with symbolic weights does not finish (see props/C08.py)
 *  -DVC_CASE=2 -DVC_CH  corner cases as literals: weight 0 returns tl exactly; constant image stays constant
 */
#include <config.h>
#include "pixman-private.h"
#include "pixman-inlines.h"
#include "spec_sample.h"
#include "vh.h"

void harness (void)
{
#if VC_CASE == 0
    VH_IN (vh_i32, in_v);
    int w = pixman_fixed_to_bilinear_weight (in_v);
    /* the property fixes 7-bit weights */
    VH_CHECK ("bilin.config.seven_bit_weights", BILINEAR_INTERPOLATION_BITS == 7 && BILINEAR_INTERPOLATION_RANGE == 128);
    VH_CHECK ("bilin.weight.in_range", w >= 0 && w <= 127);
    VH_CHECK ("bilin.weight.is_top7_bits_of_fraction", (ss_i64) w == (SS_FRAC (in_v) >> 9));
    /* written as an interval: w/128 <= frac(v)/65536 < (w+1)/128 */
    VH_CHECK ("bilin.weight.truncates_fraction", (ss_i64) w * 512 <= SS_FRAC (in_v) && SS_FRAC (in_v) < ((ss_i64) w + 1) * 512);
#elif VC_CASE == 1
    VH_IN (vh_u32, in_tl);
    VH_IN (vh_u32, in_tr);
    VH_IN (vh_u32, in_bl);
    VH_IN (vh_u32, in_br);
    VH_IN (vh_u8, in_wx7);
    VH_IN (vh_u8, in_wy7);
    int in_wx = in_wx7 & 127, in_wy = in_wy7 & 127;        /* every pair of 7-bit weights */
    uint32_t r;
#ifdef VC_WX        /* bounded stand-in: one fixed weight pair per query (the query with symbolic weights does not finish) */
    in_wx = VC_WX;
    in_wy = VC_WY;
#endif
    r = bilinear_interpolation (in_tl, in_tr, in_bl, in_br, in_wx, in_wy);
    VH_CHECK ("bilin.interp.channel_is_truncated_weighted_sum",
              SS_CH (r, VC_CH) == SS_BILIN_CH (SS_CH (in_tl, VC_CH), SS_CH (in_tr, VC_CH), SS_CH (in_bl, VC_CH), SS_CH (in_br, VC_CH),
                                               in_wx, in_wy));
#elif VC_CASE == 2
    VH_IN (vh_u32, in_tl);
    VH_IN (vh_u32, in_tr);
    VH_IN (vh_u32, in_bl);
    VH_IN (vh_u32, in_br);
    VH_IN (vh_u8, in_wx7);
    VH_IN (vh_u8, in_wy7);
    int in_wx = in_wx7 & 127, in_wy = in_wy7 & 127;        /* every pair of 7-bit weights */
    uint32_t r;
    r = bilinear_interpolation (in_tl, in_tr, in_bl, in_br, in_wx, in_wy);
    if (in_wx == 0 && in_wy == 0)
        VH_CHECK ("bilin.interp.zero_weights_return_top_left", r == in_tl);
    if (in_wx == 0)
        VH_CHECK ("bilin.interp.zero_x_weight_ignores_right_column",
                  r == bilinear_interpolation (in_tl, ~in_tr, in_bl, ~in_br, in_wx, in_wy));
    if (in_wy == 0)
        VH_CHECK ("bilin.interp.zero_y_weight_ignores_bottom_row",
                  r == bilinear_interpolation (in_tl, in_tr, ~in_bl, ~in_br, in_wx, in_wy));
    if (SS_CH (in_tl, VC_CH) == SS_CH (in_tr, VC_CH) && SS_CH (in_tl, VC_CH) == SS_CH (in_bl, VC_CH) &&
        SS_CH (in_tl, VC_CH) == SS_CH (in_br, VC_CH))
        VH_CHECK ("bilin.interp.constant_channel_stays_constant", SS_CH (r, VC_CH) == SS_CH (in_tl, VC_CH));
#elif VC_CASE == 3
    /* the blend for every weight pair of a fixed grid (both weights compile-time constants after unwinding), every 4 pixels */
    VH_IN (vh_u32, in_tl);
    VH_IN (vh_u32, in_tr);
    VH_IN (vh_u32, in_bl);
    VH_IN (vh_u32, in_br);
    static const int grid[VC_NGRID] = { VC_GRID };
    int i, j;
    for (i = 0; i < VC_NGRID; i++)
        for (j = 0; j < VC_NGRID; j++)
        {
            uint32_t r = bilinear_interpolation (in_tl, in_tr, in_bl, in_br, grid[i], grid[j]);
            VH_CHECK ("bilin.interp.channel_is_truncated_weighted_sum",
                      SS_CH (r, VC_CH) == SS_BILIN_CH (SS_CH (in_tl, VC_CH), SS_CH (in_tr, VC_CH), SS_CH (in_bl, VC_CH),
                                                       SS_CH (in_br, VC_CH), grid[i], grid[j]));
        }
#endif
    VH_END ();
}
