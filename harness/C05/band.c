/* C05/C06 band level (lead): the three overlap procedures that pixman_op calls for one pair of
 * y-overlapping bands — pixman_region_intersect_o / _union_o / _subtract_o — called DIRECTLY
 * (they are static: the real pixman-region32.c / -region16.c is #included), with
 *    band 1: VB_K1 rectangles, band 2: VB_K2 rectangles  (constants per job, 1..3)
 * each band in canonical form (sorted by x, non-empty, separated by gaps), every coordinate a
 * free int32 (int16 for -DVR_BITS=16), y1 < y2 free.
 * The destination is pre-sized (room for 12 boxes, n0 = 0 or 1 boxes already present) so the
 * allocator is not part of the query.
 * Obligations (ghost x gx):
 *   band.point_membership_is_set_algebra   gx in appended boxes  <=>  op (gx in band 1, gx in band 2)
 *   band.appended_boxes_canonical          appended boxes: non-empty, y-extent == (y1,y2), sorted, separated by gaps
 *   band.existing_boxes_unchanged, band.returns_TRUE, band.count_bounded
 *   -DVB_OP=0 intersect, 1 union, 2 subtract (band1 - band2)
 */
#ifndef VR_STUB_ALLOC
#define VR_STUB_ALLOC 1      /* destination pre-sized: any allocation by the band function is an obligation failure */
#endif
#include "rh.h"
typedef rh_coord vb_coord;
#define VB_IN(name) VH_IN_COORD (name)

#define ROOM 12

static int in_band (const box_type_t *b, int k, long x)
{
    int i, r = 0;
    for (i = 0; i < k; i++)
        if (b[i].x1 <= x && x < b[i].x2) r = 1;
    return r;
}

static int band_ok (const box_type_t *b, int k)
{
    int i, ok = 1;
    for (i = 0; i < k; i++)
    {
        if (!(b[i].x1 < b[i].x2)) ok = 0;
        if (i > 0 && !(b[i - 1].x2 < b[i].x1)) ok = 0;
    }
    return ok;
}

void harness (void)
{
    VB_IN (in_a0x1); VB_IN (in_a0x2); VB_IN (in_a1x1); VB_IN (in_a1x2); VB_IN (in_a2x1); VB_IN (in_a2x2);
    VB_IN (in_b0x1); VB_IN (in_b0x2); VB_IN (in_b1x1); VB_IN (in_b1x2); VB_IN (in_b2x1); VB_IN (in_b2x2);
    VB_IN (in_y1); VB_IN (in_y2); VB_IN (in_gx);
    VB_IN (in_e_x1); VB_IN (in_e_x2); VB_IN (in_e_y1); VB_IN (in_e_y2);
    VH_IN (vh_u8, in_n0);
    box_type_t a[3], b[3], old;
    region_type_t reg;
    box_type_t *out;
    pixman_bool_t ret;
    int i, n, member, expect, canon;

    a[0].x1 = in_a0x1; a[0].x2 = in_a0x2; a[1].x1 = in_a1x1; a[1].x2 = in_a1x2; a[2].x1 = in_a2x1; a[2].x2 = in_a2x2;
    b[0].x1 = in_b0x1; b[0].x2 = in_b0x2; b[1].x1 = in_b1x1; b[1].x2 = in_b1x2; b[2].x1 = in_b2x1; b[2].x2 = in_b2x2;
    for (i = 0; i < 3; i++) { a[i].y1 = b[i].y1 = in_y1; a[i].y2 = b[i].y2 = in_y2; }
    VH_ASSUME (in_y1 < in_y2);
    VH_ASSUME (band_ok (a, VB_K1) && band_ok (b, VB_K2));
    VH_ASSUME (in_n0 <= 1);

    reg.data = (region_data_type_t *) (malloc) (sizeof (region_data_type_t) + ROOM * sizeof (box_type_t));
    VH_ASSUME (reg.data != 0);
    reg.data->size = ROOM;
    reg.data->numRects = in_n0;
    old.x1 = in_e_x1; old.x2 = in_e_x2; old.y1 = in_e_y1; old.y2 = in_e_y2;
    PIXREGION_BOXPTR (&reg)[0] = old;
    reg.extents = old;

#if VB_OP == 0
    ret = pixman_region_intersect_o (&reg, a, a + VB_K1, b, b + VB_K2, in_y1, in_y2);
#elif VB_OP == 1
    ret = pixman_region_union_o (&reg, a, a + VB_K1, b, b + VB_K2, in_y1, in_y2);
#else
    ret = pixman_region_subtract_o (&reg, a, a + VB_K1, b, b + VB_K2, in_y1, in_y2);
#endif

    VH_CHECK ("band.returns_TRUE", ret == TRUE);
    n = reg.data->numRects - in_n0;
    VH_CHECK ("band.count_bounded", n >= 0 && n <= VB_K1 + VB_K2 + 1 && reg.data->numRects <= ROOM);
    out = PIXREGION_BOXPTR (&reg) + in_n0;
    member = 0; canon = 1;
    for (i = 0; i < n && i < VB_K1 + VB_K2 + 1; i++)
    {
        if (out[i].x1 <= in_gx && in_gx < out[i].x2) member = 1;
        if (!(out[i].x1 < out[i].x2)) canon = 0;
        if (out[i].y1 != in_y1 || out[i].y2 != in_y2) canon = 0;
        if (i > 0 && !(out[i - 1].x2 < out[i].x1)) canon = 0;
    }
#if VB_OP == 0
    expect = in_band (a, VB_K1, in_gx) && in_band (b, VB_K2, in_gx);
#elif VB_OP == 1
    expect = in_band (a, VB_K1, in_gx) || in_band (b, VB_K2, in_gx);
#else
    expect = in_band (a, VB_K1, in_gx) && !in_band (b, VB_K2, in_gx);
#endif
    VH_CHECK ("band.point_membership_is_set_algebra", member == expect);
    VH_CHECK ("band.appended_boxes_canonical", canon);
    if (in_n0 == 1)
        VH_CHECK ("band.existing_boxes_unchanged", PIXREGION_BOXPTR (&reg)[0].x1 == old.x1 && PIXREGION_BOXPTR (&reg)[0].x2 == old.x2 &&
                  PIXREGION_BOXPTR (&reg)[0].y1 == old.y1 && PIXREGION_BOXPTR (&reg)[0].y2 == old.y2);
    (free) (reg.data);
    VH_END ();
}
