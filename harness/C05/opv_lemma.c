/* C06 lemma, route H: the one-pass formulation of the canonical-list predicate used by the opv harnesses
 * (opv_canon_list, opv_rh.h) agrees with the specification predicate sr_canon_list of spec/spec_region.h on EVERY list
 * of VL_N boxes (all coordinates free, full domain).  -DVL_N=0..5.  Nothing of the library is executed. */
#include "opv_rh.h"
#ifndef VL_N
#define VL_N 3
#endif
void harness (void)
{
    OPV_IN_COORD_ARRAY (in_c, 4 * 5);
    box_type_t b[5];
    int i;
    for (i = 0; i < 5; i++)
    {
        b[i].x1 = in_c[4 * i]; b[i].y1 = in_c[4 * i + 1]; b[i].x2 = in_c[4 * i + 2]; b[i].y2 = in_c[4 * i + 3];
    }
    VH_CHECK ("lemma.canon_linear_equals_spec", opv_canon_list (b, VL_N, 5) == sr_canon_list_r (b, VL_N));
    VH_END ();
}
