/* C05/C06/C15 route H, MODULAR: the REAL pixman_op() (band sweep, old_data / aliasing logic, result normalisation,
 * bail path, COALESCE macro) with the real pixman_region_append_non_o, pixman_rect_alloc, pixman_break — and the
 * overlap procedure (a function-pointer parameter of pixman_op) replaced by a CONTRACT STUB, opv_overlap (), and
 * pixman_coalesce replaced by its contract (opv_coalesce in opv_rh.h: concrete decision tree + guard).
 *
 *   -DVR_BITS=32|16
 *   -DVO_NA, -DVO_NB = 1..3   rectangles of operand 1 / 2 (1 = inline single rectangle, else a heap list)
 *   -DVO_NLAY=n -DVO_LAYOUTS=v,v,...       table of LAYOUTS: per layout y1,y2 of operand 1's boxes, then of operand
 *                             2's, then the number of boxes (0..2) the overlap stub appends in its 1st, 2nd, ... call.  pixman_op only COMPARES y coordinates (==, <, MIN, MAX), so its behaviour depends on
 *                             the relative order of the band boundaries only; props/C05_opv.py enumerates these order
 *                             types (all of them, or a stated sample) as small integers.  Every layout is run in turn
 *                             by the same query.  x coordinates are free (full domain) and the lists are canonical
 *                             (layouts/x values that are not are skipped).
 *                             Why not free y: with symbolic band boundaries every pointer into the rectangle blocks is
 *                             symbolic and the query does not finish (measured: 1 x 2 rectangles, > 14 GB).
 *   -DVO_ALIAS=0 result object distinct | 1 new_reg == reg1 | 2 new_reg == reg2
 *   -DVO_SPARE=n   the heap arrays of the operands have room for numRects + n boxes (0 = exactly full)
 *   -DVO_DST=0 inline single rectangle | 1 heap list of 2 stale boxes, capacity 2 | 2 static empty
 *            | 3 heap list of 2 stale boxes with capacity OPV_CAP (no allocation needed)      (VO_ALIAS == 0 only)
 *   -DVO_NON1, -DVO_NON2 = 0|1   append_non1 / append_non2 (union 1,1; subtract 1,0; intersect 0,0; inverse 0,1)
 *   -DVO_FAIL      additionally every execution is repeated with the k-th allocation failing, for every k
 *
 * Contract of an overlap procedure (what pixman_region_{intersect,union,subtract}_o require and guarantee; their
 * bodies are verified against it by the band.* jobs):
 *   requires  r1 < r1_end, r2 < r2_end, y1 < y2; [r1,r1_end) is one complete band of operand 1 and [r2,r2_end) one
 *             complete band of operand 2, readable and with the operands' ORIGINAL boxes (compared against ghost
 *             copies taken before the call; the stub dereferences r1..r1_end / r2..r2_end, so storage that was freed,
 *             realloc'ed or overwritten by the output is caught here or by the pointer checks);
 *             y1 == max (top of the two bands), y2 == min (bottom of the two bands);
 *             bands are presented in increasing y; region has a rectangle block (data != NULL, not the broken one)
 *   ensures   0, 1 or 2 boxes [y1,y2) x [..) appended after the existing ones, sorted in x and separated by gaps,
 *             existing boxes untouched, TRUE; or, when an allocation fails, region broken and FALSE.
 * The number of boxes per call comes from the layout row, their x coordinates are inputs (in_x[4*call..]), so a
 * counterexample replays natively with the same stub.  (A free box count makes the fill level of the result block
 * symbolic: 20-50 s of solver time per layout instead of < 1 s.)
 *
 * Obligations on pixman_op (ghost point (in_gx, in_gy); band1 / band2 = the band of operand 1 / 2 whose y range
 * contains in_gy, if any):
 *   op.sweep.*            overlap procedure called exactly once for the pair (band1, band2) if both exist, never for a
 *                         row covered by only one operand or none
 *   op.point_membership_follows_sweep_contract
 *                         p in result <=> both bands: p in the boxes the overlap procedure appended for that pair
 *                                         only band1: append_non1 and p in operand 1;   only band2: likewise
 *                                         none: FALSE
 *   c06.op.*              result memory shape (0 rects -> shared empty block, 1 rect -> data == NULL and extents is the
 *                         rectangle, else heap list with numRects <= size) and canonical rectangle list (banding,
 *                         order, gaps, identical adjacent bands coalesced)
 *   op.frame.*            operands that are not the result object: unchanged (object, block, boxes)
 *   c15.op.*              FALSE only after an injected allocation failure, then result == broken region;
 *                         --memory-leak-check + double-free checks: old_data and every block freed exactly once
 */
#define OPV_COALESCE_STUB 1
#include "opv_rh.h"

#ifndef VO_NA
#define VO_NA 1
#endif
#ifndef VO_NB
#define VO_NB 2
#endif
#ifndef VO_ALIAS
#define VO_ALIAS 0
#endif
#ifndef VO_SPARE
#define VO_SPARE 0
#endif
#ifndef VO_DST
#define VO_DST 0
#endif
#ifndef VO_NON1
#define VO_NON1 1
#endif
#ifndef VO_NON2
#define VO_NON2 1
#endif

#ifndef VO_NLAY
#define VO_NLAY 1
#define VO_LAYOUTS 0, 2, 1, 3, 3, 4, 2, 1
#endif
#define OPV_MAXN 3
#define OPV_MAXLEAVES 64
#define OPV_MAXALLOCS 8
#define OPV_CALLS (VO_NA + VO_NB - 1)        /* every call retires at least one band of one operand */
#define OPV_ROW (2 * (VO_NA + VO_NB) + OPV_CALLS)
static const int opv_lay[VO_NLAY][OPV_ROW] = { VO_LAYOUTS };     /* flat, row-major */
#define OPV_MAXOUT (3 * (VO_NA + VO_NB) + 2) /* generous: loops over the result are cut here by the unwinding assertion */

/* ---- ghost state shared with the overlap stub ---------------------------------------------- */
static box_type_t g_a[OPV_MAXN], g_b[OPV_MAXN];   /* ghost copies of the operands' boxes */
static const box_type_t *g_abase, *g_bbase;       /* where the operands' boxes live when pixman_op is entered */
static long g_gx, g_gy;
static const int *g_k;
static const rh_coord *g_x;
static int g_calls, g_hits, g_last_y2_valid;
static long g_last_y2;
static int g_rec_s1, g_rec_e1, g_rec_s2, g_rec_e2, g_rec_member;
static long g_rec_y1, g_rec_y2;

static int opv_index_of (const box_type_t *p, const box_type_t *base, int n)
{
    int i, r = -1;
    for (i = 0; i <= n; i++)
        if (p == base + i)
            r = i;
    return r;
}

static pixman_bool_t opv_overlap (region_type_t *region, box_type_t *r1, box_type_t *r1_end,
                                  box_type_t *r2, box_type_t *r2_end, int y1, int y2)
{
    int call = g_calls++;
    int s1 = opv_index_of (r1, g_abase, VO_NA), e1 = opv_index_of (r1_end, g_abase, VO_NA);
    int s2 = opv_index_of (r2, g_bbase, VO_NB), e2 = opv_index_of (r2_end, g_bbase, VO_NB);
    int i, k, ok1, ok2, orig, member = 0;
    rh_coord x[4];

    /* (a) the precondition, as obligations on the caller */
    VH_CHECK ("overlap.pre.y1_lt_y2", y1 < y2);
    ok1 = s1 >= 0 && e1 > s1;
    ok2 = s2 >= 0 && e2 > s2;
    VH_CHECK ("overlap.pre.band1_is_nonempty_range_of_operand1_storage", ok1);
    VH_CHECK ("overlap.pre.band2_is_nonempty_range_of_operand2_storage", ok2);
    if (!ok1 || !ok2)
        return FALSE;
    orig = 1;
    for (i = 0; i < e1 - s1 && i < OPV_MAXN; i++)
        if (!opv_box_eq (&r1[i], &g_a[s1 + i]))        /* reads the storage pixman_op handed over */
            orig = 0;
    VH_CHECK ("overlap.pre.band1_boxes_are_operand1_original_boxes", orig);
    orig = 1;
    for (i = 0; i < e2 - s2 && i < OPV_MAXN; i++)
        if (!opv_box_eq (&r2[i], &g_b[s2 + i]))
            orig = 0;
    VH_CHECK ("overlap.pre.band2_boxes_are_operand2_original_boxes", orig);
    VH_CHECK ("overlap.pre.band1_is_one_complete_band",
              (s1 == 0 || g_a[s1 - 1].y1 != g_a[s1].y1) && g_a[e1 - 1].y1 == g_a[s1].y1
              && (e1 == VO_NA || g_a[e1].y1 != g_a[s1].y1));
    VH_CHECK ("overlap.pre.band2_is_one_complete_band",
              (s2 == 0 || g_b[s2 - 1].y1 != g_b[s2].y1) && g_b[e2 - 1].y1 == g_b[s2].y1
              && (e2 == VO_NB || g_b[e2].y1 != g_b[s2].y1));
    VH_CHECK ("overlap.pre.ytop_is_max_of_tops_ybot_is_min_of_bottoms",
              y1 == (g_a[s1].y1 > g_b[s2].y1 ? g_a[s1].y1 : g_b[s2].y1)
              && y2 == (g_a[s1].y2 < g_b[s2].y2 ? g_a[s1].y2 : g_b[s2].y2));
    VH_CHECK ("overlap.pre.bands_presented_in_increasing_y", !g_last_y2_valid || (long) y1 >= g_last_y2);
    g_last_y2 = y2;
    g_last_y2_valid = 1;
    VH_CHECK ("overlap.pre.region_has_rectangle_block",
              region->data != (region_data_type_t *) 0 && region->data != pixman_broken_data
              && region->data->numRects <= region->data->size);
    if (!region->data)
        return FALSE;

    /* (b) the effect: k in 0..2 boxes of the band, x coordinates from the input pool */
    VH_CHECK ("overlap.stub.call_count_within_pool", call < OPV_CALLS);
    if (call >= OPV_CALLS)
        return FALSE;
    k = g_k[call];
    for (i = 0; i < 4; i++)
        x[i] = g_x[4 * call + i];
    for (i = 0; i < k && i < 2; i++)
    {
        box_type_t *t;
        if (region->data->numRects == region->data->size)
        {
            if (!pixman_rect_alloc (region, 1))
                return FALSE;                           /* region is broken now */
        }
        t = PIXREGION_TOP (region);
        t->x1 = x[2 * i]; t->y1 = y1; t->x2 = x[2 * i + 1]; t->y2 = y2;
        region->data->numRects++;
        if ((long) x[2 * i] <= g_gx && g_gx < (long) x[2 * i + 1])
            member = 1;
    }
    if ((long) y1 <= g_gy && g_gy < (long) y2)
    {
        g_hits++;
        g_rec_s1 = s1; g_rec_e1 = e1; g_rec_s2 = s2; g_rec_e2 = e2;
        g_rec_y1 = y1; g_rec_y2 = y2; g_rec_member = member;
    }
    return TRUE;
}

/* the band of list b[0..n) whose y range contains gy: [*s, *e) */
static int opv_band_of (const box_type_t *b, int n, long gy, int *s, int *e)
{
    int i, found = 0;
    *s = 0; *e = 0;
    for (i = 0; i < n; i++)
        if ((long) b[i].y1 <= gy && gy < (long) b[i].y2)
        {
            if (!found)
                *s = i;
            found = 1;
            *e = i + 1;
        }
    return found;
}

/* operand with n boxes: x from the inputs, y from the layout row; returns 0 if that is not a canonical list (the
 * caller then skips the layout; no early return here: the verifier keeps pointers concrete only without merges) */
static int opv_make (region_type_t *r, int n, const rh_coord *cx, const int *cy, box_type_t *ghost)
{
    box_type_t b[OPV_MAXN];
    int i;
    for (i = 0; i < n; i++)
    {
        b[i].x1 = cx[2 * i]; b[i].y1 = (rh_coord) cy[2 * i]; b[i].x2 = cx[2 * i + 1]; b[i].y2 = (rh_coord) cy[2 * i + 1];
        ghost[i] = b[i];
    }
    opv_bbox (b, n, &r->extents);
    if (n == 1)
        r->data = (region_data_type_t *) 0;
    else
        opv_make_heap (r, n + VO_SPARE, n, b);
    return opv_canon_list (b, n, n);                    /* a legal operand: canonical rectangle list */
}

static int opv_same_boxes (const box_type_t *p, const box_type_t *g, int n)
{
    int i, ok = 1;
    for (i = 0; i < n; i++)
        if (!opv_box_eq (&p[i], &g[i]))
            ok = 0;
    return ok;
}

static const rh_coord *g_ax, *g_bx;

/* one execution: layout row l, decision vector opv_dec, allocation number `fail` fails (-1: none) */
static void opv_run_one (int l, int fail)
{
    region_type_t ra, rb, rd;
    region_type_t *pa = &ra, *pb = &rb, *pd = &rd;
    region_type_t a_before, b_before;
    int ret, i, n, sa, ea, sb, eb, has_a, has_b, expect, ok_a, ok_b;

    g_calls = 0; g_hits = 0; g_last_y2_valid = 0;
    vh_alloc_calls = 0; vh_alloc_failed = 0; vh_log_errors = 0;
    vh_failmask = fail < 0 ? 0u : (1u << fail);
    opv_dec_used = 0;
    g_k = &opv_lay[l][2 * (VO_NA + VO_NB)];
    ok_a = opv_make (&ra, VO_NA, g_ax, &opv_lay[l][0], g_a);
    ok_b = opv_make (&rb, VO_NB, g_bx, &opv_lay[l][2 * VO_NA], g_b);
    a_before = ra; b_before = rb;
    g_abase = PIXREGION_RECTS (pa);
    g_bbase = PIXREGION_RECTS (pb);

#if VO_ALIAS == 0
    {
        static const box_type_t stale[2] = { { 0, 0, 1, 1 }, { 2, 0, 3, 1 } };
#if VO_DST == 0
        rd.data = (region_data_type_t *) 0;
        rd.extents = stale[0];
#elif VO_DST == 1
        opv_make_heap (&rd, 2, 2, stale);
        opv_bbox (stale, 2, &rd.extents);
#elif VO_DST == 2
        rd.data = pixman_region_empty_data;
        rd.extents.x1 = rd.extents.x2 = rd.extents.y1 = rd.extents.y2 = 0;
#else
        opv_make_heap (&rd, OPV_CAP, 2, stale);
        opv_bbox (stale, 2, &rd.extents);
#endif
    }
#elif VO_ALIAS == 1
    pd = pa;
#else
    pd = pb;
#endif

    /* x coordinates for which the operands are not canonical lists are excluded through the guard, not by a branch:
     * pixman_op's control flow does not depend on x, and a branch on a symbolic condition would make everything
     * after the join symbolic for the verifier */
    opv_guard = ok_a && ok_b;
    {
        ret = pixman_op_real (opv_overlap, pd, pa, pb, VO_NON1, VO_NON2);

        VH_CHECK ("c15.op.FALSE_only_after_an_allocation_failure", ret == TRUE || (ret == FALSE && vh_alloc_failed > 0));
        VH_CHECK ("op.no_consistency_error_logged", !opv_guard || vh_log_errors == 0);
        if (ret)
        {
            n = sr_nrects_r (pd);
            VH_CHECK ("c06.op.result_memory_shape", !opv_guard || sr_shape_wf_r (pd, RH_EMPTY));
            VH_CHECK ("op.result_count_bounded", n >= 0 && n <= OPV_MAXOUT);
            if (n >= 0 && n <= OPV_MAXOUT)
            {
                /* the result list is copied out once; the specification predicates then run on the local copy */
                box_type_t out[OPV_MAXOUT];
                const box_type_t *rp = sr_rects_r (pd);
                for (i = 0; i < OPV_MAXOUT; i++)
                    if (i < n)
                        out[i] = rp[i];
                VH_CHECK ("c06.op.result_list_canonical", !opv_guard || opv_canon_list (out, n, OPV_MAXOUT));
                has_a = opv_band_of (g_a, VO_NA, g_gy, &sa, &ea);
                has_b = opv_band_of (g_b, VO_NB, g_gy, &sb, &eb);
                VH_CHECK ("op.sweep.overlap_called_exactly_once_per_overlapping_band_pair", g_hits == (has_a && has_b ? 1 : 0));
                if (has_a && has_b)
                {
                    VH_CHECK ("op.sweep.pair_handed_over_is_the_pair_covering_the_row",
                              g_rec_s1 == sa && g_rec_e1 == ea && g_rec_s2 == sb && g_rec_e2 == eb
                              && g_rec_y1 <= g_gy && g_gy < g_rec_y2);
                    expect = g_rec_member;
                }
                else if (has_a)
                    expect = VO_NON1 && opv_member_boxes (g_a, VO_NA, VO_NA, g_gx, g_gy);
                else if (has_b)
                    expect = VO_NON2 && opv_member_boxes (g_b, VO_NB, VO_NB, g_gx, g_gy);
                else
                    expect = 0;
                VH_CHECK ("op.point_membership_follows_sweep_contract", !opv_guard || opv_member_boxes (out, n, OPV_MAXOUT, g_gx, g_gy) == expect);
            }
        }
        else
        {
            VH_CHECK ("c15.op.failure_leaves_the_broken_region",
                      pd->data == pixman_broken_data && pd->extents.x1 == pd->extents.x2 && pd->extents.y1 == pd->extents.y2);
        }
        /* frame: operands that are not the result object */
        if (pa != pd)
            VH_CHECK ("op.frame.operand1_unchanged",
                      ra.data == a_before.data && opv_box_eq (&ra.extents, &a_before.extents)
                      && (VO_NA == 1 || (ra.data->numRects == VO_NA && ra.data->size == VO_NA + VO_SPARE))
                      && opv_same_boxes (PIXREGION_RECTS (&ra), g_a, VO_NA));
        if (pb != pd)
            VH_CHECK ("op.frame.operand2_unchanged",
                      rb.data == b_before.data && opv_box_eq (&rb.extents, &b_before.extents)
                      && (VO_NB == 1 || (rb.data->numRects == VO_NB && rb.data->size == VO_NB + VO_SPARE))
                      && opv_same_boxes (PIXREGION_RECTS (&rb), g_b, VO_NB));

    }
    /* ownership: the caller releases what it still owns; anything else still allocated is a leak, anything released
     * twice is a double free (--memory-leak-check / pointer checks; ASan natively) */
    opv_release (pd);
    if (pa != pd) opv_release (pa);
    if (pb != pd) opv_release (pb);
    /* no stale pointers to the operands' blocks (the native leak detector treats reachable blocks as not leaked) */
    g_abase = g_bbase = (const box_type_t *) 0;
    a_before.data = b_before.data = (region_data_type_t *) 0;
    ra.data = rb.data = rd.data = (region_data_type_t *) 0;
}

/* every leaf of the coalescing decision tree of layout row l; with -DVO_FAIL additionally, per leaf, every single
 * failing allocation (pixman_op stops at the first failure, so single failures are all there is) */
static void opv_run_layout (int l)
{
    int it, more = 1, f, allocs;
    opv_dec_n = 0;
    for (it = 0; it < OPV_MAXLEAVES && more; it++)
    {
        opv_run_one (l, -1);
#ifdef VO_FAIL
        opv_leaf_save ();
        allocs = vh_alloc_calls;
        VH_CHECK ("opv.allocation_count_within_enumeration", allocs <= OPV_MAXALLOCS);
        for (f = 0; f < OPV_MAXALLOCS; f++)
            if (f < allocs)
                opv_run_one (l, f);
        opv_leaf_restore ();
#endif
        more = opv_next_leaf ();
    }
    VH_CHECK ("opv.decision_tree_fully_enumerated", !more);
}

void harness (void)
{
    OPV_IN_COORD_ARRAY (in_ax, 2 * OPV_MAXN);
    OPV_IN_COORD_ARRAY (in_bx, 2 * OPV_MAXN);
    OPV_IN_COORD_ARRAY (in_x, 4 * OPV_CALLS);
    VH_IN_COORD (in_gx); VH_IN_COORD (in_gy);
    int i, l;

    for (i = 0; i < OPV_CALLS; i++)
    {
        /* the stub's output is a legal band: non-empty boxes, sorted, separated by a gap */
        VH_ASSUME (in_x[4 * i] < in_x[4 * i + 1] && in_x[4 * i + 1] < in_x[4 * i + 2] && in_x[4 * i + 2] < in_x[4 * i + 3]);
    }
    g_ax = in_ax; g_bx = in_bx; g_x = in_x; g_gx = in_gx; g_gy = in_gy;
    for (l = 0; l < VO_NLAY; l++)
        opv_run_layout (l);
    VH_END ();
}
