/* C05/C06 route H: intersect / union / subtract, operands of <= 1 rectangle (or empty) over the
 * full coordinate domain, every aliasing pattern, pixman_op pruned (VR_OPMODE=1, see rh.h).
 *
 *   -DVR_BITS=32|16
 *   -DVR_OP=0 intersect | 1 union | 2 subtract
 *   -DVR_ALIAS=0 three distinct objects | 1 new==reg1 | 2 new==reg2 | 3 reg1==reg2 (new distinct) | 4 all the same
 *   -DVR_SA, -DVR_SB = 0 single inline rectangle | 1 empty        (shape of operand A / B)
 *                    | 2 heap region with two rectangles, canonical (bounded jobs)
 *   -DVR_DST=0 destination (when distinct) is an inline single rectangle | 2 static empty
 *           =1 destination is a heap region with two rectangles (its block must be freed, not leaked)
 *
 * Postcondition (property C05, ghost point (px,py) anywhere in the coordinate domain):
 *   returns TRUE;  p in view(new) <=> op (p in view(A), p in view(B));  canon(new) [C06];
 *   operands that are not the destination are unchanged.
 */
#ifndef VR_OPMODE
#define VR_OPMODE 1
#endif
#include "rh.h"

#if VR_OP == 0
#define RH_CALL RH_PREFIX (_intersect)
#define RH_EXPECT(a, b) ((a) && (b))
#elif VR_OP == 1
#define RH_CALL RH_PREFIX (_union)
#define RH_EXPECT(a, b) ((a) || (b))
#else
#define RH_CALL RH_PREFIX (_subtract)
#define RH_EXPECT(a, b) ((a) && !(b))
#endif

/* shape 2 (bounded): a heap region with two rectangles in canonical form — reaches the
 * SUBSUMES -> copy shortcuts of _intersect that need an operand with a rectangle list */
static void make_operand (region_type_t *r, int shape, rh_coord x1, rh_coord y1, rh_coord x2, rh_coord y2,
                          rh_coord u1, rh_coord v1, rh_coord u2, rh_coord v2)
{
    if (shape == 2)
    {
        box_type_t b[2] = { { x1, y1, x2, y2 }, { u1, v1, u2, v2 } };
        rh_make_heap (r, 2, 2, b);
        rh_set_tight_extents (r);
        VH_ASSUME (rh_canon (r));
    }
    else
        rh_make01 (r, shape, x1, y1, x2, y2);
}

void harness (void)
{
    VH_IN_COORD (in_f_x1); VH_IN_COORD (in_f_y1); VH_IN_COORD (in_f_x2); VH_IN_COORD (in_f_y2);
    VH_IN_COORD (in_g_x1); VH_IN_COORD (in_g_y1); VH_IN_COORD (in_g_x2); VH_IN_COORD (in_g_y2);
    VH_IN (vh_u8, in_a_shape);
    VH_IN_COORD (in_a_x1); VH_IN_COORD (in_a_y1); VH_IN_COORD (in_a_x2); VH_IN_COORD (in_a_y2);
    VH_IN (vh_u8, in_b_shape);
    VH_IN_COORD (in_b_x1); VH_IN_COORD (in_b_y1); VH_IN_COORD (in_b_x2); VH_IN_COORD (in_b_y2);
    VH_IN (vh_u8, in_d_shape);
    VH_IN_COORD (in_d_x1); VH_IN_COORD (in_d_y1); VH_IN_COORD (in_d_x2); VH_IN_COORD (in_d_y2);
    VH_IN_COORD (in_e_x1); VH_IN_COORD (in_e_y1); VH_IN_COORD (in_e_x2); VH_IN_COORD (in_e_y2);
    VH_IN_COORD (in_px); VH_IN_COORD (in_py);
    region_type_t ra, rb, rd, sa, sb;
    region_type_t *pa = &ra, *pb = &rb, *pd = &rd;
    int in_a, in_b, ret;

    /* shapes are compile-time cases (one query = one case): symbolic `data` pointers make
     * CBMC explore the heap-copy path of _copy with a symbolic memmove size (out of memory) */
    VH_ASSUME (in_a_shape == VR_SA && in_b_shape == VR_SB);
    make_operand (&ra, VR_SA, in_a_x1, in_a_y1, in_a_x2, in_a_y2, in_f_x1, in_f_y1, in_f_x2, in_f_y2);
    make_operand (&rb, VR_SB, in_b_x1, in_b_y1, in_b_x2, in_b_y2, in_g_x1, in_g_y1, in_g_x2, in_g_y2);
#if VR_DST == 1
    {
        box_type_t b[2] = { { in_d_x1, in_d_y1, in_d_x2, in_d_y2 }, { in_e_x1, in_e_y1, in_e_x2, in_e_y2 } };
        rh_make_heap (&rd, 2, 2, b);
        rh_set_tight_extents (&rd);
        VH_ASSUME (rh_canon (&rd));
    }
#else
    VH_ASSUME (in_d_shape == VR_DST);
    rh_make01 (&rd, VR_DST == 2 ? 1 : 0, in_d_x1, in_d_y1, in_d_x2, in_d_y2);
#endif

#if VR_ALIAS == 1
    pd = pa;
#elif VR_ALIAS == 2
    pd = pb;
#elif VR_ALIAS == 3
    pb = pa;
#elif VR_ALIAS == 4
    pb = pa; pd = pa;
#endif
    /* ghost: membership of p in the operands, taken BEFORE the call (the destination may be an operand) */
    in_a = rh_member (pa, in_px, in_py);
    in_b = rh_member (pb, in_px, in_py);
    sa = *pa; sb = *pb;

    ret = RH_CALL (pd, pa, pb);

    VH_CHECK ("post.returns_true", ret == TRUE);
    VH_CHECK ("post.point_membership_is_set_algebra", rh_member (pd, in_px, in_py) == RH_EXPECT (in_a, in_b));
    VH_CHECK ("post.result_canonical", rh_canon (pd));
    VH_CHECK ("post.no_consistency_error_logged", vh_log_errors == 0);
    if (pa != pd)
        VH_CHECK ("frame.reg1_unchanged", pa->data == sa.data && pa->extents.x1 == sa.extents.x1 && pa->extents.y1 == sa.extents.y1
                  && pa->extents.x2 == sa.extents.x2 && pa->extents.y2 == sa.extents.y2);
    if (pb != pd)
        VH_CHECK ("frame.reg2_unchanged", pb->data == sb.data && pb->extents.x1 == sb.extents.x1 && pb->extents.y1 == sb.extents.y1
                  && pb->extents.x2 == sb.extents.x2 && pb->extents.y2 == sb.extents.y2);
    /* whatever the result owns is released here; a block the operation dropped without
     * freeing is reported by --memory-leak-check / ASan */
    rh_release (pd);
    if (pa != pd) rh_release (pa);
    if (pb != pd && pb != pa) rh_release (pb);
    VH_END ();
}
