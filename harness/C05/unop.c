/* C05/C06 route H: the one-region operations, operand of <= 1 rectangle (or empty), full
 * coordinate domain, pixman_op pruned (VR_OPMODE=1, see rh.h).
 *
 *   -DVR_BITS=32|16
 *   -DVR_FN=1 inverse (new, reg1, box)          2 intersect_rect (dest, source, x, y, w, h)
 *           3 union_rect (dest, source, x,y,w,h) 4 copy (dst, src)      5 reset (region, box)
 *           6 clear (region)                     7 init (region)        8 init_rect (region, x,y,w,h)
 *           9 init_with_extents (region, box)
 *   -DVR_SA=0 single inline rectangle | 1 empty            (shape of the operand; fn 1-4)
 *          =2 heap region with two rectangles in canonical form (bounded; meant for copy)
 *   -DVR_ALIAS=0 destination distinct | 1 destination == operand  (fn 1-4)
 *   -DVR_DST=0 inline single rectangle | 2 static empty | 1 heap region with 2 rectangles
 *            | 3 uninitialised memory (only init*, which must not read it)
 *   -DVR_BOX=0 the box / rectangle argument is non-empty (x1<x2, y1<y2; w,h >= 1)
 *          =1 degenerate: empty but not inverted (x1<=x2, y1<=y2, not both strict; w==0 or h==0)
 *          =2 any values (init_with_extents, init_rect and union_rect define a result for those)
 *
 * Rectangle arguments (x, y, width, height): the property quantifies over coordinates inside
 * the representable range, so x + width and y + height are assumed not to exceed RH_MAX.
 */
#ifndef VR_OPMODE
#define VR_OPMODE 1
#endif
#include "rh.h"

#ifndef VR_SA
#define VR_SA 0
#endif
#ifndef VR_ALIAS
#define VR_ALIAS 0
#endif
#ifndef VR_BOX
#define VR_BOX 0
#endif

void harness (void)
{
    VH_IN_COORD (in_a_x1); VH_IN_COORD (in_a_y1); VH_IN_COORD (in_a_x2); VH_IN_COORD (in_a_y2);
    VH_IN_COORD (in_f_x1); VH_IN_COORD (in_f_y1); VH_IN_COORD (in_f_x2); VH_IN_COORD (in_f_y2);
    VH_IN_COORD (in_d_x1); VH_IN_COORD (in_d_y1); VH_IN_COORD (in_d_x2); VH_IN_COORD (in_d_y2);
    VH_IN_COORD (in_e_x1); VH_IN_COORD (in_e_y1); VH_IN_COORD (in_e_x2); VH_IN_COORD (in_e_y2);
    VH_IN_COORD (in_bx1); VH_IN_COORD (in_by1); VH_IN_COORD (in_bx2); VH_IN_COORD (in_by2);  /* box argument, or x,y + w,h */
    VH_IN_COORD (in_px); VH_IN_COORD (in_py);
    region_type_t ra, rd, sa;
    region_type_t *pa = &ra, *pd = &rd;
    box_type_t box;
    long w, h;
    int in_a = 0, in_box, ret = TRUE, expect;

#if VR_FN <= 4 && VR_SA == 2
    {
        box_type_t b[2] = { { in_a_x1, in_a_y1, in_a_x2, in_a_y2 }, { in_f_x1, in_f_y1, in_f_x2, in_f_y2 } };
        rh_make_heap (&ra, 2, 2, b);
        rh_set_tight_extents (&ra);
        VH_ASSUME (rh_canon (&ra));
    }
#elif VR_FN <= 4
    rh_make01 (&ra, VR_SA, in_a_x1, in_a_y1, in_a_x2, in_a_y2);
#endif
#if VR_DST == 1
    {
        box_type_t b[2] = { { in_d_x1, in_d_y1, in_d_x2, in_d_y2 }, { in_e_x1, in_e_y1, in_e_x2, in_e_y2 } };
        rh_make_heap (&rd, 2, 2, b);
        rh_set_tight_extents (&rd);
        VH_ASSUME (rh_canon (&rd));
    }
#elif VR_DST == 3
    /* uninitialised destination: contents are arbitrary and must not matter */
    rd.extents.x1 = in_d_x1; rd.extents.y1 = in_d_y1; rd.extents.x2 = in_d_x2; rd.extents.y2 = in_d_y2;
    rd.data = (region_data_type_t *) (size_t) in_e_x1;    /* a wild pointer: dereferencing it is an error */
#else
    rh_make01 (&rd, VR_DST == 2 ? 1 : 0, in_d_x1, in_d_y1, in_d_x2, in_d_y2);
#endif
#if VR_ALIAS == 1
    pd = pa;
#endif

    /* the box / rectangle argument */
    box.x1 = in_bx1; box.y1 = in_by1; box.x2 = in_bx2; box.y2 = in_by2;
    w = (long) in_bx2 - (long) in_bx1;
    h = (long) in_by2 - (long) in_by1;
#if VR_BOX == 0
    VH_ASSUME (in_bx1 < in_bx2 && in_by1 < in_by2);
#elif VR_BOX == 1
    VH_ASSUME (in_bx1 <= in_bx2 && in_by1 <= in_by2 && !(in_bx1 < in_bx2 && in_by1 < in_by2));
#elif VR_FN != 9
    VH_ASSUME (in_bx1 <= in_bx2 && in_by1 <= in_by2);      /* width, height are unsigned: >= 0 */
#endif
    in_box = sr_in_box_r (&box, in_px, in_py);
#if VR_FN <= 4
    in_a = rh_member (pa, in_px, in_py);
    sa = *pa;
#endif

#if VR_FN == 1
    ret = RH_PREFIX (_inverse) (pd, pa, &box);
    expect = in_box && !in_a;
#elif VR_FN == 2
    ret = RH_PREFIX (_intersect_rect) (pd, pa, in_bx1, in_by1, (unsigned) w, (unsigned) h);
    expect = in_box && in_a;
#elif VR_FN == 3
    ret = RH_PREFIX (_union_rect) (pd, pa, in_bx1, in_by1, (unsigned) w, (unsigned) h);
    expect = in_box || in_a;
#elif VR_FN == 4
    ret = RH_PREFIX (_copy) (pd, pa);
    expect = in_a;
#elif VR_FN == 5
    RH_PREFIX (_reset) (pd, &box);
    expect = in_box;
#elif VR_FN == 6
    RH_PREFIX (_clear) (pd);
    expect = 0;
#elif VR_FN == 7
    RH_PREFIX (_init) (pd);
    expect = 0;
#elif VR_FN == 8
    RH_PREFIX (_init_rect) (pd, in_bx1, in_by1, (unsigned) w, (unsigned) h);
    expect = in_box;
#elif VR_FN == 9
    RH_PREFIX (_init_with_extents) (pd, &box);
    expect = in_box;       /* an inverted box contains no point: sr_in_box is then false */
#endif

    VH_CHECK ("post.returns_true", ret == TRUE);
    VH_CHECK ("post.point_membership_is_set_algebra", rh_member (pd, in_px, in_py) == expect);
    VH_CHECK ("post.result_canonical", rh_canon (pd));
#if !(VR_FN == 9 && VR_BOX == 2)
    VH_CHECK ("post.no_consistency_error_logged", vh_log_errors == 0);
#endif
#if VR_FN == 6 || VR_FN == 7
    VH_CHECK ("post.empty_region_has_zero_extents", pd->extents.x1 == 0 && pd->extents.y1 == 0 && pd->extents.x2 == 0 && pd->extents.y2 == 0);
#endif
#if VR_FN <= 4
    if (pa != pd)
        VH_CHECK ("frame.operand_unchanged", pa->data == sa.data && pa->extents.x1 == sa.extents.x1 && pa->extents.y1 == sa.extents.y1
                  && pa->extents.x2 == sa.extents.x2 && pa->extents.y2 == sa.extents.y2);
#endif
    rh_release (pd);
#if VR_FN <= 4
    if (pa != pd)
        rh_release (pa);
#endif
    VH_END ();
}
