/* C05/C06/C15 route H, MODULAR: the REAL validate() (behind PREFIX(_init_rects)) with the real quick_sort_rects and
 * pixman_rect_alloc — and pixman_op (the pairwise unions of step 3) and pixman_coalesce replaced by CONTRACT STUBS.
 *
 *   -DVR_BITS=32|16
 *   -DVV_N=2..5                boxes handed to validate (a heap block of exactly VV_N boxes, extents (0,0,0,0): the
 *                              state PREFIX(_init_rects) builds before it calls validate)
 *   -DVV_NLAY=n -DVV_LAYOUTS=v,v,...   table of y layouts: per row y1,y2 of box 0, box 1, ... IN INPUT ORDER (any order:
 *                              validate sorts).  validate only compares y values; props/C05_opv.py enumerates order
 *                              types.  Rows whose boxes have pairwise different y1 keep quick_sort_rects and the
 *                              scatter loop concrete for the verifier; rows with boxes in the SAME band (equal y1,y2)
 *                              exercise the merge-or-append test on free x coordinates.
 *   -DVV_FAIL[=2]              every execution (=2: of the first leaf of the decision tree only) is repeated with the k-th allocation failing (each k), with the k-th
 *                              union failing (each k) and with every union failing
 * x coordinates are free (boxes non-empty: PREFIX(_init_rects) drops empty boxes before validate).
 *
 * Contract of pixman_op as validate uses it (pixman_op (reg, reg, hreg, union_o, TRUE, TRUE)); pixman_op itself is
 * verified against the contract of its overlap procedure by harness opv_op.c:
 *   requires  new_reg == reg1 != reg2; append_non1 == append_non2 == TRUE; both regions: not broken, >= 1 rectangle,
 *             legal memory shape, canonical rectangle list (obligations validate.union.pre.*)
 *   ensures   success: reg2 untouched; the old block of new_reg is released; new_reg holds a canonical list whose point
 *             set is the union (stated for the ghost point) and whose bounding box is the union of the two bounding
 *             boxes; one rectangle => data == NULL and extents == that rectangle, else extents untouched; TRUE.
 *             failure: old block of new_reg released, new_reg == broken region, reg2 untouched; FALSE.
 *   The stub builds the result from fresh unconstrained values and records in opv_guard whether they satisfy the
 *   "ensures" clause; x-dependent obligations are stated as opv_guard => ...  The result has 1 or 2 rectangles
 *   (both memory shapes), chosen by the concrete decision vector (always 2 in the -DVV_FAIL jobs).  Natively (replay) the real pixman_op runs.
 *
 * Obligations on validate (ghost point (in_gx, in_gy)):
 *   validate.point_membership_is_union_of_boxes, c06.validate.result_canonical (every clause of C06 incl. tight
 *   extents and memory shape), validate.TRUE_unless_something_failed,
 *   c15.validate.failure_leaves_the_broken_region; --memory-leak-check + double-free checks: every partial region's
 *   block is released exactly once on the bail path and on success.
 */
#define OPV_OP_STUB 1
#define OPV_COALESCE_STUB 1
#include "opv_rh.h"

#ifndef VV_N
#define VV_N 2
#endif
#ifndef VV_NLAY
#define VV_NLAY 1
#define VV_LAYOUTS 0, 1, 0, 1
#endif
#define VV_MAXLEAVES 64
#define VV_MAXALLOCS 8
#define VV_MAXOPS 6

static const int vv_lay[VV_NLAY][2 * VV_N] = { VV_LAYOUTS };     /* flat, row-major */

static long g_gx, g_gy;
static int g_op_calls;
static unsigned g_op_failmask;

static int vv_list_ok (const region_type_t *r)
{
    /* legal memory shape of an operand of pixman_op and a canonical rectangle list */
    int n;
    if (r->data == pixman_broken_data)
        return 0;
    if (!sr_shape_wf_r (r, RH_EMPTY))
        return 0;
    n = sr_nrects_r (r);
    if (n < 1 || n > VV_N)
        return 0;
    return opv_canon_list (sr_rects_r (r), n, VV_N);
}

static int opv_pixman_op_contract (region_type_t *new_reg, region_type_t *reg1, region_type_t *reg2,
                                   int append_non1, int append_non2)
{
    int call = g_op_calls++;
#ifdef VH_CBMC
    box_type_t ba, bb, want, r[2], got;
    int m, in1, in2, i;

    VH_CHECK ("validate.union.pre.result_is_first_operand_and_second_is_distinct", new_reg == reg1 && reg1 != reg2);
    VH_CHECK ("validate.union.pre.append_non_overlapping_bands_of_both", append_non1 && append_non2);
    VH_CHECK ("validate.union.pre.operand1_is_a_canonical_nonempty_region", !opv_guard || vv_list_ok (reg1));
    VH_CHECK ("validate.union.pre.operand2_is_a_canonical_nonempty_region", !opv_guard || vv_list_ok (reg2));
    VH_CHECK ("validate.union.stub.call_count_within_enumeration", call < VV_MAXOPS);
    if (reg1 == reg2 || call >= VV_MAXOPS)
        return FALSE;

    if ((g_op_failmask >> call) & 1u)
    {
        /* what pixman_op does when an allocation fails: everything new_reg owned is released, new_reg is broken */
        if (new_reg->data && new_reg->data->size)
            free (new_reg->data);
        new_reg->extents = *pixman_region_empty_box;
        new_reg->data = pixman_broken_data;
        return FALSE;
    }
    in1 = rh_member (reg1, g_gx, g_gy);
    in2 = rh_member (reg2, g_gx, g_gy);
    opv_bbox (sr_rects_r (reg1), sr_nrects_r (reg1), &ba);
    opv_bbox (sr_rects_r (reg2), sr_nrects_r (reg2), &bb);
    want.x1 = ba.x1 < bb.x1 ? ba.x1 : bb.x1; want.y1 = ba.y1 < bb.y1 ? ba.y1 : bb.y1;
    want.x2 = ba.x2 > bb.x2 ? ba.x2 : bb.x2; want.y2 = ba.y2 > bb.y2 ? ba.y2 : bb.y2;

#ifdef VV_FAIL
    m = 2;                                  /* failure jobs: fewer leaves; both result shapes are covered by the others */
#else
    m = 1 + opv_decide ();
#endif
    for (i = 0; i < 2; i++)
    {
        r[i].x1 = OPV_NONDET_COORD (); r[i].y1 = OPV_NONDET_COORD ();
        r[i].x2 = OPV_NONDET_COORD (); r[i].y2 = OPV_NONDET_COORD ();
    }
    opv_bbox (r, m, &got);
    if (!(opv_canon_list (r, m, 2) && opv_box_eq (&got, &want)
          && opv_member_boxes (r, m, 2, g_gx, g_gy) == (in1 || in2)))
        opv_guard = 0;

    if (new_reg->data && new_reg->data->size)
        free (new_reg->data);
    if (m == 1)
    {
        new_reg->extents = r[0];
        new_reg->data = (region_data_type_t *) 0;
    }
    else
        opv_make_heap (new_reg, 2, 2, r);
    return TRUE;
#else
    (void) call;
    if ((g_op_failmask >> call) & 1u)
    {
        if (new_reg->data && new_reg->data->size)
            free (new_reg->data);
        new_reg->extents = *pixman_region_empty_box;
        new_reg->data = pixman_broken_data;
        return FALSE;
    }
    return pixman_op_real (pixman_region_union_o, new_reg, reg1, reg2, append_non1, append_non2);
#endif
}

static const rh_coord *g_bx;

/* one execution: layout row l, decision vector opv_dec, allocation `afail` fails (-1: none), unions in opmask fail */
static void vv_run_one (int l, int afail, unsigned opmask)
{
    box_type_t b[VV_N];
    region_type_t reg;
    int i, ret, expect, ok = 1;

    vh_alloc_calls = 0; vh_alloc_failed = 0; vh_log_errors = 0;
    vh_failmask = afail < 0 ? 0u : (1u << afail);
    g_op_calls = 0; g_op_failmask = opmask;
    opv_dec_used = 0;
    for (i = 0; i < VV_N; i++)
    {
        b[i].x1 = g_bx[2 * i]; b[i].y1 = (rh_coord) vv_lay[l][2 * i];
        b[i].x2 = g_bx[2 * i + 1]; b[i].y2 = (rh_coord) vv_lay[l][2 * i + 1];
        if (!(b[i].x1 < b[i].x2))
            ok = 0;
    }
    opv_guard = ok;                         /* boxes with x1 >= x2 never reach validate */
    expect = opv_member_boxes (b, VV_N, VV_N, g_gx, g_gy);
    /* the state PREFIX(_init_rects) hands to validate: block of exactly VV_N boxes, extents (0,0,0,0) */
    opv_make_heap (&reg, VV_N, VV_N, b);
    reg.extents.x1 = reg.extents.y1 = reg.extents.x2 = reg.extents.y2 = 0;

    ret = validate (&reg);

    VH_CHECK ("validate.TRUE_unless_something_failed", ret == TRUE || (ret == FALSE && (vh_alloc_failed > 0 || opmask != 0)));
    VH_CHECK ("validate.no_consistency_error_logged", !opv_guard || vh_log_errors == 0);
    if (ret)
    {
        VH_CHECK ("c15.validate.failed_union_is_reported", (g_op_failmask & ((1u << g_op_calls) - 1u)) == 0);
        VH_CHECK ("c06.validate.result_canonical", !opv_guard || opv_region_canon (&reg, VV_N));
        VH_CHECK ("validate.point_membership_is_union_of_boxes", !opv_guard || rh_member (&reg, g_gx, g_gy) == expect);
    }
    else
    {
        VH_CHECK ("c15.validate.failure_leaves_the_broken_region",
                  reg.data == pixman_broken_data && reg.extents.x1 == reg.extents.x2 && reg.extents.y1 == reg.extents.y2);
    }
    /* ownership: the caller releases the result; anything else still allocated is a leak, anything released twice a
     * double free (--memory-leak-check / pointer checks; ASan natively) */
    opv_release (&reg);
}

static void vv_run_layout (int l)
{
    int it, more = 1, f, allocs, ops;
    opv_dec_n = 0;
    for (it = 0; it < VV_MAXLEAVES && more; it++)
    {
        vv_run_one (l, -1, 0u);
#ifdef VV_FAIL
        if (VV_FAIL + 0 == 2 && it > 0)        /* -DVV_FAIL=2: failures only on the first leaf (no coalescing) */
        {
            more = opv_next_leaf ();
            continue;
        }
        opv_leaf_save ();
        allocs = vh_alloc_calls;
        ops = g_op_calls;
        VH_CHECK ("opv.allocation_count_within_enumeration", allocs <= VV_MAXALLOCS && ops <= VV_MAXOPS);
        for (f = 0; f < VV_MAXALLOCS; f++)
            if (f < allocs)
                vv_run_one (l, f, 0u);
        for (f = 0; f < VV_MAXOPS; f++)
            if (f < ops)
                vv_run_one (l, -1, 1u << f);
        if (ops > 1)
            vv_run_one (l, -1, ~0u);
        opv_leaf_restore ();
#endif
        more = opv_next_leaf ();
    }
    VH_CHECK ("opv.decision_tree_fully_enumerated", !more);
}

void harness (void)
{
    OPV_IN_COORD_ARRAY (in_bx, 2 * VV_N);
    VH_IN_COORD (in_gx); VH_IN_COORD (in_gy);
    int l;

    g_bx = in_bx; g_gx = in_gx; g_gy = in_gy;
    for (l = 0; l < VV_NLAY; l++)
        vv_run_layout (l);
    VH_END ();
}
