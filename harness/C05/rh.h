/* rh.h — common set-up of the C05/C06 region harnesses.
 *
 *   -DVR_BITS=32|16     which instantiation of pixman-region.c is under check
 *   -DVR_OPMODE=0       pixman_op is the real one
 *             =1       every call of pixman_op is PRUNED: the stub asserts pixman_op's documented
 *                      precondition ("both regions have at least one rectangle and are not the
 *                      same object", not broken) and then cuts the path (assume false).  The
 *                      job therefore proves the shortcut logic and that pixman_op is only
 *                      entered legally; what pixman_op computes is the business of the op.* jobs.
 *             =2       pixman_op must be unreachable: the stub is `assert (unreachable)`.
 *   -DVR_STUB_ALLOC    malloc/realloc inside the library asserted unreachable (pre-sized output buffers)
 *
 * How pixman_op is intercepted without touching /repo: the real file is #included
 * unmodified, but `pixman_op` is a function-like macro while it is read.  The 4th argument is
 * `overlap_proc_ptr overlap_func` in the definition and the name of a band function at every
 * call site, so pasting it selects the spelling: the definition becomes
 * `pixman_op_real (overlap_proc_ptr overlap_func, new_reg, reg1, reg2, append_non1, append_non2)`
 * (same body) and the calls become `vh_pixman_op (band_function, new_reg, reg1, reg2, a1, a2)`.
 * If the source changes shape this stops compiling -> exit 2 (undecided), never a verdict.
 * Natively (replay) vh_pixman_op simply calls the real function.
 */
#ifndef RH_H
#define RH_H

#include "vh.h"
#include <stdlib.h>
#include "vh_alloc.h"

#ifndef VR_BITS
#define VR_BITS 32
#endif
#ifndef VR_OPMODE
#define VR_OPMODE 0
#endif

/* every _pixman_log_error (BAD_RECT, critical_if_fail) is counted: "no internal consistency
 * check fired" is an obligation of every job that gives the library legal inputs */
static int vh_log_errors;
void _pixman_log_error (const char *function, const char *message)
{
    (void) function; (void) message;
    vh_log_errors++;
}

static int vh_pixman_op ();         /* defined below, after the types exist */
static int vh_op_calls;

#define pixman_op(a, b, c, d, e, f) VRP_##d , a, b, c, e, f)
#define VRP_overlap_proc_ptr             pixman_op_real (overlap_proc_ptr
#define VRP_pixman_region_intersect_o    vh_pixman_op (pixman_region_intersect_o
#define VRP_pixman_region_union_o        vh_pixman_op (pixman_region_union_o
#define VRP_pixman_region_subtract_o     vh_pixman_op (pixman_region_subtract_o

#ifdef VR_STUB_ALLOC
/* the output buffer is pre-sized by the harness: any allocation by the code under check is
 * asserted unreachable (in CBMC; natively the real allocator is used) */
#undef malloc
#undef realloc
#undef calloc
static void *rh_no_alloc (void *p, size_t n)
{
#ifdef VH_CBMC
    VH_CHECK ("alloc.unreachable_with_presized_output", 0);
    __CPROVER_assume (0);
    return (void *) 0;
#else
    return (realloc) (p, n);
#endif
}
#define malloc(n) rh_no_alloc ((void *) 0, (n))
#define realloc(p, n) rh_no_alloc ((p), (n))
#endif

#if VR_BITS == 32
#include "pixman-region32.c"
#define RH_PREFIX(x) pixman_region32##x
typedef vh_i32 rh_coord;
#define VH_IN_COORD(name) VH_IN (vh_i32, name)
#define RH_MIN INT32_MIN
#define RH_MAX INT32_MAX
#else
#include "pixman-region16.c"
#define RH_PREFIX(x) pixman_region##x
typedef vh_i16 rh_coord;
#define VH_IN_COORD(name) VH_IN (vh_i16, name)
#define RH_MIN INT16_MIN
#define RH_MAX INT16_MAX
#endif

#undef pixman_op

#define SR_SFX r
#define SR_REGION_T region_type_t
#define SR_BOX_T box_type_t
#define SR_DATA_T region_data_type_t
#include "spec_region.h"

#define RH_EMPTY ((const region_data_type_t *) pixman_region_empty_data)
#define rh_member(r, px, py) sr_member_r ((r), (px), (py))
#define rh_canon(r) sr_canon_r ((r), RH_EMPTY)

static int vh_pixman_op (overlap_proc_ptr f, region_type_t *new_reg, region_type_t *reg1, region_type_t *reg2,
                         int append_non1, int append_non2)
{
    vh_op_calls++;
#if defined(VH_CBMC) && VR_OPMODE == 1
    VH_CHECK ("pixman_op.pre.operands_distinct_nonempty_not_broken",
              reg1 != reg2 && !PIXREGION_NIL (reg1) && !PIXREGION_NIL (reg2));
    __CPROVER_assume (0);
    return 0;
#elif defined(VH_CBMC) && VR_OPMODE == 2
    VH_CHECK ("pixman_op.unreachable", 0);
    __CPROVER_assume (0);
    return 0;
#else
    return pixman_op_real (f, new_reg, reg1, reg2, append_non1, append_non2);
#endif
}

/* ---- building operand regions from scalar inputs ------------------------------------ */

/* shape 0: one rectangle stored inline; shape 1: empty (static sentinel, degenerate extents
 * anywhere — what a trivially rejected intersect leaves behind). */
static void rh_make01 (region_type_t *r, int shape, rh_coord x1, rh_coord y1, rh_coord x2, rh_coord y2)
{
    r->extents.x1 = x1; r->extents.y1 = y1; r->extents.x2 = x2; r->extents.y2 = y2;
    if (shape == 0)
    {
        VH_ASSUME (x1 < x2 && y1 < y2);
        r->data = (region_data_type_t *) 0;
    }
    else
    {
        VH_ASSUME (shape == 1);
        VH_ASSUME (x1 == x2 && y1 == y2);
        r->data = pixman_region_empty_data;
    }
}

/* a heap region with room for `size` boxes holding the n given boxes; the caller assumes
 * canonical form if it wants a legal operand.  (malloc) bypasses vh_alloc's counter. */
static void rh_make_heap (region_type_t *r, int size, int n, const box_type_t *b)
{
    int i;
    r->data = (region_data_type_t *) (malloc) (sizeof (region_data_type_t) + size * sizeof (box_type_t));
    VH_ASSUME (r->data != 0);
    r->data->size = size;
    r->data->numRects = n;
    for (i = 0; i < n; i++)
        PIXREGION_BOXPTR (r)[i] = b[i];
}

/* give the region the tight extents of its list (spec-side helper for building operands) */
static void rh_set_tight_extents (region_type_t *r)
{
    const box_type_t *b = sr_rects_r (r);
    int n = sr_nrects_r (r), i;
    if (n == 0) return;
    r->extents = b[0];
    for (i = 1; i < n; i++)
    {
        if (b[i].x1 < r->extents.x1) r->extents.x1 = b[i].x1;
        if (b[i].y1 < r->extents.y1) r->extents.y1 = b[i].y1;
        if (b[i].x2 > r->extents.x2) r->extents.x2 = b[i].x2;
        if (b[i].y2 > r->extents.y2) r->extents.y2 = b[i].y2;
    }
}

static void rh_release (region_type_t *r)
{
    if (r->data && r->data->size)
        (free) (r->data);
}

#endif
