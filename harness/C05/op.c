/* C05/C06 route H, BOUNDED: the public operations through the REAL pixman_op, the real band
 * functions, pixman_coalesce and pixman_set_extents; operands with VR_NA / VR_NB rectangles in
 * canonical form (assumed), coordinates in [VR_CMIN, VR_CMAX] (or the full domain when VR_CMAX
 * is not defined).
 *
 *   -DVR_BITS=32|16
 *   -DVR_OP=0 intersect | 1 union | 2 subtract | 3 inverse (B is then the box, VR_NB ignored)
 *   -DVR_NA, -DVR_NB = 1 | 2     rectangles per operand (1 = inline single rectangle)
 *   -DVR_ALIAS=0 destination distinct: a heap region whose buffer (VR_DSIZE boxes) is large
 *                enough for every result, and then -DVR_STUB_ALLOC asserts that the library
 *                never allocates;  1 new==reg1 | 2 new==reg2 (real allocator)
 *   -DVR_DSIZE   capacity of the destination buffer (default 16)
 */
#include "rh.h"

#ifndef VR_NA
#define VR_NA 1
#endif
#ifndef VR_NB
#define VR_NB 1
#endif
#ifndef VR_ALIAS
#define VR_ALIAS 0
#endif
#ifndef VR_DSIZE
#define VR_DSIZE 16
#endif
#ifndef VR_CMIN
#define VR_CMIN 0
#endif

#ifdef VR_CMAX
#define IN_RANGE(v) VH_ASSUME ((v) >= VR_CMIN && (v) <= VR_CMAX)
#else
#define IN_RANGE(v) do { } while (0)
#endif

static void make (region_type_t *r, int n, const rh_coord *c)
{
    IN_RANGE (c[0]); IN_RANGE (c[1]); IN_RANGE (c[2]); IN_RANGE (c[3]);
    if (n == 2)
    {
        IN_RANGE (c[4]); IN_RANGE (c[5]); IN_RANGE (c[6]); IN_RANGE (c[7]);
    }
    if (n == 1)
        rh_make01 (r, 0, c[0], c[1], c[2], c[3]);
    else
    {
        box_type_t b[2] = { { c[0], c[1], c[2], c[3] }, { c[4], c[5], c[6], c[7] } };
        rh_make_heap (r, 2, 2, b);
        rh_set_tight_extents (r);
        VH_ASSUME (rh_canon (r));
    }
}

void harness (void)
{
    VH_IN_COORD (in_a0); VH_IN_COORD (in_a1); VH_IN_COORD (in_a2); VH_IN_COORD (in_a3);
    VH_IN_COORD (in_a4); VH_IN_COORD (in_a5); VH_IN_COORD (in_a6); VH_IN_COORD (in_a7);
    VH_IN_COORD (in_b0); VH_IN_COORD (in_b1); VH_IN_COORD (in_b2); VH_IN_COORD (in_b3);
    VH_IN_COORD (in_b4); VH_IN_COORD (in_b5); VH_IN_COORD (in_b6); VH_IN_COORD (in_b7);
    VH_IN_COORD (in_px); VH_IN_COORD (in_py);
    rh_coord ca[8] = { in_a0, in_a1, in_a2, in_a3, in_a4, in_a5, in_a6, in_a7 };
    rh_coord cb[8] = { in_b0, in_b1, in_b2, in_b3, in_b4, in_b5, in_b6, in_b7 };
    region_type_t ra, rb, rd;
    region_type_t *pa = &ra, *pb = &rb, *pd = &rd;
    box_type_t box;
    int in_a, in_b, ret, expect;

    make (&ra, VR_NA, ca);
#if VR_OP == 3
    IN_RANGE (in_b0); IN_RANGE (in_b1); IN_RANGE (in_b2); IN_RANGE (in_b3);
    VH_ASSUME (in_b0 < in_b2 && in_b1 < in_b3);
    box.x1 = in_b0; box.y1 = in_b1; box.x2 = in_b2; box.y2 = in_b3;
    in_b = sr_in_box_r (&box, in_px, in_py);
    rb.data = (region_data_type_t *) 0; rb.extents = box;
#else
    make (&rb, VR_NB, cb);
    in_b = rh_member (pb, in_px, in_py);
#endif
#if VR_ALIAS == 0
    {
        /* pre-sized destination; its old content is irrelevant (two stale boxes) */
        box_type_t stale[2] = { { 0, 0, 1, 1 }, { 2, 0, 3, 1 } };
        rh_make_heap (&rd, VR_DSIZE, 2, stale);
        rh_set_tight_extents (&rd);
    }
#elif VR_ALIAS == 1
    pd = pa;
#else
    pd = pb;
#endif
    in_a = rh_member (pa, in_px, in_py);

#if VR_OP == 0
    ret = RH_PREFIX (_intersect) (pd, pa, pb);
    expect = in_a && in_b;
#elif VR_OP == 1
    ret = RH_PREFIX (_union) (pd, pa, pb);
    expect = in_a || in_b;
#elif VR_OP == 2
    ret = RH_PREFIX (_subtract) (pd, pa, pb);
    expect = in_a && !in_b;
#else
    ret = RH_PREFIX (_inverse) (pd, pa, &box);
    expect = in_b && !in_a;
#endif

    VH_CHECK ("post.returns_true", ret == TRUE);
    VH_CHECK ("post.point_membership_is_set_algebra", rh_member (pd, in_px, in_py) == expect);
    VH_CHECK ("post.result_canonical", rh_canon (pd));
    VH_CHECK ("post.no_consistency_error_logged", vh_log_errors == 0);
    rh_release (pd);
    if (pa != pd) rh_release (pa);
#if VR_OP != 3
    if (pb != pd) rh_release (pb);
#endif
    VH_END ();
}
