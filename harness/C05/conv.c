/* C05/C06 route H: pixman_region16_copy_from_region32 / pixman_region32_copy_from_region16 (pixman-utils.c),
 * linked with the real, unmodified pixman-region32.c and pixman-region16.c (separate TUs).
 *
 *   -DVR_DIR=0  16 <- 32 (source coordinates inside the int16 range: the representable range of the result)
 *           1  32 <- 16 (every int16 coordinate)
 *   -DVR_SA=0 source is a single inline rectangle | 1 source is empty | 2 source has two rectangles (canonical, assumed)
 *   -DVR_DST=0 destination holds a single rectangle | 2 destination is empty | 1 destination is a 2-rectangle heap region
 *
 * Postcondition: returns TRUE; p in view(dst) <=> p in view(src); canon(dst); src unchanged.
 */
#include "vh.h"
#include <stdlib.h>
#include "pixman-utils.c"

#define SR_SFX 32
#define SR_REGION_T pixman_region32_t
#define SR_BOX_T pixman_box32_t
#define SR_DATA_T pixman_region32_data_t
#include "spec_region.h"
#define SR_SFX 16
#define SR_REGION_T pixman_region16_t
#define SR_BOX_T pixman_box16_t
#define SR_DATA_T pixman_region16_data_t
#include "spec_region.h"

#if VR_DIR == 0
typedef pixman_region32_t src_t; typedef pixman_box32_t sbox_t; typedef pixman_region32_data_t sdata_t;
typedef pixman_region16_t dst_t; typedef pixman_box16_t dbox_t; typedef pixman_region16_data_t ddata_t;
typedef vh_i32 scoord;
#define VH_IN_S(n) VH_IN (vh_i32, n)
#define S_(f) f##_32
#define D_(f) f##_16
#define SRC_INIT pixman_region32_init
#define DST_INIT pixman_region_init
#define CONVERT pixman_region16_copy_from_region32
#else
typedef pixman_region16_t src_t; typedef pixman_box16_t sbox_t; typedef pixman_region16_data_t sdata_t;
typedef pixman_region32_t dst_t; typedef pixman_box32_t dbox_t; typedef pixman_region32_data_t ddata_t;
typedef vh_i16 scoord;
#define VH_IN_S(n) VH_IN (vh_i16, n)
#define S_(f) f##_16
#define D_(f) f##_32
#define SRC_INIT pixman_region_init
#define DST_INIT pixman_region32_init
#define CONVERT pixman_region32_copy_from_region16
#endif

void harness (void)
{
    VH_IN_S (in_a0); VH_IN_S (in_a1); VH_IN_S (in_a2); VH_IN_S (in_a3);
    VH_IN_S (in_a4); VH_IN_S (in_a5); VH_IN_S (in_a6); VH_IN_S (in_a7);
    VH_IN (vh_i16, in_d0); VH_IN (vh_i16, in_d1); VH_IN (vh_i16, in_d2); VH_IN (vh_i16, in_d3);
    VH_IN (vh_i16, in_d4); VH_IN (vh_i16, in_d5); VH_IN (vh_i16, in_d6); VH_IN (vh_i16, in_d7);
    VH_IN_S (in_px); VH_IN_S (in_py);
    src_t src, ssave; dst_t dst, dempty;
    int in_src, ret;

    /* the library's static empty blocks, obtained the way a client does */
    SRC_INIT (&src);
    DST_INIT (&dempty);
    DST_INIT (&dst);

#if VR_DIR == 0
    VH_ASSUME (in_a0 >= INT16_MIN && in_a0 <= INT16_MAX && in_a1 >= INT16_MIN && in_a1 <= INT16_MAX);
    VH_ASSUME (in_a2 >= INT16_MIN && in_a2 <= INT16_MAX && in_a3 >= INT16_MIN && in_a3 <= INT16_MAX);
    VH_ASSUME (in_a4 >= INT16_MIN && in_a4 <= INT16_MAX && in_a5 >= INT16_MIN && in_a5 <= INT16_MAX);
    VH_ASSUME (in_a6 >= INT16_MIN && in_a6 <= INT16_MAX && in_a7 >= INT16_MIN && in_a7 <= INT16_MAX);
#endif
#if VR_SA == 0
    VH_ASSUME (in_a0 < in_a2 && in_a1 < in_a3);
    src.extents.x1 = in_a0; src.extents.y1 = in_a1; src.extents.x2 = in_a2; src.extents.y2 = in_a3;
    src.data = (sdata_t *) 0;
#elif VR_SA == 1
    VH_ASSUME (in_a0 == in_a2 && in_a1 == in_a3);
    src.extents.x1 = in_a0; src.extents.y1 = in_a1; src.extents.x2 = in_a2; src.extents.y2 = in_a3;
#else
    {
        sbox_t *sb;
        src.data = (sdata_t *) malloc (sizeof (sdata_t) + 2 * sizeof (sbox_t));
        VH_ASSUME (src.data != 0);
        src.data->size = 2; src.data->numRects = 2;
        sb = (sbox_t *) (src.data + 1);
        sb[0].x1 = in_a0; sb[0].y1 = in_a1; sb[0].x2 = in_a2; sb[0].y2 = in_a3;
        sb[1].x1 = in_a4; sb[1].y1 = in_a5; sb[1].x2 = in_a6; sb[1].y2 = in_a7;
        src.extents.x1 = in_a0 < in_a4 ? in_a0 : in_a4; src.extents.y1 = in_a1 < in_a5 ? in_a1 : in_a5;
        src.extents.x2 = in_a2 > in_a6 ? in_a2 : in_a6; src.extents.y2 = in_a3 > in_a7 ? in_a3 : in_a7;
        VH_ASSUME (S_ (sr_canon) (&src, (const sdata_t *) 0));
    }
#endif
#if VR_DST == 0
    VH_ASSUME (in_d0 < in_d2 && in_d1 < in_d3);
    dst.extents.x1 = in_d0; dst.extents.y1 = in_d1; dst.extents.x2 = in_d2; dst.extents.y2 = in_d3;
    dst.data = (ddata_t *) 0;
#elif VR_DST == 1
    {
        dbox_t *db;
        dst.data = (ddata_t *) malloc (sizeof (ddata_t) + 2 * sizeof (dbox_t));
        VH_ASSUME (dst.data != 0);
        dst.data->size = 2; dst.data->numRects = 2;
        db = (dbox_t *) (dst.data + 1);
        db[0].x1 = in_d0; db[0].y1 = in_d1; db[0].x2 = in_d2; db[0].y2 = in_d3;
        db[1].x1 = in_d4; db[1].y1 = in_d5; db[1].x2 = in_d6; db[1].y2 = in_d7;
        dst.extents.x1 = in_d0 < in_d4 ? in_d0 : in_d4; dst.extents.y1 = in_d1 < in_d5 ? in_d1 : in_d5;
        dst.extents.x2 = in_d2 > in_d6 ? in_d2 : in_d6; dst.extents.y2 = in_d3 > in_d7 ? in_d3 : in_d7;
        VH_ASSUME (D_ (sr_canon) (&dst, (const ddata_t *) 0));
    }
#endif
    in_src = S_ (sr_member) (&src, in_px, in_py);
    ssave = src;

    ret = CONVERT (&dst, &src);

    VH_CHECK ("post.returns_true", ret == TRUE);
    VH_CHECK ("post.same_point_set", D_ (sr_member) (&dst, in_px, in_py) == in_src);
    VH_CHECK ("post.result_canonical", D_ (sr_canon) (&dst, dempty.data));
    VH_CHECK ("frame.source_unchanged", src.data == ssave.data && src.extents.x1 == ssave.extents.x1 && src.extents.y1 == ssave.extents.y1
              && src.extents.x2 == ssave.extents.x2 && src.extents.y2 == ssave.extents.y2);
    if (dst.data && dst.data->size) free (dst.data);
    if (src.data && src.data->size) free (src.data);
    VH_END ();
}
