/* C05/C06 route H, BOUNDED (box count, coordinate range): PREFIX(_init_rects) with VR_COUNT boxes
 * in any order, overlapping, touching, degenerate or inverted; through the real validate(),
 * quick_sort_rects, pixman_op, pixman_region_union_o, pixman_coalesce, pixman_rect_alloc.
 *
 *   -DVR_BITS=32|16  -DVR_COUNT=0..3  -DVR_CMAX=n (coordinates in [0,n]; full domain if undefined)
 *   -DVR_WIDE        count==1: also boxes whose width/height does not fit an int
 *
 * Postcondition (C05): returns TRUE (no allocation fails here); p in view(region) <=> p lies in
 * one of the boxes (an empty or inverted box contains no point); canon(region) (C06).
 * The region object is uninitialised memory before the call.
 */
#include "rh.h"

#ifdef VR_CMAX
#define IN_RANGE(v) VH_ASSUME ((v) >= 0 && (v) <= VR_CMAX)
#else
#define IN_RANGE(v) do { } while (0)
#endif

void harness (void)
{
    VH_IN_COORD (in_c0); VH_IN_COORD (in_c1); VH_IN_COORD (in_c2); VH_IN_COORD (in_c3);
    VH_IN_COORD (in_c4); VH_IN_COORD (in_c5); VH_IN_COORD (in_c6); VH_IN_COORD (in_c7);
    VH_IN_COORD (in_c8); VH_IN_COORD (in_c9); VH_IN_COORD (in_c10); VH_IN_COORD (in_c11);
    VH_IN_COORD (in_g0); VH_IN_COORD (in_g1); VH_IN_COORD (in_g2); VH_IN_COORD (in_g3);
    VH_IN_COORD (in_px); VH_IN_COORD (in_py);
    box_type_t b[3] = { { in_c0, in_c1, in_c2, in_c3 }, { in_c4, in_c5, in_c6, in_c7 }, { in_c8, in_c9, in_c10, in_c11 } };
    box_type_t saved[3];
    region_type_t r;
    int expect, ret, i;

    IN_RANGE (in_c0); IN_RANGE (in_c1); IN_RANGE (in_c2); IN_RANGE (in_c3);
    IN_RANGE (in_c4); IN_RANGE (in_c5); IN_RANGE (in_c6); IN_RANGE (in_c7);
    IN_RANGE (in_c8); IN_RANGE (in_c9); IN_RANGE (in_c10); IN_RANGE (in_c11);
#if VR_COUNT == 1 && !defined(VR_WIDE)
    /* count == 1 computes `x2 - x1` / `y2 - y1` in int (pixman-region.c:2488): boxes wider than INT32_MAX
     * (or inverted by more than that) overflow — isolated in the job finding.initrects32.count1.wide_box */
    VH_ASSUME ((long) in_c2 - (long) in_c0 >= INT32_MIN && (long) in_c2 - (long) in_c0 <= INT32_MAX);
    VH_ASSUME ((long) in_c3 - (long) in_c1 >= INT32_MIN && (long) in_c3 - (long) in_c1 <= INT32_MAX);
#endif
    /* garbage in the uninitialised object */
    r.extents.x1 = in_g0; r.extents.y1 = in_g1; r.extents.x2 = in_g2; r.extents.y2 = in_g3;
    r.data = (region_data_type_t *) (size_t) in_g0;
    saved[0] = b[0]; saved[1] = b[1]; saved[2] = b[2];

    expect = sr_member_boxes_r (b, VR_COUNT, in_px, in_py);

    ret = RH_PREFIX (_init_rects) (&r, b, VR_COUNT);

    VH_CHECK ("post.returns_true", ret == TRUE);
    VH_CHECK ("post.point_membership_is_union_of_boxes", rh_member (&r, in_px, in_py) == expect);
    VH_CHECK ("post.result_canonical", rh_canon (&r));
    {
        /* a single inverted box is reported by _init_rect as "Invalid rectangle passed" (and yields the
         * empty region): that message is legitimate; no other message is */
        int inverted = 0;
        for (i = 0; i < VR_COUNT; i++)
            if (saved[i].x1 > saved[i].x2 || saved[i].y1 > saved[i].y2)
                inverted = 1;
        VH_CHECK ("post.no_consistency_error_logged", inverted || vh_log_errors == 0);
    }
    for (i = 0; i < VR_COUNT; i++)
        VH_CHECK ("frame.input_boxes_unchanged", b[i].x1 == saved[i].x1 && b[i].y1 == saved[i].y1 && b[i].x2 == saved[i].x2 && b[i].y2 == saved[i].y2);
    rh_release (&r);
    VH_END ();
}
