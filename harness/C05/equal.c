/* C06 route H: PREFIX(_equal) is set equality; PREFIX(_selfcheck) accepts every canonical region.
 *
 *   -DVR_BITS=32|16
 *   -DVR_FN=1 equal (r1, r2)   2 selfcheck (r)
 *   -DVR_SA, -DVR_SB = 0 single inline rectangle | 1 empty (degenerate extents anywhere)
 *                    | 2 heap region with 2 rectangles | 3 heap region with 3 rectangles (canonical, assumed)
 *   -DVR_ALIAS=1   r1 == r2
 *
 * "Same point set", stated without the code's representation: two sets of points are equal iff
 * no point separates them.  For regions of <= 1 rectangle a separating point exists iff one
 * of the (up to) eight corner points of the two boxes separates them (boxes are convex: all
 * four corners of A inside B <=> A subset of B), so
 *      same_set  <=>  no corner point p has (p in A) != (p in B).
 * The ghost point (px,py) gives the other reading: equal TRUE  =>  (p in A) <=> (p in B) for every p.
 * For canonical multi-rectangle regions equality of point sets is equality of the lists
 * (uniqueness of the canonical form, argued in DESIGN.md): sr_same_list.
 */
#include "rh.h"

#ifndef VR_SB
#define VR_SB 0
#endif
#ifndef VR_ALIAS
#define VR_ALIAS 0
#endif

static int separates (const region_type_t *a, const region_type_t *b, long x, long y)
{
    return rh_member (a, x, y) != rh_member (b, x, y);
}

/* corner points of the (<= 1) rectangle of r that lie inside it, tried as separating points */
static int corner_separates (const region_type_t *r, const region_type_t *a, const region_type_t *b)
{
    const box_type_t *e = &r->extents;
    if (sr_nrects_r (r) != 1)
        return 0;
    return separates (a, b, e->x1, e->y1) || separates (a, b, (long) e->x2 - 1, e->y1)
        || separates (a, b, e->x1, (long) e->y2 - 1) || separates (a, b, (long) e->x2 - 1, (long) e->y2 - 1);
}

static void make (region_type_t *r, int shape, const rh_coord *c)
{
    if (shape <= 1)
        rh_make01 (r, shape, c[0], c[1], c[2], c[3]);
    else
    {
        box_type_t b[3] = { { c[0], c[1], c[2], c[3] }, { c[4], c[5], c[6], c[7] }, { c[8], c[9], c[10], c[11] } };
        rh_make_heap (r, shape, shape, b);
        rh_set_tight_extents (r);
        VH_ASSUME (rh_canon (r));
    }
}

void harness (void)
{
    VH_IN_COORD (in_a0); VH_IN_COORD (in_a1); VH_IN_COORD (in_a2); VH_IN_COORD (in_a3);
    VH_IN_COORD (in_a4); VH_IN_COORD (in_a5); VH_IN_COORD (in_a6); VH_IN_COORD (in_a7);
    VH_IN_COORD (in_a8); VH_IN_COORD (in_a9); VH_IN_COORD (in_a10); VH_IN_COORD (in_a11);
    VH_IN_COORD (in_b0); VH_IN_COORD (in_b1); VH_IN_COORD (in_b2); VH_IN_COORD (in_b3);
    VH_IN_COORD (in_b4); VH_IN_COORD (in_b5); VH_IN_COORD (in_b6); VH_IN_COORD (in_b7);
    VH_IN_COORD (in_b8); VH_IN_COORD (in_b9); VH_IN_COORD (in_b10); VH_IN_COORD (in_b11);
    VH_IN_COORD (in_px); VH_IN_COORD (in_py);
    rh_coord ca[12] = { in_a0, in_a1, in_a2, in_a3, in_a4, in_a5, in_a6, in_a7, in_a8, in_a9, in_a10, in_a11 };
    rh_coord cb[12] = { in_b0, in_b1, in_b2, in_b3, in_b4, in_b5, in_b6, in_b7, in_b8, in_b9, in_b10, in_b11 };
    region_type_t ra, rb;
    region_type_t *pa = &ra, *pb = &rb;
    int ret;

    make (&ra, VR_SA, ca);
    make (&rb, VR_SB, cb);
#if VR_ALIAS == 1
    pb = pa;
#endif

#if VR_FN == 1
    ret = RH_PREFIX (_equal) (pa, pb);
#if VR_SA == 1 && VR_SB == 1
    /* C06: "all empty regions being equal" — whatever stale extents they carry */
    VH_CHECK ("post.all_empty_regions_equal", ret == TRUE);
#elif VR_SA <= 1 && VR_SB <= 1
    {
        int same_set = !(corner_separates (pa, pa, pb) || corner_separates (pb, pa, pb));
        VH_CHECK ("post.equal_iff_same_point_set", (ret != 0) == same_set);
    }
#else
    VH_CHECK ("post.equal_iff_same_rectangle_list", (ret != 0) == sr_same_list_r (pa, pb));
#endif
    if (ret)
        VH_CHECK ("post.equal_implies_same_membership", rh_member (pa, in_px, in_py) == rh_member (pb, in_px, in_py));
#else
    ret = RH_PREFIX (_selfcheck) (pa);
    VH_CHECK ("post.canonical_region_passes_selfcheck", ret == TRUE);
#endif
    VH_CHECK ("post.no_consistency_error_logged", vh_log_errors == 0);
    rh_release (&ra);
    rh_release (&rb);
    VH_END ();
}
