/* C05/C06 route H, BOUNDED (band length): the leaves pixman_coalesce and pixman_set_extents.
 *
 *   -DVR_BITS=32|16
 *   -DVR_FN=1 pixman_coalesce (region, prev_start, cur_start), both bands VR_K rectangles long,
 *             VR_PRE rectangles of earlier bands in front of them (0 | 1)
 *           2 pixman_set_extents (region), region with VR_K rectangles (0 = static empty,
 *             1 = inline, 2, 3 = heap), extents on entry arbitrary
 *
 * pixman_coalesce — contract.  Precondition from the only call site (COALESCE in pixman_op /
 * validate): the output array ends with two complete bands of equal length, each a legal band
 * (non-empty rectangles sharing y1/y2, separated by gaps), the second not above the first.
 * Postcondition from C06 ("vertically adjacent bands with identical spans merged"):
 *   if bottom(prev) == top(cur) and the spans are identical:  the current band is removed,
 *   the previous band now ends at bottom(cur), result == prev_start;
 *   otherwise nothing changes and result == cur_start.
 *   In both cases the point set is unchanged (ghost point) and earlier rectangles are untouched.
 *
 * pixman_set_extents — postcondition from C06: extents == tight bounding box of the list (an
 * empty region gets degenerate extents); the list itself is unchanged.
 */
#include "rh.h"

#ifndef VR_PRE
#define VR_PRE 0
#endif
#define NBOX (VR_PRE + 2 * VR_K)

void harness (void)
{
    VH_IN_COORD (in_c0); VH_IN_COORD (in_c1); VH_IN_COORD (in_c2); VH_IN_COORD (in_c3);
    VH_IN_COORD (in_c4); VH_IN_COORD (in_c5); VH_IN_COORD (in_c6); VH_IN_COORD (in_c7);
    VH_IN_COORD (in_c8); VH_IN_COORD (in_c9); VH_IN_COORD (in_c10); VH_IN_COORD (in_c11);
    VH_IN_COORD (in_c12); VH_IN_COORD (in_c13); VH_IN_COORD (in_c14); VH_IN_COORD (in_c15);
    VH_IN_COORD (in_c16); VH_IN_COORD (in_c17); VH_IN_COORD (in_c18); VH_IN_COORD (in_c19);
    VH_IN_COORD (in_e0); VH_IN_COORD (in_e1); VH_IN_COORD (in_e2); VH_IN_COORD (in_e3);
    VH_IN_COORD (in_px); VH_IN_COORD (in_py);
    rh_coord c[20] = { in_c0, in_c1, in_c2, in_c3, in_c4, in_c5, in_c6, in_c7, in_c8, in_c9, in_c10, in_c11,
                       in_c12, in_c13, in_c14, in_c15, in_c16, in_c17, in_c18, in_c19 };
    box_type_t b[5], old[5];
    region_type_t r;
    int i, n, in_before, ret;

    for (i = 0; i < 5; i++)
    {
        b[i].x1 = c[4 * i]; b[i].y1 = c[4 * i + 1]; b[i].x2 = c[4 * i + 2]; b[i].y2 = c[4 * i + 3];
        old[i] = b[i];
    }
    r.extents.x1 = in_e0; r.extents.y1 = in_e1; r.extents.x2 = in_e2; r.extents.y2 = in_e3;

#if VR_FN == 1
    {
        const box_type_t *prev = b + VR_PRE, *cur = b + VR_PRE + VR_K;
        int mergeable = 1, new_n;
        n = NBOX;
        /* each of the two bands is a legal band; the earlier rectangle (if any) lies in a band above */
        VH_ASSUME (sr_canon_list_r (prev, VR_K) && sr_canon_list_r (cur, VR_K));
        for (i = 1; i < VR_K; i++)
            VH_ASSUME (prev[i].y1 == prev[0].y1 && cur[i].y1 == cur[0].y1);
        VH_ASSUME (cur[0].y1 >= prev[0].y2);
#if VR_PRE == 1
        VH_ASSUME (b[0].x1 < b[0].x2 && b[0].y1 < b[0].y2 && b[0].y2 <= prev[0].y1);
#endif
        rh_make_heap (&r, 6, n, b);
        in_before = rh_member (&r, in_px, in_py);

        ret = pixman_coalesce (&r, VR_PRE, VR_PRE + VR_K);

        if (prev[0].y2 != cur[0].y1)
            mergeable = 0;
        for (i = 0; i < VR_K; i++)
            if (prev[i].x1 != cur[i].x1 || prev[i].x2 != cur[i].x2)
                mergeable = 0;
        new_n = mergeable ? VR_PRE + VR_K : NBOX;
        VH_CHECK ("coalesce.result_index", ret == (mergeable ? VR_PRE : VR_PRE + VR_K));
        VH_CHECK ("coalesce.rect_count", r.data->numRects == new_n);
        VH_CHECK ("coalesce.identical_adjacent_bands_are_merged",
                  !mergeable || sr_canon_list_r (PIXREGION_BOXPTR (&r) + VR_PRE, VR_K));
        for (i = 0; i < VR_K; i++)
        {
            const box_type_t *q = PIXREGION_BOXPTR (&r) + VR_PRE + i;
            VH_CHECK ("coalesce.prev_band_boxes", q->x1 == old[VR_PRE + i].x1 && q->x2 == old[VR_PRE + i].x2 && q->y1 == old[VR_PRE + i].y1
                      && q->y2 == (mergeable ? old[VR_PRE + VR_K].y2 : old[VR_PRE + i].y2));
        }
        VH_CHECK ("coalesce.point_set_unchanged", rh_member (&r, in_px, in_py) == in_before);
#if VR_PRE == 1
        VH_CHECK ("coalesce.frame_earlier_rects", PIXREGION_BOXPTR (&r)[0].x1 == old[0].x1 && PIXREGION_BOXPTR (&r)[0].y1 == old[0].y1
                  && PIXREGION_BOXPTR (&r)[0].x2 == old[0].x2 && PIXREGION_BOXPTR (&r)[0].y2 == old[0].y2);
#endif
    }
#else
    n = VR_K;
#if VR_K == 0
    r.data = pixman_region_empty_data;
#elif VR_K == 1
    r.data = (region_data_type_t *) 0;
    r.extents = b[0];
    VH_ASSUME (sr_canon_list_r (b, 1));
#else
    VH_ASSUME (sr_canon_list_r (b, VR_K));
    rh_make_heap (&r, VR_K + 1, VR_K, b);
#endif
    in_before = rh_member (&r, in_px, in_py);

    pixman_set_extents (&r);

    VH_CHECK ("set_extents.tight_bounding_box", sr_tight_extents_r (&r));
    VH_CHECK ("set_extents.list_unchanged", sr_nrects_r (&r) == (VR_K ? VR_K : 0) && rh_member (&r, in_px, in_py) == in_before);
#if VR_K >= 1
    for (i = 0; i < VR_K; i++)
        VH_CHECK ("set_extents.boxes_unchanged", sr_rects_r (&r)[i].x1 == old[i].x1 && sr_rects_r (&r)[i].y1 == old[i].y1
                  && sr_rects_r (&r)[i].x2 == old[i].x2 && sr_rects_r (&r)[i].y2 == old[i].y2);
    VH_CHECK ("set_extents.result_canonical", rh_canon (&r));
#endif
#endif
    VH_CHECK ("post.no_consistency_error_logged", vh_log_errors == 0);
    rh_release (&r);
    VH_END ();
}
