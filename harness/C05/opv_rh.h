/* opv_rh.h — set-up of the MODULAR region harnesses (work package `opv`): pixman_op() and validate() of
 * pixman-region.c verified against the CONTRACTS of their callees instead of the callees' bodies.
 *
 *   -DVR_BITS=32|16      instantiation under check
 *   -DOPV_OP_STUB        every call `pixman_op (new, r1, r2, <band function>, n1, n2)` in the real source is routed to
 *                        opv_pixman_op_contract () which the including harness defines (validate harness); without it
 *                        the calls reach the real pixman_op.
 *
 * Interception (same technique as rh.h, nothing in /repo is touched): `pixman_op` is a function-like macro while the
 * unmodified source is read; its 4th argument is `overlap_proc_ptr overlap_func` in the definition and the name of a
 * band function at each call site, so token pasting tells them apart: the definition becomes
 *     pixman_op_real (overlap_proc_ptr overlap_func, new_reg, reg1, reg2, append_non1, append_non2)
 * (body unchanged) and the call sites become opv_pixman_op (<tag of the band function>, new_reg, reg1, reg2, n1, n2).
 * The tag (0 intersect, 1 union, 2 subtract) replaces the function name so that, in the CBMC build, the ADDRESS of a
 * real band function is never taken: cbmc resolves the call through pixman_op's function-pointer parameter to every
 * address-taken function of that type, and the bodies of the band functions must not be part of a modular query.
 * If the source changes shape this stops compiling -> exit 2 (undecided), never a verdict.
 *
 * Allocation: every malloc/realloc/free of the library goes through vh_alloc.h (k-th allocation fails iff bit k of
 * vh_failmask); the harnesses' own blocks are obtained with (malloc) and do not count.
 */
#ifndef OPV_RH_H
#define OPV_RH_H

#include "vh.h"
#include <stdlib.h>
#include <string.h>
#include "vh_alloc.h"

/* Rectangle blocks as TYPED objects in the CBMC build.  The library allocates header + boxes in one untyped block
 * (malloc (sizeof (header) + n * sizeof (box))), which cbmc can only treat as a byte array: every access turns into
 * byte extraction at a computed offset and the queries do not finish.  In the CBMC build every allocation request of
 * the library is therefore served by a block of the fixed type `struct opv_block` (header + OPV_CAP boxes); a request
 * larger than that is an obligation failure (alloc.request_within_model_capacity), never silently granted.  realloc is
 * allocate + copy + free, so pointers into the old block dangle exactly as with a moving realloc.  The k-th
 * allocation call fails iff bit k of vh_failmask (vh_alloc.h's counter is used).  Natively (replay) the C library's
 * allocator is used with the exact sizes, so ASan sees every overflow / use after free.
 * Not flagged in the CBMC build: a write beyond the requested size but inside the model block (the harnesses check
 * numRects <= size wherever they look at a region). */
#ifndef OPV_CAP
#define OPV_CAP 24
#endif
#ifdef VH_CBMC
#undef malloc
#undef realloc
#undef calloc
static void *opv_malloc (size_t n);
static void *opv_realloc (void *p, size_t n);
#define malloc(n)     opv_malloc (n)
#define realloc(p, n) opv_realloc ((p), (n))
#endif

#ifndef VR_BITS
#define VR_BITS 32
#endif

/* every _pixman_log_error (critical_if_fail, BAD_RECT) is counted */
static int vh_log_errors;
void _pixman_log_error (const char *function, const char *message)
{
    (void) function; (void) message;
    vh_log_errors++;
}

static int opv_pixman_op ();        /* defined below, after the types exist */

#define pixman_op(a, b, c, d, e, f) OPVP_##d , a, b, c, e, f)
#define OPVP_overlap_proc_ptr             pixman_op_real (overlap_proc_ptr
#define OPVP_pixman_region_intersect_o    opv_pixman_op (0
#define OPVP_pixman_region_union_o        opv_pixman_op (1
#define OPVP_pixman_region_subtract_o     opv_pixman_op (2

#ifdef OPV_COALESCE_STUB
/* pixman_coalesce (region, prev_start, cur_start): the definition's first parameter is `region_type_t * region`, the
 * call sites (macro COALESCE, used by pixman_op and validate) pass `new_reg` / `reg`; pasting selects the spelling */
static int opv_coalesce ();
#define pixman_coalesce(a, b, c) OPVC_##a , b, c)
#define OPVC_region_type_t                pixman_coalesce_real (region_type_t
#define OPVC_new_reg                      opv_coalesce (new_reg
#define OPVC_reg                          opv_coalesce (reg
#endif

#if VR_BITS == 32
#include "pixman-region32.c"
#define RH_PREFIX(x) pixman_region32##x
typedef vh_i32 rh_coord;
#define OPV_NONDET_COORD() nondet_vh_i32 ()
#define VH_IN_COORD(name) VH_IN (vh_i32, name)
#define RH_MIN INT32_MIN
#define RH_MAX INT32_MAX
#else
#include "pixman-region16.c"
#define RH_PREFIX(x) pixman_region##x
typedef vh_i16 rh_coord;
#define OPV_NONDET_COORD() nondet_vh_i16 ()
#define VH_IN_COORD(name) VH_IN (vh_i16, name)
#define RH_MIN INT16_MIN
#define RH_MAX INT16_MAX
#endif

#undef pixman_op
#ifdef OPV_COALESCE_STUB
#undef pixman_coalesce
#undef OPVC_reg
#undef OPVC_new_reg
#endif

struct opv_block { region_data_type_t hdr; box_type_t boxes[OPV_CAP]; };
/* the model block is an ARRAY OF BOXES whose first element(s) hold the header (16 bytes = 1 box32 = 2 box16): cbmc then
 * resolves ((box *) (data + 1))[i] to an array index even when i is symbolic (after a possible coalesce) */
#define OPV_BLOCK_ELEMS (sizeof (struct opv_block) / sizeof (box_type_t))
static void *opv_block_new (int size)        /* a block the harness hands to the library (not counted by vh_alloc) */
{
#ifdef VH_CBMC
    VH_ASSUME (size <= OPV_CAP);
    return (malloc) (sizeof (box_type_t) * OPV_BLOCK_ELEMS);
#else
    return (malloc) (sizeof (region_data_type_t) + (size_t) size * sizeof (box_type_t));
#endif
}
#ifdef VH_CBMC
static void *opv_malloc (size_t n)
{
    if (vh_should_fail ())
        return (void *) 0;
    VH_CHECK ("alloc.request_within_model_capacity", n <= sizeof (struct opv_block));
    return (malloc) (sizeof (box_type_t) * OPV_BLOCK_ELEMS);
}
static void *opv_realloc (void *p, size_t n)
{
    box_type_t *q;
    if (vh_should_fail ())
        return (void *) 0;
    VH_CHECK ("alloc.request_within_model_capacity", n <= sizeof (struct opv_block));
    q = (box_type_t *) (malloc) (sizeof (box_type_t) * OPV_BLOCK_ELEMS);
    if (p)
    {
        __CPROVER_array_copy (q, (box_type_t *) p);
        (free) (p);
    }
    return q;
}
#endif

#define SR_SFX r
#define SR_REGION_T region_type_t
#define SR_BOX_T box_type_t
#define SR_DATA_T region_data_type_t
#include "spec_region.h"

#define RH_EMPTY ((const region_data_type_t *) pixman_region_empty_data)
#define rh_member(r, px, py) sr_member_r ((r), (px), (py))
#define rh_canon(r) sr_canon_r ((r), RH_EMPTY)

/* element-wise array inputs: the trace carries name[k], the replay looks the same names up */
#ifdef VH_CBMC
#define OPV_IN_COORD_ARRAY(name, n) rh_coord name[n]; do { int i_; for (i_ = 0; i_ < (int) (n); i_++) name[i_] = OPV_NONDET_COORD (); } while (0)
#define OPV_IN_U8_ARRAY(name, n) vh_u8 name[n]; do { int i_; for (i_ = 0; i_ < (int) (n); i_++) name[i_] = nondet_vh_u8 (); } while (0)
#else
#define OPV_IN_COORD_ARRAY(name, n)                                            \
    rh_coord name[n];                                                          \
    do { int i_; char b_[96];                                                  \
         for (i_ = 0; i_ < (int) (n); i_++) {                                  \
             snprintf (b_, sizeof b_, "%s[%d]", #name, i_);                    \
             name[i_] = (rh_coord) VH_GET_I (b_); } } while (0)
#define OPV_IN_U8_ARRAY(name, n)                                               \
    vh_u8 name[n];                                                             \
    do { int i_; char b_[96];                                                  \
         for (i_ = 0; i_ < (int) (n); i_++) {                                  \
             snprintf (b_, sizeof b_, "%s[%d]", #name, i_);                    \
             name[i_] = (vh_u8) VH_GET_I (b_); } } while (0)
#endif

#ifdef OPV_OP_STUB
static int opv_pixman_op_contract (region_type_t *new_reg, region_type_t *reg1, region_type_t *reg2,
                                   int append_non1, int append_non2);
#endif

static int opv_pixman_op (int tag, region_type_t *new_reg, region_type_t *reg1, region_type_t *reg2,
                          int append_non1, int append_non2)
{
#ifdef OPV_OP_STUB
    (void) tag;
    return opv_pixman_op_contract (new_reg, reg1, reg2, append_non1, append_non2);
#elif defined(VH_CBMC)
    /* modular pixman_op query: the public entry points that call pixman_op are not part of it */
    (void) tag; (void) new_reg; (void) reg1; (void) reg2; (void) append_non1; (void) append_non2;
    VH_CHECK ("opv.public_entry_points_not_part_of_this_query", 0);
    return 0;
#else
    return pixman_op_real (tag == 0 ? pixman_region_intersect_o : tag == 1 ? pixman_region_union_o : pixman_region_subtract_o,
                           new_reg, reg1, reg2, append_non1, append_non2);
#endif
}

/* C06 clauses 1-4 on a rectangle list b[0..n), n <= cap, in ONE pass (a formulation of sr_canon_list of
 * spec_region.h whose cost is linear in cap; the two are proved equivalent for every list of <= 5 boxes by the job
 * lemma.canon_linear_equals_spec):
 *   (1) boxes non-empty; (2)(3)(4a) consecutive boxes: same band (same y1 => same y2, separated by a gap in x) or a
 *   later band (y1 >= bottom of the previous box); (4b) no band is vertically adjacent to the previous band with
 *   identical x spans.  ps / cs = start of the previous / current band; same = the boxes of the current band seen so
 *   far repeat the x spans of the previous band position by position. */
static int opv_canon_list (const box_type_t *b, int n, int cap)
{
    int i, ok = 1, ps = 0, cs = 0, same = 0;
    for (i = 0; i < cap; i++)
        if (i < n)
        {
            if (!(b[i].x1 < b[i].x2 && b[i].y1 < b[i].y2))
                ok = 0;
            if (i > 0 && b[i].y1 == b[i - 1].y1)
            {
                /* same band */
                if (b[i].y2 != b[i - 1].y2 || !(b[i - 1].x2 < b[i].x1))
                    ok = 0;
            }
            else
            {
                /* a band starts at i; the band [cs,i) is complete: was it a repetition of [ps,cs)? */
                if (i > 0)
                {
                    if (!(b[i].y1 >= b[i - 1].y2))
                        ok = 0;
                    if (cs > ps && same && i - cs == cs - ps && b[ps].y2 == b[cs].y1)
                        ok = 0;
                    ps = cs;
                    cs = i;
                }
                same = 1;
            }
            /* position i - cs of the current band against the same position of the previous band */
            if (cs > ps)
            {
                int t = ps + (i - cs);
                if (t >= cs || b[t].x1 != b[i].x1 || b[t].x2 != b[i].x2)
                    same = 0;
            }
        }
    if (n > 0 && cs > ps && same && n - cs == cs - ps && b[ps].y2 == b[cs].y1)
        ok = 0;
    return ok;
}

static int opv_member_boxes (const box_type_t *b, int n, int cap, long px, long py)
{
    int i, in = 0;
    for (i = 0; i < cap; i++)
        if (i < n && sr_in_box_r (&b[i], px, py))
            in = 1;
    return in;
}

/* every clause of C06 on a region with at most cap rectangles: legal memory shape (0 rectangles <=> the shared empty
 * block, 1 rectangle <=> data == NULL, else a heap list with numRects <= size), canonical list, extents == tight
 * bounding box (empty region: degenerate extents).  Same meaning as sr_canon of spec_region.h, linear cost. */
#ifndef OPV_CANON_CAP
#define OPV_CANON_CAP 6
#endif
static int opv_region_canon (const region_type_t *r, int cap)
{
    box_type_t c[OPV_CANON_CAP];
    const box_type_t *b;
    int i, n;
    long x1, y1, x2, y2;

    if (!sr_shape_wf_r (r, RH_EMPTY))
        return 0;
    n = sr_nrects_r (r);
    if (n < 0 || n > cap || cap > OPV_CANON_CAP)
        return 0;
    if (n == 0)
        return r->extents.x1 == r->extents.x2 && r->extents.y1 == r->extents.y2;
    b = sr_rects_r (r);
    for (i = 0; i < OPV_CANON_CAP; i++)
        if (i < n)
            c[i] = b[i];
    if (!opv_canon_list (c, n, OPV_CANON_CAP))
        return 0;
    x1 = c[0].x1; y1 = c[0].y1; x2 = c[0].x2; y2 = c[0].y2;
    for (i = 1; i < OPV_CANON_CAP; i++)
        if (i < n)
        {
            if (c[i].x1 < x1) x1 = c[i].x1;
            if (c[i].y1 < y1) y1 = c[i].y1;
            if (c[i].x2 > x2) x2 = c[i].x2;
            if (c[i].y2 > y2) y2 = c[i].y2;
        }
    return r->extents.x1 == x1 && r->extents.y1 == y1 && r->extents.x2 == x2 && r->extents.y2 == y2;
}

static int opv_box_eq (const box_type_t *a, const box_type_t *b)
{
    return a->x1 == b->x1 && a->y1 == b->y1 && a->x2 == b->x2 && a->y2 == b->y2;
}

/* a heap region with room for `size` boxes holding the n given boxes ((malloc): not counted by vh_alloc) */
static void opv_make_heap (region_type_t *r, int size, int n, const box_type_t *b)
{
    int i;
    r->data = (region_data_type_t *) opv_block_new (size);
    VH_ASSUME (r->data != 0);
    r->data->size = size;
    r->data->numRects = n;
    for (i = 0; i < n; i++)
        PIXREGION_BOXPTR (r)[i] = b[i];
}

/* tight extents of a plain list (spec-side) */
static void opv_bbox (const box_type_t *b, int n, box_type_t *out)
{
    int i;
    *out = b[0];
    for (i = 1; i < n; i++)
    {
        if (b[i].x1 < out->x1) out->x1 = b[i].x1;
        if (b[i].y1 < out->y1) out->y1 = b[i].y1;
        if (b[i].x2 > out->x2) out->x2 = b[i].x2;
        if (b[i].y2 > out->y2) out->y2 = b[i].y2;
    }
}

#ifdef OPV_COALESCE_STUB
/* ---- pixman_coalesce replaced by its CONTRACT (body: leaf*.coalesce.* jobs of C05) -------------------------------
 *   requires  the list ends with two complete bands [prev_start,cur_start) and [cur_start,numRects) of equal length
 *   ensures   if bottom (prev) == top (cur) and the x spans are identical position by position: the current band is
 *             removed, the previous band now ends at bottom (cur), result prev_start; else nothing changes, result
 *             cur_start.
 * Whether the spans are identical depends on the (free) x coordinates.  To keep the fill level of the block — and with
 * it every pointer — concrete for the verifier, the stub does not branch on that condition: it takes the decision
 * from a concrete decision vector (opv_decide) and records in opv_guard whether the decision agrees with the
 * condition.  The harness runs every leaf of the decision tree and states each x-dependent obligation as
 * "opv_guard => ...": for every x exactly one leaf has opv_guard true, so all x are covered.  Natively (replay) the
 * real pixman_coalesce runs. */
#define OPV_MAXDEC 12
static int opv_dec[OPV_MAXDEC], opv_dec_n, opv_dec_used, opv_guard;

static int opv_decide (void)
{
    int d = 0;
    VH_CHECK ("opv.decision_vector_large_enough", opv_dec_used < OPV_MAXDEC);
    if (opv_dec_used >= OPV_MAXDEC)
        return 0;
    if (opv_dec_used < opv_dec_n)
        d = opv_dec[opv_dec_used];
    else
    {
        opv_dec[opv_dec_used] = 0;
        opv_dec_n = opv_dec_used + 1;
    }
    opv_dec_used++;
    return d;
}

/* advance to the next leaf of the decision tree; 0 when every leaf has been visited */
static int opv_next_leaf (void)
{
    opv_dec_n = opv_dec_used;
    while (opv_dec_n > 0 && opv_dec[opv_dec_n - 1] == 1)
        opv_dec_n--;
    if (opv_dec_n == 0)
        return 0;
    opv_dec[opv_dec_n - 1] = 1;
    return 1;
}

/* executions that repeat a leaf with an injected failure must not disturb the enumeration */
static int opv_saved_n, opv_saved_used;
static void opv_leaf_save (void) { opv_saved_n = opv_dec_n; opv_saved_used = opv_dec_used; }
static void opv_leaf_restore (void) { opv_dec_n = opv_saved_n; opv_dec_used = opv_saved_used; }

static int opv_coalesce (region_type_t *region, int prev_start, int cur_start)
{
#ifdef VH_CBMC
    int n = cur_start - prev_start, i, identical = 1, d;
    box_type_t *b;
    VH_CHECK ("coalesce.pre.list_ends_with_two_bands_of_equal_length",
              region->data != (region_data_type_t *) 0 && prev_start >= 0 && n >= 0 && region->data->numRects - cur_start == n
              && region->data->numRects <= region->data->size);
    if (n <= 0)
        return cur_start;
    b = PIXREGION_BOXPTR (region);
    if (b[prev_start].y2 != b[cur_start].y1)
        return cur_start;
    for (i = 0; i < n; i++)
        if (b[prev_start + i].x1 != b[cur_start + i].x1 || b[prev_start + i].x2 != b[cur_start + i].x2)
            identical = 0;
    d = opv_decide ();
    if (identical != d)
        opv_guard = 0;
    if (!d)
        return cur_start;
    for (i = 0; i < n; i++)
        b[prev_start + i].y2 = b[cur_start + i].y2;
    region->data->numRects -= n;
    return prev_start;
#else
    return pixman_coalesce_real (region, prev_start, cur_start);
#endif
}
#endif

/* release with the C library's free, not counted */
static void opv_release (region_type_t *r)
{
    if (r->data && r->data->size)
        (free) (r->data);
}

#endif
