/* opv_rh.h — set-up of the MODULAR region harnesses (work package `opv`): pixman_op() and validate() of
 * pixman-region.c verified against the CONTRACTS of their callees instead of the callees' bodies.
 *
 *   -DVR_BITS=32|16      instantiation under check
 *   -DOPV_OP_STUB        every call `pixman_op (new, r1, r2, <band function>, n1, n2)` in the real source is routed to
 *                        opv_pixman_op_contract () which the including harness defines (validate harness); without it
 *                        the calls reach the real pixman_op.
 *
 * Interception (same technique as rh.h, nothing in /repo is touched): `pixman_op` is a function-like macro while the
 * unmodified source is read; its 4th argument is `overlap_proc_ptr overlap_func` in the definition and the name of a
 * band function at each call site, so token pasting tells them apart: the definition becomes
 *     pixman_op_real (overlap_proc_ptr overlap_func, new_reg, reg1, reg2, append_non1, append_non2)
 * (body unchanged) and the call sites become opv_pixman_op (<band function>, new_reg, reg1, reg2, n1, n2).
 * If the source changes shape this stops compiling -> exit 2 (undecided), never a verdict.
 *
 * Allocation: every malloc/realloc/free of the library goes through vh_alloc.h (k-th allocation fails iff bit k of
 * vh_failmask); the harnesses' own blocks are obtained with (malloc) and do not count.
 */
#ifndef OPV_RH_H
#define OPV_RH_H

#include "vh.h"
#include <stdlib.h>
#include <string.h>
#include "vh_alloc.h"

#ifndef VR_BITS
#define VR_BITS 32
#endif

/* every _pixman_log_error (critical_if_fail, BAD_RECT) is counted */
static int vh_log_errors;
void _pixman_log_error (const char *function, const char *message)
{
    (void) function; (void) message;
    vh_log_errors++;
}

static int opv_pixman_op ();        /* defined below, after the types exist */

#define pixman_op(a, b, c, d, e, f) OPVP_##d , a, b, c, e, f)
#define OPVP_overlap_proc_ptr             pixman_op_real (overlap_proc_ptr
#define OPVP_pixman_region_intersect_o    opv_pixman_op (pixman_region_intersect_o
#define OPVP_pixman_region_union_o        opv_pixman_op (pixman_region_union_o
#define OPVP_pixman_region_subtract_o     opv_pixman_op (pixman_region_subtract_o

#if VR_BITS == 32
#include "pixman-region32.c"
#define RH_PREFIX(x) pixman_region32##x
typedef vh_i32 rh_coord;
#define OPV_NONDET_COORD() nondet_vh_i32 ()
#define VH_IN_COORD(name) VH_IN (vh_i32, name)
#define RH_MIN INT32_MIN
#define RH_MAX INT32_MAX
#else
#include "pixman-region16.c"
#define RH_PREFIX(x) pixman_region##x
typedef vh_i16 rh_coord;
#define OPV_NONDET_COORD() nondet_vh_i16 ()
#define VH_IN_COORD(name) VH_IN (vh_i16, name)
#define RH_MIN INT16_MIN
#define RH_MAX INT16_MAX
#endif

#undef pixman_op

#define SR_SFX r
#define SR_REGION_T region_type_t
#define SR_BOX_T box_type_t
#define SR_DATA_T region_data_type_t
#include "spec_region.h"

#define RH_EMPTY ((const region_data_type_t *) pixman_region_empty_data)
#define rh_member(r, px, py) sr_member_r ((r), (px), (py))
#define rh_canon(r) sr_canon_r ((r), RH_EMPTY)

/* element-wise array inputs: the trace carries name[k], the replay looks the same names up */
#ifdef VH_CBMC
#define OPV_IN_COORD_ARRAY(name, n) rh_coord name[n]; do { int i_; for (i_ = 0; i_ < (int) (n); i_++) name[i_] = OPV_NONDET_COORD (); } while (0)
#define OPV_IN_U8_ARRAY(name, n) vh_u8 name[n]; do { int i_; for (i_ = 0; i_ < (int) (n); i_++) name[i_] = nondet_vh_u8 (); } while (0)
#else
#define OPV_IN_COORD_ARRAY(name, n)                                            \
    rh_coord name[n];                                                          \
    do { int i_; char b_[96];                                                  \
         for (i_ = 0; i_ < (int) (n); i_++) {                                  \
             snprintf (b_, sizeof b_, "%s[%d]", #name, i_);                    \
             name[i_] = (rh_coord) VH_GET_I (b_); } } while (0)
#define OPV_IN_U8_ARRAY(name, n)                                               \
    vh_u8 name[n];                                                             \
    do { int i_; char b_[96];                                                  \
         for (i_ = 0; i_ < (int) (n); i_++) {                                  \
             snprintf (b_, sizeof b_, "%s[%d]", #name, i_);                    \
             name[i_] = (vh_u8) VH_GET_I (b_); } } while (0)
#endif

#ifdef OPV_OP_STUB
static int opv_pixman_op_contract (region_type_t *new_reg, region_type_t *reg1, region_type_t *reg2,
                                   int append_non1, int append_non2);
#endif

static int opv_pixman_op (overlap_proc_ptr f, region_type_t *new_reg, region_type_t *reg1, region_type_t *reg2,
                          int append_non1, int append_non2)
{
#ifdef OPV_OP_STUB
    (void) f;
    return opv_pixman_op_contract (new_reg, reg1, reg2, append_non1, append_non2);
#else
    return pixman_op_real (f, new_reg, reg1, reg2, append_non1, append_non2);
#endif
}

static int opv_box_eq (const box_type_t *a, const box_type_t *b)
{
    return a->x1 == b->x1 && a->y1 == b->y1 && a->x2 == b->x2 && a->y2 == b->y2;
}

/* a heap region with room for `size` boxes holding the n given boxes ((malloc): not counted by vh_alloc) */
static void opv_make_heap (region_type_t *r, int size, int n, const box_type_t *b)
{
    int i;
    r->data = (region_data_type_t *) (malloc) (sizeof (region_data_type_t) + size * sizeof (box_type_t));
    VH_ASSUME (r->data != 0);
    r->data->size = size;
    r->data->numRects = n;
    for (i = 0; i < n; i++)
        PIXREGION_BOXPTR (r)[i] = b[i];
}

/* tight extents of a plain list (spec-side) */
static void opv_bbox (const box_type_t *b, int n, box_type_t *out)
{
    int i;
    *out = b[0];
    for (i = 1; i < n; i++)
    {
        if (b[i].x1 < out->x1) out->x1 = b[i].x1;
        if (b[i].y1 < out->y1) out->y1 = b[i].y1;
        if (b[i].x2 > out->x2) out->x2 = b[i].x2;
        if (b[i].y2 > out->y2) out->y2 = b[i].y2;
    }
}

/* release with the C library's free, not counted */
static void opv_release (region_type_t *r)
{
    if (r->data && r->data->size)
        (free) (r->data);
}

#endif
