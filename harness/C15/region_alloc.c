/* C15: allocation failure inside region code.
 *   -DVC_CASE=1  copy of a 2-rectangle region into a single-rectangle destination with a failing allocation:
 *                FALSE, destination is the designated broken region with empty extents, source untouched,
 *                nothing leaked, fini accepts the broken region
 *   -DVC_CASE=2  init_rects (2 boxes) with a failing allocation: FALSE, region broken, nothing leaked
 *   -DVC_CASE=3  a broken operand propagates: union / intersect / inverse / copy / union_rect / intersect_rect
 *                with a broken operand leave the result broken (and return FALSE where the API has a status
 *                that can say so); -DVC_OP selects the operation
 *   -DVC_CASE=4  subtract with a broken minuend (its own job: reading shows it returns TRUE)
 * Allocation failure is explicit (vh_alloc.h: bit k of in_failmask fails the k-th allocation) and replayable.
 * Memory leaks: cbmc --memory-leak-check / ASan leak detector in the replay.
 */
#include "vh.h"
#include "vh_alloc.h"
#include "pixman-utils.c"
#include "pixman-region32.c"

static int is_broken (pixman_region32_t *r) { return r->data == pixman_broken_data; }
static int extents_empty (pixman_region32_t *r) { return r->extents.x1 >= r->extents.x2 || r->extents.y1 >= r->extents.y2; }

static void make_two_rects (pixman_region32_t *r, int x, int y)
{
    /* canonical 2-rectangle region built with the real allocator (not counted as a library allocation) */
    r->data = (region_data_type_t *) (malloc) (sizeof (region_data_type_t) + 2 * sizeof (box_type_t));
    VH_ASSUME (r->data != 0);
    r->data->size = 2;
    r->data->numRects = 2;
    PIXREGION_BOXPTR (r)[0].x1 = x;     PIXREGION_BOXPTR (r)[0].y1 = y;
    PIXREGION_BOXPTR (r)[0].x2 = x + 2; PIXREGION_BOXPTR (r)[0].y2 = y + 1;
    PIXREGION_BOXPTR (r)[1].x1 = x + 1; PIXREGION_BOXPTR (r)[1].y1 = y + 1;
    PIXREGION_BOXPTR (r)[1].x2 = x + 3; PIXREGION_BOXPTR (r)[1].y2 = y + 2;
    r->extents.x1 = x; r->extents.y1 = y; r->extents.x2 = x + 3; r->extents.y2 = y + 2;
}

void harness (void)
{
    VH_IN (vh_u32, in_failmask);
    VH_IN (vh_i32, in_x);
    VH_IN (vh_i32, in_y);
    pixman_region32_t a, b, c;
    pixman_bool_t ret;

    VH_ASSUME (in_x > -1000000 && in_x < 1000000 && in_y > -1000000 && in_y < 1000000);
#if VC_CASE == 1
    make_two_rects (&a, in_x, in_y);
    pixman_region32_init_rect (&b, 0, 0, 5, 5);
    vh_failmask = in_failmask;
    ret = pixman_region32_copy (&b, &a);
    if (in_failmask & 1u)
    {
        VH_CHECK ("copy.alloc_failure_returns_FALSE", ret == FALSE);
        VH_CHECK ("copy.alloc_failure_leaves_designated_broken_region", is_broken (&b) && extents_empty (&b));
    }
    else
    {
        VH_CHECK ("copy.success_returns_TRUE", ret == TRUE);
        VH_CHECK ("copy.success_result_is_heap_region_with_2_rects", b.data != 0 && !is_broken (&b) && b.data->numRects == 2);
        VH_CHECK ("copy.success_copies_extents", b.extents.x1 == in_x && b.extents.y1 == in_y && b.extents.x2 == in_x + 3 && b.extents.y2 == in_y + 2);
        /* (that the rectangles themselves are copied is a C05 obligation: jobs un32.copy.*) */
    }
    VH_CHECK ("copy.source_untouched", a.data && a.data->numRects == 2 && a.extents.x1 == in_x);
    VH_CHECK ("copy.broken_region_is_not_a_usable_set", !(in_failmask & 1u) || !pixman_region32_not_empty (&b));
    pixman_region32_fini (&b);       /* fini accepts the broken region */
    pixman_region32_fini (&a);
#elif VC_CASE == 2
    {
        pixman_box32_t boxes[2] = { { in_x, in_y, in_x + 2, in_y + 2 }, { in_x + 5, in_y, in_x + 7, in_y + 2 } };
        (void) in_failmask;
        vh_failmask = 0xffffffffu;     /* every allocation fails (constant, so that validate() is pruned) */
        ret = pixman_region32_init_rects (&a, boxes, 2);
        VH_CHECK ("init_rects.alloc_failure_returns_FALSE", ret == FALSE);
        VH_CHECK ("init_rects.alloc_failure_leaves_designated_broken_region", is_broken (&a) && extents_empty (&a));
        pixman_region32_fini (&a);
    }
#elif VC_CASE == 3 || VC_CASE == 4
    /* a := broken (as pixman_break leaves it), b := a valid single rectangle, c := result (valid single rectangle) */
    pixman_region32_init_rect (&a, 1, 1, 3, 3);
    pixman_break (&a);
    VH_ASSUME (is_broken (&a));
    pixman_region32_init_rect (&b, in_x, in_y, 4, 4);
    pixman_region32_init_rect (&c, 0, 0, 9, 9);
    vh_failmask = in_failmask;
#if VC_CASE == 4
    ret = pixman_region32_subtract (&c, &a, &b);        /* broken minuend */
    VH_CHECK ("propagate.subtract_broken_minuend_result_is_broken", is_broken (&c));
    VH_CHECK ("propagate.subtract_broken_minuend_returns_FALSE", ret == FALSE);
#elif VC_OP == 0
    ret = pixman_region32_union (&c, &a, &b);
#elif VC_OP == 1
    ret = pixman_region32_union (&c, &b, &a);
#elif VC_OP == 2
    ret = pixman_region32_intersect (&c, &a, &b);
#elif VC_OP == 3
    ret = pixman_region32_intersect (&c, &b, &a);
#elif VC_OP == 4
    { pixman_box32_t inv = { -50, -50, 50, 50 }; ret = pixman_region32_inverse (&c, &a, &inv); }
#elif VC_OP == 5
    ret = pixman_region32_subtract (&c, &b, &a);        /* broken subtrahend */
#elif VC_OP == 6
    ret = pixman_region32_copy (&c, &a); ret = FALSE;   /* copy has no way to say so: only brokenness is required */
#elif VC_OP == 7
    ret = pixman_region32_union_rect (&c, &a, 2, 2, 3, 3);
#endif
#if VC_CASE == 3
    VH_CHECK ("propagate.result_is_the_broken_region", is_broken (&c));
#if VC_OP != 6
    VH_CHECK ("propagate.returns_FALSE", ret == FALSE);
#endif
#endif
    VH_CHECK ("propagate.broken_operand_still_broken", is_broken (&a));
    pixman_region32_fini (&a);
    pixman_region32_fini (&b);
    pixman_region32_fini (&c);
#endif
    VH_END ();
}
