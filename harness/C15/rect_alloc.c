/* C15 / C05: pixman_rect_alloc (pixman-region.c), the one function that creates or enlarges a rectangle array
 * (reached from pixman_op's size guess, the RECTALLOC growth in the band functions, validate, bitmap_addrect).
 *   -DVC_SHAPE=0  region with one inline rectangle (data == NULL)
 *   -DVC_SHAPE=1  empty region (static pixman_region_empty_data)
 *   -DVC_SHAPE=2  heap array of size VC_SIZE holding in_num <= VC_SIZE rectangles
 * Contract (explicit route-H harness; allocation failure by in_failmask, vh_alloc.h):
 *   TRUE  => heap array with room for numRects + n, the rectangles that were there are still there (ghost index, the
 *            inline rectangle becomes rects[0]), numRects as before (1 for the inline case), old array not leaked;
 *   FALSE => the designated broken region with empty extents, and EVERY block the region owned is released (no leak:
 *            live blocks == 0), nothing freed twice;
 *   FALSE only if an allocation failed.
 */
#include "vh.h"
#include "vh_alloc.h"
#include "pixman-utils.c"
#include "pixman-region32.c"

#ifndef VC_SIZE
#define VC_SIZE 3
#endif

void harness (void)
{
    VH_IN (vh_u32, in_failmask);
    VH_IN (vh_i32, in_n);
    VH_IN (vh_i32, in_num);
    VH_IN (vh_i32, in_g);
    VH_IN (vh_i32, in_x1); VH_IN (vh_i32, in_y1); VH_IN (vh_i32, in_x2); VH_IN (vh_i32, in_y2);
    pixman_region32_t r;
    pixman_box32_t gbox;
    pixman_bool_t ret;
    int old_num;

    VH_ASSUME (in_n >= 1 && in_n <= 4);
    gbox.x1 = in_x1; gbox.y1 = in_y1; gbox.x2 = in_x2; gbox.y2 = in_y2;
    r.extents.x1 = 0; r.extents.y1 = 0; r.extents.x2 = 100; r.extents.y2 = 100;
#if VC_SHAPE == 0
    r.data = (region_data_type_t *) 0;
    r.extents = gbox;
    old_num = 1;
    VH_ASSUME (in_g == 0);
#elif VC_SHAPE == 1
    r.data = pixman_region_empty_data;
    old_num = 0;
#else
    VH_ASSUME (in_num >= 0 && in_num <= VC_SIZE && in_g >= 0 && in_g < in_num);
    r.data = (region_data_type_t *) (malloc) (sizeof (region_data_type_t) + VC_SIZE * sizeof (box_type_t));   /* not a library allocation */
    VH_ASSUME (r.data != 0);
    r.data->size = VC_SIZE;
    r.data->numRects = in_num;
    PIXREGION_BOXPTR (&r)[in_g] = gbox;
    old_num = in_num;
#endif
    vh_failmask = in_failmask;

    ret = pixman_rect_alloc (&r, in_n);

    if (ret)
    {
        VH_CHECK ("rect_alloc.true.heap_array_with_room", r.data != 0 && r.data != pixman_region_empty_data && r.data != pixman_broken_data &&
                  r.data->size >= (long) old_num + in_n);
        VH_CHECK ("rect_alloc.true.rectangle_count_kept", r.data->numRects == old_num);
        if (old_num > 0)
            VH_CHECK ("rect_alloc.true.existing_rectangles_kept",
                      PIXREGION_BOXPTR (&r)[in_g].x1 == in_x1 && PIXREGION_BOXPTR (&r)[in_g].y1 == in_y1 &&
                      PIXREGION_BOXPTR (&r)[in_g].x2 == in_x2 && PIXREGION_BOXPTR (&r)[in_g].y2 == in_y2);
        (free) (r.data);
    }
    else
    {
        VH_CHECK ("rect_alloc.false.only_after_an_allocation_failure", vh_alloc_failed > 0);
        VH_CHECK ("rect_alloc.false.designated_broken_region", r.data == pixman_broken_data && r.extents.x1 >= r.extents.x2 && r.extents.y1 >= r.extents.y2);
    }
    /* --memory-leak-check / ASan: the old array must have been released on the failure path, and moved (not leaked) on success */
    VH_END ();
}
