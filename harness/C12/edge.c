/* C12 — edge stepping.  Real code: pixman-trap.c (pixman_edge_init, pixman_edge_step,
 * _pixman_edge_multi_init) and the RENDER_EDGE_STEP_SMALL/BIG macros of pixman-edge.c.
 *
 * Edge state (pixman_edge_t): x current abscissa, dy > 0 height of the edge,
 * signdx = s in {+1,-1}, per-unit step stepx and remainder dx with 0 <= dx < dy, error e.
 * Bresenham invariant:  -dy <= e <= 0.
 * Conservation: the quantity  x*dy + s*e  advances by exactly  n*(stepx*dy + s*dx)
 * when the edge advances n units in y, and  stepx*dy + s*dx == x_bot - x_top.
 * Stated WITHOUT wide products as the differential form
 *      exists nx >= 0:  x' == x + n*stepx + s*nx   and   e' == e + n*dx - nx*dy
 * (multiply the first by dy, add s times the second: the nx*dy terms cancel).
 *
 * VC_CASE 0: RENDER_EDGE_STEP_SMALL   1: RENDER_EDGE_STEP_BIG               (full width)
 *         2: _pixman_edge_multi_init, |stepx| < 2^14                        (full width otherwise)
 *         3: _pixman_edge_multi_init, any stepx: no signed overflow         (expected to fail: finding)
 *         4: pixman_edge_step  n >= 0      5: pixman_edge_step  n < 0       (reduced operand width VC_BITS)
 *         6: pixman_edge_init: branch structure, stepx*dy + s*dx == dx_total, e start, dy == 0 (full width)
 *         7: pixman_edge_init end to end == exact line position            (reduced operand width VC_BITS)
 */
#include "pixman-trap.c"
#undef RENDER_EDGE_STEP_SMALL
#undef RENDER_EDGE_STEP_BIG
#include "pixman-edge.c"
#include "spec_fixed.h"
#include "vh.h"

#ifndef VC_N
#define VC_N 4
#endif
#ifndef VC_BITS
#define VC_BITS 12
#endif
#ifndef VC_OBL
#define VC_OBL 0
#endif
#define LIM(b) ((sf_i64) 1 << (b))

#define EDGE_INPUTS()                                                                   \
    VH_IN (vh_i32, in_x); VH_IN (vh_i32, in_e); VH_IN (vh_i32, in_dy); VH_IN (vh_i32, in_dx);   \
    VH_IN (vh_i32, in_stepx); VH_IN (vh_i32, in_sign);                                  \
    pixman_edge_t ed;                                                                   \
    memset (&ed, 0, sizeof ed);                                                         \
    VH_ASSUME (in_dy > 0 && in_e >= -in_dy && in_e <= 0 && in_dx >= 0 && in_dx < in_dy); \
    VH_ASSUME (in_sign == 1 || in_sign == -1);                                          \
    ed.x = in_x; ed.e = in_e; ed.dy = in_dy; ed.dx = in_dx; ed.stepx = in_stepx; ed.signdx = in_sign

void harness (void)
{
#if VC_CASE == 0 || VC_CASE == 1
    EDGE_INPUTS ();
    VH_IN (vh_i32, in_stepn);
    VH_IN (vh_i32, in_dxn);
    pixman_edge_t *edge = &ed;
    int carry;
    /* multi-step elements as _pixman_edge_multi_init leaves them (case 2) */
    VH_ASSUME (in_dxn >= 0 && in_dxn < in_dy);
    /* the abscissa stays inside the coordinate type */
    VH_ASSUME (in_x > -LIM (30) && in_x < LIM (30) && in_stepn > -LIM (30) && in_stepn < LIM (30));
    ed.stepx_small = ed.stepx_big = in_stepn;
    ed.dx_small = ed.dx_big = in_dxn;
#if VC_CASE == 0
    RENDER_EDGE_STEP_SMALL (edge);
#else
    RENDER_EDGE_STEP_BIG (edge);
#endif
    carry = ((sf_i64) in_e + in_dxn > 0);
    VH_CHECK ("post.step_invariant_e", ed.e >= -in_dy && ed.e <= 0);
    VH_CHECK ("post.step_conserves_x", (sf_i64) ed.x == (sf_i64) in_x + in_stepn + carry * in_sign);
    VH_CHECK ("post.step_conserves_e", (sf_i64) ed.e == (sf_i64) in_e + in_dxn - (carry ? (sf_i64) in_dy : 0));
    VH_CHECK ("frame.step_keeps_slope", ed.dy == in_dy && ed.dx == in_dx && ed.stepx == in_stepx && ed.signdx == in_sign
              && ed.stepx_small == in_stepn && ed.dx_small == in_dxn && ed.stepx_big == in_stepn && ed.dx_big == in_dxn);
#elif VC_CASE == 2 || VC_CASE == 3
    EDGE_INPUTS ();
    VH_IN (vh_i32, in_big);
    pixman_fixed_t sp = 0, dp = 0;
    int n = in_big ? STEP_Y_BIG (VC_N) : STEP_Y_SMALL (VC_N);
    sf_i64 nx;
#if VC_CASE == 2
#ifdef VC_DYBITS
    VH_ASSUME (in_dy < LIM (VC_DYBITS));
#endif
    VH_ASSUME (in_stepx > -LIM (14) && in_stepx < LIM (14));
#else
    VH_ASSUME (in_stepx <= -LIM (14) || in_stepx >= LIM (14));
#endif
    _pixman_edge_multi_init (&ed, n, &sp, &dp);
    nx = ((sf_i64) sp - (sf_i64) n * in_stepx) * in_sign;
    VH_CHECK ("post.multi_dx_in_range", dp >= 0 && dp < in_dy);
    VH_CHECK ("post.multi_carries", nx >= 0 && nx <= n);
    VH_CHECK ("post.multi_conserves", (sf_i64) dp == (sf_i64) n * in_dx - nx * in_dy);
    VH_CHECK ("frame.multi_keeps_edge", ed.x == in_x && ed.e == in_e && ed.dy == in_dy && ed.dx == in_dx && ed.stepx == in_stepx);
#elif VC_CASE == 4 || VC_CASE == 5
    EDGE_INPUTS ();
    VH_IN (vh_i32, in_n);
    sf_i64 nx;
    VH_ASSUME (in_dy < LIM (VC_BITS) && in_x > -LIM (24) && in_x < LIM (24) && in_stepx > -LIM (VC_BITS) && in_stepx < LIM (VC_BITS));
#if VC_CASE == 4
    VH_ASSUME (in_n >= 0 && in_n < LIM (VC_BITS));
#else
    VH_ASSUME (in_n < 0 && in_n > -LIM (VC_BITS));
#endif
    pixman_edge_step (&ed, in_n);
    nx = ((sf_i64) ed.x - ((sf_i64) in_x + (sf_i64) in_n * in_stepx)) * in_sign;
#if VC_OBL == 1
    /* own job: fails on the unchanged tree (the accumulated error is dropped when no carry occurs) */
    VH_CHECK ("post.edge_step_conserves", (sf_i64) ed.e == (sf_i64) in_e + (sf_i64) in_n * in_dx - nx * in_dy);
#else
    VH_CHECK ("post.edge_step_invariant_e", ed.e >= -in_dy && ed.e <= 0);
    /* weaker than conservation, holds: e' is congruent to e + n*dx modulo dy OR unchanged */
    VH_CHECK ("post.edge_step_carry_sign", in_n >= 0 ? nx >= 0 : nx <= 0);
    /* after a carry the error is the canonical remainder: -dy < e <= 0 */
    VH_CHECK ("post.edge_step_e_canonical_after_carry", nx == 0 || ed.e > -in_dy);
    VH_CHECK ("frame.edge_step_keeps_slope", ed.dy == in_dy && ed.dx == in_dx && ed.stepx == in_stepx && ed.signdx == in_sign);
#endif
#elif VC_CASE == 6
    VH_IN (vh_i32, in_xt); VH_IN (vh_i32, in_yt); VH_IN (vh_i32, in_xb); VH_IN (vh_i32, in_yb);
    pixman_edge_t ed;
    sf_i64 dxt = (sf_i64) in_xb - in_xt, dyt = (sf_i64) in_yb - in_yt;
    memset (&ed, 0, sizeof ed);
    /* callers order the end points (top above bottom); differences must fit the coordinate type */
    VH_ASSUME (dyt >= 0 && dyt <= SF_FIXED_MAX && dxt >= SF_FIXED_MIN + 1 && dxt <= SF_FIXED_MAX);
#ifdef VC_DYBITS
    VH_ASSUME (dyt < LIM (VC_DYBITS) && dxt < LIM (VC_DYBITS + 13) && dxt > -LIM (VC_DYBITS + 13));
#endif
    /* y_start == y_top: pixman_edge_step (e, 0) must be the identity */
    pixman_edge_init (&ed, VC_N, in_yt, in_xt, in_yt, in_xb, in_yb);
    VH_CHECK ("post.init_dy", ed.dy == dyt);
    VH_CHECK ("post.init_x_at_top", ed.x == in_xt);
    if (dyt > 0)
    {
        VH_CHECK ("post.init_sign", ed.signdx == (dxt >= 0 ? 1 : -1));
        VH_CHECK ("post.init_dx_in_range", ed.dx >= 0 && ed.dx < ed.dy);
        VH_CHECK ("post.init_slope_exact", (sf_i64) ed.stepx * dyt + (sf_i64) ed.signdx * ed.dx == dxt);
        VH_CHECK ("post.init_e", ed.e == (dxt >= 0 ? -dyt : 0));
        VH_CHECK ("post.init_small_in_range", ed.dx_small >= 0 && ed.dx_small < ed.dy && ed.dx_big >= 0 && ed.dx_big < ed.dy);
    }
    else
        VH_CHECK ("post.init_horizontal", ed.dx == 0 && ed.e == 0);
#elif VC_CASE == 7
    VH_IN (vh_i32, in_xt); VH_IN (vh_i32, in_yt); VH_IN (vh_i32, in_xb); VH_IN (vh_i32, in_yb); VH_IN (vh_i32, in_ys);
    pixman_edge_t ed;
    sf_i64 dxt = (sf_i64) in_xb - in_xt, dyt = (sf_i64) in_yb - in_yt, n = (sf_i64) in_ys - in_yt;
    memset (&ed, 0, sizeof ed);
    VH_ASSUME (in_xt > -LIM (VC_BITS) && in_xt < LIM (VC_BITS) && in_xb > -LIM (VC_BITS) && in_xb < LIM (VC_BITS));
    VH_ASSUME (in_yt > -LIM (VC_BITS) && in_yt < LIM (VC_BITS) && in_yb > -LIM (VC_BITS) && in_yb < LIM (VC_BITS));
    VH_ASSUME (dyt > 0 && n >= 0 && n <= dyt);
    pixman_edge_init (&ed, VC_N, in_ys, in_xt, in_yt, in_xb, in_yb);
    /* exact line: X(y) = x_top + n*dxt/dyt.  The walker holds X rounded:
     *   s = +1:  x*dy + e == x_top*dy + n*dxt - dy,  -dy <= e <= 0   (x in [X-1, X])
     *   s = -1:  x*dy - e == x_top*dy + n*dxt,       -dy <  e <= 0   (x == floor X)   */
    VH_CHECK ("post.init_invariant_e", ed.e >= -dyt && ed.e <= 0);
    if (dxt >= 0)
        VH_CHECK ("post.init_on_line_right", (sf_i64) ed.x * dyt + ed.e == (sf_i64) in_xt * dyt + n * dxt - dyt);
    else
        VH_CHECK ("post.init_on_line_left", (sf_i64) ed.x * dyt - ed.e == (sf_i64) in_xt * dyt + n * dxt && ed.e > -dyt);
#endif
    VH_END ();
}
