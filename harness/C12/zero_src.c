/* C12 (lead): pixman_composite_trapezoids restricts the composite to the trapezoids' bounding box exactly for the
 * operators marked in zero_src_has_no_effect[] (pixman-trap.c).  That is only equal to "rasterise into a mask and
 * composite over the whole destination" if, for such an operator, a pixel whose mask is ZERO is left unchanged.
 * Decided on the REAL table and the REAL 8-bit combiner of the operator: for every source s and destination d,
 *        table[op]  ==>  combine_<op>_u (d, s, mask alpha 0) == d
 * -DVC_OPA=<PIXMAN_OP_ suffix> -DVC_FN=<combiner>.  One pixel, all values.  (FALSE entries are conservative.)
 */
#include "pixman-combine32.c"
#include "pixman-trap.c"
#include "vh.h"

#define VC_CAT2(a, b) a##b
#define VC_CAT(a, b) VC_CAT2 (a, b)
#define OPA VC_CAT (PIXMAN_OP_, VC_OPA)

void harness (void)
{
    VH_IN (vh_u32, in_s);
    VH_IN (vh_u32, in_m);
    VH_IN (vh_u32, in_d);
    uint32_t dest[1] = { in_d }, src[1] = { in_s }, mask[1] = { in_m & 0x00ffffff };   /* coverage 0 */

    VC_FN ((pixman_implementation_t *) 0, OPA, dest, src, mask, 1);
    if (zero_src_has_no_effect[OPA])
        VH_CHECK ("zero_src.marked_operator_leaves_uncovered_pixel_unchanged", dest[0] == in_d);
    VH_CHECK ("zero_src.table_covers_operator", (unsigned) OPA < PIXMAN_N_OPERATORS);
    VH_END ();
}
