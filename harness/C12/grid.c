/* C12 — the sample grid: literals of spec_fixed.h == their definition == the
 * code's macros; pixman_sample_ceil_y / pixman_sample_floor_y; RENDER_SAMPLES_X.
 * VC_N in {1,4,8};  VC_CASE: 0 grid lemma, 1 ceil_y, 2 floor_y (no grid row
 * missing below), 3 floor_y at the bottom of the coordinate range, 4 RENDER_SAMPLES_X,
 * 5 floor/ceil adjacency (rows partition at a shared horizontal line). */
#include "pixman-trap.c"
#include "spec_fixed.h"
#include "vh.h"

#define N VC_N

void harness (void)
{
#if VC_CASE == 0
    /* definition (property text): N = 2^(n/2) -/+ 1, step = floor(65536/N), big = 65536-(N-1)*step, first = big/2 */
    VH_CHECK ("lemma.NY_def", SF_NY (N) == (N == 1 ? 1 : (1 << (N / 2)) - 1));
    VH_CHECK ("lemma.NX_def", SF_NX (N) == (N == 1 ? 1 : (1 << (N / 2)) + 1));
    VH_CHECK ("lemma.samples_per_pixel_is_full_coverage", SF_NX (N) * SF_NY (N) == SF_MAXA (N) && SF_MAXA (N) == (1 << N) - 1);
    VH_CHECK ("lemma.step_y_def", SF_STEP_Y (N) == 65536 / SF_NY (N) && SF_BIG_Y (N) == 65536 - (SF_NY (N) - 1) * SF_STEP_Y (N));
    VH_CHECK ("lemma.first_y_def", SF_Y_FIRST (N) == SF_BIG_Y (N) / 2 && SF_Y_LAST (N) == SF_Y_FIRST (N) + (SF_NY (N) - 1) * SF_STEP_Y (N));
    VH_CHECK ("lemma.step_x_def", SF_STEP_X (N) == 65536 / SF_NX (N) && SF_BIG_X (N) == 65536 - (SF_NX (N) - 1) * SF_STEP_X (N));
    VH_CHECK ("lemma.first_x_def", SF_X_FIRST (N) == SF_BIG_X (N) / 2);
    VH_CHECK ("lemma.x_phase", SF_X_PHASE (N) == (N == 1 ? SF_X_FIRST (N) : SF_X_FIRST (N) - 2));
    VH_CHECK ("lemma.rows_inside_pixel", SF_ROW (N, 0) > 0 && SF_ROW (N, SF_NY (N) - 1) < 65536 && SF_ROW (N, SF_NY (N) - 1) == SF_Y_LAST (N));
    VH_CHECK ("lemma.cols_inside_pixel", SF_COL (N, 0) > 0 && SF_COL (N, SF_NX (N) - 1) < 65535);
    /* the code's macros give the same grid */
    VH_CHECK ("code.N_Y_FRAC", N_Y_FRAC (N) == SF_NY (N));
    VH_CHECK ("code.N_X_FRAC", N_X_FRAC (N) == SF_NX (N));
    VH_CHECK ("code.MAX_ALPHA", MAX_ALPHA (N) == SF_MAXA (N));
    VH_CHECK ("code.STEP_Y", STEP_Y_SMALL (N) == SF_STEP_Y (N) && STEP_Y_BIG (N) == SF_BIG_Y (N));
    VH_CHECK ("code.Y_FRAC", Y_FRAC_FIRST (N) == SF_Y_FIRST (N) && Y_FRAC_LAST (N) == SF_Y_LAST (N));
    VH_CHECK ("code.STEP_X", STEP_X_SMALL (N) == SF_STEP_X (N) && STEP_X_BIG (N) == SF_BIG_X (N));
    VH_CHECK ("code.X_FRAC_FIRST", X_FRAC_FIRST (N) == SF_X_FIRST (N));
    {
        /* spec-level: ON_ROW <=> one of the N rows; PREV/NEXT are inverse and adjacent */
        VH_IN (vh_i32, in_y);
        int k, hit = 0;
        for (k = 0; k < SF_NY (N); k++)
            hit |= (SF_FRAC (in_y) == SF_ROW (N, k));
        VH_CHECK ("lemma.on_row_iff_listed", (SF_ON_ROW (N, in_y) != 0) == (hit != 0));
        if (SF_ON_ROW (N, in_y))
        {
            sf_i64 p = SF_PREV_ROW (N, in_y), q = SF_NEXT_ROW (N, in_y);
            VH_CHECK ("lemma.prev_next_on_grid", SF_ON_ROW (N, p) && SF_ON_ROW (N, q));
            VH_CHECK ("lemma.prev_next_inverse", SF_NEXT_ROW (N, p) == in_y && SF_PREV_ROW (N, q) == in_y);
        }
    }
#elif VC_CASE == 1
    VH_IN (vh_i32, in_y);
    pixman_fixed_t r = pixman_sample_ceil_y (in_y, N);
    if ((sf_i64) in_y <= SF_ROW_MAX (N))
        VH_CHECK ("post.ceil_y_is_smallest_grid_row_ge_y", SF_IS_CEIL_ROW (N, in_y, r));
    else /* no representable grid row >= y: saturate at the top of the coordinate range */
        VH_CHECK ("post.ceil_y_saturates", r == 0x7fffffff);
#elif VC_CASE == 2
    VH_IN (vh_i32, in_y);
    VH_ASSUME ((sf_i64) in_y > SF_ROW_MIN (N));
    pixman_fixed_t r = pixman_sample_floor_y (in_y, N);
    VH_CHECK ("post.floor_y_is_largest_grid_row_lt_y", SF_IS_FLOOR_ROW (N, in_y, r));
#elif VC_CASE == 3
    /* y so low that no representable grid row lies below it: documented "saturate" (f = 0) */
    VH_IN (vh_i32, in_y);
    VH_ASSUME ((sf_i64) in_y <= SF_ROW_MIN (N));
    pixman_fixed_t r = pixman_sample_floor_y (in_y, N);
    VH_CHECK ("post.floor_y_saturates", r == -2147483647 - 1);
#elif VC_CASE == 4
    VH_IN (vh_i32, in_x);
    int s = RENDER_SAMPLES_X (in_x, N);
#if N == 1
    VH_CHECK ("post.samples_x_a1_is_zero", s == 0);
#elif N == 4
    VH_CHECK ("post.samples_x_is_columns_left_of_x", s == SF_BELOW_4 (SF_FRAC (in_x)));
#else
    VH_CHECK ("post.samples_x_is_columns_left_of_x", s == SF_BELOW_8 (SF_FRAC (in_x)));
#endif
    VH_CHECK ("post.samples_x_range", 0 <= s && s <= SF_NX (N));
    VH_CHECK ("post.samples_x_is_count_in_pixel", s == SF_COUNT (N, SF_INT (in_x), SF_FLOOR (in_x), in_x) || N == 1);
#elif VC_CASE == 5
    /* rows of [top, y) and [y, bottom) partition the rows of [top, bottom):
     * floor_y (y) is the grid row immediately before ceil_y (y) */
    VH_IN (vh_i32, in_y);
    VH_ASSUME ((sf_i64) in_y > SF_ROW_MIN (N) && (sf_i64) in_y <= SF_ROW_MAX (N));
    pixman_fixed_t c = pixman_sample_ceil_y (in_y, N);
    pixman_fixed_t f = pixman_sample_floor_y (in_y, N);
    VH_CHECK ("post.floor_then_ceil_adjacent", SF_ON_ROW (N, f) && SF_NEXT_ROW (N, f) == c && f < in_y && in_y <= c);
#endif
    VH_END ();
}
