/* C12 — pixman_rasterize_trapezoid / pixman_add_traps: which sample rows are handed to
 * the row rasteriser, and with which edges.  pixman_rasterize_edges is replaced
 * by a recording stub (its row contract is harness row.c); everything else in
 * pixman-trap.c is the real code.
 *
 * Property: a trapezoid [top, bottom) shifted by (x_off, y_off) whole pixels covers the
 * grid rows y of the image (0 <= y < height) with top' <= y < bottom'  (top inclusive,
 * bottom exclusive).  So: rasterize_edges is called iff such a row exists, exactly
 * once, with t = the first and b = the last such row, and with edge walkers
 * positioned at row t on the shifted left and right lines.
 *
 *  VC_CASE 0 pixman_rasterize_trapezoid   1 pixman_add_traps (one trap)
 *  VC_GEOM 0 vertical edges, all coordinates       1 slanted edges, coordinates of VC_BITS bits
 */
#include "pixman-trap.c"
#include "spec_fixed.h"
#include "vh.h"

#define N VC_N
#if N == 1
#define FMT PIXMAN_a1
#elif N == 4
#define FMT PIXMAN_a4
#else
#define FMT PIXMAN_a8
#endif
#ifndef VC_BITS
#define VC_BITS 8
#endif
#ifndef VC_SHIFT
#define VC_SHIFT 0
#endif
#ifndef VC_LOWB
#define VC_LOWB 0
#endif
#ifndef VC_BELOW
#define VC_BELOW 0
#endif
#define LIM(b) ((sf_i64) 1 << (b))

/* ---- surroundings: stubs ---- */
static int rec_calls, rec_validated;
static pixman_image_t *rec_image;
static pixman_edge_t rec_l, rec_r;
static pixman_fixed_t rec_t, rec_b;

void pixman_rasterize_edges (pixman_image_t *image, pixman_edge_t *l, pixman_edge_t *r, pixman_fixed_t t, pixman_fixed_t b)
{
    rec_calls++;
    rec_image = image;
    rec_l = *l;
    rec_r = *r;
    rec_t = t;
    rec_b = b;
}
void _pixman_image_validate (pixman_image_t *image) { rec_validated++; }
void _pixman_log_error (const char *function, const char *message) { }
/* referenced by pixman_composite_trapezoids / convert_triangles only: never reached here */
pixman_image_t *pixman_image_create_bits (pixman_format_code_t f, int w, int h, uint32_t *b, int s) { __CPROVER_assert (0, "stub.unreachable"); return 0; }
void pixman_image_composite (pixman_op_t op, pixman_image_t *s, pixman_image_t *m, pixman_image_t *d, int16_t a, int16_t b, int16_t c,
                             int16_t e, int16_t f, int16_t g, uint16_t w, uint16_t h) { __CPROVER_assert (0, "stub.unreachable"); }
pixman_bool_t pixman_image_unref (pixman_image_t *image) { __CPROVER_assert (0, "stub.unreachable"); return 0; }
void *pixman_malloc_ab (unsigned int a, unsigned int b) { __CPROVER_assert (0, "stub.unreachable"); return 0; }

static int same_edge (const pixman_edge_t *a, const pixman_edge_t *b)
{
    return a->x == b->x && a->e == b->e && a->stepx == b->stepx && a->signdx == b->signdx && a->dy == b->dy && a->dx == b->dx
           && a->stepx_small == b->stepx_small && a->stepx_big == b->stepx_big && a->dx_small == b->dx_small && a->dx_big == b->dx_big;
}

void harness (void)
{
    pixman_image_t im;
    VH_IN (vh_i32, in_height);
    VH_IN (vh_i32, in_top); VH_IN (vh_i32, in_bottom);
    VH_IN (vh_i32, in_l1x); VH_IN (vh_i32, in_l1y); VH_IN (vh_i32, in_l2x); VH_IN (vh_i32, in_l2y);
    VH_IN (vh_i32, in_r1x); VH_IN (vh_i32, in_r1y); VH_IN (vh_i32, in_r2x); VH_IN (vh_i32, in_r2y);
    VH_IN (vh_i32, in_xoff); VH_IN (vh_i32, in_yoff);
    sf_i64 T, B, xo, yo, lo, hi;
    int valid;

    memset (&im, 0, sizeof im);
    im.type = BITS;
    im.bits.format = FMT;
    im.bits.width = 100;
    im.bits.height = in_height;
    VH_ASSUME (in_height >= 1 && in_height <= 32767);
    VH_ASSUME (in_xoff >= -32768 && in_xoff <= 32767 && in_yoff >= -32768 && in_yoff <= 32767);
    xo = (sf_i64) in_xoff * SF_ONE;
    yo = (sf_i64) in_yoff * SF_ONE;
    /* shifted coordinates stay inside the 16.16 coordinate type (else the shifted shape is not representable) */
    VH_ASSUME (in_top + yo >= SF_FIXED_MIN && in_top + yo <= SF_FIXED_MAX && in_bottom + yo >= SF_FIXED_MIN && in_bottom + yo <= SF_FIXED_MAX);
    VH_ASSUME (in_l1y + yo >= SF_FIXED_MIN && in_l1y + yo <= SF_FIXED_MAX && in_l2y + yo >= SF_FIXED_MIN && in_l2y + yo <= SF_FIXED_MAX);
    VH_ASSUME (in_r1y + yo >= SF_FIXED_MIN && in_r1y + yo <= SF_FIXED_MAX && in_r2y + yo >= SF_FIXED_MIN && in_r2y + yo <= SF_FIXED_MAX);
    VH_ASSUME (in_l1x + xo >= SF_FIXED_MIN && in_l1x + xo <= SF_FIXED_MAX && in_l2x + xo >= SF_FIXED_MIN && in_l2x + xo <= SF_FIXED_MAX);
    VH_ASSUME (in_r1x + xo >= SF_FIXED_MIN && in_r1x + xo <= SF_FIXED_MAX && in_r2x + xo >= SF_FIXED_MIN && in_r2x + xo <= SF_FIXED_MAX);
    /* edge heights fit the coordinate type (pixman_edge_init computes y_bot - y_top in int32) */
    VH_ASSUME ((sf_i64) in_l1y - in_l2y <= SF_FIXED_MAX && (sf_i64) in_l2y - in_l1y <= SF_FIXED_MAX);
    VH_ASSUME ((sf_i64) in_r1y - in_r2y <= SF_FIXED_MAX && (sf_i64) in_r2y - in_r1y <= SF_FIXED_MAX);
    /* an edge starts less than 32768 pixels above the last image row (pixman_edge_init computes y_start - y_top in int32) */
    VH_ASSUME ((sf_i64) in_height * SF_ONE - (in_l1y + yo) <= SF_FIXED_MAX && (sf_i64) in_height * SF_ONE - (in_l2y + yo) <= SF_FIXED_MAX);
    VH_ASSUME ((sf_i64) in_height * SF_ONE - (in_r1y + yo) <= SF_FIXED_MAX && (sf_i64) in_height * SF_ONE - (in_r2y + yo) <= SF_FIXED_MAX);
#if VC_LOWB
    /* own job (fails on the unchanged tree): shifted bottom at the very bottom of the coordinate range */
    VH_ASSUME (in_bottom + yo <= SF_ROW_MIN (N));
#else
    VH_ASSUME (in_bottom + yo > SF_ROW_MIN (N));
#endif
#if VC_GEOM == 0
    VH_ASSUME (in_l1x == in_l2x && in_r1x == in_r2x);
    {
        /* upper end point of each edge line relative to the first covered row */
        sf_i64 ltop = (in_l1y < in_l2y ? in_l1y : in_l2y) + yo, rtop = (in_r1y < in_r2y ? in_r1y : in_r2y) + yo;
        sf_i64 first = in_top + yo < 0 ? 0 : in_top + yo;
#if VC_BELOW
        /* own job (fails on the unchanged tree): an edge line that starts below the first covered row (extrapolated upwards) */
        VH_ASSUME (ltop > first || rtop > first);
#else
        VH_ASSUME (ltop <= first && rtop <= first);
#endif
    }
#else
    /* bounded geometry: every coordinate is v << VC_SHIFT with |v| < 2^VC_BITS (spans +-2 pixels for 6/11) */
#define SMALL(v) ((v) > -(LIM (VC_BITS) << VC_SHIFT) && (v) < (LIM (VC_BITS) << VC_SHIFT) && ((v) & ((1 << VC_SHIFT) - 1)) == 0)
    VH_ASSUME (SMALL (in_l1x) && SMALL (in_l2x) && SMALL (in_r1x) && SMALL (in_r2x));
    VH_ASSUME (SMALL (in_l1y) && SMALL (in_l2y) && SMALL (in_r1y) && SMALL (in_r2y));
    VH_ASSUME (SMALL (in_top) && SMALL (in_bottom));
    VH_ASSUME (in_xoff == 0 || in_xoff == 1 || in_xoff == -3);
    VH_ASSUME (in_yoff >= -1 && in_yoff <= 1);
#endif

#if VC_CASE == 0
    {
        pixman_trapezoid_t trap;
        trap.top = in_top; trap.bottom = in_bottom;
        trap.left.p1.x = in_l1x; trap.left.p1.y = in_l1y; trap.left.p2.x = in_l2x; trap.left.p2.y = in_l2y;
        trap.right.p1.x = in_r1x; trap.right.p1.y = in_r1y; trap.right.p2.x = in_r2x; trap.right.p2.y = in_r2y;
        valid = in_l1y != in_l2y && in_r1y != in_r2y && in_bottom > in_top;
        pixman_rasterize_trapezoid (&im, &trap, in_xoff, in_yoff);
    }
#else
    {
        /* pixman_trap_t: two horizontal spans; the left edge is (top.l,top.y)-(bot.l,bot.y), the right one (top.r,top.y)-(bot.r,bot.y) */
        pixman_trap_t tr;
        VH_ASSUME (in_l1y == in_top && in_r1y == in_top && in_l2y == in_bottom && in_r2y == in_bottom);
        VH_ASSUME ((sf_i64) in_bottom - in_top >= 0);
        tr.top.l = in_l1x; tr.top.r = in_r1x; tr.top.y = in_top;
        tr.bot.l = in_l2x; tr.bot.r = in_r2x; tr.bot.y = in_bottom;
        valid = 1;
        pixman_add_traps (&im, (int16_t) in_xoff, (int16_t) in_yoff, 1, &tr);
    }
#endif
    T = in_top + yo;
    B = in_bottom + yo;
    lo = T < 0 ? 0 : T;                                            /* first y of the image is 0 */
    hi = B > (sf_i64) in_height * SF_ONE ? (sf_i64) in_height * SF_ONE : B;   /* rows of the image end before height */

    if (rec_calls)
    {
        VH_CHECK ("post.only_valid_trapezoids_are_drawn", valid);
        VH_CHECK ("post.called_once", rec_calls == 1 && rec_image == &im);
        VH_CHECK ("post.t_is_first_covered_row", SF_IS_CEIL_ROW (N, lo, rec_t));
        VH_CHECK ("post.b_is_last_covered_row", SF_IS_FLOOR_ROW (N, hi, rec_b));
        VH_CHECK ("post.rows_inside_image", rec_t >= 0 && SF_INT (rec_b) < in_height && rec_t <= rec_b);
#if VC_GEOM == 1
        {
            /* edge walkers: the real pixman_edge_init (contract: harness edge.c) on the independently shifted, y-ordered end points, started at row t */
            pixman_edge_t el, er;
            int lswap = in_l1y > in_l2y, rswap = in_r1y > in_r2y;
            memset (&el, 0, sizeof el);
            memset (&er, 0, sizeof er);
            pixman_edge_init (&el, N, rec_t, (int) ((lswap ? in_l2x : in_l1x) + xo), (int) ((lswap ? in_l2y : in_l1y) + yo),
                              (int) ((lswap ? in_l1x : in_l2x) + xo), (int) ((lswap ? in_l1y : in_l2y) + yo));
            pixman_edge_init (&er, N, rec_t, (int) ((rswap ? in_r2x : in_r1x) + xo), (int) ((rswap ? in_r2y : in_r1y) + yo),
                              (int) ((rswap ? in_r1x : in_r2x) + xo), (int) ((rswap ? in_r1y : in_r2y) + yo));
            VH_CHECK ("post.left_walker", same_edge (&rec_l, &el));
            VH_CHECK ("post.right_walker", same_edge (&rec_r, &er));
        }
#else
        /* vertical edges, full coordinate range: the walkers sit on the shifted verticals */
        VH_CHECK ("post.left_walker_x", (sf_i64) rec_l.x == in_l1x + xo && rec_l.stepx == 0 && rec_l.dx == 0 && rec_l.stepx_small == 0 && rec_l.stepx_big == 0);
        VH_CHECK ("post.right_walker_x", (sf_i64) rec_r.x == in_r1x + xo && rec_r.stepx == 0 && rec_r.dx == 0 && rec_r.stepx_small == 0 && rec_r.stepx_big == 0);
        /* end points ordered by y: the walker height is positive */
        VH_CHECK ("post.walker_heights", (sf_i64) rec_l.dy == (in_l1y > in_l2y ? (sf_i64) in_l1y - in_l2y : (sf_i64) in_l2y - in_l1y)
                  && (sf_i64) rec_r.dy == (in_r1y > in_r2y ? (sf_i64) in_r1y - in_r2y : (sf_i64) in_r2y - in_r1y));
#endif
    }
    else
    {
        /* nothing drawn: invalid, or no grid row of the image in [top', bottom') */
        sf_i64 c = pixman_sample_ceil_y ((int) lo, N);            /* contract: harness grid.c (lo <= SF_ROW_MAX here) */
        VH_CHECK ("post.skipped_only_if_no_row", !valid || !(c < hi));
    }
    VH_CHECK ("frame.image_validated", rec_validated == 1 || (VC_CASE == 0 && !valid));
#if defined(VH_CBMC) && VC_GEOM == 1
    /* vacuity guard: the canary below must be reachable THROUGH a recorded call (the bounded domain contains covered rows) */
    VH_ASSUME (rec_calls == 1);
#endif
    VH_END ();
}
