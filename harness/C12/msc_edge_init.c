/* C12 (extension msc): pixman_edge_init positions the walker ON THE INFINITE LINE through its two end points, at
 * the row y_start -- whether y_start lies below the upper end point (forward step), on it, or ABOVE it (the line is
 * extrapolated upwards: backward step, seed C12-1 dropped exactly that).
 *
 *   -DVC_DIR=0   y_start >= y_top        =1   y_start < y_top (upper end point below the first sample row)
 *   -DVC_OBL=0   the obligations that hold for every input (below)
 *           =1   own job, FAILS on the pinned tree for every input of its class: the strict reading at grid hits
 *   -DVC_BITS=b  |x_top|, |x_bot|, |y_top|, |y_bot|, |y_start| < 2^b   (reduced operand width of the products)
 *
 * Specification, from the property text ("samples inside the geometric trapezoid", "the same shape given by other
 * collinear end points gives the same image") and the documented state of pixman_edge_t (x = current abscissa,
 * Bresenham error e with -dy <= e <= 0), independent of how the code steps:
 *   exact abscissa of the line at y_start:  X = x_top + (y_start - y_top) * DX / DY  with DX = x_bot - x_top,
 *   DY = y_bot - y_top > 0, a rational number.  The walker abscissa is X rounded DOWN to the 16.16 grid:
 *       DX <  0 :  x == floor (X)                       i.e.  x*DY <= Q <  (x+1)*DY,   Q = x_top*DY + n*DX
 *       DX >= 0 :  x == floor (X) when X is off the grid, x in {X-1, X} when X is on the grid
 *                                                        i.e.  x*DY <= Q <= (x+1)*DY
 *   (for DX >= 0 the error term starts at -dy, "one full step pending": a grid hit is representable as (X, -dy) and
 *   as (X-1, 0); which of the two the pinned tree produces depends on the end points -- see VC_OBL=1.)
 * stated with products only (no division in the specification).
 * VC_FORM=0 (default) states this in DIFFERENTIAL form, the way harness edge.c states conservation, because the
 * direct product form does not finish beyond 4-bit coordinates: with the slope fields the same call leaves in the
 * edge (post.init_slope: stepx*DY + signdx*dx == DX, 0 <= dx < DY) put  nx := signdx * (x - x_top - n*stepx);  then
 *       Q - x*DY == x_top*DY + n*(stepx*DY + signdx*dx) - (x_top + n*stepx + signdx*nx)*DY == signdx*(n*dx - nx*DY)
 * (hand algebra, a polynomial identity), so the rule above is   DX >= 0:  0 <= n*dx - nx*DY <= DY,
 *                                                             DX <  0:  0 <= nx*DY - n*dx <  DY.
 * VC_FORM=1 is the direct product form (jobs at 4-bit coordinates: machine cross-check of the hand algebra).
 *   post.init_x_is_line_position_rounded_down      the above
 *   post.init_error_in_range                       -dy <= e <= 0
 *   post.init_slope                                dy == DY, signdx == sign, 0 <= dx < dy, stepx*DY + signdx*dx == DX
 * VC_OBL=1 (finding): "a grid hit gives x == X for every choice of end points" on the class where the pinned tree
 * gives X-1:  DX >= 0 and ( n < 0  [VC_DIR=1]   or   n > 0 and DY does not divide DX  [VC_DIR=0] ).
 */
#include "pixman-trap.c"
#include "vh.h"

#ifndef VC_N
#define VC_N 4
#endif
#ifndef VC_BITS
#define VC_BITS 10
#endif
#ifndef VC_DIR
#define VC_DIR 0
#endif
#ifndef VC_OBL
#define VC_OBL 0
#endif
#ifndef VC_FORM
#define VC_FORM 0
#endif
#ifndef VC_PART
#define VC_PART 0          /* 0 all obligations, 1 only the abscissa, 2 only error term and slope fields (one query each at 10+ bits) */
#endif
#define LIM(b) ((int64_t) 1 << (b))
/* specification arithmetic: |DX|, |DY|, |n| < 2^(b+1), a walker on the line has |x| < 2^b + 2^(2b+2), so every product
 * below is < 2^(3b+5): 32-bit arithmetic is exact for b <= 8 once post.init_x_in_range holds (the narrower
 * multipliers are what makes the query tractable), 64-bit beyond */
#if VC_BITS <= 8
typedef int32_t msc_int;
#else
typedef int64_t msc_int;
#endif

/* surroundings of pixman-trap.c that pixman_edge_init never reaches */
void pixman_rasterize_edges (pixman_image_t *image, pixman_edge_t *l, pixman_edge_t *r, pixman_fixed_t t, pixman_fixed_t b) { __CPROVER_assert (0, "stub.unreachable"); }
void _pixman_image_validate (pixman_image_t *image) { __CPROVER_assert (0, "stub.unreachable"); }
void _pixman_log_error (const char *function, const char *message) { }
pixman_image_t *pixman_image_create_bits (pixman_format_code_t f, int w, int h, uint32_t *b, int s) { __CPROVER_assert (0, "stub.unreachable"); return 0; }
void pixman_image_composite (pixman_op_t op, pixman_image_t *s, pixman_image_t *m, pixman_image_t *d, int16_t a, int16_t b, int16_t c,
                             int16_t e, int16_t f, int16_t g, uint16_t w, uint16_t h) { __CPROVER_assert (0, "stub.unreachable"); }
pixman_bool_t pixman_image_unref (pixman_image_t *image) { __CPROVER_assert (0, "stub.unreachable"); return 0; }
void *pixman_malloc_ab (unsigned int a, unsigned int b) { __CPROVER_assert (0, "stub.unreachable"); return 0; }

void harness (void)
{
    VH_IN (vh_i32, in_xt); VH_IN (vh_i32, in_yt); VH_IN (vh_i32, in_xb); VH_IN (vh_i32, in_yb); VH_IN (vh_i32, in_ys);
    pixman_edge_t ed;
    msc_int DX, DY, n, Q, x;

    VH_ASSUME (in_xt > -LIM (VC_BITS) && in_xt < LIM (VC_BITS) && in_xb > -LIM (VC_BITS) && in_xb < LIM (VC_BITS));
    VH_ASSUME (in_yt > -LIM (VC_BITS) && in_yt < LIM (VC_BITS) && in_yb > -LIM (VC_BITS) && in_yb < LIM (VC_BITS));
    VH_ASSUME (in_ys > -LIM (VC_BITS) && in_ys < LIM (VC_BITS));
    DX = (msc_int) in_xb - in_xt;
    DY = (msc_int) in_yb - in_yt;
    n = (msc_int) in_ys - in_yt;
    /* callers hand over the end points ordered by y, and never a horizontal line (valid trapezoid / pixman_add_traps) */
    VH_ASSUME (DY > 0);
#if VC_DIR == 0
    VH_ASSUME (n >= 0);
#else
    VH_ASSUME (n < 0);
#endif
    Q = (msc_int) in_xt * DY + n * DX;
#if VC_OBL == 1
    /* the class of the finding: grid hit of a line that does not lean left, reached by extrapolating upwards, or
     * reached downwards with a fractional slope */
    VH_ASSUME (DX >= 0 && Q % DY == 0);
#if VC_DIR == 0
    VH_ASSUME (n > 0 && DX % DY != 0);
#endif
#endif
    memset (&ed, 0, sizeof ed);

    pixman_edge_init (&ed, VC_N, in_ys, in_xt, in_yt, in_xb, in_yb);

    VH_CHECK ("post.init_x_in_range", ed.x > -(LIM (VC_BITS) + LIM (2 * VC_BITS + 2)) && ed.x < LIM (VC_BITS) + LIM (2 * VC_BITS + 2));
    x = ed.x;
#if VC_OBL == 1
    VH_CHECK ("post.init_x_at_grid_hit_is_independent_of_end_points", x * DY == Q);
#else
#if VC_PART != 2
#if VC_FORM == 1
    if (DX < 0)
        VH_CHECK ("post.init_x_is_line_position_rounded_down", x * DY <= Q && Q < (x + 1) * DY);
    else
        VH_CHECK ("post.init_x_is_line_position_rounded_down", x * DY <= Q && Q <= (x + 1) * DY);
#else
    {
        int in_n = (int) n;
        int64_t nx = ((int64_t) ed.x - ((int64_t) in_xt + (int64_t) (in_n * ed.stepx))) * ed.signdx;
        int64_t r = (int64_t) in_n * (int64_t) ed.dx - nx * (int64_t) ed.dy;      /* n*dx - nx*DY */
        if (DX < 0)
            VH_CHECK ("post.init_x_is_line_position_rounded_down", r <= 0 && -r < (int64_t) DY);
        else
            VH_CHECK ("post.init_x_is_line_position_rounded_down", r >= 0 && r <= (int64_t) DY);
    }
#endif
#endif
#if VC_PART != 1
    VH_CHECK ("post.init_error_in_range", ed.e >= -DY && ed.e <= 0);
    VH_CHECK ("post.init_slope", ed.dy == DY && ed.signdx == (DX >= 0 ? 1 : -1) && ed.dx >= 0 && ed.dx < ed.dy &&
              ed.stepx > -LIM (VC_BITS + 2) && ed.stepx < LIM (VC_BITS + 2) &&
              (msc_int) ed.stepx * DY + (msc_int) ed.signdx * ed.dx == DX);
#endif
#endif
    VH_END ();
}
