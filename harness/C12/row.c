/* C12 — one sample row of rasterize_edges_{1,4,8} (static, reached by including the
 * real pixman-edge.c / pixman-edge-accessors.c) against the sample-count spec.
 *
 *   -DVC_N=1|4|8   depth          -DVC_ACC=0|1   plain / accessor build of the file
 *   -DVC_CASE=0    coverage + frame on one ghost slot anywhere in the buffer
 *   -DVC_CASE=1    (a1 only) edges within 0x7fff of the top of the coordinate range
 *   -DVC_CASE=2    code-level tiling: [lx,mx) then [mx,rx) gives the image of [lx,rx)
 *   -DVC_CASE=3    -DVC_K sample rows of one pixel row with moving edges (deferred fill of the a8 code)
 *   -DVC_WMAX      largest image width (pixels) the buffer is sized for (multiple of 32/N)
 *
 * Image: 2 rows, stride VC_WMAX pixels + one spare word per row, a guard word
 * before and after; every word of the buffer is an input.  t == b == any grid
 * row of either image row; l->x, r->x any int32.
 * Ghost slot in_g ranges over ALL N-bit slots of the buffer (guards, spare words,
 * the other row, slots right of `width` included):
 *   slot is pixel px < width of the rasterised row  =>  new == sat (old + #{columns c of px : lx <= c < rx})
 *   otherwise                                       =>  new == old
 */
#if VC_ACC
#include "pixman-edge-accessors.c"
#else
#include "pixman-edge.c"
#endif
#include "spec_fixed.h"
#include "vh.h"

#define N VC_N
#if N == 1
#define RAST rasterize_edges_1
#define FMT PIXMAN_a1
#define GET(row, x) SF_GET_A1 (row, x)
#elif N == 4
#define RAST rasterize_edges_4
#define FMT PIXMAN_a4
#define GET(row, x) SF_GET_A4 (row, x)
#else
#define RAST rasterize_edges_8
#define FMT PIXMAN_a8
#define GET(row, x) SF_GET_A8 (row, x)
#endif

#define PPW      (32 / N)                   /* pixels per word */
#define ROWW     (VC_WMAX / PPW)            /* words holding pixels */
#define STRIDE   (ROWW + 1)                 /* + one spare word */
#define H        2
#define NWORDS   (1 + H * STRIDE + 1)
#define NSLOTS   (NWORDS * PPW)

/* a4/a8 code addresses bytes, a1 code words: give the buffer the element type the
 * code uses (a byte view of a word array costs the solver a factor > 10) */
#if N == 1
typedef uint32_t cell_t;
#define CELLS    NWORDS
#define CPW      1
#else
typedef uint8_t cell_t;
#define CELLS    (NWORDS * 4)
#define CPW      4
#endif
static cell_t buf[CELLS] __attribute__ ((aligned (4))), buf2[CELLS] __attribute__ ((aligned (4)));

#if VC_ACC
static int acc_reads, acc_writes;
static uint32_t acc_read (const void *p, int size)
{
    acc_reads++;
    return size == 1 ? *(const uint8_t *) p : size == 2 ? *(const uint16_t *) p : *(const uint32_t *) p;
}
static void acc_write (void *p, uint32_t v, int size)
{
    acc_writes++;
    if (size == 1) *(uint8_t *) p = v; else if (size == 2) *(uint16_t *) p = v; else *(uint32_t *) p = v;
}
#endif

static void setup (pixman_image_t *im, cell_t *b, int width)
{
    memset (im, 0, sizeof *im);
    im->type = BITS;
    im->bits.format = FMT;
    im->bits.width = width;
    im->bits.height = H;
    im->bits.bits = (uint32_t *) (b + CPW);
    im->bits.rowstride = STRIDE;
#if VC_ACC
    im->bits.read_func = acc_read;
    im->bits.write_func = acc_write;
#endif
}

static void rast (pixman_image_t *im, int lx, int rx, int y)
{
    pixman_edge_t l, r;
    memset (&l, 0, sizeof l);
    memset (&r, 0, sizeof r);
    l.x = lx;
    r.x = rx;
    RAST (im, &l, &r, y, y);
}

void harness (void)
{
    pixman_image_t im;
    VH_IN (vh_i32, in_width);
    VH_IN (vh_i32, in_y);
    VH_IN (vh_i32, in_lx);
    VH_IN (vh_i32, in_rx);
    VH_IN (vh_i32, in_g);
    VH_IN (vh_u32, in_b0); VH_IN (vh_u32, in_b1); VH_IN (vh_u32, in_b2); VH_IN (vh_u32, in_b3); VH_IN (vh_u32, in_b4);
    VH_IN (vh_u32, in_b5); VH_IN (vh_u32, in_b6); VH_IN (vh_u32, in_b7); VH_IN (vh_u32, in_b8); VH_IN (vh_u32, in_b9);
    const vh_u32 init[10] = { in_b0, in_b1, in_b2, in_b3, in_b4, in_b5, in_b6, in_b7, in_b8, in_b9 };
    int i, row, gw, gs, px, is_row;
    unsigned old, new_;
    sf_i64 expect;

    for (i = 0; i < NWORDS; i++)
    {
        uint32_t w = init[i % 10] + (i >= 10 ? 0x9e3779b9u * (i / 10) : 0);
#if N == 1
        buf[i] = w;
#else
        buf[4 * i] = w & 0xff; buf[4 * i + 1] = (w >> 8) & 0xff; buf[4 * i + 2] = (w >> 16) & 0xff; buf[4 * i + 3] = w >> 24;
#endif
    }

#ifdef VC_WLIM
    VH_ASSUME (in_width >= 1 && in_width <= VC_WLIM);
#else
    VH_ASSUME (in_width >= 1 && in_width <= VC_WMAX);
#endif
    VH_ASSUME (SF_INT (in_y) >= 0 && SF_INT (in_y) < H && SF_ON_ROW (N, in_y));
    VH_ASSUME (in_g >= 0 && in_g < NSLOTS);
#ifdef VC_FIXROW
    VH_ASSUME (SF_INT (in_y) == VC_FIXROW);
    row = VC_FIXROW;
#else
    row = (int) SF_INT (in_y);
#endif
#ifdef VC_GROW
    VH_ASSUME (in_g / PPW >= 1 + row * STRIDE && in_g / PPW < 1 + row * STRIDE + ROWW);
#endif

    gw = in_g / PPW;                        /* word of the ghost slot */
    gs = in_g % PPW;                        /* slot inside the word */
    old = GET (buf + gw * CPW, gs);
    /* is the ghost slot pixel px < width of the rasterised row? */
    is_row = (gw >= 1 + row * STRIDE && gw < 1 + row * STRIDE + ROWW);
    px = (gw - (1 + row * STRIDE)) * PPW + gs;
    if (px >= in_width)
        is_row = 0;

    setup (&im, buf, in_width);

#if VC_CASE == 0 || VC_CASE == 1
#if N == 1
#if VC_CASE == 0
    /* see job a1.far_right (VC_CASE 1) for the complement */
    VH_ASSUME (in_lx <= 0x7fffffff - 0x7fff && in_rx <= 0x7fffffff - 0x7fff);
#else
    VH_ASSUME (in_lx > 0x7fffffff - 0x7fff || in_rx > 0x7fffffff - 0x7fff);
#endif
#endif
    rast (&im, in_lx, in_rx, in_y);
    new_ = GET (buf + gw * CPW, gs);
    if (is_row)
    {
#ifdef VC_MID
        {
    sf_i64 clx = in_lx < 0 ? 0 : in_lx;
    sf_i64 crx = SF_INT (in_rx) >= in_width ? (sf_i64) in_width * 65536 - 1 : in_rx;
    sf_i64 mid;
    if (crx <= clx) mid = 0;
    else {
        sf_i64 lxi = SF_INT (clx), rxi = SF_INT (crx);
        if (px < lxi || px > rxi) mid = 0;
        else if (lxi == rxi) mid = SF_BELOW_4 (SF_FRAC (crx)) - SF_BELOW_4 (SF_FRAC (clx));
        else if (px == lxi) mid = SF_NX (N) - SF_BELOW_4 (SF_FRAC (clx));
        else if (px == rxi) mid = SF_BELOW_4 (SF_FRAC (crx));
        else mid = SF_NX (N);
    }
        expect = SF_SAT (N, (sf_i64) old + mid);
        }
#else
        expect = SF_SAT (N, (sf_i64) old + SF_COUNT (N, px, in_lx, in_rx));
#endif
        VH_CHECK ("post.pixel_is_saturated_sample_count", (sf_i64) new_ == expect);
    }
    else
        VH_CHECK ("frame.slot_outside_row_unchanged", new_ == old);
#elif VC_CASE == 2
    {
        VH_IN (vh_i32, in_mx);
        pixman_image_t im2;
        VH_ASSUME (in_lx <= in_mx && in_mx <= in_rx);
#if N == 1
        VH_ASSUME (in_rx <= 0x7fffffff - 0x7fff);
#endif
        memcpy (buf2, buf, sizeof buf);
        setup (&im2, buf2, in_width);
        rast (&im, in_lx, in_mx, in_y);
        rast (&im, in_mx, in_rx, in_y);
        rast (&im2, in_lx, in_rx, in_y);
        VH_CHECK ("post.abutting_spans_tile", GET (buf + gw * CPW, gs) == GET (buf2 + gw * CPW, gs));
        /* spec-level lemma behind it (before saturation) */
        VH_CHECK ("lemma.count_is_additive", SF_COUNT (N, px, in_lx, in_mx) + SF_COUNT (N, px, in_mx, in_rx) == SF_COUNT (N, px, in_lx, in_rx));
    }
#elif VC_CASE == 3
    /* VC_K consecutive sample rows, the two edges moving by a constant per sample row (stepx_small == stepx_big, error
     * terms zero): exercises the deferred long-span fill of rasterize_edges_8 across sample rows (fill_start / fill_end /
     * fill_size: restart when the new span is beyond the saved one, trimming / extending on either side, the flush at the
     * end and at a pixel-row boundary, the memset shortcut for a fully covered pixel row).  Coverage is additive over
     * sample rows (property: "the number of points of the sample grid that lie inside"), saturating.
     * One scenario per job: the PIXEL indices of the span ends are fixed (-DVC_L0 -DVC_R0 at the first sample row, moving by
     * -DVC_DL -DVC_DR pixels per sample row), their sub-pixel parts and the sub-pixel parts of the steps are symbolic.
     * -DVC_Y0K=<k>: the first sample row is grid row k of image row 0 (rows then run on, into image row 1 if need be). */
    {
        VH_IN (vh_u16, in_lfrac); VH_IN (vh_u16, in_rfrac); VH_IN (vh_u16, in_lsfrac); VH_IN (vh_u16, in_rsfrac);
        pixman_edge_t l, r;
        int k;
        sf_i64 total = 0, yk, lxk, rxk;
        int lx0 = VC_L0 * 65536 + in_lfrac, rx0 = VC_R0 * 65536 + in_rfrac;
        int lst = VC_DL * 65536 + in_lsfrac, rst = VC_DR * 65536 + in_rsfrac;
        int y0 = (int) SF_ROW (N, VC_Y0K);
        sf_i64 ylast = y0;
        VH_ASSUME (in_width == VC_WMAX);
#ifdef VC_NOFRAC    /* long runs (a whole pixel row of sample rows): whole-pixel edges, only the image content is symbolic */
        VH_ASSUME (in_lfrac == 0 && in_rfrac == 0 && in_lsfrac == 0 && in_rsfrac == 0);
#endif
        for (k = 1; k < VC_K; k++)
            ylast = SF_NEXT_ROW (N, ylast);
        memset (&l, 0, sizeof l);
        memset (&r, 0, sizeof r);
        l.x = lx0; l.stepx_small = lst; l.stepx_big = lst;
        r.x = rx0; r.stepx_small = rst; r.stepx_big = rst;
        RAST (&im, &l, &r, y0, (pixman_fixed_t) ylast);
        new_ = GET (buf + gw * CPW, gs);
        /* which image row / pixel is the ghost slot? */
        {
            int grow = (gw - 1) / STRIDE, gcol = (gw - 1) % STRIDE, gpx = gcol * PPW + gs;
            if (gw >= 1 && gw < 1 + H * STRIDE && gcol < ROWW && gpx < in_width)
            {
                yk = y0; lxk = lx0; rxk = rx0;
                for (k = 0; k < VC_K; k++)
                {
                    if (SF_INT (yk) == grow)
                        total += SF_COUNT (N, gpx, lxk, rxk);
                    yk = SF_NEXT_ROW (N, yk); lxk += lst; rxk += rst;
                }
                VH_CHECK ("post.pixel_is_saturated_sample_count_over_sample_rows", (sf_i64) new_ == SF_SAT (N, (sf_i64) old + total));
            }
            else
                VH_CHECK ("frame.slot_outside_rows_unchanged", new_ == old);
        }
    }
#endif
    VH_END ();
}
