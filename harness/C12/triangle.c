/* C12 (lead): "triangles equal their two-trapezoid decomposition" — the decomposition itself
 * (pixman-trap.c: greater_y, clockwise, triangle_to_trapezoids), against a geometric spec:
 *   VC_CASE=0  clockwise (ref, a, b) == sign of the EXACT cross product  (b-ref).y*(a-ref).x - (a-ref).y*(b-ref).x < 0,
 *              computed in 64 bits from the coordinates themselves (coordinates within +-2^30: differences fit int32)
 *   VC_CASE=1  triangle_to_trapezoids: T = the first vertex in (y, x) order; {L, R} = the other two with L left of R
 *              as decided by the exact cross product (ties: as the code's strict < gives); trapezoid 0 spans
 *              [T.y, min (L.y, R.y)) between the lines T-L and T-R; trapezoid 1 spans [min, max) between the
 *              continuing long edge and the edge L-R; every edge line is an edge of the triangle
 */
#include "pixman-trap.c"
#include "vh.h"

#ifndef VC_LIMBITS
#define VC_LIMBITS 30
#endif
#define LIM (1 << VC_LIMBITS)
static int in_lim (int v) { return v > -LIM && v < LIM; }
static int same_pt (const pixman_point_fixed_t *p, int x, int y) { return p->x == x && p->y == y; }
/* exact: with coordinates inside +-2^30 every difference fits an int and every product of two differences fits 64 bits */
static int spec_clockwise (int rx, int ry, int ax, int ay, int bx, int by)
{
    int adx = ax - rx, ady = ay - ry, bdx = bx - rx, bdy = by - ry;
    return ((long) bdy * adx - (long) ady * bdx) < 0;
}

void harness (void)
{
    VH_IN (vh_i32, in_x1); VH_IN (vh_i32, in_y1);
    VH_IN (vh_i32, in_x2); VH_IN (vh_i32, in_y2);
    VH_IN (vh_i32, in_x3); VH_IN (vh_i32, in_y3);
    VH_ASSUME (in_lim (in_x1) && in_lim (in_y1) && in_lim (in_x2) && in_lim (in_y2) && in_lim (in_x3) && in_lim (in_y3));
#if VC_CASE == 0
    {
        pixman_point_fixed_t r = { in_x1, in_y1 }, a = { in_x2, in_y2 }, b = { in_x3, in_y3 };
        VH_CHECK ("tri.clockwise_is_sign_of_exact_cross_product",
                  (clockwise (&r, &a, &b) != 0) == spec_clockwise (in_x1, in_y1, in_x2, in_y2, in_x3, in_y3));
    }
#else
    {
        pixman_triangle_t tri = { { in_x1, in_y1 }, { in_x2, in_y2 }, { in_x3, in_y3 } };
        pixman_trapezoid_t t[2];
        int px[3] = { in_x1, in_x2, in_x3 }, py[3] = { in_y1, in_y2, in_y3 };
        int it = 0, il, ir, k, tmp, lo, hi;
        /* T: smallest in (y, x) order; the code keeps the earlier vertex on full ties */
        for (k = 1; k < 3; k++)
            if (py[k] < py[it] || (py[k] == py[it] && px[k] < px[it]))
                it = k;
        il = (it + 1) % 3; ir = (it + 2) % 3;
        triangle_to_trapezoids (&tri, t);
        /* which of the two others is "left": the code's own left/right are {L,R} as a set; orientation by exact cross product */
        VH_CHECK ("tri.top_vertex_is_first_in_yx_order", same_pt (&t[0].left.p1, px[it], py[it]) && same_pt (&t[0].right.p1, px[it], py[it]) && t[0].top == py[it]);
        VH_CHECK ("tri.upper_edges_end_at_the_two_other_vertices",
                  (same_pt (&t[0].left.p2, px[il], py[il]) && same_pt (&t[0].right.p2, px[ir], py[ir])) ||
                  (same_pt (&t[0].left.p2, px[ir], py[ir]) && same_pt (&t[0].right.p2, px[il], py[il])));
        /* orientation: the right end point must not be clockwise-before the left one (exact arithmetic) */
        VH_CHECK ("tri.left_right_by_exact_orientation",
                  !spec_clockwise (px[it], py[it], t[0].right.p2.x, t[0].right.p2.y, t[0].left.p2.x, t[0].left.p2.y));
        lo = t[0].left.p2.y < t[0].right.p2.y ? t[0].left.p2.y : t[0].right.p2.y;
        hi = t[0].left.p2.y < t[0].right.p2.y ? t[0].right.p2.y : t[0].left.p2.y;
        VH_CHECK ("tri.vertical_ranges_tile", t[0].bottom == lo && t[1].top == lo && t[1].bottom == hi);
        if (t[0].right.p2.y < t[0].left.p2.y)
            VH_CHECK ("tri.lower_trapezoid_edges", same_pt (&t[1].left.p1, px[it], py[it]) && t[1].left.p2.x == t[0].left.p2.x && t[1].left.p2.y == t[0].left.p2.y &&
                      t[1].right.p1.x == t[0].right.p2.x && t[1].right.p1.y == t[0].right.p2.y && t[1].right.p2.x == t[0].left.p2.x && t[1].right.p2.y == t[0].left.p2.y);
        else
            VH_CHECK ("tri.lower_trapezoid_edges", same_pt (&t[1].right.p1, px[it], py[it]) && t[1].right.p2.x == t[0].right.p2.x && t[1].right.p2.y == t[0].right.p2.y &&
                      t[1].left.p1.x == t[0].left.p2.x && t[1].left.p1.y == t[0].left.p2.y && t[1].left.p2.x == t[0].right.p2.x && t[1].left.p2.y == t[0].right.p2.y);
        (void) tmp;
    }
#endif
    VH_END ();
}
