/* C12 (lead): pixman_composite_trapezoids "equals rasterising into a temporary mask and compositing it, whichever
 * internal route is taken".  The two routes (pixman-trap.c):
 *   direct : rasterise straight into the destination (no mask, no composite)
 *   mask   : temporary mask image of the traps' bounding box, rasterise into it, composite it, release it
 * Obligations on the real pixman_composite_trapezoids / get_trap_extents / pixman_rasterize_trapezoid with one
 * valid trapezoid; pixman_rasterize_edges, pixman_image_create_bits, pixman_image_composite, pixman_image_unref and
 * _pixman_image_validate are recording stubs (assumptions):
 *   ctrap.direct_route_only_when_equivalent : direct  ==>  op == ADD, source flagged opaque, mask format == destination
 *        format, destination has no clip region (a clip would be ignored), no alpha map and no accessors... (the last
 *        two are separate obligations: ctrap.direct_route_not_with_alpha_map)
 *   ctrap.mask_route_* : mask created with the requested format and the box size, rasterised at (-box.x1,-box.y1),
 *        composited once with (op, src, mask, dst) at src (x_src+box.x1, y_src+box.y1), dst (x_dst+box.x1, y_dst+box.y1),
 *        size of the box, then released exactly once; creation failure => nothing drawn
 */
#include "pixman-trap.c"
#include "vh.h"

static pixman_image_t s_src, s_dst, s_tmp;
static int n_edges_dst, n_edges_tmp, n_edges_other, n_create, n_composite, n_unref, create_fails;
static pixman_format_code_t c_format; static int c_w, c_h;
static pixman_op_t k_op; static pixman_image_t *k_src, *k_mask, *k_dst;
static int k_sx, k_sy, k_mx, k_my, k_dx, k_dy, k_w, k_h;

void _pixman_image_validate (pixman_image_t *image) { (void) image; }
void _pixman_log_error (const char *f, const char *m) { (void) f; (void) m; }
void pixman_rasterize_edges (pixman_image_t *image, pixman_edge_t *l, pixman_edge_t *r, pixman_fixed_t t, pixman_fixed_t b)
{
    (void) l; (void) r; (void) t; (void) b;
    if (image == &s_dst) n_edges_dst++; else if (image == &s_tmp) n_edges_tmp++; else n_edges_other++;
}
pixman_image_t *pixman_image_create_bits (pixman_format_code_t format, int width, int height, uint32_t *bits, int stride)
{
    (void) bits; (void) stride;
    n_create++; c_format = format; c_w = width; c_h = height;
    if (create_fails) return 0;
    memset (&s_tmp, 0, sizeof s_tmp);
    s_tmp.type = BITS; s_tmp.bits.format = format; s_tmp.bits.width = width; s_tmp.bits.height = height;
    s_tmp.common.extended_format_code = format;
    return &s_tmp;
}
void pixman_image_composite (pixman_op_t op, pixman_image_t *src, pixman_image_t *mask, pixman_image_t *dest,
                             int16_t sx, int16_t sy, int16_t mx, int16_t my, int16_t dx, int16_t dy, uint16_t w, uint16_t h)
{
    n_composite++; k_op = op; k_src = src; k_mask = mask; k_dst = dest;
    k_sx = sx; k_sy = sy; k_mx = mx; k_my = my; k_dx = dx; k_dy = dy; k_w = w; k_h = h;
}
pixman_bool_t pixman_image_unref (pixman_image_t *image) { if (image == &s_tmp) n_unref++; else n_unref += 100; return TRUE; }

void harness (void)
{
    VH_IN (vh_u32, in_op);
    VH_IN (vh_u32, in_srcflags);
    VH_IN (vh_u32, in_maskfmt);
    VH_IN (vh_u32, in_dstfmt);
    VH_IN (vh_u8, in_have_clip);
    VH_IN (vh_u8, in_have_alpha_map);
    VH_IN (vh_u8, in_create_fails);
    VH_IN (vh_i16, in_xs); VH_IN (vh_i16, in_ys); VH_IN (vh_i16, in_xd); VH_IN (vh_i16, in_yd);
    VH_IN (vh_i32, in_top); VH_IN (vh_i32, in_bot);
    VH_IN (vh_i32, in_lx); VH_IN (vh_i32, in_rx);
    pixman_trapezoid_t trap;
    pixman_box32_t box;
    static bits_image_t amap;
    int direct, ok_box;

    VH_ASSUME (in_op <= PIXMAN_OP_ADD);
    VH_ASSUME (in_maskfmt == PIXMAN_a8 || in_maskfmt == PIXMAN_a4 || in_maskfmt == PIXMAN_a1);
    VH_ASSUME (in_dstfmt == PIXMAN_a8 || in_dstfmt == PIXMAN_a4 || in_dstfmt == PIXMAN_a1 || in_dstfmt == PIXMAN_a8r8g8b8);
    /* one valid trapezoid with vertical edges inside a 200x200 destination, a few pixels in size */
    VH_ASSUME (in_top >= 0 && in_bot > in_top && in_bot <= (100 << 16) && in_lx >= 0 && in_rx > in_lx && in_rx <= (100 << 16));
    trap.top = in_top; trap.bottom = in_bot;
    trap.left.p1.x = trap.left.p2.x = in_lx; trap.right.p1.x = trap.right.p2.x = in_rx;
    trap.left.p1.y = trap.right.p1.y = in_top; trap.left.p2.y = trap.right.p2.y = in_bot;
    VH_ASSUME (in_xs > -1000 && in_xs < 1000 && in_ys > -1000 && in_ys < 1000 && in_xd > -50 && in_xd < 50 && in_yd > -50 && in_yd < 50);

    memset (&s_src, 0, sizeof s_src); memset (&s_dst, 0, sizeof s_dst);
    s_src.type = SOLID; s_src.common.flags = in_srcflags;
    s_dst.type = BITS; s_dst.bits.format = (pixman_format_code_t) in_dstfmt; s_dst.common.extended_format_code = (pixman_format_code_t) in_dstfmt;
    s_dst.bits.width = 200; s_dst.bits.height = 200;
    s_dst.common.have_clip_region = in_have_clip != 0;
    s_dst.common.alpha_map = in_have_alpha_map ? &amap : 0;
    create_fails = in_create_fails != 0;

    pixman_composite_trapezoids ((pixman_op_t) in_op, &s_src, &s_dst, (pixman_format_code_t) in_maskfmt, in_xs, in_ys, in_xd, in_yd, 1, &trap);

    direct = n_edges_dst > 0;
    VH_CHECK ("ctrap.one_route_only", !(n_edges_dst > 0 && (n_edges_tmp > 0 || n_create > 0 || n_composite > 0)) && n_edges_other == 0);
    /* the destination is drawn into directly only when that equals compositing a mask */
    if (direct)
    {
        VH_CHECK ("ctrap.direct_route_only_when_equivalent",
                  in_op == PIXMAN_OP_ADD && (in_srcflags & FAST_PATH_IS_OPAQUE) && in_maskfmt == in_dstfmt && !in_have_clip);
#ifdef VC_ALPHAMAP_OBLIGATION
        VH_CHECK ("ctrap.direct_route_not_with_alpha_map", !in_have_alpha_map);
#endif
    }
    ok_box = get_trap_extents ((pixman_op_t) in_op, &s_dst, &trap, 1, &box);
    /* whenever the direct route is not allowed, the mask route must be the one taken */
    if (!(in_op == PIXMAN_OP_ADD && (in_srcflags & FAST_PATH_IS_OPAQUE) && in_maskfmt == in_dstfmt && !in_have_clip))
        VH_CHECK ("ctrap.mask_route_taken_when_direct_is_not_equivalent", n_edges_dst == 0 && (!ok_box || n_create == 1));
    if (n_create > 0)
    {
        VH_CHECK ("ctrap.mask_route_creates_mask_of_box_size_and_requested_format",
                  ok_box && n_create == 1 && c_format == (pixman_format_code_t) in_maskfmt && c_w == box.x2 - box.x1 && c_h == box.y2 - box.y1);
        if (!create_fails)
        {
            VH_CHECK ("ctrap.mask_route_composites_once_with_translated_origins",
                      n_composite == 1 && k_op == (pixman_op_t) in_op && k_src == &s_src && k_mask == &s_tmp && k_dst == &s_dst &&
                      k_sx == (int16_t) (in_xs + box.x1) && k_sy == (int16_t) (in_ys + box.y1) && k_mx == 0 && k_my == 0 &&
                      k_dx == (int16_t) (in_xd + box.x1) && k_dy == (int16_t) (in_yd + box.y1) &&
                      k_w == (uint16_t) (box.x2 - box.x1) && k_h == (uint16_t) (box.y2 - box.y1));
            VH_CHECK ("ctrap.mask_released_exactly_once", n_unref == 1);
        }
        else
            VH_CHECK ("ctrap.nothing_drawn_without_mask", n_composite == 0 && n_edges_dst == 0 && n_unref == 0);
    }
    else
        VH_CHECK ("ctrap.no_composite_without_mask", n_composite == 0 && n_unref == 0 && n_edges_tmp == 0);
    VH_END ();
}
