/* C14: derived state is recomputed from the properties alone.
 *
 *  -DVV_MODE=1  _pixman_image_validate: afterwards the image is not dirty and neither is its alpha
 *               map; if it was dirty, compute_image_info ran and then property_changed exactly once
 *               (the hook sees the NEW flags); if it was not dirty nothing is touched; properties
 *               are never written.
 *  -DVV_MODE=2  compute_image_info NON-INTERFERENCE: two images with equal property fields but
 *               arbitrary, different old flags / extended_format_code / dirty / ref_count /
 *               alpha_count / client_clip / destroy callback get equal flags and code.
 *  -DVV_MODE=3  gradient_property_changed NON-INTERFERENCE w.r.t. the old sentinel stops:
 *               two gradients with equal repeat and stops but arbitrary old sentinels get equal
 *               sentinels (both x and colour).
 *  -DVI_TYPE fixes the image type per query.  Gradient stop loop: n_stops <= 3 (bounded).
 */
#define IH_NO_REGION32
#define IH_NO_UTILS
#include "../C20/ih.h"

void _pixman_log_error (const char *function, const char *message) { (void) function; (void) message; }

static int stop_equal (const pixman_gradient_stop_t *x, const pixman_gradient_stop_t *y)
{
    return x->x == y->x && x->color.red == y->color.red && x->color.green == y->color.green
           && x->color.blue == y->color.blue && x->color.alpha == y->color.alpha;
}

void harness (void)
{
    IH_INPUTS (a);
    IH_INPUTS (m);
    VH_IN (vh_u8, in_has_am);
    ih_own ao, mo;
    pixman_image_t *img, *am = 0;

    ih_assume_domain (&a);
    ih_assume_domain (&m);
#ifdef VI_TYPE
    VH_ASSUME (a.type == VI_TYPE);
    a.type = VI_TYPE;
#endif
    if (in_has_am)
    {
        VH_ASSUME (m.type == BITS);
        m.type = BITS;
        am = ih_build (&m, &mo, 1);
    }
    img = ih_build (&a, &ao, 0);
    if (am)
        ih_attach (img, am);

#if VV_MODE == 1
    {
        ih_props p0, p1, q0, q1;
        ih_snap sa, sm;
        int expect_calls;
        VH_ASSUME (spi_wf_fields (img));              /* in particular: the alpha map has no alpha map (recursion depth 2) */
        ih_props_get (&p0, img, IH_MAXFP, 0);
        ih_snapshot (&sa, img);
        if (am) { ih_props_get (&q0, am, IH_MAXFP, 0); ih_snapshot (&sm, am); }

        _pixman_image_validate (img);

        VH_CHECK ("validate.image_not_dirty_afterwards", !img->common.dirty);
        VH_CHECK ("validate.alpha_map_not_dirty_afterwards", !am || !am->common.dirty);
        /* the hand-built non-gradient images use the counting hook; gradients the real gradient hook */
        expect_calls = ((a.dirty && !ih_is_gradient_type (a.type) && !a.no_hook) ? 1 : 0) + ((am && m.dirty && !m.no_hook) ? 1 : 0);
        VH_CHECK ("validate.property_changed_hook_exactly_once_per_dirty_image", ih_pc_calls == expect_calls);
        if (a.dirty && !ih_is_gradient_type (a.type) && !a.no_hook && !(am && m.dirty && !m.no_hook))
            VH_CHECK ("validate.hook_runs_after_the_flags_are_recomputed",
                      ih_pc_flags_seen == img->common.flags && ih_pc_dirty_seen);
        if (!a.dirty)
            VH_CHECK ("validate.clean_image_untouched",
                      ih_common_equal (&img->common, &sa.copy.common, 0, 0) && ih_specific_equal (img, &sa.copy));
        if (am && !m.dirty)
            VH_CHECK ("validate.clean_alpha_map_untouched",
                      ih_common_equal (&am->common, &sm.copy.common, 0, 0) && ih_specific_equal (am, &sm.copy));
        ih_props_get (&p1, img, IH_MAXFP, 0);
        VH_CHECK ("validate.properties_not_written", ih_props_equal (&p0, &p1));
        if (am) { ih_props_get (&q1, am, IH_MAXFP, 0); VH_CHECK ("validate.alpha_map_properties_not_written", ih_props_equal (&q0, &q1)); }
        VH_CHECK ("validate.bookkeeping_not_written",
                  img->common.ref_count == a.ref && img->common.alpha_count == a.acount
                  && img->common.alpha_map == (bits_image_t *) am);
    }
#elif VV_MODE == 2
    {
        /* the second image: same properties, different history */
        VH_IN (vh_u32, in_b_flags); VH_IN (vh_u32, in_b_efc); VH_IN (vh_u8, in_b_dirty);
        VH_IN (vh_i32, in_b_ref); VH_IN (vh_i32, in_b_acount); VH_IN (vh_u8, in_b_client_clip);
        VH_IN (vh_u8, in_b_has_destroy);
        ih_in b = a;
        ih_own bo;
        pixman_image_t *img2;
        ih_props p0, p1;
        b.flags = in_b_flags; b.efc = in_b_efc; b.dirty = in_b_dirty; b.ref = in_b_ref; b.acount = in_b_acount;
        b.client_clip = in_b_client_clip; b.has_destroy = in_b_has_destroy;
        img2 = ih_build (&b, &bo, 1);
        if (am)
            ih_attach (img2, am);
        ih_props_get (&p0, img, IH_MAXFP, 0);
        ih_props_get (&p1, img2, IH_MAXFP, 0);
        VH_CHECK ("harness.the_two_images_have_equal_properties", ih_props_equal (&p0, &p1));

        compute_image_info (img);
        compute_image_info (img2);

        VH_CHECK ("noninterference.flags_depend_on_properties_only", img->common.flags == img2->common.flags);
        VH_CHECK ("noninterference.format_code_depends_on_properties_only",
                  img->common.extended_format_code == img2->common.extended_format_code);
        VH_CHECK ("noninterference.history_fields_not_written",
                  img2->common.dirty == (pixman_bool_t) in_b_dirty && img2->common.ref_count == in_b_ref
                  && img2->common.alpha_count == in_b_acount && img2->common.client_clip == (pixman_bool_t) in_b_client_clip);
        ih_release (img2);
    }
#elif VV_MODE == 3
    {
        IH_IN_ARRAY (vh_i32, in_sx, 2);
        IH_IN_ARRAY (vh_u16, in_sc, 8);
        IH_IN_ARRAY (vh_u16, in_col, 3 * IH_MAXSTOPS);
        ih_in b = a;
        ih_own bo;
        pixman_image_t *img2;
        int k, n;
        VH_ASSUME (ih_is_gradient_type (a.type));
        img2 = ih_build (&b, &bo, 1);
        n = img->gradient.n_stops;
        /* equal stop colours (the builder only sets x and alpha), arbitrary */
        for (k = 0; k < IH_MAXSTOPS; k++)
        {
            img->gradient.stops[k].color.red = img2->gradient.stops[k].color.red = in_col[3 * k];
            img->gradient.stops[k].color.green = img2->gradient.stops[k].color.green = in_col[3 * k + 1];
            img->gradient.stops[k].color.blue = img2->gradient.stops[k].color.blue = in_col[3 * k + 2];
        }
        /* old sentinels of the second gradient: arbitrary leftovers (of the first: zero) */
        img2->gradient.stops[-1].x = in_sx[0];
        img2->gradient.stops[-1].color.red = in_sc[0]; img2->gradient.stops[-1].color.green = in_sc[1];
        img2->gradient.stops[-1].color.blue = in_sc[2]; img2->gradient.stops[-1].color.alpha = in_sc[3];
        img2->gradient.stops[n].x = in_sx[1];
        img2->gradient.stops[n].color.red = in_sc[4]; img2->gradient.stops[n].color.green = in_sc[5];
        img2->gradient.stops[n].color.blue = in_sc[6]; img2->gradient.stops[n].color.alpha = in_sc[7];

        gradient_property_changed (img);
        gradient_property_changed (img2);

        VH_CHECK ("noninterference.begin_sentinel_depends_on_properties_only",
                  stop_equal (&img->gradient.stops[-1], &img2->gradient.stops[-1]));
        VH_CHECK ("noninterference.end_sentinel_depends_on_properties_only",
                  stop_equal (&img->gradient.stops[n], &img2->gradient.stops[n]));
        for (k = 0; k < IH_MAXSTOPS; k++)
            if (k < n)
                VH_CHECK ("gradient_property_changed.user_stops_not_written",
                          img->gradient.stops[k].x == a.stop_x[k] && img->gradient.stops[k].color.alpha == a.stop_alpha[k]
                          && img->gradient.stops[k].color.red == in_col[3 * k]);
        ih_release (img2);
    }
#else
#error "VV_MODE"
#endif
    ih_release (img);
    ih_release (am);
    VH_END ();
}
