/* C14: the simple property setters of pixman-image.c — a changed property always leaves the image
 * dirty, and a setter never writes derived state (flags, extended_format_code, accessor pointers).
 *
 *   -DVS_FN=2  pixman_image_set_repeat            7  pixman_image_set_component_alpha
 *          4  pixman_image_set_source_clipping    8  pixman_image_set_accessors
 *          5  pixman_image_set_indexed           11  pixman_image_set_has_client_clip
 *         13  pixman_image_set_dither            12  pixman_image_set_destroy_function
 *         14  pixman_image_set_dither_offset
 * (set_transform, set_filter, set_clip_region*, set_alpha_map: harness/C20/setters.c, alpha_map.c carry
 * the same two obligations.)
 *
 * Postcondition, over the STORED values, so every early-return comparison is covered:
 *     (every property field has its old value)  ||  image->common.dirty
 * and the value asked for is the value stored.  client_clip and destroy_func/data are not
 * properties in this sense (nothing derived may depend on them — info.c proves that for
 * compute_image_info); for their setters the frame is checked: only that field changes.
 */
#define IH_NO_REGION32
#define IH_NO_UTILS
#include "../C20/ih.h"

/* callee of pixman-image.c that is not part of this property (reached only through return_if_fail) */
static int vs_log_errors;
void _pixman_log_error (const char *function, const char *message) { (void) function; (void) message; vs_log_errors++; }

static uint32_t vs_read2 (const void *src, int size) { (void) src; (void) size; return 1; }
static void vs_write2 (void *dst, uint32_t value, int size) { (void) dst; (void) value; (void) size; }
static pixman_indexed_t vs_palette2;
static void vs_destroy2 (pixman_image_t *image, void *data) { (void) image; (void) data; }

void harness (void)
{
    IH_INPUTS (a);
    VH_IN (vh_u32, in_v);
    VH_IN (vh_u32, in_w);
    ih_own ao;
    ih_snap sa;
    ih_props p0, p1;
    image_common_t want;
    pixman_image_t *img, wanti;

    ih_assume_domain (&a);
    img = ih_build (&a, &ao, 0);
    ih_snapshot (&sa, img);
    ih_props_get (&p0, img, IH_MAXFP, 0);
    want = sa.copy.common;
    wanti = sa.copy;

#if VS_FN == 2
    pixman_image_set_repeat (img, (pixman_repeat_t) in_v);
    VH_CHECK ("set_repeat.value_stored", img->common.repeat == (pixman_repeat_t) in_v);
    want.repeat = (pixman_repeat_t) in_v;
#elif VS_FN == 4
    pixman_image_set_source_clipping (img, (pixman_bool_t) in_v);
    VH_CHECK ("set_source_clipping.value_stored", img->common.clip_sources == (pixman_bool_t) in_v);
    want.clip_sources = (pixman_bool_t) in_v;
#elif VS_FN == 5
    {
        /* NULL, the palette already set, or another palette */
        const pixman_indexed_t *pal = (in_v % 3) == 0 ? 0 : (in_v % 3) == 1 ? &ih_palette : &vs_palette2;
        VH_ASSUME (a.type == BITS);        /* API: palettes exist for BITS images only (the setter writes bits.indexed unconditionally) */
        pixman_image_set_indexed (img, pal);
        VH_CHECK ("set_indexed.value_stored", img->bits.indexed == pal);
        wanti.bits.indexed = pal;
    }
#elif VS_FN == 7
    pixman_image_set_component_alpha (img, (pixman_bool_t) in_v);
    VH_CHECK ("set_component_alpha.value_stored", img->common.component_alpha == (pixman_bool_t) in_v);
    VH_CHECK ("get_component_alpha.reads_it", pixman_image_get_component_alpha (img) == (pixman_bool_t) in_v);
    want.component_alpha = (pixman_bool_t) in_v;
#elif VS_FN == 8
    {
        pixman_read_memory_func_t rf = (in_v % 3) == 0 ? 0 : (in_v % 3) == 1 ? ih_read_stub : vs_read2;
        pixman_write_memory_func_t wf = (in_w % 3) == 0 ? 0 : (in_w % 3) == 1 ? ih_write_stub : vs_write2;
        int refused = a.type == BITS && PIXMAN_FORMAT_BPP ((pixman_format_code_t) a.format) > 32 && (rf || wf);
        pixman_image_set_accessors (img, rf, wf);
        if (a.type == BITS && !refused)
        {
            VH_CHECK ("set_accessors.values_stored", img->bits.read_func == rf && img->bits.write_func == wf);
            wanti.bits.read_func = rf;
            wanti.bits.write_func = wf;
        }
        /* accessors exist for <= 32 bpp only: wider formats are refused, nothing stored */
        VH_CHECK ("set_accessors.refused_for_wide_formats", !refused || (img->bits.read_func == sa.copy.bits.read_func
                                                                         && img->bits.write_func == sa.copy.bits.write_func));
    }
#elif VS_FN == 11
    pixman_image_set_has_client_clip (img, (pixman_bool_t) in_v);
    VH_CHECK ("set_has_client_clip.value_stored", img->common.client_clip == (pixman_bool_t) in_v);
    want.client_clip = (pixman_bool_t) in_v;
#elif VS_FN == 12
    {
        pixman_image_destroy_func_t f = (in_v % 3) == 0 ? 0 : (in_v % 3) == 1 ? ih_destroy_cb : vs_destroy2;
        void *d = (in_w & 1) ? (void *) &vs_palette2 : 0;
        pixman_image_set_destroy_function (img, f, d);
        VH_CHECK ("set_destroy_function.values_stored", img->common.destroy_func == f && img->common.destroy_data == d);
        VH_CHECK ("get_destroy_data.reads_it", pixman_image_get_destroy_data (img) == d);
        want.destroy_func = f;
        want.destroy_data = d;
    }
#elif VS_FN == 13
    pixman_image_set_dither (img, (pixman_dither_t) in_v);
    if (a.type == BITS)
    {
        VH_CHECK ("set_dither.value_stored", img->bits.dither == (pixman_dither_t) in_v);
        wanti.bits.dither = (pixman_dither_t) in_v;
    }
#elif VS_FN == 14
    pixman_image_set_dither_offset (img, (int) in_v, (int) in_w);
    if (a.type == BITS)
    {
        VH_CHECK ("set_dither_offset.values_stored", img->bits.dither_offset_x == in_v && img->bits.dither_offset_y == in_w);
        wanti.bits.dither_offset_x = in_v;
        wanti.bits.dither_offset_y = in_w;
    }
#else
#error "VS_FN"
#endif

    ih_props_get (&p1, img, IH_MAXFP, 0);
    VH_CHECK ("c14.changed_property_leaves_image_dirty", ih_props_equal (&p0, &p1) || img->common.dirty);
    VH_CHECK ("c14.setter_does_not_write_derived_state",
              img->common.flags == a.flags && img->common.extended_format_code == (pixman_format_code_t) a.efc);
    VH_CHECK ("c14.setter_only_sets_dirty_never_clears_it", !a.dirty || img->common.dirty);
    /* frame: the field(s) named above and dirty, nothing else (derived accessor pointers included) */
    wanti.common = want;
    VH_CHECK ("c14.frame.nothing_else_written", ih_common_equal (&img->common, &want, 0, 1) && ih_specific_equal (img, &wanti));
    VH_CHECK ("c14.no_allocation_no_free_no_callback", vh_alloc_calls == 0 && vh_free_calls == 0 && ih_cb_calls == 0);
    ih_release (img);
    VH_END ();
}
