/* C11 fixed <-> double conversions and the singular case of the inverse.
 *   -DVC_CASE=0  pixman_f_transform_from_pixman_transform: ft[j][i] * 65536 == t[j][i] exactly, entry (VC_J,VC_I)
 *   -DVC_CASE=1  pixman_transform_from_pixman_f_transform, entry (VC_J,VC_I) any double (not NaN), others 0:
 *                out of [-32767, 32767] => FALSE; else TRUE and the entry is within one unit of d*65536
 *   -DVC_CASE=2  same, "correctly rounded": |entry - d*65536| <= 1/2
 *   -DVC_CASE=3  same with d = NaN: not representable => FALSE (and no undefined double->int conversion)
 *   -DVC_CASE=4  pixman_f_transform_invert, row VC_J of the matrix zero, other entries |m| <= 32768 (what a
 *                16.16 matrix converts to): determinant is exactly 0 => FALSE, dst untouched
 *   -DVC_CASE=5  pixman_transform_invert, row VC_J zero => FALSE, dst untouched
 */
#include "pixman-matrix.c"
#include "c11.h"

#ifndef VC_J
#define VC_J 0
#endif
#ifndef VC_I
#define VC_I 0
#endif

void harness (void)
{
#if VC_CASE == 0
    C11_IN_MATRIX (t, m);
    struct pixman_f_transform ft;
    pixman_f_transform_from_pixman_transform (&ft, &t);
    VH_CHECK ("to_double.exact", ft.m[VC_J][VC_I] * 65536.0 == (double) t.matrix[VC_J][VC_I]);
#elif VC_CASE == 1 || VC_CASE == 2 || VC_CASE == 3
    VH_IN (vh_f64, in_d);
    VH_IN (vh_i32, in_junk);
    struct pixman_f_transform ft = { { { 0, 0, 0 }, { 0, 0, 0 }, { 0, 0, 0 } } };
    pixman_transform_t t = { { { in_junk, in_junk, in_junk }, { in_junk, in_junk, in_junk }, { in_junk, in_junk, in_junk } } };
    pixman_bool_t ok;
    double x;
#if VC_CASE == 3
    VH_ASSUME (in_d != in_d);
#else
    VH_ASSUME (in_d == in_d);
#endif
    ft.m[VC_J][VC_I] = in_d;
    ok = pixman_transform_from_pixman_f_transform (&t, &ft);
    x = in_d * 65536.0;       /* exact (power of two) unless it overflows to infinity */
#if VC_CASE == 1
    if (in_d < -32767.0 || in_d > 32767.0)
        VH_CHECK ("from_double.out_of_range_returns_FALSE", ok == FALSE);
    else
    {
        VH_CHECK ("from_double.in_range_returns_TRUE", ok == TRUE);
        VH_CHECK ("from_double.within_one_unit", (double) t.matrix[VC_J][VC_I] - x < 1.0 && x - (double) t.matrix[VC_J][VC_I] < 1.0);
    }
#elif VC_CASE == 2
    VH_CHECK ("from_double.nearest", !ok || ((double) t.matrix[VC_J][VC_I] - x <= 0.5 && x - (double) t.matrix[VC_J][VC_I] <= 0.5));
#else
    VH_CHECK ("from_double.NaN_returns_FALSE", ok == FALSE);
#endif
#elif VC_CASE == 4
    VH_IN (vh_f64, in_a0); VH_IN (vh_f64, in_a1); VH_IN (vh_f64, in_a2);
    VH_IN (vh_f64, in_b0); VH_IN (vh_f64, in_b1); VH_IN (vh_f64, in_b2);
    VH_IN (vh_f64, in_junk);
    struct pixman_f_transform src, dst;
    pixman_bool_t ok;
    int i, j, r0 = (VC_J + 1) % 3, r1 = (VC_J + 2) % 3;
    VH_ASSUME (in_a0 >= -32768.0 && in_a0 <= 32768.0 && in_a1 >= -32768.0 && in_a1 <= 32768.0 && in_a2 >= -32768.0 && in_a2 <= 32768.0);
    VH_ASSUME (in_b0 >= -32768.0 && in_b0 <= 32768.0 && in_b1 >= -32768.0 && in_b1 <= 32768.0 && in_b2 >= -32768.0 && in_b2 <= 32768.0);
    VH_ASSUME (in_junk == in_junk);
    src.m[VC_J][0] = 0; src.m[VC_J][1] = 0; src.m[VC_J][2] = 0;
    src.m[r0][0] = in_a0; src.m[r0][1] = in_a1; src.m[r0][2] = in_a2;
    src.m[r1][0] = in_b0; src.m[r1][1] = in_b1; src.m[r1][2] = in_b2;
    for (j = 0; j < 3; j++) for (i = 0; i < 3; i++) dst.m[j][i] = in_junk;
    ok = pixman_f_transform_invert (&dst, &src);
    VH_CHECK ("f_invert.singular_returns_FALSE", ok == FALSE);
    VH_CHECK ("f_invert.FALSE_leaves_dst", dst.m[0][0] == in_junk && dst.m[1][1] == in_junk && dst.m[2][2] == in_junk && dst.m[VC_J][1] == in_junk);
#else
    VH_IN (vh_i32, in_a0); VH_IN (vh_i32, in_a1); VH_IN (vh_i32, in_a2);
    VH_IN (vh_i32, in_b0); VH_IN (vh_i32, in_b1); VH_IN (vh_i32, in_b2);
    VH_IN (vh_i32, in_junk);
    pixman_transform_t src, dst;
    pixman_bool_t ok;
    int i, j, r0 = (VC_J + 1) % 3, r1 = (VC_J + 2) % 3;
    src.matrix[VC_J][0] = 0; src.matrix[VC_J][1] = 0; src.matrix[VC_J][2] = 0;
    src.matrix[r0][0] = in_a0; src.matrix[r0][1] = in_a1; src.matrix[r0][2] = in_a2;
    src.matrix[r1][0] = in_b0; src.matrix[r1][1] = in_b1; src.matrix[r1][2] = in_b2;
    for (j = 0; j < 3; j++) for (i = 0; i < 3; i++) dst.matrix[j][i] = in_junk;
    ok = pixman_transform_invert (&dst, &src);
    VH_CHECK ("invert.singular_returns_FALSE", ok == FALSE);
    VH_CHECK ("invert.FALSE_leaves_dst", dst.matrix[0][0] == in_junk && dst.matrix[1][1] == in_junk && dst.matrix[2][2] == in_junk && dst.matrix[VC_J][1] == in_junk);
#endif
    VH_END ();
}
