/* C11 predicates: within_epsilon, pixman_transform_is_{identity,scale,int_translate,inverse}.
 * Spec: |a - b| <= epsilon in the integers (64-bit), epsilon = 2 units of 2^-16:
 *   identity:       m00 ~ m11, m00 ~ m22, m00 !~ 0, all off-diagonal entries ~ 0
 *   scale:          diagonal !~ 0, off-diagonal ~ 0
 *   int_translate:  m00, m11, m22 ~ 1; m01, m10, m20, m21 ~ 0; frac (m02), frac (m12) ~ 0
 *   inverse (a,b):  a*b representable (multiply TRUE) and identity (a*b)
 *   -DVC_FN=0 within_epsilon | 1 is_identity | 2 is_scale | 3 is_int_translate | 4 is_inverse (multiply abstracted)
 *   -DVC_DOM=0 entries within (-2^30, 2^30) | 1 at least one entry outside | 2 no restriction
 */
#include "pixman-matrix.c"
#include "c11.h"

#define WE(a, b)   (SM_ABS128 ((sm_i128) (a) - (sm_i128) (b)) <= 2)
#define Z(a)       WE (a, 0)
#define MID(x)     ((x) > -((int64_t) 1 << 30) && (x) < ((int64_t) 1 << 30))
#define ALLMID(m)  (MID ((m).matrix[0][0]) && MID ((m).matrix[0][1]) && MID ((m).matrix[0][2]) && MID ((m).matrix[1][0]) && \
                    MID ((m).matrix[1][1]) && MID ((m).matrix[1][2]) && MID ((m).matrix[2][0]) && MID ((m).matrix[2][1]) && \
                    MID ((m).matrix[2][2]))
#define IDENT(m)   (WE ((m).matrix[0][0], (m).matrix[1][1]) && WE ((m).matrix[0][0], (m).matrix[2][2]) && !Z ((m).matrix[0][0]) && \
                    Z ((m).matrix[0][1]) && Z ((m).matrix[0][2]) && Z ((m).matrix[1][0]) && Z ((m).matrix[1][2]) && \
                    Z ((m).matrix[2][0]) && Z ((m).matrix[2][1]))

pixman_transform_t g_out;
pixman_bool_t g_ok;
#if defined(VH_CBMC) && VC_FN == 4
pixman_bool_t pixman_transform_multiply (struct pixman_transform *dst, const struct pixman_transform *l,
                                         const struct pixman_transform *r)
__CPROVER_assigns (*dst)
__CPROVER_ensures (__CPROVER_return_value == g_ok && (!g_ok || C11_MATRIX_EQ (*dst, g_out)));
#endif

void harness (void)
{
#if VC_FN == 0
    VH_IN (vh_i32, in_a);
    VH_IN (vh_i32, in_b);
    VH_IN (vh_i32, in_eps);
    pixman_bool_t r;
    VH_ASSUME (in_eps >= 0);
#if VC_DOM == 0
    VH_ASSUME (MID (in_a) && MID (in_b));
#endif
    r = within_epsilon (in_a, in_b, in_eps);
    VH_CHECK ("within_epsilon.is_abs_difference_le_eps", (r != FALSE) == (SM_ABS128 ((sm_i128) in_a - in_b) <= in_eps));
#else
    C11_IN_MATRIX (m, m);
    pixman_bool_t r;
#if VC_DOM == 0
    VH_ASSUME (ALLMID (m));
#elif VC_DOM == 1
    VH_ASSUME (!ALLMID (m));
#endif
#if VC_FN == 1
    r = pixman_transform_is_identity (&m);
    VH_CHECK ("is_identity.definition", (r != FALSE) == IDENT (m));
    VH_CHECK ("is_identity.exact_identity_is_TRUE",
              !(m.matrix[0][0] == SM_ONE && m.matrix[1][1] == SM_ONE && m.matrix[2][2] == SM_ONE && m.matrix[0][1] == 0 &&
                m.matrix[0][2] == 0 && m.matrix[1][0] == 0 && m.matrix[1][2] == 0 && m.matrix[2][0] == 0 && m.matrix[2][1] == 0) || r);
#elif VC_FN == 2
    r = pixman_transform_is_scale (&m);
    VH_CHECK ("is_scale.definition",
              (r != FALSE) == (!Z (m.matrix[0][0]) && !Z (m.matrix[1][1]) && !Z (m.matrix[2][2]) && Z (m.matrix[0][1]) &&
                               Z (m.matrix[0][2]) && Z (m.matrix[1][0]) && Z (m.matrix[1][2]) && Z (m.matrix[2][0]) && Z (m.matrix[2][1])));
#elif VC_FN == 3
    r = pixman_transform_is_int_translate (&m);
    VH_CHECK ("is_int_translate.definition",
              (r != FALSE) == (WE (m.matrix[0][0], SM_ONE) && WE (m.matrix[1][1], SM_ONE) && WE (m.matrix[2][2], SM_ONE) &&
                               Z (m.matrix[0][1]) && Z (m.matrix[1][0]) && Z (m.matrix[2][0]) && Z (m.matrix[2][1]) &&
                               ((int64_t) m.matrix[0][2] & 0xFFFF) <= 2 && ((int64_t) m.matrix[1][2] & 0xFFFF) <= 2));
#else
    {
        C11_IN_MATRIX (b, b);
        C11_IN_MATRIX (gout, o);
        VH_IN (vh_i32, in_g_ok);
        VH_ASSUME (in_g_ok == TRUE || in_g_ok == FALSE);
        g_ok = in_g_ok; g_out = gout;
#ifdef VH_REPLAY
        g_ok = pixman_transform_multiply (&g_out, &m, &b);
#endif
#if VC_DOM == 0
        VH_ASSUME (ALLMID (gout));
#endif
        r = pixman_transform_is_inverse (&m, &b);
        VH_CHECK ("is_inverse.product_representable_and_identity", (r != FALSE) == (g_ok && IDENT (g_out)));
    }
#endif
#endif
    VH_END ();
}
