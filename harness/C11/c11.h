/* c11.h — shared input declarations for the C11 harnesses (inputs are named in_* so the
 * driver can extract them from a trace and replay natively). */
#ifndef C11_H
#define C11_H
#include "spec_matrix.h"
#include "vh.h"

#define C11_IN_MATRIX(t, p)                                                             \
    VH_IN (vh_i32, in_##p##00); VH_IN (vh_i32, in_##p##01); VH_IN (vh_i32, in_##p##02); \
    VH_IN (vh_i32, in_##p##10); VH_IN (vh_i32, in_##p##11); VH_IN (vh_i32, in_##p##12); \
    VH_IN (vh_i32, in_##p##20); VH_IN (vh_i32, in_##p##21); VH_IN (vh_i32, in_##p##22); \
    pixman_transform_t t = { { { in_##p##00, in_##p##01, in_##p##02 },                  \
                               { in_##p##10, in_##p##11, in_##p##12 },                  \
                               { in_##p##20, in_##p##21, in_##p##22 } } }

#define C11_IN_AFFINE(t, p)                                                             \
    VH_IN (vh_i32, in_##p##00); VH_IN (vh_i32, in_##p##01); VH_IN (vh_i32, in_##p##02); \
    VH_IN (vh_i32, in_##p##10); VH_IN (vh_i32, in_##p##11); VH_IN (vh_i32, in_##p##12); \
    const vh_i32 in_##p##20 = 0, in_##p##21 = 0, in_##p##22 = 65536;                    \
    pixman_transform_t t = { { { in_##p##00, in_##p##01, in_##p##02 },                  \
                               { in_##p##10, in_##p##11, in_##p##12 },                  \
                               { 0, 0, 65536 } } }

#define C11_MATRIX_EQ(a, b)                                                                              \
    ((a).matrix[0][0] == (b).matrix[0][0] && (a).matrix[0][1] == (b).matrix[0][1] && (a).matrix[0][2] == (b).matrix[0][2] && \
     (a).matrix[1][0] == (b).matrix[1][0] && (a).matrix[1][1] == (b).matrix[1][1] && (a).matrix[1][2] == (b).matrix[1][2] && \
     (a).matrix[2][0] == (b).matrix[2][0] && (a).matrix[2][1] == (b).matrix[2][1] && (a).matrix[2][2] == (b).matrix[2][2])

#endif
