/* C11 pixman_transform_bounds: "a box containing all four transformed corners", or FALSE.
 *
 *   -DVC_REAL=0  pixman_transform_point replaced by its contract: a table of ghost results for the four
 *                corners (cx_k, cy_k, 1) of the spec (requires: called on one of these corners with w == 1;
 *                ensures: return g_ok[k], point (g_px[k], g_py[k], .)); any projective matrix.
 *   -DVC_REAL=1  real pixman_transform_point, matrix = translation by (in_tx, in_ty)  [replayable]
 *   -DVC_DOM=0   every transformable corner has its coordinates within [-32768, 32767] (floor and ceil fit int16):
 *                must return TRUE (iff all four points transformed) and the box contains them
 *   -DVC_DOM=1   some coordinate outside: TRUE only if the (int16) box really contains the points,
 *                i.e. FALSE instead of a wrapped box; pixman_fixed_ceil must not overflow
 */
#include "pixman-matrix.c"
#include "c11.h"

int32_t g_cx[4], g_cy[4], g_px[4], g_py[4];
pixman_bool_t g_okk[4];

#define ISK(k)  (__CPROVER_old (vector->vector[0]) == g_cx[k] && __CPROVER_old (vector->vector[1]) == g_cy[k])
#define ENSK(k) (!ISK (k) || (__CPROVER_return_value == g_okk[k] && \
                 (!g_okk[k] || (vector->vector[0] == g_px[k] && vector->vector[1] == g_py[k]))))
#if defined(VH_CBMC) && VC_REAL == 0
pixman_bool_t pixman_transform_point (const struct pixman_transform *transform, struct pixman_vector *vector)
__CPROVER_requires (vector->vector[2] == SM_ONE)
__CPROVER_requires ((vector->vector[0] == g_cx[0] && vector->vector[1] == g_cy[0]) || (vector->vector[0] == g_cx[1] && vector->vector[1] == g_cy[1]) ||
                    (vector->vector[0] == g_cx[2] && vector->vector[1] == g_cy[2]) || (vector->vector[0] == g_cx[3] && vector->vector[1] == g_cy[3]))
__CPROVER_assigns (vector->vector[0], vector->vector[1], vector->vector[2])
__CPROVER_ensures (ENSK (0) && ENSK (1) && ENSK (2) && ENSK (3));
#endif

#define INR(p)   ((p) >= -32768 * (int64_t) 65536 && (p) <= 32767 * (int64_t) 65536)

void harness (void)
{
    VH_IN (vh_i16, in_x1); VH_IN (vh_i16, in_y1); VH_IN (vh_i16, in_x2); VH_IN (vh_i16, in_y2);
    pixman_box16_t box = { in_x1, in_y1, in_x2, in_y2 };
    pixman_bool_t ok, allok, inrange;
    int k;
#if VC_REAL == 0
    C11_IN_MATRIX (t, m);
    VH_IN (vh_i32, in_g_px0); VH_IN (vh_i32, in_g_px1); VH_IN (vh_i32, in_g_px2); VH_IN (vh_i32, in_g_px3);
    VH_IN (vh_i32, in_g_py0); VH_IN (vh_i32, in_g_py1); VH_IN (vh_i32, in_g_py2); VH_IN (vh_i32, in_g_py3);
    VH_IN (vh_i32, in_g_ok0); VH_IN (vh_i32, in_g_ok1); VH_IN (vh_i32, in_g_ok2); VH_IN (vh_i32, in_g_ok3);
    g_px[0] = in_g_px0; g_px[1] = in_g_px1; g_px[2] = in_g_px2; g_px[3] = in_g_px3;
    g_py[0] = in_g_py0; g_py[1] = in_g_py1; g_py[2] = in_g_py2; g_py[3] = in_g_py3;
    g_okk[0] = in_g_ok0 != 0; g_okk[1] = in_g_ok1 != 0; g_okk[2] = in_g_ok2 != 0; g_okk[3] = in_g_ok3 != 0;
#else
    VH_IN (vh_i32, in_tx); VH_IN (vh_i32, in_ty);
    pixman_transform_t t = { { { SM_ONE, 0, in_tx }, { 0, SM_ONE, in_ty }, { 0, 0, SM_ONE } } };
#endif
    /* the four corners of the spec, 16.16 */
    g_cx[0] = in_x1 * 65536; g_cy[0] = in_y1 * 65536;
    g_cx[1] = in_x2 * 65536; g_cy[1] = in_y1 * 65536;
    g_cx[2] = in_x2 * 65536; g_cy[2] = in_y2 * 65536;
    g_cx[3] = in_x1 * 65536; g_cy[3] = in_y2 * 65536;
#if VC_REAL == 0
#ifdef VH_REPLAY
    for (k = 0; k < 4; k++)
    {
        pixman_vector_t v = { { g_cx[k], g_cy[k], SM_ONE } };
        g_okk[k] = pixman_transform_point (&t, &v);
        g_px[k] = v.vector[0]; g_py[k] = v.vector[1];
    }
#else
    /* the ghost table is a function of the corner: equal corners, equal results */
    {
        int j;
        for (k = 0; k < 4; k++)
            for (j = 0; j < k; j++)
                VH_ASSUME (!(g_cx[k] == g_cx[j] && g_cy[k] == g_cy[j]) ||
                           (g_okk[k] == g_okk[j] && g_px[k] == g_px[j] && g_py[k] == g_py[j]));
    }
#endif
#else
    for (k = 0; k < 4; k++)
    {
        /* translation: exact sum; not representable => the point transform reports FALSE */
        int64_t px = (int64_t) g_cx[k] + in_tx, py = (int64_t) g_cy[k] + in_ty;
        g_okk[k] = SM_FITS32 (px) && SM_FITS32 (py);
        g_px[k] = (int32_t) px; g_py[k] = (int32_t) py;
    }
#endif
    allok = g_okk[0] && g_okk[1] && g_okk[2] && g_okk[3];
    /* every corner that can be transformed at all lies within the int16 range */
    inrange = (!g_okk[0] || (INR (g_px[0]) && INR (g_py[0]))) && (!g_okk[1] || (INR (g_px[1]) && INR (g_py[1]))) &&
              (!g_okk[2] || (INR (g_px[2]) && INR (g_py[2]))) && (!g_okk[3] || (INR (g_px[3]) && INR (g_py[3])));
#if VC_DOM == 0
    VH_ASSUME (inrange);
#else
    VH_ASSUME (!inrange);
#endif

    ok = pixman_transform_bounds (&t, &box);

#if VC_DOM == 0
    VH_CHECK ("bounds.TRUE_iff_all_corners_transformed", (ok != FALSE) == (allok != FALSE));
#endif
    for (k = 0; k < 4; k++)
    {
        VH_CHECK ("bounds.TRUE_box_contains_corner_x",
                  !ok || ((int64_t) box.x1 * 65536 <= g_px[k] && g_px[k] <= (int64_t) box.x2 * 65536));
        VH_CHECK ("bounds.TRUE_box_contains_corner_y",
                  !ok || ((int64_t) box.y1 * 65536 <= g_py[k] && g_py[k] <= (int64_t) box.y2 * 65536));
    }
#if VC_DOM == 0
    /* tightness: the box is the smallest integer box (floor of min, ceil of max) */
    {
        int64_t minx = g_px[0], maxx = g_px[0];
        for (k = 1; k < 4; k++) { if (g_px[k] < minx) minx = g_px[k]; if (g_px[k] > maxx) maxx = g_px[k]; }
        VH_CHECK ("bounds.TRUE_box_is_tight_x",
                  !ok || (minx - (int64_t) box.x1 * 65536 < 65536 && (int64_t) box.x2 * 65536 - maxx < 65536));
    }
#endif
    VH_END ();
}
