/* C11 pixman_transform_init_{identity,scale,rotate,translate} and pixman_transform_{scale,rotate,translate}.
 *
 * Spec (property text: "return the correctly rounded result or FALSE on overflow"):
 *   scale (sx,sy):   forward' = diag(sx,sy,1) * forward          reverse' = reverse * diag(1/sx,1/sy,1)
 *   rotate (c,s):    forward' = [[c,-s,0],[s,c,0],[0,0,1]] * forward     reverse' = reverse * [[c,s,0],[-s,c,0],[0,0,1]]
 *   translate:       forward' = [[1,0,tx],[0,1,ty],[0,0,1]] * forward    reverse' = reverse * [[1,0,-tx],[0,1,-ty],[0,0,1]]
 * with 1/x = trunc (2^32 / x) in 16.16 (DESIGN.md §5 C11) and every entry of the factor matrix computed in
 * 64 bits: the factor must be *representable*; if it is not, the only correct answer is FALSE.
 *
 *   -DVC_FN=0 scale | 1 rotate | 2 translate | 3 the four init_* functions
 *   -DVC_DIR=0 forward only (reverse == NULL) | 1 reverse only (forward == NULL)
 *   -DVC_DOM=0 factor matrix representable: pixman_transform_multiply replaced by its contract
 *              (requires: called with exactly (dst, l, r) = the spec's operands; ensures: ghost result),
 *              post: return value and matrix are the multiply's
 *   -DVC_DOM=1 factor matrix NOT representable, real multiply, matrix = identity: must return FALSE
 */
#include "pixman-matrix.c"
#include "c11.h"

int64_t g_eL[3][3], g_eR[3][3];
pixman_transform_t g_out, *g_dst;
pixman_bool_t g_ok;

#define ME(m, e) \
    ((m).matrix[0][0] == e[0][0] && (m).matrix[0][1] == e[0][1] && (m).matrix[0][2] == e[0][2] && \
     (m).matrix[1][0] == e[1][0] && (m).matrix[1][1] == e[1][1] && (m).matrix[1][2] == e[1][2] && \
     (m).matrix[2][0] == e[2][0] && (m).matrix[2][1] == e[2][1] && (m).matrix[2][2] == e[2][2])

#if defined(VH_CBMC) && VC_DOM == 0 && VC_FN != 3
pixman_bool_t pixman_transform_multiply (struct pixman_transform *dst, const struct pixman_transform *l,
                                         const struct pixman_transform *r)
__CPROVER_requires (dst == g_dst && ME (*l, g_eL) && ME (*r, g_eR))
__CPROVER_assigns (*dst)
__CPROVER_ensures (__CPROVER_return_value == g_ok && (!g_ok || C11_MATRIX_EQ (*dst, g_out)));
#endif

#define SET3(e, a, b, c, d, f, g, h, i, j) \
    do { e[0][0] = a; e[0][1] = b; e[0][2] = c; e[1][0] = d; e[1][1] = f; e[1][2] = g; e[2][0] = h; e[2][1] = i; e[2][2] = j; } while (0)
#define COPY3(e, m) \
    SET3 (e, (m).matrix[0][0], (m).matrix[0][1], (m).matrix[0][2], (m).matrix[1][0], (m).matrix[1][1], (m).matrix[1][2], \
          (m).matrix[2][0], (m).matrix[2][1], (m).matrix[2][2])
#define COPYA(e, f) \
    SET3 (e, f[0][0], f[0][1], f[0][2], f[1][0], f[1][1], f[1][2], f[2][0], f[2][1], f[2][2])
#define REPR3(e) \
    (SM_FITS32 (e[0][0]) && SM_FITS32 (e[0][1]) && SM_FITS32 (e[0][2]) && SM_FITS32 (e[1][0]) && SM_FITS32 (e[1][1]) && \
     SM_FITS32 (e[1][2]) && SM_FITS32 (e[2][0]) && SM_FITS32 (e[2][1]) && SM_FITS32 (e[2][2]))

void harness (void)
{
    VH_IN (vh_i32, in_a);
    VH_IN (vh_i32, in_b);
    int64_t fac[3][3];           /* the factor matrix of the spec, 64-bit entries */
    pixman_bool_t ok;
    const int64_t a = in_a, b = in_b, one = SM_ONE;

#if VC_FN == 3
    {
        pixman_transform_t t;
        VH_IN (vh_i32, in_junk);
        int i, j;
        for (i = 0; i < 3; i++) for (j = 0; j < 3; j++) t.matrix[i][j] = in_junk;
        pixman_transform_init_identity (&t);
        SET3 (fac, one, 0, 0, 0, one, 0, 0, 0, one);
        VH_CHECK ("init_identity.value", ME (t, fac));
        for (i = 0; i < 3; i++) for (j = 0; j < 3; j++) t.matrix[i][j] = in_junk;
        pixman_transform_init_scale (&t, in_a, in_b);
        SET3 (fac, a, 0, 0, 0, b, 0, 0, 0, one);
        VH_CHECK ("init_scale.value", ME (t, fac));
        for (i = 0; i < 3; i++) for (j = 0; j < 3; j++) t.matrix[i][j] = in_junk;
        pixman_transform_init_translate (&t, in_a, in_b);
        SET3 (fac, one, 0, a, 0, one, b, 0, 0, one);
        VH_CHECK ("init_translate.value", ME (t, fac));
        for (i = 0; i < 3; i++) for (j = 0; j < 3; j++) t.matrix[i][j] = in_junk;
        SET3 (fac, a, -b, 0, b, a, 0, 0, 0, one);
#if VC_DOM == 0
        VH_ASSUME (REPR3 (fac));
        pixman_transform_init_rotate (&t, in_a, in_b);
        VH_CHECK ("init_rotate.value", ME (t, fac));
#else
        VH_ASSUME (!REPR3 (fac));
        pixman_transform_init_rotate (&t, in_a, in_b);
        /* void function, cannot report: at least it must not be undefined behaviour (overflow check) and
         * must not store a wrapped value */
        VH_CHECK ("init_rotate.no_wrapped_value", ME (t, fac));
#endif
    }
#else
    {
#if VC_DOM == 0
        C11_IN_MATRIX (m, m);
#else
        pixman_transform_t m = { { { SM_ONE, 0, 0 }, { 0, SM_ONE, 0 }, { 0, 0, SM_ONE } } };
#endif
        const pixman_transform_t m0 = m;
        VH_IN (vh_i32, in_g_ok);
        C11_IN_MATRIX (gout, o);
        int zero_scale = 0;

#if VC_FN == 0
        zero_scale = (in_a == 0 || in_b == 0);
        if (zero_scale)
            SET3 (fac, 0, 0, 0, 0, 0, 0, 0, 0, 0);
        else if (VC_DIR == 0)
            SET3 (fac, a, 0, 0, 0, b, 0, 0, 0, one);
        else
            SET3 (fac, ((int64_t) 1 << 32) / a, 0, 0, 0, ((int64_t) 1 << 32) / b, 0, 0, 0, one);
#elif VC_FN == 1
        if (VC_DIR == 0)
            SET3 (fac, a, -b, 0, b, a, 0, 0, 0, one);
        else
            SET3 (fac, a, b, 0, -b, a, 0, 0, 0, one);
#else
        if (VC_DIR == 0)
            SET3 (fac, one, 0, a, 0, one, b, 0, 0, one);
        else
            SET3 (fac, one, 0, -a, 0, one, -b, 0, 0, one);
#endif

#if VC_DOM == 0
        VH_ASSUME (REPR3 (fac));
        VH_ASSUME (in_g_ok == TRUE || in_g_ok == FALSE);
        g_ok = in_g_ok; g_out = gout; g_dst = &m;
        if (VC_DIR == 0) { COPYA (g_eL, fac); COPY3 (g_eR, m0); }      /* forward' = factor * forward */
        else             { COPY3 (g_eL, m0); COPYA (g_eR, fac); }      /* reverse' = reverse * factor */
#ifdef VH_REPLAY
        {   /* native replay: the ghost result is the real multiply of the spec's operands */
            pixman_transform_t f32;
            int i, j;
            for (i = 0; i < 3; i++) for (j = 0; j < 3; j++) f32.matrix[i][j] = (pixman_fixed_t) fac[i][j];
            g_ok = VC_DIR == 0 ? pixman_transform_multiply (&g_out, &f32, &m0) : pixman_transform_multiply (&g_out, &m0, &f32);
        }
#endif
#else
        VH_ASSUME (!zero_scale && !REPR3 (fac));
#endif

#if VC_FN == 0
        ok = pixman_transform_scale (VC_DIR == 0 ? &m : 0, VC_DIR == 1 ? &m : 0, in_a, in_b);
#elif VC_FN == 1
        ok = pixman_transform_rotate (VC_DIR == 0 ? &m : 0, VC_DIR == 1 ? &m : 0, in_a, in_b);
#else
        ok = pixman_transform_translate (VC_DIR == 0 ? &m : 0, VC_DIR == 1 ? &m : 0, in_a, in_b);
#endif

#if VC_DOM == 0
        if (zero_scale)
        {
            VH_CHECK ("scale.zero_factor_returns_FALSE", ok == FALSE);
            VH_CHECK ("scale.zero_factor_leaves_matrix", C11_MATRIX_EQ (m, m0));
        }
        else
        {
            VH_CHECK ("build.return_value_is_the_multiply_s", ok == g_ok);
            VH_CHECK ("build.TRUE_matrix_is_the_product", !ok || C11_MATRIX_EQ (m, g_out));
        }
#else
        VH_CHECK ("build.unrepresentable_factor_returns_FALSE", ok == FALSE);
#endif
    }
#endif
    VH_END ();
}
