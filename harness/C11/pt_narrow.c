/* C11 narrowing / return-value logic of the 16.16 entry points (route H, full width):
 * "return FALSE instead of a wrapped value when the result is not representable".
 *
 * The 48.16 value is abstracted (DESIGN.md §5 C11: "products abstracted"): the call of the 48.16
 * entry point inside the function under check is replaced by its contract
 *      requires  inputs within 31.16          (asserted at the call site)
 *      ensures   result == (g_R0, g_R1, g_R2), return value == g_ok       (arbitrary ghost values)
 * (goto-instrument --replace-call-with-contract), so the obligation is proved for *whatever* the
 * 48.16 function computes; what it computes is the subject of the split.* / proj.* jobs.
 * In the native replay the ghost values are what the real 48.16 function returns.
 *
 *   -DVC_FN=0  pixman_transform_point_3d   (callee pixman_transform_point_31_16_3d abstracted)
 *   -DVC_FN=1  pixman_transform_point      (callee pixman_transform_point_31_16 abstracted)
 *   -DVC_FN=2  pixman_transform_point, affine matrix, w = 1, nothing abstracted: spec written
 *              directly in split form (end-to-end cross-check; SMT back end)
 */
#include "pixman-matrix.c"
#include "c11.h"

int64_t g_R0, g_R1, g_R2;
pixman_bool_t g_ok;

#if defined(VH_CBMC) && VC_FN == 0
void pixman_transform_point_31_16_3d (const pixman_transform_t *t, const pixman_vector_48_16_t *v,
                                      pixman_vector_48_16_t *result)
__CPROVER_requires (SM_IN_31_16 (v->v[0]) && SM_IN_31_16 (v->v[1]) && SM_IN_31_16 (v->v[2]))
__CPROVER_assigns (result->v[0], result->v[1], result->v[2])
__CPROVER_ensures (result->v[0] == g_R0 && result->v[1] == g_R1 && result->v[2] == g_R2);
#endif
#if defined(VH_CBMC) && VC_FN == 1
pixman_bool_t pixman_transform_point_31_16 (const pixman_transform_t *t, const pixman_vector_48_16_t *v,
                                            pixman_vector_48_16_t *result)
__CPROVER_requires (SM_IN_31_16 (v->v[0]) && SM_IN_31_16 (v->v[1]) && SM_IN_31_16 (v->v[2]))
__CPROVER_assigns (result->v[0], result->v[1], result->v[2])
__CPROVER_ensures (result->v[0] == g_R0 && result->v[1] == g_R1 && result->v[2] == g_R2 &&
                   __CPROVER_return_value == g_ok);
#endif

void harness (void)
{
#if VC_FN == 2
    C11_IN_AFFINE (t, m);
#else
    C11_IN_MATRIX (t, m);
#endif
    VH_IN (vh_i32, in_x);
    VH_IN (vh_i32, in_y);
#if VC_FN == 2
    const vh_i32 in_w = SM_ONE;
#else
    VH_IN (vh_i32, in_w);
#endif
    VH_IN (vh_i64, in_g_R0);
    VH_IN (vh_i64, in_g_R1);
    VH_IN (vh_i64, in_g_R2);
    VH_IN (vh_i32, in_g_ok);
    pixman_vector_t vec = { { in_x, in_y, in_w } };
    pixman_bool_t ok;

    VH_ASSUME (in_g_ok == TRUE || in_g_ok == FALSE);
    g_R0 = in_g_R0; g_R1 = in_g_R1; g_R2 = in_g_R2; g_ok = in_g_ok;
#if VC_FN == 0
    g_ok = TRUE;
#endif
#if VC_FN == 2
    g_ok = TRUE;
    g_R0 = SM_RND (SM_H3 (in_m00, in_m01, in_m02, in_x, in_y, in_w), SM_L3 (in_m00, in_m01, in_m02, in_x, in_y, in_w));
    g_R1 = SM_RND (SM_H3 (in_m10, in_m11, in_m12, in_x, in_y, in_w), SM_L3 (in_m10, in_m11, in_m12, in_x, in_y, in_w));
    g_R2 = SM_ONE;
#elif defined(VH_REPLAY)
    {   /* native replay: the ghosts are the real 48.16 results */
        pixman_vector_48_16_t a = { { in_x, in_y, in_w } }, b;
#if VC_FN == 0
        pixman_transform_point_31_16_3d (&t, &a, &b);
#else
        g_ok = pixman_transform_point_31_16 (&t, &a, &b);
#endif
        g_R0 = b.v[0]; g_R1 = b.v[1]; g_R2 = b.v[2];
    }
#endif

#if VC_FN == 0
    ok = pixman_transform_point_3d (&t, &vec);
#else
    ok = pixman_transform_point (&t, &vec);
#endif

    VH_CHECK ("post.TRUE_iff_representable",
              (ok != FALSE) == (g_ok != FALSE && SM_FITS32 (g_R0) && SM_FITS32 (g_R1) && SM_FITS32 (g_R2)));
    VH_CHECK ("post.TRUE_implies_exact_value_x", !ok || vec.vector[0] == g_R0);
    VH_CHECK ("post.TRUE_implies_exact_value_y", !ok || vec.vector[1] == g_R1);
    VH_CHECK ("post.TRUE_implies_exact_value_w", !ok || vec.vector[2] == g_R2);
    VH_CHECK ("post.returns_boolean", ok == TRUE || ok == FALSE);
    VH_END ();
}
