/* C11 lemmas that connect the split form to the property's "rational product rounded to the nearest 1/65536".
 *   -DVC_CASE=0  [proof] for all H, L in the reachable ranges: H + ((L + 2^15) >> 16) is the round-half-up
 *                quotient of (2^16*H + L) by 2^16 (stated in 128 bits with multiplications by constants only)
 *   -DVC_CASE=1  [bounded: |m| < 2^VC_MB, |v| < 2^VC_VB] distributivity over the operand split:
 *                m*v == 2^16*(m*hi(v)) + m*lo(v), and 0 <= lo(v) < 2^16, v == 2^16*hi(v) + lo(v) [full width]
 */
#include <config.h>
#include "pixman-private.h"
#include "c11.h"

#ifndef VC_MB
#define VC_MB 12
#endif
#ifndef VC_VB
#define VC_VB 20
#endif

void harness (void)
{
#if VC_CASE == 0
    VH_IN (vh_i64, in_H);
    VH_IN (vh_i64, in_L);
    int64_t R;
    VH_ASSUME (in_H >= -3 * ((int64_t) 1 << 61) - ((int64_t) 1 << 31) && in_H <= 3 * ((int64_t) 1 << 61) + ((int64_t) 1 << 31));
    VH_ASSUME (in_L >= -3 * ((int64_t) 1 << 47) && in_L <= 3 * ((int64_t) 1 << 47));
    R = SM_RND (in_H, in_L);
    VH_CHECK ("lemma.split_rounding_is_round_half_up", SM_IS_RND_HALF_UP (R, (sm_i128) 65536 * in_H + in_L));
#else
    VH_IN (vh_i32, in_m);
    VH_IN (vh_i64, in_v);
    VH_CHECK ("lemma.split_is_exact_decomposition",
              SM_LO (in_v) >= 0 && SM_LO (in_v) < 65536 && (sm_i128) in_v == (sm_i128) 65536 * SM_HI (in_v) + SM_LO (in_v));
    VH_ASSUME (in_m > -(1 << VC_MB) && in_m < (1 << VC_MB));
    VH_ASSUME (in_v > -((int64_t) 1 << VC_VB) && in_v < ((int64_t) 1 << VC_VB));
    {
        /* VC_MB + VC_VB <= 30: every term is below 2^31, 32-bit arithmetic is exact within the bound */
        int32_t m = in_m, v = (int32_t) in_v;
        VH_CHECK ("lemma.distributivity_over_split", m * v == 65536 * (m * (v >> 16)) + m * (v & 0xFFFF));
    }
#endif
    VH_END ();
}
