/* C11 split-form exactness of the 48.16 entry points (route H, loop-free after unwinding 4,
 * full 31.16 input domain).
 *
 *   -DVC_FN=0  pixman_transform_point_31_16_affine   (rows 0,1 of any matrix; w taken as 1)
 *   -DVC_FN=1  pixman_transform_point_31_16_3d       (full 3x3, three components)
 *   -DVC_FN=2  pixman_transform_point_31_16          with an affine matrix (last row 0 0 1) and w = 1:
 *              must take no division, return TRUE and the same exactly rounded value
 *   -DVC_FN=3  pixman_transform_point_31_16          with homogeneous coordinate 0 (last row 0 0 0):
 *              FALSE, components saturated by sign
 *   -DVC_FN=4  pixman_transform_point_31_16          any 3x3 matrix, any vector (mode 1 only: never aborts)
 *   -DVC_FN=5  same, rows 0 and 1 of the matrix zero (the divisor path depends on row 2 only)
 *   -DVC_MODE=0  postcondition "result == H + floor((L + 2^15)/2^16)" in the same operand split
 *                (decided by an SMT back end: the two identical multiplications are matched by
 *                congruence; overflow checks are in mode 1)
 *   -DVC_MODE=1  no intermediate overflow / no failing internal assert for any input of the
 *                domain: CBMC's signed-overflow, shift, conversion checks on the real code.
 *   -DVC_ROW=0|1|2 component (mode 0 only; one component per query)
 */
#include "pixman-matrix.c"
#include "c11.h"

void harness (void)
{
#if VC_FN == 2
    C11_IN_AFFINE (t, m);
#elif VC_FN == 3
    VH_IN (vh_i32, in_m00); VH_IN (vh_i32, in_m01); VH_IN (vh_i32, in_m02);
    VH_IN (vh_i32, in_m10); VH_IN (vh_i32, in_m11); VH_IN (vh_i32, in_m12);
    const vh_i32 in_m20 = 0, in_m21 = 0, in_m22 = 0;
    pixman_transform_t t = { { { in_m00, in_m01, in_m02 }, { in_m10, in_m11, in_m12 }, { 0, 0, 0 } } };
#elif VC_FN == 5
    VH_IN (vh_i32, in_m20); VH_IN (vh_i32, in_m21); VH_IN (vh_i32, in_m22);
    pixman_transform_t t = { { { 0, 0, 0 }, { 0, 0, 0 }, { in_m20, in_m21, in_m22 } } };
#else
    C11_IN_MATRIX (t, m);
#endif
    VH_IN (vh_i64, in_x);
    VH_IN (vh_i64, in_y);
#if VC_FN == 0 || VC_FN == 2
    const vh_i64 in_w = SM_ONE;
#else
    VH_IN (vh_i64, in_w);
#endif
    pixman_vector_48_16_t v = { { in_x, in_y, in_w } };
    pixman_vector_48_16_t r = { { 1, 2, 3 } };
    pixman_bool_t ok = TRUE;

    VH_ASSUME (SM_IN_31_16 (in_x) && SM_IN_31_16 (in_y) && SM_IN_31_16 (in_w));

#if VC_FN == 0
    pixman_transform_point_31_16_affine (&t, &v, &r);
#elif VC_FN == 1
    pixman_transform_point_31_16_3d (&t, &v, &r);
#else
    ok = pixman_transform_point_31_16 (&t, &v, &r);
#endif

#if VC_MODE == 0
    {
#if VC_ROW == 0
        int64_t H = SM_H3 (in_m00, in_m01, in_m02, in_x, in_y, in_w);
        int64_t L = SM_L3 (in_m00, in_m01, in_m02, in_x, in_y, in_w);
#elif VC_ROW == 1
        int64_t H = SM_H3 (in_m10, in_m11, in_m12, in_x, in_y, in_w);
        int64_t L = SM_L3 (in_m10, in_m11, in_m12, in_x, in_y, in_w);
#else
        int64_t H = SM_H3 (in_m20, in_m21, in_m22, in_x, in_y, in_w);
        int64_t L = SM_L3 (in_m20, in_m21, in_m22, in_x, in_y, in_w);
#endif
        int64_t R = SM_RND (H, L);
#if VC_FN == 3
        VH_CHECK ("post.zero_w_returns_FALSE", ok == FALSE);
        VH_CHECK ("post.zero_w_saturates_by_sign",
                  r.v[VC_ROW] == (R > 0 ? INT64_MAX : R < 0 ? INT64_MIN : R /* == 0 */));
        VH_CHECK ("post.w_is_one", r.v[2] == SM_ONE);
#else
#if VC_FN == 0 || VC_FN == 2
        VH_CHECK ("post.w_is_one", r.v[2] == SM_ONE);
#endif
        VH_CHECK ("post.returns_TRUE", ok == TRUE);
        VH_CHECK ("post.component_is_split_form_round_half_up", r.v[VC_ROW] == R);
#endif
    }
#else
    /* mode 1: the obligations are the checks generated inside the real function */
    VH_CHECK ("post.input_vector_unchanged", v.v[0] == in_x && v.v[1] == in_y && v.v[2] == in_w);
#if VC_FN >= 2
    VH_CHECK ("post.w_is_one", r.v[2] == SM_ONE);
#endif
#endif
    VH_END ();
}
