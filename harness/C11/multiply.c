/* C11 pixman_transform_multiply (route H, full width, loops fully unrolled: 3x3x3).
 *
 * Spec of entry (i,j):  V = sum_o round_half_up (l[i][o] * r[o][j] / 2^16)   (per-term rounding: what the
 * code documents; the gap to the property's "correctly rounded" sum is the job multiply.sum_rounding)
 *   TRUE  <=> every V fits int32;  TRUE => dst[i][j] == V;  FALSE => dst unchanged.
 * The spec reads its operands from the very objects the function reads (lm, rm), so that the 32x32->64
 * products of code and spec are one and the same term for the solver.
 *
 *   -DVC_ALIAS=0 dst distinct | 1 dst == l | 2 dst == r        (the in-place forms used by scale/rotate/translate)
 *   -DVC_CASE=0  range logic + values
 *   -DVC_CASE=2  no signed overflow inside the function (CBMC's checks on the real code)
 *   -DVC_CASE=1  "correctly rounded result": dst[0][0] == round_half_up (sum_o l[0][o]*r[o][0] / 2^16)
 */
#include "pixman-matrix.c"
#include "c11.h"

#define V(i, j) (SM_MULTERM (lm.matrix[i][0], rm.matrix[0][j]) + SM_MULTERM (lm.matrix[i][1], rm.matrix[1][j]) + \
                 SM_MULTERM (lm.matrix[i][2], rm.matrix[2][j]))

void harness (void)
{
    C11_IN_MATRIX (lm, l);
    C11_IN_MATRIX (rm, r);
    C11_IN_MATRIX (dm, d);
    const pixman_transform_t l0 = lm, r0 = rm, d0 = dm;
    pixman_bool_t ok;
#if VC_CASE == 0
    int64_t v00 = V (0, 0), v01 = V (0, 1), v02 = V (0, 2), v10 = V (1, 0), v11 = V (1, 1), v12 = V (1, 2),
            v20 = V (2, 0), v21 = V (2, 1), v22 = V (2, 2);
    pixman_bool_t fits = SM_FITS32 (v00) && SM_FITS32 (v01) && SM_FITS32 (v02) && SM_FITS32 (v10) && SM_FITS32 (v11) &&
                         SM_FITS32 (v12) && SM_FITS32 (v20) && SM_FITS32 (v21) && SM_FITS32 (v22);
#endif
#if VC_CASE == 1
    sm_i128 P = (sm_i128) lm.matrix[0][0] * rm.matrix[0][0] + (sm_i128) lm.matrix[0][1] * rm.matrix[1][0] +
                (sm_i128) lm.matrix[0][2] * rm.matrix[2][0];
#endif
#if VC_ALIAS == 0
    pixman_transform_t *dst = &dm;
    const pixman_transform_t *before = &d0;
#elif VC_ALIAS == 1
    pixman_transform_t *dst = &lm;
    const pixman_transform_t *before = &l0;
#else
    pixman_transform_t *dst = &rm;
    const pixman_transform_t *before = &r0;
#endif

    ok = pixman_transform_multiply (dst, &lm, &rm);

#if VC_CASE == 0
    VH_CHECK ("multiply.TRUE_iff_all_entries_representable", (ok != FALSE) == (fits != FALSE));
    VH_CHECK ("multiply.returns_boolean", ok == TRUE || ok == FALSE);
    VH_CHECK ("multiply.FALSE_leaves_dst_unchanged", ok || C11_MATRIX_EQ (*dst, *before));
    VH_CHECK ("multiply.TRUE_row0", !ok || (dst->matrix[0][0] == v00 && dst->matrix[0][1] == v01 && dst->matrix[0][2] == v02));
    VH_CHECK ("multiply.TRUE_row1", !ok || (dst->matrix[1][0] == v10 && dst->matrix[1][1] == v11 && dst->matrix[1][2] == v12));
    VH_CHECK ("multiply.TRUE_row2", !ok || (dst->matrix[2][0] == v20 && dst->matrix[2][1] == v21 && dst->matrix[2][2] == v22));
#if VC_ALIAS != 1
    VH_CHECK ("multiply.frame_l_unchanged", C11_MATRIX_EQ (lm, l0));
#endif
#if VC_ALIAS != 2
    VH_CHECK ("multiply.frame_r_unchanged", C11_MATRIX_EQ (rm, r0));
#endif
#elif VC_CASE == 2
    /* the obligations are the overflow / conversion checks generated inside the real function */
    VH_CHECK ("multiply.returns_boolean", ok == TRUE || ok == FALSE);
#else
    VH_CHECK ("multiply.entry_is_correctly_rounded_sum", !ok || SM_IS_RND_HALF_UP (dst->matrix[0][0], P));
#endif
    VH_END ();
}
