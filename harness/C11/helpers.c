/* C11 helpers of the projective branch (static functions of pixman-matrix.c, reached by #include).
 *   -DVC_CASE=0  count_leading_zeros: for x != 0, n in [0,31] and 2^(31-n) <= x < 2^(32-n)
 *   -DVC_CASE=1  fixed_64_16_to_int128: (rhi:rlo) == floor((2^16*hi + lo) * 2^scalebits / 2^16), 128-bit exact
 *   -DVC_CASE=2  fixed_112_16_to_fixed_48_16: identity when the 128-bit value fits int64, else saturate by
 *                sign and set *clampflag (never cleared)
 *   -DVC_CASE=3  rounded_sdiv_128_by_49 sign logic, rounded_udiv_128_by_48 replaced by its contract:
 *                the callee receives (|N|, |div|) with |div| < 2^48 and the signed result is +-(its result)
 *   -DVC_CASE=4  rounded_udiv_128_by_48 quotient, BOUNDED operand width (VC_NBITS, VC_DBITS):
 *                Q == round-half-up(N / div):  2*Q*div <= 2*N + div < 2*(Q+1)*div
 *   -DVC_CASE=5  rounded_sdiv_128_by_49 quotient, BOUNDED: nearest, ties away from zero:
 *                2*|N - Q*div| <= |div|  and on a tie |Q*div| > |N|
 *   -DVC_CASE=6  rounded_udiv_128_by_48 with div == 2^48 exactly (the value the callers can produce,
 *                see abort.*): no wrap in the grade-school steps, BOUNDED numerator.  Not a job while the
 *                internal assert (div < 2^48) is in place: kept for checking a fix that relaxes it.
 */
#include "pixman-matrix.c"
#include "c11.h"

#ifndef VC_NBITS
#define VC_NBITS 20
#endif
#ifndef VC_DBITS
#define VC_DBITS 10
#endif

uint64_t g_qlo, g_qhi, g_exp_hi, g_exp_lo, g_exp_div;
#if defined(VH_CBMC) && VC_CASE == 3
static force_inline uint64_t rounded_udiv_128_by_48 (uint64_t hi, uint64_t lo, uint64_t div, uint64_t *result_hi)
__CPROVER_requires (div != 0 && div < ((uint64_t) 1 << 48))
__CPROVER_requires (hi == g_exp_hi && lo == g_exp_lo && div == g_exp_div)
__CPROVER_assigns (*result_hi)
__CPROVER_ensures (*result_hi == g_qhi && __CPROVER_return_value == g_qlo);
#endif

#define U128(hi, lo) (((sm_u128) (uint64_t) (hi) << 64) | (uint64_t) (lo))
#define I128(hi, lo) ((sm_i128) U128 (hi, lo))

void harness (void)
{
#if VC_CASE == 0
    VH_IN (vh_u32, in_x);
    int n;
    VH_ASSUME (in_x != 0);          /* __builtin_clz (0) is undefined; the only caller passes hi32divbits > 0 (abort.* jobs) */
    n = count_leading_zeros (in_x);
    VH_CHECK ("clz.range", n >= 0 && n <= 31);
    VH_CHECK ("clz.position_of_top_bit", ((uint64_t) 1 << (31 - n)) <= in_x && (uint64_t) in_x < ((uint64_t) 1 << (32 - n)));

#elif VC_CASE == 1
    VH_IN (vh_i64, in_hi);
    VH_IN (vh_i64, in_lo);
    VH_IN (vh_i32, in_s);
    int64_t rhi = 7, rlo = 9;
    sm_i128 N, R;
    /* domain of the call sites: |hi| <= 3*2^61 (sum of three 31x31-bit products or a divisor),
     * |lo| <= 3*2^47, scalebits in [-16, 32] */
    VH_ASSUME (in_hi >= -3 * ((int64_t) 1 << 61) && in_hi <= 3 * ((int64_t) 1 << 61));
    VH_ASSUME (in_lo >= -3 * ((int64_t) 1 << 47) && in_lo <= 3 * ((int64_t) 1 << 47));
    VH_ASSUME (in_s >= -16 && in_s <= 32);
    fixed_64_16_to_int128 (in_hi, in_lo, &rhi, &rlo, in_s);
    N = (sm_i128) in_hi * 65536 + in_lo;
    R = I128 (rhi, rlo);
    if (in_s >= 16)
        VH_CHECK ("to_int128.exact_scale_up", R == (sm_i128) ((sm_u128) N << (in_s - 16)));   /* |N| < 2^80: no bit lost */
    else
    {
        /* R == floor (N / 2^k), k = 16 - scalebits in [1, 32], stated without shifting negative values:
         * R*2^k <= N < (R+1)*2^k  (|R| < 2^80: no bit lost) */
        int k = 16 - in_s;
        VH_CHECK ("to_int128.result_magnitude", R > -((sm_i128) 1 << 80) && R < ((sm_i128) 1 << 80));
        VH_CHECK ("to_int128.floor_scale_down", (sm_i128) ((sm_u128) R << k) <= N && N < (sm_i128) ((sm_u128) (R + 1) << k));
    }

#elif VC_CASE == 2
    VH_IN (vh_i64, in_hi);
    VH_IN (vh_i64, in_lo);
    VH_IN (vh_i32, in_flag);
    pixman_bool_t flag = in_flag;
    sm_i128 X = I128 (in_hi, in_lo);
    int64_t r = fixed_112_16_to_fixed_48_16 (in_hi, in_lo, &flag);
    if (X >= INT64_MIN && X <= INT64_MAX)
    {
        VH_CHECK ("to_48_16.identity_in_range", r == (int64_t) X);
        VH_CHECK ("to_48_16.flag_untouched_in_range", flag == in_flag);
    }
    else
    {
        VH_CHECK ("to_48_16.saturates_by_sign", r == (X > 0 ? INT64_MAX : INT64_MIN));
        VH_CHECK ("to_48_16.flag_set_on_clamp", flag == TRUE);
    }

#elif VC_CASE == 3
    VH_IN (vh_i64, in_hi);
    VH_IN (vh_u64, in_lo);
    VH_IN (vh_i64, in_div);
    VH_IN (vh_u64, in_g_qlo);
    VH_IN (vh_u64, in_g_qhi);
    int64_t rhi = 5;
    int64_t rlo;
    sm_i128 N = I128 (in_hi, in_lo), Q, G;
    sm_u128 A;
    /* |N| <= 2^126 (call sites: |N| < 2^97), 0 < |div| < 2^48 */
    VH_ASSUME (in_hi >= -((int64_t) 1 << 62) && in_hi < ((int64_t) 1 << 62));
    VH_ASSUME (in_div != 0 && in_div > -((int64_t) 1 << 48) && in_div < ((int64_t) 1 << 48));
    A = (sm_u128) (N < 0 ? -N : N);
    g_exp_hi = (uint64_t) (A >> 64); g_exp_lo = (uint64_t) A;
    g_exp_div = in_div < 0 ? -in_div : in_div;
    g_qlo = in_g_qlo; g_qhi = in_g_qhi;
    VH_ASSUME (in_g_qhi < ((uint64_t) 1 << 62));
#ifdef VH_REPLAY
    g_qlo = rounded_udiv_128_by_48 (g_exp_hi, g_exp_lo, g_exp_div, &g_qhi);
#endif
    rlo = rounded_sdiv_128_by_49 (in_hi, in_lo, in_div, &rhi);
    Q = I128 (rhi, rlo);
    G = (sm_i128) U128 (g_qhi, g_qlo);
    VH_CHECK ("sdiv.sign_symmetric", Q == (((N < 0) != (in_div < 0)) ? -G : G));

#elif VC_CASE == 4 || VC_CASE == 6
    VH_IN (vh_u64, in_lo);
    VH_IN (vh_u64, in_div);
    uint64_t qhi = 3, qlo;
    sm_u128 N, Q, D;
    VH_ASSUME (in_lo < ((uint64_t) 1 << VC_NBITS));
#if VC_CASE == 4
    VH_ASSUME (in_div != 0 && in_div < ((uint64_t) 1 << VC_DBITS));
    N = in_lo;
    D = in_div;
    qlo = rounded_udiv_128_by_48 (0, in_lo, in_div, &qhi);
#else
    /* numerator (in_lo * 2^48 + in_div'), divisor 2^48: quotient is in_lo rounded by bit 47 of the rest */
    VH_ASSUME (in_div < ((uint64_t) 1 << 48));
    N = ((sm_u128) in_lo << 48) + in_div;
    D = (sm_u128) 1 << 48;
    qlo = rounded_udiv_128_by_48 ((uint64_t) (N >> 64), (uint64_t) N, (uint64_t) D, &qhi);
#endif
    Q = U128 (qhi, qlo);
    VH_CHECK ("udiv.round_half_up_quotient", 2 * Q * D <= 2 * N + D && 2 * N + D < 2 * (Q + 1) * D);

#elif VC_CASE == 5
    VH_IN (vh_i64, in_n);
    VH_IN (vh_i64, in_div);
    int64_t rhi = 5, rlo;
    sm_i128 N, Q, E, D;
    VH_ASSUME (in_n > -((int64_t) 1 << VC_NBITS) && in_n < ((int64_t) 1 << VC_NBITS));
    VH_ASSUME (in_div != 0 && in_div > -((int64_t) 1 << VC_DBITS) && in_div < ((int64_t) 1 << VC_DBITS));
    N = in_n;
    rlo = rounded_sdiv_128_by_49 ((int64_t) (N >> 64), (uint64_t) N, in_div, &rhi);
    Q = I128 (rhi, rlo);
    E = N - Q * in_div;
    D = SM_ABS128 (in_div);
    VH_CHECK ("sdiv.nearest", 2 * SM_ABS128 (E) <= D);
    VH_CHECK ("sdiv.ties_away_from_zero", 2 * SM_ABS128 (E) != D || SM_ABS128 (Q * in_div) > SM_ABS128 (N));
#endif
    VH_END ();
}
