/* C09: the opacity-based operator strength reduction never changes the pixel.
 *
 * For operator A (-DVC_OPA=<PIXMAN_OP_* suffix>) and opacity cell VC_CELL
 * (1 = source(+mask) opaque, 2 = destination opaque, 3 = both) let
 * B = optimize_operator (A, flags of that cell)  -- the REAL function reading the
 * REAL operator_table.  For every (s, m, d) whose alphas are forced to 255 as
 * the cell says, the REAL combiner registered for A and the REAL combiner
 * registered for B (looked up in the table filled by the REAL
 * _pixman_setup_combiner_functions_32) must give the same destination pixel.
 * VC_MODE 0: no mask, 1: unified mask.  (Component-alpha masks are never
 * "opaque": compute_image_info clears IS_OPAQUE for them — see info.c.)
 * Loop-free (width 1), full pixel domain; relational on the real code, no spec.
 */
#include "pixman-combine32.c"
#define pixman_constructor vh_unused_pixman_constructor
#include "pixman.c"
#include "vh.h"

/* the library constructor is not part of the property */
pixman_implementation_t *_pixman_choose_implementation (void) { return 0; }

#define VC_CAT2(a, b) a##b
#define VC_CAT(a, b) VC_CAT2 (a, b)
#define OPA VC_CAT (PIXMAN_OP_, VC_OPA)

static pixman_implementation_t vh_imp;

static uint32_t run (pixman_op_t op, uint32_t s, uint32_t m, uint32_t d)
{
    uint32_t dest[1] = { d }, src[1] = { s }, mask[1] = { m };
    pixman_combine_32_func_t f = vh_imp.combine_32[op];
    /* explicit dispatch on the registered pointer keeps the query small and
     * fails (no matching case) if an unexpected routine is registered */
#define TRY(fn) if (f == fn) { fn (&vh_imp, op, dest, src, VC_MODE ? mask : (const uint32_t *) 0, 1); return dest[0]; }
    TRY (combine_clear) TRY (combine_src_u) TRY (combine_dst) TRY (combine_over_u) TRY (combine_over_reverse_u)
    TRY (combine_in_u) TRY (combine_in_reverse_u) TRY (combine_out_u) TRY (combine_out_reverse_u)
    TRY (combine_atop_u) TRY (combine_atop_reverse_u) TRY (combine_xor_u) TRY (combine_add_u)
    VH_CHECK ("dispatch.registered_combiner_is_a_known_porter_duff_routine", 0);
    return 0;
}

void harness (void)
{
    VH_IN (vh_u32, in_s);
    VH_IN (vh_u32, in_m);
    VH_IN (vh_u32, in_d);
    VH_IN (vh_u32, in_other_src_flags);
    VH_IN (vh_u32, in_other_mask_flags);
    VH_IN (vh_u32, in_other_dst_flags);
    uint32_t sf, mf, df;
    pixman_op_t b;

    _pixman_setup_combiner_functions_32 (&vh_imp);

    /* the flag words carry arbitrary other bits; only IS_OPAQUE is fixed by the cell */
    sf = in_other_src_flags & ~FAST_PATH_IS_OPAQUE;
    mf = in_other_mask_flags & ~FAST_PATH_IS_OPAQUE;
    df = in_other_dst_flags & ~FAST_PATH_IS_OPAQUE;
#if VC_CELL & 1
    sf |= FAST_PATH_IS_OPAQUE;
    mf |= FAST_PATH_IS_OPAQUE;       /* no mask: composite32 passes IS_OPAQUE for the absent mask */
    VH_ASSUME ((in_s >> 24) == 0xff);
#if VC_MODE == 1
    VH_ASSUME ((in_m >> 24) == 0xff);
#endif
#endif
#if VC_CELL & 2
    df |= FAST_PATH_IS_OPAQUE;
    VH_ASSUME ((in_d >> 24) == 0xff);
#endif
    b = optimize_operator (OPA, sf, mf, df);
    VH_CHECK ("optab.reduced_operator_is_porter_duff", (unsigned) b <= PIXMAN_OP_ADD);
    VH_CHECK ("optab.same_pixel_as_original_operator", run (OPA, in_s, in_m, in_d) == run (b, in_s, in_m, in_d));
    VH_END ();
}
