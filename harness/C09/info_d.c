/* C09 route D (lead): compute_image_info on a gradient with ANY number of stops: FAST_PATH_IS_OPAQUE is only set if every
 * stop is opaque — stated for a ghost stop index g_k, the stop loop closed by a loop invariant (props/C09.py).
 *   -DVC_TYPE=LINEAR|CONICAL|RADIAL
 */
#include "vh.h"
#include <stdlib.h>
void _pixman_log_error (const char *f, const char *m) { (void) f; (void) m; }
#include "pixman-image.c"

long g_n;  /* ghost: number of stops */
int g_k;   /* ghost stop index */

void ct_compute_image_info (pixman_image_t *image)
__CPROVER_requires (__CPROVER_is_fresh (image, sizeof (*image)))
__CPROVER_requires (image->type == VC_TYPE)
__CPROVER_requires (image->common.transform == (pixman_transform_t *) 0 && image->common.alpha_map == (bits_image_t *) 0)
__CPROVER_requires (g_n >= 1 && g_n <= (1 << 20) && image->gradient.n_stops == g_n)
__CPROVER_requires (__CPROVER_is_fresh (image->gradient.stops, g_n * sizeof (pixman_gradient_stop_t)))
__CPROVER_requires (0 <= g_k && g_k < g_n)
__CPROVER_assigns (image->common.flags, image->common.extended_format_code)
__CPROVER_ensures (!(image->common.flags & FAST_PATH_IS_OPAQUE) ||
                   (image->gradient.stops[g_k].color.alpha == 0xffff && image->common.repeat != PIXMAN_REPEAT_NONE &&
                    !image->common.component_alpha && image->common.filter != PIXMAN_FILTER_CONVOLUTION &&
                    image->common.filter != PIXMAN_FILTER_SEPARABLE_CONVOLUTION))
;

void harness (void)
{
    pixman_image_t *img;
    compute_image_info (img);
    VH_END ();
}
