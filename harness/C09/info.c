/* C09 (flag half): compute_image_info never claims opacity that the picture does not have.
 *
 *   FAST_PATH_IS_OPAQUE      in flags  ==>  SPEC_OPAQUE (image)          (spec/spec_image.h: spi_opaque)
 *   FAST_PATH_SAMPLES_OPAQUE in flags  ==>  spi_samples_opaque (image)
 *   extended_format_code == PIXMAN_solid  ==>  a solid fill, or a 1x1 BITS image that repeats
 *
 * SPEC_OPAQUE is written from the property text ("every sample that can contribute, including
 * samples outside a non-repeating image, has alpha 1"), with a literal table of the formats that
 * have neither an alpha channel nor a palette — not with PIXMAN_FORMAT_A/TYPE.
 *
 * The image is arbitrary: any type (-DVI_TYPE fixes it per query), any transform, filter, repeat
 * (including out-of-range codes), component alpha, optional alpha map, any old flags.  Loop-free
 * except the gradient stop loop (n_stops <= 3: bounded).
 */
#define IH_NO_REGION32
#define IH_NO_UTILS
#include "../C20/ih.h"

void _pixman_log_error (const char *function, const char *message) { (void) function; (void) message; }

void harness (void)
{
    IH_INPUTS (a);
    IH_INPUTS (m);
    VH_IN (vh_u8, in_has_am);
    ih_own ao, mo;
    ih_props p0, p1;
    pixman_image_t *img, *am = 0;
    uint32_t f;

    ih_assume_domain (&a);
    ih_assume_domain (&m);
#ifdef VI_TYPE
    VH_ASSUME (a.type == VI_TYPE);
    a.type = VI_TYPE;
#endif
    /* API: a BITS image has one of the formats of pixman.h */
    VH_ASSUME (a.type != BITS || spi_format_class ((pixman_format_code_t) a.format) != SPI_FC_UNKNOWN);
    if (in_has_am)
    {
        VH_ASSUME (m.type == BITS);
        m.type = BITS;
        am = ih_build (&m, &mo, 1);
    }
    img = ih_build (&a, &ao, 0);
    if (am)
        ih_attach (img, am);
    ih_props_get (&p0, img, IH_MAXFP, 0);

    compute_image_info (img);

    f = img->common.flags;
    VH_CHECK ("info.is_opaque_implies_spec_opaque", !(f & FAST_PATH_IS_OPAQUE) || spi_opaque (img));
    VH_CHECK ("info.samples_opaque_implies_spec_samples_opaque", !(f & FAST_PATH_SAMPLES_OPAQUE) || spi_samples_opaque (img));
    VH_CHECK ("info.solid_code_only_for_solid_or_repeating_1x1",
              img->common.extended_format_code != PIXMAN_solid
              || img->type == SOLID
              || (img->type == BITS && img->bits.width == 1 && img->bits.height == 1
                  && img->common.repeat != PIXMAN_REPEAT_NONE));
    /* (lead, C08/C04) the transform-class flags are licences for specialised fetchers: each may be set only if the
     * matrix really has that shape ("the fetched value equals the reference for affine and projective transforms
     * alike, whichever internal fetcher is used") */
    {
        const pixman_transform_t *t = img->common.transform;
        int affine = t && t->matrix[2][0] == 0 && t->matrix[2][1] == 0 && t->matrix[2][2] == pixman_fixed_1;
        VH_CHECK ("info.id_transform_flag_only_without_a_matrix", !(f & FAST_PATH_ID_TRANSFORM) || t == 0);
        VH_CHECK ("info.affine_flag_only_if_last_row_is_0_0_1", !(f & FAST_PATH_AFFINE_TRANSFORM) || t == 0 || affine);
        VH_CHECK ("info.scale_flag_only_for_diagonal_affine_matrix",
                  !(f & FAST_PATH_SCALE_TRANSFORM) || (affine && t->matrix[0][1] == 0 && t->matrix[1][0] == 0));
        VH_CHECK ("info.rotate_flags_only_for_exact_quarter_turns",
                  (!(f & FAST_PATH_ROTATE_90_TRANSFORM) || (affine && t->matrix[0][0] == 0 && t->matrix[1][1] == 0 && t->matrix[0][1] == -pixman_fixed_1 && t->matrix[1][0] == pixman_fixed_1)) &&
                  (!(f & FAST_PATH_ROTATE_270_TRANSFORM) || (affine && t->matrix[0][0] == 0 && t->matrix[1][1] == 0 && t->matrix[0][1] == pixman_fixed_1 && t->matrix[1][0] == -pixman_fixed_1)) &&
                  (!(f & FAST_PATH_ROTATE_180_TRANSFORM) || (affine && t->matrix[0][1] == 0 && t->matrix[1][0] == 0 && t->matrix[0][0] == -pixman_fixed_1 && t->matrix[1][1] == -pixman_fixed_1)));
        VH_CHECK ("info.unit_flags_describe_the_first_column",
                  (!(f & FAST_PATH_X_UNIT_POSITIVE) || t == 0 || t->matrix[0][0] > 0) &&
                  (!(f & FAST_PATH_Y_UNIT_ZERO) || t == 0 || t->matrix[1][0] == 0));
        VH_CHECK ("info.has_transform_flag_iff_matrix_present", ((f & FAST_PATH_HAS_TRANSFORM) != 0) == (t != 0));
    }
    /* the analysis only reads the properties */
    ih_props_get (&p1, img, IH_MAXFP, 0);
    VH_CHECK ("info.properties_not_written", ih_props_equal (&p0, &p1));
    ih_release (img);
    ih_release (am);
    VH_END ();
}
