/* C09: optimize_operator() selects the table cell the opacity flags say, for every
 * operator and every flag word; and operators outside the 14 Porter-Duff/ADD/SATURATE
 * codes are never changed (disjoint/conjoint/PDF rows map to themselves).
 * Cell semantics written from the property: source counts as opaque only if
 * BOTH source and mask are flagged opaque. */
#define pixman_constructor vh_unused_pixman_constructor
#include "pixman.c"
#include "vh.h"

/* the library constructor is not part of the property */
pixman_implementation_t *_pixman_choose_implementation (void) { return 0; }

void harness (void)
{
    VH_IN (vh_u32, in_op);
    VH_IN (vh_u32, in_sf);
    VH_IN (vh_u32, in_mf);
    VH_IN (vh_u32, in_df);
    int src_opaque, dst_opaque;
    pixman_op_t r;

    VH_ASSUME (in_op <= PIXMAN_OP_HSL_LUMINOSITY);
    /* the holes in the operator numbering are not operators */
    VH_ASSUME (!(in_op == 0x0e || in_op == 0x0f || (in_op >= 0x1c && in_op <= 0x1f) || (in_op >= 0x2c && in_op <= 0x2f)));
    src_opaque = (in_sf & FAST_PATH_IS_OPAQUE) && (in_mf & FAST_PATH_IS_OPAQUE);
    dst_opaque = (in_df & FAST_PATH_IS_OPAQUE) != 0;
    r = optimize_operator ((pixman_op_t) in_op, in_sf, in_mf, in_df);
    VH_CHECK ("optfn.cell_selected_by_flags", r == operator_table[in_op].opaque_info[(dst_opaque ? 2 : 0) | (src_opaque ? 1 : 0)]);
    VH_CHECK ("optfn.no_opacity_no_change", (src_opaque || dst_opaque) || r == (pixman_op_t) in_op || in_op > PIXMAN_OP_SATURATE);
    /* beyond the Porter-Duff block only the six pure aliases DISJOINT_/CONJOINT_ CLEAR, SRC, DST may be
     * renamed to CLEAR, SRC, DST (same Fa/Fb: 0,0 / 1,0 / 0,1); every other operator is left alone */
    VH_CHECK ("optfn.non_porter_duff_operators_unchanged",
              in_op <= PIXMAN_OP_SATURATE || r == (pixman_op_t) in_op ||
              ((in_op == PIXMAN_OP_DISJOINT_CLEAR || in_op == PIXMAN_OP_CONJOINT_CLEAR) && r == PIXMAN_OP_CLEAR) ||
              ((in_op == PIXMAN_OP_DISJOINT_SRC || in_op == PIXMAN_OP_CONJOINT_SRC) && r == PIXMAN_OP_SRC) ||
              ((in_op == PIXMAN_OP_DISJOINT_DST || in_op == PIXMAN_OP_CONJOINT_DST) && r == PIXMAN_OP_DST));
    VH_CHECK ("optfn.result_is_an_operator", (unsigned) r <= PIXMAN_OP_HSL_LUMINOSITY);
    VH_END ();
}
